// Package datachannel is a FAKE of github.com/pion/datachannel used only by controlled-schedule
// verification builds (injected with `go build -overlay`; see /verif/DESIGN.md). It keeps the API
// surface pion/webrtc uses. What the remote peer does (messages, DCEP ack, stream reset) is decided
// by the harness through the Env* methods; blocking calls go through sctp.Hooks.Wait.
package datachannel

import (
	"errors"
	"io"
	"sync"
	"time"

	"github.com/pion/logging"
	"github.com/pion/sctp"
)

// ChannelType mirrors the real type.
type ChannelType byte

// ChannelType values (RFC 8832).
const (
	ChannelTypeReliable                       ChannelType = 0x00
	ChannelTypeReliableUnordered              ChannelType = 0x80
	ChannelTypePartialReliableRexmit          ChannelType = 0x01
	ChannelTypePartialReliableRexmitUnordered ChannelType = 0x81
	ChannelTypePartialReliableTimed           ChannelType = 0x02
	ChannelTypePartialReliableTimedUnordered  ChannelType = 0x82
)

// Channel priorities.
const (
	ChannelPriorityBelowNormal uint16 = 128
	ChannelPriorityNormal      uint16 = 256
	ChannelPriorityHigh        uint16 = 512
	ChannelPriorityExtraHigh   uint16 = 1024
)

// Config mirrors the real struct.
type Config struct {
	ChannelType          ChannelType
	Negotiated           bool
	Priority             uint16
	ReliabilityParameter uint32
	Label                string
	Protocol             string
	LoggerFactory        logging.LoggerFactory
}

type (
	// Reader mirrors the real interface.
	Reader interface {
		ReadDataChannel([]byte) (int, bool, error)
	}
	// ReadDeadliner mirrors the real interface.
	ReadDeadliner interface{ SetReadDeadline(time.Time) error }
	// Writer mirrors the real interface.
	Writer interface {
		WriteDataChannel([]byte, bool) (int, error)
	}
	// WriteDeadliner mirrors the real interface.
	WriteDeadliner interface{ SetWriteDeadline(time.Time) error }
	// ReadWriteCloser mirrors the real interface.
	ReadWriteCloser interface {
		io.Reader
		io.Writer
		Reader
		Writer
		io.Closer
	}
	// ReadWriteCloserDeadliner mirrors the real interface.
	ReadWriteCloserDeadliner interface {
		ReadWriteCloser
		ReadDeadliner
		WriteDeadliner
	}
)

// ErrStreamClosed is returned when writing on a closed stream.
var ErrStreamClosed = errors.New("fake datachannel: stream closed")

// Msg is a user message.
type Msg struct {
	Data     []byte
	IsString bool
}

// DataChannel is the fake channel.
type DataChannel struct {
	Config
	assoc *sctp.Association
	id    uint16
	// mu makes the fake usable by free-running goroutines (conformance run); critical sections never block
	mu sync.Mutex

	inbox       []Msg
	ackPending  bool // the peer's DCEP ack arrived and has not been processed by a reader yet
	peerReset   bool // the peer reset its outgoing stream (our reads end with io.EOF)
	localClosed bool // Close() was called (outgoing stream reset requested)
	onOpen      func()
	openFired   bool

	Sent                       []Msg
	bufferedAmountLowThreshold uint64
	onBufferedAmountLow        func()
	msgsRecv                   uint32
	bytesRecv                  uint64
}

func newDC(a *sctp.Association, id uint16, cfg *Config) *DataChannel {
	return &DataChannel{Config: *cfg, assoc: a, id: id}
}

// Dial opens a channel towards the peer (returns at once, as the real one does).
func Dial(a *sctp.Association, id uint16, config *Config) (*DataChannel, error) {
	if a == nil || a.Aborted() {
		return nil, sctp.ErrAborted
	}

	return newDC(a, id, config), nil
}

// Accept waits for a channel opened by the peer.
func Accept(a *sctp.Association, config *Config, existingChannels ...*DataChannel) (*DataChannel, error) {
	o, err := a.AcceptOpen()
	if err != nil {
		return nil, err
	}
	for _, ch := range existingChannels {
		if ch.StreamIdentifier() == o.StreamID {
			return ch, nil
		}
	}
	cfg := *config
	if p, ok := o.Payload.(Config); ok {
		lf := cfg.LoggerFactory
		cfg = p
		cfg.LoggerFactory = lf
	}

	return newDC(a, o.StreamID, &cfg), nil
}

// StreamIdentifier returns the stream id.
func (c *DataChannel) StreamIdentifier() uint16 { return c.id }

// ReadDataChannel blocks until a message, the peer's reset, or the end of the association.
func (c *DataChannel) ReadDataChannel(p []byte) (int, bool, error) {
	for {
		sctp.Hooks.Wait("dc-read", func() bool {
			c.mu.Lock()
			defer c.mu.Unlock()

			return len(c.inbox) > 0 || c.ackPending || c.peerReset || c.assoc.Aborted()
		})
		c.mu.Lock()
		switch {
		case c.ackPending:
			c.ackPending = false
			fire := c.fireOpenLocked()
			c.mu.Unlock()
			if fire != nil {
				sctp.Hooks.Go(fire)
			}

			continue
		case len(c.inbox) > 0:
			m := c.inbox[0]
			c.inbox = c.inbox[1:]
			if len(m.Data) > len(p) {
				c.mu.Unlock()

				return len(m.Data), false, io.ErrShortBuffer
			}
			c.msgsRecv++
			c.bytesRecv += uint64(len(m.Data))
			c.mu.Unlock()

			return copy(p, m.Data), m.IsString, nil
		case c.peerReset:
			// "When the peer sees that an incoming stream was reset, it also resets its corresponding outgoing stream."
			c.localClosed = true
			c.mu.Unlock()

			return 0, false, io.EOF
		default:
			c.mu.Unlock()

			return 0, false, sctp.ErrAborted
		}
	}
}

func (c *DataChannel) fireOpenLocked() func() {
	if c.openFired || c.onOpen == nil {
		return nil
	}
	c.openFired = true

	return c.onOpen
}

// Read implements io.Reader.
func (c *DataChannel) Read(p []byte) (int, error) {
	n, _, err := c.ReadDataChannel(p)

	return n, err
}

// WriteDataChannel sends a message.
func (c *DataChannel) WriteDataChannel(p []byte, isString bool) (int, error) {
	if c.assoc.Aborted() {
		return 0, sctp.ErrAborted
	}
	c.mu.Lock()
	defer c.mu.Unlock()
	if c.localClosed {
		return 0, ErrStreamClosed
	}
	c.Sent = append(c.Sent, Msg{Data: append([]byte{}, p...), IsString: isString})

	return len(p), nil
}

// Write implements io.Writer.
func (c *DataChannel) Write(p []byte) (int, error) { return c.WriteDataChannel(p, false) }

// Close resets the outgoing stream; reads end only when the peer resets its side (EnvPeerReset) or the association ends.
func (c *DataChannel) Close() error {
	c.mu.Lock()
	c.localClosed = true
	c.mu.Unlock()

	return nil
}

func (c *DataChannel) SetReadDeadline(time.Time) error  { return nil }
func (c *DataChannel) SetWriteDeadline(time.Time) error { return nil }
func (c *DataChannel) MessagesSent() uint32 {
	c.mu.Lock()
	defer c.mu.Unlock()

	return uint32(len(c.Sent))
}
func (c *DataChannel) MessagesReceived() uint32 {
	c.mu.Lock()
	defer c.mu.Unlock()

	return c.msgsRecv
}
func (c *DataChannel) BytesSent() uint64 {
	c.mu.Lock()
	defer c.mu.Unlock()
	var n uint64
	for _, m := range c.Sent {
		n += uint64(len(m.Data))
	}

	return n
}
func (c *DataChannel) BytesReceived() uint64 {
	c.mu.Lock()
	defer c.mu.Unlock()

	return c.bytesRecv
}

// OnOpen registers the handler fired when the peer's DCEP ack has been processed.
func (c *DataChannel) OnOpen(f func()) {
	c.mu.Lock()
	c.onOpen = f
	c.openFired = false
	c.mu.Unlock()
}
func (c *DataChannel) BufferedAmount() uint64 { return 0 }
func (c *DataChannel) BufferedAmountLowThreshold() uint64 {
	c.mu.Lock()
	defer c.mu.Unlock()

	return c.bufferedAmountLowThreshold
}
func (c *DataChannel) SetBufferedAmountLowThreshold(t uint64) {
	c.mu.Lock()
	c.bufferedAmountLowThreshold = t
	c.mu.Unlock()
}
func (c *DataChannel) OnBufferedAmountLow(f func()) {
	c.mu.Lock()
	c.onBufferedAmountLow = f
	c.mu.Unlock()
}

// ---- environment events (harness) ----

// EnvDeliver: a message from the peer arrives.
func (c *DataChannel) EnvDeliver(data []byte, isString bool) {
	c.mu.Lock()
	c.inbox = append(c.inbox, Msg{Data: data, IsString: isString})
	c.mu.Unlock()
}

// EnvAckOpen: the peer's DCEP ack arrives.
func (c *DataChannel) EnvAckOpen() {
	c.mu.Lock()
	c.ackPending = true
	c.mu.Unlock()
}

// EnvPeerReset: the peer resets its outgoing stream (answering our reset, or closing itself).
func (c *DataChannel) EnvPeerReset() {
	c.mu.Lock()
	c.peerReset = true
	c.mu.Unlock()
}

// LocalClosed reports whether Close was called / the stream was reset locally.
func (c *DataChannel) LocalClosed() bool {
	c.mu.Lock()
	defer c.mu.Unlock()

	return c.localClosed
}
