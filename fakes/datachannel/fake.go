// Package datachannel is a FAKE of github.com/pion/datachannel used only by controlled-schedule
// verification builds (injected with `go build -overlay`; see /verif/DESIGN.md). It keeps the API
// surface pion/webrtc uses. What the remote peer does (messages, DCEP ack, stream reset) is decided
// by the harness through the Env* methods; blocking calls go through sctp.Hooks.Wait.
package datachannel

import (
	"errors"
	"io"
	"time"

	"github.com/pion/logging"
	"github.com/pion/sctp"
)

// ChannelType mirrors the real type.
type ChannelType byte

// ChannelType values (RFC 8832).
const (
	ChannelTypeReliable                       ChannelType = 0x00
	ChannelTypeReliableUnordered              ChannelType = 0x80
	ChannelTypePartialReliableRexmit          ChannelType = 0x01
	ChannelTypePartialReliableRexmitUnordered ChannelType = 0x81
	ChannelTypePartialReliableTimed           ChannelType = 0x02
	ChannelTypePartialReliableTimedUnordered  ChannelType = 0x82
)

// Channel priorities.
const (
	ChannelPriorityBelowNormal uint16 = 128
	ChannelPriorityNormal      uint16 = 256
	ChannelPriorityHigh        uint16 = 512
	ChannelPriorityExtraHigh   uint16 = 1024
)

// Config mirrors the real struct.
type Config struct {
	ChannelType          ChannelType
	Negotiated           bool
	Priority             uint16
	ReliabilityParameter uint32
	Label                string
	Protocol             string
	LoggerFactory        logging.LoggerFactory
}

type (
	// Reader mirrors the real interface.
	Reader interface {
		ReadDataChannel([]byte) (int, bool, error)
	}
	// ReadDeadliner mirrors the real interface.
	ReadDeadliner interface{ SetReadDeadline(time.Time) error }
	// Writer mirrors the real interface.
	Writer interface {
		WriteDataChannel([]byte, bool) (int, error)
	}
	// WriteDeadliner mirrors the real interface.
	WriteDeadliner interface{ SetWriteDeadline(time.Time) error }
	// ReadWriteCloser mirrors the real interface.
	ReadWriteCloser interface {
		io.Reader
		io.Writer
		Reader
		Writer
		io.Closer
	}
	// ReadWriteCloserDeadliner mirrors the real interface.
	ReadWriteCloserDeadliner interface {
		ReadWriteCloser
		ReadDeadliner
		WriteDeadliner
	}
)

// ErrStreamClosed is returned when writing on a closed stream.
var ErrStreamClosed = errors.New("fake datachannel: stream closed")

// Msg is a user message.
type Msg struct {
	Data     []byte
	IsString bool
}

// DataChannel is the fake channel.
type DataChannel struct {
	Config
	assoc *sctp.Association
	id    uint16

	inbox       []Msg
	ackPending  bool // the peer's DCEP ack arrived and has not been processed by a reader yet
	peerReset   bool // the peer reset its outgoing stream (our reads end with io.EOF)
	localClosed bool // Close() was called (outgoing stream reset requested)
	onOpen      func()
	openFired   bool

	Sent                       []Msg
	bufferedAmountLowThreshold uint64
	onBufferedAmountLow        func()
	msgsRecv                   uint32
	bytesRecv                  uint64
}

func newDC(a *sctp.Association, id uint16, cfg *Config) *DataChannel {
	return &DataChannel{Config: *cfg, assoc: a, id: id}
}

// Dial opens a channel towards the peer (returns at once, as the real one does).
func Dial(a *sctp.Association, id uint16, config *Config) (*DataChannel, error) {
	if a == nil || a.Aborted() {
		return nil, sctp.ErrAborted
	}

	return newDC(a, id, config), nil
}

// Accept waits for a channel opened by the peer.
func Accept(a *sctp.Association, config *Config, existingChannels ...*DataChannel) (*DataChannel, error) {
	o, err := a.AcceptOpen()
	if err != nil {
		return nil, err
	}
	for _, ch := range existingChannels {
		if ch.StreamIdentifier() == o.StreamID {
			return ch, nil
		}
	}
	cfg := *config
	if p, ok := o.Payload.(Config); ok {
		lf := cfg.LoggerFactory
		cfg = p
		cfg.LoggerFactory = lf
	}

	return newDC(a, o.StreamID, &cfg), nil
}

// StreamIdentifier returns the stream id.
func (c *DataChannel) StreamIdentifier() uint16 { return c.id }

// ReadDataChannel blocks until a message, the peer's reset, or the end of the association.
func (c *DataChannel) ReadDataChannel(p []byte) (int, bool, error) {
	for {
		sctp.Hooks.Wait("dc-read", func() bool {
			return len(c.inbox) > 0 || c.ackPending || c.peerReset || c.assoc.Aborted()
		})
		switch {
		case c.ackPending:
			c.ackPending = false
			c.fireOpen()

			continue
		case len(c.inbox) > 0:
			m := c.inbox[0]
			c.inbox = c.inbox[1:]
			if len(m.Data) > len(p) {
				return len(m.Data), false, io.ErrShortBuffer
			}
			c.msgsRecv++
			c.bytesRecv += uint64(len(m.Data))

			return copy(p, m.Data), m.IsString, nil
		case c.peerReset:
			// "When the peer sees that an incoming stream was reset, it also resets its corresponding outgoing stream."
			c.localClosed = true

			return 0, false, io.EOF
		default:
			return 0, false, sctp.ErrAborted
		}
	}
}

func (c *DataChannel) fireOpen() {
	if c.openFired || c.onOpen == nil {
		return
	}
	c.openFired = true
	sctp.Hooks.Go(c.onOpen)
}

// Read implements io.Reader.
func (c *DataChannel) Read(p []byte) (int, error) {
	n, _, err := c.ReadDataChannel(p)

	return n, err
}

// WriteDataChannel sends a message.
func (c *DataChannel) WriteDataChannel(p []byte, isString bool) (int, error) {
	if c.assoc.Aborted() {
		return 0, sctp.ErrAborted
	}
	if c.localClosed {
		return 0, ErrStreamClosed
	}
	c.Sent = append(c.Sent, Msg{Data: append([]byte{}, p...), IsString: isString})

	return len(p), nil
}

// Write implements io.Writer.
func (c *DataChannel) Write(p []byte) (int, error) { return c.WriteDataChannel(p, false) }

// Close resets the outgoing stream; reads end only when the peer resets its side (EnvPeerReset) or the association ends.
func (c *DataChannel) Close() error {
	c.localClosed = true

	return nil
}

func (c *DataChannel) SetReadDeadline(time.Time) error  { return nil }
func (c *DataChannel) SetWriteDeadline(time.Time) error { return nil }
func (c *DataChannel) MessagesSent() uint32             { return uint32(len(c.Sent)) }
func (c *DataChannel) MessagesReceived() uint32         { return c.msgsRecv }
func (c *DataChannel) BytesSent() uint64 {
	var n uint64
	for _, m := range c.Sent {
		n += uint64(len(m.Data))
	}

	return n
}
func (c *DataChannel) BytesReceived() uint64 { return c.bytesRecv }

// OnOpen registers the handler fired when the peer's DCEP ack has been processed.
func (c *DataChannel) OnOpen(f func()) {
	c.onOpen = f
	c.openFired = false
}
func (c *DataChannel) BufferedAmount() uint64                 { return 0 }
func (c *DataChannel) BufferedAmountLowThreshold() uint64     { return c.bufferedAmountLowThreshold }
func (c *DataChannel) SetBufferedAmountLowThreshold(t uint64) { c.bufferedAmountLowThreshold = t }
func (c *DataChannel) OnBufferedAmountLow(f func())           { c.onBufferedAmountLow = f }

// ---- environment events (harness) ----

// EnvDeliver: a message from the peer arrives.
func (c *DataChannel) EnvDeliver(data []byte, isString bool) {
	c.inbox = append(c.inbox, Msg{Data: data, IsString: isString})
}

// EnvAckOpen: the peer's DCEP ack arrives.
func (c *DataChannel) EnvAckOpen() { c.ackPending = true }

// EnvPeerReset: the peer resets its outgoing stream (answering our reset, or closing itself).
func (c *DataChannel) EnvPeerReset() { c.peerReset = true }

// LocalClosed reports whether Close was called / the stream was reset locally.
func (c *DataChannel) LocalClosed() bool { return c.localClosed }
