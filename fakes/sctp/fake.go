// Package sctp is a FAKE of github.com/pion/sctp used only by controlled-schedule verification
// builds (injected with `go build -overlay` over the module-cache package; see /verif/DESIGN.md).
// It models an association as seen by pion/webrtc: a source of remotely opened streams, a
// closed/aborted flag and a few counters. What the remote side does is decided by the harness
// (Env* methods); blocking calls go through Hooks.Wait so that a controlled scheduler sees them.
package sctp

import (
	"errors"
	"io"
	"net"
	"sync"
	"time"

	"github.com/pion/logging"
)

// Hooks connects the fake to the scheduler (set by the harness before use).
var Hooks = struct {
	Wait func(kind string, cond func() bool)
	Go   func(f func())
}{
	Wait: func(_ string, cond func() bool) {
		for !cond() {
			time.Sleep(10 * time.Microsecond)
		}
	},
	Go: func(f func()) { go f() },
}

// ErrAborted is returned by operations on an aborted association.
var ErrAborted = errors.New("fake sctp: association aborted")

type (
	// ClientOption mirrors the real option type.
	ClientOption = any
	// AssociationOption mirrors the real option type.
	AssociationOption = any
)

// Config mirrors the fields pion/webrtc sets.
type Config struct {
	MaxReceiveBufferSize uint32
	EnableZeroChecksum   bool
}

// PartialReliabilityMode mirrors the real enum.
type PartialReliabilityMode int

// PartialReliabilityMode values.
const (
	PartialReliabilityModeNone PartialReliabilityMode = iota
	PartialReliabilityModeForwardTSN
	PartialReliabilityModeIForwardTSN
)

// AssociationMetadata mirrors the real struct.
type AssociationMetadata struct {
	MessageInterleavingEnabled   bool
	PartialReliabilityMode       PartialReliabilityMode
	ZeroChecksumSendingEnabled   bool
	ZeroChecksumReceivingEnabled bool
}

// RemoteOpen describes a stream opened by the remote side (a DCEP open, or a pre-negotiated stream's first data).
type RemoteOpen struct {
	StreamID uint16
	Payload  any // the datachannel fake stores its open parameters here
}

// Association is the fake association.
type Association struct {
	mu       sync.Mutex // makes the fake usable by free-running goroutines; critical sections never block
	aborted  bool
	incoming []RemoteOpen
}

func opt(...any) AssociationOption { return nil }

func WithLoggerFactory(logging.LoggerFactory) AssociationOption { return opt() }
func WithName(string) AssociationOption                         { return opt() }
func WithNetConn(net.Conn) AssociationOption                    { return opt() }
func WithBlockWrite(bool) AssociationOption                     { return opt() }
func WithEnableZeroChecksum(bool) AssociationOption             { return opt() }
func WithMTU(uint32) AssociationOption                          { return opt() }
func WithMaxReceiveBufferSize(uint32) AssociationOption         { return opt() }
func WithMaxMessageSize(uint32) AssociationOption               { return opt() }
func WithRTOMax(float64) AssociationOption                      { return opt() }
func WithMinCwnd(uint32) AssociationOption                      { return opt() }
func WithFastRtxWnd(uint32) AssociationOption                   { return opt() }
func WithCwndCAStep(uint32) AssociationOption                   { return opt() }
func WithSNAP([]byte, []byte) AssociationOption                 { return opt() }

// ClientWithOptions returns a connected fake association at once.
func ClientWithOptions(...ClientOption) (*Association, error) {
	return &Association{}, nil
}

// GenerateOutOfBandToken returns a fixed token.
func GenerateOutOfBandToken(...ClientOption) ([]byte, error) { return []byte("fake-sctp-init"), nil }

func (a *Association) MaxMessageSize() uint32 { return 65536 }
func (a *Association) BytesSent() uint64      { return 0 }
func (a *Association) BytesReceived() uint64  { return 0 }
func (a *Association) SRTT() float64          { return 0 }
func (a *Association) CWND() uint32           { return 0 }
func (a *Association) RWND() uint32           { return 0 }
func (a *Association) MTU() uint32            { return 1200 }
func (a *Association) BufferedAmount() int    { return 0 }
func (a *Association) Metadata() (AssociationMetadata, bool) {
	return AssociationMetadata{}, true
}

// Abort closes the association: every blocked reader and Accept returns an error.
func (a *Association) Abort(string) {
	a.mu.Lock()
	a.aborted = true
	a.mu.Unlock()
}

// Close closes the association.
func (a *Association) Close() error {
	a.Abort("")

	return nil
}

// Aborted reports whether the association was aborted/closed.
func (a *Association) Aborted() bool {
	a.mu.Lock()
	defer a.mu.Unlock()

	return a.aborted
}

// AcceptOpen blocks until the remote side opened a stream (EnvRemoteOpen) or the association is gone.
func (a *Association) AcceptOpen() (RemoteOpen, error) {
	Hooks.Wait("sctp-accept", func() bool {
		a.mu.Lock()
		defer a.mu.Unlock()

		return a.aborted || len(a.incoming) > 0
	})
	a.mu.Lock()
	defer a.mu.Unlock()
	if len(a.incoming) > 0 {
		o := a.incoming[0]
		a.incoming = a.incoming[1:]

		return o, nil
	}

	return RemoteOpen{}, io.EOF
}

// EnvRemoteOpen is an environment event: the remote side opens a stream.
func (a *Association) EnvRemoteOpen(o RemoteOpen) {
	a.mu.Lock()
	a.incoming = append(a.incoming, o)
	a.mu.Unlock()
}
