// Package vkit is the shared runtime of the verification harnesses: evidence
// accounting, violation / known-finding reporting, replay files and small
// enumeration helpers. It is injected into the repository under test as the
// virtual package github.com/pion/webrtc/v4/internal/verif/vkit by
// `go test -overlay` (see /verif/tools/vcheck.py); nothing of it exists in /repo.
package vkit

import (
	"crypto/sha256"
	"encoding/hex"
	"encoding/json"
	"fmt"
	"os"
	"path/filepath"
	"runtime"
	"runtime/debug"
	"sort"
	"strconv"
	"strings"
	"sync"
	"sync/atomic"
	"testing"
	"time"
)

// Check accumulates what one run of one property check covered.
type Check struct {
	ID    string
	Level string
	Tier  string
	Seed  int64

	mu          sync.Mutex
	start       time.Time
	evals       int64
	transitions int64
	validated   int64
	distinct    map[string]struct{}
	states      map[string]struct{}
	outcomes    map[string]struct{}
	samples     []any
	maxSamples  int
	extra       map[string]any
	assumptions []string
	rule        string
	exhaustive  bool
	capsHit     []string

	violKeys  map[string]string // key -> replay path
	violOrder []string
	knownSeen map[string]string
	known     map[string]knownEntry
	finished  bool
}

type knownEntry struct {
	Property string `json:"property"`
	Key      string `json:"key"`
	What     string `json:"what"`
	Status   string `json:"status"`
	Commit   string `json:"commit,omitempty"`
}

// VerifDir is the root of the verification tree.
func VerifDir() string {
	if d := os.Getenv("VERIF_DIR"); d != "" {
		return d
	}

	return "/verif"
}

// New starts accounting for property id at the given evidence level
// ("model_checking" or "exploration").
func New(id, level string) *Check {
	tier := os.Getenv("VERIF_TIER")
	if tier != "thorough" {
		tier = "quick"
	}
	seed, _ := strconv.ParseInt(os.Getenv("VERIF_SEED"), 10, 64)
	c := &Check{
		ID: id, Level: level, Tier: tier, Seed: seed,
		start:      time.Now(),
		distinct:   map[string]struct{}{},
		states:     map[string]struct{}{},
		outcomes:   map[string]struct{}{},
		extra:      map[string]any{},
		violKeys:   map[string]string{},
		knownSeen:  map[string]string{},
		known:      map[string]knownEntry{},
		maxSamples: 4,
		exhaustive: true,
	}
	raw, err := os.ReadFile(filepath.Join(VerifDir(), "known_findings.json"))
	if err == nil {
		var f struct {
			Findings []knownEntry `json:"findings"`
		}
		if json.Unmarshal(raw, &f) == nil {
			for _, e := range f.Findings {
				if e.Property == id && e.Status == "known" {
					c.known[e.Key] = e
				}
			}
		}
	}

	return c
}

// Quick reports whether the quick tier was requested.
func (c *Check) Quick() bool { return c.Tier == "quick" }

// Pick returns q in the quick tier and t in the thorough tier.
func (c *Check) Pick(q, t int) int {
	if c.Quick() {
		return q
	}

	return t
}

// Eval counts one evaluated case / execution.
func (c *Check) Eval() { atomic.AddInt64(&c.evals, 1) }

// EvalN counts n evaluated cases.
func (c *Check) EvalN(n int) { atomic.AddInt64(&c.evals, int64(n)) }

// Transition counts one explored transition (one step of real code).
func (c *Check) Transition() { atomic.AddInt64(&c.transitions, 1) }

// TransitionN counts n explored transitions.
func (c *Check) TransitionN(n int) { atomic.AddInt64(&c.transitions, int64(n)) }

// Validated counts one trace / execution that ran against the implementation.
func (c *Check) Validated() { atomic.AddInt64(&c.validated, 1) }

// ValidatedN counts n traces.
func (c *Check) ValidatedN(n int) { atomic.AddInt64(&c.validated, int64(n)) }

// Distinct records a distinct non-trivial case class.
func (c *Check) Distinct(key string) {
	c.mu.Lock()
	c.distinct[key] = struct{}{}
	c.mu.Unlock()
}

// State records a visited state; it reports whether the state is new.
func (c *Check) State(key string) bool {
	c.mu.Lock()
	defer c.mu.Unlock()
	if _, ok := c.states[key]; ok {
		return false
	}
	c.states[key] = struct{}{}

	return true
}

// Outcome records a distinct observed outcome (vacuity guard: many executions
// with one outcome mean nothing collided).
func (c *Check) Outcome(key string) {
	c.mu.Lock()
	c.outcomes[key] = struct{}{}
	c.mu.Unlock()
}

// Outcomes returns the number of distinct outcomes recorded.
func (c *Check) Outcomes() int {
	c.mu.Lock()
	defer c.mu.Unlock()

	return len(c.outcomes)
}

// Sample keeps v as one of the written-out cases (the first few are kept).
func (c *Check) Sample(v any) {
	c.mu.Lock()
	if len(c.samples) < c.maxSamples {
		c.samples = append(c.samples, v)
	}
	c.mu.Unlock()
}

// Set records an additional coverage key.
func (c *Check) Set(k string, v any) {
	c.mu.Lock()
	c.extra[k] = v
	c.mu.Unlock()
}

// Add adds n to an integer coverage key.
func (c *Check) Add(k string, n int) {
	c.mu.Lock()
	cur, _ := c.extra[k].(int)
	c.extra[k] = cur + n
	c.mu.Unlock()
}

// Rule states how cases are enumerated and what makes one distinct/non-trivial.
func (c *Check) Rule(s string) { c.rule = s }

// Assume records an assumption of the check.
func (c *Check) Assume(s string) {
	c.mu.Lock()
	c.assumptions = append(c.assumptions, s)
	c.mu.Unlock()
}

// NotExhaustive marks the run as not having covered its stated space, with the reason.
func (c *Check) NotExhaustive(why string) {
	c.mu.Lock()
	c.exhaustive = false
	c.capsHit = append(c.capsHit, why)
	c.mu.Unlock()
}

// Violation reports that the property failed on a case. key is the class of the
// failing input/history/schedule (stable across runs, fine enough to tell
// different defects apart); replay is written to a replay file.
func (c *Check) Violation(key, what string, replay any) {
	c.mu.Lock()
	defer c.mu.Unlock()
	if e, ok := c.known[key]; ok {
		if _, seen := c.knownSeen[key]; !seen {
			c.knownSeen[key] = e.What
			fmt.Printf("KNOWN-FINDING: property=%s key=%s %s\n", c.ID, key, e.What)
		}

		return
	}
	if _, ok := c.violKeys[key]; ok {
		return
	}
	path := c.writeReplay(key, what, replay)
	c.violKeys[key] = path
	c.violOrder = append(c.violOrder, key)
	if len(c.violOrder) <= 25 {
		fmt.Printf("VIOLATION property=%s replay=%s\n", c.ID, path)
		fmt.Printf("  key=%s\n  what=%s\n", key, what)
	}
}

// Violations returns the number of distinct (unlisted) violations so far.
func (c *Check) Violations() int {
	c.mu.Lock()
	defer c.mu.Unlock()

	return len(c.violOrder)
}

func (c *Check) writeReplay(key, what string, replay any) string {
	h := sha256.Sum256([]byte(key))
	dir := filepath.Join(VerifDir(), "replays")
	_ = os.MkdirAll(dir, 0o755)
	path := filepath.Join(dir, c.ID+"-"+hex.EncodeToString(h[:6])+".json")
	doc := map[string]any{"property": c.ID, "key": key, "what": what, "tier": c.Tier, "case": replay}
	raw, err := json.MarshalIndent(doc, "", " ")
	if err != nil {
		raw = []byte(fmt.Sprintf("{\"property\":%q,\"key\":%q,\"what\":%q}", c.ID, key, what))
	}
	_ = os.WriteFile(path, raw, 0o644)

	return path
}

// Guard runs f and turns a panic of the code under test into a violation.
func (c *Check) Guard(caseKey string, replay any, f func()) {
	defer func() {
		if r := recover(); r != nil {
			c.Violation("panic|"+PanicSite(), fmt.Sprintf("panic in code under test: %v (case %s)", r, caseKey), replay)
		}
	}()
	f()
}

// PanicSite names the innermost pion frame of the current panic (call from a deferred func).
func PanicSite() string {
	st := string(debug.Stack())
	lines := strings.Split(st, "\n")
	seenPanic := false
	for _, l := range lines {
		if strings.HasPrefix(l, "panic(") {
			seenPanic = true

			continue
		}
		if !seenPanic || strings.HasPrefix(l, "\t") || strings.HasPrefix(l, "runtime.") {
			continue
		}
		if i := strings.LastIndex(l, "("); i > 0 {
			l = l[:i]
		}
		if j := strings.LastIndex(l, "/"); j >= 0 {
			l = l[j+1:]
		}

		return l
	}

	return "unknown"
}

// ReplayCase returns the "case" member of the replay file named by VERIF_REPLAY, if any.
func (c *Check) ReplayCase() (json.RawMessage, bool) {
	p := os.Getenv("VERIF_REPLAY")
	if p == "" {
		return nil, false
	}
	raw, err := os.ReadFile(p)
	if err != nil {
		return nil, false
	}
	var doc struct {
		Case json.RawMessage `json:"case"`
	}
	if json.Unmarshal(raw, &doc) != nil {
		return nil, false
	}

	return doc.Case, true
}

// Finish writes the evidence file, prints the summary and fails the test when
// an unlisted violation was found.
func (c *Check) Finish(tb testing.TB) {
	tb.Helper()
	c.mu.Lock()
	if c.finished {
		c.mu.Unlock()

		return
	}
	c.finished = true
	cov := map[string]any{}
	for k, v := range c.extra {
		cov[k] = v
	}
	evals := atomic.LoadInt64(&c.evals)
	trans := atomic.LoadInt64(&c.transitions)
	valid := atomic.LoadInt64(&c.validated)
	cov["evaluations"] = evals
	cov["distinct_nontrivial"] = len(c.distinct)
	cov["rule"] = c.rule
	samples := c.samples
	if len(samples) == 0 {
		samples = []any{"(no sample recorded)"}
	}
	cov["samples"] = samples
	cov["exhaustive"] = c.exhaustive
	if len(c.capsHit) > 0 {
		cov["caps_hit"] = c.capsHit
	}
	if len(c.outcomes) > 0 {
		cov["distinct_outcomes"] = len(c.outcomes)
	}
	if c.Level == "model_checking" {
		cov["states"] = len(c.states)
		cov["transitions"] = trans
		cov["traces_validated_against_impl"] = valid
	}
	known := make([]string, 0, len(c.knownSeen))
	for k := range c.knownSeen {
		known = append(known, k)
	}
	sort.Strings(known)
	if len(known) > 0 {
		cov["known_findings_reobserved"] = known
	}
	ev := map[string]any{
		"property_id": c.ID,
		"tier":        c.Tier,
		"seed":        c.Seed,
		"level":       c.Level,
		"coverage":    cov,
		"assumptions": append([]string{}, c.assumptions...),
		"wall_s":      time.Since(c.start).Seconds(),
		"violations":  len(c.violOrder),
		"go":          runtime.Version(),
	}
	nviol := len(c.violOrder)
	c.mu.Unlock()

	path := os.Getenv("VERIF_EVIDENCE")
	if path == "" {
		path = filepath.Join(VerifDir(), "evidence", c.ID+".json")
	}
	raw, err := json.MarshalIndent(ev, "", " ")
	if err != nil {
		tb.Fatalf("VERIF-ERROR evidence marshal: %v", err)
	}
	_ = os.MkdirAll(filepath.Dir(path), 0o755)
	if err := os.WriteFile(path, append(raw, '\n'), 0o644); err != nil {
		tb.Fatalf("VERIF-ERROR evidence write: %v", err)
	}
	fmt.Printf("SUMMARY property=%s tier=%s evaluations=%d distinct=%d states=%d transitions=%d outcomes=%d violations=%d known=%d exhaustive=%v wall=%.1fs\n",
		c.ID, c.Tier, evals, len(c.distinct), len(c.states), trans, len(c.outcomes), nviol, len(known), c.exhaustive,
		time.Since(c.start).Seconds())
	if nviol > 0 {
		tb.Fail()
	}
}

// Fatalf aborts the check with a machinery error (exit 2 in the driver, never a violation).
func Fatalf(tb testing.TB, format string, args ...any) {
	tb.Helper()
	fmt.Printf("VERIF-ERROR "+format+"\n", args...)
	tb.FailNow()
}

// Workers is the number of parallel workers to use.
func Workers() int {
	if s := os.Getenv("VERIF_WORKERS"); s != "" {
		if n, err := strconv.Atoi(s); err == nil && n > 0 {
			return n
		}
	}
	n := runtime.NumCPU()
	if n > 16 {
		n = 16
	}

	return n
}

// Parallel runs f(i) for i in [0,total) on Workers() goroutines.
func Parallel(total int, f func(i int)) {
	ParallelN(Workers(), total, f)
}

// ParallelN runs f(i) for i in [0,total) on n goroutines.
func ParallelN(n, total int, f func(i int)) {
	if n < 1 {
		n = 1
	}
	var next int64 = -1
	var wg sync.WaitGroup
	for w := 0; w < n; w++ {
		wg.Add(1)
		go func() {
			defer wg.Done()
			for {
				i := int(atomic.AddInt64(&next, 1))
				if i >= total {
					return
				}
				f(i)
			}
		}()
	}
	wg.Wait()
}

// ProductSize returns the size of the Cartesian product of dims.
func ProductSize(dims ...int) int {
	n := 1
	for _, d := range dims {
		n *= d
	}

	return n
}

// ProductIndex decodes the i-th element of the Cartesian product of dims
// (last dimension varies fastest).
func ProductIndex(i int, dims ...int) []int {
	out := make([]int, len(dims))
	for k := len(dims) - 1; k >= 0; k-- {
		out[k] = i % dims[k]
		i /= dims[k]
	}

	return out
}

// Sequences calls f with every sequence of length 0..maxLen over the alphabet
// {0..n-1} (shortest first, lexicographic). f must not retain the slice.
func Sequences(n, minLen, maxLen int, f func(seq []int)) {
	for l := minLen; l <= maxLen; l++ {
		seq := make([]int, l)
		var rec func(pos int)
		rec = func(pos int) {
			if pos == l {
				f(seq)

				return
			}
			for v := 0; v < n; v++ {
				seq[pos] = v
				rec(pos + 1)
			}
		}
		rec(0)
	}
}

// AllSequences materialises Sequences.
func AllSequences(n, minLen, maxLen int) [][]int {
	var out [][]int
	Sequences(n, minLen, maxLen, func(s []int) {
		out = append(out, append([]int{}, s...))
	})

	return out
}

// Permutations calls f with every permutation of 0..n-1.
func Permutations(n int, f func(p []int)) {
	p := make([]int, n)
	for i := range p {
		p[i] = i
	}
	var rec func(k int)
	rec = func(k int) {
		if k == n {
			f(p)

			return
		}
		for i := k; i < n; i++ {
			p[k], p[i] = p[i], p[k]
			rec(k + 1)
			p[k], p[i] = p[i], p[k]
		}
	}
	rec(0)
}

// Short renders v compactly for keys and messages.
func Short(v any) string {
	raw, err := json.Marshal(v)
	if err != nil {
		return fmt.Sprintf("%v", v)
	}
	s := string(raw)
	if len(s) > 300 {
		s = s[:300] + "…"
	}

	return s
}

// Deadline returns a soft deadline for internal budgets: VERIF_BUDGET_S seconds
// from the start of the check (default def).
func (c *Check) Deadline(def time.Duration) time.Time {
	if s := os.Getenv("VERIF_BUDGET_S"); s != "" {
		if n, err := strconv.Atoi(s); err == nil && n > 0 {
			return c.start.Add(time.Duration(n) * time.Second)
		}
	}

	return c.start.Add(def)
}

// Uniq returns the distinct strings of a sorted slice.
func Uniq(sorted []string) []string {
	var out []string
	for i, s := range sorted {
		if i == 0 || s != sorted[i-1] {
			out = append(out, s)
		}
	}

	return out
}
