// Package vsync replaces package sync in shimmed sources (tools/vrewrite
// substitutes the import path). Mutex, RWMutex, Once and WaitGroup are
// scheduler-aware; everything else is the real thing.
package vsync

import (
	"sync"

	"github.com/pion/webrtc/v4/internal/verif/vsched"
)

type (
	// Pool is sync.Pool.
	Pool = sync.Pool
	// Map is sync.Map.
	Map = sync.Map
	// Cond is sync.Cond (not used by the code under test).
	Cond = sync.Cond
	// Locker is sync.Locker.
	Locker = sync.Locker
)

// Mutex is a scheduler-aware sync.Mutex.
type Mutex struct{ mu sync.Mutex }

// Lock locks m.
func (m *Mutex) Lock() {
	t := vsched.Cur()
	if t == nil {
		m.mu.Lock()

		return
	}
	if t.Aborting() {
		return
	}
	st := t.C().Mutex(m)
	t.Point(vsched.Op{Kind: "lock", Obj: st.ID, Enabled: func() bool { return st.Owner == nil }})
	if t.Aborting() {
		return
	}
	st.Owner = t
	m.mu.Lock()
}

// TryLock tries to lock m.
func (m *Mutex) TryLock() bool {
	t := vsched.Cur()
	if t == nil {
		return m.mu.TryLock()
	}
	if t.Aborting() {
		return true
	}
	st := t.C().Mutex(m)
	t.Point(vsched.Op{Kind: "trylock", Obj: st.ID})
	if st.Owner != nil {
		return false
	}
	if !m.mu.TryLock() {
		return false
	}
	st.Owner = t

	return true
}

// Unlock unlocks m.
func (m *Mutex) Unlock() {
	t := vsched.Cur()
	if t == nil {
		m.mu.Unlock()

		return
	}
	if t.Aborting() {
		return
	}
	st := t.C().Mutex(m)
	t.Point(vsched.Op{Kind: "unlock", Obj: st.ID})
	if t.Aborting() {
		return
	}
	st.Owner = nil
	m.mu.Unlock()
}

// RWMutex is a scheduler-aware sync.RWMutex; the precedence of a waiting writer over new readers is modelled.
type RWMutex struct{ mu sync.RWMutex }

// Lock locks rw for writing.
func (m *RWMutex) Lock() {
	t := vsched.Cur()
	if t == nil {
		m.mu.Lock()

		return
	}
	if t.Aborting() {
		return
	}
	st := t.C().Mutex(m)
	// Go's RWMutex gives a waiting writer precedence: once Lock has been called while readers hold the
	// lock, further RLock calls block until that writer has had the lock (a recursive read lock with a
	// writer arriving in between deadlocks). Modelled as two steps when readers are present: the call
	// (announcing the writer), then the acquisition once the readers have left. Writers queue behind an
	// announced writer as they do on the real mutex's internal writer lock.
	t.Point(vsched.Op{Kind: "wlock", Obj: st.ID, Enabled: func() bool { return st.Owner == nil && st.Pending == nil }})
	if t.Aborting() {
		return
	}
	if st.Readers > 0 {
		st.Pending = t
		t.Point(vsched.Op{Kind: "wlock-wait", Obj: st.ID, Enabled: func() bool { return st.Readers == 0 }})
		if t.Aborting() {
			return
		}
		st.Pending = nil
	}
	st.Owner = t
	m.mu.Lock()
}

// Unlock unlocks rw for writing.
func (m *RWMutex) Unlock() {
	t := vsched.Cur()
	if t == nil {
		m.mu.Unlock()

		return
	}
	if t.Aborting() {
		return
	}
	st := t.C().Mutex(m)
	t.Point(vsched.Op{Kind: "wunlock", Obj: st.ID})
	if t.Aborting() {
		return
	}
	st.Owner = nil
	m.mu.Unlock()
}

// RLock locks rw for reading.
func (m *RWMutex) RLock() {
	t := vsched.Cur()
	if t == nil {
		m.mu.RLock()

		return
	}
	if t.Aborting() {
		return
	}
	st := t.C().Mutex(m)
	t.Point(vsched.Op{Kind: "rlock", Obj: st.ID, Enabled: func() bool { return st.Owner == nil && st.Pending == nil }})
	if t.Aborting() {
		return
	}
	st.Readers++
	m.mu.RLock()
}

// RUnlock undoes a single RLock call.
func (m *RWMutex) RUnlock() {
	t := vsched.Cur()
	if t == nil {
		m.mu.RUnlock()

		return
	}
	if t.Aborting() {
		return
	}
	st := t.C().Mutex(m)
	t.Point(vsched.Op{Kind: "runlock", Obj: st.ID})
	if t.Aborting() {
		return
	}
	st.Readers--
	m.mu.RUnlock()
}

// RLocker returns a Locker for the read side.
func (m *RWMutex) RLocker() sync.Locker { return (*rlocker)(m) }

type rlocker RWMutex

func (r *rlocker) Lock()   { (*RWMutex)(r).RLock() }
func (r *rlocker) Unlock() { (*RWMutex)(r).RUnlock() }

// Once is a scheduler-aware sync.Once.
type Once struct{ once sync.Once }

// Do calls f if and only if Do is being called for the first time for this instance.
func (o *Once) Do(f func()) {
	t := vsched.Cur()
	if t == nil {
		o.once.Do(f)

		return
	}
	if t.Aborting() {
		return
	}
	st := t.C().Once(o)
	t.Point(vsched.Op{Kind: "once", Obj: st.ID, Enabled: func() bool { return st.State != 1 }})
	if t.Aborting() {
		return
	}
	if st.State == 2 {
		o.once.Do(func() {})

		return
	}
	st.State = 1
	st.Runner = t
	defer func() { st.State = 2 }()
	o.once.Do(f)
}

// WaitGroup is a scheduler-aware sync.WaitGroup.
type WaitGroup struct{ wg sync.WaitGroup }

// Add adds delta to the counter.
func (w *WaitGroup) Add(delta int) {
	t := vsched.Cur()
	if t == nil {
		w.wg.Add(delta)

		return
	}
	if t.Aborting() {
		return
	}
	st := t.C().WG(w)
	t.Point(vsched.Op{Kind: "wgadd", Obj: st.ID})
	if t.Aborting() {
		return
	}
	st.Counter += delta
	w.wg.Add(delta)
}

// Done decrements the counter.
func (w *WaitGroup) Done() { w.Add(-1) }

// Wait blocks until the counter is zero.
func (w *WaitGroup) Wait() {
	t := vsched.Cur()
	if t == nil {
		w.wg.Wait()

		return
	}
	if t.Aborting() {
		return
	}
	st := t.C().WG(w)
	t.Point(vsched.Op{Kind: "wgwait", Obj: st.ID, Enabled: func() bool { return st.Counter <= 0 }})
	if t.Aborting() {
		return
	}
	w.wg.Wait()
}

// OnceFunc is sync.OnceFunc.
func OnceFunc(f func()) func() { return sync.OnceFunc(f) }
