// Package vatomic replaces sync/atomic in shimmed sources: every operation is
// a scheduling point followed by the real atomic operation.
package vatomic

import (
	"sync/atomic"

	"github.com/pion/webrtc/v4/internal/verif/vsched"
)

func pt(kind string, p any) {
	t := vsched.Cur()
	if t == nil || t.Aborting() {
		return
	}
	t.Point(vsched.Op{Kind: kind, Obj: t.C().ObjID(p)})
}

// stored tells a harness that watches p (vsched.WatchStores) which value was just stored.
func stored(p any, v any) {
	t := vsched.Cur()
	if t == nil || t.Aborting() {
		return
	}
	t.C().NotifyStore(p, v)
}

// Bool is atomic.Bool.
type Bool struct{ v atomic.Bool }

func (x *Bool) Load() bool       { pt("aload", x); return x.v.Load() }
func (x *Bool) Store(v bool)     { pt("astore", x); x.v.Store(v) }
func (x *Bool) Swap(v bool) bool { pt("aswap", x); return x.v.Swap(v) }
func (x *Bool) CompareAndSwap(o, n bool) bool {
	pt("acas", x)

	return x.v.CompareAndSwap(o, n)
}

// Int32 is atomic.Int32.
type Int32 struct{ v atomic.Int32 }

func (x *Int32) Load() int32        { pt("aload", x); return x.v.Load() }
func (x *Int32) Store(v int32)      { pt("astore", x); x.v.Store(v) }
func (x *Int32) Swap(v int32) int32 { pt("aswap", x); return x.v.Swap(v) }
func (x *Int32) Add(d int32) int32  { pt("aadd", x); return x.v.Add(d) }
func (x *Int32) CompareAndSwap(o, n int32) bool {
	pt("acas", x)

	return x.v.CompareAndSwap(o, n)
}

// Int64 is atomic.Int64.
type Int64 struct{ v atomic.Int64 }

func (x *Int64) Load() int64        { pt("aload", x); return x.v.Load() }
func (x *Int64) Store(v int64)      { pt("astore", x); x.v.Store(v) }
func (x *Int64) Swap(v int64) int64 { pt("aswap", x); return x.v.Swap(v) }
func (x *Int64) Add(d int64) int64  { pt("aadd", x); return x.v.Add(d) }
func (x *Int64) CompareAndSwap(o, n int64) bool {
	pt("acas", x)

	return x.v.CompareAndSwap(o, n)
}

// Uint32 is atomic.Uint32.
type Uint32 struct{ v atomic.Uint32 }

func (x *Uint32) Load() uint32         { pt("aload", x); return x.v.Load() }
func (x *Uint32) Store(v uint32)       { pt("astore", x); x.v.Store(v) }
func (x *Uint32) Swap(v uint32) uint32 { pt("aswap", x); return x.v.Swap(v) }
func (x *Uint32) Add(d uint32) uint32  { pt("aadd", x); return x.v.Add(d) }
func (x *Uint32) CompareAndSwap(o, n uint32) bool {
	pt("acas", x)

	return x.v.CompareAndSwap(o, n)
}

// Uint64 is atomic.Uint64.
type Uint64 struct{ v atomic.Uint64 }

func (x *Uint64) Load() uint64         { pt("aload", x); return x.v.Load() }
func (x *Uint64) Store(v uint64)       { pt("astore", x); x.v.Store(v) }
func (x *Uint64) Swap(v uint64) uint64 { pt("aswap", x); return x.v.Swap(v) }
func (x *Uint64) Add(d uint64) uint64  { pt("aadd", x); return x.v.Add(d) }
func (x *Uint64) CompareAndSwap(o, n uint64) bool {
	pt("acas", x)

	return x.v.CompareAndSwap(o, n)
}

// Value is atomic.Value.
type Value struct{ v atomic.Value }

func (x *Value) Load() any      { pt("aload", x); return x.v.Load() }
func (x *Value) Store(v any)    { pt("astore", x); x.v.Store(v); stored(x, v) }
func (x *Value) Swap(v any) any { pt("aswap", x); return x.v.Swap(v) }
func (x *Value) CompareAndSwap(o, n any) bool {
	pt("acas", x)
	ok := x.v.CompareAndSwap(o, n)
	if ok {
		stored(x, n)
	}

	return ok
}

// Pointer is atomic.Pointer.
type Pointer[T any] struct{ v atomic.Pointer[T] }

func (x *Pointer[T]) Load() *T     { pt("aload", x); return x.v.Load() }
func (x *Pointer[T]) Store(v *T)   { pt("astore", x); x.v.Store(v) }
func (x *Pointer[T]) Swap(v *T) *T { pt("aswap", x); return x.v.Swap(v) }
func (x *Pointer[T]) CompareAndSwap(o, n *T) bool {
	pt("acas", x)

	return x.v.CompareAndSwap(o, n)
}

// Function forms.

func LoadInt32(p *int32) int32          { pt("aload", p); return atomic.LoadInt32(p) }
func StoreInt32(p *int32, v int32)      { pt("astore", p); atomic.StoreInt32(p, v) }
func AddInt32(p *int32, d int32) int32  { pt("aadd", p); return atomic.AddInt32(p, d) }
func SwapInt32(p *int32, v int32) int32 { pt("aswap", p); return atomic.SwapInt32(p, v) }
func CompareAndSwapInt32(p *int32, o, n int32) bool {
	pt("acas", p)

	return atomic.CompareAndSwapInt32(p, o, n)
}
func LoadInt64(p *int64) int64          { pt("aload", p); return atomic.LoadInt64(p) }
func StoreInt64(p *int64, v int64)      { pt("astore", p); atomic.StoreInt64(p, v) }
func AddInt64(p *int64, d int64) int64  { pt("aadd", p); return atomic.AddInt64(p, d) }
func SwapInt64(p *int64, v int64) int64 { pt("aswap", p); return atomic.SwapInt64(p, v) }
func CompareAndSwapInt64(p *int64, o, n int64) bool {
	pt("acas", p)

	return atomic.CompareAndSwapInt64(p, o, n)
}
func LoadUint32(p *uint32) uint32           { pt("aload", p); return atomic.LoadUint32(p) }
func StoreUint32(p *uint32, v uint32)       { pt("astore", p); atomic.StoreUint32(p, v) }
func AddUint32(p *uint32, d uint32) uint32  { pt("aadd", p); return atomic.AddUint32(p, d) }
func SwapUint32(p *uint32, v uint32) uint32 { pt("aswap", p); return atomic.SwapUint32(p, v) }
func CompareAndSwapUint32(p *uint32, o, n uint32) bool {
	pt("acas", p)

	return atomic.CompareAndSwapUint32(p, o, n)
}
func LoadUint64(p *uint64) uint64           { pt("aload", p); return atomic.LoadUint64(p) }
func StoreUint64(p *uint64, v uint64)       { pt("astore", p); atomic.StoreUint64(p, v) }
func AddUint64(p *uint64, d uint64) uint64  { pt("aadd", p); return atomic.AddUint64(p, d) }
func SwapUint64(p *uint64, v uint64) uint64 { pt("aswap", p); return atomic.SwapUint64(p, v) }
func CompareAndSwapUint64(p *uint64, o, n uint64) bool {
	pt("acas", p)

	return atomic.CompareAndSwapUint64(p, o, n)
}

// Peek methods read the value WITHOUT a scheduling point: for scheduler conditions and harness oracles only.

func (x *Bool) Peek() bool     { return x.v.Load() }
func (x *Int32) Peek() int32   { return x.v.Load() }
func (x *Int64) Peek() int64   { return x.v.Load() }
func (x *Uint32) Peek() uint32 { return x.v.Load() }
func (x *Uint64) Peek() uint64 { return x.v.Load() }
func (x *Value) Peek() any     { return x.v.Load() }
