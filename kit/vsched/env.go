package vsched

import (
	"context"
	"errors"
	"reflect"
	"sync/atomic"
)

// ErrNoNetwork is returned by ICEConnect in fail-fast mode.
var ErrNoNetwork = errors.New("vsched: no network (ICE connect seam)")

// ICE connect seam modes.
const (
	ICEPassThrough int32 = iota // the real agent.Dial / agent.Accept
	ICEFailFast                 // return ErrNoNetwork at once
	ICEBlock                    // block until the context is cancelled (scheduler-visible wait)
)

// ICEMode selects the behaviour of ICEConnect (process-wide; harnesses set it before they start).
var ICEMode atomic.Int32

// ICEConnect is what `agent.Dial(ctx, ufrag, pwd)` / `agent.Accept(...)` in ICETransport.Start are rewritten to.
func ICEConnect[C any](f func(context.Context, string, string) (C, error), ctx context.Context, ufrag, pwd string) (C, error) {
	var zero C
	switch ICEMode.Load() {
	case ICEFailFast:
		return zero, ErrNoNetwork
	case ICEBlock:
		if t := Cur(); t != nil {
			t.Point(Op{Kind: "ice-connect", Enabled: func() bool { return ctx.Err() != nil }})
		} else {
			<-ctx.Done()
		}
		if err := ctx.Err(); err != nil {
			return zero, err
		}

		return zero, ErrNoNetwork
	}

	return f(ctx, ufrag, pwd)
}

// Capture is wrapped around callbacks handed to library goroutines
// (agent.OnCandidate(f) -> agent.OnCandidate(vsched.Capture("OnCandidate", f))).
// Under a controller the callback is stored for the harness, which delivers the events itself,
// and the library receives a no-op of the same type; otherwise f is returned unchanged.
func Capture[F any](name string, f F) F {
	t := Cur()
	if t == nil || t.Aborting() {
		return f
	}
	c := t.c
	if c.captured == nil {
		c.captured = map[string][]any{}
	}
	c.captured[name] = append(c.captured[name], f)
	ft := reflect.TypeOf(f)
	noop := reflect.MakeFunc(ft, func([]reflect.Value) []reflect.Value {
		out := make([]reflect.Value, ft.NumOut())
		for i := range out {
			out[i] = reflect.Zero(ft.Out(i))
		}

		return out
	})
	v, _ := noop.Interface().(F)

	return v
}

// Captured returns the callbacks captured under name in the calling thread's execution.
func Captured(name string) []any {
	t := Cur()
	if t == nil {
		return nil
	}

	return t.c.captured[name]
}
