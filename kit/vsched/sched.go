// Package vsched is a controlled cooperative scheduler and a stateless
// depth-first explorer of goroutine interleavings with iterative preemption
// bounding (CHESS style). Code under test reaches it through the shim packages
// vsync / vatomic (import-path substitution done by tools/vrewrite) and through
// Go / Recv / Send / Close for goroutine creation and channel operations.
//
// Exactly one controlled goroutine ("thread") runs at a time; all others are
// parked on their baton. Before every visible operation the running thread
// calls Point: the scheduler computes the set of enabled threads from its model
// of lock owners, once states, waitgroup counters and channel states, picks one
// (from the replayed choice prefix, else the default: keep running), and hands
// over. Goroutines that are not threads of a controller (library goroutines,
// free-running tests) pass straight through to the real primitives.
package vsched

import (
	"bytes"
	"fmt"
	"runtime"
	"runtime/debug"
	"strconv"
	"strings"
	"sync"
	"sync/atomic"
)

// goid -> *Thread for controlled goroutines (several controllers may run in one process).
var threads sync.Map

var nControllers atomic.Int64

// getg returns the address of the running goroutine's descriptor (assembly);
// it identifies a goroutine for as long as the goroutine lives.
func getg() uintptr

func goid() uint64 { return uint64(getg()) }

func goidSlow() uint64 {
	var buf [64]byte
	n := runtime.Stack(buf[:], false)
	// "goroutine 123 [running]:"
	b := buf[:n]
	b = b[len("goroutine "):]
	if i := bytes.IndexByte(b, ' '); i > 0 {
		b = b[:i]
	}
	id, _ := strconv.ParseUint(string(b), 10, 64)

	return id
}

// Cur returns the controlled thread of the calling goroutine, or nil.
func Cur() *Thread {
	if nControllers.Load() == 0 {
		return nil
	}
	if v, ok := threads.Load(goid()); ok {
		t, _ := v.(*Thread)

		return t
	}

	return nil
}

// Outcome of one execution.
type Outcome int

const (
	// Completed: every thread ran to its end.
	Completed Outcome = iota
	// Deadlock: no thread enabled, some unfinished.
	Deadlock
	// Horizon: the step bound was exceeded.
	Horizon
	// Panicked: a controlled thread panicked.
	Panicked
	// Nondeterminism: replaying a prefix did not reproduce the recorded choice points.
	Nondeterminism
)

func (o Outcome) String() string {
	return [...]string{"completed", "deadlock", "horizon", "panic", "nondeterminism"}[o]
}

// Op describes the pending visible operation of a thread.
type Op struct {
	Kind    string
	Obj     int         // allocation-order id of the object within the execution
	Enabled func() bool // nil: always enabled
}

// Thread is one controlled goroutine.
type Thread struct {
	Origin   string // function containing the go statement that started the thread
	lastKind string
	lastObj  int
	repeat   int
	watch    bool
	worked   []string
	ID       int
	Name     string
	c        *Controller
	baton    chan struct{}
	pending  *Op
	done     bool
	started  bool
	nops     int
	exited   chan struct{}
}

// Aborting reports whether the execution is being torn down; shim operations then do nothing.
func (t *Thread) Aborting() bool { return t.c.aborting.Load() }

// C returns the controller of the thread.
func (t *Thread) C() *Controller { return t.c }

type pointInfo struct {
	nEnabled   int
	curEnabled bool
	sig        uint64
	state      uint64
}

// Blocked describes a thread that could not proceed when the execution ended.
type Blocked struct {
	Thread int
	Name   string
	Op     string
	Obj    int
}

// Result of one execution.
type Result struct {
	Outcome     Outcome
	Choices     []int
	points      []pointInfo
	Steps       int
	Preemptions int
	Blocked     []Blocked
	PanicValue  string
	PanicStack  string
	Threads     int
	Trace       []string // only when Config.Trace
	Watched     []string // watched threads (WatchRunningInternal) and the non-unlock operations they performed afterwards
}

// Controller runs one execution.
type Controller struct {
	mu        sync.Mutex // protects nothing under the baton discipline; used only for finish/abort hand-over
	threads   []*Thread
	prefix    []int
	expectSig []uint64
	res       *Result
	maxSteps  int
	steps     int
	aborting  atomic.Bool
	finished  bool
	doneCh    chan struct{}
	self      *Thread
	trace     bool

	objIDs      map[any]int
	mutexes     map[any]*MutexState
	onces       map[any]*OnceState
	wgs         map[any]*WGState
	chans       map[uintptr]*ChanState
	keepAlive   []any
	captured    map[string][]any
	watchers    map[any]func(v any)
	noBranch    bool
	lastThread  *Thread
	inSpinCheck bool
	// StateHook, when set, contributes harness-observable state to the state signature.
	env map[string]any
}

// MutexState is the scheduler's model of one (RW)Mutex.
type MutexState struct {
	ID      int
	Owner   *Thread
	Readers int
	Pending *Thread // RWMutex: a writer that has called Lock and waits for the readers to leave
}

// OnceState is the model of one Once.
type OnceState struct {
	ID     int
	State  int // 0 idle, 1 running, 2 done
	Runner *Thread
}

// WGState is the model of one WaitGroup.
type WGState struct {
	ID      int
	Counter int
}

// ChanState is the model of one channel.
type ChanState struct {
	ID       int
	Closed   bool
	Handoffs int // unbuffered sends already handed to a helper goroutine
}

// ObjID returns the allocation-order id of an object within this execution.
func (c *Controller) ObjID(p any) int {
	if id, ok := c.objIDs[p]; ok {
		return id
	}
	id := len(c.objIDs) + 1
	c.objIDs[p] = id

	return id
}

// Mutex returns the model state of the mutex identified by p.
func (c *Controller) Mutex(p any) *MutexState {
	if s, ok := c.mutexes[p]; ok {
		return s
	}
	s := &MutexState{ID: c.ObjID(p)}
	c.mutexes[p] = s

	return s
}

// Once returns the model state of the once identified by p.
func (c *Controller) Once(p any) *OnceState {
	if s, ok := c.onces[p]; ok {
		return s
	}
	s := &OnceState{ID: c.ObjID(p)}
	c.onces[p] = s

	return s
}

// WG returns the model state of the waitgroup identified by p.
func (c *Controller) WG(p any) *WGState {
	if s, ok := c.wgs[p]; ok {
		return s
	}
	s := &WGState{ID: c.ObjID(p)}
	c.wgs[p] = s

	return s
}

// Chan returns the model state of the channel ch with pointer p. The channel is
// kept alive for the rest of the execution so that its address is never reused.
func (c *Controller) Chan(p uintptr, ch any) *ChanState {
	if s, ok := c.chans[p]; ok {
		return s
	}
	s := &ChanState{ID: c.ObjID(p)}
	c.chans[p] = s
	c.keepAlive = append(c.keepAlive, ch)

	return s
}

func fnv(h uint64, v uint64) uint64 {
	h ^= v
	h *= 1099511628211

	return h
}

func fnvs(h uint64, s string) uint64 {
	for i := 0; i < len(s); i++ {
		h = fnv(h, uint64(s[i]))
	}

	return h
}

func (t *Thread) enabled() bool {
	if t.done {
		return false
	}
	if t.pending == nil {
		return !t.started // a spawned thread that has not run yet
	}
	if t.pending.Enabled == nil {
		return true
	}

	return t.pending.Enabled()
}

// choose picks the next thread to run; cur is the thread calling (nil at thread exit).
func (c *Controller) choose(cur *Thread) *Thread {
	var en []*Thread
	curEnabled := false
	if cur != nil && cur.enabled() {
		en = append(en, cur)
		curEnabled = true
	}
	for _, t := range c.threads {
		if t != cur && t.enabled() {
			en = append(en, t)
		}
	}
	if len(en) == 0 {
		return nil
	}
	if len(en) == 1 || c.noBranch {
		return en[0]
	}
	sig := uint64(14695981039346656037)
	for _, t := range en {
		sig = fnv(sig, uint64(t.ID))
		if t.pending != nil {
			sig = fnvs(sig, t.pending.Kind)
			sig = fnv(sig, uint64(t.pending.Obj))
		}
	}
	i := len(c.res.Choices)
	choice := 0
	if i < len(c.prefix) {
		choice = c.prefix[i]
		if choice >= len(en) || (i < len(c.expectSig) && c.expectSig[i] != sig) {
			c.res.Outcome = Nondeterminism
			c.res.PanicValue = fmt.Sprintf("choice point %d: prefix wants %d of %d enabled, sig %x want %x",
				i, choice, len(en), sig, sigAt(c.expectSig, i))

			return nil
		}
	}
	c.res.Choices = append(c.res.Choices, choice)
	state := uint64(14695981039346656037)
	for _, t := range c.threads {
		state = fnv(state, uint64(t.nops))
		if t.done {
			state = fnv(state, 1)
		}
		if t.pending != nil {
			state = fnvs(state, t.pending.Kind)
			state = fnv(state, uint64(t.pending.Obj))
		}
	}
	c.res.points = append(c.res.points, pointInfo{nEnabled: len(en), curEnabled: curEnabled, sig: sig, state: state})
	if curEnabled && choice != 0 {
		c.res.Preemptions++
	}

	return en[choice]
}

func sigAt(s []uint64, i int) uint64 {
	if i < len(s) {
		return s[i]
	}

	return 0
}

// Point is a scheduling point before the visible operation op of thread t.
func (t *Thread) Point(op Op) {
	c := t.c
	if c.aborting.Load() {
		return
	}
	// spin detection: a thread repeating the same operation on the same object with no step of any
	// other thread in between (a busy-wait loop) is blocked until some other thread has taken a step
	if c.lastThread == t && t.lastKind == op.Kind && t.lastObj == op.Obj && op.Enabled == nil {
		t.repeat++
	} else {
		t.repeat = 0
	}
	t.lastKind, t.lastObj = op.Kind, op.Obj
	c.lastThread = t
	if t.repeat >= 64 {
		// yields only while somebody else can run: a thread that is alone is never blocked by this rule
		// (a genuine livelock then runs into the step horizon instead of being reported as a deadlock)
		mark := c.steps + 1
		op.Enabled = func() bool {
			if c.steps > mark || c.inSpinCheck {
				return true
			}
			c.inSpinCheck = true
			defer func() { c.inSpinCheck = false }()
			for _, x := range c.threads {
				if x != t && x.enabled() {
					return false
				}
			}

			return true
		}
	}
	t.pending = &op
	t.nops++
	c.steps++
	if t.watch {
		switch op.Kind {
		case "unlock", "wunlock", "runlock":
		default:
			t.worked = append(t.worked, op.Kind)
		}
	}
	if c.trace {
		c.res.Trace = append(c.res.Trace, fmt.Sprintf("T%d %s#%d", t.ID, op.Kind, op.Obj))
	}
	if c.steps > c.maxSteps {
		c.finish(Horizon, t)
		runtime.Goexit()
	}
	next := c.choose(t)
	if next == nil {
		if c.res.Outcome != Nondeterminism {
			c.res.Outcome = Deadlock
		}
		c.finish(c.res.Outcome, t)
		runtime.Goexit()
	}
	if next != t {
		next.baton <- struct{}{}
		<-t.baton
		if c.aborting.Load() {
			runtime.Goexit()
		}
	}
	t.pending = nil
}

// Yield is an explicit scheduling point of the harness (environment event).
func Yield(kind string) {
	if t := Cur(); t != nil {
		t.Point(Op{Kind: kind})
	}
}

// Wait blocks the calling thread until cond holds (evaluated by the scheduler).
// Outside a controller it spins with Gosched.
func Wait(kind string, cond func() bool) {
	if t := Cur(); t != nil {
		t.Point(Op{Kind: kind, Enabled: cond})

		return
	}
	for !cond() {
		runtime.Gosched()
	}
}

func (c *Controller) blockedList() []Blocked {
	var out []Blocked
	for _, t := range c.threads {
		if t.done {
			continue
		}
		b := Blocked{Thread: t.ID, Name: t.Name}
		if t.pending != nil {
			b.Op = t.pending.Kind
			b.Obj = t.pending.Obj
		} else {
			b.Op = "not-started"
		}
		out = append(out, b)
	}

	return out
}

// finish ends the execution: records the outcome, aborts every parked thread and wakes the explorer.
func (c *Controller) finish(o Outcome, self *Thread) {
	if c.finished {
		return
	}
	c.finished = true
	c.res.Outcome = o
	c.res.Steps = c.steps
	c.res.Threads = len(c.threads)
	for _, t := range c.threads {
		if t.watch && len(t.worked) > 0 {
			c.res.Watched = append(c.res.Watched, fmt.Sprintf("%s:%v", t.Origin, t.worked))
		}
	}
	if o != Completed {
		c.res.Blocked = c.blockedList()
	}
	c.self = self
	c.aborting.Store(true)
	close(c.doneCh)
}

func (c *Controller) threadMain(t *Thread, f func()) {
	defer close(t.exited)
	id := goid()
	threads.Store(id, t)
	defer threads.Delete(id)
	<-t.baton
	if c.aborting.Load() {
		return
	}
	t.started = true
	defer func() {
		if r := recover(); r != nil {
			if !c.aborting.Load() {
				c.res.PanicValue = fmt.Sprint(r)
				c.res.PanicStack = string(debug.Stack())
				t.done = true
				c.finish(Panicked, t)
			}

			return
		}
		if c.aborting.Load() {
			return
		}
		// normal exit: hand over
		t.done = true
		t.pending = nil
		if c.trace {
			c.res.Trace = append(c.res.Trace, fmt.Sprintf("T%d exit", t.ID))
		}
		next := c.choose(nil)
		if next == nil {
			all := true
			for _, x := range c.threads {
				if !x.done {
					all = false
				}
			}
			switch {
			case c.res.Outcome == Nondeterminism:
				c.finish(Nondeterminism, t)
			case all:
				c.finish(Completed, t)
			default:
				c.finish(Deadlock, t)
			}

			return
		}
		next.baton <- struct{}{}
	}()
	f()
}

func (c *Controller) spawn(name string, f func()) *Thread {
	t := &Thread{ID: len(c.threads), Name: name, c: c, baton: make(chan struct{}, 1), exited: make(chan struct{})}
	c.threads = append(c.threads, t)
	go c.threadMain(t, f)

	return t
}

// Go starts f as a new goroutine: a controlled thread when the caller is one.
func Go(f func()) { GoNamed("", f) }

// GoNamed is Go with a thread name for reports.
func GoNamed(name string, f func()) {
	t := Cur()
	if t == nil || t.c.aborting.Load() {
		go f()

		return
	}
	nt := t.c.spawn(name, f)
	// remember which function of the code under test contains the go statement (for reports)
	for skip := 1; skip <= 3; skip++ {
		pc, _, _, ok := runtime.Caller(skip)
		if !ok {
			break
		}
		fn := runtime.FuncForPC(pc).Name()
		if strings.Contains(fn, "/vsched.") {
			continue
		}
		if i := strings.LastIndex(fn, "/"); i >= 0 {
			fn = fn[i+1:]
		}
		if i := strings.Index(fn, "."); i >= 0 {
			fn = fn[i+1:]
		}
		for strings.HasSuffix(fn, ".func1") || strings.HasSuffix(fn, ".func2") || strings.HasSuffix(fn, ".func3") {
			fn = fn[:len(fn)-6]
		}
		nt.Origin = fn

		break
	}
}

// Config of an exploration.
type Config struct {
	MaxSteps int  // per execution (default 20000)
	Bound    int  // maximum number of preemptions (-1: unbounded)
	Trace    bool // record an operation trace per execution (slow)
	MaxExecs int  // cap on executions (0: none); hitting it makes the run non-exhaustive
	Workers  int  // ExploreP: parallel workers
	// CountFree selects deviation (delay) bounding: EVERY departure from the default schedule (keep running,
	// else lowest thread id) costs one unit of Bound, also where the running thread blocked or ended.
	// With it false Bound counts preemptions only (switches at block/exit are free), as in CHESS.
	CountFree bool
	StopAfter func() bool
}

// Run performs one execution of body under the given choice prefix.
func Run(cfg Config, prefix []int, expectSig []uint64, body func()) *Result {
	maxSteps := cfg.MaxSteps
	if maxSteps == 0 {
		maxSteps = 20000
	}
	c := &Controller{
		prefix: prefix, expectSig: expectSig, maxSteps: maxSteps, trace: cfg.Trace,
		res:     &Result{},
		doneCh:  make(chan struct{}),
		objIDs:  map[any]int{},
		mutexes: map[any]*MutexState{},
		onces:   map[any]*OnceState{},
		wgs:     map[any]*WGState{},
		chans:   map[uintptr]*ChanState{},
	}
	nControllers.Add(1)
	t0 := c.spawn("main", body)
	t0.baton <- struct{}{}
	<-c.doneCh
	// tear down one thread at a time (deferred functions of aborted threads never overlap)
	if c.self != nil {
		<-c.self.exited
	}
	for i := 0; i < len(c.threads); i++ {
		t := c.threads[i]
		if t == c.self {
			continue
		}
		select {
		case t.baton <- struct{}{}:
		default:
		}
		<-t.exited
	}
	nControllers.Add(-1)

	return c.res
}

// Stats of an exploration.
type Stats struct {
	Executions  int
	Transitions int   // total scheduling steps executed
	ChoicePts   int   // total choice points seen
	ByPreempt   []int // executions by number of preemptions
	BoundDone   int   // largest bound fully explored (-1 none)
	Capped      bool
	MaxThreads  int
	MaxSteps    int
	States      int // distinct control states (per-thread operation counts and pending operations) seen at choice points
}

// Explore enumerates every schedule of body with at most cfg.Bound preemptions
// (all schedules if Bound < 0) by stateless DFS, calling check on each execution.
// check returns false to stop the exploration.
func Explore(cfg Config, body func(), check func(r *Result) bool) (st Stats) {
	st = Stats{BoundDone: -1}
	type item struct {
		prefix []int
		sig    []uint64
	}
	stack := []item{{}}
	states := map[uint64]struct{}{}
	defer func() { st.States = len(states) }()
	for len(stack) > 0 {
		it := stack[len(stack)-1]
		stack = stack[:len(stack)-1]
		if cfg.MaxExecs > 0 && st.Executions >= cfg.MaxExecs {
			st.Capped = true

			break
		}
		if cfg.StopAfter != nil && cfg.StopAfter() {
			st.Capped = true

			break
		}
		r := Run(cfg, it.prefix, it.sig, body)
		st.Executions++
		st.Transitions += r.Steps
		st.ChoicePts += len(r.points)
		for _, p := range r.points {
			states[p.state] = struct{}{}
		}
		if r.Threads > st.MaxThreads {
			st.MaxThreads = r.Threads
		}
		if r.Steps > st.MaxSteps {
			st.MaxSteps = r.Steps
		}
		for len(st.ByPreempt) <= r.Preemptions {
			st.ByPreempt = append(st.ByPreempt, 0)
		}
		st.ByPreempt[r.Preemptions]++
		if !check(r) {
			st.Capped = true

			return st
		}
		if r.Outcome == Nondeterminism {
			continue
		}
		// branch on every alternative after the replayed prefix
		cost := 0
		sigs := make([]uint64, len(r.points))
		for i, p := range r.points {
			sigs[i] = p.sig
		}
		for i, p := range r.points {
			if i >= len(it.prefix) {
				for alt := p.nEnabled - 1; alt >= 1; alt-- {
					c := cost
					if p.curEnabled || cfg.CountFree {
						c++
					}
					if cfg.Bound >= 0 && c > cfg.Bound {
						continue
					}
					np := make([]int, i+1)
					copy(np, r.Choices[:i])
					np[i] = alt
					stack = append(stack, item{prefix: np, sig: sigs[:i+1]})
				}
			}
			if (p.curEnabled || cfg.CountFree) && r.Choices[i] != 0 {
				cost++
			}
		}
	}
	if !st.Capped {
		st.BoundDone = cfg.Bound
	}

	return st
}

func init() {
	// self-test of getg: distinct live goroutines have distinct descriptors, and it is stable
	a := getg()
	ch := make(chan uintptr)
	go func() { ch <- getg() }()
	b := <-ch
	if a == 0 || a == b || a != getg() {
		panic("vsched: getg self-test failed")
	}
	_ = goidSlow
}

// ExploreP is Explore with a body factory (each execution gets fresh observation state) and
// cfg.Workers parallel workers sharing one DFS work stack. check must be safe for concurrent use.
func ExploreP(cfg Config, newBody func() (body func(), obs any), check func(r *Result, obs any) bool) (st Stats) {
	st = Stats{BoundDone: -1}
	type item struct {
		prefix []int
		sig    []uint64
	}
	workers := cfg.Workers
	if workers < 1 {
		workers = 1
	}
	var mu sync.Mutex
	cond := sync.NewCond(&mu)
	stack := []item{{}}
	busy := 0
	stop := false
	states := map[uint64]struct{}{}
	var wg sync.WaitGroup
	for w := 0; w < workers; w++ {
		wg.Add(1)
		go func() {
			defer wg.Done()
			for {
				mu.Lock()
				for len(stack) == 0 && busy > 0 && !stop {
					cond.Wait()
				}
				if stop || (len(stack) == 0 && busy == 0) {
					mu.Unlock()
					cond.Broadcast()

					return
				}
				if (cfg.MaxExecs > 0 && st.Executions >= cfg.MaxExecs) || (cfg.StopAfter != nil && cfg.StopAfter()) {
					st.Capped = true
					stop = true
					mu.Unlock()
					cond.Broadcast()

					return
				}
				it := stack[len(stack)-1]
				stack = stack[:len(stack)-1]
				busy++
				st.Executions++
				mu.Unlock()

				body, obs := newBody()
				r := Run(cfg, it.prefix, it.sig, body)
				ok := check(r, obs)

				var push []item
				if ok && r.Outcome != Nondeterminism {
					cost := 0
					sigs := make([]uint64, len(r.points))
					for i, p := range r.points {
						sigs[i] = p.sig
					}
					for i, p := range r.points {
						if i >= len(it.prefix) {
							for alt := p.nEnabled - 1; alt >= 1; alt-- {
								c := cost
								if p.curEnabled || cfg.CountFree {
									c++
								}
								if cfg.Bound >= 0 && c > cfg.Bound {
									continue
								}
								np := make([]int, i+1)
								copy(np, r.Choices[:i])
								np[i] = alt
								push = append(push, item{prefix: np, sig: sigs[:i+1]})
							}
						}
						if (p.curEnabled || cfg.CountFree) && r.Choices[i] != 0 {
							cost++
						}
					}
				}
				mu.Lock()
				busy--
				st.Transitions += r.Steps
				st.ChoicePts += len(r.points)
				for _, p := range r.points {
					states[p.state] = struct{}{}
				}
				if r.Threads > st.MaxThreads {
					st.MaxThreads = r.Threads
				}
				if r.Steps > st.MaxSteps {
					st.MaxSteps = r.Steps
				}
				for len(st.ByPreempt) <= r.Preemptions {
					st.ByPreempt = append(st.ByPreempt, 0)
				}
				st.ByPreempt[r.Preemptions]++
				if !ok {
					st.Capped = true
					stop = true
				}
				stack = append(stack, push...)
				mu.Unlock()
				cond.Broadcast()
			}
		}()
	}
	wg.Wait()
	st.States = len(states)
	if !st.Capped {
		st.BoundDone = cfg.Bound
	}

	return st
}

// RunningInternalThreads lists the threads of the calling thread's execution that were spawned without
// a name (i.e. by the code under test, not by the harness), have started and have not finished.
func RunningInternalThreads() []string {
	t := Cur()
	if t == nil {
		return nil
	}
	var out []string
	for _, x := range t.c.threads {
		if x != t && x.Name == "" && x.started && !x.done {
			op := "running"
			if x.pending != nil {
				op = x.pending.Kind
			}
			out = append(out, fmt.Sprintf("T%d:%s", x.ID, op))
		}
	}

	return out
}

// SetBranching turns recording of choice points off (setup phases run on the single default
// schedule: keep running the current thread, else the lowest enabled id) or back on.
func SetBranching(on bool) {
	if t := Cur(); t != nil {
		t.c.noBranch = !on
	}
}

// Quiesce lets every other thread run until none of them is enabled (all blocked or finished).
func Quiesce() {
	t := Cur()
	if t == nil {
		return
	}
	t.Point(Op{Kind: "quiesce", Enabled: func() bool {
		for _, x := range t.c.threads {
			if x != t && x.enabled() {
				return false
			}
		}

		return true
	}})
}

// WatchRunningInternal marks the unnamed (code-under-test) threads that have started and not
// finished; the operations other than unlocks they perform from now on are reported in Result.Watched.
func WatchRunningInternal() {
	t := Cur()
	if t == nil {
		return
	}
	for _, x := range t.c.threads {
		if x != t && x.Name == "" && x.started && !x.done {
			x.watch = true
		}
	}
}

// WatchStores registers f to be told every value stored (through the vatomic shim) into the atomic
// object p during the calling thread's execution: the exact sequence of stores, in schedule order.
func WatchStores(p any, f func(v any)) {
	t := Cur()
	if t == nil {
		return
	}
	if t.c.watchers == nil {
		t.c.watchers = map[any]func(v any){}
	}
	t.c.watchers[p] = f
}

// NotifyStore is called by the vatomic shim after a store.
func (c *Controller) NotifyStore(p any, v any) {
	if f, ok := c.watchers[p]; ok {
		f(v)
	}
}
