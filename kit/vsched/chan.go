package vsched

import "reflect"

func chanPtr(ch any) uintptr { return reflect.ValueOf(ch).Pointer() }

// Recv is `<-ch`.
func Recv[T any](ch <-chan T) T {
	v, _ := Recv2(ch)

	return v
}

// Recv2 is `v, ok := <-ch`.
func Recv2[T any](ch <-chan T) (T, bool) {
	t := Cur()
	if t == nil {
		v, ok := <-ch

		return v, ok
	}
	var zero T
	if t.Aborting() {
		return zero, false
	}
	if ch == nil {
		t.Point(Op{Kind: "recv-nil", Enabled: func() bool { return false }})

		return zero, false
	}
	st := t.c.Chan(chanPtr(ch), ch)
	t.Point(Op{Kind: "recv", Obj: st.ID, Enabled: func() bool {
		return st.Closed || len(ch) > 0 || st.Handoffs > 0
	}})
	if t.Aborting() {
		return zero, false
	}
	if !st.Closed && len(ch) == 0 && st.Handoffs > 0 {
		st.Handoffs--
	}
	v, ok := <-ch

	return v, ok
}

func (c *Controller) receiverPending(id int) bool {
	for _, t := range c.threads {
		if !t.done && t.pending != nil && t.pending.Kind == "recv" && t.pending.Obj == id {
			return true
		}
	}

	return false
}

// Send is `ch <- v`.
func Send[T any](ch chan<- T, v T) {
	t := Cur()
	if t == nil {
		ch <- v

		return
	}
	if t.Aborting() {
		return
	}
	st := t.c.Chan(chanPtr(ch), ch)
	t.Point(Op{Kind: "send", Obj: st.ID, Enabled: func() bool {
		if st.Closed {
			return true // will panic, as the real operation does
		}
		if cap(ch) > 0 {
			return len(ch) < cap(ch)
		}

		return t.c.receiverPending(st.ID)
	}})
	if t.Aborting() {
		return
	}
	if cap(ch) > 0 || st.Closed {
		ch <- v

		return
	}
	// unbuffered rendezvous: a helper completes the real send when the receiver runs
	st.Handoffs++
	go func() { ch <- v }()
}

// Close is `close(ch)`.
func Close[C ~chan T | ~chan<- T, T any](ch C) {
	t := Cur()
	if t == nil {
		close(ch)

		return
	}
	if t.Aborting() {
		return
	}
	st := t.c.Chan(chanPtr(ch), ch)
	t.Point(Op{Kind: "close", Obj: st.ID})
	if t.Aborting() {
		return
	}
	st.Closed = true
	close(ch)
}

// SelectRecv is a blocking `select` whose clauses are all plain receives (`case <-ch:`): it blocks until one of
// the channels is ready in the scheduler's model, takes (and drops) one value from the first ready one and
// returns its index. nil channels are never ready. When several are ready the lowest index is taken (Go picks
// one at random: the model explores one of the legal choices, never an illegal one).
func SelectRecv(chs ...any) int {
	t := Cur()
	if t == nil {
		cases := make([]reflect.SelectCase, len(chs))
		for i, ch := range chs {
			cases[i] = reflect.SelectCase{Dir: reflect.SelectRecv, Chan: reflect.ValueOf(ch)}
		}
		i, _, _ := reflect.Select(cases)

		return i
	}
	if t.Aborting() {
		return 0
	}
	type one struct {
		v  reflect.Value
		st *ChanState
	}
	cs := make([]one, len(chs))
	for i, ch := range chs {
		v := reflect.ValueOf(ch)
		cs[i].v = v
		if v.IsValid() && v.Kind() == reflect.Chan && !v.IsNil() {
			cs[i].st = t.c.Chan(v.Pointer(), ch)
		}
	}
	ready := func(o one) bool {
		return o.st != nil && (o.st.Closed || o.v.Len() > 0 || o.st.Handoffs > 0)
	}
	t.Point(Op{Kind: "select-recv", Enabled: func() bool {
		for _, o := range cs {
			if ready(o) {
				return true
			}
		}

		return false
	}})
	if t.Aborting() {
		return 0
	}
	for i, o := range cs {
		if !ready(o) {
			continue
		}
		if !o.st.Closed && o.v.Len() == 0 && o.st.Handoffs > 0 {
			o.st.Handoffs--
		}
		o.v.Recv()

		return i
	}

	return 0
}
