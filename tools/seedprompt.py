#!/usr/bin/env python3
"""Print the prompt given to an independent 'seeding' sub-agent for one property."""
import json, sys
pid = sys.argv[1]
wt = sys.argv[2]
n = sys.argv[3] if len(sys.argv) > 3 else "1"
for l in open('/verif/properties.jsonl'):
    p = json.loads(l)
    if p['id'] == pid:
        break
else:
    sys.exit("no such property")
print(f"""You are helping to evaluate a verification tool for the Go library pion/webrtc (a WebRTC implementation). Your task is to play the role of a plausible programmer mistake: produce ONE realistic change to pion/webrtc's source that BREAKS the property below while the code still compiles and the existing test-suite still passes.

Your private working copy of the repository is the git worktree {wt} (a checkout of the current HEAD). Work ONLY inside {wt}. Do not read or touch /verif or /repo (you get nothing from them), and do not look for other people's harnesses.

THE PROPERTY ({pid}: {p['title']})
{p['statement']}
Quantified over: {p['quantifier']['text']}
Files where the mechanism lives: {', '.join(p['anchors']['files'])}

WHAT TO PRODUCE
1. A change to the NON-test source of pion/webrtc (not to its tests, not to its dependencies) that makes the property false. It must:
   - compile, and leave the existing tests green: at least `go test -count=1 -vet=off` of every package you touched must pass (the root package takes ~3-4 minutes; run it if you touch a root-package file), because a change that the existing tests catch is of no interest;
   - be realistic: the kind of slip a maintainer could make in a refactor or 'optimisation' (an off-by-one in a cursor, a check moved after the effect, a lock dropped between check and act, a shared buffer reused, a field copied from the wrong place, a missed case in a switch, a condition narrowed or widened) — not vandalism, not a `panic("boom")`, not deleting a whole feature;
   - need something SPECIFIC to manifest — a particular interleaving, a fault at a particular point, a multi-step sequence of operations, an unusual-but-legal input, or two cooperating sites that each look fine alone — rather than something every ordinary use would expose at once.
2. A demonstration: a Go test (put it in a NEW file named zz_seed_demo_test.go in the relevant package directory of the worktree) or small program that FAILS with your change and PASSES without it, and that shows the property (as worded above) being violated. If the violation needs a specific goroutine interleaving, force it deterministically in the demo (e.g. with channels/hooks placed in test-only code, runtime.Gosched loops with GOMAXPROCS(1), or by calling the internal functions in the critical order) and explain the schedule in words.
3. Put the results in the directory {wt}/SEED/ :
   - patch.diff  — `git diff` of your source change ONLY (without the demo file), applicable with `git apply` at the repository root;
   - the demo file (copy of zz_seed_demo_test.go) and, in README.md: which property clause is broken, what exactly is needed for the violation to manifest (inputs / sequence / schedule), the exact commands you ran and their results: (a) existing tests with the change: pass, (b) demo with the change: fail, (c) demo without the change: pass.

ENVIRONMENT
- No network. Every go command needs: `export GOFLAGS=-mod=mod GOPROXY=off` (leave GOTOOLCHAIN unset). Go 1.24 is selected automatically inside the worktree.
- Run single tests with e.g. `go test -count=1 -vet=off -run 'TestName' .` ; the root package's full suite: `go test -count=1 -vet=off .` (3-4 min). Sub-packages live under internal/ and pkg/.
- Do not commit. Do not create other worktrees. NEVER use `git stash` (the stash is shared by all worktrees of the repository and other people work in theirs): to run something without your change use `git apply -R SEED/patch.diff` and re-apply it afterwards. Keep everything inside {wt}.
- This is variant #{n}: if you can think of several candidate changes, prefer a subtle one in the less obvious part of the mechanism.

Finish with a short report: the change (one paragraph), what it needs to manifest, and the three command results.""")
