// vrewrite rewrites the non-test Go files of one package directory for the
// controlled-scheduler ("shim") builds and for targeted seams of plain builds.
//
//	vrewrite -in <pkgdir> -out <outdir> [-shim=true] [-iceseam=true] [-files a.go,b.go]
//
// Shim rules (syntactic, type-free):
//   - import "sync"        -> sync   ".../internal/verif/vsync"
//   - import "sync/atomic" -> atomic ".../internal/verif/vatomic"
//   - go f(args)           -> arguments bound at the go statement, then vsched.Go(func(){ f(args) })
//   - <-ch, v, ok := <-ch  -> vsched.Recv / vsched.Recv2 (outside select communication clauses)
//   - ch <- v              -> vsched.Send(ch, v)          (outside select communication clauses)
//   - close(ch)            -> vsched.Close(ch)
//   - select statements are left native; blocking ones are reported (NOTE lines).
//
// Seam rule -iceseam: in ICETransport.Start, `agent.Dial(` / `agent.Accept(` become
// calls through vsched.ICEConnect, which lets a harness make ICE connectivity fail at once.
//
// For every rewritten file it prints `MAP <original> <rewritten>`.
package main

import (
	"bytes"
	"flag"
	"fmt"
	"go/ast"
	"go/format"
	"go/parser"
	"go/token"
	"os"
	"path/filepath"
	"sort"
	"strings"
)

const base = "github.com/pion/webrtc/v4/internal/verif/"

func main() {
	in := flag.String("in", "", "package directory")
	out := flag.String("out", "", "output directory")
	shim := flag.Bool("shim", true, "apply the scheduler shim rules")
	iceseam := flag.Bool("iceseam", false, "apply the ICE connect seam")
	only := flag.String("files", "", "comma separated file names to rewrite (default: all non-test files)")
	selectRecv := flag.String("selectrecv", "", "comma separated file names in which a blocking select whose clauses are all plain receives (`case <-ch:`) is modelled by the scheduler (vsched.SelectRecv) instead of being left native")
	flag.Parse()
	selIn := map[string]bool{}
	for _, f := range strings.Split(*selectRecv, ",") {
		if f != "" {
			selIn[f] = true
		}
	}
	if *in == "" || *out == "" {
		fmt.Fprintln(os.Stderr, "usage: vrewrite -in dir -out dir")
		os.Exit(2)
	}
	ents, err := os.ReadDir(*in)
	if err != nil {
		fmt.Fprintln(os.Stderr, err)
		os.Exit(2)
	}
	want := map[string]bool{}
	for _, f := range strings.Split(*only, ",") {
		if f != "" {
			want[f] = true
		}
	}
	var names []string
	for _, e := range ents {
		n := e.Name()
		if e.IsDir() || !strings.HasSuffix(n, ".go") || strings.HasSuffix(n, "_test.go") {
			continue
		}
		if len(want) > 0 && !want[n] {
			continue
		}
		names = append(names, n)
	}
	sort.Strings(names)
	if err := os.MkdirAll(*out, 0o755); err != nil {
		fmt.Fprintln(os.Stderr, err)
		os.Exit(2)
	}
	for _, n := range names {
		src := filepath.Join(*in, n)
		raw, err := os.ReadFile(src)
		if err != nil {
			fmt.Fprintln(os.Stderr, err)
			os.Exit(2)
		}
		if bytes.Contains(raw, []byte("//go:build js")) || strings.HasSuffix(n, "_js.go") {
			continue
		}
		fset := token.NewFileSet()
		f, err := parser.ParseFile(fset, src, raw, parser.ParseComments)
		if err != nil {
			fmt.Fprintf(os.Stderr, "PARSE-ERROR %v\n", err)
			os.Exit(2)
		}
		r := &rewriter{fset: fset, file: f, name: n, selectRecv: selIn[n]}
		changed := false
		if *shim {
			changed = r.shim() || changed
		}
		if *iceseam && n == "icetransport.go" {
			changed = r.iceSeam() || changed
		}
		if !changed {
			continue
		}
		if r.needVsched {
			addImport(f, "vsched", base+"vsched")
		}
		// drop comments after the package clause: rewritten nodes have no positions and
		// would attract floating comments; build constraints before the clause are kept.
		var keep []*ast.CommentGroup
		for _, cg := range f.Comments {
			if cg.End() < f.Package {
				keep = append(keep, cg)
			}
		}
		f.Comments = keep
		var buf bytes.Buffer
		if err := format.Node(&buf, fset, f); err != nil {
			fmt.Fprintf(os.Stderr, "FORMAT-ERROR %s: %v\n", n, err)
			os.Exit(2)
		}
		dst := filepath.Join(*out, n)
		if err := os.WriteFile(dst, buf.Bytes(), 0o644); err != nil {
			fmt.Fprintln(os.Stderr, err)
			os.Exit(2)
		}
		fmt.Printf("MAP %s %s\n", src, dst)
		for _, note := range r.notes {
			fmt.Printf("NOTE %s\n", note)
		}
	}
}

type rewriter struct {
	selectRecv bool // model blocking receive-only selects of this file
	fset       *token.FileSet
	file       *ast.File
	name       string
	needVsched bool
	notes      []string
	tmp        int
}

func addImport(f *ast.File, name, path string) {
	for _, im := range f.Imports {
		if im.Path.Value == `"`+path+`"` {
			return
		}
	}
	spec := &ast.ImportSpec{Name: ast.NewIdent(name), Path: &ast.BasicLit{Kind: token.STRING, Value: `"` + path + `"`}}
	for _, d := range f.Decls {
		if gd, ok := d.(*ast.GenDecl); ok && gd.Tok == token.IMPORT {
			gd.Specs = append(gd.Specs, spec)
			if !gd.Lparen.IsValid() {
				gd.Lparen = gd.Pos()
				gd.Rparen = gd.End()
			}
			f.Imports = append(f.Imports, spec)

			return
		}
	}
	gd := &ast.GenDecl{Tok: token.IMPORT, Specs: []ast.Spec{spec}}
	f.Decls = append([]ast.Decl{gd}, f.Decls...)
	f.Imports = append(f.Imports, spec)
}

func sel(pkg, name string) ast.Expr {
	return &ast.SelectorExpr{X: ast.NewIdent(pkg), Sel: ast.NewIdent(name)}
}

func (r *rewriter) shim() bool {
	changed := false
	for _, im := range r.file.Imports {
		switch im.Path.Value {
		case `"sync"`:
			if im.Name == nil {
				im.Name = ast.NewIdent("sync")
			}
			im.Path.Value = `"` + base + `vsync"`
			changed = true
		case `"sync/atomic"`:
			if im.Name == nil {
				im.Name = ast.NewIdent("atomic")
			}
			im.Path.Value = `"` + base + `vatomic"`
			changed = true
		}
	}
	// statements: walk every block and rewrite lists in place
	ast.Inspect(r.file, func(n ast.Node) bool {
		switch b := n.(type) {
		case *ast.BlockStmt:
			if r.rewriteList(&b.List) {
				changed = true
			}
		case *ast.CaseClause:
			if r.rewriteList(&b.Body) {
				changed = true
			}
		case *ast.CommClause:
			if r.rewriteList(&b.Body) {
				changed = true
			}
		case *ast.SelectStmt:
			blocking := true
			for _, c := range b.Body.List {
				if cc, ok := c.(*ast.CommClause); ok && cc.Comm == nil {
					blocking = false
				}
			}
			if blocking {
				r.notes = append(r.notes, fmt.Sprintf("%s: blocking select left native", r.fset.Position(b.Pos())))
			}
		}

		return true
	})
	// expressions: receive operations and close() outside select comm clauses
	if r.rewriteExprs() {
		changed = true
	}
	if r.captureCallbacks() {
		changed = true
	}

	return changed
}

func (r *rewriter) tmpName() string {
	r.tmp++

	return fmt.Sprintf("vgoArg%d", r.tmp)
}

func isSimple(e ast.Expr) bool {
	switch x := e.(type) {
	case *ast.BasicLit:
		return true
	case *ast.Ident:
		return x.Name == "nil" || x.Name == "true" || x.Name == "false"
	case *ast.FuncLit:
		return true
	}

	return false
}

// rewriteList rewrites go statements and send statements of one statement list.
func (r *rewriter) rewriteList(list *[]ast.Stmt) bool {
	changed := false
	for i, s := range *list {
		switch st := s.(type) {
		case *ast.GoStmt:
			(*list)[i] = r.rewriteGo(st)
			changed = true
		case *ast.SendStmt:
			r.needVsched = true
			(*list)[i] = &ast.ExprStmt{X: &ast.CallExpr{Fun: sel("vsched", "Send"), Args: []ast.Expr{st.Chan, st.Value}}}
			changed = true
		case *ast.SelectStmt:
			if sw := r.rewriteSelect(st); sw != nil {
				(*list)[i] = sw
				changed = true
			}
		case *ast.LabeledStmt:
			if g, ok := st.Stmt.(*ast.GoStmt); ok {
				st.Stmt = r.rewriteGo(g)
				changed = true
			}
		}
	}

	return changed
}

// rewriteSelect turns `select { case <-a: A; case <-b: B }` (no default, every clause a plain receive whose
// value is dropped) into `switch vsched.SelectRecv(a, b) { case 0: A; case 1: B }`. Only in the files named by
// -selectrecv: the channels have to be closed / written by rewritten code, or the model never sees them ready.
func (r *rewriter) rewriteSelect(st *ast.SelectStmt) ast.Stmt {
	if !r.selectRecv {
		return nil
	}
	var chans []ast.Expr
	var clauses []ast.Stmt
	for i, c := range st.Body.List {
		cc, ok := c.(*ast.CommClause)
		if !ok || cc.Comm == nil {
			return nil
		}
		es, ok := cc.Comm.(*ast.ExprStmt)
		if !ok {
			return nil
		}
		u, ok := es.X.(*ast.UnaryExpr)
		if !ok || u.Op != token.ARROW {
			return nil
		}
		chans = append(chans, u.X)
		clauses = append(clauses, &ast.CaseClause{
			List: []ast.Expr{&ast.BasicLit{Kind: token.INT, Value: fmt.Sprint(i)}},
			Body: cc.Body,
		})
	}
	if len(chans) == 0 {
		return nil
	}
	r.needVsched = true
	r.notes = append(r.notes, fmt.Sprintf("%s: blocking receive-only select modelled (vsched.SelectRecv)", r.fset.Position(st.Pos())))

	return &ast.SwitchStmt{
		Tag:  &ast.CallExpr{Fun: sel("vsched", "SelectRecv"), Args: chans},
		Body: &ast.BlockStmt{List: clauses},
	}
}

func (r *rewriter) rewriteGo(g *ast.GoStmt) ast.Stmt {
	r.needVsched = true
	call := g.Call
	var pre []ast.Stmt
	// bind non-trivial arguments at the go statement
	newArgs := make([]ast.Expr, len(call.Args))
	for i, a := range call.Args {
		if isSimple(a) {
			newArgs[i] = a

			continue
		}
		n := r.tmpName()
		pre = append(pre, &ast.AssignStmt{Lhs: []ast.Expr{ast.NewIdent(n)}, Tok: token.DEFINE, Rhs: []ast.Expr{a}})
		newArgs[i] = ast.NewIdent(n)
	}
	fun := call.Fun
	// bind the function value too when it is not a literal (method values bind their receiver)
	if _, lit := fun.(*ast.FuncLit); !lit {
		n := r.tmpName()
		pre = append(pre, &ast.AssignStmt{Lhs: []ast.Expr{ast.NewIdent(n)}, Tok: token.DEFINE, Rhs: []ast.Expr{fun}})
		fun = ast.NewIdent(n)
	}
	inner := &ast.CallExpr{Fun: fun, Args: newArgs, Ellipsis: call.Ellipsis}
	goCall := &ast.ExprStmt{X: &ast.CallExpr{
		Fun: sel("vsched", "Go"),
		Args: []ast.Expr{&ast.FuncLit{
			Type: &ast.FuncType{Params: &ast.FieldList{}},
			Body: &ast.BlockStmt{List: []ast.Stmt{&ast.ExprStmt{X: inner}}},
		}},
	}}
	if len(pre) == 0 {
		return goCall
	}

	return &ast.BlockStmt{List: append(pre, goCall)}
}

// rewriteExprs rewrites `<-ch` and `close(ch)` everywhere except in the
// communication clause headers of select statements.
func (r *rewriter) rewriteExprs() bool {
	changed := false
	skip := map[ast.Node]bool{}
	ast.Inspect(r.file, func(n ast.Node) bool {
		if cc, ok := n.(*ast.CommClause); ok && cc.Comm != nil {
			skip[cc.Comm] = true
		}

		return true
	})
	var visit func(n ast.Node) bool
	replaceRecv := func(e ast.Expr) (ast.Expr, bool) {
		if u, ok := e.(*ast.UnaryExpr); ok && u.Op == token.ARROW {
			r.needVsched = true

			return &ast.CallExpr{Fun: sel("vsched", "Recv"), Args: []ast.Expr{u.X}}, true
		}

		return e, false
	}
	visit = func(n ast.Node) bool {
		if n == nil {
			return false
		}
		if skip[n] {
			// still descend into nested function literals of the clause? Comm headers hold none of interest.
			return false
		}
		switch x := n.(type) {
		case *ast.ExprStmt:
			if ne, ok := replaceRecv(x.X); ok {
				x.X = ne
				changed = true
			}
		case *ast.AssignStmt:
			if len(x.Lhs) == 2 && len(x.Rhs) == 1 {
				if u, ok := x.Rhs[0].(*ast.UnaryExpr); ok && u.Op == token.ARROW {
					r.needVsched = true
					x.Rhs[0] = &ast.CallExpr{Fun: sel("vsched", "Recv2"), Args: []ast.Expr{u.X}}
					changed = true
				}
			} else {
				for i := range x.Rhs {
					if ne, ok := replaceRecv(x.Rhs[i]); ok {
						x.Rhs[i] = ne
						changed = true
					}
				}
			}
		case *ast.ReturnStmt:
			for i := range x.Results {
				if ne, ok := replaceRecv(x.Results[i]); ok {
					x.Results[i] = ne
					changed = true
				}
			}
		case *ast.CallExpr:
			if id, ok := x.Fun.(*ast.Ident); ok && id.Name == "close" && len(x.Args) == 1 {
				r.needVsched = true
				x.Fun = sel("vsched", "Close")
				changed = true
			}
			for i := range x.Args {
				if ne, ok := replaceRecv(x.Args[i]); ok {
					x.Args[i] = ne
					changed = true
				}
			}
		}

		return true
	}
	ast.Inspect(r.file, visit)

	return changed
}

// iceSeam routes agent.Dial / agent.Accept in icetransport.go through vsched.ICEConnect.
func (r *rewriter) iceSeam() bool {
	changed := false
	ast.Inspect(r.file, func(n ast.Node) bool {
		call, ok := n.(*ast.CallExpr)
		if !ok {
			return true
		}
		s, ok := call.Fun.(*ast.SelectorExpr)
		if !ok {
			return true
		}
		id, ok := s.X.(*ast.Ident)
		if !ok || id.Name != "agent" || (s.Sel.Name != "Dial" && s.Sel.Name != "Accept") || len(call.Args) != 3 {
			return true
		}
		// agent.Dial(ctx, ufrag, pwd) -> vsched.ICEConnect(agent.Dial, ctx, ufrag, pwd)
		r.needVsched = true
		call.Args = append([]ast.Expr{&ast.SelectorExpr{X: id, Sel: s.Sel}}, call.Args...)
		call.Fun = sel("vsched", "ICEConnect")
		changed = true

		return true
	})

	return changed
}

// captureCallbacks wraps the callbacks handed to the ICE agent (library goroutines) in vsched.Capture.
func (r *rewriter) captureCallbacks() bool {
	changed := false
	names := map[string]bool{"OnCandidate": true, "OnConnectionStateChange": true, "OnSelectedCandidatePairChange": true}
	ast.Inspect(r.file, func(n ast.Node) bool {
		call, ok := n.(*ast.CallExpr)
		if !ok || len(call.Args) != 1 {
			return true
		}
		s, ok := call.Fun.(*ast.SelectorExpr)
		if !ok || !names[s.Sel.Name] {
			return true
		}
		id, ok := s.X.(*ast.Ident)
		if !ok || id.Name != "agent" {
			return true
		}
		r.needVsched = true
		call.Args[0] = &ast.CallExpr{
			Fun:  sel("vsched", "Capture"),
			Args: []ast.Expr{&ast.BasicLit{Kind: token.STRING, Value: `"` + s.Sel.Name + `"`}, call.Args[0]},
		}
		changed = true

		return true
	})

	return changed
}
