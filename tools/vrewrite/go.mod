module vrewrite

go 1.23
