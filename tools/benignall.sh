#!/bin/sh
# usage: benignall.sh [tier] [name-substring]  — applies every kept property-PRESERVING change (benign/*/patch.diff) to a scratch
# COPY of /repo (never /repo itself), runs the checks named in its meta.json and reports whether they stay silent.
D=$(cd "$(dirname "$0")/.." && pwd)
TIER=${1:-quick}
ONLY=${2:-}
W=$(mktemp -d /tmp/benignall.XXXXXX)
trap 'rm -rf "$W"' EXIT
mkdir -p "$W/ev"
for s in "$D"/benign/*/; do
  n=$(basename "$s")
  case "$n" in *"$ONLY"*) ;; *) continue ;; esac
  if grep -q '"status": "stale"' "$s/meta.json"; then echo "$n STALE (verified at its base commit; skipped)"; continue; fi
  rm -rf "$W/repo"; cp -r /repo "$W/repo"; rm -rf "$W/repo/.git"
  ids=$(python3 -c "import json;print(' '.join(json.load(open('$s/meta.json'))['checks_run']))")
  if ! (cd "$W/repo" && git init -q . 2>/dev/null; git -C "$W/repo" apply "$s/patch.diff") 2>/dev/null; then echo "$n PATCH-DOES-NOT-APPLY"; continue; fi
  res=""
  for id in $ids; do
    VERIF_REPO="$W/repo" VERIF_EVIDENCE_DIR="$W/ev" "$D/bin/vcheck" $id $TIER > "$W/log" 2>&1; rc=$?
    res="$res $id:rc=$rc:$(grep -c '^VIOLATION' "$W/log")v"
  done
  echo "$n$res"
done
