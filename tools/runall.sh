#!/bin/sh
# usage: runall.sh <quick|thorough> [ids...]  — runs checks sequentially, prints one line per check
D=$(cd "$(dirname "$0")/.." && pwd)
cd "$D"
TIER=$1; shift
IDS=${*:-$(cat checks/ENABLED)}
for id in $IDS; do
  s=$(date +%s)
  bin/vcheck $id $TIER > /tmp/runall-$id-$TIER.log 2>&1
  rc=$?
  e=$(date +%s)
  echo "$id $TIER rc=$rc $((e-s))s $(grep -c '^VIOLATION' /tmp/runall-$id-$TIER.log) violations, $(grep -c '^KNOWN-FINDING' /tmp/runall-$id-$TIER.log) known; $(grep '^SUMMARY' /tmp/runall-$id-$TIER.log | sed 's/SUMMARY property=[A-Z0-9]* tier=[a-z]* //' | tr '\n' ';' | cut -c1-200)"
done
