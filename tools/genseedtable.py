#!/usr/bin/env python3
"""Rewrite the block between <!-- SEEDS-BEGIN --> and <!-- SEEDS-END --> in DESIGN.md from seeded/*/meta.json."""
import glob, json, os, re
V = os.path.dirname(os.path.dirname(os.path.abspath(__file__)))
rows = []
for p in sorted(glob.glob(os.path.join(V, "seeded", "*", "meta.json"))):
    m = json.load(open(p))
    name = os.path.basename(os.path.dirname(p))
    det = ", ".join(m.get("detected_by", [])) or "**not detected**"
    if m.get("status") == "superseded":
        det += " (before the repair; now superseded — the repaired tree no longer breaks under this change)"
    note = m.get("note", "")
    rows.append("| `%s` | %s | %s | %s | %s%s |" % (name, m["property"], m["breaks"].replace("|", "/"), m["needs_to_manifest"].replace("|", "/"), det, (" — " + note) if note else ""))
block = "| seeded change (seeded/…) | property | what it breaks | what it needs to manifest | caught by |\n|---|---|---|---|---|\n" + "\n".join(rows) + "\n"
p = os.path.join(V, "DESIGN.md")
s = open(p).read()
s = re.sub(r"<!-- SEEDS-BEGIN -->.*?<!-- SEEDS-END -->", "<!-- SEEDS-BEGIN -->\n" + block + "<!-- SEEDS-END -->", s, flags=re.S)
open(p, "w").write(s)
print("%d seeded changes" % len(rows))
