#!/usr/bin/env python3
"""covergaps.py <ID> [tier]  — development aid, not a check.

Builds the check's harness with statement coverage of the package under test, runs the tier (default quick)
with scratch evidence, and lists the statements of the property's anchor functions (properties.jsonl:
anchors.mechanism[].where = file:function, or whole anchor files when no function is named) that the check
never executed. An unexecuted branch of the mechanism is a place where a property-breaking change would go
unnoticed; it says nothing about branches that are executed but not judged.
"""
import json, os, re, subprocess, sys, tempfile

V = os.path.dirname(os.path.dirname(os.path.abspath(__file__)))
REPO = os.environ.get("VERIF_REPO", "/repo")
pid = sys.argv[1]
tier = sys.argv[2] if len(sys.argv) > 2 else "quick"
prop = None
for l in open(os.path.join(V, "properties.jsonl")):
    p = json.loads(l)
    if p["id"] == pid:
        prop = p
if prop is None:
    sys.exit("no such property")
frag = json.load(open(os.path.join(V, "checks", pid + ".json")))
pkg = frag.get("pkg", "")
cov = tempfile.mkdtemp(prefix="covergaps.")
env = dict(os.environ, VERIF_COVER=cov, VERIF_EVIDENCE_DIR=os.path.join(cov, "ev"))
subprocess.run([os.path.join(V, "bin", "vcheck"), pid, tier], env=env, stdout=subprocess.DEVNULL, stderr=subprocess.DEVNULL)
# union of all profiles of the check (extra runs write their own)
covered, blocks = set(), {}
for fn in os.listdir(cov):
    if not fn.endswith(".cov"):
        continue
    for line in open(os.path.join(cov, fn)):
        m = re.match(r"(.+):(\d+)\.(\d+),(\d+)\.(\d+) (\d+) (\d+)$", line.strip())
        if not m:
            continue
        f = m.group(1).split("/v4/", 1)[-1]
        key = (f, int(m.group(2)), int(m.group(4)))
        blocks[key] = True
        if int(m.group(7)) > 0:
            covered.add(key)
if not blocks:
    sys.exit("no coverage profile was written (worker-subprocess harness?)")


def func_ranges(path):
    """(name, first line, last line) of every top-level func of a Go file (brace counting on gofmt'ed code)."""
    out, name, start = [], None, 0
    for i, l in enumerate(open(path), 1):
        m = re.match(r"func (?:\([^)]*\) )?([A-Za-z0-9_]+)", l)
        if m and name is None:
            name, start = m.group(1), i
        if l.startswith("}") and name is not None:
            out.append((name, start, i))
            name = None
    return out


targets = []  # (file relative to package, function or None)
for mch in prop["anchors"].get("mechanism", []):
    w = mch.get("where", "")
    f, _, fn = w.partition(":")
    targets.append((f, fn or None))
for f in prop["anchors"]["files"]:
    if not any(t[0] == f for t in targets):
        targets.append((f, None))
total = miss = 0
for f, fn in targets:
    path = os.path.join(REPO, f)
    if not os.path.exists(path):
        continue
    rel = os.path.relpath(path, os.path.join(REPO, pkg)) if pkg else f
    ranges = func_ranges(path)
    sel = [r for r in ranges if fn is None or r[0] == fn.split(".")[-1]]
    lines = open(path).read().split("\n")
    for name, a, b in sel:
        gaps = sorted(k for k in blocks if k[0].endswith(rel) and a <= k[1] <= b and k not in covered)
        n = len([k for k in blocks if k[0].endswith(rel) and a <= k[1] <= b])
        total += n
        miss += len(gaps)
        if gaps and (fn is not None or len(gaps) < n):
            print("%s:%s  %d of %d blocks never executed" % (f, name, len(gaps), n))
            shown = [k for k in gaps if not re.match(r"(\)?; )?(if )?err [!=]= nil", lines[k[1] - 1].strip())]
            for k in shown[:int(os.environ.get("COVERGAPS_MAX", "40"))]:
                print("    %5d-%-5d %s" % (k[1], k[2], lines[k[1] - 1].strip()[:110]))
print("anchor blocks: %d, never executed by %s %s: %d" % (total, pid, tier, miss))
subprocess.run(["rm", "-rf", cov])
