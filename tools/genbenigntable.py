#!/usr/bin/env python3
"""Rewrite the block between <!-- BENIGN-BEGIN --> and <!-- BENIGN-END --> in DESIGN.md from benign/*/meta.json."""
import glob, json, os, re
V = os.path.dirname(os.path.dirname(os.path.abspath(__file__)))
rows = []
for p in sorted(glob.glob(os.path.join(V, "benign", "*", "meta.json"))):
    m = json.load(open(p))
    rows.append("| `%s` | %s | %s | %s |" % (os.path.basename(os.path.dirname(p)), m["change"].replace("|", "/"), " ".join(m["checks_run"]), ("silent" if m["result"].startswith("all exit 0") else m["result"]) + (" (at its base commit; no longer applies to HEAD)" if m.get("status") == "stale" else "")))
block = "| kept change (benign/…) | what it changes | checks run (quick) | result |\n|---|---|---|---|\n" + "\n".join(rows) + "\n"
p = os.path.join(V, "DESIGN.md")
s = open(p).read()
s = re.sub(r"<!-- BENIGN-BEGIN -->.*?<!-- BENIGN-END -->", "<!-- BENIGN-BEGIN -->\n" + block + "<!-- BENIGN-END -->", s, flags=re.S)
open(p, "w").write(s)
print("%d benign changes" % len(rows))
