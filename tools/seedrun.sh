#!/bin/sh
# usage: seedrun.sh <seed-dir-with-patch.diff> <tier> <check-id>...
# Applies the seeded change to /repo, runs the given checks, and always restores /repo.
set -u
SEED=$1; TIER=$2; shift 2
cd /verif
if ! git -C /repo diff --quiet; then echo "refusing: /repo has local changes"; exit 3; fi
git -C /repo apply "$SEED/patch.diff" || { echo "patch does not apply"; exit 3; }
# evidence of a run against a CHANGED tree never goes to /verif/evidence (that directory holds runs on /repo as it is)
EV=$(mktemp -d /tmp/seedrun-ev.XXXXXX)
for id in "$@"; do
  VERIF_EVIDENCE_DIR="$EV" bin/vcheck "$id" "$TIER" > /tmp/seedrun-$id.log 2>&1
  rc=$?
  echo "== $id $TIER rc=$rc : $(grep -c '^VIOLATION' /tmp/seedrun-$id.log) violation lines"
  grep '^VIOLATION\|^  key=\|^SUMMARY\|VERIF-ERROR' /tmp/seedrun-$id.log | head -12
done
git -C /repo checkout -- .
rm -rf "$EV"
git -C /repo status --short | head
