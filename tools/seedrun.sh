#!/bin/sh
# usage: seedrun.sh <seed-dir-with-patch.diff> <tier> <check-id>...
# Runs the given checks against /repo WITH the seeded change applied. The change is applied to a scratch COPY of
# /repo's working tree (VERIF_REPO), never to /repo itself: a check of the unchanged tree that happens to build
# at the same moment (a thorough run in the background) must not pick the change up - that happened once and
# produced two violations that belonged to a seed. Evidence of these runs goes to a scratch directory as well.
set -u
SEED=$1; TIER=$2; shift 2
cd /verif
W=$(mktemp -d /tmp/seedrun.XXXXXX)
trap 'rm -rf "$W"' EXIT
mkdir -p "$W/ev"
rsync -a --exclude .git /repo/ "$W/repo/"
( cd "$W/repo" && git init -q . >/dev/null 2>&1 && git apply "$SEED/patch.diff" ) || { echo "patch does not apply"; exit 3; }
for id in "$@"; do
  VERIF_REPO="$W/repo" VERIF_EVIDENCE_DIR="$W/ev" bin/vcheck "$id" "$TIER" > /tmp/seedrun-$id.log 2>&1
  rc=$?
  echo "== $id $TIER rc=$rc : $(grep -c '^VIOLATION' /tmp/seedrun-$id.log) violation lines"
  grep '^VIOLATION\|^  key=\|^SUMMARY\|VERIF-ERROR' /tmp/seedrun-$id.log | head -12
done
