#!/usr/bin/env python3
"""Generate /verif/MANIFEST.json from checks/C*.json fragments and not_applicable.json."""
import glob, json, os
V = os.path.dirname(os.path.dirname(os.path.abspath(__file__)))
checks = []
claimed = set()
enabled = set(open(os.path.join(V, "checks", "ENABLED")).read().split())
for p in sorted(glob.glob(os.path.join(V, "checks", "C*.json"))):
    fr = json.load(open(p))
    cid = fr["property_id"]
    if cid not in enabled:
        continue
    claimed.add(cid)
    e = {
        "property_id": cid,
        "quick_cmd": "bin/vcheck %s quick" % cid,
        "thorough_cmd": "bin/vcheck %s thorough" % cid,
        "evidence_file": "/verif/evidence/%s.json" % cid,
        "replay_cmd_template": "bin/vcheck %s quick --replay {path}" % cid,
        "engine": fr.get("engine", "enum"),
        "level_claimed": {"category": fr["level"], "text": fr["level_text"], "design_ref": fr.get("design_ref", "")},
        "level_note": fr["level_note"],
        "technique": fr.get("technique", ""),
    }
    checks.append(e)
na = []
nap = os.path.join(V, "not_applicable.json")
props = [json.loads(l)["id"] for l in open(os.path.join(V, "properties.jsonl")) if l.strip()]
na_given = {x["property_id"]: x["reason"] for x in (json.load(open(nap)) if os.path.exists(nap) else [])}
for pid in props:
    if pid in claimed:
        continue
    na.append({"property_id": pid, "reason": na_given.get(pid, "not yet claimed: no check has been built for this property in this tree (work in progress; see DESIGN.md section 4 for the planned check)")})
man = {
    "version": 1,
    "setup_cmd": "bin/vcheck --setup",
    "hooks": {
        "guard": "verif-overlay (no source hooks: all instrumentation is applied with `go test -overlay`; /repo is byte-identical to the pinned tree apart from fix: commits)",
        "enable": "python3 /verif/tools/vcheck.py generates an overlay JSON that injects /verif/harness/** as zz_verif_*_test.go, /verif/kit/** as virtual internal/verif packages and (shim builds) AST-rewritten sources, then `go test -c -overlay`",
        "baseline_off_cmd": "cd /repo && GOFLAGS=-mod=mod go test -json -vet=off -count=1 -timeout 25m ./...",
        "source_commits": [],
        "add_only": True,
    },
    "engines": [
        {"name": "enum", "path": "kit/vkit", "kind_free_text": "bounded-exhaustive enumeration of inputs/configurations (Cartesian products, all sequences to a depth, all k-deviations) against independent reference code", "serves_properties": sorted(c["property_id"] for c in checks if c["engine"] == "enum")},
        {"name": "hist", "path": "harness/root", "kind_free_text": "explicit-state / bounded-depth search over API call histories on real objects, successor = replay + one operation", "serves_properties": sorted(c["property_id"] for c in checks if c["engine"] == "hist")},
        {"name": "vsched", "path": "kit/vsched", "kind_free_text": "controlled cooperative scheduler + stateless DFS over interleavings with iterative preemption bounding, applied to AST-shimmed sources", "serves_properties": sorted(c["property_id"] for c in checks if c["engine"] == "vsched")},
        {"name": "pair", "path": "harness/root", "kind_free_text": "configuration/input matrices over real connected loopback pairs (library schedules not enumerated)", "serves_properties": sorted(c["property_id"] for c in checks if c["engine"] == "pair")},
    ],
    "checks": checks,
    "not_applicable": na,
    "notes": "See DESIGN.md. Known genuine defects are listed in known_findings.json; checks print KNOWN-FINDING lines for them and exit 0.",
}
json.dump(man, open(os.path.join(V, "MANIFEST.json"), "w"), indent=1)
print("MANIFEST.json: %d checks, %d not_applicable" % (len(checks), len(na)))
