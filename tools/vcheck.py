#!/usr/bin/env python3
"""vcheck — driver of the pion/webrtc verification checks.

usage: vcheck <ID> <quick|thorough> [--replay FILE] [--solo] [--build-only]
       vcheck --setup            (pre-build every harness binary)
       vcheck --list

Builds the harness of the check from /repo's *current working tree* through
`go test -c -overlay` (nothing is written to /repo), runs it, and maps the result:
  exit 0  property held on everything explored (KNOWN-FINDING lines may be printed)
  exit 1  at least one `VIOLATION property=<id> replay=<path>` line was printed
  exit 2  the machinery could not decide (build error, harness error, timeout)
"""
import glob
import hashlib
import json
import os
import subprocess
import sys
import time

VERIF = os.environ.get("VERIF_DIR") or os.path.dirname(os.path.dirname(os.path.abspath(__file__)))
REPO = os.environ.get("VERIF_REPO", "/repo")
BUILD = os.path.join(VERIF, ".build")
MODPATH = "github.com/pion/webrtc/v4"


def goenv():
    env = dict(os.environ)
    env["GOFLAGS"] = "-mod=mod"
    env["GOPROXY"] = "off"
    env.pop("GOSUMDB", None)
    env.pop("GOTOOLCHAIN", None)  # auto: the repo's go.mod selects the cached go1.24.0
    return env


def load_fragment(cid):
    p = os.path.join(VERIF, "checks", cid + ".json")
    with open(p) as f:
        return json.load(f)


def repo_go_files():
    out = []
    for root, dirs, files in os.walk(REPO):
        dirs[:] = [d for d in dirs if d not in (".git", "node_modules", "examples", "e2e", "test-wasm")]
        for fn in files:
            if fn.endswith(".go") or fn in ("go.mod", "go.sum"):
                out.append(os.path.join(root, fn))
    out.sort()
    return out


def sha_files(paths, extra=""):
    h = hashlib.sha256()
    h.update(extra.encode())
    for p in paths:
        h.update(p.encode())
        try:
            with open(p, "rb") as f:
                h.update(f.read())
        except OSError:
            h.update(b"<missing>")
    return h.hexdigest()


def kit_files():
    out = []
    for pk in sorted(os.listdir(os.path.join(VERIF, "kit"))):
        d = os.path.join(VERIF, "kit", pk)
        if os.path.isdir(d):
            for fn in sorted(os.listdir(d)):
                if fn.endswith(".go") or fn.endswith(".s"):
                    out.append((pk, os.path.join(d, fn)))
    return out


def harness_files(frag, solo):
    d = os.path.join(VERIF, "harness", frag["harness"])
    files = sorted(fn for fn in os.listdir(d) if fn.endswith(".go"))
    if solo:
        want = set(frag.get("files", []))
        files = [fn for fn in files if fn in want or fn.startswith("common")]
    out = [os.path.join(d, fn) for fn in files]
    # "also": files of other harness dirs (relative to /verif/harness) shared with this one
    for rel in frag.get("also", []):
        out.append(os.path.join(VERIF, "harness", rel))
    return out


def run_rewriter(mode, pkgdir, outdir, frag):
    """shim builds: rewrite every non-test .go file of the package through tools/vrewrite."""
    tool = os.path.join(BUILD, "vrewrite")
    src = os.path.join(VERIF, "tools", "vrewrite")
    srcs = sorted(glob.glob(os.path.join(src, "*.go")))
    stamp = sha_files(srcs)
    stampf = tool + ".stamp"
    if not (os.path.exists(tool) and os.path.exists(stampf) and open(stampf).read() == stamp):
        env = goenv()
        env["GOFLAGS"] = "-mod=mod"
        env["GOTOOLCHAIN"] = "local"
        r = subprocess.run(["go", "build", "-o", tool, "."], cwd=src, env=env, capture_output=True, text=True)
        if r.returncode != 0:
            print("VERIF-ERROR building vrewrite:\n" + r.stdout + r.stderr)
            sys.exit(2)
        with open(stampf, "w") as f:
            f.write(stamp)
    os.makedirs(outdir, exist_ok=True)
    args = [tool, "-in", pkgdir, "-out", outdir]
    if mode == "seam":
        args.append("-shim=false")
    for k, v in sorted(frag.get("rewrite", {}).items()):
        args.append("-%s=%s" % (k, v))
    r = subprocess.run(args, capture_output=True, text=True)
    if r.returncode != 0:
        print("VERIF-ERROR vrewrite failed:\n" + r.stdout + r.stderr)
        sys.exit(2)
    mapping = {}
    for line in r.stdout.splitlines():
        if line.startswith("MAP "):
            _, a, b = line.split(" ", 2)
            mapping[a] = b
    return mapping


def build(frag, solo=False, quiet=False):
    pkg = frag.get("pkg", "")
    mode = frag.get("mode", "plain")
    pkgdir = os.path.join(REPO, pkg) if pkg else REPO
    hfiles = harness_files(frag, solo)
    kfiles = kit_files()
    rw_srcs = sorted(glob.glob(os.path.join(VERIF, "tools", "vrewrite", "*.go")))
    fake_srcs = []
    for fk in frag.get("fakes", []):
        fake_srcs += sorted(glob.glob(os.path.join(VERIF, "fakes", fk, "*.go")))
    key = sha_files(repo_go_files() + hfiles + [p for _, p in kfiles] + rw_srcs + fake_srcs,
                    extra=json.dumps([pkg, mode, solo, frag.get("rewrite", {}), frag.get("extra_pkgs", []), frag.get("fakes", []),
                                      bool(os.environ.get("VERIF_COVER"))], sort_keys=True))[:20]
    tag = frag["harness"] + ("-solo-" + frag["property_id"] if solo else "")
    bindir = os.path.join(BUILD, "bin")
    os.makedirs(bindir, exist_ok=True)
    binpath = os.path.join(bindir, "%s-%s-%s.test" % (tag, mode, key))
    if os.path.exists(binpath):
        try:
            os.utime(binpath, None)  # in use: keeps it out of the pruning below
        except OSError:
            pass
        return binpath
    t0 = time.time()
    overlay = {}
    # 1. delete the package's own tests (not needed; keeps the build small and independent of them)
    for fn in os.listdir(pkgdir):
        if fn.endswith("_test.go"):
            overlay[os.path.join(pkgdir, fn)] = ""
    # 2. harness files inside the package under test
    for p in hfiles:
        overlay[os.path.join(pkgdir, "zz_verif_" + os.path.basename(p))] = p
    # 3. kit packages as virtual packages
    for pk, p in kfiles:
        overlay[os.path.join(REPO, "internal", "verif", pk, os.path.basename(p))] = p
        if p.endswith(".s"):
            # the assembler chdir()s into the package directory, so it has to exist: an EMPTY
            # directory (invisible to git, no file is ever written into /repo)
            os.makedirs(os.path.join(REPO, "internal", "verif", pk), exist_ok=True)
    # 4. shim builds: rewritten sources
    if mode in ("shim", "shimrace"):
        dirs = [pkg] + list(frag.get("extra_pkgs", []))
        for d in dirs:
            src = os.path.join(REPO, d) if d else REPO
            out = os.path.join(BUILD, "shim", key, d or "_root")
            for a, b in run_rewriter(mode, src, out, frag).items():
                overlay[a] = b
    elif frag.get("rewrite"):
        # plain build with targeted seams only (e.g. the ICE connect seam)
        out = os.path.join(BUILD, "seam", key, pkg or "_root")
        for a, b in run_rewriter("seam", pkgdir, out, frag).items():
            overlay[a] = b
    # 5. environment fakes: replace whole module-cache packages (shim builds of the data-channel harnesses)
    modcache = subprocess.run(["go", "env", "GOMODCACHE"], cwd=REPO, env=goenv(), capture_output=True, text=True).stdout.strip()
    for fk in frag.get("fakes", []):
        cand = sorted(glob.glob(os.path.join(modcache, "github.com", "pion", fk + "@*")))
        want = None
        for line in open(os.path.join(REPO, "go.mod")):
            parts = line.split()
            if len(parts) >= 2 and parts[0] == "github.com/pion/" + fk:
                want = os.path.join(modcache, "github.com", "pion", fk + "@" + parts[1])
        moddir = want if want and os.path.isdir(want) else (cand[-1] if cand else None)
        if not moddir:
            print("VERIF-ERROR fake %s: module directory not found" % fk)
            sys.exit(2)
        # every original file becomes an empty file of the package (deleting files of a dependency
        # through the overlay is not supported by the go command), test files are not compiled anyway
        stubdir = os.path.join(BUILD, "stubs")
        os.makedirs(stubdir, exist_ok=True)
        stub = os.path.join(stubdir, fk + "_empty.go")
        with open(stub, "w") as f:
            f.write("package %s\n" % fk)
        originals = sorted(fn for fn in os.listdir(moddir) if fn.endswith(".go") and not fn.endswith("_test.go"))
        fakefiles = sorted(fn for fn in os.listdir(os.path.join(VERIF, "fakes", fk)) if fn.endswith(".go"))
        if len(fakefiles) > len(originals):
            print("VERIF-ERROR fake %s has more files than the package it replaces" % fk)
            sys.exit(2)
        # (new files added to a dependency's directory are not seen either: reuse the original file names)
        for i, fn in enumerate(originals):
            overlay[os.path.join(moddir, fn)] = os.path.join(VERIF, "fakes", fk, fakefiles[i]) if i < len(fakefiles) else stub
    ovdir = os.path.join(BUILD, "overlay")
    os.makedirs(ovdir, exist_ok=True)
    ovpath = os.path.join(ovdir, "%s-%s-%s.json" % (tag, mode, key))
    with open(ovpath, "w") as f:
        json.dump({"Replace": overlay}, f, indent=1)
    cmd = ["go", "test", "-c", "-vet=off", "-overlay", ovpath, "-o", binpath + ".tmp"]
    if mode == "shimrace" or frag.get("race"):
        cmd.append("-race")
    if os.environ.get("VERIF_COVER"):
        # development aid (tools/covergaps.py): which statements of the package does a check execute at all
        cmd.append("-cover")
    cmd.append("./" + pkg if pkg else ".")
    r = subprocess.run(cmd, cwd=REPO, env=goenv(), capture_output=True, text=True)
    if r.returncode != 0 or not os.path.exists(binpath + ".tmp"):
        print("VERIF-ERROR build failed (%s):\n%s%s" % (" ".join(cmd), r.stdout, r.stderr))
        sys.exit(2)
    os.rename(binpath + ".tmp", binpath)
    # keep the build directory small: drop binaries of the same tag/mode that nobody has used for hours. A
    # binary may be in use by another vcheck running at this moment (C30 and C37 re-execute theirs for worker
    # processes): recently used ones are never removed.
    for old in glob.glob(os.path.join(bindir, "%s-%s-*.test" % (tag, mode))):
        try:
            if old != binpath and time.time() - os.path.getmtime(old) > 6 * 3600:
                os.remove(old)
        except OSError:
            pass
    if not quiet:
        print("BUILD %s %.1fs" % (os.path.basename(binpath), time.time() - t0))
    return binpath


def run(frag, tier, replay=None, solo=False):
    cid = frag["property_id"]
    binpath = build(frag, solo)
    pkg = frag.get("pkg", "")
    cwd = os.path.join(REPO, pkg) if pkg else REPO
    env = goenv()
    env["VERIF_TIER"] = tier
    env["VERIF_DIR"] = VERIF
    env.setdefault("VERIF_SEED", "0")
    evdir = os.environ.get("VERIF_EVIDENCE_DIR") or os.path.join(VERIF, "evidence")
    os.makedirs(evdir, exist_ok=True)
    env["VERIF_EVIDENCE"] = os.path.join(evdir, cid + frag.get("evidence_suffix", "") + ".json")
    if replay:
        env["VERIF_REPLAY"] = os.path.abspath(replay)
        env["VERIF_EVIDENCE"] = os.path.join(BUILD, "replay-evidence-" + cid + ".json")
    for k, v in frag.get("env", {}).items():
        env.setdefault(k, str(v))
    timeout = frag.get("timeout_" + tier, 900 if tier == "quick" else 7200)
    cmd = [binpath, "-test.run", "^" + frag["test"] + "$", "-test.v", "-test.timeout", "0", "-test.count", "1"]
    if os.environ.get("VERIF_COVER"):
        os.makedirs(os.environ["VERIF_COVER"], exist_ok=True)
        cmd += ["-test.coverprofile", os.path.join(os.environ["VERIF_COVER"], cid + frag.get("evidence_suffix", "") + ".cov")]
    t0 = time.time()
    viol = False
    summary = False
    try:
        p = subprocess.Popen(cmd, cwd=cwd, env=env, stdout=subprocess.PIPE, stderr=subprocess.STDOUT, text=True, errors="replace")
        lines_printed = 0
        deadline = t0 + timeout
        import selectors
        sel = selectors.DefaultSelector()
        sel.register(p.stdout, selectors.EVENT_READ)
        timed_out = False
        while True:
            left = deadline - time.time()
            if left <= 0:
                timed_out = True
                break
            ev = sel.select(timeout=min(left, 5))
            if not ev:
                if p.poll() is not None:
                    break
                continue
            line = p.stdout.readline()
            if line == "":
                break
            if line.startswith("VIOLATION property="):
                viol = True
            if line.startswith("SUMMARY property="):
                summary = True
            lines_printed += 1
            if lines_printed < 4000 or line.startswith(("VIOLATION", "KNOWN-FINDING", "SUMMARY", "VERIF-ERROR")):
                sys.stdout.write(line)
                sys.stdout.flush()
        if timed_out:
            p.kill()
            p.wait()
            print("VERIF-ERROR timeout after %ds (no verdict)" % timeout)
            return 1 if viol else 2
        rc = p.wait()
    except OSError as e:
        print("VERIF-ERROR cannot run harness: %s" % e)
        return 2
    if viol:
        return 1
    if rc == 0 and summary:
        return 0
    print("VERIF-ERROR harness exited with status %d without a verdict (summary=%s)" % (rc, summary))
    return 2


def all_fragments():
    out = []
    try:
        enabled = set(open(os.path.join(VERIF, "checks", "ENABLED")).read().split())
    except OSError:
        enabled = None
    for p in sorted(glob.glob(os.path.join(VERIF, "checks", "C*.json"))):
        with open(p) as f:
            fr = json.load(f)
        if enabled is None or fr["property_id"] in enabled:
            out.append(fr)
    return out


def main(argv):
    if len(argv) >= 2 and argv[1] == "--list":
        for fr in all_fragments():
            print(fr["property_id"], fr["harness"], fr.get("mode", "plain"), fr["test"])
        return 0
    if len(argv) >= 2 and argv[1] == "--setup":
        seen = set()
        rc = 0
        for fr in all_fragments():
            k = (fr["harness"], fr.get("mode", "plain"), json.dumps(fr.get("rewrite", {}), sort_keys=True), bool(fr.get("race")), json.dumps(fr.get("fakes", [])))
            if k in seen:
                continue
            seen.add(k)
            try:
                build(fr)
            except SystemExit as e:
                rc = e.code or rc
        for fr in all_fragments():
            for extra in fr.get("extra_runs", []):
                sub = dict(fr)
                for k in ("extra_runs", "rewrite", "also", "fakes", "race"):
                    sub.pop(k, None)
                sub.update(extra)
                k = (sub["harness"], sub.get("mode", "plain"), json.dumps(sub.get("rewrite", {}), sort_keys=True), bool(sub.get("race")))
                if k in seen:
                    continue
                seen.add(k)
                try:
                    build(sub)
                except SystemExit as e:
                    rc = e.code or rc
        return rc
    if len(argv) < 3:
        print(__doc__)
        return 2
    cid, tier = argv[1], argv[2]
    if tier not in ("quick", "thorough"):
        print(__doc__)
        return 2
    replay = None
    solo = False
    rest = argv[3:]
    i = 0
    build_only = False
    while i < len(rest):
        if rest[i] == "--replay" and i + 1 < len(rest):
            replay = rest[i + 1]
            i += 2
        elif rest[i] == "--solo":
            solo = True
            i += 1
        elif rest[i] == "--build-only":
            build_only = True
            i += 1
        else:
            print("unknown argument", rest[i])
            return 2
    frag = load_fragment(cid)
    if build_only:
        build(frag, solo)
        return 0
    rc = run(frag, tier, replay, solo)
    # extra_runs: further harness binaries that belong to the same check (e.g. a plain-build part next to a
    # shim-build part). Each writes its own auxiliary evidence file evidence/<id>.<name>.json; verdicts combine.
    if not replay or rc == 0:
        for extra in frag.get("extra_runs", []):
            if replay and not extra.get("replay", False):
                continue
            sub = dict(frag)
            for k in ("extra_runs", "rewrite", "also", "fakes", "race"):
                sub.pop(k, None)
            sub.update(extra)
            sub["evidence_suffix"] = "." + extra["name"]
            rc2 = run(sub, tier, replay, solo)
            if rc2 == 1 or rc == 1:
                rc = 1
            elif rc2 != 0:
                rc = rc2
    return rc


if __name__ == "__main__":
    sys.exit(main(sys.argv))
