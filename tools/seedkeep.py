#!/usr/bin/env python3
"""seedkeep.py <name> <worktree> <property> <detected-by csv or 'none'> <needs text>
Copies SEED/{patch.diff,*_test.go,README.md} into /verif/seeded/<name>/ with meta.json."""
import json, os, shutil, sys, glob
name, wt, prop, det, needs = sys.argv[1:6]
dst = os.path.join('/verif/seeded', name)
os.makedirs(dst, exist_ok=True)
for f in glob.glob(os.path.join(wt, 'SEED', '*')):
    if os.path.isfile(f):
        shutil.copy(f, dst)
meta = {
    "property": prop,
    "breaks": needs.split('||')[0],
    "needs_to_manifest": needs.split('||')[1] if '||' in needs else needs,
    "confirmed": "tools/seedverify.sh in a scratch worktree: (a) existing tests of the touched packages pass with the change, (b) the demonstration fails with it, (c) passes without it",
    "checks_run": "tools/seedrun.sh (the change applied to a scratch copy of /repo's working tree, VERIF_REPO; bin/vcheck <id> quick)",
    "detected_by": [] if det == 'none' else det.split(','),
}
json.dump(meta, open(os.path.join(dst, 'meta.json'), 'w'), indent=1)
print("kept", dst)
