#!/usr/bin/env python3
"""Print the prompt given to an independent sub-agent that produces a BENIGN change for one property:
a realistic edit near the property's mechanism under which the property still holds. The checks must stay
silent on it (exit 0, no VIOLATION line)."""
import json, sys
pid = sys.argv[1]
wt = sys.argv[2]
for l in open('/verif/properties.jsonl'):
    p = json.loads(l)
    if p['id'] == pid:
        break
else:
    sys.exit("no such property")
print(f"""You are helping to evaluate a verification tool for the Go library pion/webrtc (a WebRTC implementation). The tool must never raise an alarm on code where a property holds. Your task: produce ONE realistic change to pion/webrtc's source, in or near the mechanism of the property below, under which the property STILL HOLDS (as worded), and which changes observable-but-unconstrained behaviour or internal structure as much as a real maintainer's commit plausibly would.

Your private working copy of the repository is the git worktree {wt} (a checkout of the current HEAD). Work ONLY inside {wt}. Do not read or touch /verif or /repo, and do not look for other people's harnesses.

THE PROPERTY ({pid}: {p['title']})
{p['statement']}
Quantified over: {p['quantifier']['text']}
Files where the mechanism lives: {', '.join(p['anchors']['files'])}

WHAT TO PRODUCE
1. A change to the NON-test source of pion/webrtc (not its tests, not its dependencies) that:
   - compiles and leaves the existing tests green (`go test -count=1 -vet=off` of every package you touch; the root package takes 3-4 minutes);
   - keeps the property true for every input/sequence/schedule the property quantifies over — be careful and argue it;
   - is NOT a no-op: prefer changes that alter things the property does not constrain — internal refactors (split/merge/rename functions and fields, move work between goroutines or into helpers, change locking granularity safely, change a data structure), different-but-legal outputs (error message wording, ordering the property leaves free, numbering schemes the property leaves free, extra legal attributes, logging), different timing (work done earlier/later where the property allows it), defensive extra checks that reject inputs the property does not require to be accepted ONLY if the property wording clearly leaves that free (otherwise avoid).
   - Do not rename or remove exported API. Unexported identifiers may be renamed only if it is what a refactor would naturally do (a tool that reaches into internals may then fail to compile; that is acceptable to learn, but prefer changes that keep unexported names that look central).
2. In the directory {wt}/SEED/ put:
   - patch.diff — `git diff` of your source change, applicable with `git apply` at the repository root;
   - README.md — what you changed, why the property still holds (a short argument per clause), and the result of the existing tests with the change.

ENVIRONMENT
- No network. Every go command needs: `export GOFLAGS=-mod=mod GOPROXY=off` (leave GOTOOLCHAIN unset).
- Do not commit. Do not create other worktrees. NEVER use `git stash` (the stash is shared by all worktrees of the repository): use `git diff > file` and `git apply -R file` instead. Keep everything inside {wt}.

Finish with a short report (a few lines): the change and the argument that the property still holds.""")
