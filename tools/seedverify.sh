#!/bin/sh
# usage: seedverify.sh <worktree> [full]
# Confirms a seeded change in its scratch worktree: (a) touched packages' existing tests pass with the change,
# (b) the demo fails with it, (c) the demo passes without it. Prints a summary; exit 0 if all three hold.
set -u
WT=$1; FULL=${2:-}
export GOFLAGS=-mod=mod GOPROXY=off
cd "$WT" || exit 3
DEMO=$(ls SEED/*_test.go 2>/dev/null | head -1)
[ -f SEED/patch.diff ] && [ -n "$DEMO" ] || { echo "missing SEED/patch.diff or demo"; exit 3; }
# locate where the demo lives in the tree
DEMOBASE=$(basename "$DEMO")
DEMOPATH=$(git ls-files -o --exclude-standard | grep "/$DEMOBASE$\|^$DEMOBASE$" | grep -v '^SEED/' | head -1)
[ -n "$DEMOPATH" ] || { echo "demo file not found in tree"; exit 3; }
DEMODIR=$(dirname "$DEMOPATH")
TESTS=$(grep -h '^func Test' "$DEMO" | sed 's/func \(Test[A-Za-z0-9_]*\).*/\1/' | paste -sd'|')
git checkout -q -- . ; git apply SEED/patch.diff || { echo "patch does not apply"; exit 3; }
PKGS=$(git diff --name-only | xargs -n1 dirname | sort -u | sed 's|^|./|')
mv "$DEMOPATH" /tmp/seedverify-demo.$$
echo "touched packages: $PKGS ; demo: $DEMOPATH tests: $TESTS"
A=0
for p in $PKGS; do
  go test -count=1 -vet=off $p > /tmp/seedverify-a.$$ 2>&1 || {
    # pion's own suite has load-sensitive tests: name what failed and try once more before giving up
    grep -E '^--- FAIL' /tmp/seedverify-a.$$ | head -5
    echo "(retrying $p once)"
    go test -count=1 -vet=off $p > /tmp/seedverify-a.$$ 2>&1 || { A=1; grep -E '^--- FAIL' /tmp/seedverify-a.$$ | head -5; }
  }
  tail -2 /tmp/seedverify-a.$$
done
if [ "$FULL" = full ]; then go test -count=1 -vet=off ./... > /tmp/seedverify-a.$$ 2>&1 || A=1; grep -v '^ok\|no test files' /tmp/seedverify-a.$$ | tail -5; fi
mv /tmp/seedverify-demo.$$ "$DEMOPATH"
go test -count=1 -vet=off -run "^($TESTS)\$" ./$DEMODIR > /tmp/seedverify-b.$$ 2>&1; B=$?
git apply -R SEED/patch.diff
go test -count=1 -vet=off -run "^($TESTS)\$" ./$DEMODIR > /tmp/seedverify-c.$$ 2>&1; C=$?
git apply SEED/patch.diff
echo "(a) existing tests with change: $([ $A = 0 ] && echo PASS || echo FAIL)  (b) demo with change: $([ $B != 0 ] && echo FAILS-as-required || echo passes?!)  (c) demo without change: $([ $C = 0 ] && echo PASS || echo FAIL)"
grep -- '--- FAIL' /tmp/seedverify-b.$$ | head -5
rm -f /tmp/seedverify-*.$$
[ $A = 0 ] && [ $B != 0 ] && [ $C = 0 ]
