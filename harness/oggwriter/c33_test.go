package oggwriter

// C33 — Ogg/Opus writer output is valid Ogg that reads back as the written packets.
//
// Bounded exhaustive enumeration on the real OggWriter / Writer: every packet
// sequence and track configuration of the stated finite domains is written by
// the real writers; the produced bytes are decoded by an own Ogg page parser
// with an own CRC-32 (poly 0x04c11db7, init 0, no reflection) and an own Opus
// TOC -> sample count table, and by the real OggReader.

import (
	"bytes"
	"encoding/binary"
	"encoding/json"
	"errors"
	"fmt"
	"io"
	"os"
	"path/filepath"
	"strings"
	"sync/atomic"
	"testing"

	"github.com/pion/rtp"
	"github.com/pion/webrtc/v4/internal/verif/vkit"
	"github.com/pion/webrtc/v4/pkg/media/oggreader"
)

// ---------------------------------------------------------------------------
// case description (also the replay format)

const (
	c33Single     = "OggWriter.NewWith" // single track, io.Writer
	c33SingleFile = "OggWriter.New"     // single track, file (seekable: EOS rewritten into the last page)
	c33Multi      = "Writer"            // multi track, io.Writer (nil EOS pages appended)
	c33MultiSeek  = "Writer+Seekable"   // multi track, WithSeekableOutput
)

// c33Pkt is one Opus packet: TOC byte, frame-count byte (code 3 only) and total size.
type c33Pkt struct {
	TOC  byte
	M    byte // second byte of a code-3 packet (frame count in the low 6 bits)
	Size int
}

type c33Track struct {
	SSRC   uint32
	Serial int64  // -1: allocated by the writer
	Map    string // "", "mono", "stereo", "fam1", "fam255", "fam2"
	Rate   uint32 // 0: inherit
	Tags   string // "", "empty", "long"
}

type c33Op struct {
	Track int
	Pkt   c33Pkt
}

// c33RateExplicitZero in a track configuration stands for an explicit WithSampleRate(0) (0 itself means "option not given").
const c33RateExplicitZero = ^uint32(0)

type c33Case struct {
	Writer   string
	Rate     uint32 // single: constructor argument; multi: WithSampleRate when != 0
	Channels uint16 // single only
	WMap     string // multi: writer-level channel option
	WTags    string // multi: writer-level tags option
	Tracks   []c33Track
	Ops      []c33Op
}

func (cs c33Case) String() string { return vkit.Short(cs) }

func (p c33Pkt) bytes(seed int) []byte {
	out := make([]byte, p.Size)
	for i := range out {
		out[i] = byte(i*13 + seed*29 + 1)
	}
	out[0] = p.TOC
	if p.TOC&3 == 3 && p.Size >= 2 {
		out[1] = p.M
	}

	return out
}

// ---------------------------------------------------------------------------
// own oracles

// c33Units is the frame duration of each TOC configuration in units of 2.5 ms (RFC 6716 table 2).
var c33Units = [32]uint64{
	4, 8, 16, 24, 4, 8, 16, 24, 4, 8, 16, 24, // SILK NB/MB/WB: 10, 20, 40, 60 ms
	4, 8, 4, 8, // hybrid SWB/FB: 10, 20 ms
	1, 2, 4, 8, 1, 2, 4, 8, 1, 2, 4, 8, 1, 2, 4, 8, // CELT NB/WB/SWB/FB: 2.5, 5, 10, 20 ms
}

// c33Samples returns the duration of an Opus packet in 48 kHz samples; ok is
// false when the bytes are not a packet RFC 6716 allows (no frame, > 120 ms).
func c33Samples(pkt []byte) (uint64, bool) {
	if len(pkt) == 0 {
		return 0, false
	}
	frames := uint64(2)
	switch pkt[0] & 3 {
	case 0:
		frames = 1
	case 3:
		if len(pkt) < 2 {
			return 0, false
		}
		frames = uint64(pkt[1] & 0x3f)
	}
	units := c33Units[pkt[0]>>3] * frames
	if frames == 0 || units > 48 {
		return 0, false
	}

	return units * 120, true
}

// own CRC-32: polynomial 0x04c11db7, MSB first, initial value 0, no final xor.
var c33CRCTable = func() (t [256]uint32) {
	for i := range t {
		r := uint32(i) << 24 //nolint:gosec
		for k := 0; k < 8; k++ {
			if r&0x80000000 != 0 {
				r = r<<1 ^ 0x04c11db7
			} else {
				r <<= 1
			}
		}
		t[i] = r
	}

	return t
}()

func c33CRC(chunks ...[]byte) uint32 {
	var crc uint32
	for _, ch := range chunks {
		for _, b := range ch {
			crc = crc<<8 ^ c33CRCTable[byte(crc>>24)^b]
		}
	}

	return crc
}

// c33CRCBitwise is the table-free definition, used to self-test the table.
func c33CRCBitwise(data []byte) uint32 {
	var crc uint32
	for _, b := range data {
		crc ^= uint32(b) << 24
		for k := 0; k < 8; k++ {
			if crc&0x80000000 != 0 {
				crc = crc<<1 ^ 0x04c11db7
			} else {
				crc <<= 1
			}
		}
	}

	return crc
}

type c33Page struct {
	off     int
	htype   byte
	granule uint64
	serial  uint32
	seq     uint32
	lacing  []byte
	payload []byte
	crcOK   bool
}

// c33ParsePages is the own Ogg page parser.
func c33ParsePages(raw []byte) ([]c33Page, error) {
	var pages []c33Page
	off := 0
	for off < len(raw) {
		if len(raw)-off < 27 {
			return pages, fmt.Errorf("truncated page header at %d", off)
		}
		h := raw[off : off+27]
		if string(h[0:4]) != "OggS" {
			return pages, fmt.Errorf("no capture pattern at %d: %x", off, h[0:4])
		}
		if h[4] != 0 {
			return pages, fmt.Errorf("stream structure version %d at %d", h[4], off)
		}
		nseg := int(h[26])
		if len(raw)-off-27 < nseg {
			return pages, fmt.Errorf("truncated segment table at %d", off)
		}
		lacing := raw[off+27 : off+27+nseg]
		size := 0
		for _, l := range lacing {
			size += int(l)
		}
		body := off + 27 + nseg
		if len(raw)-body < size {
			return pages, fmt.Errorf("truncated page body at %d", off)
		}
		pg := c33Page{
			off:     off,
			htype:   h[5],
			granule: binary.LittleEndian.Uint64(h[6:]),
			serial:  binary.LittleEndian.Uint32(h[14:]),
			seq:     binary.LittleEndian.Uint32(h[18:]),
			lacing:  lacing,
			payload: raw[body : body+size],
		}
		stored := binary.LittleEndian.Uint32(h[22:])
		pg.crcOK = stored == c33CRC(h[:22], []byte{0, 0, 0, 0}, h[26:27], lacing, pg.payload)
		pages = append(pages, pg)
		off = body + size
	}

	return pages, nil
}

type c33Head struct {
	version, channels byte
	preSkip           uint16
	rate              uint32
	gain              uint16
	family            byte
	streams, coupled  byte
	mapping           []byte
}

func c33ParseHead(p []byte) (*c33Head, error) {
	if len(p) < 19 || string(p[:8]) != "OpusHead" {
		return nil, fmt.Errorf("not an OpusHead packet (%d bytes)", len(p))
	}
	h := &c33Head{
		version: p[8], channels: p[9], preSkip: binary.LittleEndian.Uint16(p[10:]),
		rate: binary.LittleEndian.Uint32(p[12:]), gain: binary.LittleEndian.Uint16(p[16:]), family: p[18],
	}
	if h.family == 0 {
		if len(p) != 19 {
			return nil, fmt.Errorf("family 0 OpusHead of %d bytes", len(p))
		}

		return h, nil
	}
	if len(p) != 21+int(h.channels) {
		return nil, fmt.Errorf("family %d OpusHead with %d channels has %d bytes", h.family, h.channels, len(p))
	}
	h.streams, h.coupled, h.mapping = p[19], p[20], p[21:]

	return h, nil
}

type c33Tags struct {
	vendor   string
	comments [][2]string
}

func c33ParseTags(p []byte) (*c33Tags, error) {
	if len(p) < 16 || string(p[:8]) != "OpusTags" {
		return nil, fmt.Errorf("not an OpusTags packet (%d bytes)", len(p))
	}
	pos := 8
	u32 := func() (int, error) {
		if len(p)-pos < 4 {
			return 0, errors.New("truncated OpusTags")
		}
		v := int(binary.LittleEndian.Uint32(p[pos:]))
		pos += 4
		if v > len(p)-pos {
			return 0, errors.New("OpusTags length exceeds the packet")
		}

		return v, nil
	}
	n, err := u32()
	if err != nil {
		return nil, err
	}
	t := &c33Tags{vendor: string(p[pos : pos+n])}
	pos += n
	if len(p)-pos < 4 {
		return nil, errors.New("truncated OpusTags (count)")
	}
	cnt := int(binary.LittleEndian.Uint32(p[pos:]))
	pos += 4
	for i := 0; i < cnt; i++ {
		n, err = u32()
		if err != nil {
			return nil, err
		}
		kv := string(p[pos : pos+n])
		pos += n
		eq := strings.IndexByte(kv, '=')
		if eq < 0 {
			return nil, fmt.Errorf("comment %d without '='", i)
		}
		t.comments = append(t.comments, [2]string{kv[:eq], kv[eq+1:]})
	}
	if pos != len(p) {
		return nil, fmt.Errorf("%d trailing bytes in OpusTags", len(p)-pos)
	}

	return t, nil
}

// ---------------------------------------------------------------------------
// configuration model

type c33Expect struct {
	serial   uint32
	head     c33Head
	tags     c33Tags
	packets  [][]byte
	samples  []uint64
	noGran   bool // a non-Opus packet was accepted: cumulative sample count undefined from there
	mapName  string
	tagsName string
}

func c33MapOpt(name string) (WriterTrackOption, bool) {
	switch name {
	case "mono":
		return WithChannelCount(1), true
	case "stereo":
		return WithChannelCount(2), true
	case "fam1":
		return WithChannelMapping(1, 1, 1, []byte{0, 1}), true
	case "fam255":
		return WithChannelMapping(255, 1, 1, []byte{0, 1, 255}), true
	case "fam2":
		return WithChannelMapping(2, 1, 0, []byte{0}), true
	}

	return nil, false
}

func c33ApplyMap(h *c33Head, name string) {
	switch name {
	case "mono":
		*h = c33Head{channels: 1, family: 0}
	case "stereo":
		*h = c33Head{channels: 2, family: 0}
	case "fam1":
		*h = c33Head{channels: 2, family: 1, streams: 1, coupled: 1, mapping: []byte{0, 1}}
	case "fam255":
		*h = c33Head{channels: 3, family: 255, streams: 1, coupled: 1, mapping: []byte{0, 1, 255}}
	case "fam2":
		*h = c33Head{channels: 1, family: 2, streams: 1, coupled: 0, mapping: []byte{0}}
	}
}

var c33LongValue = strings.Repeat("0123456789abcdef", 4200) // 67 200 bytes: OpusTags spans two pages

func c33TagOpts(name string) []WriterTrackOption {
	switch name {
	case "empty":
		return []WriterTrackOption{WithVendor("")}
	case "long":
		return []WriterTrackOption{
			WithVendor(strings.Repeat("v", 300)),
			WithUserComments(
				UserComment{Comment: "TITLE", Value: "a=b"},
				UserComment{Comment: "ARTIST", Value: "é世"},
				UserComment{Comment: "BIG", Value: c33LongValue},
			),
		}
	case "one":
		return []WriterTrackOption{WithUserComments(UserComment{Comment: "track", Value: ""})}
	}

	return nil
}

// c33ApplyTags: a vendor option replaces the vendor, a comments option appends (as documented).
func c33ApplyTags(t *c33Tags, name string) {
	switch name {
	case "empty":
		t.vendor = ""
	case "long":
		t.vendor = strings.Repeat("v", 300)
		t.comments = append(t.comments, [2]string{"TITLE", "a=b"}, [2]string{"ARTIST", "é世"}, [2]string{"BIG", c33LongValue})
	case "one":
		t.comments = append(t.comments, [2]string{"track", ""})
	}
}

// c33File is an in-memory seekable output (io.Writer + io.Seeker + io.WriterAt).
type c33File struct {
	buf []byte
	pos int64
}

func (f *c33File) Write(p []byte) (int, error) {
	n, err := f.WriteAt(p, f.pos)
	f.pos += int64(n)

	return n, err
}

func (f *c33File) WriteAt(p []byte, off int64) (int, error) {
	if off < 0 {
		return 0, errors.New("negative offset")
	}
	end := off + int64(len(p))
	if end > int64(len(f.buf)) {
		f.buf = append(f.buf, make([]byte, end-int64(len(f.buf)))...)
	}
	copy(f.buf[off:], p)

	return len(p), nil
}

func (f *c33File) Seek(off int64, whence int) (int64, error) {
	switch whence {
	case io.SeekStart:
		f.pos = off
	case io.SeekCurrent:
		f.pos += off
	case io.SeekEnd:
		f.pos = int64(len(f.buf)) + off
	}

	return f.pos, nil
}

var c33FileSeq atomic.Int64

// ---------------------------------------------------------------------------
// one case

type c33Env struct {
	c   *vkit.Check
	dir string
}

func c33SizeClass(n int) string {
	switch {
	case n < 255:
		return "<255"
	case n%255 == 0 && n >= 65025:
		return "k*65025"
	case n%255 == 0:
		return "k*255"
	case n > 65025:
		return ">65025"
	default:
		return "255..65025"
	}
}

//nolint:gocognit,cyclop,maintidx
func (e *c33Env) run(cs c33Case) {
	c := e.c
	c.Eval()
	failed := false
	bad := func(key, what string) {
		failed = true
		c.Violation(key, what+" (case "+cs.String()+")", cs)
	}

	var data []byte
	var exp []*c33Expect
	multi := cs.Writer == c33Multi || cs.Writer == c33MultiSeek

	c.Guard(cs.String(), cs, func() {
		write := make([]func(*rtp.Packet) error, 0, len(cs.Tracks))
		var closeFn func() error
		var fetch func() ([]byte, error)

		if !multi {
			var w *OggWriter
			var err error
			if cs.Writer == c33Single {
				buf := &bytes.Buffer{}
				w, err = NewWith(buf, cs.Rate, cs.Channels)
				fetch = func() ([]byte, error) { return buf.Bytes(), nil }
			} else {
				path := filepath.Join(e.dir, fmt.Sprintf("c33-%d.ogg", c33FileSeq.Add(1)))
				w, err = New(path, cs.Rate, cs.Channels)
				fetch = func() ([]byte, error) {
					b, rerr := os.ReadFile(path) //nolint:gosec
					_ = os.Remove(path)

					return b, rerr
				}
			}
			if err != nil {
				bad("writer-error|new|"+cs.Writer, "constructor: "+err.Error())

				return
			}
			x := &c33Expect{serial: w.track.serial, tags: c33Tags{vendor: "pion"}}
			x.head = c33Head{channels: byte(cs.Channels), family: 0} //nolint:gosec
			x.head.rate = cs.Rate
			exp = append(exp, x)
			write = append(write, w.WriteRTP)
			closeFn = w.Close
		} else {
			var out io.Writer
			var opts []WriterOption
			if cs.Writer == c33MultiSeek {
				f := &c33File{}
				out = f
				opts = append(opts, WithSeekableOutput(f))
				fetch = func() ([]byte, error) { return f.buf, nil }
			} else {
				buf := &bytes.Buffer{}
				out = buf
				fetch = func() ([]byte, error) { return buf.Bytes(), nil }
			}
			wHead := c33Head{channels: 2, family: 0}
			wTags := c33Tags{vendor: "pion"}
			wRate := uint32(48000)
			if cs.Rate != 0 {
				opts = append(opts, WithSampleRate(cs.Rate))
				wRate = cs.Rate
			}
			if o, ok := c33MapOpt(cs.WMap); ok {
				opts = append(opts, o)
				c33ApplyMap(&wHead, cs.WMap)
			}
			for _, o := range c33TagOpts(cs.WTags) {
				opts = append(opts, o)
			}
			c33ApplyTags(&wTags, cs.WTags)
			w, err := NewWriter(out, opts...)
			if err != nil {
				bad("writer-error|new|"+cs.Writer, "NewWriter: "+err.Error())

				return
			}
			for _, tc := range cs.Tracks {
				var topts []TrackOption
				x := &c33Expect{head: wHead, mapName: cs.WMap, tagsName: cs.WTags}
				x.head.mapping = append([]byte(nil), wHead.mapping...)
				x.tags = c33Tags{vendor: wTags.vendor, comments: append([][2]string(nil), wTags.comments...)}
				x.head.rate = wRate
				if tc.Serial >= 0 {
					topts = append(topts, WithSerial(uint32(tc.Serial))) //nolint:gosec
				}
				if tc.Rate == c33RateExplicitZero {
					// a track-level rate of 0 ("unspecified", RFC 7845 5.1) is a value, not "inherit the writer's"
					topts = append(topts, WithSampleRate(0))
					x.head.rate = 0
				} else if tc.Rate != 0 {
					topts = append(topts, WithSampleRate(tc.Rate))
					x.head.rate = tc.Rate
				}
				if o, ok := c33MapOpt(tc.Map); ok {
					topts = append(topts, o)
					c33ApplyMap(&x.head, tc.Map)
					x.head.rate = map[bool]uint32{true: tc.Rate, false: wRate}[tc.Rate != 0]
					if tc.Rate == c33RateExplicitZero {
						x.head.rate = 0
					}
					x.mapName = tc.Map
				}
				for _, o := range c33TagOpts(tc.Tags) {
					topts = append(topts, o)
				}
				c33ApplyTags(&x.tags, tc.Tags)
				if tc.Tags != "" {
					x.tagsName = tc.Tags
				}
				tr, terr := w.NewTrack(tc.SSRC, topts...)
				if terr != nil {
					bad("writer-error|newtrack|"+cs.Writer, "NewTrack: "+terr.Error())

					return
				}
				x.serial = tr.track.serial
				exp = append(exp, x)
				write = append(write, tr.WriteRTP)
			}
			closeFn = w.Close
		}

		for i, op := range cs.Ops {
			x := exp[op.Track]
			payload := op.Pkt.bytes(i)
			samples, valid := c33Samples(payload)
			ssrc := uint32(1)
			if multi {
				ssrc = cs.Tracks[op.Track].SSRC
			}
			// the packet handed over lives in the caller's receive buffer, which the caller re-uses as soon as
			// WriteRTP returned (a receive loop around one buffer): a writer that keeps the slice for a later
			// rewrite of its last page writes whatever the buffer holds by then
			recv := append([]byte{}, payload...)
			err := write[op.Track](&rtp.Packet{
				Header:  rtp.Header{Version: 2, PayloadType: 111, SequenceNumber: uint16(i), Timestamp: uint32(i) * 960, SSRC: ssrc}, //nolint:gosec
				Payload: recv,
			})
			for j := range recv {
				recv[j] = 0xEE
			}
			switch {
			case err == nil && valid:
				x.packets = append(x.packets, payload)
				x.samples = append(x.samples, samples)
			case err == nil:
				// not an Opus packet, accepted anyway: the statement is silent; it must still read back
				x.packets = append(x.packets, payload)
				x.samples = append(x.samples, 0)
				x.noGran = true
			case valid:
				bad(fmt.Sprintf("reject-valid|code=%d", payload[0]&3),
					fmt.Sprintf("op %d: WriteRTP refused a valid Opus packet (TOC %#02x, %d bytes): %v", i, payload[0], len(payload), err))

				return
			}
		}
		if err := closeFn(); err != nil {
			bad("writer-error|close|"+cs.Writer, "Close: "+err.Error())

			return
		}
		var err error
		if data, err = fetch(); err != nil {
			bad("writer-error|fetch|"+cs.Writer, err.Error())
		}
	})
	if failed {
		return
	}

	// ---- own parser
	pages, err := c33ParsePages(data)
	if err != nil {
		bad("malformed|"+cs.Writer, "own Ogg parser: "+err.Error())

		return
	}
	bySerial := map[uint32][]int{}
	for i, pg := range pages {
		if !pg.crcOK {
			bad(fmt.Sprintf("crc|writer=%s|eos=%v|segments=%d", cs.Writer, pg.htype&4 != 0, c33SegClass(len(pg.lacing))),
				fmt.Sprintf("page %d (serial %#x seq %d, offset %d): CRC does not match", i, pg.serial, pg.seq, pg.off))
		}
		bySerial[pg.serial] = append(bySerial[pg.serial], i)
	}
	if len(bySerial) != len(exp) {
		bad("streams|count|"+cs.Writer, fmt.Sprintf("%d logical streams in the output, %d tracks configured", len(bySerial), len(exp)))

		return
	}

	type joined struct {
		head, tags []byte
		headPage   int
		tagsPage   int
	}
	joins := make([]joined, len(exp))

	for ti, x := range exp {
		idx, ok := bySerial[x.serial]
		if !ok {
			bad("streams|serial|"+cs.Writer, fmt.Sprintf("track %d: no page with serial %#x", ti, x.serial))

			return
		}
		where := fmt.Sprintf("writer=%s", cs.Writer)
		// page flags and numbering
		var packets [][]byte
		var cur []byte
		open := false // a packet continues from the previous page of this stream
		completedAt := []int{}
		cum := uint64(0)      // cumulative samples of completed data packets
		lastGran := uint64(0) // last real granule position
		npk := 0              // packets completed so far
		granOK := true
		for k, pi := range idx {
			pg := pages[pi]
			if pg.seq != uint32(k) { //nolint:gosec
				bad("pageseq|"+where, fmt.Sprintf("track %d: page %d of the stream has sequence number %d", ti, k, pg.seq))

				return
			}
			if (pg.htype&2 != 0) != (k == 0) {
				bad(fmt.Sprintf("bos|first=%v|%s", k == 0, where), fmt.Sprintf("track %d: page %d of the stream has header type %#02x", ti, k, pg.htype))

				return
			}
			if last := k == len(idx)-1; (pg.htype&4 != 0) != last {
				what := "is not the last page of its stream but carries end-of-stream"
				if last {
					what = "is the last page of its stream and does not carry end-of-stream"
				}
				if !last {
					bad(fmt.Sprintf("eos|last=%v|%s", last, where), fmt.Sprintf("track %d: page %d (header type %#02x) %s", ti, k, pg.htype, what))

					return
				}
				// a missing EOS flag does not prevent the remaining clauses from being checked
				c.Violation(fmt.Sprintf("eos|last=%v|%s", last, where),
					fmt.Sprintf("track %d: page %d (header type %#02x) %s (case %s)", ti, k, pg.htype, what, cs.String()), cs)
			}
			if (pg.htype&1 != 0) != open {
				bad(fmt.Sprintf("continued-flag|set=%v|%s", pg.htype&1 != 0, where),
					fmt.Sprintf("track %d: page %d has header type %#02x but the previous page %s", ti, k, pg.htype,
						map[bool]string{true: "ended inside a packet", false: "ended on a packet boundary"}[open]))

				return
			}
			if pg.htype&^7 != 0 {
				bad("header-type-bits|"+where, fmt.Sprintf("track %d: page %d has header type %#02x", ti, k, pg.htype))
			}
			// lacing -> packets
			off := 0
			done := 0
			for _, l := range pg.lacing {
				cur = append(cur, pg.payload[off:off+int(l)]...)
				off += int(l)
				open = true
				if l < 255 {
					packets = append(packets, cur)
					completedAt = append(completedAt, k)
					cur = nil
					open = false
					done++
				}
			}
			// granule position
			for j := npk; j < npk+done; j++ {
				if j >= 2 && j-2 < len(x.samples) {
					cum += x.samples[j-2]
				}
			}
			npk += done
			if x.noGran || !granOK {
				continue
			}
			switch {
			case done == 0 && (pg.granule == ^uint64(0) || pg.granule == cum):
				// no packet ends here: "no position" (-1) or the unchanged count
			case done > 0 && pg.granule == cum:
			default:
				granOK = false
				bad(fmt.Sprintf("granule|completes=%v|header=%v|%s", done > 0, npk <= 2, where),
					fmt.Sprintf("track %d: page %d has granule position %d, cumulative Opus samples of the packets completed so far = %d", ti, k, pg.granule, cum))
			}
			if pg.granule != ^uint64(0) {
				if pg.granule < lastGran && granOK {
					granOK = false
					bad("granule|decreases|"+where, fmt.Sprintf("track %d: page %d granule %d after %d", ti, k, pg.granule, lastGran))
				}
				lastGran = pg.granule
			}
		}
		if open {
			bad("unterminated-packet|"+where, fmt.Sprintf("track %d: the stream ends inside a packet", ti))

			return
		}
		// header packets
		if len(packets) < 2 {
			bad("headers|missing|"+where, fmt.Sprintf("track %d: %d packets in the stream, expected OpusHead and OpusTags first", ti, len(packets)))

			return
		}
		if completedAt[0] != 0 || len(pages[idx[0]].lacing) != 1 {
			bad("headers|opushead-page|"+where, fmt.Sprintf("track %d: the OpusHead packet is not alone on the first page", ti))
		}
		h, herr := c33ParseHead(packets[0])
		if herr != nil {
			bad("headers|opushead|"+where, fmt.Sprintf("track %d: first packet: %v", ti, herr))

			return
		}
		if h.version != 1 || h.channels != x.head.channels || h.rate != x.head.rate || h.family != x.head.family ||
			h.streams != x.head.streams || h.coupled != x.head.coupled || !bytes.Equal(h.mapping, x.head.mapping) {
			bad(fmt.Sprintf("headers|opushead-fields|map=%s", x.mapName),
				fmt.Sprintf("track %d: OpusHead %+v, configured %+v", ti, *h, x.head))
		}
		tg, terr := c33ParseTags(packets[1])
		if terr != nil {
			bad("headers|opustags|"+where, fmt.Sprintf("track %d: second packet: %v", ti, terr))

			return
		}
		if tg.vendor != x.tags.vendor || !c33SameComments(tg.comments, x.tags.comments) {
			bad(fmt.Sprintf("headers|opustags-fields|tags=%s", x.tagsName),
				fmt.Sprintf("track %d: OpusTags vendor %.20q + %d comments, configured vendor %.20q + %d comments", ti, tg.vendor, len(tg.comments), x.tags.vendor, len(x.tags.comments)))
		}
		joins[ti] = joined{head: packets[0], tags: packets[1]}
		// data packets
		got := packets[2:]
		if len(got) != len(x.packets) {
			bad("packets|count|"+where, fmt.Sprintf("track %d: %d data packets read back, %d written", ti, len(got), len(x.packets)))

			return
		}
		for j := range got {
			if !bytes.Equal(got[j], x.packets[j]) {
				bad(fmt.Sprintf("packets|bytes|size=%s|%s", c33SizeClass(len(x.packets[j])), where),
					fmt.Sprintf("track %d: data packet %d read back as %d bytes, written %d bytes", ti, j, len(got[j]), len(x.packets[j])))

				return
			}
		}
	}
	if failed {
		return
	}

	// ---- the real OggReader agrees
	c.Guard(cs.String(), cs, func() {
		if len(pages) == 0 {
			return
		}
		r, hdr, rerr := oggreader.NewWith(bytes.NewReader(data))
		if rerr != nil {
			bad("reader|open|"+cs.Writer, "oggreader.NewWith: "+rerr.Error())

			return
		}
		first := -1
		for ti, x := range exp {
			if x.serial == pages[0].serial {
				first = ti
			}
		}
		if first < 0 || !c33SameHead(hdr, &exp[first].head) {
			bad("reader|header|map="+exp[max(first, 0)].mapName, fmt.Sprintf("OggReader header %+v, configured %+v", *hdr, exp[max(first, 0)].head))
		}
		for i := 1; i < len(pages); i++ {
			payload, ph, perr := r.ParseNextPage()
			if perr != nil {
				bad("reader|page-error|"+cs.Writer, fmt.Sprintf("OggReader page %d of %d: %v", i, len(pages), perr))

				return
			}
			if !bytes.Equal(payload, pages[i].payload) || ph.Serial != pages[i].serial || ph.GranulePosition != pages[i].granule {
				bad("reader|page-mismatch|"+cs.Writer, fmt.Sprintf("OggReader page %d: %d bytes serial %#x granule %d; own parser: %d bytes serial %#x granule %d",
					i, len(payload), ph.Serial, ph.GranulePosition, len(pages[i].payload), pages[i].serial, pages[i].granule))

				return
			}
		}
		if _, _, perr := r.ParseNextPage(); !errors.Is(perr, io.EOF) {
			bad("reader|trailing|"+cs.Writer, fmt.Sprintf("OggReader after the last page: %v (want io.EOF)", perr))
		}
		for ti, x := range exp {
			h, herr := oggreader.ParseOpusHead(joins[ti].head)
			if herr != nil || !c33SameHead(h, &x.head) {
				bad("reader|opushead|map="+x.mapName, fmt.Sprintf("track %d: ParseOpusHead = %+v, %v; configured %+v", ti, h, herr, x.head))
			}
			tg, terr := oggreader.ParseOpusTags(joins[ti].tags)
			if terr != nil {
				bad("reader|opustags|tags="+x.tagsName, fmt.Sprintf("track %d: ParseOpusTags: %v", ti, terr))

				continue
			}
			got := make([][2]string, 0, len(tg.UserComments))
			for _, uc := range tg.UserComments {
				got = append(got, [2]string{uc.Comment, uc.Value})
			}
			if tg.Vendor != x.tags.vendor || !c33SameComments(got, x.tags.comments) {
				bad("reader|opustags|tags="+x.tagsName, fmt.Sprintf("track %d: ParseOpusTags vendor %.20q + %d comments, configured %.20q + %d", ti, tg.Vendor, len(got), x.tags.vendor, len(x.tags.comments)))
			}
		}
	})
	if failed {
		return
	}

	// non-trivial: at least one data packet written and read back
	total, maxSize, multiPage := 0, 0, false
	for _, x := range exp {
		total += len(x.packets)
		for _, p := range x.packets {
			maxSize = max(maxSize, len(p))
			if len(p) >= 65025 {
				multiPage = true
			}
		}
	}
	if total > 0 {
		toc := cs.Ops[0].Pkt.TOC
		c.Distinct(fmt.Sprintf("%s|tracks=%d|pkts=%d|size=%s|multipage=%v|cfg=%d|code=%d", cs.Writer, len(exp), total, c33SizeClass(maxSize), multiPage, toc>>3, toc&3))
		c.Outcome(fmt.Sprintf("%s|pages=%d", cs.Writer, len(pages)))
	}
}

func c33SegClass(n int) string {
	switch n {
	case 0:
		return "0"
	case 255:
		return "255"
	default:
		return "1..254"
	}
}

func c33SameComments(a, b [][2]string) bool {
	if len(a) != len(b) {
		return false
	}
	for i := range a {
		if a[i] != b[i] {
			return false
		}
	}

	return true
}

func c33SameHead(h *oggreader.OggHeader, x *c33Head) bool {
	return h != nil && h.Version == 1 && h.Channels == x.channels && h.SampleRate == x.rate && h.ChannelMap == x.family &&
		h.StreamCount == x.streams && h.CoupledCount == x.coupled && h.ChannelMapping == string(x.mapping) &&
		h.PreSkip == 3840 && h.OutputGain == 0
}

// ---------------------------------------------------------------------------
// enumeration

func TestVerifC33(t *testing.T) { //nolint:cyclop,maintidx
	c := vkit.New("C33", "exploration")
	defer c.Finish(t)
	c.Rule("(A) every single Opus packet: TOC configuration 0..31 x stereo bit x frame-count code {0,1,2, 3 with M in {0,1,2,48,63}} x size " +
		"{1,2,254,255,256,509,510,511,65024,65025,65026,130051}, on all four writers; (B) every packet sequence up to length N over a 24-packet alphabet " +
		"(4 TOC shapes x sizes {2,255,256,510,65025,65026}) on all four writers x {mono,stereo} x sample rate; (C) two-track Writer: every interleaving " +
		"of <= 2 packets per track over a 4-packet alphabet x {io.Writer, seekable} x representative track configurations, and every combination of " +
		"writer/track channel-mapping, tags, serial and sample-rate options with every interleaving of <= 1 packet per track. Output decoded by an own page parser / " +
		"own CRC / own TOC table and by the real OggReader. Non-trivial: >= 1 data packet written and read back; distinct = (writer, tracks, packets, size class, multi-page?, TOC config, code)")
	c.Assume("granule oracle: a page on which >= 1 packet ends carries the cumulative 48 kHz sample count of all data packets completed so far (header pages: 0); a page on which no packet ends may carry -1 (RFC 3533 'no position') or the unchanged count")
	c.Assume("byte strings that are not Opus packets (no frames, > 120 ms) may be refused; when accepted they must still read back, the granule clause is not applied after them")
	c.Assume("seekable output: one in-memory object serves as io.Writer, io.Seeker and io.WriterAt; OggWriter.New writes real files in a temp dir")

	if got := c33CRC([]byte("123456789")); got != 0x89a1897f || c33CRCBitwise([]byte("123456789")) != got {
		vkit.Fatalf(t, "own CRC self-test failed: %#x", got)
	}
	env := &c33Env{c: c, dir: t.TempDir()}

	if raw, ok := c.ReplayCase(); ok {
		var cs c33Case
		if err := json.Unmarshal(raw, &cs); err != nil {
			vkit.Fatalf(t, "replay case: %v", err)
		}
		env.run(cs)
		c.Sample(cs)
		c.NotExhaustive("replay of one case")

		return
	}

	writers := []string{c33Single, c33SingleFile, c33Multi, c33MultiSeek}
	mk := func(writer string, rate uint32, ch uint16, ops []c33Op) c33Case {
		cs := c33Case{Writer: writer, Rate: rate, Channels: ch, Ops: ops}
		if writer == c33Multi || writer == c33MultiSeek {
			cs.Tracks = []c33Track{{SSRC: 7, Serial: -1}}
			cs.WMap = map[uint16]string{1: "mono", 2: "stereo"}[ch]
		}

		return cs
	}
	var cases []c33Case

	// (A) single packets, all TOC shapes x all sizes
	sizesA := []int{1, 2, 254, 255, 256, 509, 510, 511, 65024, 65025, 65026, 130051}
	type shape struct{ code, m byte }
	shapes := []shape{{0, 0}, {1, 0}, {2, 0}, {3, 0}, {3, 1}, {3, 0x80 | 2}, {3, 48}, {3, 63}}
	nA := 0
	for cfg := 0; cfg < 32; cfg++ {
		for _, stereo := range []byte{0, 4} {
			if c.Quick() && stereo != 0 {
				continue
			}
			for _, sh := range shapes {
				for _, size := range sizesA {
					if c.Quick() && size > 65026 {
						continue
					}
					pkt := c33Pkt{TOC: byte(cfg<<3) | stereo | sh.code, M: sh.m, Size: size} //nolint:gosec
					for _, w := range writers {
						if c.Quick() && w == c33SingleFile && size > 511 {
							continue
						}
						cases = append(cases, mk(w, 48000, 2, []c33Op{{0, pkt}}))
						nA++
					}
				}
			}
		}
	}
	c.Set("cases_A_single_packet", nA)

	// (B) sequences over a reduced alphabet
	tocsB := []c33Pkt{{TOC: 0x00}, {TOC: 3<<3 | 1}, {TOC: 31<<3 | 3, M: 2}, {TOC: 16<<3 | 3, M: 48}}
	sizesB := []int{2, 255, 256, 510, 65025, 65026}
	var alphaB []c33Pkt
	for _, p := range tocsB {
		for _, s := range sizesB {
			alphaB = append(alphaB, c33Pkt{TOC: p.TOC, M: p.M, Size: s})
		}
	}
	depthB := c.Pick(2, 3)
	c.Set("sequence_depth_B", depthB)
	nB := 0
	for _, seq := range vkit.AllSequences(len(alphaB), 0, depthB) {
		ops := make([]c33Op, len(seq))
		for i, s := range seq {
			ops[i] = c33Op{0, alphaB[s]}
		}
		for wi, w := range writers {
			if w == c33SingleFile && len(seq) == 3 {
				continue // the file-backed writer shares its page code with Writer+Seekable; depth 3 only in memory
			}
			// alternate the constructor arguments deterministically over the sequences
			variants := [][2]uint32{{48000, 2}, {16000, 1}}
			if len(seq) == 3 {
				variants = variants[(nB+wi)%2 : (nB+wi)%2+1]
			}
			for _, v := range variants {
				cases = append(cases, mk(w, v[0], uint16(v[1]), ops)) //nolint:gosec
				nB++
			}
		}
	}
	c.Set("cases_B_sequences", nB)

	// (C) two tracks
	alphaC := []c33Pkt{{TOC: 0x00, Size: 10}, {TOC: 3<<3 | 1, Size: 255}, {TOC: 31<<3 | 3, M: 2, Size: 65025}, {TOC: 16<<3 | 3, M: 48, Size: 300}}
	interleavings := func(maxPer int, alpha []c33Pkt) [][]c33Op {
		var out [][]c33Op
		var rec func(cur []c33Op, a, b int)
		rec = func(cur []c33Op, a, b int) {
			out = append(out, append([]c33Op(nil), cur...))
			for tr := 0; tr < 2; tr++ {
				if (tr == 0 && a == maxPer) || (tr == 1 && b == maxPer) {
					continue
				}
				for _, p := range alpha {
					na, nb := a, b
					if tr == 0 {
						na++
					} else {
						nb++
					}
					rec(append(cur, c33Op{tr, p}), na, nb)
				}
			}
		}
		rec(nil, 0, 0)

		return out
	}
	nC := 0
	repr := []c33Case{
		{Tracks: []c33Track{{SSRC: 1, Serial: -1}, {SSRC: 2, Serial: -1}}},
		{WMap: "fam255", WTags: "one", Tracks: []c33Track{{SSRC: 1, Serial: 0, Map: "mono"}, {SSRC: 0xffffffff, Serial: 0xffffffff, Tags: "long"}}},
	}
	maxPerC := c.Pick(1, 2)
	c.Set("interleaving_max_packets_per_track_C1", maxPerC)
	for _, ops := range interleavings(maxPerC, alphaC) {
		for _, w := range []string{c33Multi, c33MultiSeek} {
			for _, r := range repr {
				cs := r
				cs.Writer, cs.Ops = w, ops
				cases = append(cases, cs)
				nC++
			}
		}
	}
	small := interleavings(1, alphaC[:c.Pick(2, 4)])
	maps := []string{"", "mono", "fam1", "fam255", "fam2"}
	tags := []string{"", "empty", "long", "one"}
	for _, w := range []string{c33Multi, c33MultiSeek} {
		for _, wmap := range []string{"", "fam255"} {
			for _, wtags := range []string{"", "long"} {
				for _, mapA := range maps {
					for _, tagsB := range tags {
						for _, rateA := range []uint32{0, 8000, c33RateExplicitZero} {
							for _, serial := range []int64{-1, 5} {
								if c.Quick() && (serial == 5) != (rateA == 0) {
									continue
								}
								for _, ops := range small {
									cases = append(cases, c33Case{
										Writer: w, WMap: wmap, WTags: wtags, Rate: map[bool]uint32{true: 0, false: 24000}[rateA == 0],
										Tracks: []c33Track{{SSRC: 9, Serial: serial, Map: mapA, Rate: rateA}, {SSRC: 10, Serial: -1, Tags: tagsB}},
										Ops:    ops,
									})
									nC++
								}
							}
						}
					}
				}
			}
		}
	}
	// degenerate: no track at all, three tracks
	for _, w := range []string{c33Multi, c33MultiSeek} {
		cases = append(cases, c33Case{Writer: w})
		cases = append(cases, c33Case{Writer: w, Tracks: []c33Track{{SSRC: 1, Serial: -1}, {SSRC: 2, Serial: -1, Map: "fam2"}, {SSRC: 3, Serial: -1}},
			Ops: []c33Op{{2, alphaC[2]}, {0, alphaC[0]}, {2, alphaC[1]}, {1, alphaC[3]}}})
		nC += 2
	}
	c.Set("cases_C_multitrack", nC)
	c.Set("cases_total", len(cases))

	c.Sample(cases[nA/3])
	c.Sample(cases[nA+nB/2])
	c.Sample(cases[len(cases)-3])

	vkit.Parallel(len(cases), func(i int) { env.run(cases[i]) })
}
