package webrtc

// C22 (live part) — the aggregate's INPUTS at the call sites.
// The shim part of C22 drives updateConnectionState with every (closed, ICE, DTLS) input; this part checks what
// the real call sites feed it: on real loopback pairs every connection state the handler reports has to be the
// W3C aggregate of an ICE connection state and a DTLS transport state the transports really were in (a call
// site that derives an input from something else - an error value, a stale variable - reports a state no
// combination of observed transport states yields), and at quiescence the stored state is the aggregate of
// the transports' current states.

import (
	"fmt"
	"sort"
	"strings"
	"sync"
	"testing"
	"time"

	"github.com/pion/webrtc/v4/internal/verif/vkit"
)

// c22bRef is the W3C aggregate (both editions' readings where they differ, see the shim part).
func c22bRef(closed bool, ice ICEConnectionState, dtls DTLSTransportState) map[PeerConnectionState]bool {
	out := map[PeerConnectionState]bool{}
	dtlsIdle := dtls == DTLSTransportStateNew || dtls == DTLSTransportStateClosed
	dtlsUp := dtls == DTLSTransportStateConnected || dtls == DTLSTransportStateClosed
	iceUp := ice == ICEConnectionStateConnected || ice == ICEConnectionStateCompleted
	switch {
	case closed:
		out[PeerConnectionStateClosed] = true
	case ice == ICEConnectionStateFailed || dtls == DTLSTransportStateFailed:
		out[PeerConnectionStateFailed] = true
	case ice == ICEConnectionStateDisconnected:
		out[PeerConnectionStateDisconnected] = true
	default:
		switch {
		case ice == ICEConnectionStateNew && dtlsIdle:
			out[PeerConnectionStateNew] = true
		case iceUp && dtlsUp:
			out[PeerConnectionStateConnected] = true
		default:
			out[PeerConnectionStateConnecting] = true
		}
		switch { // older text
		case (ice == ICEConnectionStateNew || ice == ICEConnectionStateClosed) && dtlsIdle:
			out[PeerConnectionStateNew] = true
		case ice == ICEConnectionStateNew || ice == ICEConnectionStateChecking || dtls == DTLSTransportStateNew || dtls == DTLSTransportStateConnecting:
			out[PeerConnectionStateConnecting] = true
		case (iceUp || ice == ICEConnectionStateClosed) && dtlsUp:
			out[PeerConnectionStateConnected] = true
		}
	}

	return out
}

type c22bSide struct {
	*vPairSide
	mu  sync.Mutex
	ice []ICEConnectionState
}

func c22bWatch(s *vPairSide) *c22bSide {
	w := &c22bSide{vPairSide: s}
	s.PC.OnICEConnectionStateChange(func(st ICEConnectionState) {
		w.mu.Lock()
		w.ice = append(w.ice, st)
		w.mu.Unlock()
	})

	return w
}

func TestVerifC22Live(t *testing.T) {
	c := vkit.New("C22", "exploration")
	defer c.Finish(t)
	scenarios := []string{"plain", "answerer-dtls-stopped-before", "offerer-dtls-stopped-before", "fingerprint-mismatch", "ice-disconnected-when-dtls-start-returns"}
	c.Rule(fmt.Sprintf("%d scenarios on real loopback pairs (normal connection; the DTLS transport of the answerer / the offerer stopped by the application before negotiating, so that DTLSTransport.Start is refused while the transport is closed; a wrong fingerprint in the answer, so that DTLS really fails; the answerer's ICE transport reporting disconnected while its DTLS handshake completes, so that the update after DTLSTransport.Start has ICE disconnected and DTLS connected as inputs), both sides: every state the connection-state handler reports is the W3C aggregate of SOME ICE connection state and SOME DTLS transport state the side's transports were observed in (handler records of both transports, plus their initial states), closed only after Close; before Close, once nothing is in flight, the stored state is the aggregate of the transports' current states", len(scenarios)))
	c.Set("schedules_enumerated", false)
	c.Assume("the schedule of ICE/DTLS over loopback is whatever happens; the oracle is order-free (sets of observed transport states), so it cannot raise an alarm because of timing")
	if _, ok := c.ReplayCase(); ok {
		c.Eval()
		c.Distinct("replay-runs-the-scenarios-again")
	}
	for _, sc := range scenarios {
		sc := sc
		c.Guard("scenario", map[string]any{"scenario": sc}, func() {
			p := vPairNew(t, vPairOpts{})
			defer p.Close()
			a, b := c22bWatch(p.A), c22bWatch(p.B)
			if _, err := p.A.PC.CreateDataChannel("c22", nil); err != nil {
				vPairFatalf("CreateDataChannel: %v", err)
			}
			switch sc {
			case "ice-disconnected-when-dtls-start-returns":
				// the answerer's ICE transport reports `disconnected` while its DTLS handshake completes: the
				// harness replays, from inside the DTLS state handler (which runs before DTLSTransport.Start
				// returns), what the ICE agent's callback does for a disconnected notification, and lets the
				// handler return only when the connection has taken note of it. The update startTransports makes
				// after Start then has ICE disconnected and DTLS connected as its inputs.
				pc := p.B.PC
				dt := pc.dtlsTransport
				dt.lock.Lock()
				prev := dt.onStateChangeHandler
				dt.onStateChangeHandler = func(st DTLSTransportState) {
					if prev != nil {
						prev(st)
					}
					if st != DTLSTransportStateConnected {
						return
					}
					go func() {
						pc.iceTransport.setState(ICETransportStateDisconnected)
						pc.iceTransport.onConnectionStateChange(ICETransportStateDisconnected)
					}()
					for until := time.Now().Add(5 * time.Second); time.Now().Before(until) && pc.ICEConnectionState() != ICEConnectionStateDisconnected; {
						time.Sleep(time.Millisecond)
					}
				}
				dt.lock.Unlock()
			case "answerer-dtls-stopped-before":
				_ = p.B.PC.SCTP().Transport().Stop()
			case "offerer-dtls-stopped-before":
				_ = p.A.PC.SCTP().Transport().Stop()
			}
			hooks := vPairSignalHooks{}
			if sc == "fingerprint-mismatch" {
				hooks.Answer = func(d SessionDescription) SessionDescription {
					lines := vPairSDPLines(d.SDP)
					for i, l := range lines {
						if strings.HasPrefix(l, "a=fingerprint:sha-256 ") {
							v := []byte(l)
							if v[len(v)-1] == 'A' {
								v[len(v)-1] = 'B'
							} else {
								v[len(v)-1] = 'A'
							}
							lines[i] = string(v)
						}
					}
					d.SDP = vPairSDPJoin(lines)

					return d
				}
			}
			r := p.Signal(p.A, p.B, hooks)
			if r.OfferApplyErr != nil || r.AnswerApplyErr != nil {
				c.Outcome("signaling-refused|" + sc)

				return
			}
			// let the transports settle: ICE connected (or failed) on both sides, queued work done
			settle := time.Now().Add(20 * time.Second)
			for time.Now().Before(settle) {
				ia, ib := p.A.PC.ICEConnectionState(), p.B.PC.ICEConnectionState()
				done := func(s ICEConnectionState) bool {
					return s == ICEConnectionStateConnected || s == ICEConnectionStateCompleted || s == ICEConnectionStateFailed ||
						(s == ICEConnectionStateDisconnected && sc == "ice-disconnected-when-dtls-start-returns")
				}
				if done(ia) && done(ib) {
					break
				}
				time.Sleep(5 * time.Millisecond)
			}
			// the queued transport start may legitimately still be blocked (a DTLS handshake whose peer never
			// answers): then work is in flight on that side and the stored-state clause is not judged for it
			idle := map[*c22bSide]bool{}
			for _, w := range []*c22bSide{a, b} {
				done := make(chan struct{})
				go func(pc *PeerConnection) { pc.ops.Done(); close(done) }(w.PC)
				select {
				case <-done:
					idle[w] = true
				case <-time.After(3 * time.Second):
				}
			}
			for _, w := range []*c22bSide{a, b} {
				c.Eval()
				if !idle[w] {
					c.Outcome("queued-work-still-in-flight|" + sc)

					continue
				}
				// stored state = aggregate of the current transport states, once nothing is in flight
				ok := false
				var last string
				for try := 0; try < 400 && !ok; try++ {
					i, d := w.PC.ICEConnectionState(), w.PC.dtlsTransport.State()
					s := w.PC.ConnectionState()
					if i == w.PC.ICEConnectionState() && d == w.PC.dtlsTransport.State() && c22bRef(w.PC.isClosed.Load(), i, d)[s] {
						ok = true
					}
					last = fmt.Sprintf("ICE %s, DTLS %s, connection state %s", i, d, s)
					if !ok {
						time.Sleep(10 * time.Millisecond)
					}
				}
				if !ok {
					c.Violation("live|stored-state-not-the-aggregate|"+sc, fmt.Sprintf("scenario %s, side %s: with nothing in flight for 4 s the states stay %s", sc, w.Name, last),
						map[string]any{"scenario": sc, "side": w.Name})
				}
			}
			p.Close()
			for _, w := range []*c22bSide{a, b} {
				select {
				case <-w.PCReached(PeerConnectionStateClosed):
				case <-time.After(vPairGuard):
					vPairFatalf("C22 live: %s never reported closed", w.Name)
				}
				// handler goroutines of earlier states may still be on their way: give them a moment (not an oracle)
				time.Sleep(50 * time.Millisecond)
				w.vPairSide.mu.Lock()
				reported := append([]PeerConnectionState{}, w.pcStates...)
				dtlsSeen := append([]DTLSTransportState{DTLSTransportStateNew}, w.dtlsStates...)
				w.vPairSide.mu.Unlock()
				w.mu.Lock()
				iceSeen := append([]ICEConnectionState{ICEConnectionStateNew}, w.ice...)
				w.mu.Unlock()
				var names []string
				for _, s := range reported {
					names = append(names, s.String())
					if s == PeerConnectionStateClosed {
						continue
					}
					possible := false
					for _, i := range iceSeen {
						for _, d := range dtlsSeen {
							possible = possible || c22bRef(false, i, d)[s]
						}
					}
					if !possible {
						c.Violation("live|reported-state-no-aggregate-of-observed-transport-states|state="+s.String()+"|"+sc,
							fmt.Sprintf("scenario %s, side %s: the handler reported %s, but no combination of the ICE states %v and DTLS states %v the transports were in yields it (reports %v)", sc, w.Name, s, iceSeen, dtlsSeen, reported),
							map[string]any{"scenario": sc, "side": w.Name})
					}
				}
				sort.Strings(names)
				c.Distinct(fmt.Sprintf("%s|%s|reports=%s", sc, w.Name, strings.Join(vkit.Uniq(names), ",")))
				c.Outcome(sc + "|" + strings.Join(vkit.Uniq(names), ","))
			}
		})
	}
}
