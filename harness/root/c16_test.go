package webrtc

// C16 — Answer codecs are a subset of the offered codecs, with the offered payload types.
// Bounded exhaustive enumeration: every local MediaEngine from a pool of
// registrations x every sequence (up to a length) of remote codec entries written
// as a full synthetic offer (audio + video) x the ways an answerer can hold codec
// preferences. One PeerConnection per case: SetRemoteDescription(offer) ->
// CreateAnswer; no network is involved. The oracle reads offer and answer with the
// harness's own line scanner (no pion/sdp on the oracle side).

import (
	"encoding/json"
	"fmt"
	"strings"
	"testing"

	"github.com/pion/transport/v4/vnet"
	"github.com/pion/webrtc/v4/internal/verif/vkit"
)

type c16Codec struct {
	Kind   string   `json:"kind"`
	PT     int      `json:"pt"`
	Name   string   `json:"name"`
	Clock  uint32   `json:"clock"`
	Ch     uint16   `json:"ch,omitempty"`
	Fmtp   string   `json:"fmtp,omitempty"`
	FB     []string `json:"fb,omitempty"`
	AptRel string   `json:"apt_rel,omitempty"`
}

var c16LocalPool = []c16Codec{
	{Kind: "audio", PT: 111, Name: "opus", Clock: 48000, Ch: 2, Fmtp: "minptime=10;useinbandfec=1"},
	{Kind: "audio", PT: 0, Name: "PCMU", Clock: 8000},
	{Kind: "video", PT: 96, Name: "VP8", Clock: 90000, FB: []string{"goog-remb", "nack", "nack pli"}},
	{Kind: "video", PT: 98, Name: "VP9", Clock: 90000, Fmtp: "profile-id=0", FB: []string{"nack"}},
	{Kind: "video", PT: 102, Name: "H264", Clock: 90000, Fmtp: "level-asymmetry-allowed=1;packetization-mode=1;profile-level-id=42001f", FB: []string{"nack", "nack pli"}},
	{Kind: "video", PT: 104, Name: "H264", Clock: 90000, Fmtp: "level-asymmetry-allowed=1;packetization-mode=0;profile-level-id=42e01f", FB: []string{"nack"}},
	{Kind: "video", PT: 45, Name: "AV1", Clock: 90000},
	{Kind: "video", PT: 118, Name: "flexfec-03", Clock: 90000, Fmtp: "repair-window=10000000"},
}

var c16RemotePool = []c16Codec{
	{Kind: "audio", PT: 111, Name: "opus", Clock: 48000, Ch: 2, Fmtp: "minptime=10;useinbandfec=1"},
	{Kind: "audio", PT: 109, Name: "OPUS", Clock: 48000, Ch: 2, Fmtp: "minptime=10;useinbandfec=0"},
	{Kind: "audio", PT: 0, Name: "PCMU", Clock: 8000},
	{Kind: "audio", PT: 8, Name: "PCMA", Clock: 8000}, // never registered locally
	{Kind: "video", PT: 96, Name: "VP8", Clock: 90000, FB: []string{"nack", "nack pli", "transport-cc"}},
	{Kind: "video", PT: 102, Name: "vp8", Clock: 90000, FB: []string{"goog-remb"}}, // payload type of the local H264
	{Kind: "video", PT: 100, Name: "VP9", Clock: 90000, Fmtp: "profile-id=0", FB: []string{"nack"}},
	{Kind: "video", PT: 102, Name: "H264", Clock: 90000, Fmtp: "level-asymmetry-allowed=1;packetization-mode=1;profile-level-id=42001f", FB: []string{"nack"}},
	{Kind: "video", PT: 108, Name: "H264", Clock: 90000, Fmtp: "profile-level-id=42e01f;packetization-mode=0", FB: []string{"nack", "nack pli"}},
	{Kind: "video", PT: 96, Name: "H264", Clock: 90000, Fmtp: "packetization-mode=1;profile-level-id=640c1f", FB: []string{"nack"}}, // partial only; payload type of the local VP8
	{Kind: "video", PT: 35, Name: "AV1", Clock: 90000},
	{Kind: "video", PT: 119, Name: "x-unknown", Clock: 90000},
	{Kind: "video", PT: 120, Name: "rtx", Clock: 90000, AptRel: "listed"},
	{Kind: "video", PT: 121, Name: "rtx", Clock: 90000, Fmtp: "apt=55"},
	{Kind: "video", PT: 49, Name: "flexfec-03", Clock: 90000, Fmtp: "repair-window=10000000"},
	{Kind: "video", PT: 63, Name: "red", Clock: 90000},
}

// Answerer variants. prefs0-*: SetCodecPreferences with PayloadType 0 ("take the
// media engine's"); prefspt-*: SetCodecPreferences with the local registrations'
// explicit payload types.
var c16Variants = []string{
	"remote-first", "transceiver",
	"prefs0-reversed", "prefs0-first", "prefs0-last",
	"prefspt-reversed", "prefspt-first", "prefspt-last",
}

type c16Case struct {
	Local   []int  `json:"local"`
	RTX     bool   `json:"rtx"`
	Seq     []int  `json:"seq"`
	Variant string `json:"variant"`
	// Layout of the offer: "" = one audio and one video section; "v+vp" / "vp+v" = a second video section that
	// lists only the primary codecs of the video list (no RTX / FlexFEC / RED) after / before the full one;
	// "v+vr" / "vr+v" = a second video section that lists the primaries under other payload type numbers
	Layout string `json:"layout,omitempty"`
}

func c16Locals(cs c16Case) []c16Codec {
	var out []c16Codec
	for _, i := range cs.Local {
		l := c16LocalPool[i]
		out = append(out, l)
		if cs.RTX && l.Kind == "video" && l.Name != "flexfec-03" {
			out = append(out, c16Codec{Kind: "video", PT: l.PT + 1, Name: "rtx", Clock: 90000, Fmtp: fmt.Sprintf("apt=%d", l.PT)})
		}
	}

	return out
}

func c16Remote(seq []int) (out []c16Codec, ok bool) {
	seen := map[string]bool{}
	for pos, i := range seq {
		r := c16RemotePool[i]
		k := fmt.Sprintf("%s/%d", r.Kind, r.PT)
		if seen[k] {
			return nil, false
		}
		seen[k] = true
		if r.AptRel == "listed" {
			apt := -1
			isPrimary := func(p c16Codec) bool {
				return p.Kind == "video" && p.Name != "rtx" && p.Name != "flexfec-03" && p.Name != "red"
			}
			for j := pos - 1; j >= 0 && apt < 0; j-- {
				if p := c16RemotePool[seq[j]]; isPrimary(p) {
					apt = p.PT
				}
			}
			for j := pos + 1; j < len(seq) && apt < 0; j++ {
				if p := c16RemotePool[seq[j]]; isPrimary(p) {
					apt = p.PT
				}
			}
			if apt < 0 {
				apt = 55
			}
			r.Fmtp = fmt.Sprintf("apt=%d", apt)
		}
		out = append(out, r)
	}

	return out, true
}

func c16OfferText(remote []c16Codec) string { return c16OfferLayout(remote, "") }

func c16IsRepair(name string) bool {
	return strings.EqualFold(name, "rtx") || strings.EqualFold(name, "flexfec-03") || strings.EqualFold(name, "red")
}

// c16HasLayouts: the two-video-section layouts differ from the plain one only when the video list holds
// both a primary and a repair codec.
func c16HasLayouts(remote []c16Codec) bool {
	prim, rep := false, false
	for _, r := range remote {
		if r.Kind == "video" {
			if c16IsRepair(r.Name) {
				rep = true
			} else {
				prim = true
			}
		}
	}

	return prim && rep
}

// c16DistinctPrimaries counts the video primaries of a remote list that differ in name.
func c16DistinctPrimaries(remote []c16Codec) int {
	seen := map[string]bool{}
	for _, r := range remote {
		if r.Kind == "video" && !c16IsRepair(r.Name) {
			seen[strings.ToLower(r.Name)] = true
		}
	}

	return len(seen)
}

func c16OfferLayout(remote []c16Codec, layout string) string {
	var secs []vScanOfferSection
	section := func(kind string, primariesOnly bool) {
		s := vScanOfferSection{Media: kind, Dir: "sendrecv"}
		for _, r := range remote {
			if r.Kind == kind && !(primariesOnly && c16IsRepair(r.Name)) {
				s.Codecs = append(s.Codecs, vScanOfferCodec{PT: r.PT, Name: r.Name, Clock: r.Clock, Ch: r.Ch, Fmtp: r.Fmtp, FB: r.FB})
			}
		}
		if len(s.Codecs) > 0 {
			s.Mid = fmt.Sprintf("%d", len(secs))
			secs = append(secs, s)
		}
	}
	renumbered := func() {
		// the primaries of the video list again, under other payload type numbers (70, 71, ...)
		s := vScanOfferSection{Media: "video", Dir: "sendrecv"}
		next := 70
		for _, r := range remote {
			if r.Kind == "video" && !c16IsRepair(r.Name) {
				s.Codecs = append(s.Codecs, vScanOfferCodec{PT: next, Name: r.Name, Clock: r.Clock, Ch: r.Ch, Fmtp: r.Fmtp, FB: r.FB})
				next++
			}
		}
		if len(s.Codecs) > 0 {
			s.Mid = fmt.Sprintf("%d", len(secs))
			secs = append(secs, s)
		}
	}
	rotated := func() {
		// the primaries of the video list again with their payload type numbers ROTATED among them: every
		// number is one the first section uses, for another codec (needs two primaries to differ)
		s := vScanOfferSection{Media: "video", Dir: "sendrecv"}
		var prim []c16Codec
		for _, r := range remote {
			if r.Kind == "video" && !c16IsRepair(r.Name) {
				prim = append(prim, r)
			}
		}
		for i, r := range prim {
			s.Codecs = append(s.Codecs, vScanOfferCodec{PT: prim[(i+1)%len(prim)].PT, Name: r.Name, Clock: r.Clock, Ch: r.Ch, Fmtp: r.Fmtp, FB: r.FB})
		}
		if len(s.Codecs) > 0 {
			s.Mid = fmt.Sprintf("%d", len(secs))
			secs = append(secs, s)
		}
	}
	section("audio", false)
	switch layout {
	case "v+vx":
		section("video", false)
		rotated()
	case "vx":
		rotated()
	case "v+vr":
		section("video", false)
		renumbered()
	case "vr+v":
		renumbered()
		section("video", false)
	case "v+vp":
		section("video", false)
		section("video", true)
	case "vp+v":
		section("video", true)
		section("video", false)
	default:
		section("video", false)
	}

	return vScanWriteOffer(secs)
}

func c16Params(l c16Codec) RTPCodecParameters {
	var fb []RTCPFeedback
	for _, f := range l.FB {
		t, p, _ := strings.Cut(f, " ")
		fb = append(fb, RTCPFeedback{Type: t, Parameter: p})
	}

	return RTPCodecParameters{
		RTPCodecCapability: RTPCodecCapability{
			MimeType: l.Kind + "/" + l.Name, ClockRate: l.Clock, Channels: l.Ch, SDPFmtpLine: l.Fmtp, RTCPFeedback: fb,
		},
		PayloadType: PayloadType(l.PT),
	}
}

func c16Register(m *MediaEngine, locals []c16Codec) error {
	for _, l := range locals {
		typ := RTPCodecTypeVideo
		if l.Kind == "audio" {
			typ = RTPCodecTypeAudio
		}
		if err := m.RegisterCodec(c16Params(l), typ); err != nil {
			return err
		}
	}

	return nil
}

// c16CodecOf describes payload pt of a scanned section as "name/clock/channels"
// (lower-cased name; an absent channel count is one channel). ok=false: no rtpmap.
func c16CodecOf(s *vScanSection, pt string) (string, bool) {
	maps := s.vScanRtpmapFor(pt)
	if len(maps) == 0 {
		return "", false
	}
	m := maps[len(maps)-1]
	ch := m.Channels
	if ch == "" {
		ch = "1"
	}

	return strings.ToLower(m.Name) + "/" + m.Clock + "/" + ch, true
}

// c16Oracle compares the answer with the offer, section by section.
func c16Oracle(c *vkit.Check, memo map[string]bool, cs c16Case, offerText, answerText, round string) {
	offer, answer := vScanSDP(offerText), vScanSDP(answerText)
	for i, as := range answer.Sections {
		var os *vScanSection
		if i < len(offer.Sections) && (!as.HasMid || offer.Sections[i].Mid == as.Mid) {
			os = offer.Sections[i]
		} else {
			for _, o := range offer.Sections {
				if as.HasMid && o.Mid == as.Mid {
					os = o
				}
			}
		}
		if os == nil || as.Media == "application" {
			continue // no corresponding offer section: outside this property (C07)
		}
		if as.Port == "0" {
			if !memo["rejected"] {
				memo["rejected"] = true
				c.Distinct("rejected-section|" + as.Media)
			}

			continue // rejected section: its format list carries no meaning (RFC 3264 section 6)
		}
		rep := map[string]any{"case": cs, "offer_section": os.Lines, "answer_section": as.Lines}
		remapped := false
		for _, pt := range as.Formats {
			if !os.vScanListed(pt) {
				ac, _ := c16CodecOf(as, pt)
				name := strings.SplitN(ac, "/", 2)[0]
				other := "codec-not-offered"
				for _, opt := range os.Formats {
					if oc, ok := c16CodecOf(os, opt); ok && oc == ac {
						other = "codec-offered-under-another-payload-type"
					}
				}
				c.Violation(fmt.Sprintf("pt-not-offered|%s|%s/%s|variant=%s%s", other, as.Media, name, c16VariantClass(cs.Variant), round),
					fmt.Sprintf("answer section %d (%s) lists payload type %s (%s) that the offer section does not list; offer: %q answer: %q",
						i, as.Media, pt, ac, os.Lines[0], as.Lines[0]), rep)

				continue
			}
			ac, aok := c16CodecOf(as, pt)
			oc, ook := c16CodecOf(os, pt)
			if aok && ook && ac != oc {
				c.Violation(fmt.Sprintf("pt-maps-to-other-codec|%s|offer=%s|answer=%s|variant=%s%s", as.Media, strings.SplitN(oc, "/", 2)[0], strings.SplitN(ac, "/", 2)[0], c16VariantClass(cs.Variant), round),
					fmt.Sprintf("answer section %d: payload type %s is %s in the offer but %s in the answer", i, pt, oc, ac), rep)

				continue
			}
			for _, l := range c16Locals(cs) {
				if l.Kind == as.Media && fmt.Sprint(l.PT) != pt && strings.EqualFold(l.Name, strings.SplitN(ac, "/", 2)[0]) {
					remapped = true
				}
			}
		}
		k := fmt.Sprintf("accepted|%s|n=%d|remapped=%v|variant=%s", as.Media, min(len(as.Formats), 3), remapped, cs.Variant)
		if !memo[k] {
			memo[k] = true
			c.Distinct(k)
		}
	}
}

func c16VariantClass(v string) string {
	if i := strings.IndexByte(v, '-'); i >= 0 && strings.HasPrefix(v, "prefs") {
		return v[:i]
	}

	return v
}

func c16Run(t *testing.T, c *vkit.Check, memo map[string]bool, cs c16Case, offer string) {
	locals := c16Locals(cs)
	api := vNewAPI(t, vAPIOpts{
		virtualNet: true,
		media:      func(m *MediaEngine) error { return c16Register(m, locals) },
		// an empty virtual network: creating the ICE agent does not enumerate the host's interfaces
		setting: func(s *SettingEngine) {
			if n, err := vnet.NewNet(&vnet.NetConfig{}); err == nil {
				s.SetNet(n)
			}
		},
	})
	pc := vNewPC(t, api, nil)
	defer func() { _ = pc.Close() }()
	outcome := func(k string) {
		if !memo["o"+k] {
			memo["o"+k] = true
			c.Outcome(k)
		}
	}
	c.Guard("case", cs, func() {
		if cs.Variant != "remote-first" {
			for _, kind := range []string{"audio", "video"} {
				var prefs []RTPCodecParameters
				for _, l := range locals {
					if l.Kind == kind {
						prefs = append(prefs, c16Params(l))
					}
				}
				if len(prefs) == 0 {
					continue
				}
				tr, err := pc.AddTransceiverFromKind(c16Typ(kind), RTPTransceiverInit{Direction: RTPTransceiverDirectionRecvonly})
				if err != nil {
					panic(fmt.Sprintf("harness: AddTransceiverFromKind: %v", err))
				}
				switch {
				case strings.HasSuffix(cs.Variant, "-reversed"):
					for i, j := 0, len(prefs)-1; i < j; i, j = i+1, j-1 {
						prefs[i], prefs[j] = prefs[j], prefs[i]
					}
				case strings.HasSuffix(cs.Variant, "-first"):
					prefs = prefs[:1]
				case strings.HasSuffix(cs.Variant, "-last"):
					prefs = prefs[len(prefs)-1:]
				default:
					prefs = nil
				}
				if strings.HasPrefix(cs.Variant, "prefs0-") {
					for i := range prefs {
						prefs[i].PayloadType = 0
					}
				}
				if prefs != nil {
					if err := tr.SetCodecPreferences(prefs); err != nil {
						panic(fmt.Sprintf("harness: SetCodecPreferences: %v", err))
					}
				}
			}
		}
		if err := pc.SetRemoteDescription(SessionDescription{Type: SDPTypeOffer, SDP: offer}); err != nil {
			outcome("set-remote-error")

			return
		}
		answer, err := pc.CreateAnswer(nil)
		if err != nil {
			outcome("create-answer-error")

			return
		}
		outcome("answered")
		c16Oracle(c, memo, cs, offer, answer.SDP, "")
		// second round: the same peer re-offers WITHOUT its first video codec (and the RTX that refers to it);
		// the answer to the re-offer must not list what the re-offer no longer lists
		if cs.Layout != "" || (cs.Variant != "remote-first" && cs.Variant != "transceiver") {
			return
		}
		remote, ok := c16Remote(cs.Seq)
		if !ok {
			return
		}
		dropped := -1
		var second []c16Codec
		for _, r := range remote {
			if dropped < 0 && r.Kind == "video" && !c16IsRepair(r.Name) {
				dropped = r.PT

				continue
			}
			if dropped >= 0 && strings.EqualFold(r.Name, "rtx") && r.Fmtp == fmt.Sprintf("apt=%d", dropped) {
				continue
			}
			second = append(second, r)
		}
		nVideo := 0
		for _, r := range second {
			if r.Kind == "video" && !c16IsRepair(r.Name) {
				nVideo++
			}
		}
		if dropped < 0 || nVideo == 0 {
			return
		}
		if err := pc.SetLocalDescription(answer); err != nil {
			outcome("set-local-error")

			return
		}
		reoffer := c16OfferText(second)
		if len(vScanSDP(reoffer).Sections) != len(vScanSDP(offer).Sections) {
			return // the re-offer would lose a section (audio-less list): not this round's subject
		}
		if err := pc.SetRemoteDescription(SessionDescription{Type: SDPTypeOffer, SDP: reoffer}); err != nil {
			outcome("reoffer-set-remote-error")

			return
		}
		answer2, err := pc.CreateAnswer(nil)
		if err != nil {
			outcome("reoffer-create-answer-error")

			return
		}
		outcome("reoffer-answered")
		c16Oracle(c, memo, cs, reoffer, answer2.SDP, "|reoffer")
		// the same re-offer as an offerer produces it that removes a codec by editing the m= line only: the
		// a=rtpmap line of the dropped payload type is still there (the format list decides what is offered)
		if leftover := c16LeftoverRtpmap(reoffer, dropped, remote); leftover != "" && pc.SetLocalDescription(answer2) == nil {
			if err := pc.SetRemoteDescription(SessionDescription{Type: SDPTypeOffer, SDP: leftover}); err == nil {
				if answerL, aerr := pc.CreateAnswer(nil); aerr == nil {
					outcome("leftover-rtpmap-reoffer-answered")
					c16Oracle(c, memo, cs, leftover, answerL.SDP, "|reoffer-with-leftover-rtpmap")
					answer2 = answerL
				}
			}
		}
		// third round: a re-offer of the FULL list whose video primaries have exchanged their numbers
		if c16DistinctPrimaries(remote) < 2 || pc.SetLocalDescription(answer2) != nil {
			return
		}
		rot := c16OfferLayout(remote, "vx")
		if len(vScanSDP(rot).Sections) != len(vScanSDP(offer).Sections) {
			return
		}
		if err := pc.SetRemoteDescription(SessionDescription{Type: SDPTypeOffer, SDP: rot}); err != nil {
			outcome("rotated-reoffer-set-remote-error")

			return
		}
		answer3, err := pc.CreateAnswer(nil)
		if err != nil {
			outcome("rotated-reoffer-create-answer-error")

			return
		}
		outcome("rotated-reoffer-answered")
		c16Oracle(c, memo, cs, rot, answer3.SDP, "|rotated-reoffer")
	})
}

// c16LeftoverRtpmap inserts, into the video section of an offer that no longer lists payload type pt, the
// a=rtpmap line that payload type had in the full list. "" when the list has no such entry.
func c16LeftoverRtpmap(offer string, pt int, remote []c16Codec) string {
	line := ""
	for _, r := range remote {
		if r.PT == pt && r.Kind == "video" {
			line = fmt.Sprintf("a=rtpmap:%d %s/%d", r.PT, r.Name, r.Clock)
		}
	}
	if line == "" {
		return ""
	}
	lines := strings.Split(strings.TrimRight(offer, "\r\n"), "\r\n")
	var out []string
	in, done := false, false
	for _, l := range lines {
		if strings.HasPrefix(l, "m=") {
			in = strings.HasPrefix(l, "m=video")
		}
		if in && !done && strings.HasPrefix(l, "a=rtpmap:") {
			out = append(out, line)
			done = true
		}
		out = append(out, l)
	}
	if !done {
		return ""
	}

	return strings.Join(out, "\r\n") + "\r\n"
}

func c16Typ(kind string) RTPCodecType {
	if kind == "audio" {
		return RTPCodecTypeAudio
	}

	return RTPCodecTypeVideo
}

func c16Subsets(n, k int) [][]int {
	var out [][]int
	for size := 1; size <= k; size++ {
		idx := make([]int, size)
		var rec func(pos, from int)
		rec = func(pos, from int) {
			if pos == size {
				out = append(out, append([]int{}, idx...))

				return
			}
			for v := from; v < n; v++ {
				idx[pos] = v
				rec(pos+1, v+1)
			}
		}
		rec(0, 0)
	}

	return out
}

func TestVerifC16(t *testing.T) {
	c := vkit.New("C16", "exploration")
	defer c.Finish(t)
	c.Rule("case = (subset of the local registration pool, RTX per local video codec or not, sequence of remote pool entries without repeated payload type rendered as a full audio+video offer, answerer variant: transceiver created from the offer / pre-existing transceiver / pre-existing transceiver with SetCodecPreferences reversed / first-only / last-only, each with payload type 0 = unset and with the local payload types); one PeerConnection per case, SetRemoteDescription -> CreateAnswer; non-trivial = an accepted answer section, classed by (kind, number of payload types, whether a local codec was offered under another payload type, variant)")
	c.Assume("rejected answer sections (port 0) are not judged: their format list carries no meaning (RFC 3264 section 6)")
	c.Assume("corresponding offer section = same index and same a=mid; answers with a different section layout are C07's subject and skipped here")

	if raw, ok := c.ReplayCase(); ok {
		var wrap struct {
			Case c16Case `json:"case"`
		}
		if err := json.Unmarshal(raw, &wrap); err != nil || wrap.Case.Variant == "" {
			vkit.Fatalf(t, "replay case: %v", err)
		}
		remote, ok := c16Remote(wrap.Case.Seq)
		if !ok {
			vkit.Fatalf(t, "replay case has a repeated payload type")
		}
		c.Eval()
		c16Run(t, c, map[string]bool{}, wrap.Case, c16OfferLayout(remote, wrap.Case.Layout))

		return
	}

	type engine struct {
		local []int
		rtx   bool
	}
	var engines []engine
	for _, sub := range c16Subsets(len(c16LocalPool), 3) {
		engines = append(engines, engine{sub, false})
		for _, i := range sub {
			if l := c16LocalPool[i]; l.Kind == "video" && l.Name != "flexfec-03" {
				engines = append(engines, engine{sub, true})

				break
			}
		}
	}
	// bound: local engine size by remote sequence length (index = length)
	maxLocal := []int{0, 3, 1}
	if !c.Quick() {
		maxLocal = []int{0, 3, 3, 2}
	}
	maxLen := len(maxLocal) - 1
	seqs := vkit.AllSequences(len(c16RemotePool), 1, maxLen)
	c.Set("local_pool", len(c16LocalPool))
	c.Set("local_engines_size_le_3", len(engines))
	c.Set("max_local_subset_size_by_remote_sequence_length", maxLocal[1:])
	c.Set("remote_pool", len(c16RemotePool))
	c.Set("remote_sequence_max_len", maxLen)
	c.Set("remote_sequences", len(seqs))
	c.Set("variants", c16Variants)
	c.Sample(c16Case{Local: []int{2, 4}, RTX: true, Seq: []int{5, 7}, Variant: "prefs0-reversed"})
	c.Sample(c16Case{Local: []int{0}, RTX: false, Seq: []int{1, 4, 12}, Variant: "remote-first"})

	vkit.Parallel(len(seqs), func(si int) {
		seq := seqs[si]
		remote, ok := c16Remote(seq)
		if !ok {
			c.Add("sequences_skipped_repeated_pt", 1)

			return
		}
		offer := c16OfferText(remote)
		memo := map[string]bool{}
		n := 0
		for _, e := range engines {
			if len(e.local) > maxLocal[len(seq)] {
				continue
			}
			for _, v := range c16Variants {
				c16Run(t, c, memo, c16Case{Local: e.local, RTX: e.rtx, Seq: seq, Variant: v}, offer)
				n++
			}
			// a second video section without the repair codecs: what is negotiated for one section of a kind
			// must not leak into the answer of another section of that kind
			// a second video section that numbers the same primaries differently (legal: numbers are per section)
			for _, lay := range []string{"v+vr", "vr+v"} {
				hasVideo := false
				for _, r := range remote {
					hasVideo = hasVideo || (r.Kind == "video" && !c16IsRepair(r.Name))
				}
				if !hasVideo {
					break
				}
				for _, v := range []string{"remote-first", "transceiver"} {
					c16Run(t, c, memo, c16Case{Local: e.local, RTX: e.rtx, Seq: seq, Variant: v, Layout: lay}, c16OfferLayout(remote, lay))
					n++
				}
			}
			// a second video section (and, below, a re-offer) that uses the first section's numbers for OTHER
			// codecs: pion refuses such offers; if it ever answers one, every number has to name what the section
			// it answers offers under it
			if nprim := c16DistinctPrimaries(remote); nprim >= 2 {
				for _, v := range []string{"remote-first", "transceiver"} {
					c16Run(t, c, memo, c16Case{Local: e.local, RTX: e.rtx, Seq: seq, Variant: v, Layout: "v+vx"}, c16OfferLayout(remote, "v+vx"))
					n++
				}
			}
			if c16HasLayouts(remote) {
				for _, lay := range []string{"v+vp", "vp+v"} {
					for _, v := range []string{"remote-first", "transceiver"} {
						c16Run(t, c, memo, c16Case{Local: e.local, RTX: e.rtx, Seq: seq, Variant: v, Layout: lay}, c16OfferLayout(remote, lay))
						n++
					}
				}
			}
		}
		c.EvalN(n)
	})
	if c.Outcomes() < 1 {
		vkit.Fatalf(t, "vacuous: no answer was produced")
	}
}
