package webrtc

// C12 — A successful offer describes exactly the local transceivers and data channels (Unified Plan).
//
// Oracle, for every offer CreateOffer returns under Unified Plan, against the API-visible state of
// the generating PeerConnection right after the call (GetTransceivers, Mid, Kind, Direction,
// Sender().Track(), Sender().GetParameters()) and the line-scanned SDP:
//   - every transceiver has a mid, and exactly one m-section carries it; that section has the
//     transceiver's kind and exactly its direction; no audio/video section is without a transceiver;
//   - a sender with a track on a sendrecv/sendonly transceiver is announced with
//     a=msid:<streamID> <trackID>, a=ssrc lines for exactly the SSRCs of GetParameters().Encodings
//     (primary, RTX, FEC) and ssrc-group FID / FEC-FR pairs for exactly the RTX / FEC SSRCs;
//   - an application section is present exactly when CreateDataChannel was called,
//     AlwaysNegotiateDataChannels is set, or the applied remote description has one (the peer
//     created the channel); never twice.

import (
	"fmt"
	"sort"
	"strconv"
	"strings"
	"testing"
	"time"

	"github.com/pion/webrtc/v4/internal/verif/vkit"
)

func c12Oracle(cs vshCase, r *vshRun) []vshFinding {
	var out []vshFinding
	if cs.Cfg.Sem != "unified" {
		return nil
	}
	for _, d := range r.Descs {
		if d.Err != "" || d.Type != "offer" {
			continue
		}
		out = append(out, c12Check(cs, d)...)
	}

	return out
}

func c12Check(cs vshCase, d *vshDesc) []vshFinding { //nolint:gocognit,cyclop
	var out []vshFinding
	where := fmt.Sprintf("offer returned by %s at step %d (%s) of %s: sections %s", d.Side, d.Step, d.Role, cs.String(), vshSecSummary(d.Scan))
	add := func(key, what string) {
		out = append(out, vshFinding{key, what + " — " + where})
	}
	secs := d.Scan.Sections
	owned := map[int]bool{}
	for ti, t := range d.Trs {
		if t.Mid == "" {
			add("transceiver-without-mid|kind="+t.Kind, fmt.Sprintf("transceiver %d (%s) has no mid after a successful CreateOffer", ti, t.Kind))

			continue
		}
		var at []int
		for i, s := range secs {
			if s.HasMid && s.Mid == t.Mid {
				at = append(at, i)
			}
		}
		switch {
		case len(at) == 0:
			rej := "no"
			for _, s := range secs {
				if !s.HasMid && s.Port == "0" {
					rej = "yes"
				}
			}
			add("transceiver-without-section|kind="+t.Kind+"|midless-rejected-section-present="+rej, fmt.Sprintf("no m-section carries mid %q of transceiver %d (%s %s)", t.Mid, ti, t.Kind, t.Dir))

			continue
		case len(at) > 1:
			cl := "media-only"
			for k, i := range at {
				if secs[i].Media == "application" && k == 0 {
					cl = "application-section-first"
				} else if secs[i].Media == "application" {
					cl = "application-section-later"
				}
			}
			add("transceiver-mid-on-several-sections|"+cl, fmt.Sprintf("mid %q of transceiver %d (%s) is carried by %d m-sections %v", t.Mid, ti, t.Kind, len(at), at))
		}
		// the section that describes the transceiver: the one of its kind if there is a choice
		si := at[0]
		for _, i := range at {
			if secs[i].Media == t.Kind {
				si = i

				break
			}
		}
		owned[si] = true
		s := secs[si]
		if s.Media != t.Kind {
			add("section-kind-differs|transceiver="+t.Kind+"|section="+s.Media, fmt.Sprintf("m-section %d with mid %q is %s, the transceiver is %s", si, t.Mid, s.Media, t.Kind))

			continue
		}
		dirs := vshDirections(s)
		if len(dirs) != 1 || dirs[0] != t.Dir {
			add(fmt.Sprintf("section-direction-differs|transceiver=%s|section=%s", t.Dir, strings.Join(dirs, "+")), fmt.Sprintf("m-section %d (mid %q) has direction attributes %v, the transceiver's direction is %s", si, t.Mid, dirs, t.Dir))
		}
		// a ReplaceTrack that returned nil took effect (the harness's own record of the call, not the sender's)
		if t.HasSender && t.ModelSet {
			got := ""
			if t.HasTrack {
				got = t.StreamID + " " + t.TrackID
			}
			if got != t.ModelMsid {
				add("replace-track-not-in-effect", fmt.Sprintf("ReplaceTrack returned nil for track %q on the sender of transceiver %d, but the sender holds %q", t.ModelMsid, ti, got))
			}
		}
		if !t.HasSender || !t.HasTrack || (t.Dir != "sendrecv" && t.Dir != "sendonly") {
			continue
		}
		// sending track
		encClass := "single"
		if len(t.Enc) > 1 {
			encClass = "simulcast"
		}
		wantMsid := t.StreamID + " " + t.TrackID
		msids := vshAttr(s.Lines, "msid")
		found := false
		for _, m := range msids {
			if m == wantMsid {
				found = true
			} else {
				add("msid-other-value|"+encClass, fmt.Sprintf("m-section %d has a=msid:%s, the sending track is %q", si, m, wantMsid))
			}
		}
		if !found {
			add("msid-missing|"+encClass, fmt.Sprintf("m-section %d does not announce the sending track with a=msid:%s (msid lines %v)", si, wantMsid, msids))
		}
		// RTX / FEC per encoding against an independent source: the codecs the harness registered
		// (video/rtx and flexfec-03 exist for video only). Before any remote description is applied
		// nothing can have switched them off, so every encoding of a video sender has an RTX SSRC
		// iff video/rtx is registered and a FEC SSRC iff flexfec-03 is registered; audio has neither.
		if !d.RemoteSet {
			wantRTX := t.Kind == "video" && (cs.Cfg.Engine == "" || cs.Cfg.Engine == "flexfec")
			wantFEC := t.Kind == "video" && (cs.Cfg.Engine == "flexfec" || cs.Cfg.Engine == "feconly")
			for ei, e := range t.Enc {
				encPos := "first"
				if ei > 0 {
					encPos = "later"
				}
				hasGroup := func(sem string) bool {
					for _, v := range vshAttr(s.Lines, "ssrc-group") {
						f := strings.Fields(v)
						if len(f) >= 2 && f[0] == sem && f[1] == strconv.FormatUint(uint64(e.SSRC), 10) {
							return true
						}
					}

					return false
				}
				for _, x := range []struct {
					name, sem string
					want      bool
					ssrc      uint32
				}{{"rtx", "FID", wantRTX, e.RTX}, {"fec", "FEC-FR", wantFEC, e.FEC}} {
					ctx := fmt.Sprintf("%s|registered=%v|%s|encoding=%s", x.name, x.want, encClass, encPos)
					if (x.ssrc != 0) != x.want {
						add("encoding-"+x.name+"-ssrc-vs-registered-codecs|"+ctx, fmt.Sprintf("encoding %d of the %s sender has %s SSRC %d, but %s registered=%v in the MediaEngine (%q)", ei, t.Kind, x.name, x.ssrc, x.name, x.want, cs.Cfg.Engine))
					}
					if hasGroup(x.sem) != x.want {
						add("ssrc-group-vs-registered-codecs|"+x.sem+"|"+ctx, fmt.Sprintf("m-section %d: a=ssrc-group:%s for primary SSRC %d of encoding %d present=%v, but %s registered=%v in the MediaEngine (%q)", si, x.sem, e.SSRC, ei, hasGroup(x.sem), x.name, x.want, cs.Cfg.Engine))
					}
				}
			}
		}
		announced := map[uint32]bool{}
		for _, v := range vshAttr(s.Lines, "ssrc") {
			id, _ := vScanCut(v)
			if n, err := strconv.ParseUint(id, 10, 32); err == nil {
				announced[uint32(n)] = true
			}
		}
		groups := map[string]bool{} // "FID a b"
		for _, v := range vshAttr(s.Lines, "ssrc-group") {
			groups[strings.Join(strings.Fields(v), " ")] = true
		}
		want := map[uint32]string{}
		wantGroups := map[string]string{}
		for _, e := range t.Enc {
			want[e.SSRC] = "primary"
			if e.RTX != 0 {
				want[e.RTX] = "rtx"
				wantGroups[fmt.Sprintf("FID %d %d", e.SSRC, e.RTX)] = "FID"
			}
			if e.FEC != 0 {
				want[e.FEC] = "fec"
				wantGroups[fmt.Sprintf("FEC-FR %d %d", e.SSRC, e.FEC)] = "FEC-FR"
			}
		}
		for ei, e := range t.Enc {
			encPos := "first"
			if ei > 0 {
				encPos = "later"
			}
			for _, x := range []struct {
				v    uint32
				role string
			}{{e.SSRC, "primary"}, {e.RTX, "rtx"}, {e.FEC, "fec"}} {
				if x.v != 0 && !announced[x.v] {
					add(fmt.Sprintf("ssrc-not-announced|%s|%s|encoding=%s", x.role, encClass, encPos), fmt.Sprintf("m-section %d has no a=ssrc line for the %s SSRC %d of encoding %d of the sender", si, x.role, x.v, ei))
				}
			}
		}
		ann := make([]uint32, 0, len(announced))
		for v := range announced {
			ann = append(ann, v)
		}
		sort.Slice(ann, func(i, j int) bool { return ann[i] < ann[j] })
		for _, v := range ann {
			if _, ok := want[v]; !ok {
				add("ssrc-announced-but-not-used|"+encClass, fmt.Sprintf("m-section %d announces SSRC %d, which is not in the sender's GetParameters().Encodings %+v", si, v, t.Enc))
			}
		}
		gk := make([]string, 0, len(wantGroups))
		for g := range wantGroups {
			gk = append(gk, g)
		}
		sort.Strings(gk)
		for _, g := range gk {
			if !groups[g] {
				add("ssrc-group-missing|"+wantGroups[g]+"|"+encClass, fmt.Sprintf("m-section %d lacks a=ssrc-group:%s", si, g))
			}
		}
		gg := make([]string, 0, len(groups))
		for g := range groups {
			gg = append(gg, g)
		}
		sort.Strings(gg)
		for _, g := range gg {
			if _, ok := wantGroups[g]; !ok {
				sem, _ := vScanCut(g)
				add("ssrc-group-unexpected|"+sem+"|"+encClass, fmt.Sprintf("m-section %d has a=ssrc-group:%s, which does not pair SSRCs of the sender's encodings %+v", si, g, t.Enc))
			}
		}
	}
	nApp := 0
	for i, s := range secs {
		if s.Media == "application" {
			nApp++

			continue
		}
		if !owned[i] {
			mid := "absent"
			if s.HasMid {
				mid = "present"
			}
			add(fmt.Sprintf("section-without-transceiver|media=%s|mid=%s|port0=%v", s.Media, mid, s.Port == "0"), fmt.Sprintf("m-section %d (%s) does not belong to any transceiver (transceiver mids %v)", i, s.Media, c12Mids(d.Trs)))
		}
	}
	expect := cs.Cfg.AlwaysDC || d.DCCreated || d.RemoteApp
	reason := fmt.Sprintf("always=%v|created=%v|remote=%v", cs.Cfg.AlwaysDC, d.DCCreated, d.RemoteApp)
	switch {
	case nApp > 1:
		add("application-section-twice", fmt.Sprintf("%d application m-sections", nApp))
	case nApp == 1 && !expect:
		add("application-section-unexpected", "an application m-section although no data channel was created, AlwaysNegotiateDataChannels is off and the remote description has none")
	case nApp == 0 && expect:
		add("application-section-missing|"+reason, "no application m-section ("+reason+")")
	}

	return out
}

func c12Mids(trs []vshTr) []string {
	out := make([]string, 0, len(trs))
	for _, t := range trs {
		out = append(out, t.Mid)
	}

	return out
}

func c12Cover(c *vkit.Check) func(cs vshCase, r *vshRun) {
	return func(cs vshCase, r *vshRun) {
		for _, d := range r.Descs {
			if d.Type != "offer" {
				continue
			}
			if d.Err != "" {
				c.Outcome("offer-error|" + vshErrClass(fmt.Errorf("%s", d.Err))) //nolint:err113

				continue
			}
			var parts []string
			sending := 0
			for _, t := range d.Trs {
				p := t.Kind[:1] + ":" + t.Dir
				if t.HasSender && t.HasTrack {
					p += fmt.Sprintf(":trk%d", len(t.Enc))
					rtx, fec := false, false
					for _, e := range t.Enc {
						rtx = rtx || e.RTX != 0
						fec = fec || e.FEC != 0
					}
					p += fmt.Sprintf(":rtx=%v:fec=%v", rtx, fec)
					sending++
				} else if t.HasSender {
					p += ":notrack"
				}
				parts = append(parts, p)
			}
			app := false
			for _, s := range d.Scan.Sections {
				app = app || s.Media == "application"
			}
			if len(d.Trs) > 0 || app {
				c.Distinct(fmt.Sprintf("%s|%s|app=%v", cs.Cfg.String(), strings.Join(parts, ","), app))
			}
			c.Outcome(fmt.Sprintf("trs=%d|sending=%d|app=%v", len(d.Trs), sending, app))
		}
		if len(cs.Hist) == 3 {
			c.Sample(map[string]any{"case": cs.String(), "status": r.Status, "last_offer": c12LastSummary(r)})
		}
	}
}

func c12LastSummary(r *vshRun) string {
	for i := len(r.Descs) - 1; i >= 0; i-- {
		if r.Descs[i].Err == "" {
			return r.Descs[i].Side + " " + r.Descs[i].Type + " " + vshSecSummary(r.Descs[i].Scan)
		}
	}

	return "-"
}

func c12Alphabet(full bool) []vshOp {
	a := []vshOp{
		{Side: "X", Op: "addtrack", Kind: "audio"},
		{Side: "X", Op: "addtrack", Kind: "video"},
		{Side: "X", Op: "addk", Kind: "audio", Dir: "sendrecv"},
		{Side: "X", Op: "addk", Kind: "video", Dir: "sendonly"},
		{Side: "X", Op: "addk", Kind: "video", Dir: "recvonly"},
		{Side: "X", Op: "addtft", Kind: "video", Dir: "sendrecv", N: 1},
		{Side: "X", Op: "addtft", Kind: "video", Dir: "sendonly", N: 3},
		{Side: "X", Op: "addtft", Kind: "video", Dir: "sendonly", N: -1},
		{Side: "X", Op: "addtrack", Kind: "video", N: 2},
		{Side: "X", Op: "rmtrack", Idx: 0},
		{Side: "X", Op: "replace", Idx: 0, N: 0},
		{Side: "X", Op: "replace", Idx: 0, N: 1},
		{Side: "X", Op: "dc"},
		{Side: "X", Op: "dcbad"},
		{Side: "X", Op: "neg"},
		{Side: "P", Op: "neg"},
		{Side: "P", Op: "dc"},
		{Side: "P", Op: "addk", Kind: "video", Dir: "sendrecv"},
	}
	if full {
		a = append(a,
			vshOp{Side: "X", Op: "addk", Kind: "audio", Dir: "recvonly"},
			vshOp{Side: "X", Op: "addk", Kind: "audio", Dir: "sendonly"},
			vshOp{Side: "X", Op: "addk", Kind: "video", Dir: "sendrecv"},
			vshOp{Side: "X", Op: "addtft", Kind: "audio", Dir: "sendonly", N: 1},
			vshOp{Side: "X", Op: "addtft", Kind: "video", Dir: "sendrecv", N: 2},
			vshOp{Side: "X", Op: "rmtrack", Idx: 1},
			vshOp{Side: "X", Op: "replace", Idx: 1, N: 0},
			vshOp{Side: "X", Op: "stop", Idx: 0},
		)
	}

	return a
}

func TestVerifC12(t *testing.T) {
	c := vkit.New("C12", "model_checking")
	defer c.Finish(t)
	if vshReplayMode(t, c, c12Oracle) {
		return
	}
	vSharedCert()
	quick := c.Quick()
	exp := &vshExplorer{tb: t, c: c, oracle: c12Oracle, cover: c12Cover(c), probeEvery: true}
	exp.stop = c.Deadline(time.Duration(c.Pick(20, 360)) * time.Second)
	depth := c.Pick(3, 4)
	alpha := c12Alphabet(false)
	var cfgs []vshCfg
	for _, eng := range []string{"", "nortx", "flexfec", "feconly"} {
		for _, always := range []bool{false, true} {
			if quick && always && eng != "" {
				continue // quick: AlwaysNegotiateDataChannels with the default engine only
			}
			cfgs = append(cfgs, vshCfg{Sem: "unified", Engine: eng, AlwaysDC: always})
		}
	}
	c.Rule(fmt.Sprintf("explicit-state BFS over histories of local operations (AddTrack, AddTransceiverFromKind, AddTrack with 2 and AddTransceiverFromTrack with 1 or 3 simulcast encodings (Sender.AddEncoding), RemoveTrack, ReplaceTrack(nil|other), CreateDataChannel), each followed by CreateOffer, interleaved with complete exchanges in both directions against a second real PeerConnection that may add a data channel or a transceiver (successor = replay on fresh objects + one operation): alphabet of %d operations, merged on a canonical negotiation state, depth %d, MediaEngine default (RTX only) | neither RTX nor FEC | RTX + flexfec-03 | flexfec-03 only x AlwaysNegotiateDataChannels; every offer is compared with GetTransceivers()/Sender().GetParameters() of the generating side; distinct = configuration x (kind, direction, track/encodings/RTX/FEC) list of the transceivers x application section", len(alpha), depth))
	c.Set("alphabet", fmt.Sprint(alpha))
	c.Set("depth_merged", depth)
	c.Set("configurations", fmt.Sprint(cfgs))
	levels := map[string][]int{}
	for _, cfg := range cfgs {
		lv, done := exp.bfs(cfg, alpha, depth, true)
		levels[cfg.String()] = lv
		if !done {
			c.NotExhaustive(fmt.Sprintf("budget reached in the BFS of %s after levels %v (depth %d planned)", cfg, lv, depth))
		}
	}
	if !quick {
		// the wider alphabet and the unmerged tree at depth 3; offers only at the end of a history
		lv, done := exp.bfs(vshCfg{Sem: "unified"}, c12Alphabet(true), 3, true)
		levels["unified/full-alphabet"] = lv
		if !done {
			c.NotExhaustive("budget reached in the full-alphabet BFS")
		}
		lv, done = exp.bfs(vshCfg{Sem: "unified", Engine: "flexfec"}, alpha, 3, false)
		levels["unified+flexfec/unmerged"] = lv
		if !done {
			c.NotExhaustive("budget reached in the unmerged tree")
		}
		exp2 := &vshExplorer{tb: t, c: c, oracle: c12Oracle, cover: c12Cover(c), probeEvery: false, stop: exp.stop}
		lv, done = exp2.bfs(vshCfg{Sem: "unified"}, alpha, 4, true)
		levels["unified/final-offer-only"] = lv
		if !done {
			c.NotExhaustive("budget reached in the final-offer-only BFS")
		}
	}
	c.Set("replays_per_level", levels)
}
