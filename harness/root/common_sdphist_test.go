package webrtc

// vsh — shared machinery of the SDP-history checks C06, C09 and C12.
//
// A *history* is a list of operations on a PeerConnection X (and on a second real
// PeerConnection P that plays the remote peer): local additions/removals, CreateOffer probes,
// complete offer/answer exchanges in either direction (the harness carries the SDP text from
// one object to the other, there is no network) and exchanges with a *synthetic* remote peer
// whose offers/answers are written as text by the harness. Live PeerConnections cannot be
// cloned, so the successor of a history is computed by replaying it on fresh objects plus one
// more operation. Every description returned by CreateOffer/CreateAnswer during a replay is
// recorded together with a snapshot of the API-visible state of the generating side; the
// oracles of the three checks read those records (SDP through the line scanner vScan, never
// through pion/sdp).

import (
	"encoding/json"
	"fmt"
	"reflect"
	"sort"
	"strconv"
	"strings"
	"testing"
	"time"

	"github.com/pion/webrtc/v4/internal/verif/vkit"
)

// ---- configuration --------------------------------------------------------------------------

type vshCfg struct {
	Sem       string `json:"sem"`                       // unified | planb | fallback
	AlwaysDC  bool   `json:"always_dc,omitempty"`       // Configuration.AlwaysNegotiateDataChannels
	MediaFP   bool   `json:"media_fp,omitempty"`        // SettingEngine.SetSDPMediaLevelFingerprints
	Engine    string `json:"engine,omitempty"`          // "" (default codecs: RTX, no FEC) | nortx (neither) | flexfec (both) | feconly (FEC, no RTX)
	PeerAudio bool   `json:"peer_audio_only,omitempty"` // P's MediaEngine has audio codecs only
}

func (c vshCfg) String() string {
	s := c.Sem
	if c.AlwaysDC {
		s += "+alwaysdc"
	}
	if c.MediaFP {
		s += "+mediafp"
	}
	if c.Engine != "" {
		s += "+" + c.Engine
	}
	if c.PeerAudio {
		s += "+peeraudio"
	}

	return s
}

func vshSemantics(s string) SDPSemantics {
	switch s {
	case "planb":
		return SDPSemanticsPlanB
	case "fallback":
		return SDPSemanticsUnifiedPlanWithFallback
	}

	return SDPSemanticsUnifiedPlan
}

func vshNewPC(tb testing.TB, cfg vshCfg, peer bool) *PeerConnection {
	tb.Helper()
	o := vAPIOpts{virtualNet: true, setting: func(s *SettingEngine) { s.SetSDPMediaLevelFingerprints(cfg.MediaFP) }}
	switch {
	case peer && cfg.PeerAudio:
		o.media = func(m *MediaEngine) error {
			return m.RegisterCodec(RTPCodecParameters{
				RTPCodecCapability: RTPCodecCapability{MimeTypeOpus, 48000, 2, "minptime=10;useinbandfec=1", nil},
				PayloadType:        111,
			}, RTPCodecTypeAudio)
		}
	case cfg.Engine == "nortx":
		o.media = func(m *MediaEngine) error {
			if err := m.RegisterCodec(RTPCodecParameters{
				RTPCodecCapability: RTPCodecCapability{MimeTypeOpus, 48000, 2, "minptime=10;useinbandfec=1", nil},
				PayloadType:        111,
			}, RTPCodecTypeAudio); err != nil {
				return err
			}
			if err := m.RegisterCodec(RTPCodecParameters{
				RTPCodecCapability: RTPCodecCapability{MimeTypeVP8, 90000, 0, "", nil},
				PayloadType:        96,
			}, RTPCodecTypeVideo); err != nil {
				return err
			}

			return m.RegisterCodec(RTPCodecParameters{
				RTPCodecCapability: RTPCodecCapability{
					MimeTypeH264, 90000, 0, "level-asymmetry-allowed=1;packetization-mode=1;profile-level-id=42001f", nil,
				},
				PayloadType: 102,
			}, RTPCodecTypeVideo)
		}
	case cfg.Engine == "feconly":
		// video: VP8 + flexfec-03, no video/rtx (FEC enabled, RTX not)
		o.media = func(m *MediaEngine) error {
			if err := m.RegisterCodec(RTPCodecParameters{
				RTPCodecCapability: RTPCodecCapability{MimeTypeOpus, 48000, 2, "minptime=10;useinbandfec=1", nil},
				PayloadType:        111,
			}, RTPCodecTypeAudio); err != nil {
				return err
			}
			if err := m.RegisterCodec(RTPCodecParameters{
				RTPCodecCapability: RTPCodecCapability{MimeTypeVP8, 90000, 0, "", nil},
				PayloadType:        96,
			}, RTPCodecTypeVideo); err != nil {
				return err
			}

			return m.RegisterCodec(RTPCodecParameters{
				RTPCodecCapability: RTPCodecCapability{MimeTypeFlexFEC03, 90000, 0, "repair-window=10000000", nil},
				PayloadType:        118,
			}, RTPCodecTypeVideo)
		}
	case cfg.Engine == "flexfec":
		o.media = func(m *MediaEngine) error {
			if err := m.RegisterDefaultCodecs(); err != nil {
				return err
			}

			return m.RegisterCodec(RTPCodecParameters{
				RTPCodecCapability: RTPCodecCapability{MimeTypeFlexFEC03, 90000, 0, "repair-window=10000000", nil},
				PayloadType:        118,
			}, RTPCodecTypeVideo)
		}
	}

	return vNewPC(tb, vNewAPI(tb, o), &Configuration{
		SDPSemantics:                vshSemantics(cfg.Sem),
		AlwaysNegotiateDataChannels: cfg.AlwaysDC,
	})
}

// ---- operations -----------------------------------------------------------------------------

// vshSynSec is one m-section of a synthetic remote offer.
type vshSynSec struct {
	Media string `json:"media"`           // audio | video | application
	Mid   string `json:"mid"`             //
	Codec string `json:"codec,omitempty"` // "" = a codec pion supports, "unknown" = one it does not
	Dir   string `json:"dir,omitempty"`   // "" = sendrecv
}

type vshOp struct {
	Side string `json:"side"` // X | P
	// Op:
	//  addk     AddTransceiverFromKind(Kind, Dir)
	//  addtrack AddTrack(new track of Kind); N>1: the track carries a RID, N-1 x Sender.AddEncoding
	//  addtft   AddTransceiverFromTrack(new track of Kind, Dir); N>1: simulcast, N-1 x Sender.AddEncoding; N=-1: init with SendEncodings[0].SSRC preset
	//  rmtrack  RemoveTrack(sender of transceiver Idx)
	//  replace  Sender(Idx).ReplaceTrack(nil when N==0, another track when N==1)
	//  stop     transceiver Idx .Stop()
	//  dc       CreateDataChannel
	//  offer    CreateOffer, result checked and discarded (not applied)
	//  neg      complete exchange, Side offers, the other real PeerConnection answers
	//  sro      synthetic remote offer to X: the sections of X's current local description mirrored
	//           + the new sections Secs; X answers and applies the answer
	//  negs     X offers, the synthetic peer answers (mirror of the offer)
	Op     string      `json:"op"`
	Kind   string      `json:"kind,omitempty"`
	Dir    string      `json:"dir,omitempty"`
	Idx    int         `json:"idx,omitempty"`
	N      int         `json:"n,omitempty"`
	Secs   []vshSynSec `json:"secs,omitempty"`
	Bundle string      `json:"bundle,omitempty"` // sro: "" = all mids | none | first
}

func (o vshOp) String() string {
	s := o.Side + ":" + o.Op
	switch o.Op {
	case "addk":
		s += "(" + o.Kind + "," + o.Dir + ")"
	case "addtrack":
		s += "(" + o.Kind + ")"
		if o.N > 1 {
			s = strings.TrimSuffix(s, ")") + fmt.Sprintf(",enc=%d)", o.N)
		}
	case "addtft":
		s += fmt.Sprintf("(%s,%s,enc=%d)", o.Kind, o.Dir, o.N)
	case "rmtrack", "stop":
		s += fmt.Sprintf("(%d)", o.Idx)
	case "replace":
		s += fmt.Sprintf("(%d,%s)", o.Idx, map[int]string{0: "nil", 1: "other"}[o.N])
	case "sro":
		parts := []string{}
		for _, x := range o.Secs {
			p := x.Media + "/" + x.Mid
			if x.Codec != "" {
				p += "/" + x.Codec
			}
			parts = append(parts, p)
		}
		b := o.Bundle
		if b == "" {
			b = "all"
		}
		s += "(" + strings.Join(parts, " ") + ";bundle=" + b + ")"
	}

	return s
}

type vshCase struct {
	Cfg  vshCfg  `json:"cfg"`
	Hist []vshOp `json:"history"`
	// ProbeEvery: every local operation is followed by a CreateOffer on the same side whose result is
	// recorded (role "probe") and discarded ("CreateOffer after every operation", C12).
	ProbeEvery bool `json:"probe_every,omitempty"`
}

func (cs vshCase) String() string {
	p := make([]string, 0, len(cs.Hist))
	for _, o := range cs.Hist {
		p = append(p, o.String())
	}

	pe := ""
	if cs.ProbeEvery {
		pe = " (CreateOffer after every operation)"
	}

	return "[" + cs.Cfg.String() + "] " + strings.Join(p, " ; ") + pe
}

func vshKind(s string) RTPCodecType {
	if s == "video" {
		return RTPCodecTypeVideo
	}

	return RTPCodecTypeAudio
}

func vshDir(s string) RTPTransceiverDirection {
	switch s {
	case "sendonly":
		return RTPTransceiverDirectionSendonly
	case "recvonly":
		return RTPTransceiverDirectionRecvonly
	case "inactive":
		return RTPTransceiverDirectionInactive
	}

	return RTPTransceiverDirectionSendrecv
}

// ---- records --------------------------------------------------------------------------------

type vshEnc struct {
	RID            string
	SSRC, RTX, FEC uint32
}

// vshTr is the API-visible state of one transceiver.
type vshTr struct {
	ptr       *RTPTransceiver
	Mid       string
	Kind      string
	Dir       string
	HasSender bool
	HasTrack  bool
	StreamID  string
	TrackID   string
	Enc       []vshEnc
	// the harness's own model of the sender's track after ReplaceTrack calls that returned nil
	// (ModelSet: such a call was made on this sender; ModelMsid "" = replaced by nil)
	ModelSet  bool
	ModelMsid string
}

// vshDesc is one description returned by CreateOffer/CreateAnswer (or the error it returned).
type vshDesc struct {
	Step      int
	Side      string
	Type      string // offer | answer
	Role      string // neg | probe | final | syn
	SDP       string
	Err       string
	Applied   bool    // became a local description through SetLocalDescription
	Trs       []vshTr // transceivers of the generating side right after the call
	DCCreated bool    // the generating side has called CreateDataChannel before
	RemoteApp bool    // the last remote description applied to the generating side has an application section
	RemoteSet bool    // a remote description has been applied to the generating side
	Scan      vScanDesc
}

// vshCall is one API call of a replay with the transceiver mids of both sides after it.
type vshCall struct {
	Step int
	Side string // the object the call was made on
	Call string // op:<name> | CreateOffer | CreateAnswer | SetLocalDescription | SetRemoteDescription
	Err  string
	Desc int    // index into Descs for CreateOffer/CreateAnswer/SetLocal (-1 otherwise)
	Text string // SetRemoteDescription: the text applied
	Mids map[string][]vshMid
}

type vshMid struct {
	ptr *RTPTransceiver
	Mid string
}

type vshFinding struct {
	Key  string
	What string
}

type vshRun struct {
	Descs   []*vshDesc
	Calls   []vshCall
	Status  []string // per history step: ok | na | err:<class> | abort:<where>:<class>
	Dead    bool     // a negotiation was left half-way: the history is not extended
	Canon   string
	Panic   string
	PanicAt string
	// final API-visible summary of X and P for the applicability of further operations
	NTr     map[string]int
	Senders map[string][]bool
	Stable  bool
	HasCLD  bool
}

func vshErrClass(err error) string {
	if err == nil {
		return "ok"
	}
	s := err.Error()
	for _, k := range []string{
		"RemoteDescription contained media section without mid", "without mid", "ErrIncorrectSDPSemantics", "Expected PlanB", "Expected UnifiedPlan",
		"mid", "codec", "invalid proposed signaling state", "ice-ufrag", "fingerprint", "sender", "track", "direction",
	} {
		if strings.Contains(s, k) {
			return strings.ReplaceAll(k, " ", "-")
		}
	}
	if len(s) > 48 {
		s = s[:48]
	}

	return strings.ReplaceAll(s, " ", "-")
}

// ---- one side of a replay ---------------------------------------------------------------------

type vshSideState struct {
	name       string
	pc         *PeerConnection
	dcCreated  int
	remoteText string // last remote description applied
	trackSeq   int
	replaced   map[*RTPSender]string // sender -> "<stream> <track>" after a successful ReplaceTrack ("" = nil)
}

func (s *vshSideState) snapshot() []vshTr {
	var out []vshTr
	for _, t := range s.pc.GetTransceivers() {
		v := vshTr{ptr: t, Mid: t.Mid(), Kind: t.Kind().String(), Dir: t.Direction().String()}
		if snd := t.Sender(); snd != nil {
			v.HasSender = true
			if tr := snd.Track(); tr != nil {
				v.HasTrack = true
				v.StreamID, v.TrackID = tr.StreamID(), tr.ID()
			}
			for _, e := range snd.GetParameters().Encodings {
				v.Enc = append(v.Enc, vshEnc{e.RID, uint32(e.SSRC), uint32(e.RTX.SSRC), uint32(e.FEC.SSRC)})
			}
			if m, ok := s.replaced[snd]; ok {
				v.ModelSet, v.ModelMsid = true, m
			}
		}
		out = append(out, v)
	}

	return out
}

func (s *vshSideState) mids() []vshMid {
	var out []vshMid
	for _, t := range s.pc.GetTransceivers() {
		out = append(out, vshMid{t, t.Mid()})
	}

	return out
}

func (s *vshSideState) newTrack(kind string, rid string) (TrackLocal, error) {
	s.trackSeq++
	mime := MimeTypeOpus
	if kind == "video" {
		mime = MimeTypeVP8
	}
	id := fmt.Sprintf("%s-trk%d", strings.ToLower(s.name), s.trackSeq)
	stream := fmt.Sprintf("%s-str%d", strings.ToLower(s.name), s.trackSeq)
	if rid != "" {
		return NewTrackLocalStaticSample(RTPCodecCapability{MimeType: mime}, id, stream, WithRTPStreamID(rid))
	}

	return NewTrackLocalStaticSample(RTPCodecCapability{MimeType: mime}, id, stream)
}

// ---- synthetic peer ---------------------------------------------------------------------------

const (
	vshSynFingerprint = "a=fingerprint:sha-256 0F:74:31:25:CB:A2:13:EC:28:6F:6D:2C:61:FF:5D:C2:BC:B9:DB:3D:98:14:8D:1A:BB:EA:33:0C:A4:60:A8:8E\r\n"
	vshSynICE         = "a=ice-ufrag:vshUfrag\r\na=ice-pwd:vshPasswordvshPasswordvsh000\r\n"
)

type vshSynWire struct {
	Media  string
	Mid    string
	HasMid bool
	Port   string // "9" | "0"
	Codec  string // "" | unknown
	Dir    string
}

// vshWriteSyn renders a description of the synthetic peer.
func vshWriteSyn(secs []vshSynWire, bundle []string, setup string, version int) string {
	var b strings.Builder
	b.WriteString("v=0\r\no=- 4611731400430051337 " + strconv.Itoa(version) + " IN IP4 127.0.0.1\r\ns=-\r\nt=0 0\r\n")
	b.WriteString(vshSynFingerprint)
	if len(bundle) > 0 {
		b.WriteString("a=group:BUNDLE " + strings.Join(bundle, " ") + "\r\n")
	}
	for _, s := range secs {
		if s.Media == "application" {
			b.WriteString("m=application " + s.Port + " UDP/DTLS/SCTP webrtc-datachannel\r\nc=IN IP4 0.0.0.0\r\n")
			b.WriteString("a=setup:" + setup + "\r\n")
			if s.HasMid {
				b.WriteString("a=mid:" + s.Mid + "\r\n")
			}
			b.WriteString(vshSynICE + "a=sctp-port:5000\r\na=max-message-size:262144\r\n")

			continue
		}
		pt, rtpmap := "111", "opus/48000/2"
		switch {
		case s.Codec == "unknown" && s.Media == "audio":
			pt, rtpmap = "99", "vshnoaudio/8000"
		case s.Codec == "unknown":
			pt, rtpmap = "99", "vshnovideo/90000"
		case s.Media == "video":
			pt, rtpmap = "96", "VP8/90000"
		}
		b.WriteString("m=" + s.Media + " " + s.Port + " UDP/TLS/RTP/SAVPF " + pt + "\r\nc=IN IP4 0.0.0.0\r\n")
		b.WriteString("a=setup:" + setup + "\r\n")
		if s.HasMid {
			b.WriteString("a=mid:" + s.Mid + "\r\n")
		}
		b.WriteString(vshSynICE + "a=rtcp-mux\r\na=rtpmap:" + pt + " " + rtpmap + "\r\n")
		d := s.Dir
		if d == "" {
			d = "sendrecv"
		}
		b.WriteString("a=" + d + "\r\n")
	}

	return b.String()
}

func vshReverseDir(d string) string {
	switch d {
	case "sendonly":
		return "recvonly"
	case "recvonly":
		return "sendonly"
	}

	return d
}

// vshMirror turns the sections of one of X's descriptions into sections of the synthetic peer.
// ok=false when a section cannot be mirrored (no mid).
func vshMirror(d vScanDesc, asOffer bool) (secs []vshSynWire, ok bool) {
	for _, s := range d.Sections {
		if !s.HasMid || s.Mid == "" {
			return nil, false
		}
		w := vshSynWire{Media: s.Media, Mid: s.Mid, HasMid: true, Port: "9"}
		if s.Port == "0" && !asOffer {
			w.Port = "0"
		}
		if s.Media != "application" {
			w.Dir = vshReverseDir(vshOneDirection(s))
			if len(s.Rtpmap) == 0 {
				w.Codec = "unknown"
			}
		}
		secs = append(secs, w)
	}

	return secs, true
}

// vshDirections returns the direction attributes of a section, one entry per line.
func vshDirections(s *vScanSection) []string {
	var out []string
	for _, l := range s.Lines {
		switch l {
		case "a=sendrecv", "a=sendonly", "a=recvonly", "a=inactive":
			out = append(out, l[2:])
		}
	}

	return out
}

func vshOneDirection(s *vScanSection) string {
	d := vshDirections(s)
	if len(d) == 0 {
		return "sendrecv"
	}

	return d[0]
}

// vshAttr returns the values of all "a=<key>:<value>" / "a=<key>" lines among lines.
func vshAttr(lines []string, key string) []string {
	var out []string
	for _, l := range lines {
		if l == "a="+key {
			out = append(out, "")
		} else if strings.HasPrefix(l, "a="+key+":") {
			out = append(out, l[len(key)+3:])
		}
	}

	return out
}

func vshMidList(d vScanDesc) []string {
	out := make([]string, 0, len(d.Sections))
	for _, s := range d.Sections {
		if s.HasMid {
			out = append(out, s.Mid)
		} else {
			out = append(out, "<none>")
		}
	}

	return out
}

func vshHasApp(text string) bool {
	for _, s := range vScanSDP(text).Sections {
		if s.Media == "application" {
			return true
		}
	}

	return false
}

// ---- replay -----------------------------------------------------------------------------------

type vshReplayer struct {
	tb    testing.TB
	cfg   vshCfg
	run   *vshRun
	sides map[string]*vshSideState
	step  int
	synV  int
}

func (rp *vshReplayer) side(name string) *vshSideState {
	if s, ok := rp.sides[name]; ok {
		return s
	}
	s := &vshSideState{name: name, pc: vshNewPC(rp.tb, rp.cfg, name == "P")}
	rp.sides[name] = s

	return s
}

func (rp *vshReplayer) call(side, call string, err error, desc int, text string) {
	c := vshCall{Step: rp.step, Side: side, Call: call, Desc: desc, Text: text, Mids: map[string][]vshMid{}}
	if err != nil {
		c.Err = err.Error()
	}
	for n, s := range rp.sides {
		c.Mids[n] = s.mids()
	}
	rp.run.Calls = append(rp.run.Calls, c)
}

func (rp *vshReplayer) create(s *vshSideState, typ, role string) (*vshDesc, SessionDescription, error) {
	var sd SessionDescription
	var err error
	if typ == "offer" {
		sd, err = s.pc.CreateOffer(nil)
	} else {
		sd, err = s.pc.CreateAnswer(nil)
	}
	d := &vshDesc{Step: rp.step, Side: s.name, Type: typ, Role: role, Trs: s.snapshot(), DCCreated: s.dcCreated > 0, RemoteApp: vshHasApp(s.remoteText), RemoteSet: s.remoteText != ""}
	if err != nil {
		d.Err = err.Error()
	} else {
		d.SDP = sd.SDP
		d.Scan = vScanSDP(sd.SDP)
	}
	rp.run.Descs = append(rp.run.Descs, d)
	name := "CreateOffer"
	if typ == "answer" {
		name = "CreateAnswer"
	}
	rp.call(s.name, name, err, len(rp.run.Descs)-1, "")

	return d, sd, err
}

func (rp *vshReplayer) setLocal(s *vshSideState, d *vshDesc, sd SessionDescription) error {
	err := s.pc.SetLocalDescription(sd)
	if err == nil {
		d.Applied = true
	}
	idx := -1
	for i := range rp.run.Descs {
		if rp.run.Descs[i] == d {
			idx = i
		}
	}
	rp.call(s.name, "SetLocalDescription", err, idx, "")

	return err
}

func (rp *vshReplayer) setRemote(s *vshSideState, typ SDPType, text string) error {
	err := s.pc.SetRemoteDescription(SessionDescription{Type: typ, SDP: text})
	if err == nil {
		s.remoteText = text
	}
	rp.call(s.name, "SetRemoteDescription", err, -1, text)

	return err
}

func (rp *vshReplayer) abort(where string, err error) string {
	rp.run.Dead = true

	return "abort:" + where + ":" + vshErrClass(err)
}

// exchange runs a complete offer/answer exchange between two real PeerConnections.
func (rp *vshReplayer) exchange(off, ans *vshSideState) string {
	d, sd, err := rp.create(off, "offer", "neg")
	if err != nil {
		return "err:CreateOffer:" + vshErrClass(err)
	}
	if err = rp.setLocal(off, d, sd); err != nil {
		return rp.abort("SLD-offer", err)
	}
	if err = rp.setRemote(ans, SDPTypeOffer, sd.SDP); err != nil {
		return rp.abort("SRD-offer", err)
	}
	d2, sd2, err := rp.create(ans, "answer", "neg")
	if err != nil {
		return rp.abort("CreateAnswer", err)
	}
	if err = rp.setLocal(ans, d2, sd2); err != nil {
		return rp.abort("SLD-answer", err)
	}
	if err = rp.setRemote(off, SDPTypeAnswer, sd2.SDP); err != nil {
		return rp.abort("SRD-answer", err)
	}

	return "ok"
}

func (rp *vshReplayer) apply(op vshOp) string { //nolint:gocognit,cyclop
	s := rp.side(op.Side)
	pc := s.pc
	trs := pc.GetTransceivers()
	done := func(err error) string {
		rp.call(op.Side, "op:"+op.Op, err, -1, "")
		if err != nil {
			return "err:" + vshErrClass(err)
		}

		return "ok"
	}
	switch op.Op {
	case "addk":
		_, err := pc.AddTransceiverFromKind(vshKind(op.Kind), RTPTransceiverInit{Direction: vshDir(op.Dir)})

		return done(err)
	case "addtrack":
		rids := []string{""}
		if op.N > 1 {
			rids = []string{"q", "h", "f"}[:op.N]
		}
		tr, err := s.newTrack(op.Kind, rids[0])
		if err != nil {
			vkit.Fatalf(rp.tb, "track: %v", err)
		}
		snd, err := pc.AddTrack(tr)
		if err != nil {
			return done(err)
		}
		for _, rid := range rids[1:] {
			mime := MimeTypeOpus
			if op.Kind == "video" {
				mime = MimeTypeVP8
			}
			tr2, err2 := NewTrackLocalStaticSample(RTPCodecCapability{MimeType: mime}, tr.ID(), tr.StreamID(), WithRTPStreamID(rid))
			if err2 != nil {
				vkit.Fatalf(rp.tb, "track: %v", err2)
			}
			if err2 = snd.AddEncoding(tr2); err2 != nil {
				return done(err2)
			}
		}

		return done(nil)
	case "addtft":
		rids := []string{""}
		if op.N > 1 {
			rids = []string{"q", "h", "f"}[:op.N]
		}
		tr, err := s.newTrack(op.Kind, rids[0])
		if err != nil {
			vkit.Fatalf(rp.tb, "track: %v", err)
		}
		tinit := RTPTransceiverInit{Direction: vshDir(op.Dir)}
		if op.N < 0 {
			// N = -1: the application fixes the primary SSRC through the init (and nothing else)
			tinit.SendEncodings = []RTPEncodingParameters{{RTPCodingParameters: RTPCodingParameters{SSRC: SSRC(424200 + len(trs))}}} //nolint:gosec
		}
		t, err := pc.AddTransceiverFromTrack(tr, tinit)
		if err != nil {
			return done(err)
		}
		for _, rid := range rids[1:] {
			mime := MimeTypeOpus
			if op.Kind == "video" {
				mime = MimeTypeVP8
			}
			tr2, err2 := NewTrackLocalStaticSample(RTPCodecCapability{MimeType: mime}, tr.ID(), tr.StreamID(), WithRTPStreamID(rid))
			if err2 != nil {
				vkit.Fatalf(rp.tb, "track: %v", err2)
			}
			if err2 = t.Sender().AddEncoding(tr2); err2 != nil {
				return done(err2)
			}
		}

		return done(nil)
	case "rmtrack":
		if op.Idx >= len(trs) || trs[op.Idx].Sender() == nil {
			return "na"
		}

		return done(pc.RemoveTrack(trs[op.Idx].Sender()))
	case "replace":
		if op.Idx >= len(trs) || trs[op.Idx].Sender() == nil {
			return "na"
		}
		if s.replaced == nil {
			s.replaced = map[*RTPSender]string{}
		}
		snd := trs[op.Idx].Sender()
		if op.N == 0 {
			err := snd.ReplaceTrack(nil)
			if err == nil {
				s.replaced[snd] = ""
			}

			return done(err)
		}
		tr, err := s.newTrack(trs[op.Idx].Kind().String(), "")
		if err != nil {
			vkit.Fatalf(rp.tb, "track: %v", err)
		}
		err = snd.ReplaceTrack(tr)
		if err == nil {
			s.replaced[snd] = tr.StreamID() + " " + tr.ID()
		}

		return done(err)
	case "stop":
		if op.Idx >= len(trs) {
			return "na"
		}

		return done(trs[op.Idx].Stop())
	case "dc":
		_, err := pc.CreateDataChannel(fmt.Sprintf("dc%d", s.dcCreated+1), nil)
		if err == nil {
			s.dcCreated++
		}

		return done(err)
	case "dcbad":
		// a CreateDataChannel call that has to be refused (both reliability options set): no channel exists
		// afterwards, so it must not make an application section appear
		lifetime, rexmit := uint16(100), uint16(3)
		_, err := pc.CreateDataChannel("refused", &DataChannelInit{MaxPacketLifeTime: &lifetime, MaxRetransmits: &rexmit})
		if err == nil {
			s.dcCreated++ // accepted after all: then it is a channel like any other
		}
		rp.call(op.Side, "op:dcbad", nil, -1, "")

		return "ok"
	case "los":
		// the first half of an exchange only: CreateOffer + SetLocalDescription (the offer is applied, not yet
		// answered); a later CreateOffer in have-local-offer has to respect what this offer fixed
		if pc.SignalingState() != SignalingStateStable {
			return "na"
		}
		d, sd, err := rp.create(s, "offer", "los")
		if err != nil {
			return "err:CreateOffer:" + vshErrClass(err)
		}
		if err = rp.setLocal(s, d, sd); err != nil {
			return rp.abort("SLD-offer", err)
		}

		return "ok"
	case "offer":
		_, _, err := rp.create(s, "offer", "probe")
		if err != nil {
			return "err:CreateOffer:" + vshErrClass(err)
		}

		return "ok"
	case "neg":
		other := "P"
		if op.Side == "P" {
			other = "X"
		}

		return rp.exchange(s, rp.side(other))
	case "sro":
		return rp.synOffer(s, op)
	case "negs":
		return rp.synAnswer(s)
	}
	vkit.Fatalf(rp.tb, "unknown op %q", op.Op)

	return "na"
}

// synOffer: the synthetic peer offers (mirror of X's current local description + op.Secs), X answers.
func (rp *vshReplayer) synOffer(s *vshSideState, op vshOp) string {
	var secs []vshSynWire
	if cld := s.pc.CurrentLocalDescription(); cld != nil {
		m, ok := vshMirror(vScanSDP(cld.SDP), true)
		if !ok {
			return "na"
		}
		secs = m
	}
	used := map[string]bool{}
	for _, w := range secs {
		used[w.Mid] = true
	}
	for _, n := range op.Secs {
		if used[n.Mid] {
			return "na" // a legal remote peer does not reuse a mid
		}
		used[n.Mid] = true
		secs = append(secs, vshSynWire{Media: n.Media, Mid: n.Mid, HasMid: true, Port: "9", Codec: n.Codec, Dir: n.Dir})
	}
	var bundle []string
	switch op.Bundle {
	case "none":
	case "first":
		bundle = []string{secs[0].Mid}
	default:
		for _, w := range secs {
			bundle = append(bundle, w.Mid)
		}
	}
	rp.synV++
	text := vshWriteSyn(secs, bundle, "actpass", rp.synV)
	if err := rp.setRemote(s, SDPTypeOffer, text); err != nil {
		return rp.abort("SRD-synoffer", err)
	}
	d, sd, err := rp.create(s, "answer", "syn")
	if err != nil {
		return rp.abort("CreateAnswer", err)
	}
	if err = rp.setLocal(s, d, sd); err != nil {
		return rp.abort("SLD-answer", err)
	}

	return "ok"
}

// synAnswer: X offers, the synthetic peer answers with the mirror of the offer.
func (rp *vshReplayer) synAnswer(s *vshSideState) string {
	d, sd, err := rp.create(s, "offer", "syn")
	if err != nil {
		return "err:CreateOffer:" + vshErrClass(err)
	}
	secs, ok := vshMirror(d.Scan, false)
	if !ok {
		return "na-after-offer"
	}
	if err = rp.setLocal(s, d, sd); err != nil {
		return rp.abort("SLD-offer", err)
	}
	var bundle []string
	for _, w := range secs {
		if w.Port != "0" {
			bundle = append(bundle, w.Mid)
		}
	}
	rp.synV++
	if err = rp.setRemote(s, SDPTypeAnswer, vshWriteSyn(secs, bundle, "active", rp.synV)); err != nil {
		return rp.abort("SRD-synanswer", err)
	}

	return "ok"
}

// vshReplay replays the history of cs on fresh PeerConnections. With finalProbe the replay ends
// with a CreateOffer on X (and on P when it exists) whose results are recorded with Role "final";
// the canonical state is taken before those probes.
func vshReplay(tb testing.TB, cs vshCase, finalProbe bool) (run *vshRun) {
	tb.Helper()
	run = &vshRun{NTr: map[string]int{}, Senders: map[string][]bool{}}
	rp := &vshReplayer{tb: tb, cfg: cs.Cfg, run: run, sides: map[string]*vshSideState{}}
	defer func() {
		for _, s := range rp.sides {
			_ = s.pc.Close()
		}
	}()
	defer func() {
		if r := recover(); r != nil {
			run.Panic = fmt.Sprint(r)
			run.PanicAt = vkit.PanicSite()
			run.Dead = true
		}
	}()
	rp.side("X")
	usesP := false
	for _, op := range cs.Hist {
		if op.Side == "P" || op.Op == "neg" {
			usesP = true
		}
	}
	if usesP {
		rp.side("P")
	}
	rp.step = -1
	rp.call("X", "new", nil, -1, "")
	for i, op := range cs.Hist {
		rp.step = i
		if run.Dead {
			run.Status = append(run.Status, "na")

			continue
		}
		st := rp.apply(op)
		run.Status = append(run.Status, st)
		if cs.ProbeEvery && !run.Dead && !strings.HasPrefix(st, "na") {
			switch op.Op {
			case "offer", "neg", "sro", "negs", "los":
			default:
				_, _, _ = rp.create(rp.side(op.Side), "offer", "probe")
			}
		}
	}
	run.Canon = rp.canon()
	for n, s := range rp.sides {
		trs := s.pc.GetTransceivers()
		run.NTr[n] = len(trs)
		for _, t := range trs {
			run.Senders[n] = append(run.Senders[n], t.Sender() != nil)
		}
	}
	run.Stable = rp.sides["X"].pc.SignalingState() == SignalingStateStable
	run.HasCLD = rp.sides["X"].pc.CurrentLocalDescription() != nil
	if finalProbe && !run.Dead {
		rp.step = len(cs.Hist)
		for _, n := range []string{"X", "P"} {
			if s, ok := rp.sides[n]; ok {
				_, _, _ = rp.create(s, "offer", "final")
			}
		}
	}

	return run
}

// canon renders the property-relevant state of both sides: what generation of later descriptions
// reads (transceiver list with mid/kind/direction/sender state, data-channel request, greaterMid,
// negotiated kinds, the sections of the current descriptions) plus the set of mids seen so far.
func (rp *vshReplayer) canon() string {
	var b strings.Builder
	for _, n := range []string{"X", "P"} {
		s, ok := rp.sides[n]
		if !ok {
			continue
		}
		pc := s.pc
		// the mid counter is read by name (reflection): a tree that derives it per call has no such field, and
		// then it is no state either
		gm := int64(-999)
		if f := reflect.ValueOf(pc).Elem().FieldByName("greaterMid"); f.IsValid() && f.CanInt() {
			gm = f.Int()
		}
		fmt.Fprintf(&b, "%s{%s gm=%d dc=%v", n, pc.SignalingState(), gm, s.dcCreated > 0)
		pc.api.mediaEngine.mu.RLock()
		fmt.Fprintf(&b, " neg=%v/%v", pc.api.mediaEngine.negotiatedAudio, pc.api.mediaEngine.negotiatedVideo)
		pc.api.mediaEngine.mu.RUnlock()
		for _, t := range pc.GetTransceivers() {
			fmt.Fprintf(&b, " [%s %q %s cur=%s rem=%s codecs=%d", t.Kind(), t.Mid(), t.Direction(), t.getCurrentDirection(), t.getCurrentRemoteDirection(), len(t.getCodecs()))
			if snd := t.Sender(); snd != nil {
				fmt.Fprintf(&b, " snd trk=%v enc=%d neg=%v sent=%v stop=%v", snd.Track() != nil, len(snd.GetParameters().Encodings), snd.isNegotiated(), snd.hasSent(), snd.hasStopped())
				for _, e := range snd.GetParameters().Encodings {
					fmt.Fprintf(&b, " %v%v", e.RTX.SSRC != 0, e.FEC.SSRC != 0)
				}
			}
			b.WriteString("]")
		}
		secs := func(d *SessionDescription) string {
			if d == nil {
				return "-"
			}
			var p []string
			for _, x := range vScanSDP(d.SDP).Sections {
				p = append(p, x.Media+":"+x.Mid+":"+x.Port+":"+vshOneDirection(x))
			}

			return d.Type.String() + "(" + strings.Join(p, ",") + ")"
		}
		fmt.Fprintf(&b, " cl=%s cr=%s pl=%s pr=%s", secs(pc.CurrentLocalDescription()), secs(pc.CurrentRemoteDescription()), secs(pc.PendingLocalDescription()), secs(pc.PendingRemoteDescription()))
		b.WriteString("}")
	}
	// mids seen in applied descriptions
	seen := map[string]bool{}
	for _, c := range rp.run.Calls {
		if c.Err != "" {
			continue
		}
		switch {
		case c.Call == "SetRemoteDescription":
			for _, m := range vshMidList(vScanSDP(c.Text)) {
				seen[m] = true
			}
		case c.Call == "SetLocalDescription" && c.Desc >= 0:
			for _, m := range vshMidList(rp.run.Descs[c.Desc].Scan) {
				seen[m] = true
			}
		}
	}
	keys := make([]string, 0, len(seen))
	for k := range seen {
		keys = append(keys, k)
	}
	sort.Strings(keys)
	b.WriteString(" seen=" + strings.Join(keys, ","))
	if rp.run.Dead {
		b.WriteString(" DEAD:" + strings.Join(rp.run.Status, ","))
	}

	return b.String()
}

// ---- exploration ------------------------------------------------------------------------------

type vshExplorer struct {
	probeEvery bool
	tb         testing.TB
	c          *vkit.Check
	oracle     func(cs vshCase, r *vshRun) []vshFinding
	cover      func(cs vshCase, r *vshRun) // coverage accounting; runs on worker goroutines
	stop       time.Time                   // soft budget: no new level / batch is started after it
}

type vshLight struct {
	canon    string
	dead     bool
	lastNA   bool
	nTr      map[string]int
	senders  map[string][]bool
	stable   bool
	hasCLD   bool
	findings []vshFinding
}

func (e *vshExplorer) one(cs vshCase) vshLight {
	r := vshReplay(e.tb, cs, true)
	l := vshLight{canon: r.Canon, dead: r.Dead, nTr: r.NTr, senders: r.Senders, stable: r.Stable, hasCLD: r.HasCLD}
	if n := len(r.Status); n > 0 && strings.HasPrefix(r.Status[n-1], "na") {
		l.lastNA = true

		return l
	}
	if r.Panic != "" {
		l.findings = append(l.findings, vshFinding{"panic|" + r.PanicAt, "panic in code under test: " + r.Panic + " in " + cs.String()})
	}
	l.findings = append(l.findings, e.oracle(cs, r)...)
	e.c.Eval()
	e.c.Validated()
	e.c.Transition()
	if e.cover != nil {
		e.cover(cs, r)
	}

	return l
}

func (e *vshExplorer) report(cs vshCase, l vshLight) {
	for _, f := range l.findings {
		e.c.Violation(f.Key, f.What, cs)
	}
}

// vshApplicable prunes operations that the replay would report as not applicable.
func vshApplicable(op vshOp, parent vshLight) bool {
	if parent.dead {
		return false
	}
	switch op.Op {
	case "rmtrack", "replace":
		s := parent.senders[op.Side]

		return op.Idx < len(s) && s[op.Idx]
	case "stop":
		return op.Idx < parent.nTr[op.Side]
	}

	return true
}

// bfs explores all histories over alphabet to the given depth for one configuration, breadth
// first; with merge, histories reaching an already visited canonical state are not extended.
// It returns the number of replays per level and whether the depth was completed.
func (e *vshExplorer) bfs(cfg vshCfg, alphabet []vshOp, depth int, merge bool) (levels []int, complete bool) {
	root := e.one(vshCase{Cfg: cfg, ProbeEvery: e.probeEvery})
	e.report(vshCase{Cfg: cfg, ProbeEvery: e.probeEvery}, root)
	e.c.State(cfg.String() + "|" + root.canon)
	seen := map[string]bool{root.canon: true}
	type node struct {
		hist []vshOp
		l    vshLight
	}
	frontier := []node{{nil, root}}
	for d := 1; d <= depth && len(frontier) > 0; d++ {
		if !e.stop.IsZero() && time.Now().After(e.stop) {
			return levels, false
		}
		var jobs []vshCase
		for _, nd := range frontier {
			for _, op := range alphabet {
				if !vshApplicable(op, nd.l) {
					continue
				}
				jobs = append(jobs, vshCase{Cfg: cfg, Hist: append(append([]vshOp{}, nd.hist...), op), ProbeEvery: e.probeEvery})
			}
		}
		res := make([]vshLight, len(jobs))
		vkit.Parallel(len(jobs), func(i int) { res[i] = e.one(jobs[i]) })
		levels = append(levels, len(jobs))
		var next []node
		for i, l := range res {
			if l.lastNA {
				continue
			}
			e.report(jobs[i], l)
			isNew := !seen[l.canon]
			if isNew {
				seen[l.canon] = true
				e.c.State(cfg.String() + "|" + l.canon)
			}
			if !l.dead && (isNew || !merge) {
				next = append(next, node{jobs[i].Hist, l})
			}
		}
		frontier = next
	}

	return levels, true
}

// batch replays an explicit list of cases (used for the synthetic-peer products).
func (e *vshExplorer) batch(cases []vshCase) {
	const chunk = 20000
	for lo := 0; lo < len(cases); lo += chunk {
		hi := lo + chunk
		if hi > len(cases) {
			hi = len(cases)
		}
		part := cases[lo:hi]
		res := make([]vshLight, len(part))
		vkit.Parallel(len(part), func(i int) { res[i] = e.one(part[i]) })
		for i, l := range res {
			if l.lastNA {
				continue
			}
			e.report(part[i], l)
			e.c.State(part[i].Cfg.String() + "|" + l.canon)
		}
	}
}

// vshReplayMode handles --replay: the case of the replay file is run once and judged.
func vshReplayMode(t *testing.T, c *vkit.Check, oracle func(cs vshCase, r *vshRun) []vshFinding) bool {
	t.Helper()
	raw, ok := c.ReplayCase()
	if !ok {
		return false
	}
	var cs vshCase
	if err := json.Unmarshal(raw, &cs); err != nil {
		vkit.Fatalf(t, "replay file: %v", err)
	}
	r := vshReplay(t, cs, true)
	c.Eval()
	c.Validated()
	c.TransitionN(len(cs.Hist))
	c.State(cs.Cfg.String() + "|" + r.Canon)
	c.Distinct("replay")
	c.Distinct(r.Canon)
	if r.Panic != "" {
		c.Violation("panic|"+r.PanicAt, "panic in code under test: "+r.Panic+" in "+cs.String(), cs)
	}
	for _, f := range oracle(cs, r) {
		c.Violation(f.Key, f.What, cs)
	}
	var descs []map[string]any
	for _, d := range r.Descs {
		descs = append(descs, map[string]any{"step": d.Step, "side": d.Side, "type": d.Type, "role": d.Role, "err": d.Err, "mids": vshMidList(d.Scan), "sdp": d.SDP})
	}
	c.Sample(map[string]any{"case": cs.String(), "status": r.Status, "descriptions": descs})
	fmt.Printf("REPLAY %s\n  status=%v\n", cs.String(), r.Status)
	for _, d := range r.Descs {
		fmt.Printf("  step %d %s %s/%s err=%q sections=%s session-group=%v\n", d.Step, d.Side, d.Type, d.Role, d.Err, vshSecSummary(d.Scan), vshAttr(d.Scan.Session, "group"))
	}

	return true
}

func vshSecSummary(d vScanDesc) string {
	var p []string
	for _, s := range d.Sections {
		m := "<none>"
		if s.HasMid {
			m = s.Mid
		}
		p = append(p, s.Media+":"+m+":"+s.Port)
	}

	return "[" + strings.Join(p, " ") + "]"
}

// ---- alphabets and synthetic domains ----------------------------------------------------------

var vshSynMids = []string{"0", "1", "5", "7", "a", "audio0", "data"}

// vshSynOffers enumerates the synthetic first offers: n sections, media in {audio, video,
// application} (at most one application section), mids = ordered selections of distinct values
// of vshSynMids; directions rotate sendrecv/recvonly/sendonly over the media sections.
func vshSynOffers(n int, withUnknown bool) [][]vshSynSec {
	medias := []string{"audio", "video", "application"}
	mids := vshSynMids
	if n <= 2 {
		// short offers also with a section of a media type pion does not know (it is rejected in place and
		// mirrored in every later description, so its mid stays taken) and with the mid "2"
		medias = append(medias, "text")
		mids = append(append([]string{}, vshSynMids...), "2")
	}
	var out [][]vshSynSec
	var recMid func(pos int, cur []vshSynSec)
	emit := func(cur []vshSynSec) {
		base := append([]vshSynSec{}, cur...)
		out = append(out, base)
		if !withUnknown {
			return
		}
		// one section at a time offered with a codec pion does not know
		for i := range base {
			if base[i].Media == "application" {
				continue
			}
			v := append([]vshSynSec{}, base...)
			v[i].Codec = "unknown"
			out = append(out, v)
		}
	}
	recMid = func(pos int, cur []vshSynSec) {
		if pos == n {
			emit(cur)

			return
		}
		for _, m := range medias {
			if m == "application" {
				dup := false
				for _, c := range cur {
					if c.Media == "application" {
						dup = true
					}
				}
				if dup {
					continue
				}
			}
			for _, mid := range mids {
				used := false
				for _, c := range cur {
					if c.Mid == mid {
						used = true
					}
				}
				if used {
					continue
				}
				sec := vshSynSec{Media: m, Mid: mid}
				if m != "application" && m != "text" {
					sec.Dir = []string{"", "recvonly", "sendonly"}[pos%3]
				}
				recMid(pos+1, append(cur, sec))
			}
		}
	}
	recMid(0, nil)

	return out
}

func vshSeqs(alphabet []vshOp, minLen, maxLen int) [][]vshOp {
	var out [][]vshOp
	vkit.Sequences(len(alphabet), minLen, maxLen, func(seq []int) {
		s := make([]vshOp, len(seq))
		for i, k := range seq {
			s[i] = alphabet[k]
		}
		out = append(out, s)
	})

	return out
}

func vshCat(parts ...[]vshOp) []vshOp {
	var out []vshOp
	for _, p := range parts {
		out = append(out, p...)
	}

	return out
}

// vshSynCases is the product explored against the synthetic peer (C06, C09): pre-operations, a
// synthetic remote offer, local additions; the final CreateOffer probe of the replay is the local
// re-offer. Thorough adds 3-section offers and a second round (X re-offers and the synthetic peer
// accepts, or the synthetic peer re-offers with one more section) followed by more additions.
// withUnknown adds offers in which one section has a codec pion does not know (rejected section).
func vshSynCases(cfgs []vshCfg, quick, withUnknown bool) []vshCase { //nolint:gocognit,cyclop
	opA := vshOp{Side: "X", Op: "addk", Kind: "audio", Dir: "sendrecv"}
	opV := vshOp{Side: "X", Op: "addk", Kind: "video", Dir: "recvonly"}
	opD := vshOp{Side: "X", Op: "dc"}
	opS := vshOp{Side: "X", Op: "stop", Idx: 0}
	opN := vshOp{Side: "X", Op: "negs"}
	// a generated but never applied local offer: it hands provisional mids to the transceivers that have none
	opO := vshOp{Side: "X", Op: "offer"}
	// an offer applied with SetLocalDescription and left unanswered: the next CreateOffer (the final probe) runs
	// in have-local-offer and has to keep what the applied offer fixed
	opL := vshOp{Side: "X", Op: "los"}
	none := [][]vshOp{{}}
	var out []vshCase
	for _, cfg := range cfgs {
		for n := 1; n <= 3; n++ {
			if n == 3 && (quick || cfg.AlwaysDC != cfg.MediaFP) {
				continue
			}
			for _, secs := range vshSynOffers(n, withUnknown && n <= 2) {
				unknown := false
				for _, s := range secs {
					unknown = unknown || s.Codec != ""
				}
				for _, bundle := range []string{"", "none", "first"} {
					if n == 1 && bundle == "first" {
						continue
					}
					pres, posts := none, [][]vshOp{{opD}}
					switch {
					case n == 1 && !unknown && bundle == "" && quick:
						pres = [][]vshOp{{}, {opA}, {opV, opV, opO}}
						posts = append(vshSeqs([]vshOp{opA, opV, opD}, 0, 2), []vshOp{opV, opL, opA}, []vshOp{opA, opL, opV, opD}, []vshOp{opD, opL, opV})
					case n == 1 && !unknown && bundle == "":
						pres = [][]vshOp{{}, {opA}, {opV}, {opD}, {opV, opV, opO}, {opA, opV, opO}, {opV, opO, opV}}
						posts = append(vshSeqs([]vshOp{opA, opV, opD, opS}, 0, 2), []vshOp{opV, opL, opA}, []vshOp{opA, opL, opV, opD}, []vshOp{opD, opL, opV}, []vshOp{opV, opA, opL, opV})
					case n == 1:
						posts = [][]vshOp{{}, {opD}, {opA, opD}}
					case n == 2 && !unknown && bundle == "" && quick:
						posts = [][]vshOp{{}, {opD}, {opA}, {opA, opD}}
					case n == 2 && !unknown && bundle == "":
						pres = [][]vshOp{{}, {opA}, {opV, opV, opO}}
						posts = vshSeqs([]vshOp{opA, opV, opD, opS}, 0, 2)
					case n == 2 && unknown && bundle != "":
						continue
					case n == 2 && !quick:
						posts = [][]vshOp{{}, {opD}, {opA, opD}}
					case n == 3 && bundle == "":
						posts = [][]vshOp{{opD}, {opA, opD}}
					}
					sro := vshOp{Side: "X", Op: "sro", Secs: secs, Bundle: bundle}
					for _, pre := range pres {
						for _, post := range posts {
							out = append(out, vshCase{Cfg: cfg, Hist: vshCat(pre, []vshOp{sro}, post)})
						}
					}
					if quick || n == 3 || unknown || bundle != "" {
						continue
					}
					for _, post := range [][]vshOp{{}, {opD}, {opA}} {
						for _, post2 := range [][]vshOp{{opD}, {opA}, {opA, opD}, {opV, opA}} {
							out = append(out, vshCase{Cfg: cfg, Hist: vshCat([]vshOp{sro}, post, []vshOp{opN}, post2)})
						}
						for _, mid := range []string{"1", "7", "a"} {
							sro2 := vshOp{Side: "X", Op: "sro", Secs: []vshSynSec{{Media: "video", Mid: mid}}}
							out = append(out, vshCase{Cfg: cfg, Hist: vshCat([]vshOp{sro}, post, []vshOp{sro2, opA, opD})})
						}
					}
				}
			}
		}
	}

	return out
}
