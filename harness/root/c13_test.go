package webrtc

// C13 — Peers always take complementary ICE and DTLS roles.
// Exhaustive 2x2x3x4 matrix: ICE-lite on each side x the answerer's configured
// DTLS role {unset, client, server} x the offer's a=setup {actpass, active,
// passive, absent}. Per configuration a real SDP exchange between two
// PeerConnections with the offer's a=setup rewritten on the wire:
//   - offline (no network, all 48): the answer's a=setup; ICETransport.Role() on
//     both sides once the queued startTransports recorded it (the connect attempt
//     then blocks until Close); the DTLS role each side takes = the real
//     DTLSTransport.role() evaluated with the remote parameters startTransports
//     passes (dtlsRoleFromSDP of the applied remote description);
//   - live over loopback (the 36 configurations in which at least one side is a
//     full ICE agent): the pair connects ICE for real and DTLSTransport.Start runs;
//     the roles actually used are read and judged by the same oracle.

import (
	"encoding/json"
	"fmt"
	"strings"
	"testing"

	"github.com/pion/webrtc/v4/internal/verif/vkit"
)

type c13Case struct {
	OfferLite  bool   `json:"offerer_lite"`
	AnswerLite bool   `json:"answerer_lite"`
	AnsRole    string `json:"answering_dtls_role"` // unset | client | server
	Setup      string `json:"offer_setup"`         // actpass | active | passive | absent
	// Layout "": data channel + audio. "video-first-rejected": a video section first, which the answerer (opus
	// only) rejects - a rejected section carries no a=setup, so the answer's FIRST section has none
	Layout string `json:"layout,omitempty"`
}

var (
	c13Roles  = []string{"unset", "client", "server"}
	c13Setups = []string{"actpass", "active", "passive", "absent"}
)

// c13Rewrite replaces every a=setup line of the offer (own line handling, no pion/sdp).
func c13Rewrite(offer, setup string) (string, int) {
	var out []string
	n := 0
	for _, l := range strings.Split(offer, "\r\n") {
		if strings.HasPrefix(l, "a=setup:") {
			n++
			if setup == "absent" {
				continue
			}
			l = "a=setup:" + setup
		}
		out = append(out, l)
	}

	return strings.Join(out, "\r\n"), n
}

// c13Obs is what one run of a configuration showed.
type c13Obs struct {
	Mode        string   `json:"mode"` // offline | live
	AnswerSetup []string `json:"answer_setup"`
	ICEOfferer  string   `json:"ice_offerer"`
	ICEAnswerer string   `json:"ice_answerer"`
	DTLSOfferer string   `json:"dtls_offerer"`
	DTLSAnswer  string   `json:"dtls_answerer"`
}

func c13API(t *testing.T, lite bool, role string, live bool, opusOnly bool, mediaLevelFP ...bool) *API {
	var media func(m *MediaEngine) error
	if opusOnly {
		media = func(m *MediaEngine) error {
			return m.RegisterCodec(RTPCodecParameters{
				RTPCodecCapability: RTPCodecCapability{MimeType: MimeTypeOpus, ClockRate: 48000, Channels: 2, SDPFmtpLine: "minptime=10;useinbandfec=1"},
				PayloadType:        111,
			}, RTPCodecTypeAudio)
		}
	}

	return vNewAPI(t, vAPIOpts{media: media, setting: func(s *SettingEngine) {
		s.SetLite(lite)
		if len(mediaLevelFP) > 0 && mediaLevelFP[0] {
			s.SetSDPMediaLevelFingerprints(true)
		}
		switch role {
		case "client":
			_ = s.SetAnsweringDTLSRole(DTLSRoleClient)
		case "server":
			_ = s.SetAnsweringDTLSRole(DTLSRoleServer)
		}
		if live {
			s.SetIncludeLoopbackCandidate(true)
			s.SetInterfaceFilter(func(n string) bool { return n == "lo" })
			s.SetNetworkTypes([]NetworkType{NetworkTypeUDP4})
		} else {
			vAnsOfflineNet(s)
		}
	}})
}

// c13DTLSRoleWith evaluates the real DTLSTransport.role() with the remote
// parameters that startTransports derives from the applied remote description.
func c13DTLSRoleWith(pc *PeerConnection) DTLSRole {
	remote := dtlsRoleFromSDP(pc.RemoteDescription().parsed)
	tr := pc.dtlsTransport
	tr.lock.Lock()
	defer tr.lock.Unlock()
	tr.remoteParameters = DTLSParameters{Role: remote}

	return tr.role()
}

func c13Exchange(t *testing.T, c *vkit.Check, cs c13Case, live bool) (obs c13Obs, ok bool) {
	obs.Mode = "offline"
	if live {
		obs.Mode = "live"
	}
	mfp := cs.Layout == "media-level-fingerprints"
	off := vNewPC(t, c13API(t, cs.OfferLite, "unset", live, false, mfp), nil)
	ans := vNewPC(t, c13API(t, cs.AnswerLite, cs.AnsRole, live, cs.Layout == "video-first-rejected", mfp), nil)
	defer func() { _ = off.Close(); _ = ans.Close() }()

	if cs.Layout == "video-first-rejected" {
		if _, err := off.AddTransceiverFromKind(RTPCodecTypeVideo, RTPTransceiverInit{Direction: RTPTransceiverDirectionRecvonly}); err != nil {
			vkit.Fatalf(t, "AddTransceiverFromKind(video): %v", err)
		}
	}

	if _, err := off.CreateDataChannel("c13", nil); err != nil {
		vkit.Fatalf(t, "CreateDataChannel: %v", err)
	}
	if _, err := off.AddTransceiverFromKind(RTPCodecTypeAudio, RTPTransceiverInit{Direction: RTPTransceiverDirectionRecvonly}); err != nil {
		vkit.Fatalf(t, "AddTransceiverFromKind: %v", err)
	}
	offer, err := off.CreateOffer(nil)
	if err != nil {
		vkit.Fatalf(t, "CreateOffer: %v", err)
	}
	gathered := GatheringCompletePromise(off)
	if err = off.SetLocalDescription(offer); err != nil {
		vkit.Fatalf(t, "SetLocalDescription(offer): %v", err)
	}
	if live {
		<-gathered
		offer = *off.LocalDescription()
	}
	wire, n := c13Rewrite(offer.SDP, cs.Setup)
	if n < 2 {
		vkit.Fatalf(t, "the pion offer has %d a=setup lines, expected one per section", n)
	}
	if err = ans.SetRemoteDescription(SessionDescription{Type: SDPTypeOffer, SDP: wire}); err != nil {
		c.Outcome("set-remote-offer-error|setup=" + cs.Setup)

		return obs, false
	}
	answer, err := ans.CreateAnswer(nil)
	if err != nil {
		c.Outcome("create-answer-error|setup=" + cs.Setup)

		return obs, false
	}
	gathered = GatheringCompletePromise(ans)
	if err = ans.SetLocalDescription(answer); err != nil {
		vkit.Fatalf(t, "SetLocalDescription(answer): %v", err)
	}
	if live {
		<-gathered
		answer = *ans.LocalDescription()
	}
	for i, s := range vScanSDP(answer.SDP).Sections {
		if s.Port == "0" {
			// a rejected section carries no transport attributes
			if cs.Layout == "video-first-rejected" && i == 0 {
				c.Distinct("answer-first-section-rejected|setup-attr=" + fmt.Sprint(len(vAnsSectionAttr(s, "setup"))))
			}

			continue
		}
		v := vAnsSectionAttr(s, "setup")
		if len(v) == 0 {
			v = []string{"absent"}
		}
		obs.AnswerSetup = append(obs.AnswerSetup, v...)
	}
	if err = off.SetRemoteDescription(answer); err != nil {
		c.Outcome("set-remote-answer-error")

		return obs, false
	}

	// ICETransport.Start records the role, then connects (offline: blocks in the attempt until Close).
	for _, pc := range []*PeerConnection{off, ans} {
		tr := pc.iceTransport
		vAnsWaitFor(t, fmt.Sprintf("ICE transport start (%s, %+v)", obs.Mode, cs), func() bool { return tr.Role() != ICERoleUnknown })
	}
	if live && off.iceTransport.Role() == ans.iceTransport.Role() {
		// two controlling or two controlled agents do not connect: judged from the offline evaluation below
		live = false
		obs.Mode = "live, ICE roles equal so not connected"
	}
	if live {
		// ICE connects for real; DTLSTransport.Start has taken its role once the state left "new".
		for _, pc := range []*PeerConnection{off, ans} {
			tr := pc.dtlsTransport
			vAnsWaitFor(t, fmt.Sprintf("DTLS transport start (live, %+v)", cs), func() bool { return tr.State() != DTLSTransportStateNew })
		}
		roleUsed := func(pc *PeerConnection) DTLSRole {
			pc.dtlsTransport.lock.RLock()
			defer pc.dtlsTransport.lock.RUnlock()

			return pc.dtlsTransport.role()
		}
		obs.DTLSOfferer, obs.DTLSAnswer = roleUsed(off).String(), roleUsed(ans).String()
	} else {
		obs.DTLSOfferer, obs.DTLSAnswer = c13DTLSRoleWith(off).String(), c13DTLSRoleWith(ans).String()
	}
	obs.ICEOfferer, obs.ICEAnswerer = off.iceTransport.Role().String(), ans.iceTransport.Role().String()

	return obs, true
}

func c13Opposite(role string) string {
	switch role {
	case "client":
		return "server"
	case "server":
		return "client"
	}

	return "?"
}

// c13Judge is the oracle: RFC 4145 / RFC 5763 setup semantics and RFC 8445 6.1.1.
func c13Judge(c *vkit.Check, cs c13Case, obs c13Obs) {
	rep := map[string]any{"case": cs, "observed": obs}
	cfg := fmt.Sprintf("offer=%s|answering-role=%s", cs.Setup, cs.AnsRole)
	desc := fmt.Sprintf("%s run, offerer lite=%v, answerer lite=%v, answering DTLS role %s, offer a=setup %s: answer a=setup %v, DTLS offerer=%s answerer=%s, ICE offerer=%s answerer=%s",
		obs.Mode, cs.OfferLite, cs.AnswerLite, cs.AnsRole, cs.Setup, obs.AnswerSetup, obs.DTLSOfferer, obs.DTLSAnswer, obs.ICEOfferer, obs.ICEAnswerer)

	// ---- a=setup of the answer ----
	as := obs.AnswerSetup[0]
	for _, v := range obs.AnswerSetup {
		if v != as {
			c.Violation("answer-setup-differs-between-sections|"+cfg, desc, rep)
		}
	}
	setupOK := as == "active" || as == "passive"
	if !setupOK {
		c.Violation("answer-setup-not-active-or-passive|"+cfg+"|answer="+as, desc, rep)
	}
	// ---- DTLS roles ----
	if setupOK {
		// an explicit offer value leaves one legal answer value (RFC 4145 section 4.1)
		if (cs.Setup == "active" && as != "passive") || (cs.Setup == "passive" && as != "active") {
			c.Violation("setup-values-contradict|"+cfg+"|answer="+as,
				desc+" — offer and answer claim the same side of the handshake, no role assignment is consistent with both", rep)
		}
		want := map[string]string{"active": "client", "passive": "server"}[as]
		if obs.DTLSAnswer != want {
			c.Violation("answerer-dtls-role-contradicts-its-answer|"+cfg+"|answer="+as+"|answerer="+obs.DTLSAnswer,
				desc+" — the answerer's a=setup:"+as+" announces "+want, rep)
		}
		if obs.DTLSOfferer != c13Opposite(want) {
			c.Violation("offerer-dtls-role-contradicts-the-answer|"+cfg+"|answer="+as+"|offerer="+obs.DTLSOfferer,
				desc+" — the answer's a=setup:"+as+" leaves "+c13Opposite(want)+" to the offerer", rep)
		}
	}
	if obs.DTLSOfferer != c13Opposite(obs.DTLSAnswer) {
		c.Violation("dtls-roles-not-opposite|"+cfg+"|answer="+as+"|offerer="+obs.DTLSOfferer+"|answerer="+obs.DTLSAnswer, desc, rep)
	}
	// ---- ICE roles (RFC 8445 section 6.1.1) ----
	wantOff, wantAns := "controlling", "controlled"
	if cs.OfferLite && !cs.AnswerLite {
		wantOff, wantAns = "controlled", "controlling"
	}
	if obs.ICEOfferer != wantOff || obs.ICEAnswerer != wantAns {
		c.Violation(fmt.Sprintf("ice-roles|lite-offerer=%v|lite-answerer=%v|offerer=%s|answerer=%s", cs.OfferLite, cs.AnswerLite, obs.ICEOfferer, obs.ICEAnswerer),
			desc+fmt.Sprintf(" — RFC 8445 6.1.1 gives offerer=%s answerer=%s", wantOff, wantAns), rep)
	}
	c.Distinct(fmt.Sprintf("%s|lite=%v/%v|%s", obs.Mode, cs.OfferLite, cs.AnswerLite, cfg))
	c.Outcome(fmt.Sprintf("answer=%s|dtls=%s/%s|ice=%s/%s", as, obs.DTLSOfferer, obs.DTLSAnswer, obs.ICEOfferer, obs.ICEAnswerer))
}

func c13RunCase(t *testing.T, c *vkit.Check, cs c13Case) {
	c.Guard("case", map[string]any{"case": cs}, func() {
		var offline, live c13Obs
		okOff, okLive := false, false
		offline, okOff = c13Exchange(t, c, cs, false)
		c.Eval()
		if okOff {
			c13Judge(c, cs, offline)
		}
		if cs.OfferLite && cs.AnswerLite {
			return // two lite agents never send a connectivity check: nothing to connect
		}
		if cs.Layout != "" {
			// pion writes its candidates into the first media section; with that section rejected a lite
			// answerer cannot be reached. Connectivity is not this property's subject: offline evaluation only.
			return
		}
		live, okLive = c13Exchange(t, c, cs, true)
		c.Eval()
		if okLive {
			c13Judge(c, cs, live)
			c.Add("live_runs", 1)
			if okOff && offline.DTLSOfferer == live.DTLSOfferer && offline.DTLSAnswer == live.DTLSAnswer &&
				offline.ICEOfferer == live.ICEOfferer && offline.ICEAnswerer == live.ICEAnswerer &&
				fmt.Sprint(offline.AnswerSetup) == fmt.Sprint(live.AnswerSetup) {
				c.Add("live_runs_equal_to_offline_evaluation", 1)
			}
		}
	})
}

func TestVerifC13(t *testing.T) {
	c := vkit.New("C13", "exploration")
	defer c.Finish(t)
	c.Rule("case = (offerer ICE-lite, answerer ICE-lite, answerer SettingEngine.SetAnsweringDTLSRole {unset, client, server}, a=setup of the offer as delivered {actpass, active, passive, absent}) — the full 2x2x3x4 matrix in both tiers, each with the plain layout (data channel + audio) and with a video section first that the opus-only answerer rejects (so the answer's first section carries no a=setup), and with both sides writing their fingerprints at media level (SetSDPMediaLevelFingerprints); per case a pion offer (data channel + audio) with its a=setup lines rewritten, SetRemoteDescription -> CreateAnswer -> SetLocalDescription on the answerer, SetRemoteDescription(answer) on the offerer; run once without network (roles from ICETransport.Role() and the real DTLSTransport.role() fed with dtlsRoleFromSDP of the applied remote description) and, unless both agents are lite, once connected over loopback (roles read after DTLSTransport.Start took them). Non-trivial = a judged (mode, configuration)")
	c.Assume("the offerer is pion; it believes it offered actpass, so its DTLS role is judged against the answer's a=setup only; the explicit offer value is judged through the answer value it permits (RFC 4145: active->passive, passive->active)")
	c.Assume("an absent a=setup in the offer is treated like actpass (either answer value is accepted)")
	c.Assume("live runs need the loopback interface; two lite agents are not connected (neither sends checks)")

	if raw, ok := c.ReplayCase(); ok {
		var wrap struct {
			Case c13Case `json:"case"`
		}
		if err := json.Unmarshal(raw, &wrap); err != nil || wrap.Case.Setup == "" {
			vkit.Fatalf(t, "replay case: %v", err)
		}
		c13RunCase(t, c, wrap.Case)

		return
	}

	var cases []c13Case
	for _, ol := range []bool{false, true} {
		for _, al := range []bool{false, true} {
			for _, r := range c13Roles {
				for _, s := range c13Setups {
					cases = append(cases, c13Case{OfferLite: ol, AnswerLite: al, AnsRole: r, Setup: s})
					cases = append(cases, c13Case{OfferLite: ol, AnswerLite: al, AnsRole: r, Setup: s, Layout: "video-first-rejected"})
					// both sides write their fingerprints at media level (another layout of the session-level part of
					// the descriptions, where a=ice-lite lives)
					cases = append(cases, c13Case{OfferLite: ol, AnswerLite: al, AnsRole: r, Setup: s, Layout: "media-level-fingerprints"})
				}
			}
		}
	}
	c.Set("configurations", len(cases))
	c.Sample(cases[5])
	c.Sample(cases[30])
	vkit.Parallel(len(cases), func(i int) { c13RunCase(t, c, cases[i]) })
	if c.Outcomes() < 2 {
		vkit.Fatalf(t, "vacuous: fewer than two distinct role outcomes")
	}
}
