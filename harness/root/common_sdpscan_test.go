package webrtc

// vScan — a small line-based SDP scanner for the oracle side of the SDP checks
// (C10, C15, C16). It deliberately does not use github.com/pion/sdp: it only
// splits lines and tokens, so that what the oracle reads from a generated
// description does not depend on the library that generated it.

import (
	"strconv"
	"strings"
)

type vScanRtpmap struct {
	PT       string
	Name     string // encoding name as written
	Clock    string
	Channels string // "" when absent
}

type vScanPTAttr struct {
	PT    string // "*" is possible for rtcp-fb
	Value string
}

type vScanExtmap struct {
	IDText string // id as written (before an optional "/direction")
	ID     int    // -1 when not a decimal number
	Dir    string
	URI    string
}

type vScanSection struct {
	Index     int
	Media     string
	Port      string
	Proto     string
	Formats   []string
	Mid       string
	HasMid    bool
	Direction string // sendrecv/sendonly/recvonly/inactive or ""
	Rtpmap    []vScanRtpmap
	Fmtp      []vScanPTAttr
	RtcpFb    []vScanPTAttr
	Extmap    []vScanExtmap
	Lines     []string
}

type vScanDesc struct {
	Session  []string
	Sections []*vScanSection
}

// vScanSDP splits an SDP into its session part and media sections.
func vScanSDP(text string) vScanDesc {
	var d vScanDesc
	var cur *vScanSection
	for _, raw := range strings.Split(text, "\n") {
		line := strings.TrimRight(raw, "\r")
		if line == "" {
			continue
		}
		if strings.HasPrefix(line, "m=") {
			f := strings.Fields(line[2:])
			cur = &vScanSection{Index: len(d.Sections)}
			if len(f) > 0 {
				cur.Media = f[0]
			}
			if len(f) > 1 {
				cur.Port = f[1]
			}
			if len(f) > 2 {
				cur.Proto = f[2]
			}
			if len(f) > 3 {
				cur.Formats = append([]string{}, f[3:]...)
			}
			cur.Lines = append(cur.Lines, line)
			d.Sections = append(d.Sections, cur)

			continue
		}
		if cur == nil {
			d.Session = append(d.Session, line)

			continue
		}
		cur.Lines = append(cur.Lines, line)
		if !strings.HasPrefix(line, "a=") {
			continue
		}
		att := line[2:]
		key, val := att, ""
		if i := strings.Index(att, ":"); i >= 0 {
			key, val = att[:i], att[i+1:]
		}
		switch key {
		case "mid":
			cur.Mid, cur.HasMid = val, true
		case "sendrecv", "sendonly", "recvonly", "inactive":
			cur.Direction = key
		case "rtpmap":
			pt, rest := vScanCut(val)
			parts := strings.Split(rest, "/")
			m := vScanRtpmap{PT: pt, Name: parts[0]}
			if len(parts) > 1 {
				m.Clock = parts[1]
			}
			if len(parts) > 2 {
				m.Channels = parts[2]
			}
			cur.Rtpmap = append(cur.Rtpmap, m)
		case "fmtp":
			pt, rest := vScanCut(val)
			cur.Fmtp = append(cur.Fmtp, vScanPTAttr{pt, rest})
		case "rtcp-fb":
			pt, rest := vScanCut(val)
			cur.RtcpFb = append(cur.RtcpFb, vScanPTAttr{pt, rest})
		case "extmap":
			idp, rest := vScanCut(val)
			e := vScanExtmap{IDText: idp, ID: -1}
			if i := strings.Index(idp, "/"); i >= 0 {
				e.IDText, e.Dir = idp[:i], idp[i+1:]
			}
			if n, err := strconv.Atoi(e.IDText); err == nil {
				e.ID = n
			}
			e.URI, _ = vScanCut(rest)
			cur.Extmap = append(cur.Extmap, e)
		}
	}

	return d
}

// vScanCut splits s at the first run of spaces.
func vScanCut(s string) (string, string) {
	s = strings.TrimLeft(s, " ")
	i := strings.IndexByte(s, ' ')
	if i < 0 {
		return s, ""
	}

	return s[:i], strings.TrimLeft(s[i+1:], " ")
}

// vScanRtpmapFor returns the rtpmap entries of the section for payload pt.
func (s *vScanSection) vScanRtpmapFor(pt string) []vScanRtpmap {
	var out []vScanRtpmap
	for _, m := range s.Rtpmap {
		if m.PT == pt {
			out = append(out, m)
		}
	}

	return out
}

// vScanFmtpFor returns the fmtp values of the section for payload pt.
func (s *vScanSection) vScanFmtpFor(pt string) []string {
	var out []string
	for _, m := range s.Fmtp {
		if m.PT == pt {
			out = append(out, m.Value)
		}
	}

	return out
}

// vScanListed reports whether pt is in the m= line's format list.
func (s *vScanSection) vScanListed(pt string) bool {
	for _, f := range s.Formats {
		if f == pt {
			return true
		}
	}

	return false
}

// vScanFmtpParam returns the value of key (case-insensitive) in a ;-separated fmtp value.
func vScanFmtpParam(fmtpValue, key string) (string, bool) {
	for _, p := range strings.Split(fmtpValue, ";") {
		p = strings.TrimSpace(p)
		k, v := p, ""
		if i := strings.Index(p, "="); i >= 0 {
			k, v = p[:i], p[i+1:]
		}
		if strings.EqualFold(strings.TrimSpace(k), key) {
			return strings.TrimSpace(v), true
		}
	}

	return "", false
}

// ---- a plain-text writer for synthetic remote offers (input side of C10/C15/C16) ----

type vScanOfferCodec struct {
	PT    int      `json:"pt"`
	Name  string   `json:"name"` // encoding name as written in a=rtpmap
	Clock uint32   `json:"clock"`
	Ch    uint16   `json:"ch,omitempty"`
	Fmtp  string   `json:"fmtp,omitempty"`
	FB    []string `json:"fb,omitempty"` // "nack", "nack pli", ...
}

type vScanOfferExt struct {
	ID  int    `json:"id"`
	URI string `json:"uri"`
}

type vScanOfferSection struct {
	Media  string            `json:"media"`
	Mid    string            `json:"mid"`
	Dir    string            `json:"dir"`
	Codecs []vScanOfferCodec `json:"codecs"`
	Ext    []vScanOfferExt   `json:"ext,omitempty"`
}

// vScanWriteOffer renders a complete remote offer (ICE credentials, fingerprint,
// BUNDLE) that SetRemoteDescription accepts.
func vScanWriteOffer(secs []vScanOfferSection) string {
	var b strings.Builder
	b.WriteString("v=0\r\no=- 4611731400430051336 2 IN IP4 127.0.0.1\r\ns=-\r\nt=0 0\r\n")
	b.WriteString("a=fingerprint:sha-256 0F:74:31:25:CB:A2:13:EC:28:6F:6D:2C:61:FF:5D:C2:BC:B9:DB:3D:98:14:8D:1A:BB:EA:33:0C:A4:60:A8:8E\r\n")
	mids := make([]string, 0, len(secs))
	for _, s := range secs {
		mids = append(mids, s.Mid)
	}
	b.WriteString("a=group:BUNDLE " + strings.Join(mids, " ") + "\r\n")
	for _, s := range secs {
		b.WriteString("m=" + s.Media + " 9 UDP/TLS/RTP/SAVPF")
		for _, c := range s.Codecs {
			b.WriteString(" " + strconv.Itoa(c.PT))
		}
		b.WriteString("\r\nc=IN IP4 0.0.0.0\r\na=setup:actpass\r\na=mid:" + s.Mid + "\r\n")
		b.WriteString("a=ice-ufrag:vScanUfrag\r\na=ice-pwd:vScanPasswordvScanPassword00\r\na=rtcp-mux\r\na=rtcp-rsize\r\n")
		for _, e := range s.Ext {
			b.WriteString("a=extmap:" + strconv.Itoa(e.ID) + " " + e.URI + "\r\n")
		}
		for _, c := range s.Codecs {
			b.WriteString("a=rtpmap:" + strconv.Itoa(c.PT) + " " + c.Name + "/" + strconv.FormatUint(uint64(c.Clock), 10))
			if c.Ch != 0 {
				b.WriteString("/" + strconv.Itoa(int(c.Ch)))
			}
			b.WriteString("\r\n")
			for _, fb := range c.FB {
				b.WriteString("a=rtcp-fb:" + strconv.Itoa(c.PT) + " " + fb + "\r\n")
			}
			if c.Fmtp != "" {
				b.WriteString("a=fmtp:" + strconv.Itoa(c.PT) + " " + c.Fmtp + "\r\n")
			}
		}
		b.WriteString("a=" + s.Dir + "\r\n")
	}

	return b.String()
}
