package webrtc

// C07 — An answer mirrors the offer's m-sections one-for-one.
// Bounded exhaustive enumeration: the full product of synthetic remote offers of
// 1..3 m-sections, each section one of 46 alternatives (media type x direction
// attribute incl. none x codec list), x local side x MediaEngine; one
// PeerConnection per case (SetRemoteDescription(offer) -> CreateAnswer, no
// network). Second part: two negotiation rounds on one PeerConnection where the
// re-offer changes one section or appends one. The oracle reads offer and answer
// with the harness's own line scanner.

import (
	"encoding/json"
	"fmt"
	"sort"
	"strings"
	"sync"
	"testing"

	"github.com/pion/webrtc/v4/internal/verif/vkit"
)

// c07Alt is one alternative for an offered m-section.
type c07Alt struct {
	Media  string `json:"media"`
	Dir    string `json:"dir"`    // "" = no direction attribute
	Codecs string `json:"codecs"` // supported | unsupported | mixed | n/a
}

var c07Alts = func() []c07Alt {
	var out []c07Alt
	dirs := []string{"sendrecv", "sendonly", "recvonly", "inactive", ""}
	for _, m := range []string{"audio", "video"} {
		for _, d := range dirs {
			for _, c := range []string{"supported", "unsupported", "mixed"} {
				out = append(out, c07Alt{m, d, c})
			}
		}
	}
	for _, m := range []string{"application", "text", "message"} {
		for _, d := range dirs {
			out = append(out, c07Alt{m, d, "n/a"})
		}
	}
	// an application section with an attribute pion knows only behind an option (SNAP) and whose value does not
	// decode (unpadded base64): an attribute to ignore, not a reason to drop the section
	out = append(out, c07Alt{"application", "", "sctp-init-undecodable"})

	return out
}()

var (
	c07Locals  = []string{"none", "match-recvonly", "match-sendrecv", "other-kind", "abandoned-offer", "data-channel"}
	c07Engines = []string{"default", "audio-only"}
)

func c07Section(a c07Alt, mid string) vAnsSection {
	s := vAnsSection{Media: a.Media, Mid: mid, Dir: a.Dir}
	sup := vScanOfferCodec{PT: 111, Name: "opus", Clock: 48000, Ch: 2, Fmtp: "minptime=10;useinbandfec=1"}
	uns := vScanOfferCodec{PT: 18, Name: "G729", Clock: 8000}
	switch a.Media {
	case "video":
		sup = vScanOfferCodec{PT: 96, Name: "VP8", Clock: 90000, FB: []string{"nack", "nack pli"}}
		uns = vScanOfferCodec{PT: 119, Name: "x-unknown", Clock: 90000}
	case "text":
		s.Codecs = []vScanOfferCodec{{PT: 98, Name: "t140", Clock: 1000}}

		return s
	case "application", "message":
		if a.Codecs == "sctp-init-undecodable" {
			s.Extra = []string{"a=sctp-init:AQIDBA"}
		}

		return s
	}
	switch a.Codecs {
	case "supported":
		s.Codecs = []vScanOfferCodec{sup}
	case "unsupported":
		s.Codecs = []vScanOfferCodec{uns}
	default:
		s.Codecs = []vScanOfferCodec{uns, sup}
	}

	return s
}

// c07Mids: numeric but not the position, so that a mid derived from a section
// count or index instead of the offer shows.
var c07Mids = []string{"2", "0", "1"}

func c07Sections(alts []int) []vAnsSection {
	out := make([]vAnsSection, 0, len(alts))
	for i, a := range alts {
		out = append(out, c07Section(c07Alts[a], c07Mids[i]))
	}

	return out
}

// c07Case: Offer = alternatives of the first offer; Reoffer (optional) = alternatives of
// the second offer on the same PeerConnection (same mids by position).
type c07Case struct {
	Offer   []int  `json:"offer"`
	Reoffer []int  `json:"reoffer,omitempty"`
	Local   string `json:"local"`
	Engine  string `json:"engine"`
}

func c07DirClass(d string) string {
	if d == "" {
		return "absent"
	}

	return "present"
}

// c07Class is the class of an offered section used in violation keys.
func c07Class(s *vScanSection) string {
	if s.Media == "audio" || s.Media == "video" || s.Media == "application" {
		return "media=" + s.Media + "|dir=" + c07DirClass(s.Direction)
	}

	return "media=" + s.Media
}

// c07Dropped is the set of offered-section classes that were dropped from the
// answer of a single-section offer (no attribution question there). It only
// serves to attribute dropped sections in multi-section answers that contain
// sections without a=mid; it never decides whether a violation is reported.
type c07Dropped struct {
	mu sync.Mutex
	m  map[string]bool
}

func (d *c07Dropped) add(k string) { d.mu.Lock(); d.m[k] = true; d.mu.Unlock() }
func (d *c07Dropped) has(k string) bool {
	d.mu.Lock()
	defer d.mu.Unlock()

	return d.m[k]
}

// c07Align maps each answer section to an offer section (order preserving; equal
// a=mid, or — for an answer section without a=mid — equal media type). Among the
// possible alignments the one whose unmatched offer sections are best explained
// by classes known to be dropped in isolation is chosen (first such in
// lexicographic order). ok=false: no alignment exists.
func c07Align(offer, answer []*vScanSection, known *c07Dropped) (match []int, ok bool) {
	best, bestCost := []int(nil), -1
	cur := make([]int, len(answer))
	var rec func(j, from int)
	rec = func(j, from int) {
		if j == len(answer) {
			used := map[int]bool{}
			for _, i := range cur {
				used[i] = true
			}
			cost := 0
			for i, o := range offer {
				if !used[i] && !known.has(c07Class(o)) {
					cost++
				}
			}
			if bestCost < 0 || cost < bestCost {
				best, bestCost = append([]int{}, cur...), cost
			}

			return
		}
		for i := from; i < len(offer); i++ {
			a, o := answer[j], offer[i]
			if (a.HasMid && o.HasMid && a.Mid == o.Mid) || (!a.HasMid && a.Media == o.Media) {
				cur[j] = i
				rec(j+1, i+1)
			}
		}
	}
	rec(0, 0)

	return best, bestCost >= 0
}

// c07Oracle judges one (offer, answer) pair. round is 1 or 2.
func c07Oracle(c *vkit.Check, known *c07Dropped, cs c07Case, round int, offerText, answerText string) {
	offer, answer := vScanSDP(offerText).Sections, vScanSDP(answerText).Sections
	rep := map[string]any{"case": cs, "round": round, "offer": strings.Split(offerText, "\r\n"), "answer": strings.Split(answerText, "\r\n")}
	rk := ""
	if round > 1 {
		rk = "|reoffer"
	}
	describe := func(secs []*vScanSection) string {
		var p []string
		for _, s := range secs {
			mid := "<no a=mid>"
			if s.HasMid {
				mid = "mid=" + s.Mid
			}
			p = append(p, fmt.Sprintf("%s port=%s %s", s.Media, s.Port, mid))
		}

		return "[" + strings.Join(p, "; ") + "]"
	}
	what := func(msg string) string {
		var o []string
		for _, s := range offer {
			o = append(o, fmt.Sprintf("%s mid=%s dir=%s", s.Media, s.Mid, vAnsDirOf(s)))
		}

		return fmt.Sprintf("%s; offer sections [%s], answer sections %s (local=%s engine=%s round=%d)",
			msg, strings.Join(o, "; "), describe(answer), cs.Local, cs.Engine, round)
	}

	match, ok := c07Align(offer, answer, known)
	if !ok {
		c.Violation("answer-section-matches-no-offer-section"+rk,
			what("the answer has a section that corresponds to no offered section in order"), rep)

		return
	}
	used := map[int]bool{}
	clean := len(offer) == len(answer)
	for j, i := range match {
		used[i] = true
		a, o := answer[j], offer[i]
		switch {
		case !a.HasMid && a.Port == "0":
			clean = false
			c.Violation("rejected-section-without-mid|kind="+a.Media+rk,
				what(fmt.Sprintf("answer section %d (%s) is rejected (port 0) but has no a=mid; the offered section has mid %q", j, a.Media, o.Mid)), rep)
		case !a.HasMid:
			clean = false
			c.Violation("section-without-mid|media="+a.Media+rk,
				what(fmt.Sprintf("answer section %d (%s) has no a=mid; the offered section has mid %q", j, a.Media, o.Mid)), rep)
		case a.Media != o.Media:
			clean = false
			c.Violation("media-type-changed|offered="+o.Media+"|answered="+a.Media+rk,
				what(fmt.Sprintf("answer section %d with mid %q is %s, the offered section is %s", j, a.Mid, a.Media, o.Media)), rep)
		case a.Port != "0" && (a.Media == "audio" || a.Media == "video") && len(a.Formats) == 0:
			// a section the answerer has no codec for is one it cannot use: it has to be rejected in place
			// (port 0), not left open without a single format
			clean = false
			c.Violation("unusable-section-not-rejected|kind="+a.Media+rk,
				what(fmt.Sprintf("answer section %d (%s, mid %q) lists no format at all but is not rejected (port %s): m-line %q", j, a.Media, a.Mid, a.Port, a.Lines[0])), rep)
		}
	}
	for i, o := range offer {
		if !used[i] {
			if len(offer) == 1 {
				known.add(c07Class(o))
			}
			c.Violation("dropped-section|"+c07Class(o)+rk,
				what(fmt.Sprintf("offered section %d (%s, mid %q, direction attribute %s) has no section in the answer: %d offered, %d answered",
					i, o.Media, o.Mid, vAnsDirOf(o), len(offer), len(answer))), rep)
		}
	}
	if clean {
		// same count and every answer section matched in order: position j <-> j
		for j, i := range match {
			if i != j {
				c.Violation("order-changed"+rk, what("answer sections are not in the offer's order"), rep)

				return
			}
		}
		rej := 0
		for _, a := range answer {
			if a.Port == "0" {
				rej++
			}
		}
		c.Distinct(fmt.Sprintf("mirrored|n=%d|rejected=%d|round=%d|local=%s|engine=%s", len(answer), rej, round, cs.Local, cs.Engine))
	}
}

func c07API(t *testing.T, engine string) *API {
	return vNewAPI(t, vAPIOpts{
		virtualNet: true,
		media: func(m *MediaEngine) error {
			if engine == "audio-only" {
				return m.RegisterCodec(RTPCodecParameters{
					RTPCodecCapability: RTPCodecCapability{MimeType: MimeTypeOpus, ClockRate: 48000, Channels: 2, SDPFmtpLine: "minptime=10;useinbandfec=1"},
					PayloadType:        111,
				}, RTPCodecTypeAudio)
			}

			return m.RegisterDefaultCodecs()
		},
		setting: vAnsOfflineNet,
	})
}

// c07Setup creates the local side. It reports false when the variant coincides
// with "none" for this offer (nothing to add) so that the case is not run twice.
func c07Setup(t *testing.T, pc *PeerConnection, cs c07Case) bool {
	have := map[string]int{}
	for _, a := range cs.Offer {
		have[c07Alts[a].Media]++
	}
	added := 0
	add := func(kind string, dir RTPTransceiverDirection) {
		if dir == RTPTransceiverDirectionSendrecv {
			if kind == "video" && cs.Engine == "audio-only" {
				return // a video track cannot be created without a video codec
			}
			if _, err := pc.AddTrack(vAnsTrack(t, vAnsKind(kind), fmt.Sprint(added))); err != nil {
				panic(fmt.Sprintf("harness: AddTrack: %v", err))
			}
		} else if _, err := pc.AddTransceiverFromKind(vAnsKind(kind), RTPTransceiverInit{Direction: dir}); err != nil {
			panic(fmt.Sprintf("harness: AddTransceiverFromKind: %v", err))
		}
		added++
	}
	switch cs.Local {
	case "none":
		return true
	case "match-recvonly", "match-sendrecv":
		dir := RTPTransceiverDirectionRecvonly
		if cs.Local == "match-sendrecv" {
			dir = RTPTransceiverDirectionSendrecv
		}
		for _, a := range cs.Offer {
			if m := c07Alts[a].Media; m == "audio" || m == "video" {
				add(m, dir)
			}
		}
	case "other-kind":
		for _, k := range []string{"audio", "video"} {
			if have[k] == 0 {
				add(k, RTPTransceiverDirectionRecvonly)
			}
		}
	case "data-channel":
		// the local side wants data channels, whether or not the offer has an application section
		if _, err := pc.CreateDataChannel("c07", nil); err != nil {
			panic(fmt.Sprintf("harness: CreateDataChannel: %v", err))
		}

		return true
	case "abandoned-offer":
		// a video and an audio transceiver that got the provisional mids 0 and 1 from a CreateOffer whose
		// offer is never applied (glare: the remote offer is applied first); the offers use the mids 2,0,1
		if cs.Engine != "audio-only" {
			add("video", RTPTransceiverDirectionRecvonly)
		}
		add("audio", RTPTransceiverDirectionRecvonly)
		if _, err := pc.CreateOffer(nil); err != nil {
			panic(fmt.Sprintf("harness: CreateOffer: %v", err))
		}
	}

	return added > 0
}

func c07Run(t *testing.T, c *vkit.Check, known *c07Dropped, cs c07Case, memo map[string]bool) {
	outcome := func(k string) {
		if memo == nil || !memo[k] {
			if memo != nil {
				memo[k] = true
			}
			c.Outcome(k)
		}
	}
	pc := vNewPC(t, c07API(t, cs.Engine), nil)
	defer func() { _ = pc.Close() }()
	c.Guard("case", map[string]any{"case": cs}, func() {
		if !c07Setup(t, pc, cs) {
			return
		}
		c.Eval()
		offers := [][]int{cs.Offer}
		if len(cs.Reoffer) > 0 {
			offers = append(offers, cs.Reoffer)
		}
		for r, alts := range offers {
			offer := vAnsWriteOffer(c07Sections(alts), vAnsOfferOpts{Version: r})
			if err := pc.SetRemoteDescription(SessionDescription{Type: SDPTypeOffer, SDP: offer}); err != nil {
				outcome(fmt.Sprintf("round%d-set-remote-error", r+1))

				return
			}
			answer, err := pc.CreateAnswer(nil)
			if err != nil {
				outcome(fmt.Sprintf("round%d-create-answer-error", r+1)) // the statement speaks about successful CreateAnswer only

				return
			}
			outcome(fmt.Sprintf("round%d-answered", r+1))
			if r > 0 || len(offers) == 1 {
				c07Oracle(c, known, cs, r+1, offer, answer.SDP)
			}
			if r+1 < len(offers) {
				if err := pc.SetLocalDescription(answer); err != nil {
					outcome("round1-set-local-error")

					return
				}
			}
		}
	})
}

func c07Seqs(n, minLen, maxLen int) [][]int { return vkit.AllSequences(n, minLen, maxLen) }

// c07Reoffers lists the second offers for a first offer: one section replaced by
// another alternative (of the same or of another media type), or one section appended.
func c07Reoffers(first []int, appendToo bool) [][]int {
	var out [][]int
	for p, a := range first {
		for b := range c07Alts {
			// also by an alternative of ANOTHER media type: an offerer may change the media type of a stream in a
			// later offer (RFC 3264 8.3.3), the answer has to follow
			if b != a {
				r := append([]int{}, first...)
				r[p] = b
				out = append(out, r)
			}
		}
	}
	if appendToo {
		for b := range c07Alts {
			out = append(out, append(append([]int{}, first...), b))
		}
	}

	return out
}

func TestVerifC07(t *testing.T) {
	c := vkit.New("C07", "exploration")
	defer c.Finish(t)
	c.Rule("case = (first offer: every sequence of 1..N section alternatives, alternative = media type {audio, video, application, text, message} x direction attribute {sendrecv, sendonly, recvonly, inactive, none} x codec list {supported, unsupported only, mixed} (audio/video only), mids = 2,0,1 by position; local side {none, a recvonly transceiver per offered audio/video section, a sendrecv transceiver with track per offered audio/video section, recvonly transceivers of the audio/video kinds NOT offered, a local data channel}; MediaEngine {default, opus only}); SetRemoteDescription -> CreateAnswer on a fresh PeerConnection. Re-offer part: a second offer on the same PeerConnection after SetLocalDescription(answer) that replaces one section by another alternative (of the same or of another media type) or appends a section. Non-trivial = CreateAnswer succeeded and the answer mirrors the offer, classed by (sections, rejected sections, round, local side, engine)")
	c.Assume("only what the statement says is judged: section count, order, media type and a=mid per section; whether an accepted or rejected section SHOULD have been accepted is not judged")
	c.Assume("cases where SetRemoteDescription or CreateAnswer returns an error are not judged (the statement is about successful CreateAnswer)")
	known := &c07Dropped{m: map[string]bool{}}

	// Stage 0 (always, also before a replay): single-section offers. They fix which
	// section classes are dropped in isolation (attribution aid for c07Align).
	singles := c07Seqs(len(c07Alts), 1, 1)
	stage := func(offers [][]int, reoffer func([]int) [][]int) {
		vkit.Parallel(len(offers), func(i int) {
			memo := map[string]bool{}
			for _, l := range c07Locals {
				for _, e := range c07Engines {
					if reoffer == nil {
						c07Run(t, c, known, c07Case{Offer: offers[i], Local: l, Engine: e}, memo)

						continue
					}
					for _, r := range reoffer(offers[i]) {
						c07Run(t, c, known, c07Case{Offer: offers[i], Reoffer: r, Local: l, Engine: e}, memo)
					}
				}
			}
		})
	}
	stage(singles, nil)

	if raw, ok := c.ReplayCase(); ok {
		var wrap struct {
			Case c07Case `json:"case"`
		}
		if err := json.Unmarshal(raw, &wrap); err != nil || len(wrap.Case.Offer) == 0 {
			vkit.Fatalf(t, "replay case: %v", err)
		}
		c07Run(t, c, known, wrap.Case, nil)

		return
	}

	maxLen := c.Pick(2, 3)
	multi := c07Seqs(len(c07Alts), 2, maxLen)
	stage(multi, nil)

	// re-offers: quick = single-section first offers (replace + append);
	// thorough = also two-section first offers (replace + append)
	reFirst := singles
	if !c.Quick() {
		reFirst = c07Seqs(len(c07Alts), 1, 2)
	}
	stage(reFirst, func(f []int) [][]int { return c07Reoffers(f, true) })

	c.Set("section_alternatives", len(c07Alts))
	c.Set("first_offer_max_sections", maxLen)
	c.Set("first_offers", len(singles)+len(multi))
	c.Set("reoffer_first_offers", len(reFirst))
	c.Set("local_sides", c07Locals)
	c.Set("media_engines", c07Engines)
	var dropped []string
	for k := range known.m {
		dropped = append(dropped, k)
	}
	sort.Strings(dropped)
	c.Set("classes_dropped_in_isolation", dropped)
	c.Sample(c07Case{Offer: []int{0, 35}, Local: "none", Engine: "default"})
	c.Sample(c07Case{Offer: []int{16}, Local: "none", Engine: "audio-only"})
	c.Sample(c07Case{Offer: []int{0, 30}, Reoffer: []int{12, 30}, Local: "match-sendrecv", Engine: "default"})
	if c.Outcomes() < 1 {
		vkit.Fatalf(t, "vacuous: no answer was produced")
	}
}
