package webrtc

// C15 — Negotiated codecs are the remote's offered codecs that match local ones.
// Bounded exhaustive enumeration: every local MediaEngine out of a pool of
// registrations x every sequence (up to a length) of remote codec entries, fed as
// a real SDP text through pion/sdp into the real
// MediaEngine.updateFromRemoteDescription, and (phase 2) through
// PeerConnection.SetRemoteDescription observing RTPSender/RTPReceiver.GetParameters.
// The oracle is a small reference matcher written from the property statement;
// it does not call pion's matcher or internal/fmtp.

import (
	"encoding/hex"
	"encoding/json"
	"fmt"
	"sort"
	"strings"
	"testing"
	"time"

	"github.com/pion/sdp/v3"
	"github.com/pion/webrtc/v4/internal/verif/vkit"
)

// ---- reference model -------------------------------------------------------

type c15Codec struct {
	Kind  string   `json:"kind"` // "audio" / "video"
	PT    int      `json:"pt"`
	Name  string   `json:"name"` // encoding name (mime without the kind)
	Clock uint32   `json:"clock"`
	Ch    uint16   `json:"ch,omitempty"`
	Fmtp  string   `json:"fmtp,omitempty"`
	FB    []string `json:"fb,omitempty"`
	// remote pool only: RTX entry whose apt is resolved per sequence
	AptRel string `json:"apt_rel,omitempty"` // "listed" | ""
}

func (c c15Codec) mime() string { return strings.ToLower(c.Kind + "/" + c.Name) }

func c15Params(line string) map[string]string {
	out := map[string]string{}
	for _, p := range strings.Split(line, ";") {
		p = strings.TrimSpace(p)
		if p == "" {
			continue
		}
		k, v := p, ""
		if i := strings.IndexByte(p, '='); i >= 0 {
			k, v = p[:i], p[i+1:]
		}
		out[strings.ToLower(k)] = v
	}

	return out
}

func c15Chan(c c15Codec) uint16 {
	if c.Ch != 0 {
		return c.Ch
	}
	if c.mime() == "audio/opus" {
		return 2
	}

	return 1 // RFC 8866: omitted means one channel
}

// c15Base: same codec ignoring fmtp ("partial" compatibility).
func c15Base(a, b c15Codec) bool {
	return a.mime() == b.mime() && a.Clock == b.Clock && c15Chan(a) == c15Chan(b)
}

// c15FmtpOK: format parameters compatible ("exact" compatibility needs c15Base too).
func c15FmtpOK(a, b c15Codec) bool {
	pa, pb := c15Params(a.Fmtp), c15Params(b.Fmtp)
	def := func(m map[string]string, k, d string) string {
		if v, ok := m[k]; ok {
			return v
		}

		return d
	}
	switch a.mime() {
	case "video/h264":
		ma, oka := pa["packetization-mode"]
		mb, okb := pb["packetization-mode"]
		if !oka || !okb || ma != mb {
			return false
		}
		ha, erra := hex.DecodeString(pa["profile-level-id"])
		hb, errb := hex.DecodeString(pb["profile-level-id"])

		return erra == nil && errb == nil && len(ha) >= 2 && len(hb) >= 2 && ha[0] == hb[0] && ha[1] == hb[1]
	case "video/vp9":
		return def(pa, "profile-id", "0") == def(pb, "profile-id", "0")
	case "video/av1":
		return def(pa, "profile", "0") == def(pb, "profile", "0")
	}
	for k, v := range pa {
		if w, ok := pb[k]; ok && !strings.EqualFold(v, w) {
			return false
		}
	}

	return true
}

func c15IsApt(c c15Codec) bool { _, ok := c15Params(c.Fmtp)["apt"]; return ok }

// c15Level: 2 exact, 1 partial, 0 none — for a remote codec against the local set;
// also returns the local codecs reaching that level.
func c15Level(r c15Codec, locals []c15Codec) (int, []c15Codec) {
	var exact, partial []c15Codec
	for _, l := range locals {
		if l.Kind != r.Kind || !c15Base(r, l) {
			continue
		}
		partial = append(partial, l)
		if c15FmtpOK(r, l) {
			exact = append(exact, l)
		}
	}
	switch {
	case len(exact) > 0:
		return 2, exact
	case len(partial) > 0:
		return 1, partial
	}

	return 0, nil
}

func c15FBSet(fb []string) string {
	s := append([]string{}, fb...)
	sort.Strings(s)
	out := s[:0]
	for i, x := range s {
		if i == 0 || x != s[i-1] {
			out = append(out, x)
		}
	}

	return strings.Join(out, ",")
}

func c15FBInter(a, b []string) []string {
	var out []string
	for _, x := range a {
		for _, y := range b {
			if x == y {
				out = append(out, x)

				break
			}
		}
	}

	return out
}

// ---- pools -----------------------------------------------------------------

var c15LocalPool = []c15Codec{
	{Kind: "audio", PT: 111, Name: "opus", Clock: 48000, Ch: 2, Fmtp: "minptime=10;useinbandfec=1"},
	{Kind: "audio", PT: 0, Name: "PCMU", Clock: 8000},
	{Kind: "video", PT: 96, Name: "VP8", Clock: 90000, FB: []string{"goog-remb", "ccm fir", "nack", "nack pli"}},
	{Kind: "video", PT: 98, Name: "VP9", Clock: 90000, Fmtp: "profile-id=0", FB: []string{"nack", "nack pli"}},
	{Kind: "video", PT: 100, Name: "VP9", Clock: 90000, Fmtp: "profile-id=2", FB: []string{"nack"}},
	{Kind: "video", PT: 102, Name: "H264", Clock: 90000, Fmtp: "level-asymmetry-allowed=1;packetization-mode=1;profile-level-id=42001f", FB: []string{"nack", "nack pli", "ccm fir"}},
	{Kind: "video", PT: 104, Name: "H264", Clock: 90000, Fmtp: "level-asymmetry-allowed=1;packetization-mode=0;profile-level-id=42e01f", FB: []string{"nack"}},
	{Kind: "video", PT: 45, Name: "AV1", Clock: 90000, FB: []string{"goog-remb"}},
}

var c15RemotePool = []c15Codec{
	{Kind: "audio", PT: 111, Name: "opus", Clock: 48000, Ch: 2, Fmtp: "minptime=10;useinbandfec=1"},
	{Kind: "audio", PT: 109, Name: "OPUS", Clock: 48000, Ch: 2, Fmtp: "minptime=10;useinbandfec=0"}, // case-changed, remapped, differing fmtp
	{Kind: "audio", PT: 0, Name: "PCMU", Clock: 8000},
	{Kind: "video", PT: 96, Name: "VP8", Clock: 90000, FB: []string{"nack", "nack pli", "transport-cc"}},
	{Kind: "video", PT: 102, Name: "vp8", Clock: 90000, FB: []string{"goog-remb"}},                              // collides with local H264 102
	{Kind: "video", PT: 100, Name: "VP9", Clock: 90000, Fmtp: "profile-id=0", FB: []string{"nack pli", "nack"}}, // collides with local VP9 p2
	{Kind: "video", PT: 98, Name: "VP9", Clock: 90000, Fmtp: "profile-id=1", FB: []string{"nack"}},              // partial only
	{Kind: "video", PT: 102, Name: "H264", Clock: 90000, Fmtp: "level-asymmetry-allowed=1;packetization-mode=1;profile-level-id=42001f", FB: []string{"nack", "ccm fir"}},
	{Kind: "video", PT: 108, Name: "H264", Clock: 90000, Fmtp: "profile-level-id=42e01f;packetization-mode=0", FB: []string{"nack", "nack pli"}}, // remapped
	{Kind: "video", PT: 96, Name: "H264", Clock: 90000, Fmtp: "packetization-mode=1;profile-level-id=640c1f", FB: []string{"nack"}},              // partial only, collides with local VP8
	{Kind: "video", PT: 45, Name: "AV1", Clock: 90000, FB: []string{"goog-remb", "nack"}},
	{Kind: "video", PT: 119, Name: "x-unknown", Clock: 90000},
	// with feedback lines of its own (no local RTX registration has any: the intersection is empty)
	{Kind: "video", PT: 120, Name: "rtx", Clock: 90000, AptRel: "listed", FB: []string{"nack", "goog-remb"}},
	{Kind: "video", PT: 121, Name: "rtx", Clock: 90000, Fmtp: "apt=55"}, // apt to an unlisted payload
	// a codec of one kind under the number a local codec of the OTHER kind is registered with (resolution
	// of that number must find the negotiated codec also while the other kind is not negotiated at all)
	{Kind: "video", PT: 111, Name: "VP8", Clock: 90000, FB: []string{"nack"}},                      // local opus is 111
	{Kind: "audio", PT: 96, Name: "opus", Clock: 48000, Ch: 2, Fmtp: "minptime=10;useinbandfec=1"}, // local VP8 is 96
	// the local H264 102's profile_idc and packetization-mode with another profile-iop (constrained baseline vs
	// baseline): a partial match only
	{Kind: "video", PT: 107, Name: "H264", Clock: 90000, Fmtp: "level-asymmetry-allowed=1;packetization-mode=1;profile-level-id=42e01f", FB: []string{"nack"}},
}

type c15Case struct {
	Phase string `json:"phase"` // "direct" | "pc"
	Local []int  `json:"local"` // indexes into c15LocalPool
	RTX   bool   `json:"rtx"`   // register an RTX codec for every local video codec
	// RTXOnly > 0: register the RTX codec only for the RTXOnly-th local video codec (1-based); needs RTX
	RTXOnly int    `json:"rtx_only,omitempty"`
	Seq     []int  `json:"seq"` // indexes into c15RemotePool
	Variant string `json:"variant,omitempty"`
}

func c15Locals(cs c15Case) []c15Codec {
	var out []c15Codec
	nVideo := 0
	for _, i := range cs.Local {
		l := c15LocalPool[i]
		out = append(out, l)
		if l.Kind == "video" {
			nVideo++
		}
		if cs.RTX && l.Kind == "video" && (cs.RTXOnly == 0 || cs.RTXOnly == nVideo) {
			out = append(out, c15Codec{Kind: "video", PT: l.PT + 1, Name: "rtx", Clock: 90000, Fmtp: fmt.Sprintf("apt=%d", l.PT)})
		}
	}

	return out
}

// c15Remote resolves the relative RTX entries of a sequence; ok=false when two
// entries share a payload type (not a well-formed offer, not enumerated).
func c15Remote(seq []int) (out []c15Codec, ok bool) {
	seen := map[string]bool{}
	for pos, i := range seq {
		r := c15RemotePool[i]
		k := fmt.Sprintf("%s/%d", r.Kind, r.PT)
		if seen[k] {
			return nil, false
		}
		seen[k] = true
		if r.AptRel == "listed" {
			apt := -1
			for j := pos - 1; j >= 0 && apt < 0; j-- {
				if p := c15RemotePool[seq[j]]; p.Kind == "video" && p.Name != "rtx" {
					apt = p.PT
				}
			}
			for j := pos + 1; j < len(seq) && apt < 0; j++ { // RTX listed before its primary
				if p := c15RemotePool[seq[j]]; p.Kind == "video" && p.Name != "rtx" {
					apt = p.PT
				}
			}
			if apt < 0 {
				apt = 55
			}
			r.Fmtp = fmt.Sprintf("apt=%d", apt)
		}
		out = append(out, r)
	}

	return out, true
}

func c15OfferText(remote []c15Codec) string {
	var secs []vScanOfferSection
	for mi, kind := range []string{"audio", "video"} {
		s := vScanOfferSection{Media: kind, Mid: fmt.Sprintf("%d", mi), Dir: "sendrecv"}
		for _, r := range remote {
			if r.Kind == kind {
				s.Codecs = append(s.Codecs, vScanOfferCodec{PT: r.PT, Name: r.Name, Clock: r.Clock, Ch: r.Ch, Fmtp: r.Fmtp, FB: r.FB})
			}
		}
		if len(s.Codecs) > 0 {
			secs = append(secs, s)
		}
	}
	for i := range secs {
		secs[i].Mid = fmt.Sprintf("%d", i)
	}

	return vScanWriteOffer(secs)
}

func c15Register(m *MediaEngine, locals []c15Codec) error {
	for _, l := range locals {
		var fb []RTCPFeedback
		for _, f := range l.FB {
			t, p, _ := strings.Cut(f, " ")
			fb = append(fb, RTCPFeedback{Type: t, Parameter: p})
		}
		typ := RTPCodecTypeVideo
		if l.Kind == "audio" {
			typ = RTPCodecTypeAudio
		}
		if err := m.RegisterCodec(RTPCodecParameters{
			RTPCodecCapability: RTPCodecCapability{
				MimeType: l.Kind + "/" + l.Name, ClockRate: l.Clock, Channels: l.Ch, SDPFmtpLine: l.Fmtp, RTCPFeedback: fb,
			},
			PayloadType: PayloadType(l.PT),
		}, typ); err != nil {
			return err
		}
	}

	return nil
}

// c15FromPion converts an observed codec to the model type (plain field copy).
func c15FromPion(kind string, p RTPCodecParameters) c15Codec {
	name := p.MimeType
	if i := strings.IndexByte(name, '/'); i >= 0 {
		name = name[i+1:]
	}
	var fb []string
	for _, f := range p.RTCPFeedback {
		if f.Parameter == "" {
			fb = append(fb, f.Type)
		} else {
			fb = append(fb, f.Type+" "+f.Parameter)
		}
	}
	k := kind
	if i := strings.IndexByte(p.MimeType, '/'); i >= 0 {
		k = strings.ToLower(p.MimeType[:i])
	}

	return c15Codec{Kind: k, PT: int(p.PayloadType), Name: name, Clock: p.ClockRate, Ch: p.Channels, Fmtp: p.SDPFmtpLine, FB: fb}
}

// c15Judge applies the statement to the codecs `used` for one kind.
// where names the observation point (negotiated set, sender, receiver).
func c15Judge(c *vkit.Check, cs c15Case, where, kind string, used []c15Codec, locals, remote []c15Codec) (sig string) {
	var offered []c15Codec
	anyExact := false
	for _, r := range remote {
		if r.Kind != kind {
			continue
		}
		offered = append(offered, r)
		if !c15IsApt(r) {
			if lv, _ := c15Level(r, locals); lv == 2 {
				anyExact = true
			}
		}
	}
	nExact, nPartial, nRTX := 0, 0, 0
	for _, n := range used {
		tag := fmt.Sprintf("%s|%s", where, n.mime())
		// offered, with the remote's payload type
		var r *c15Codec
		for i := range offered {
			o := offered[i]
			if o.PT == n.PT && o.mime() == n.mime() && o.Clock == n.Clock && o.Ch == n.Ch && o.Fmtp == n.Fmtp {
				r = &offered[i]
			}
		}
		if r == nil {
			cls := "payload-type-not-the-remote's"
			samePT := false
			for _, o := range offered {
				if o.mime() == n.mime() && o.Fmtp == n.Fmtp && o.PT != n.PT {
					samePT = true
				}
			}
			if !samePT {
				cls = "codec-not-offered"
			}
			c.Violation("not-offered|"+cls+"|"+tag,
				fmt.Sprintf("%s: %s codec %s is not an offered codec with the remote's payload type; offered: %s", where, kind, vkit.Short(n), vkit.Short(offered)), cs)

			continue
		}
		lv, ls := c15Level(*r, locals)
		if c15IsApt(*r) {
			nRTX++
			_, ls = c15Level(c15Codec{Kind: r.Kind, Name: r.Name, Clock: r.Clock, Ch: r.Ch}, locals) // every local of the same mime/clock/channels
			if len(ls) == 0 {
				c.Violation("not-matched|"+tag, fmt.Sprintf("%s: %s is used but no local codec matches it", where, vkit.Short(n)), cs)

				continue
			}
			// exact or partial: an RTX entry matches exactly when its primary matches a local codec exactly AND
			// an RTX is registered locally for THAT local codec; any other local RTX is only a partial match
			// (same mime type, other apt), which must not be used while the offer holds an exact match
			if apt, ok := c15Params(r.Fmtp)["apt"]; ok && anyExact {
				rtxExact, primaryListed := false, false
				for _, p := range offered {
					if c15IsApt(p) || fmt.Sprint(p.PT) != apt {
						continue
					}
					primaryListed = true
					if plv, pls := c15Level(p, locals); plv == 2 {
						for _, pl := range pls {
							for _, l := range locals {
								if l.Kind == kind && c15IsApt(l) && c15Params(l.Fmtp)["apt"] == fmt.Sprint(pl.PT) {
									rtxExact = true
								}
							}
						}
					}
				}
				if primaryListed && !rtxExact {
					c.Violation("partial-despite-exact|"+tag,
						fmt.Sprintf("%s: RTX %s is used although no RTX is registered locally for the codec its primary matches exactly (a partial match) while the offer contains exactly matching codecs (offered %s, locals %s)", where, vkit.Short(n), vkit.Short(offered), vkit.Short(locals)), cs)
				}
			}
		} else {
			switch lv {
			case 0:
				c.Violation("not-matched|"+tag, fmt.Sprintf("%s: %s is used but no local codec matches it (locals %s)", where, vkit.Short(n), vkit.Short(locals)), cs)

				continue
			case 1:
				nPartial++
				if anyExact {
					c.Violation("partial-despite-exact|"+tag,
						fmt.Sprintf("%s: %s matches only partially although the offer contains an exactly matching codec (offered %s, locals %s)", where, vkit.Short(n), vkit.Short(offered), vkit.Short(locals)), cs)
				}
			case 2:
				nExact++
			}
		}
		// feedback = remote ∩ local, for one of the best-matching local codecs
		okFB := false
		var want []string
		for _, l := range ls {
			w := c15FBSet(c15FBInter(r.FB, l.FB))
			want = append(want, "{"+w+"}")
			if w == c15FBSet(n.FB) {
				okFB = true
			}
		}
		if !okFB {
			dup := ""
			for _, o := range used {
				if o.PT == n.PT {
					dup += "x"
				}
			}
			if len(dup) > 1 {
				dup = "|payload-type-listed-twice"
			} else {
				dup = ""
			}
			c.Violation("feedback|"+tag+dup,
				fmt.Sprintf("%s: %s has feedback {%s}; intersection of remote %v with the matching local codec gives %v", where, vkit.Short(n), c15FBSet(n.FB), r.FB, want), cs)
		}
	}

	return fmt.Sprintf("exact=%d|partial=%d|rtx=%d", min(nExact, 2), min(nPartial, 2), min(nRTX, 1))
}

func c15Kinds(remote []c15Codec) []string {
	var out []string
	for _, k := range []string{"audio", "video"} {
		for _, r := range remote {
			if r.Kind == k {
				out = append(out, k)

				break
			}
		}
	}

	return out
}

func c15Typ(kind string) RTPCodecType {
	if kind == "audio" {
		return RTPCodecTypeAudio
	}

	return RTPCodecTypeVideo
}

// c15Memo de-duplicates Distinct/Outcome keys per worker unit (keeps the shared lock cold).
type c15Memo map[string]bool

func (m c15Memo) distinct(c *vkit.Check, k string) {
	if !m["d"+k] {
		m["d"+k] = true
		c.Distinct(k)
	}
}

func (m c15Memo) outcome(c *vkit.Check, k string) {
	if !m["o"+k] {
		m["o"+k] = true
		c.Outcome(k)
	}
}

// c15Direct: one case through MediaEngine.updateFromRemoteDescription.
func c15Direct(c *vkit.Check, memo c15Memo, cs c15Case, parsed *sdp.SessionDescription, remote []c15Codec) {
	locals := c15Locals(cs)
	c.Guard("direct", cs, func() {
		m := &MediaEngine{}
		if err := c15Register(m, locals); err != nil {
			panic(fmt.Sprintf("harness: RegisterCodec: %v", err))
		}
		if err := m.updateFromRemoteDescription(*parsed); err != nil {
			memo.outcome(c, "direct:error")

			return
		}
		memo.outcome(c, "direct:applied")
		negByKind := map[string][]c15Codec{}
		for _, kind := range c15Kinds(remote) {
			var used []c15Codec
			for _, p := range m.getCodecsByKind(c15Typ(kind)) {
				used = append(used, c15FromPion(kind, p))
			}
			negByKind[kind] = used
			sig := c15Judge(c, cs, "negotiated", kind, used, locals, remote)
			if len(used) > 0 {
				remap, collide := false, false
				for _, n := range used {
					for _, l := range locals {
						if l.Kind == kind && c15Base(n, l) && l.PT != n.PT {
							remap = true
						}
						if l.PT == n.PT && !c15Base(n, l) {
							collide = true
						}
					}
				}
				memo.distinct(c, fmt.Sprintf("direct|%s|%s|remap=%v|collide=%v", kind, sig, remap, collide))
			}
		}
		// payload resolution: negotiated before registered
		for pt := 0; pt < 128; pt++ {
			var cands []c15Codec
			for _, kind := range []string{"video", "audio"} {
				for _, n := range negByKind[kind] {
					if n.PT == pt {
						cands = append(cands, n)
					}
				}
			}
			if len(cands) == 0 {
				continue
			}
			got, _, err := m.getCodecByPayload(PayloadType(pt))
			ok := false
			var g c15Codec
			if err == nil {
				g = c15FromPion("", got)
				for _, n := range cands {
					if n.mime() == g.mime() && n.PT == g.PT && n.Fmtp == g.Fmtp && n.Clock == g.Clock {
						ok = true
					}
				}
			}
			if !ok {
				shadow := "none"
				for _, l := range locals {
					if l.PT == pt {
						shadow = l.mime()
					}
				}
				c.Violation(fmt.Sprintf("payload-resolution|negotiated=%s|local-with-same-pt=%s", cands[0].mime(), shadow),
					fmt.Sprintf("payload type %d is negotiated as %s but getCodecByPayload returned %s err=%v", pt, vkit.Short(cands), vkit.Short(g), err), cs)
			} else {
				for _, l := range locals {
					if l.PT == pt && l.mime() != g.mime() {
						memo.distinct(c, "resolve|negotiated-shadows-local")
					}
				}
			}
		}
	})
}

// c15PC: one case through PeerConnection.SetRemoteDescription.
func c15PC(t *testing.T, c *vkit.Check, cs c15Case, offer string, remote []c15Codec) {
	locals := c15Locals(cs)
	c.Eval()
	api := vNewAPI(t, vAPIOpts{virtualNet: true, media: func(m *MediaEngine) error { return c15Register(m, locals) }})
	pc := vNewPC(t, api, nil)
	defer func() { _ = pc.Close() }()
	c.Guard("pc "+vkit.Short(cs), cs, func() {
		if cs.Variant == "track-first" {
			done := map[string]bool{}
			for _, l := range locals {
				if done[l.Kind] || l.Name == "rtx" {
					continue
				}
				done[l.Kind] = true
				tr, err := NewTrackLocalStaticSample(RTPCodecCapability{MimeType: l.Kind + "/" + l.Name, ClockRate: l.Clock, Channels: l.Ch, SDPFmtpLine: l.Fmtp}, l.Kind, "c15")
				if err != nil {
					panic(fmt.Sprintf("harness: track: %v", err))
				}
				if _, err = pc.AddTrack(tr); err != nil {
					panic(fmt.Sprintf("harness: AddTrack: %v", err))
				}
			}
		}
		if err := pc.SetRemoteDescription(SessionDescription{Type: SDPTypeOffer, SDP: offer}); err != nil {
			c.Outcome("pc:error")

			return
		}
		c.Outcome("pc:applied")
		offeredKind := map[string]bool{}
		for _, k := range c15Kinds(remote) {
			offeredKind[k] = true
		}
		for _, tr := range pc.GetTransceivers() {
			kind := tr.Kind().String()
			if !offeredKind[kind] {
				continue // the remote description has no section of this kind: nothing was negotiated for it
			}
			if s := tr.Sender(); s != nil {
				var used []c15Codec
				for _, p := range s.GetParameters().Codecs {
					used = append(used, c15FromPion(kind, p))
				}
				sig := c15Judge(c, cs, "sender", kind, used, locals, remote)
				if len(used) > 0 {
					c.Distinct("pc|sender|" + kind + "|" + sig)
				}
			}
			if r := tr.Receiver(); r != nil {
				var used []c15Codec
				for _, p := range r.GetParameters().Codecs {
					used = append(used, c15FromPion(kind, p))
				}
				sig := c15Judge(c, cs, "receiver", kind, used, locals, remote)
				if len(used) > 0 {
					c.Distinct("pc|receiver|" + cs.Variant + "|" + kind + "|" + sig)
				}
			}
		}
	})
}

// c15Subsets returns all subsets of {0..n-1} of size 1..k, smallest first.
func c15Subsets(n, k int) [][]int {
	var out [][]int
	for size := 1; size <= k; size++ {
		idx := make([]int, size)
		var rec func(pos, from int)
		rec = func(pos, from int) {
			if pos == size {
				out = append(out, append([]int{}, idx...))

				return
			}
			for v := from; v < n; v++ {
				idx[pos] = v
				rec(pos+1, v+1)
			}
		}
		rec(0, 0)
	}

	return out
}

func TestVerifC15(t *testing.T) {
	c := vkit.New("C15", "exploration")
	defer c.Finish(t)
	c.Rule("case = (subset of the local registration pool, RTX for every local video codec / for the first or the last one only / for none, sequence of remote pool entries without repeated payload type); the sequence is written as SDP text, parsed by pion/sdp and applied by the real updateFromRemoteDescription (phase direct) or PeerConnection.SetRemoteDescription (phase pc); non-trivial = a non-empty negotiated set, classed by (kind, #exact, #partial, RTX present, payload type remapped, payload type colliding with a local one)")
	c.Assume("reference notion of exact/partial compatibility: same mime (case-insensitive), clock and channels = partial; plus compatible format parameters (H264 packetization-mode and profile/constraint bytes, VP9 profile-id, AV1 profile, otherwise all shared keys equal) = exact")
	c.Assume("RTX (apt) codecs are judged for: offered with the remote's payload type, a local RTX registration exists, feedback, and - when the offer holds an exact match - that an RTX is registered locally for the codec its primary matches exactly")
	c.Assume("the statement is read one-directionally (used ⊆ offered ∩ matched); completeness of the negotiated set and the fall-back to locally registered payload types are not demanded")

	if raw, ok := c.ReplayCase(); ok {
		var cs c15Case
		if err := json.Unmarshal(raw, &cs); err != nil {
			vkit.Fatalf(t, "replay case: %v", err)
		}
		remote, ok := c15Remote(cs.Seq)
		if !ok {
			vkit.Fatalf(t, "replay case has a repeated payload type")
		}
		text := c15OfferText(remote)
		if cs.Phase == "pc" {
			c15PC(t, c, cs, text, remote)
		} else {
			parsed := &sdp.SessionDescription{}
			if err := parsed.UnmarshalString(text); err != nil {
				vkit.Fatalf(t, "offer does not parse: %v", err)
			}
			c.Eval()
			c15Direct(c, c15Memo{}, cs, parsed, remote)
		}

		return
	}

	type engine struct {
		local   []int
		rtx     bool
		rtxOnly int
	}
	var engines []engine
	for _, sub := range c15Subsets(len(c15LocalPool), 3) {
		engines = append(engines, engine{sub, false, 0})
		nVideo := 0
		for _, i := range sub {
			if c15LocalPool[i].Kind == "video" {
				nVideo++
			}
		}
		if nVideo > 0 {
			engines = append(engines, engine{sub, true, 0})
		}
		// RTX registered for one of several video codecs only (first / last)
		if nVideo > 1 {
			engines = append(engines, engine{sub, true, 1}, engine{sub, true, nVideo})
		}
	}
	maxLen := c.Pick(3, 4)
	seqs := vkit.AllSequences(len(c15RemotePool), 1, maxLen)
	c.Set("local_pool", len(c15LocalPool))
	c.Set("local_engines", len(engines))
	c.Set("remote_pool", len(c15RemotePool))
	c.Set("remote_sequence_max_len", maxLen)
	c.Set("remote_sequences", len(seqs))
	c.Sample(c15Case{Phase: "direct", Local: []int{2, 5}, RTX: true, Seq: []int{4, 7, 12}})

	// Phase 1: direct.
	t0 := time.Now()
	vkit.Parallel(len(seqs), func(si int) {
		seq := seqs[si]
		remote, ok := c15Remote(seq)
		if !ok {
			c.Add("sequences_skipped_repeated_pt", 1)

			return
		}
		text := c15OfferText(remote)
		parsed := &sdp.SessionDescription{}
		if err := parsed.UnmarshalString(text); err != nil {
			panic(fmt.Sprintf("harness: offer does not parse: %v\n%s", err, text))
		}
		memo := c15Memo{}
		for _, e := range engines {
			c15Direct(c, memo, c15Case{Phase: "direct", Local: e.local, RTX: e.rtx, RTXOnly: e.rtxOnly, Seq: seq}, parsed, remote)
		}
		c.EvalN(len(engines))
	})

	c.Set("direct_phase_s", time.Since(t0).Seconds())

	// Phase 2: through a PeerConnection (sender / receiver parameters).
	pcLen := c.Pick(1, 2)
	pcSeqs := vkit.AllSequences(len(c15RemotePool), 1, pcLen)
	pairSeqs := map[int]bool{}
	if c.Quick() {
		// plus every pair of remote entries, for the single-codec engines only
		for _, s := range vkit.AllSequences(len(c15RemotePool), 2, 2) {
			pairSeqs[len(pcSeqs)] = true
			pcSeqs = append(pcSeqs, s)
		}
	}
	type pcCase struct {
		cs     c15Case
		remote []c15Codec
		text   string
	}
	var pcCases []pcCase
	for si, seq := range pcSeqs {
		remote, ok := c15Remote(seq)
		if !ok {
			continue
		}
		text := c15OfferText(remote)
		for _, e := range engines {
			if c.Quick() && (len(e.local) > 2 || (pairSeqs[si] && len(e.local) > 1)) {
				continue
			}
			for _, v := range []string{"remote-first", "track-first"} {
				pcCases = append(pcCases, pcCase{c15Case{Phase: "pc", Local: e.local, RTX: e.rtx, RTXOnly: e.rtxOnly, Seq: seq, Variant: v}, remote, text})
			}
		}
	}
	c.Set("pc_cases", len(pcCases))
	c.Sample(pcCases[len(pcCases)/2].cs)
	vkit.Parallel(len(pcCases), func(i int) {
		c15PC(t, c, pcCases[i].cs, pcCases[i].text, pcCases[i].remote)
	})
	if c.Outcomes() < 2 {
		vkit.Fatalf(t, "vacuous: outcomes=%d", c.Outcomes())
	}
}
