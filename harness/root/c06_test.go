package webrtc

// C06 — Generated descriptions have unique mids and a correct BUNDLE group.
//
// Every description returned by CreateOffer/CreateAnswer in the explored histories is read with
// the line scanner and judged against the statement: parses as SDP; every m-section has a mid no
// other m-section shares; the BUNDLE group lists exactly the mids of the non-zero-port sections,
// each once; each non-zero-port section has ICE credentials, exactly one direction attribute, a
// setup attribute and a fingerprint at session or media level.

import (
	"fmt"
	"sort"
	"strconv"
	"strings"
	"testing"
	"time"

	"github.com/pion/sdp/v3"
	"github.com/pion/webrtc/v4/internal/verif/vkit"
)

func c06Oracle(cs vshCase, r *vshRun) []vshFinding {
	var out []vshFinding
	for _, d := range r.Descs {
		if d.Err != "" {
			continue
		}
		out = append(out, c06Check(cs, d)...)
	}

	return out
}

func c06Check(cs vshCase, d *vshDesc) []vshFinding { //nolint:gocognit,cyclop
	var out []vshFinding
	ctx := d.Type + "|sem=" + cs.Cfg.Sem
	where := fmt.Sprintf("%s returned by %s at step %d of %s: sections %s, group %v", d.Type, d.Side, d.Step, cs.String(), vshSecSummary(d.Scan), vshAttr(d.Scan.Session, "group"))
	add := func(key, what string) {
		out = append(out, vshFinding{key + "|" + ctx, what + " — " + where})
	}
	// a section without a mid is keyed without the semantics: one code path writes the rejected section
	addNoSem := func(key, what string) {
		out = append(out, vshFinding{key + "|" + d.Type, what + " — " + where})
	}
	var parsed sdp.SessionDescription
	if err := parsed.UnmarshalString(d.SDP); err != nil {
		add("unparseable", "does not parse as SDP: "+err.Error())
	}
	secs := d.Scan.Sections
	// mids present and pairwise distinct
	dup := false
	for j, s := range secs {
		rej := "accepted"
		if s.Port == "0" {
			rej = "port0"
		}
		if !s.HasMid || s.Mid == "" {
			addNoSem("no-mid|media="+s.Media+"|"+rej, fmt.Sprintf("m-section %d (%s) carries no mid", j, s.Media))

			continue
		}
		for i := 0; i < j; i++ {
			if secs[i].HasMid && secs[i].Mid == s.Mid {
				dup = true
				// the class of the colliding pair: which kind of section repeats which, and how the
				// repeated mid relates to the shortcuts of the allocation (own index, the literal "data")
				rel := "mid=other"
				switch {
				case s.Mid == strconv.Itoa(j):
					rel = "mid=own-index"
				case s.Mid == "data" || s.Mid == "audio" || s.Mid == "video":
					rel = "mid=planb-literal"
				}
				cl := func(m string) string {
					if m == "application" {
						return m
					}

					return "media"
				}
				// did an unapplied CreateOffer (which hands out mids) precede this description?
				unapplied := "no"
				for k, op := range cs.Hist {
					if k < d.Step && op.Op == "offer" {
						unapplied = "yes"
					}
				}
				add("dup-mid|"+cl(s.Media)+"-repeats-"+cl(secs[i].Media)+"|"+rel+"|after-unapplied-offer="+unapplied, fmt.Sprintf("m-sections %d (%s) and %d (%s) share mid %q", i, secs[i].Media, j, s.Media, s.Mid))

				break
			}
		}
	}
	// BUNDLE
	var groups []string
	for _, g := range vshAttr(d.Scan.Session, "group") {
		if strings.HasPrefix(g, "BUNDLE") {
			groups = append(groups, g)
		}
	}
	accepted := map[string]int{}
	rejected := map[string]bool{}
	nAccepted := 0
	for _, s := range secs {
		if s.Port != "0" {
			nAccepted++
			if s.HasMid {
				accepted[s.Mid]++
			}
		} else if s.HasMid {
			rejected[s.Mid] = true
		}
	}
	if len(groups) > 1 {
		add("bundle-multiple-group-lines", fmt.Sprintf("%d BUNDLE group lines", len(groups)))
	}
	tokens := map[string]int{}
	if len(groups) > 0 {
		for _, t := range strings.Fields(strings.TrimPrefix(groups[0], "BUNDLE")) {
			tokens[t]++
		}
	}
	if nAccepted > 0 && len(groups) == 0 {
		add("bundle-group-absent", "accepted m-sections but no BUNDLE group")
	} else {
		for _, s := range secs {
			if s.Port != "0" && s.HasMid && tokens[s.Mid] == 0 {
				add("bundle-misses-accepted|media="+s.Media, fmt.Sprintf("accepted m-section with mid %q is not in the BUNDLE group", s.Mid))
			}
		}
	}
	tk := make([]string, 0, len(tokens))
	for t := range tokens {
		tk = append(tk, t)
	}
	sort.Strings(tk)
	for _, t := range tk {
		switch {
		case accepted[t] == 0 && rejected[t]:
			add("bundle-lists-rejected", fmt.Sprintf("BUNDLE group lists mid %q of a zero-port m-section", t))
		case accepted[t] == 0:
			add("bundle-lists-unknown-mid", fmt.Sprintf("BUNDLE group lists %q, which is not the mid of any m-section", t))
		case tokens[t] > 1 && !dup:
			add("bundle-token-twice", fmt.Sprintf("BUNDLE group lists mid %q %d times", t, tokens[t]))
		}
	}
	// per accepted section
	sessHas := func(key string) bool { return len(vshAttr(d.Scan.Session, key)) > 0 }
	for j, s := range secs {
		if s.Port == "0" {
			continue
		}
		has := func(key string) bool { return len(vshAttr(s.Lines, key)) > 0 || sessHas(key) }
		if !has("ice-ufrag") || !has("ice-pwd") {
			add("no-ice-credentials|media="+s.Media, fmt.Sprintf("accepted m-section %d has no ice-ufrag/ice-pwd", j))
		}
		if n := len(vshDirections(s)); n != 1 {
			add(fmt.Sprintf("direction-attributes=%d|media=%s", n, s.Media), fmt.Sprintf("accepted m-section %d has %d direction attributes", j, n))
		}
		if !has("setup") {
			add("no-setup|media="+s.Media, fmt.Sprintf("accepted m-section %d has no setup attribute", j))
		}
		if !has("fingerprint") {
			add(fmt.Sprintf("no-fingerprint|media=%s|mediafp=%v", s.Media, cs.Cfg.MediaFP), fmt.Sprintf("accepted m-section %d has no fingerprint at session or media level", j))
		}
	}

	return out
}

func c06Cover(c *vkit.Check) func(cs vshCase, r *vshRun) {
	return func(cs vshCase, r *vshRun) {
		for _, d := range r.Descs {
			if d.Err != "" {
				c.Outcome("err|" + d.Type + "|" + d.Role)

				continue
			}
			acc, rej, app := 0, 0, 0
			for _, s := range d.Scan.Sections {
				if s.Port == "0" {
					rej++
				} else {
					acc++
				}
				if s.Media == "application" {
					app++
				}
			}
			if acc == 0 {
				c.Outcome(fmt.Sprintf("no-accepted-section|%s|n=%d", d.Type, len(d.Scan.Sections)))

				continue
			}
			c.Distinct(fmt.Sprintf("%s|%s|%s|mids=%s|rej=%d|app=%d", cs.Cfg.String(), d.Type, d.Role, strings.Join(vshMidList(d.Scan), ","), rej, app))
			c.Outcome(fmt.Sprintf("%s|acc=%d|rej=%d|app=%d", d.Type, acc, rej, app))
		}
		if len(cs.Hist) == 3 {
			c.Sample(map[string]any{"case": cs.String(), "status": r.Status, "final_offer_sections": c06LastSummary(r)})
		}
	}
}

func c06LastSummary(r *vshRun) string {
	for i := len(r.Descs) - 1; i >= 0; i-- {
		if r.Descs[i].Err == "" {
			return r.Descs[i].Side + " " + r.Descs[i].Type + " " + vshSecSummary(r.Descs[i].Scan)
		}
	}

	return "-"
}

// c06PairAlphabet: local operations on X, a reduced set on the peer P, and complete exchanges.
func c06PairAlphabet(full bool) []vshOp {
	a := []vshOp{
		{Side: "X", Op: "addk", Kind: "audio", Dir: "sendrecv"},
		{Side: "X", Op: "addk", Kind: "audio", Dir: "recvonly"},
		{Side: "X", Op: "addk", Kind: "video", Dir: "sendonly"},
		{Side: "X", Op: "addk", Kind: "video", Dir: "recvonly"},
		{Side: "X", Op: "addtrack", Kind: "audio"},
		{Side: "X", Op: "addtrack", Kind: "video"},
		{Side: "X", Op: "rmtrack", Idx: 0},
		{Side: "X", Op: "stop", Idx: 0},
		{Side: "X", Op: "dc"},
		{Side: "X", Op: "offer"},
		{Side: "X", Op: "neg"},
		{Side: "P", Op: "neg"},
		{Side: "P", Op: "addk", Kind: "audio", Dir: "sendrecv"},
		{Side: "P", Op: "addk", Kind: "video", Dir: "recvonly"},
		{Side: "P", Op: "dc"},
	}
	if full {
		a = append(a,
			vshOp{Side: "X", Op: "addk", Kind: "audio", Dir: "sendonly"},
			vshOp{Side: "X", Op: "addk", Kind: "video", Dir: "sendrecv"},
			vshOp{Side: "X", Op: "rmtrack", Idx: 1},
			vshOp{Side: "X", Op: "stop", Idx: 1},
		)
	}

	return a
}

func c06Configs(all bool) []vshCfg {
	var out []vshCfg
	for _, sem := range []string{"unified", "planb", "fallback"} {
		for _, always := range []bool{false, true} {
			for _, fp := range []bool{false, true} {
				if !all && always != fp {
					continue
				}
				out = append(out, vshCfg{Sem: sem, AlwaysDC: always, MediaFP: fp})
			}
		}
	}

	return out
}

// c06SynCases: pre-operations, a synthetic remote offer, local additions (the final CreateOffer probe
// of the replay is the local re-offer); in round 2 a second exchange and more additions.
func c06SynCases(cfgs []vshCfg, quick bool) []vshCase {
	return vshSynCases(cfgs, quick, true)
}

func TestVerifC06(t *testing.T) {
	c := vkit.New("C06", "model_checking")
	defer c.Finish(t)
	if vshReplayMode(t, c, c06Oracle) {
		return
	}
	vSharedCert()
	quick := c.Quick()
	exp := &vshExplorer{tb: t, c: c, oracle: c06Oracle, cover: c06Cover(c)}
	exp.stop = c.Deadline(time.Duration(c.Pick(24, 540)) * time.Second)
	depth := c.Pick(3, 4)
	alpha := c06PairAlphabet(!quick)
	cfgs := c06Configs(!quick)
	c.Rule(fmt.Sprintf("explicit-state BFS over histories of local operations and complete offer/answer exchanges between two real PeerConnections (successor = replay on fresh objects + one operation; every replay ends with a CreateOffer probe on both sides), alphabet of %d operations, merged on a canonical negotiation state, depth %d, for %d configurations (SDPSemantics x AlwaysNegotiateDataChannels x media-level fingerprints); plus the product of synthetic remote offers (1-%d sections, media audio|video|application, ordered selections of distinct mids from %v, BUNDLE all|none|first, one section with an unknown codec) x pre-operations x local additions, each followed by a local re-offer; every description returned by CreateOffer/CreateAnswer is judged; distinct = configuration x description type x mid list x rejected/application counts of descriptions with at least one accepted section", len(alpha), depth, len(cfgs), c.Pick(2, 3), vshSynMids))
	c.Set("alphabet_pair", fmt.Sprint(alpha))
	c.Set("depth_pair_merged", depth)
	c.Set("configurations", fmt.Sprint(cfgs))
	c.Set("synthetic_mids", vshSynMids)

	// phase 1: synthetic remote offers (where the mid allocation shortcuts are)
	syn := c06SynCases(cfgs, quick)
	c.Set("synthetic_cases", len(syn))
	t0 := time.Now()
	exp.batch(syn)
	c.Set("synthetic_wall_s", time.Since(t0).Seconds())

	// phase 2: pion pair
	levels := map[string][]int{}
	for _, cfg := range cfgs {
		lv, done := exp.bfs(cfg, alpha, depth, true)
		levels[cfg.String()] = lv
		if !done {
			c.NotExhaustive(fmt.Sprintf("budget reached in the pair BFS of %s after levels %v (depth %d planned)", cfg, lv, depth))
		}
	}
	if !quick {
		// unmerged tree to depth 3 for the plain configurations (validates the merging) and a peer
		// without video codecs (rejected sections in real answers)
		for _, cfg := range []vshCfg{{Sem: "unified"}, {Sem: "planb"}} {
			lv, done := exp.bfs(cfg, c06PairAlphabet(false), 3, false)
			levels[cfg.String()+"/unmerged"] = lv
			if !done {
				c.NotExhaustive("budget reached in the unmerged tree of " + cfg.String())
			}
		}
		for _, cfg := range []vshCfg{{Sem: "unified", PeerAudio: true}, {Sem: "unified", PeerAudio: true, MediaFP: true}} {
			lv, done := exp.bfs(cfg, c06PairAlphabet(false), 3, true)
			levels[cfg.String()] = lv
			if !done {
				c.NotExhaustive("budget reached in the BFS of " + cfg.String())
			}
		}
	}
	c.Set("replays_per_level", levels)
}
