package webrtc

// C38 — Public value types survive their JSON and PEM encodings.
//
// Bounded exhaustive enumeration by reflection: for every covered struct type
// the zero value (type/kind tags set for Stats), fully populated values and
// every deviation of up to `bound` leaf fields from each of them, every leaf
// over a small domain chosen from the encoders' shortcuts (nil vs empty
// collections, nil pointers, "" vs unusual strings, 0/1/max numbers, every
// declared enum value). Every declared value of the covered enums through
// each of its encodings; certificates over key kinds and validity templates
// through PEM()/CertificateFromPEM.
//
// Oracle: decode(encode(v)) is v, compared by an own structural comparison
// that identifies nil and empty slices/maps and nothing else.

import (
	"crypto"
	"crypto/ecdsa"
	"crypto/elliptic"
	"crypto/rand"
	"crypto/rsa"
	"crypto/sha256"
	"crypto/x509"
	"crypto/x509/pkix"
	"encoding"
	"encoding/hex"
	"encoding/json"
	"fmt"
	"math"
	"math/big"
	"reflect"
	"sort"
	"strings"
	"testing"
	"time"

	"github.com/pion/webrtc/v4/internal/verif/vkit"
)

// ---------------------------------------------------------------- enums

type c38EnumInt interface {
	~int | ~int32 | ~uint32
	String() string
}

type c38EnumRes struct {
	enc     string // encoding name
	text    string // encoded form
	encErr  error
	decErr  error
	same    bool
	decoded string
}

type c38Enum struct {
	name string
	typ  reflect.Type
	n    int // declared values are 0..n-1
	// rejectsUnknown: the declared zero "Unknown" sentinel is documented (and
	// pinned by the repository's own tests) as not decodable.
	rejectsUnknown bool
	run            func(i int) []c38EnumRes
}

func c38EnumOf[T c38EnumInt](name string, last T, rejectsUnknown bool, ctor func(string) (T, error)) c38Enum {
	return c38Enum{
		name: name, typ: reflect.TypeOf(last), n: int(last) + 1, rejectsUnknown: rejectsUnknown,
		run: func(i int) []c38EnumRes {
			v := T(i)
			var out []c38EnumRes
			// JSON
			{
				r := c38EnumRes{enc: "json"}
				raw, err := json.Marshal(v)
				r.text, r.encErr = string(raw), err
				if err == nil {
					var w T
					r.decErr = json.Unmarshal(raw, &w)
					r.same = w == v
					r.decoded = fmt.Sprintf("%d", int(w))
				}
				out = append(out, r)
			}
			// JSON as a struct member and as a slice element (the encoder picks
			// the methods through a different path there)
			{
				type holder struct {
					A T   `json:"a"`
					B []T `json:"b"`
				}
				r := c38EnumRes{enc: "json-member"}
				raw, err := json.Marshal(holder{A: v, B: []T{v}})
				r.text, r.encErr = string(raw), err
				if err == nil {
					var w holder
					r.decErr = json.Unmarshal(raw, &w)
					r.same = w.A == v && len(w.B) == 1 && w.B[0] == v
					r.decoded = fmt.Sprintf("%v", w)
				}
				out = append(out, r)
			}
			// Text
			if tm, ok := any(v).(encoding.TextMarshaler); ok {
				r := c38EnumRes{enc: "text"}
				raw, err := tm.MarshalText()
				r.text, r.encErr = string(raw), err
				if err == nil {
					var w T
					if tu, ok := any(&w).(encoding.TextUnmarshaler); ok {
						r.decErr = tu.UnmarshalText(raw)
						r.same = w == v
						r.decoded = fmt.Sprintf("%d", int(w))
						out = append(out, r)
					}
				}
			}
			// String() / constructor
			if ctor != nil {
				r := c38EnumRes{enc: "string"}
				r.text = v.String()
				w, err := ctor(r.text)
				r.decErr = err
				r.same = w == v
				r.decoded = fmt.Sprintf("%d", int(w))
				out = append(out, r)
			}

			return out
		},
	}
}

func c38NoErr[T any](f func(string) T) func(string) (T, error) {
	return func(s string) (T, error) { return f(s), nil }
}

func c38Enums() []c38Enum {
	return []c38Enum{
		c38EnumOf("SDPType", SDPTypeRollback, true, c38NoErr(NewSDPType)),
		c38EnumOf("SignalingState", SignalingStateClosed, false, c38NoErr(newSignalingState)),
		c38EnumOf("ICEConnectionState", ICEConnectionStateClosed, false, c38NoErr(NewICEConnectionState)),
		c38EnumOf("ICEGatheringState", ICEGatheringStateComplete, false, c38NoErr(NewICEGatheringState)),
		c38EnumOf[ICEGathererState]("ICEGathererState", ICEGathererStateClosed, false, nil),
		c38EnumOf("ICETransportState", ICETransportStateClosed, false, c38NoErr(newICETransportState)),
		c38EnumOf("DTLSTransportState", DTLSTransportStateFailed, false, c38NoErr(newDTLSTransportState)),
		c38EnumOf("SCTPTransportState", SCTPTransportStateClosed, false, c38NoErr(newSCTPTransportState)),
		c38EnumOf("DataChannelState", DataChannelStateClosed, false, c38NoErr(newDataChannelState)),
		c38EnumOf("PeerConnectionState", PeerConnectionStateClosed, false, c38NoErr(newPeerConnectionState)),
		c38EnumOf("BundlePolicy", BundlePolicyMaxBundle, false, c38NoErr(newBundlePolicy)),
		c38EnumOf("RTCPMuxPolicy", RTCPMuxPolicyRequire, false, c38NoErr(newRTCPMuxPolicy)),
		c38EnumOf("ICETransportPolicy", ICETransportPolicyNoHost, false, c38NoErr(NewICETransportPolicy)),
		// members of covered types (ICEServer, Stats)
		c38EnumOf("ICECredentialType", ICECredentialTypeOauth, false, newICECredentialType),
		c38EnumOf("ICERole", ICERoleControlled, false, c38NoErr(newICERole)),
		c38EnumOf("ICECandidateType", ICECandidateTypeRelay, true, NewICECandidateType),
	}
}

// ---------------------------------------------------------------- value domains

type c38Val struct {
	class string
	v     reflect.Value
}

type c38Gen struct {
	enums map[reflect.Type]c38Enum
}

var c38Strings = []struct{ class, s string }{
	{"empty", ""},
	{"a", "a"},
	{"unusual", "é\"\\ <&>\x00\t\n'"},
	{"long300", strings.Repeat("0123456789abcdef", 19)[:300]},
}

func (g *c38Gen) domain(t reflect.Type) []c38Val {
	mk := func(class string, set func(v reflect.Value)) c38Val {
		v := reflect.New(t).Elem()
		set(v)

		return c38Val{class, v}
	}
	if e, ok := g.enums[t]; ok {
		var out []c38Val
		for i := 0; i < e.n; i++ {
			i := i
			out = append(out, mk(fmt.Sprintf("%d", i), func(v reflect.Value) {
				if v.CanInt() {
					v.SetInt(int64(i))
				} else {
					v.SetUint(uint64(i))
				}
			}))
		}

		return out
	}
	switch t.Kind() { //nolint:exhaustive
	case reflect.String:
		var out []c38Val
		for _, s := range c38Strings {
			s := s
			out = append(out, mk(s.class, func(v reflect.Value) { v.SetString(s.s) }))
		}

		return out
	case reflect.Bool:
		return []c38Val{mk("false", func(reflect.Value) {}), mk("true", func(v reflect.Value) { v.SetBool(true) })}
	case reflect.Uint8, reflect.Uint16, reflect.Uint32, reflect.Uint64, reflect.Uint:
		max := uint64(math.MaxUint64) >> (64 - uint(t.Bits()))

		return []c38Val{
			mk("0", func(reflect.Value) {}),
			mk("1", func(v reflect.Value) { v.SetUint(1) }),
			mk("max", func(v reflect.Value) { v.SetUint(max) }),
		}
	case reflect.Int8, reflect.Int16, reflect.Int32, reflect.Int64, reflect.Int:
		max := int64(math.MaxInt64) >> (64 - uint(t.Bits()))

		return []c38Val{
			mk("0", func(reflect.Value) {}),
			mk("1", func(v reflect.Value) { v.SetInt(1) }),
			mk("max", func(v reflect.Value) { v.SetInt(max) }),
			mk("min", func(v reflect.Value) { v.SetInt(-max - 1) }),
		}
	case reflect.Float64, reflect.Float32:
		fs := []struct {
			class string
			f     float64
		}{{"0", 0}, {"1", 1}, {"0.1", 0.1}, {"-2.5", -2.5}, {"1e21", 1e21}, {"maxfloat", math.MaxFloat64}, {"denormal", 5e-324}}
		var out []c38Val
		for _, f := range fs {
			f := f
			out = append(out, mk(f.class, func(v reflect.Value) { v.SetFloat(f.f) }))
		}

		return out
	case reflect.Slice:
		ed := g.domain(t.Elem())
		pick := func(i int) reflect.Value { return ed[i%len(ed)].v }

		return []c38Val{
			mk("nil", func(reflect.Value) {}),
			mk("empty", func(v reflect.Value) { v.Set(reflect.MakeSlice(t, 0, 0)) }),
			mk("n=1", func(v reflect.Value) { v.Set(reflect.Append(reflect.MakeSlice(t, 0, 1), pick(1))) }),
			mk("n=3", func(v reflect.Value) { v.Set(reflect.Append(reflect.MakeSlice(t, 0, 3), pick(0), pick(2), pick(2))) }),
		}
	case reflect.Map:
		ed := g.domain(t.Elem())
		kd := g.domain(t.Key())
		last := ed[len(ed)-1].v
		if t.Elem().Kind() == reflect.Float64 {
			last = ed[5].v
		}

		return []c38Val{
			mk("nil", func(reflect.Value) {}),
			mk("empty", func(v reflect.Value) { v.Set(reflect.MakeMap(t)) }),
			mk("n=1", func(v reflect.Value) {
				m := reflect.MakeMap(t)
				m.SetMapIndex(kd[1].v, ed[1].v)
				v.Set(m)
			}),
			mk("n=3", func(v reflect.Value) {
				m := reflect.MakeMap(t)
				m.SetMapIndex(kd[0].v, ed[0].v)
				m.SetMapIndex(kd[2].v, last)
				m.SetMapIndex(kd[1].v, ed[2%len(ed)].v)
				v.Set(m)
			}),
		}
	case reflect.Ptr:
		var inner []c38Val
		if t.Elem().Kind() == reflect.Struct {
			st := g.structType(t.Elem().Name(), reflect.New(t.Elem()).Elem().Interface(), nil, nil)
			inner = append(inner, c38Val{"zero", st.bases[0].v}, c38Val{"populated", st.bases[1].v})
			for li, l := range st.leaves {
				for vi, lv := range l.vals {
					if vi == st.bases[1].at[li] {
						continue
					}
					v := reflect.New(t.Elem()).Elem()
					v.Set(st.bases[1].v)
					v.FieldByIndex(l.path).Set(lv.v)
					inner = append(inner, c38Val{"populated~" + l.name + "=" + lv.class, v})
				}
			}
		} else {
			inner = g.domain(t.Elem())
		}
		out := []c38Val{mk("nil", func(reflect.Value) {})}
		for _, iv := range inner {
			iv := iv
			out = append(out, mk("&"+iv.class, func(v reflect.Value) {
				p := reflect.New(t.Elem())
				p.Elem().Set(iv.v)
				v.Set(p)
			}))
		}

		return out
	default:
		panic("c38: no domain for " + t.String())
	}
}

// ---------------------------------------------------------------- struct types

type c38Leaf struct {
	name string
	path []int
	vals []c38Val
}

type c38Base struct {
	name string
	v    reflect.Value
	at   []int // per leaf: index into vals equal to the base's value, or -1
}

type c38Struct struct {
	name   string
	typ    reflect.Type
	leaves []c38Leaf
	bases  []c38Base
	stats  bool
	valid  func(v reflect.Value) bool
}

// structType builds the leaf domains of a struct type. frozen maps field name ->
// fixed value (type/kind tags of Stats); override maps field name -> domain.
func (g *c38Gen) structType(name string, zero any, frozen map[string]string, override map[string][]c38Val) *c38Struct {
	t := reflect.TypeOf(zero)
	st := &c38Struct{name: name, typ: t}
	z := reflect.New(t).Elem()
	for i := 0; i < t.NumField(); i++ {
		f := t.Field(i)
		if f.PkgPath != "" { // unexported: not part of the value
			continue
		}
		if s, ok := frozen[f.Name]; ok {
			z.Field(i).SetString(s)

			continue
		}
		l := c38Leaf{name: f.Name, path: []int{i}}
		if d, ok := override[f.Name]; ok {
			l.vals = d
		} else {
			l.vals = g.domain(f.Type)
		}
		st.leaves = append(st.leaves, l)
	}
	// base "zero": Go zero value (+ tags)
	zb := c38Base{name: "zero", v: z}
	// base "populated": every leaf at a non-zero, non-extreme value
	p := reflect.New(t).Elem()
	p.Set(z)
	pb := c38Base{name: "populated", v: p}
	for _, l := range st.leaves {
		zi, pi := -1, -1
		for vi, lv := range l.vals {
			if zi < 0 && lv.v.IsZero() {
				zi = vi
			}
		}
		pi = c38PopulatedIndex(l.vals)
		p.FieldByIndex(l.path).Set(l.vals[pi].v)
		zb.at = append(zb.at, zi)
		pb.at = append(pb.at, pi)
	}
	st.bases = []c38Base{zb, pb}

	return st
}

// c38PopulatedIndex picks the "ordinary non-zero" member of a leaf domain.
func c38PopulatedIndex(vals []c38Val) int {
	for _, want := range []string{"a", "1", "true", "n=1", "&populated", "&a", "&1"} {
		for i, v := range vals {
			if v.class == want {
				return i
			}
		}
	}
	for i, v := range vals {
		if !v.v.IsZero() {
			return i
		}
	}

	return 0
}

func (st *c38Struct) addBase(name string, set func(v reflect.Value)) {
	v := reflect.New(st.typ).Elem()
	v.Set(st.bases[1].v)
	set(v)
	b := c38Base{name: name, v: v}
	for _, l := range st.leaves {
		at := -1
		cur := v.FieldByIndex(l.path)
		for vi, lv := range l.vals {
			if c38Same(cur, lv.v) {
				at = vi

				break
			}
		}
		b.at = append(b.at, at)
	}
	st.bases = append(st.bases, b)
}

// c38Same is exact sameness of two leaf values (nil and empty collections differ).
func c38Same(a, b reflect.Value) bool {
	return c38Diff(a, b, "$") == "" && c38NilShape(a) == c38NilShape(b)
}

func c38NilShape(v reflect.Value) string {
	switch v.Kind() { //nolint:exhaustive
	case reflect.Slice, reflect.Map, reflect.Ptr, reflect.Interface:
		if v.IsNil() {
			return "nil"
		}
	}

	return ""
}

type c38Dev struct{ Leaf, Val int }

func (st *c38Struct) build(base int, devs []c38Dev) reflect.Value {
	v := reflect.New(st.typ).Elem()
	v.Set(st.bases[base].v)
	for _, d := range devs {
		l := st.leaves[d.Leaf]
		v.FieldByIndex(l.path).Set(l.vals[d.Val].v)
	}

	return v
}

func (st *c38Struct) describe(base int, devs []c38Dev) string {
	parts := []string{"base=" + st.bases[base].name}
	for _, d := range devs {
		l := st.leaves[d.Leaf]
		parts = append(parts, l.name+"="+l.vals[d.Val].class)
	}

	return strings.Join(parts, ",")
}

// c38Diff returns the path of the first difference between a and b, "" when
// they are equal modulo nil-vs-empty slices and maps.
func c38Diff(a, b reflect.Value, path string) string { //nolint:cyclop
	if a.Type() != b.Type() {
		return path + "(type " + a.Type().String() + " vs " + b.Type().String() + ")"
	}
	switch a.Kind() { //nolint:exhaustive
	case reflect.Ptr:
		if a.IsNil() || b.IsNil() {
			if a.IsNil() != b.IsNil() {
				return path + "(nil-ness)"
			}

			return ""
		}

		return c38Diff(a.Elem(), b.Elem(), path)
	case reflect.Interface:
		if a.IsNil() || b.IsNil() {
			if a.IsNil() != b.IsNil() {
				return path + "(nil-ness)"
			}

			return ""
		}

		return c38Diff(a.Elem(), b.Elem(), path)
	case reflect.Slice:
		if a.Len() != b.Len() {
			return path + "(len)"
		}
		for i := 0; i < a.Len(); i++ {
			if d := c38Diff(a.Index(i), b.Index(i), fmt.Sprintf("%s[%d]", path, i)); d != "" {
				return d
			}
		}

		return ""
	case reflect.Map:
		if a.Len() != b.Len() {
			return path + "(len)"
		}
		keys := a.MapKeys()
		sort.Slice(keys, func(i, j int) bool { return fmt.Sprint(keys[i]) < fmt.Sprint(keys[j]) })
		for _, k := range keys {
			bv := b.MapIndex(k)
			if !bv.IsValid() {
				return path + "(key)"
			}
			if d := c38Diff(a.MapIndex(k), bv, path+"[k]"); d != "" {
				return d
			}
		}

		return ""
	case reflect.Struct:
		for i := 0; i < a.NumField(); i++ {
			f := a.Type().Field(i)
			if f.PkgPath != "" {
				continue
			}
			if d := c38Diff(a.Field(i), b.Field(i), path+"."+f.Name); d != "" {
				return d
			}
		}

		return ""
	case reflect.Float32, reflect.Float64:
		if math.Float64bits(a.Float()) != math.Float64bits(b.Float()) {
			return path
		}

		return ""
	default:
		if !reflect.DeepEqual(a.Interface(), b.Interface()) {
			return path
		}

		return ""
	}
}

// c38Sentinel reports whether v contains the declared "Unknown" zero of an enum
// whose decoder is documented to reject it.
func (g *c38Gen) sentinel(v reflect.Value) bool {
	if e, ok := g.enums[v.Type()]; ok {
		return e.rejectsUnknown && v.IsZero()
	}
	switch v.Kind() { //nolint:exhaustive
	case reflect.Ptr, reflect.Interface:
		return !v.IsNil() && g.sentinel(v.Elem())
	case reflect.Struct:
		for i := 0; i < v.NumField(); i++ {
			if v.Type().Field(i).PkgPath == "" && g.sentinel(v.Field(i)) {
				return true
			}
		}
	case reflect.Slice:
		for i := 0; i < v.Len(); i++ {
			if g.sentinel(v.Index(i)) {
				return true
			}
		}
	}

	return false
}

type c38Result struct {
	stage string // "", "encode-error", "decode-error", "wrong-type", "mismatch"
	where string
	enc   string
	msg   string
}

func (r c38Result) sig() string {
	if r.stage == "" {
		return "ok"
	}
	if r.where != "" {
		return r.stage + "@" + r.where
	}

	return r.stage
}

func (g *c38Gen) roundTrip(st *c38Struct, v reflect.Value) c38Result {
	raw, err := json.Marshal(v.Interface())
	if err != nil {
		return c38Result{stage: "encode-error", msg: err.Error()}
	}
	res := c38Result{enc: string(raw)}
	var got reflect.Value
	if st.stats {
		s, err := UnmarshalStatsJSON(raw)
		if err != nil {
			res.stage, res.msg = "decode-error", err.Error()

			return res
		}
		got = reflect.ValueOf(s)
		if got.Type() != st.typ {
			res.stage, res.msg = "wrong-type", "decoded as "+got.Type().String()

			return res
		}
	} else {
		p := reflect.New(st.typ)
		if err := json.Unmarshal(raw, p.Interface()); err != nil {
			res.stage, res.msg = "decode-error", err.Error()

			return res
		}
		got = p.Elem()
	}
	if d := c38Diff(v, got, ""); d != "" {
		res.stage, res.where = "mismatch", d
		res.msg = fmt.Sprintf("decoded value differs at %s", d)
	}

	return res
}

func (g *c38Gen) structTypes() []*c38Struct {
	var out []*c38Struct
	plain := func(name string, zero any, override map[string][]c38Val) *c38Struct {
		st := g.structType(name, zero, nil, override)
		out = append(out, st)

		return st
	}
	stat := func(zero any, typ StatsType, kind string) *c38Struct {
		frozen := map[string]string{"Type": string(typ)}
		name := reflect.TypeOf(zero).Name()
		if kind != "" {
			frozen["Kind"] = kind
		}
		if typ == StatsTypeRemoteCandidate {
			name += "(remote)"
		}
		st := g.structType(name, zero, frozen, nil)
		st.stats = true
		out = append(out, st)

		return st
	}

	plain("SessionDescription", SessionDescription{}, nil)
	plain("ICECandidateInit", ICECandidateInit{}, nil)

	anyT := reflect.TypeOf((*any)(nil)).Elem()
	cred := func(class string, x any) c38Val {
		v := reflect.New(anyT).Elem()
		if x != nil {
			v.Set(reflect.ValueOf(x))
		}

		return c38Val{class, v}
	}
	ice := plain("ICEServer", ICEServer{}, map[string][]c38Val{
		"Credential": {
			cred("nil", nil), cred("a", "a"), cred("empty", ""), cred("unusual", c38Strings[2].s),
			cred("oauth-zero", OAuthCredential{}),
			cred("oauth", OAuthCredential{MACKey: "bWFj", AccessToken: "dG9r"}),
			cred("oauth-unusual", OAuthCredential{MACKey: c38Strings[2].s, AccessToken: ""}),
		},
	})
	// a credential is a string for the password type and an OAuthCredential for the oauth type
	ice.valid = func(v reflect.Value) bool {
		s, _ := v.Interface().(ICEServer)
		switch s.Credential.(type) {
		case nil:
			return true
		case string:
			return s.CredentialType == ICECredentialTypePassword
		case OAuthCredential:
			return s.CredentialType == ICECredentialTypeOauth
		default:
			return false
		}
	}
	// the reflection default picks Credential "a" and CredentialType 1 (oauth): fix up
	ice.bases[1].v.FieldByName("CredentialType").SetInt(int64(ICECredentialTypePassword))
	for li, l := range ice.leaves {
		if l.name == "CredentialType" {
			ice.bases[1].at[li] = 0
		}
	}
	ice.addBase("populated-oauth", func(v reflect.Value) {
		v.FieldByName("CredentialType").SetInt(int64(ICECredentialTypeOauth))
		v.FieldByName("Credential").Set(reflect.ValueOf(OAuthCredential{MACKey: "bWFj", AccessToken: "dG9r"}))
	})

	stat(CodecStats{}, StatsTypeCodec, "")
	stat(InboundRTPStreamStats{}, StatsTypeInboundRTP, "")
	stat(OutboundRTPStreamStats{}, StatsTypeOutboundRTP, "")
	stat(RemoteInboundRTPStreamStats{}, StatsTypeRemoteInboundRTP, "")
	stat(RemoteOutboundRTPStreamStats{}, StatsTypeRemoteOutboundRTP, "")
	stat(RTPContributingSourceStats{}, StatsTypeCSRC, "")
	stat(AudioSourceStats{}, StatsTypeMediaSource, "audio")
	stat(VideoSourceStats{}, StatsTypeMediaSource, "video")
	stat(AudioPlayoutStats{}, StatsTypeMediaPlayout, "")
	stat(PeerConnectionStats{}, StatsTypePeerConnection, "")
	stat(DataChannelStats{}, StatsTypeDataChannel, "")
	stat(MediaStreamStats{}, StatsTypeStream, "")
	stat(SenderAudioTrackAttachmentStats{}, StatsTypeTrack, "audio")
	stat(SenderVideoTrackAttachmentStats{}, StatsTypeTrack, "video")
	stat(AudioSenderStats{}, StatsTypeSender, "audio")
	stat(VideoSenderStats{}, StatsTypeSender, "video")
	stat(AudioReceiverStats{}, StatsTypeReceiver, "audio")
	stat(VideoReceiverStats{}, StatsTypeReceiver, "video")
	stat(TransportStats{}, StatsTypeTransport, "")
	stat(ICECandidatePairStats{}, StatsTypeCandidatePair, "")
	stat(ICECandidateStats{}, StatsTypeLocalCandidate, "")
	stat(ICECandidateStats{}, StatsTypeRemoteCandidate, "")
	stat(CertificateStats{}, StatsTypeCertificate, "")
	stat(SCTPTransportStats{}, StatsTypeSCTPTransport, "")

	return out
}

// c38Cause shrinks a failing value towards a passing reference value of the same
// type: the leaves that must keep their failing value name the input class.
func (g *c38Gen) cause(st *c38Struct, v reflect.Value, sig string) string {
	best := "every-value"
	bestN := -1
	for bi := range st.bases {
		if st.valid != nil && !st.valid(st.bases[bi].v) {
			continue
		}
		if g.roundTrip(st, st.bases[bi].v).sig() != "ok" {
			continue
		}
		keep := g.causeTowards(st, v, sig, st.bases[bi].v)
		if len(keep) > 0 && (bestN < 0 || len(keep) < bestN) {
			best, bestN = strings.Join(keep, ","), len(keep)
		}
	}

	return best
}

func (g *c38Gen) causeTowards(st *c38Struct, v reflect.Value, sig string, ref reflect.Value) []string {
	cur := reflect.New(st.typ).Elem()
	cur.Set(v)
	var keep []string
	for _, l := range st.leaves {
		f := cur.FieldByIndex(l.path)
		rf := ref.FieldByIndex(l.path)
		if c38Same(f, rf) {
			continue
		}
		saved := reflect.New(f.Type()).Elem()
		saved.Set(f)
		f.Set(rf)
		if (st.valid == nil || st.valid(cur)) && g.roundTrip(st, cur).sig() == sig {
			continue // not needed for the failure
		}
		f.Set(saved)
		class := "?"
		for _, lv := range l.vals {
			if c38Same(saved, lv.v) {
				class = lv.class

				break
			}
		}
		keep = append(keep, l.name+"="+class)
	}

	return keep
}

// ---------------------------------------------------------------- certificates

type c38CertCase struct {
	Key      string
	Template string
}

func c38MakeKey(kind string) (crypto.PrivateKey, error) {
	switch kind {
	case "ecdsa-p256":
		return ecdsa.GenerateKey(elliptic.P256(), rand.Reader)
	case "ecdsa-p384":
		return ecdsa.GenerateKey(elliptic.P384(), rand.Reader)
	case "ecdsa-p521":
		return ecdsa.GenerateKey(elliptic.P521(), rand.Reader)
	case "rsa-2048":
		return rsa.GenerateKey(rand.Reader, 2048)
	case "rsa-3072":
		return rsa.GenerateKey(rand.Reader, 3072)
	default:
		return nil, fmt.Errorf("unknown key kind %s", kind) //nolint:err113
	}
}

func c38MakeCert(key crypto.PrivateKey, tpl string) (*Certificate, error) {
	base := x509.Certificate{
		SerialNumber: big.NewInt(1),
		Version:      2,
		Subject:      pkix.Name{CommonName: "verif"},
		Issuer:       pkix.Name{CommonName: "verif"},
		NotBefore:    time.Date(2020, 1, 2, 3, 4, 5, 0, time.UTC),
		NotAfter:     time.Date(2030, 1, 2, 3, 4, 5, 0, time.UTC),
	}
	switch tpl {
	case "generated":
		return GenerateCertificate(key)
	case "fixed-2030":
	case "expired-2001":
		base.NotBefore = time.Date(2000, 1, 1, 0, 0, 0, 0, time.UTC)
		base.NotAfter = time.Date(2001, 1, 1, 0, 0, 0, 0, time.UTC)
	case "far-2150": // beyond UTCTime: GeneralizedTime in DER
		base.NotAfter = time.Date(2150, 12, 31, 23, 59, 59, 0, time.UTC)
	case "big-serial-san":
		base.SerialNumber = new(big.Int).Lsh(big.NewInt(1), 150)
		base.DNSNames = []string{"a.example", "xn--9ca.example"}
		base.Subject = pkix.Name{CommonName: "é\"\\", Organization: []string{"o"}}
	case "from-x509":
		c, err := NewCertificate(key, base)
		if err != nil {
			return nil, err
		}
		c2 := CertificateFromX509(c.privateKey, c.x509Cert)

		return &c2, nil
	default:
		return nil, fmt.Errorf("unknown template %s", tpl) //nolint:err113
	}

	return NewCertificate(key, base)
}

func c38PrivEqual(a, b crypto.PrivateKey) bool {
	type eq interface {
		Equal(x crypto.PrivateKey) bool
	}
	if ae, ok := a.(eq); ok {
		return ae.Equal(b)
	}

	return false
}

func c38CheckCert(tb testing.TB, c *vkit.Check, cc c38CertCase, key crypto.PrivateKey) {
	tb.Helper()
	c.Eval()
	class := fmt.Sprintf("pem|key=%s|tpl=%s", cc.Key, cc.Template)
	orig, err := c38MakeCert(key, cc.Template)
	if err != nil {
		vkit.Fatalf(tb, "cannot create certificate %s: %v", class, err)
	}
	c.Guard(class, cc, func() {
		pems, err := orig.PEM()
		if err != nil {
			c.Violation(class+"|encode-error", fmt.Sprintf("PEM() of a %s/%s certificate failed: %v", cc.Key, cc.Template, err), cc)

			return
		}
		back, err := CertificateFromPEM(pems)
		if err != nil {
			c.Violation(class+"|decode-error", fmt.Sprintf("CertificateFromPEM(PEM()) of a %s/%s certificate failed: %v", cc.Key, cc.Template, err), cc)
			c.Outcome("pem-decode-error")

			return
		}
		bad := []string{}
		if !orig.Equals(*back) || !back.Equals(*orig) {
			bad = append(bad, "Equals")
		}
		fo, e1 := orig.GetFingerprints()
		fb, e2 := back.GetFingerprints()
		if e1 != nil || e2 != nil || !reflect.DeepEqual(fo, fb) || len(fo) == 0 {
			bad = append(bad, "fingerprint")
		}
		// own fingerprint and key comparison (independent of Equals/GetFingerprints)
		ho, hb := sha256.Sum256(orig.x509Cert.Raw), sha256.Sum256(back.x509Cert.Raw)
		if ho != hb {
			bad = append(bad, "der-sha256")
		} else if len(fo) > 0 && strings.ReplaceAll(strings.ToLower(fo[0].Value), ":", "") != hex.EncodeToString(ho[:]) {
			bad = append(bad, "fingerprint-value")
		}
		if !c38PrivEqual(orig.privateKey, back.privateKey) {
			bad = append(bad, "private-key")
		}
		if !orig.Expires().Equal(back.Expires()) || orig.Expires().IsZero() {
			bad = append(bad, "expiry")
		}
		if len(bad) > 0 {
			c.Violation(class+"|differs="+strings.Join(bad, "+"),
				fmt.Sprintf("certificate %s/%s re-imported from PEM() differs in %v", cc.Key, cc.Template, bad), cc)
			c.Outcome("pem-mismatch")

			return
		}
		c.Outcome("pem-equal")
		c.Distinct(class)
	})
}

// ---------------------------------------------------------------- the check

type c38Case struct {
	Part     string   `json:"part"`
	Type     string   `json:"type"`
	Base     int      `json:"base"`
	Devs     []c38Dev `json:"devs"`
	Describe string   `json:"describe,omitempty"`
	Value    string   `json:"go_value,omitempty"`
	Encoded  string   `json:"encoded,omitempty"`
}

func TestVerifC38(t *testing.T) { //nolint:cyclop,gocyclo,maintidx
	c := vkit.New("C38", "exploration")
	defer c.Finish(t)
	bound := c.Pick(1, 2)
	c.Rule("by reflection over each covered struct type: bases {zero (Stats type/kind tag set), populated (+ oauth-populated ICEServer)} and every deviation of <= bound leaf fields from each base, leaf domains: strings {\"\", a, unusual, 300 bytes}, integers {0,1,max(,min)}, floats {0,1,0.1,-2.5,1e21,max,denormal}, bools, slices/maps {nil, empty, 1, 3 entries}, pointers {nil, &zero, &populated, &each single deviation}, every declared value of enum fields; every declared value of each covered enum through json / json-member / text / String+constructor; certificates over key kinds x templates through PEM()/CertificateFromPEM. distinct = (type, base, deviating leaf) that round-tripped, (enum, encoding), (key kind, template)")
	c.Set("deviation_bound", bound)
	c.Assume("the declared Unknown zero of SDPType and ICECandidateType is a not-a-value sentinel: the repository's own tests pin that its encoding is rejected by the decoder; for values containing it a decode error is accepted, a successful decode must still be equal")
	c.Assume("strings are valid UTF-8 and floats are finite (JSON cannot carry anything else); a credential is a string for the password type and an OAuthCredential for the oauth type")

	enums := c38Enums()
	g := &c38Gen{enums: map[reflect.Type]c38Enum{}}
	for _, e := range enums {
		g.enums[e.typ] = e
	}
	types := g.structTypes()
	var replay *c38Case
	if raw, ok := c.ReplayCase(); ok {
		replay = &c38Case{}
		if err := json.Unmarshal(raw, replay); err != nil {
			vkit.Fatalf(t, "replay case: %v", err)
		}
	}

	// ---- part 1: enums
	if replay == nil || replay.Part == "enum" {
		for _, e := range enums {
			for i := 0; i < e.n; i++ {
				for _, r := range e.run(i) {
					c.Eval()
					rc := c38Case{Part: "enum", Type: e.name, Base: i, Encoded: r.text}
					class := fmt.Sprintf("enum=%s|enc=%s|value=%d", e.name, r.enc, i)
					switch {
					case r.encErr != nil:
						c.Violation(class+"|encode-error", fmt.Sprintf("%s(%d) cannot be encoded as %s: %v", e.name, i, r.enc, r.encErr), rc)
					case r.decErr != nil && e.rejectsUnknown && i == 0:
						c.Outcome("enum-sentinel-rejected")
					case r.decErr != nil:
						c.Violation(class+"|decode-error", fmt.Sprintf("%s(%d) encodes (%s) as %q, which its decoder rejects: %v", e.name, i, r.enc, r.text, r.decErr), rc)
						c.Outcome("enum-decode-error")
					case !r.same:
						c.Violation(class+"|mismatch", fmt.Sprintf("%s(%d) encodes (%s) as %q, which decodes to %s", e.name, i, r.enc, r.text, r.decoded), rc)
						c.Outcome("enum-mismatch")
					default:
						c.Outcome("enum-equal")
						c.Distinct(fmt.Sprintf("enum=%s|enc=%s", e.name, r.enc))
					}
				}
			}
		}
		c.Set("enums", len(enums))
	}

	// ---- part 2: struct types
	type job struct {
		st   *c38Struct
		base int
		devs []c38Dev
	}
	var jobs []job
	perType := map[string]int{}
	for _, st := range types {
		if replay != nil {
			if replay.Part == "struct" && replay.Type == st.name {
				jobs = append(jobs, job{st, replay.Base, replay.Devs})
			}

			continue
		}
		for bi, b := range st.bases {
			jobs = append(jobs, job{st, bi, nil})
			for li, l := range st.leaves {
				for vi := range l.vals {
					if vi == b.at[li] {
						continue
					}
					jobs = append(jobs, job{st, bi, []c38Dev{{li, vi}}})
				}
			}
		}
		if bound >= 2 {
			for bi, b := range st.bases {
				for l1 := range st.leaves {
					for l2 := l1 + 1; l2 < len(st.leaves); l2++ {
						for v1 := range st.leaves[l1].vals {
							if v1 == b.at[l1] {
								continue
							}
							for v2 := range st.leaves[l2].vals {
								if v2 == b.at[l2] {
									continue
								}
								jobs = append(jobs, job{st, bi, []c38Dev{{l1, v1}, {l2, v2}}})
							}
						}
					}
				}
			}
		}
	}
	// which single deviations already fail (a pair is only reported under its own
	// key when neither of its members fails alone)
	results := make([]c38Result, len(jobs))
	skipped := make([]bool, len(jobs))
	vkit.Parallel(len(jobs), func(i int) {
		j := jobs[i]
		v := j.st.build(j.base, j.devs)
		if j.st.valid != nil && !j.st.valid(v) {
			skipped[i] = true

			return
		}
		c.Eval()
		c.Guard(j.st.name+"|"+j.st.describe(j.base, j.devs), c38Case{Part: "struct", Type: j.st.name, Base: j.base, Devs: j.devs}, func() {
			results[i] = g.roundTrip(j.st, v)
		})
	})
	nskip := 0
	for i, j := range jobs { // sequential, in enumeration order: deterministic reporting
		if skipped[i] {
			nskip++

			continue
		}
		perType[j.st.name]++
		r := results[i]
		v := j.st.build(j.base, j.devs)
		desc := j.st.describe(j.base, j.devs)
		if i%997 == 0 {
			c.Sample(map[string]any{"type": j.st.name, "case": desc, "encoded": vkit.Short(json.RawMessage(r.enc))})
		}
		if r.stage == "" {
			c.Outcome("struct-equal")
			key := j.st.name + "|" + j.st.bases[j.base].name
			for _, d := range j.devs {
				c.Distinct(key + "|" + j.st.leaves[d.Leaf].name)
			}
			if len(j.devs) == 0 {
				c.Distinct(key)
			}

			continue
		}
		if r.stage == "decode-error" && g.sentinel(v) {
			c.Outcome("struct-sentinel-rejected")

			continue
		}
		c.Outcome("struct-" + r.stage)
		cause := g.cause(j.st, v, r.sig())
		key := fmt.Sprintf("type=%s|%s|input=%s", j.st.name, r.sig(), cause)
		what := fmt.Sprintf("%s value {%s} encodes as %s; decoding it: %s %s", j.st.name, desc, vkit.Short(json.RawMessage(r.enc)), r.stage, r.msg)
		c.Violation(key, what, c38Case{
			Part: "struct", Type: j.st.name, Base: j.base, Devs: j.devs, Describe: desc,
			Value: fmt.Sprintf("%#v", v.Interface()), Encoded: r.enc,
		})
	}
	c.Set("struct_types", len(types))
	c.Set("struct_cases_per_type", perType)
	c.Set("struct_cases_skipped_invalid_combination", nskip)

	// ---- part 3: certificates
	if replay == nil || replay.Part == "cert" {
		keys := []string{"ecdsa-p256", "rsa-2048"}
		tpls := []string{"generated", "fixed-2030", "from-x509"}
		if !c.Quick() {
			keys = []string{"ecdsa-p256", "ecdsa-p384", "ecdsa-p521", "rsa-2048", "rsa-3072"}
			tpls = []string{"generated", "fixed-2030", "expired-2001", "far-2150", "big-serial-san", "from-x509"}
		}
		c.Set("certificate_key_kinds", keys)
		c.Set("certificate_templates", tpls)
		made := make([]crypto.PrivateKey, len(keys))
		vkit.Parallel(len(keys), func(i int) {
			made[i], _ = c38MakeKey(keys[i])
		})
		for i, k := range made {
			if k == nil {
				vkit.Fatalf(t, "cannot generate a %s key", keys[i])
			}
		}
		for ki, k := range keys {
			for _, tp := range tpls {
				c38CheckCert(t, c, c38CertCase{k, tp}, made[ki])
			}
		}
	}
}
