package webrtc

// C14 — DTLS authenticates the peer against the signaled fingerprint.
//
// Seam part (no network, exhaustive): the real DTLSTransport.validateFingerPrint and the
// real verify callback (verifyPeerCertificateFunc) are called with certificates {ECDSA
// generated, RSA user-supplied, both re-imported from PEM} x remote fingerprint lists
// {correct lower/upper case; every one of the 64 hex digits replaced by each of the 15 other
// values; hash-name variants with a correct and with an altered value; truncated / extended
// values; another certificate's fingerprint; empty list; multi-entry lists}; the real
// extractFingerprint is called on every placement of {no, first, second} fingerprint at
// session level x bundle-master section x other section x {BUNDLE group, none}; generated
// offers and answers are scanned for the advertised fingerprint.
// Pair part (end to end over loopback, pair engine): the description applied on the victim
// is edited in transit; the victim's DTLS transport state events are the observation.
//
// Reference side (independent of pion): crypto/sha256 etc. over the certificate DER, own
// colon-hex formatting, own line scan of the SDP text.

import (
	"bytes"
	"crypto/ecdsa"
	"crypto/elliptic"
	"crypto/md5" //nolint:gosec
	"crypto/rand"
	"crypto/rsa"
	"crypto/sha1" //nolint:gosec
	"crypto/sha256"
	"crypto/sha512"
	"crypto/x509"
	"crypto/x509/pkix"
	"encoding/json"
	"fmt"
	"math/big"
	"sort"
	"strings"
	"sync"
	"sync/atomic"
	"testing"
	"time"

	"github.com/pion/rtp"
	"github.com/pion/webrtc/v4/internal/verif/vkit"
)

var (
	c14OutMu  sync.Mutex
	c14OutSet = map[string]bool{}
)

// c14Outcome records an observed outcome (also listed in the evidence).
func c14Outcome(c *vkit.Check, k string) {
	c14OutMu.Lock()
	c14OutSet[k] = true
	c14OutMu.Unlock()
	c.Outcome(k)
}

func c14OutcomeList() []string {
	c14OutMu.Lock()
	defer c14OutMu.Unlock()
	out := make([]string, 0, len(c14OutSet))
	for k := range c14OutSet {
		out = append(out, k)
	}
	sort.Strings(out)

	return out
}

// ---------- independent reference ----------

func c14Digest(alg string, der []byte) ([]byte, bool) {
	switch strings.ToLower(alg) {
	case "md5":
		s := md5.Sum(der) //nolint:gosec

		return s[:], true
	case "sha-1":
		s := sha1.Sum(der) //nolint:gosec

		return s[:], true
	case "sha-224":
		s := sha256.Sum224(der)

		return s[:], true
	case "sha-256":
		s := sha256.Sum256(der)

		return s[:], true
	case "sha-384":
		s := sha512.Sum384(der)

		return s[:], true
	case "sha-512":
		s := sha512.Sum512(der)

		return s[:], true
	default:
		return nil, false
	}
}

const c14HexDigits = "0123456789abcdef"

func c14ColonHex(sum []byte) string {
	var b strings.Builder
	for i, v := range sum {
		if i > 0 {
			b.WriteByte(':')
		}
		b.WriteByte(c14HexDigits[v>>4])
		b.WriteByte(c14HexDigits[v&15])
	}

	return b.String()
}

// c14Matches: does the certificate match any fingerprint of the list? (hash names and hex
// digits compared without regard to case, as RFC 8122 writes upper-case hex)
func c14Matches(fps []DTLSFingerprint, der []byte) bool {
	for _, fp := range fps {
		if sum, ok := c14Digest(fp.Algorithm, der); ok && strings.EqualFold(c14ColonHex(sum), fp.Value) {
			return true
		}
	}

	return false
}

// c14AlterDigit replaces hex digit number pos (0..63, colons not counted) of a colon-hex value.
func c14AlterDigit(value string, pos int, to byte) string {
	b := []byte(value)
	idx := pos + pos/2 // one colon after every two digits
	b[idx] = to

	return string(b)
}

func c14DigitAt(value string, pos int) byte { return value[pos+pos/2] }

func c14HexVal(ch byte) int { return strings.IndexByte(c14HexDigits, strings.ToLower(string(ch))[0]) }

// ---------- certificates ----------

type c14Cert struct {
	Kind string
	Cert Certificate
}

var (
	c14CertOnce sync.Once
	c14CertList []c14Cert
)

func c14Certs() []c14Cert {
	c14CertOnce.Do(func() {
		ek, err := ecdsa.GenerateKey(elliptic.P256(), rand.Reader)
		if err != nil {
			vPairFatalf("ecdsa key: %v", err)
		}
		ec, err := GenerateCertificate(ek)
		if err != nil {
			vPairFatalf("GenerateCertificate: %v", err)
		}
		// user-supplied: key and X.509 certificate made outside pion, wrapped by CertificateFromX509
		rk, err := rsa.GenerateKey(rand.Reader, 2048)
		if err != nil {
			vPairFatalf("rsa key: %v", err)
		}
		tpl := x509.Certificate{
			SerialNumber: big.NewInt(0x14c14), Subject: pkix.Name{CommonName: "verif-c14-user-supplied"},
			NotBefore: time.Now().Add(-time.Hour), NotAfter: time.Now().Add(48 * time.Hour),
			KeyUsage: x509.KeyUsageDigitalSignature | x509.KeyUsageKeyEncipherment, SignatureAlgorithm: x509.SHA256WithRSA,
		}
		der, err := x509.CreateCertificate(rand.Reader, &tpl, &tpl, rk.Public(), rk)
		if err != nil {
			vPairFatalf("x509.CreateCertificate: %v", err)
		}
		parsed, err := x509.ParseCertificate(der)
		if err != nil {
			vPairFatalf("x509.ParseCertificate: %v", err)
		}
		rc := CertificateFromX509(rk, parsed)
		reimport := func(c Certificate) Certificate {
			pemText, perr := c.PEM()
			if perr != nil {
				vPairFatalf("Certificate.PEM: %v", perr)
			}
			back, perr := CertificateFromPEM(pemText)
			if perr != nil {
				vPairFatalf("CertificateFromPEM: %v", perr)
			}

			return *back
		}
		c14CertList = []c14Cert{
			{"ecdsa-generated", *ec},
			{"rsa-user-supplied", rc},
			{"ecdsa-pem-reimported", reimport(*ec)},
			{"rsa-pem-reimported", reimport(rc)},
		}
	})

	return c14CertList
}

// ---------- seam: validateFingerPrint / verify callback ----------

type c14FPCase struct {
	Class string            `json:"class"` // class of the variant (violation key)
	Desc  string            `json:"desc"`
	List  []DTLSFingerprint `json:"list"`
}

func c14One(alg, val string) []DTLSFingerprint {
	return []DTLSFingerprint{{Algorithm: alg, Value: val}}
}

func c14FPCases(der, otherDER []byte, full bool) []c14FPCase {
	sum, _ := c14Digest("sha-256", der)
	good := c14ColonHex(sum)
	osum, _ := c14Digest("sha-256", otherDER)
	other := c14ColonHex(osum)
	var out []c14FPCase
	add := func(class, desc string, l []DTLSFingerprint) {
		out = append(out, c14FPCase{Class: class, Desc: desc, List: l})
	}
	add("correct", "sha-256 lower-case", c14One("sha-256", good))
	add("correct-upper", "sha-256 upper-case", c14One("sha-256", strings.ToUpper(good)))
	for pos := 0; pos < 64; pos++ {
		orig := c14DigitAt(good, pos)
		for d := 0; d < 16; d++ {
			if c14HexDigits[d] == orig {
				continue
			}
			alt := c14AlterDigit(good, pos, c14HexDigits[d])
			add(fmt.Sprintf("digit-altered|quarter=%d", pos/16), fmt.Sprintf("digit %d: %c -> %c", pos, orig, c14HexDigits[d]), c14One("sha-256", alt))
			if full {
				add(fmt.Sprintf("digit-altered-upper|quarter=%d", pos/16), fmt.Sprintf("digit %d: %c -> %c, upper-case", pos, orig, c14HexDigits[d]), c14One("sha-256", strings.ToUpper(alt)))
			}
		}
	}
	bad := c14AlterDigit(good, 40, c14HexDigits[(c14HexVal(c14DigitAt(good, 40))+1)%16])
	for _, name := range []string{"sha-256", "SHA-256", "Sha-256", "sha-1", "sha-384", "sha-512", "md5", "sha256", "", "sha-256 ", "unknown-hash"} {
		cls := "hash-name=unknown"
		if _, known := c14Digest(name, nil); known {
			cls = "hash-name=other-known-hash"
			if strings.EqualFold(name, "sha-256") {
				cls = "hash-name=sha-256-case-variant"
			}
		}
		add(cls+"|value=sha256-correct", fmt.Sprintf("hash name %q with the correct sha-256 value", name), c14One(name, good))
		add(cls+"|value=sha256-altered", fmt.Sprintf("hash name %q with an altered sha-256 value", name), c14One(name, bad))
	}
	for _, name := range []string{"md5", "sha-1", "sha-224", "sha-384", "sha-512"} {
		s, _ := c14Digest(name, der)
		add("hash-name=other-known-hash|value=own-correct", name+" with the correct "+name+" value", c14One(name, c14ColonHex(s)))
		s[len(s)-1] ^= 1
		add("hash-name=other-known-hash|value=own-altered", name+" with its last bit flipped", c14One(name, c14ColonHex(s)))
	}
	add("empty-list", "no fingerprint at all", nil)
	add("empty-value", "sha-256 with an empty value", c14One("sha-256", ""))
	add("truncated|bytes=16", "first 16 bytes of the correct value", c14One("sha-256", good[:16*3-1]))
	add("truncated|bytes=31", "first 31 bytes of the correct value", c14One("sha-256", good[:31*3-1]))
	add("extended", "correct value followed by :00", c14One("sha-256", good+":00"))
	add("other-certificate", "correct fingerprint of another certificate", c14One("sha-256", other))
	add("list|wrong,correct", "two entries, second correct", []DTLSFingerprint{{"sha-256", bad}, {"sha-256", good}})
	add("list|correct,wrong", "two entries, first correct", []DTLSFingerprint{{"sha-256", good}, {"sha-256", bad}})
	add("list|wrong,wrong", "two wrong entries", []DTLSFingerprint{{"sha-256", bad}, {"sha-256", other}})
	add("list|wrong,wrong,wrong", "three wrong entries", []DTLSFingerprint{{"sha-256", bad}, {"sha-1", good}, {"sha-256", other}})
	add("list|unknown-name,wrong", "unknown hash name then a wrong entry", []DTLSFingerprint{{"unknown-hash", good}, {"sha-256", bad}})
	add("list|wrong,unknown-name", "a wrong entry then an unknown hash name with the correct value", []DTLSFingerprint{{"sha-256", bad}, {"unknown-hash", good}})
	add("list|unknown-name,correct", "unknown hash name then the correct entry", []DTLSFingerprint{{"unknown-hash", good}, {"sha-256", good}})

	return out
}

func c14SeamValidate(t *testing.T, c *vkit.Check) {
	certs := c14Certs()
	apiOn := vNewAPI(t, vAPIOpts{})
	apiOff := vNewAPI(t, vAPIOpts{setting: func(s *SettingEngine) { s.DisableCertificateFingerprintVerification(true) }})
	accepted := 0
	for ci, remote := range certs {
		der := remote.Cert.x509Cert.Raw
		// a really different certificate (the PEM re-imports share the DER of their originals)
		otherDER := certs[1].Cert.x509Cert.Raw
		if ci%2 == 1 {
			otherDER = certs[0].Cert.x509Cert.Raw
		}
		on, err := apiOn.NewDTLSTransport(nil, []Certificate{vSharedCert()})
		if err != nil {
			vkit.Fatalf(t, "NewDTLSTransport: %v", err)
		}
		off, err := apiOff.NewDTLSTransport(nil, []Certificate{vSharedCert()})
		if err != nil {
			vkit.Fatalf(t, "NewDTLSTransport: %v", err)
		}
		verifyOn, verifyOff := on.verifyPeerCertificateFunc(), off.verifyPeerCertificateFunc()
		for _, fc := range c14FPCases(der, otherDER, !c.Quick()) {
			match := c14Matches(fc.List, der)
			on.lock.Lock()
			on.remoteParameters = DTLSParameters{Fingerprints: fc.List}
			on.lock.Unlock()
			off.lock.Lock()
			off.remoteParameters = DTLSParameters{Fingerprints: fc.List}
			off.lock.Unlock()
			rep := map[string]any{"part": "seam-validate", "cert": remote.Kind, "fingerprints": fc, "reference_match": match}
			c.Guard("seam-validate", rep, func() {
				results := map[string]error{
					"validateFingerPrint": on.validateFingerPrint(remote.Cert.x509Cert),
					"verify-callback":     verifyOn([][]byte{der}, nil),
				}
				c.EvalN(3)
				for fn, rerr := range results {
					switch {
					case !match && rerr == nil:
						c.Violation(fmt.Sprintf("seam|mismatch-accepted|%s|fn=%s", fc.Class, fn),
							fmt.Sprintf("%s accepted a %s certificate although it matches none of the remote fingerprints (%s: %s)", fn, remote.Kind, fc.Class, fc.Desc), rep)
					case !match:
						c14Outcome(c, "rejected|"+fc.Class)
					case rerr == nil:
						accepted++
						c14Outcome(c, "accepted|"+fc.Class)
					default:
						// the certificate matches a listed fingerprint but is refused: over-strict, not
						// what the statement forbids - recorded only
						c14Outcome(c, "matching-but-rejected|"+fc.Class)
					}
				}
				if !match {
					c.Distinct(fmt.Sprintf("seam|reject|%s|cert=%s", fc.Class, remote.Kind))
				}
				// a Certificate message with two certificates: the peer proves possession of the FIRST one
				// only, so that one decides (an impostor can append anybody's public certificate)
				for _, chain := range []struct {
					name  string
					certs [][]byte
				}{{"peer-then-other", [][]byte{der, otherDER}}, {"other-then-peer", [][]byte{otherDER, der}}} {
					first := c14Matches(fc.List, chain.certs[0])
					cerr := verifyOn(chain.certs, nil)
					c.Eval()
					switch {
					case !first && cerr == nil:
						c.Violation(fmt.Sprintf("seam|mismatch-accepted|chain=%s|%s|fn=verify-callback", chain.name, fc.Class),
							fmt.Sprintf("the verify callback accepted a two-certificate chain (%s) whose first certificate - the one the peer proves possession of - matches none of the remote fingerprints (%s: %s)", chain.name, fc.Class, fc.Desc), rep)
					case !first:
						c14Outcome(c, "rejected|chain="+chain.name)
					case cerr == nil:
						c14Outcome(c, "accepted|chain="+chain.name)
					default:
						c14Outcome(c, "matching-but-rejected|chain="+chain.name)
					}
				}
				// verification explicitly disabled: the statement makes no demand; recorded
				if verifyOff([][]byte{der}, nil) == nil {
					c14Outcome(c, "verification-disabled|accepted")
				} else {
					c14Outcome(c, "verification-disabled|rejected")
				}
			})
		}
		// no certificate at all
		c.Guard("seam-validate-nocert", nil, func() {
			if verifyOn(nil, nil) == nil {
				c.Violation("seam|no-certificate-accepted", "the verify callback accepted a handshake without a peer certificate", map[string]any{"part": "seam-validate"})
			}
			c.Eval()
		})
	}
	if accepted == 0 {
		vkit.Fatalf(t, "vacuous: the seam never accepted a certificate, not even with its correct fingerprint")
	}
}

// ---------- seam: extractFingerprint ----------

func c14SDPFingerprints(text string) (all []string, session []string) {
	inMedia := false
	for _, l := range vPairSDPLines(text) {
		if strings.HasPrefix(l, "m=") {
			inMedia = true
		}
		if strings.HasPrefix(l, "a=fingerprint:") {
			v := strings.TrimPrefix(l, "a=fingerprint:")
			all = append(all, v)
			if !inMedia {
				session = append(session, v)
			}
		}
	}

	return all, session
}

// c14PlaceFingerprints removes every a=fingerprint line and writes the given ones:
// session level, into media section number i (sec[i] != ""), "" = none.
func c14PlaceFingerprints(text, session string, sec map[int]string, allSections string, dropBundle bool) string {
	var out []string
	idx := -1
	for _, l := range vPairSDPLines(text) {
		if strings.HasPrefix(l, "a=fingerprint:") {
			continue
		}
		if dropBundle && strings.HasPrefix(l, "a=group:BUNDLE") {
			continue
		}
		if strings.HasPrefix(l, "m=") {
			if idx == -1 && session != "" {
				out = append(out, "a=fingerprint:"+session)
			}
			idx++
		}
		out = append(out, l)
		if strings.HasPrefix(l, "c=") && idx >= 0 {
			if v := sec[idx]; v != "" {
				out = append(out, "a=fingerprint:"+v)
			} else if allSections != "" {
				out = append(out, "a=fingerprint:"+allSections)
			}
		}
	}

	return vPairSDPJoin(out)
}

func c14SeamExtract(t *testing.T, c *vkit.Check) {
	api := vNewAPI(t, vAPIOpts{})
	pc := vNewPC(t, api, nil)
	defer func() { _ = pc.Close() }()
	for _, k := range []RTPCodecType{RTPCodecTypeAudio, RTPCodecTypeVideo} {
		if _, err := pc.AddTransceiverFromKind(k); err != nil {
			vkit.Fatalf(t, "AddTransceiverFromKind: %v", err)
		}
	}
	if _, err := pc.CreateDataChannel("x", nil); err != nil {
		vkit.Fatalf(t, "CreateDataChannel: %v", err)
	}
	offer, err := pc.CreateOffer(nil)
	if err != nil {
		vkit.Fatalf(t, "CreateOffer: %v", err)
	}
	f1 := "sha-256 " + strings.ToUpper(c14ColonHex(make([]byte, 32)))
	f2 := "sha-256 11" + f1[len("sha-256 00"):]
	choices := []string{"", f1, f2}
	names := []string{"none", "first", "second"}
	n := 0
	for _, dropBundle := range []bool{false, true} {
		for si, sess := range choices {
			for mi, master := range choices {
				for oi, othr := range choices {
					text := c14PlaceFingerprints(offer.SDP, sess, map[int]string{0: master, 1: othr}, "", dropBundle)
					d := SessionDescription{Type: SDPTypeOffer, SDP: text}
					parsed, perr := d.Unmarshal()
					if perr != nil {
						vkit.Fatalf(t, "edited SDP does not parse: %v", perr)
					}
					all, _ := c14SDPFingerprints(text)
					cls := fmt.Sprintf("bundle=%v|session=%s|master-section=%s|other-section=%s", !dropBundle, names[si], names[mi], names[oi])
					rep := map[string]any{"part": "seam-extract", "placement": cls, "sdp": text}
					c.Guard("seam-extract", rep, func() {
						val, alg, xerr := extractFingerprint(parsed)
						c.Eval()
						n++
						switch {
						case xerr != nil:
							c14Outcome(c, "extract|error")
						case len(all) == 0:
							c.Violation("extract|fingerprint-from-nowhere|"+cls, fmt.Sprintf("extractFingerprint returned %q %q for a description without any a=fingerprint line", alg, val), rep)
						default:
							found := false
							for _, a := range all {
								found = found || a == alg+" "+val
							}
							if !found {
								c.Violation("extract|fingerprint-not-in-description|"+cls, fmt.Sprintf("extractFingerprint returned %q %q; the description lists %v", alg, val, all), rep)
							}
							c14Outcome(c, "extract|returned-listed-fingerprint")
							c.Distinct("extract|" + cls)
						}
					})
				}
			}
		}
	}
	// malformed values: either refused or returned exactly as written
	for _, v := range []string{"sha-256", "sha-256  " + f1[len("sha-256 "):], "sha-256 " + f1[len("sha-256 "):] + " trailing", " "} {
		text := c14PlaceFingerprints(offer.SDP, v, nil, "", false)
		d := SessionDescription{Type: SDPTypeOffer, SDP: text}
		parsed, perr := d.Unmarshal()
		if perr != nil {
			c14Outcome(c, "extract|malformed-sdp-refused-by-parser")

			continue
		}
		rep := map[string]any{"part": "seam-extract", "placement": "malformed-session-value", "value": v}
		c.Guard("seam-extract-malformed", rep, func() {
			val, alg, xerr := extractFingerprint(parsed)
			c.Eval()
			if xerr == nil && alg+" "+val != v {
				c.Violation("extract|malformed-value-reshaped", fmt.Sprintf("a=fingerprint:%q was returned as algorithm %q value %q", v, alg, val), rep)
			}
			c14Outcome(c, fmt.Sprintf("extract|malformed|error=%v", xerr != nil))
		})
	}
	c.Set("extract_placements", n)
}

// ---------- seam: advertised = presented ----------

func c14SeamAdvertise(t *testing.T, c *vkit.Check) {
	certs := c14Certs()
	type cfg struct {
		name  string
		certs []Certificate
	}
	cfgs := []cfg{}
	for _, ct := range certs {
		cfgs = append(cfgs, cfg{ct.Kind, []Certificate{ct.Cert}})
	}
	cfgs = append(cfgs,
		cfg{"two-certificates|rsa,ecdsa", []Certificate{certs[1].Cert, certs[0].Cert}},
		cfg{"two-certificates|ecdsa,rsa", []Certificate{certs[0].Cert, certs[1].Cert}},
		cfg{"auto-generated", nil})
	// reconfig: before the description is generated the application calls SetConfiguration with another
	// certificate list (a certificate renewed over the SAME private key / one over another key). Whatever that
	// call answers, the description has to advertise what the transport will present.
	type recfg struct {
		name string
		make func(cur []Certificate) []Certificate
	}
	reconfigs := []recfg{
		{"", nil},
		{"renewed-same-key", func(cur []Certificate) []Certificate {
			if len(cur) != 1 {
				return nil
			}
			r, err := GenerateCertificate(cur[0].privateKey)
			if err != nil {
				return nil
			}

			return []Certificate{*r}
		}},
		{"permuted", func(cur []Certificate) []Certificate {
			// the same certificates in another order (the DTLS transport presents the first of ITS list)
			if len(cur) < 2 {
				return nil
			}
			out := append([]Certificate{}, cur[1:]...)

			return append(out, cur[0])
		}},
		{"other-key", func(cur []Certificate) []Certificate {
			if len(cur) != 1 {
				return nil
			}

			return []Certificate{certs[(1)].Cert}
		}},
	}
	for _, cf := range cfgs {
		for _, mediaLevel := range []bool{false, true} {
			for _, rolePlus := range []string{"offer", "answer", "offer|renewed-same-key", "offer|other-key", "answer|renewed-same-key", "offer|permuted", "answer|permuted"} {
				role, rcName, _ := strings.Cut(rolePlus, "|")
				var rc recfg
				for _, x := range reconfigs {
					if x.name == rcName {
						rc = x
					}
				}
				if rc.make != nil && rc.make(cf.certs) == nil {
					continue
				}
				api := vNewAPI(t, vAPIOpts{setting: func(s *SettingEngine) { s.SetSDPMediaLevelFingerprints(mediaLevel) }})
				var pc *PeerConnection
				if cf.certs == nil {
					var err error
					if pc, err = api.NewPeerConnection(Configuration{}); err != nil {
						vkit.Fatalf(t, "NewPeerConnection: %v", err)
					}
				} else {
					pc = vNewPC(t, api, &Configuration{Certificates: cf.certs})
				}
				reconfigured := "n/a"
				if rc.make != nil {
					if nc := rc.make(cf.certs); nc != nil {
						if err := pc.SetConfiguration(Configuration{Certificates: nc}); err == nil {
							reconfigured = "accepted"
						} else {
							reconfigured = "refused"
						}
					}
				}
				var text string
				if role == "offer" {
					if _, err := pc.AddTransceiverFromKind(RTPCodecTypeVideo); err != nil {
						vkit.Fatalf(t, "AddTransceiverFromKind: %v", err)
					}
					if _, err := pc.CreateDataChannel("x", nil); err != nil {
						vkit.Fatalf(t, "CreateDataChannel: %v", err)
					}
					o, err := pc.CreateOffer(nil)
					if err != nil {
						vkit.Fatalf(t, "CreateOffer: %v", err)
					}
					text = o.SDP
				} else {
					other := vNewPC(t, vNewAPI(t, vAPIOpts{}), nil)
					if _, err := other.AddTransceiverFromKind(RTPCodecTypeAudio); err != nil {
						vkit.Fatalf(t, "AddTransceiverFromKind: %v", err)
					}
					if _, err := other.CreateDataChannel("x", nil); err != nil {
						vkit.Fatalf(t, "CreateDataChannel: %v", err)
					}
					o, err := other.CreateOffer(nil)
					if err != nil {
						vkit.Fatalf(t, "CreateOffer: %v", err)
					}
					if err = pc.SetRemoteDescription(o); err != nil {
						vkit.Fatalf(t, "SetRemoteDescription: %v", err)
					}
					a, err := pc.CreateAnswer(nil)
					if err != nil {
						vkit.Fatalf(t, "CreateAnswer: %v", err)
					}
					text = a.SDP
					_ = other.Close()
				}
				// presented: what prepareStart hands to the DTLS stack - certificate 0 of the transport
				presented := pc.dtlsTransport.certificates[0].x509Cert.Raw
				sum := sha256.Sum256(presented)
				want := c14ColonHex(sum[:])
				all, session := c14SDPFingerprints(text)
				cls := fmt.Sprintf("cert=%s|media-level=%v|%s", cf.name, mediaLevel, role)
				if rc.make != nil {
					cls += "|after-SetConfiguration(" + rc.name + ")=" + reconfigured
				}
				rep := map[string]any{"part": "seam-advertise", "config": cls, "advertised": all, "sha256_of_presented": want}
				c.Eval()
				if len(all) == 0 {
					c.Violation("advertise|no-fingerprint|"+cls, "the generated "+role+" carries no a=fingerprint line", rep)
				}
				for _, a := range all {
					f := strings.Fields(a)
					if len(f) != 2 || !strings.EqualFold(f[0], "sha-256") || !strings.EqualFold(f[1], want) {
						c.Violation("advertise|differs-from-presented|"+cls, fmt.Sprintf("the %s advertises %q; SHA-256 of the certificate the transport presents is %s", role, a, want), rep)
					}
				}
				c14Outcome(c, fmt.Sprintf("advertised|lines=%d|session-level=%d", min(len(all), 3), len(session)))
				c.Distinct("advertise|" + cls)
				_ = pc.Close()
			}
		}
	}
}

// ---------- pair part ----------

type c14PairCase struct {
	Variant   string `json:"variant"`
	Victim    string `json:"victim"`    // offerer | answerer: the peer that applies the edited description
	PeerCert  string `json:"peer_cert"` // certificate of the other peer
	mismatch  bool   // the peer's certificate matches no fingerprint of the applied description
	demandOK  bool   // the plain correct case: must connect or the check is vacuous
	disabled  bool   // victim runs with DisableCertificateFingerprintVerification(true)
	edit      func(text, good, other string) string
	keyClass  string
	mediaOnly bool
}

func (pc c14PairCase) key() string {
	return fmt.Sprintf("variant=%s|victim=%s|peer-cert=%s", pc.Variant, pc.Victim, pc.PeerCert)
}

func c14ReplaceFP(text, newLine string) string {
	var out []string
	for _, l := range vPairSDPLines(text) {
		if strings.HasPrefix(l, "a=fingerprint:") {
			if newLine != "" {
				out = append(out, "a=fingerprint:"+newLine)
			}

			continue
		}
		out = append(out, l)
	}

	return vPairSDPJoin(out)
}

func c14PairVariants(quick bool) []c14PairCase {
	var out []c14PairCase
	add := func(v c14PairCase) { out = append(out, v) }
	add(c14PairCase{Variant: "correct", demandOK: true, keyClass: "correct", edit: func(text, _, _ string) string { return text }})
	add(c14PairCase{Variant: "correct-lower-case", keyClass: "correct", edit: func(text, good, _ string) string {
		return c14ReplaceFP(text, "sha-256 "+strings.ToLower(good))
	}})
	positions := []int{0, 1, 9, 31, 32, 47, 62, 63}
	if !quick {
		positions = nil
		for p := 0; p < 64; p++ {
			positions = append(positions, p)
		}
	}
	steps := []int{1, 8}
	if !quick {
		steps = nil
		for k := 1; k < 16; k++ {
			steps = append(steps, k)
		}
	}
	for _, pos := range positions {
		for _, k := range steps {
			pos, k := pos, k
			add(c14PairCase{
				Variant: fmt.Sprintf("digit-%02d-plus%d", pos, k), mismatch: true, keyClass: fmt.Sprintf("digit-altered|quarter=%d", pos/16),
				edit: func(text, good, _ string) string {
					v := (c14HexVal(c14DigitAt(good, pos)) + k) % 16

					return c14ReplaceFP(text, "sha-256 "+c14AlterDigit(good, pos, strings.ToUpper(c14HexDigits)[v]))
				},
			})
		}
	}
	add(c14PairCase{Variant: "hash-name-sha-1-with-sha-256-value", mismatch: true, keyClass: "wrong-hash-name", edit: func(text, good, _ string) string {
		return c14ReplaceFP(text, "sha-1 "+good)
	}})
	add(c14PairCase{Variant: "hash-name-unknown", mismatch: true, keyClass: "unknown-hash-name", edit: func(text, good, _ string) string {
		return c14ReplaceFP(text, "sha-999 "+good)
	}})
	add(c14PairCase{Variant: "other-certificate", mismatch: true, keyClass: "other-certificate", edit: func(text, _, other string) string {
		return c14ReplaceFP(text, "sha-256 "+other)
	}})
	add(c14PairCase{Variant: "media-level-only-all-sections-correct", keyClass: "media-level", mediaOnly: true, edit: func(text, good, _ string) string {
		return c14PlaceFingerprints(text, "", nil, "sha-256 "+good, false)
	}})
	add(c14PairCase{Variant: "media-level-only-master-section-correct", keyClass: "media-level", mediaOnly: true, edit: func(text, good, _ string) string {
		return c14PlaceFingerprints(text, "", map[int]string{0: "sha-256 " + good}, "", false)
	}})
	add(c14PairCase{Variant: "media-level-only-all-sections-altered", mismatch: true, keyClass: "media-level-altered", mediaOnly: true, edit: func(text, good, _ string) string {
		return c14PlaceFingerprints(text, "", nil, "sha-256 "+c14AlterDigit(good, 20, strings.ToUpper(c14HexDigits)[c14HexVal(c14DigitAt(good, 20))^1]), false)
	}})
	add(c14PairCase{Variant: "session-and-media-level-both-wrong", mismatch: true, keyClass: "two-different-wrong", mediaOnly: true, edit: func(text, good, other string) string {
		return c14PlaceFingerprints(text, "sha-256 "+other, nil, "sha-256 "+c14AlterDigit(good, 5, strings.ToUpper(c14HexDigits)[c14HexVal(c14DigitAt(good, 5))^2]), false)
	}})
	add(c14PairCase{Variant: "absent", mismatch: true, keyClass: "absent", edit: func(text, _, _ string) string { return c14ReplaceFP(text, "") }})
	add(c14PairCase{Variant: "altered-but-verification-disabled", disabled: true, keyClass: "disabled", edit: func(text, good, _ string) string {
		return c14ReplaceFP(text, "sha-256 "+c14AlterDigit(good, 33, strings.ToUpper(c14HexDigits)[c14HexVal(c14DigitAt(good, 33))^4]))
	}})

	return out
}

type c14Events struct {
	onDataChannel, onOpen, onMessage, onTrack atomic.Int64
}

func (e *c14Events) snapshot() map[string]int64 {
	return map[string]int64{
		"OnDataChannel": e.onDataChannel.Load(), "OnOpen": e.onOpen.Load(), "OnMessage": e.onMessage.Load(), "OnTrack": e.onTrack.Load(),
	}
}

func (e *c14Events) total() int64 {
	return e.onDataChannel.Load() + e.onOpen.Load() + e.onMessage.Load() + e.onTrack.Load()
}

func c14RunPair(t *testing.T, c *vkit.Check, pcase c14PairCase) { //nolint:cyclop,gocognit,maintidx
	certs := c14Certs()
	// peer certificate configuration: one certificate, or two (pion advertises and presents the first)
	var peerCert, otherCert Certificate
	var peerCfg []Certificate
	switch pcase.PeerCert {
	case "two-certificates|rsa,ecdsa":
		peerCert, otherCert = certs[1].Cert, certs[0].Cert
		peerCfg = []Certificate{peerCert, otherCert}
	case "two-certificates|ecdsa,rsa":
		peerCert, otherCert = certs[0].Cert, certs[1].Cert
		peerCfg = []Certificate{peerCert, otherCert}
	default:
		for i, ct := range certs {
			if ct.Kind == pcase.PeerCert {
				peerCert = ct.Cert
				otherCert = certs[(i+1)%2].Cert // the certificate of the other key type
			}
		}
		peerCfg = []Certificate{peerCert}
	}
	victimOpts := vPairAPIOpts{}
	if pcase.disabled {
		victimOpts.Setting = func(s *SettingEngine) { s.DisableCertificateFingerprintVerification(true) }
	}
	// A = victim, B = peer
	p := vPairNew(t, vPairOpts{A: victimOpts, CfgB: &Configuration{Certificates: peerCfg}})
	defer p.Close()
	victim, peer := p.A, p.B
	var ev c14Events
	msgSeen := make(chan struct{})
	trackSeen := make(chan struct{})
	watch := func(dc *DataChannel) {
		dc.OnOpen(func() { ev.onOpen.Add(1) })
		dc.OnMessage(func(DataChannelMessage) {
			ev.onMessage.Add(1)
			vPairCloseOnce(msgSeen)
		})
	}
	victim.PC.OnDataChannel(func(dc *DataChannel) {
		ev.onDataChannel.Add(1)
		watch(dc)
	})
	victim.PC.OnTrack(func(*TrackRemote, *RTPReceiver) {
		ev.onTrack.Add(1)
		vPairCloseOnce(trackSeen)
	})
	vdc, err := victim.PC.CreateDataChannel("victim-channel", nil)
	if err != nil {
		vPairFatalf("CreateDataChannel: %v", err)
	}
	watch(vdc)
	if _, err = victim.PC.AddTransceiverFromKind(RTPCodecTypeAudio, RTPTransceiverInit{Direction: RTPTransceiverDirectionRecvonly}); err != nil {
		vPairFatalf("AddTransceiverFromKind: %v", err)
	}
	// the peer tries to deliver: a data channel that sends as soon as it is open, answers on
	// the victim's channel, and an audio track that is written until the case is over
	pdc, err := peer.PC.CreateDataChannel("peer-channel", nil)
	if err != nil {
		vPairFatalf("CreateDataChannel: %v", err)
	}
	pdc.OnOpen(func() { _ = pdc.SendText("from the peer") })
	peer.PC.OnDataChannel(func(dc *DataChannel) {
		dc.OnOpen(func() { _ = dc.SendText("from the peer on the victim's channel") })
	})
	track, err := NewTrackLocalStaticRTP(RTPCodecCapability{MimeType: MimeTypeOpus, ClockRate: 48000, Channels: 2}, "c14-audio", "c14-stream")
	if err != nil {
		vPairFatalf("NewTrackLocalStaticRTP: %v", err)
	}
	if _, err = peer.PC.AddTrack(track); err != nil {
		vPairFatalf("AddTrack: %v", err)
	}
	stop := make(chan struct{})
	var wg sync.WaitGroup
	wg.Add(1)
	go func() {
		defer wg.Done()
		seq := uint16(1)
		tick := time.NewTicker(10 * time.Millisecond)
		defer tick.Stop()
		for {
			select {
			case <-stop:
				return
			case <-tick.C:
				_ = track.WriteRTP(&rtp.Packet{Header: rtp.Header{Version: 2, SequenceNumber: seq, Timestamp: uint32(seq) * 960}, Payload: []byte{1, 2, 3, 4}})
				seq++
			}
		}
	}()
	defer func() {
		vPairCloseOnce(stop)
		wg.Wait()
	}()

	// signaling; the description of the PEER is edited before the victim applies it
	sum := sha256.Sum256(peerCert.x509Cert.Raw)
	good := strings.ToUpper(c14ColonHex(sum[:]))
	osum := sha256.Sum256(otherCert.x509Cert.Raw)
	other := strings.ToUpper(c14ColonHex(osum[:]))
	var peerSDP, applied string
	editor := func(d SessionDescription) SessionDescription {
		peerSDP = d.SDP
		d.SDP = pcase.edit(d.SDP, good, other)
		applied = d.SDP

		return d
	}
	var r vPairSignalResult
	var applyErr error
	if pcase.Victim == "offerer" {
		r = p.Signal(victim, peer, vPairSignalHooks{Answer: editor})
		if r.OfferApplyErr != nil {
			vPairFatalf("the peer refused the victim's unedited offer: %v", r.OfferApplyErr)
		}
		applyErr = r.AnswerApplyErr
	} else {
		r = p.Signal(peer, victim, vPairSignalHooks{Offer: editor})
		applyErr = r.OfferApplyErr
		if applyErr == nil && r.AnswerApplyErr != nil {
			vPairFatalf("the peer refused the victim's unedited answer: %v", r.AnswerApplyErr)
		}
	}
	allApplied, _ := c14SDPFingerprints(applied)
	var fps []DTLSFingerprint
	for _, a := range allApplied {
		if f := strings.Fields(a); len(f) == 2 {
			fps = append(fps, DTLSFingerprint{Algorithm: f[0], Value: f[1]})
		}
	}
	advertised, _ := c14SDPFingerprints(peerSDP)
	rep := map[string]any{"part": "pair", "case": pcase, "applied_fingerprints": allApplied, "peer_advertised": advertised}
	c.Eval()

	// observe the victim until a terminal event
	outcome := ""
	if applyErr != nil {
		outcome = "remote-description-refused"
	} else {
		guard := time.NewTimer(vPairGuard)
		select {
		case <-victim.DTLSReached(DTLSTransportStateConnected):
			outcome = "connected"
		case <-victim.DTLSReached(DTLSTransportStateFailed):
			outcome = "failed"
		case <-victim.DTLSReached(DTLSTransportStateClosed):
			outcome = "closed"
		case <-guard.C:
			vPairFatalf("liveness guard expired: the victim's DTLS transport reported neither connected nor failed/closed (%s, states %v)", pcase.key(), victim.DTLSStates())
		}
		guard.Stop()
		// several of these may be ready at once: the first one in the recorded order counts
		for _, st := range victim.DTLSStates() {
			if st == "connected" {
				outcome = st

				break
			}
			if st == "failed" || st == "closed" {
				// on a failed handshake pion reports failed, or closed and then failed, depending on
				// timing (the DTLS connection closes its endpoint before Start returns): one class
				outcome = "failed-or-closed"

				break
			}
		}
	}
	// the certificate the peer really presented (recorded by the verify callback before it
	// judges), else - no handshake took place - the first configured one
	presented := victim.PC.dtlsTransport.GetRemoteCertificate()
	if len(presented) > 0 {
		// advertised = presented, end to end
		psum := sha256.Sum256(presented)
		peerIs := map[string]string{"offerer": "answerer", "answerer": "offerer"}[pcase.Victim]
		for _, a := range advertised {
			f := strings.Fields(a)
			if len(f) != 2 || !strings.EqualFold(f[0], "sha-256") || !strings.EqualFold(f[1], c14ColonHex(psum[:])) {
				c.Violation(fmt.Sprintf("advertise|presented-differs|peer-cert=%s|peer-is=%s", pcase.PeerCert, peerIs),
					fmt.Sprintf("the peer advertised %q but presented a certificate with SHA-256 %s in the handshake", a, c14ColonHex(psum[:])), rep)
			}
		}
		if len(advertised) == 0 {
			c.Violation("advertise|no-fingerprint|pair", "the peer's description carries no fingerprint", rep)
		}
		c.Distinct(fmt.Sprintf("advertise|pair|peer-cert=%s|peer-is=%s", pcase.PeerCert, peerIs))
	} else {
		presented = peerCert.x509Cert.Raw
	}
	// reference: does the presented certificate match any fingerprint of the APPLIED description?
	match := c14Matches(fps, presented)
	if bytes.Equal(presented, peerCert.x509Cert.Raw) && match == (pcase.mismatch || pcase.disabled) {
		vPairFatalf("harness: case %s expected mismatch=%v but the reference says match=%v", pcase.key(), pcase.mismatch, match)
	}
	c14Outcome(c, fmt.Sprintf("%s|match=%v|disabled=%v", outcome, match, pcase.disabled))
	judgeStates := func(when string) {
		for _, st := range victim.DTLSStates() {
			if st == DTLSTransportStateConnected.String() {
				c.Violation(fmt.Sprintf("pair|dtls-connected-despite-mismatch|%s|victim=%s", pcase.keyClass, pcase.Victim),
					fmt.Sprintf("the victim's DTLS transport reported connected (%s; states %v) although the peer's %s certificate matches no fingerprint of the applied description %v", when, victim.DTLSStates(), pcase.PeerCert, allApplied), rep)

				return
			}
		}
		if n := ev.total(); n > 0 {
			c.Violation(fmt.Sprintf("pair|delivery-despite-mismatch|%s|victim=%s", pcase.keyClass, pcase.Victim),
				fmt.Sprintf("events fired on the victim (%s): %v although the peer's certificate matches no fingerprint of the applied description", when, ev.snapshot()), rep)
		}
	}
	switch {
	case !match && !pcase.disabled:
		judgeStates("at the terminal event " + outcome)
		c.Distinct(fmt.Sprintf("pair|rejected|%s|victim=%s|peer-cert=%s|outcome=%s", pcase.keyClass, pcase.Victim, pcase.PeerCert, outcome))
	case outcome == "connected":
		// matching, or verification disabled: the whole stack comes up and delivers
		vPairWait(msgSeen, "a data channel message on the victim ("+pcase.key()+")")
		vPairWait(trackSeen, "OnTrack on the victim ("+pcase.key()+")")
		c.Distinct(fmt.Sprintf("pair|connected|%s|victim=%s|peer-cert=%s", pcase.keyClass, pcase.Victim, pcase.PeerCert))
	case pcase.demandOK:
		vPairFatalf("vacuous: the unedited description did not lead to a DTLS connection (%s: %s, states %v, apply error %v)", pcase.key(), outcome, victim.DTLSStates(), applyErr)
	default:
		// matching (or verification disabled) but refused: over-strict, recorded only
		c14Outcome(c, fmt.Sprintf("matching-but-not-connected|%s|%s", pcase.keyClass, outcome))
	}
	vPairCloseOnce(stop)
	p.Close()
	if !match && !pcase.disabled {
		judgeStates("after both peers were closed")
	}
}

func TestVerifC14(t *testing.T) {
	c := vkit.New("C14", "exploration")
	defer c.Finish(t)
	c.Rule("seam part: certificate {ECDSA generated, RSA user-supplied (CertificateFromX509), each re-imported from PEM} x remote fingerprint list {correct lower/upper; each of the 64 hex digits replaced by each of the 15 other values (thorough: also in upper case); 11 hash-name variants x {correct, altered} sha-256 value; md5/sha-1/sha-224/sha-384/sha-512 with their own correct/altered value; empty list; empty value; truncated to 16 / 31 bytes; extended; another certificate's fingerprint; 7 multi-entry lists} given to the real validateFingerPrint and the real verify callback (verification on and disabled); extractFingerprint on {BUNDLE, no BUNDLE} x session level {none, first, second} x bundle-master section x other section + malformed values; advertised fingerprint of generated offers/answers x {session, media level} x 7 certificate configurations. pair part: description edited in transit {correct, lower-case, one digit altered at 8 positions x 2 replacement values (thorough: each of the 64 digits replaced by each of the 15 other values), hash name sha-1 / unknown, another certificate's fingerprint, media level only (all sections / master only / altered), session+media both wrong, absent, altered with verification disabled} x victim {offerer = DTLS server, answerer = DTLS client} x peer certificate {ECDSA, RSA; for the correct and one altered variant also two configured certificates in both orders}; the certificate really presented (DTLSTransport.GetRemoteCertificate on the victim) is hashed and compared with the fingerprint the peer advertised; non-trivial = a mismatching case really rejected / a matching case really connected")
	c.Set("schedules_enumerated", false)
	c.Assume("pair part: one execution per case over loopback; the internal schedule of ICE/DTLS is whatever happens and is not enumerated")
	c.Assume("a certificate matches a fingerprint when the named hash (name compared without regard to case; md5, sha-1, sha-224, sha-256, sha-384, sha-512) over its DER equals the colon-separated hex value without regard to case")
	c.Assume("one-directional: a certificate that matches but is refused (over-strict) is recorded as an outcome, not flagged; only the unedited description must connect (otherwise the check is vacuous, exit 2)")
	c.Assume("'never reaches connected' is observed through a positive terminal event of the victim: SetRemoteDescription refused, or DTLS transport state failed/closed; the recorded state list is checked again after both peers were closed")

	if raw, ok := c.ReplayCase(); ok {
		var wrap struct {
			Part string      `json:"part"`
			Case c14PairCase `json:"case"`
		}
		if err := json.Unmarshal(raw, &wrap); err != nil {
			vkit.Fatalf(t, "replay case: %v", err)
		}
		if wrap.Part != "pair" {
			c14SeamValidate(t, c)
			c14SeamExtract(t, c)
			c14SeamAdvertise(t, c)

			return
		}
		for _, v := range c14PairVariants(false) {
			if v.Variant == wrap.Case.Variant {
				v.Victim, v.PeerCert = wrap.Case.Victim, wrap.Case.PeerCert
				c14RunPair(t, c, v)

				return
			}
		}
		vkit.Fatalf(t, "replay case: unknown variant %q", wrap.Case.Variant)
	}

	c14SeamValidate(t, c)
	c14SeamExtract(t, c)
	c14SeamAdvertise(t, c)

	var cases []c14PairCase
	for _, v := range c14PairVariants(c.Quick()) {
		for _, victim := range []string{"offerer", "answerer"} {
			pcerts := []string{"ecdsa-generated", "rsa-user-supplied"}
			if v.Variant == "correct" || v.Variant == "digit-00-plus1" {
				pcerts = append(pcerts, "two-certificates|rsa,ecdsa", "two-certificates|ecdsa,rsa")
			}
			for _, pcert := range pcerts {
				v.Victim, v.PeerCert = victim, pcert
				cases = append(cases, v)
			}
		}
	}
	c.Set("pair_cases", len(cases))
	c.Sample(map[string]any{"part": "pair", "case": cases[0]})
	c.Sample(map[string]any{"part": "pair", "case": cases[len(cases)/2]})
	vkit.ParallelN(8, len(cases), func(i int) {
		c.Guard(cases[i].key(), map[string]any{"part": "pair", "case": cases[i]}, func() { c14RunPair(t, c, cases[i]) })
	})
	c.Set("outcomes_observed", c14OutcomeList())
}
