package webrtc

// C29 — Static RTP tracks fan out to each binding and leave the caller's packet intact.
//
// Every history up to a depth over {Bind(ctx_i), Unbind(ctx_i), WriteRTP(p_k),
// Write(bytes(p_k))} is run on a fresh real TrackLocalStaticRTP whose contexts are
// in-package fakes (baseTrackLocalContext with a recording TrackLocalWriter). The
// reference model is the set of bound contexts; the effect of the last operation
// of every history is compared with it (the earlier operations of a history are
// the last operation of a shorter history, which is enumerated as well).

import (
	"bytes"
	"fmt"
	"runtime/debug"
	"sync/atomic"
	"testing"

	"github.com/pion/rtp"
	"github.com/pion/webrtc/v4/internal/verif/vkit"
)

// c29Rec is one packet a fake sender received.
type c29Rec struct {
	header  rtp.Header
	payload []byte
	raw     bool // arrived through Write(b) instead of WriteRTP
}

type c29Writer struct{ recs []c29Rec }

func (w *c29Writer) WriteRTP(h *rtp.Header, payload []byte) (int, error) {
	w.recs = append(w.recs, c29Rec{header: h.Clone(), payload: append([]byte{}, payload...)})

	return len(payload), nil
}

func (w *c29Writer) Write(b []byte) (int, error) {
	p := &rtp.Packet{}
	if err := p.Unmarshal(append([]byte{}, b...)); err != nil {
		w.recs = append(w.recs, c29Rec{raw: true})

		return len(b), nil
	}
	w.recs = append(w.recs, c29Rec{header: p.Header.Clone(), payload: append([]byte{}, p.Payload...), raw: true})

	return len(b), nil
}

// c29Ctx describes one fake sender: its SSRC, the codecs "negotiated" for it and
// the payload type the track's codec (VP8/90000) has among them; neg = the codec was negotiated at all
// (payload type 0 is a legal negotiated value: ctx2 has it).
type c29Ctx struct {
	id     string
	ssrc   SSRC
	codecs []RTPCodecParameters
	pt     PayloadType
	neg    bool
}

func c29Contexts() []c29Ctx {
	vp8 := func(pt PayloadType, fmtp string) RTPCodecParameters {
		return RTPCodecParameters{RTPCodecCapability: RTPCodecCapability{MimeType: MimeTypeVP8, ClockRate: 90000, SDPFmtpLine: fmtp}, PayloadType: pt}
	}
	h264 := RTPCodecParameters{RTPCodecCapability: RTPCodecCapability{MimeType: MimeTypeH264, ClockRate: 90000, SDPFmtpLine: "packetization-mode=1"}, PayloadType: 102}
	opus := RTPCodecParameters{RTPCodecCapability: RTPCodecCapability{MimeType: MimeTypeOpus, ClockRate: 48000, Channels: 2}, PayloadType: 111}
	rtx := RTPCodecParameters{RTPCodecCapability: RTPCodecCapability{MimeType: MimeTypeRTX, ClockRate: 90000, SDPFmtpLine: "apt=96"}, PayloadType: 97}

	return []c29Ctx{
		{id: "ctx0", ssrc: 0x0A0A0A0A, codecs: []RTPCodecParameters{vp8(96, ""), rtx}, pt: 96, neg: true},
		{id: "ctx1", ssrc: 0xFFFFFFFE, codecs: []RTPCodecParameters{h264, vp8(120, "")}, pt: 120, neg: true},
		{id: "ctx2", ssrc: 1, codecs: []RTPCodecParameters{opus, vp8(0, "max-fs=12288")}, pt: 0, neg: true},
		{id: "ctx3", ssrc: 0x33333333, codecs: []RTPCodecParameters{h264, opus}, pt: 0}, // VP8 not negotiated: Bind must fail
	}
}

// c29Packets are the caller's packets (templates; every history works on deep copies).
func c29Packets(tb testing.TB) []*rtp.Packet {
	tb.Helper()
	p0 := &rtp.Packet{Header: rtp.Header{Version: 2, PayloadType: 50, SequenceNumber: 1000, Timestamp: 5000, SSRC: 0x11111111}, Payload: []byte{1, 2, 3}}
	p1 := &rtp.Packet{Header: rtp.Header{Version: 2, Marker: true, PayloadType: 127, SequenceNumber: 65535, Timestamp: 0xFFFFFFFF, SSRC: 0x22222222, CSRC: []uint32{1, 0xFFFFFFFF, 3}}, Payload: []byte{9}}
	if err := p1.SetExtension(1, []byte{0xA1, 0xA2, 0xA3}); err != nil {
		vkit.Fatalf(tb, "SetExtension: %v", err)
	}
	if err := p1.SetExtension(14, []byte{0xB1}); err != nil {
		vkit.Fatalf(tb, "SetExtension: %v", err)
	}
	p2 := &rtp.Packet{Header: rtp.Header{Version: 2, PayloadType: 0, SequenceNumber: 0, Timestamp: 1, SSRC: 0, CSRC: []uint32{7}, Padding: true, PaddingSize: 4}, Payload: []byte{0, 1, 2, 3, 4, 5, 6, 7, 8, 9}}
	if err := p2.SetExtensionWithProfile(5, bytes.Repeat([]byte{0xC5}, 20), rtp.ExtensionProfileTwoByte); err != nil {
		vkit.Fatalf(tb, "SetExtensionWithProfile: %v", err)
	}
	// padding given through the deprecated Packet.PaddingSize only
	p3 := &rtp.Packet{Header: rtp.Header{Version: 2, Padding: true, PayloadType: 96, SequenceNumber: 7, Timestamp: 90000, SSRC: 0x0A0A0A0A}, Payload: []byte{5, 4, 3, 2, 1}, PaddingSize: 7}

	return []*rtp.Packet{p0, p1, p2, p3}
}

func c29ClonePacket(p *rtp.Packet) *rtp.Packet {
	q := p.Clone()
	q.Header.PaddingSize = p.Header.PaddingSize

	return q
}

// c29HeaderDiff names the first header field in which got differs from want,
// ignoring SSRC and payload type. Padding is compared by its effective size.
func c29HeaderDiff(want *rtp.Packet, got *rtp.Header) string {
	w := want.Header
	switch {
	case w.Version != got.Version:
		return "Version"
	case w.Padding != got.Padding:
		return "Padding"
	case w.Extension != got.Extension:
		return "Extension"
	case w.Marker != got.Marker:
		return "Marker"
	case w.SequenceNumber != got.SequenceNumber:
		return "SequenceNumber"
	case w.Timestamp != got.Timestamp:
		return "Timestamp"
	case len(w.CSRC) != len(got.CSRC):
		return "CSRC"
	}
	for i := range w.CSRC {
		if w.CSRC[i] != got.CSRC[i] {
			return "CSRC"
		}
	}
	if w.Extension {
		if w.ExtensionProfile != got.ExtensionProfile {
			return "ExtensionProfile"
		}
		wi, gi := w.GetExtensionIDs(), got.GetExtensionIDs()
		if len(wi) != len(gi) {
			return "Extensions"
		}
		for i := range wi {
			if wi[i] != gi[i] || !bytes.Equal(w.GetExtension(wi[i]), got.GetExtension(gi[i])) {
				return "Extensions"
			}
		}
	}
	pad := w.PaddingSize
	if pad == 0 {
		pad = want.PaddingSize
	}
	if pad != got.PaddingSize {
		return "PaddingSize"
	}

	return ""
}

// c29SamePacket compares every field of two packets (caller's packet before / after).
func c29SamePacket(a, b *rtp.Packet) string {
	if a.SSRC != b.SSRC {
		return "SSRC"
	}
	if a.PayloadType != b.PayloadType {
		return "PayloadType"
	}
	if a.PaddingSize != b.PaddingSize || a.Header.PaddingSize != b.Header.PaddingSize {
		return "PaddingSize"
	}
	hb := b.Header
	hb.PaddingSize = a.Header.PaddingSize
	if a.PaddingSize != 0 && a.Header.PaddingSize == 0 {
		// c29HeaderDiff compares the effective padding; the raw fields were compared above
		hb.PaddingSize = a.PaddingSize
	}
	if d := c29HeaderDiff(a, &hb); d != "" {
		return d
	}
	if !bytes.Equal(a.Payload, b.Payload) {
		return "Payload"
	}

	return ""
}

const (
	c29NCtx = 4
	c29NPkt = 4
	// alphabet: Bind 0..3, Unbind 0..2, WriteRTP p0..p3, Write bytes(p0..p3)
	c29Alphabet = c29NCtx + (c29NCtx - 1) + 2*c29NPkt
)

func c29OpName(op int) string {
	switch {
	case op < c29NCtx:
		return fmt.Sprintf("Bind(ctx%d)", op)
	case op < 2*c29NCtx-1:
		return fmt.Sprintf("Unbind(ctx%d)", op-c29NCtx)
	case op < 2*c29NCtx-1+c29NPkt:
		return fmt.Sprintf("WriteRTP(p%d)", op-(2*c29NCtx-1))
	}

	return fmt.Sprintf("Write(bytes(p%d))", op-(2*c29NCtx-1+c29NPkt))
}

func c29History(seq []int) []string {
	out := make([]string, len(seq))
	for i, op := range seq {
		out[i] = c29OpName(op)
	}

	return out
}

func TestVerifC29(t *testing.T) {
	c := vkit.New("C29", "model_checking")
	defer c.Finish(t)
	// millions of short-lived tracks: with the default GC pacing (4 MB minimum heap) the collector runs
	// almost continuously; let the heap grow to ~100 MB between cycles instead
	defer debug.SetGCPercent(debug.SetGCPercent(2500))
	c.Rule("histories = every operation sequence of length 1..depth over {Bind(ctx0..3), Unbind(ctx0..2), WriteRTP(p0..p3), Write(bytes(p0..p3))} without a Bind of an already bound context, each run on a fresh real TrackLocalStaticRTP with fake contexts (distinct SSRCs and payload types; ctx3 has not negotiated the track's codec); states = the set of bound contexts of the reference model; transitions = executed operations; the effect of the last operation of every history is checked (all proper prefixes are histories of their own). A class is non-trivial when a write reached at least one bound sender")
	c.Assume("Bind is only called for a context that is not currently bound (what RTPSender does); Unbind of a context that is not bound is enumerated and must leave the other bindings alone")

	ctxs := c29Contexts()
	tmpl := c29Packets(t)
	raws := make([][]byte, len(tmpl))
	for k, p := range tmpl {
		b, err := p.Marshal()
		if err != nil {
			vkit.Fatalf(t, "marshal p%d: %v", k, err)
		}
		raws[k] = b
	}
	codec := RTPCodecCapability{MimeType: MimeTypeVP8, ClockRate: 90000}

	depth := c.Pick(5, 6)
	c.Set("depth", depth)
	c.Set("alphabet", c29Alphabet)
	c.Set("packets", "p0 plain; p1 3 CSRCs + marker + two one-byte extensions + max seq/ts; p2 CSRC + two-byte extension + Header.PaddingSize 4; p3 padding through the deprecated Packet.PaddingSize")

	var (
		states  [1 << c29NCtx]atomic.Bool                // model states reached
		classes [2 * c29NPkt * (c29NCtx + 1)]atomic.Bool // (write kind, packet, number of receivers) reached
		pruned  atomic.Int64
	)

	runHistory := func(seq []int) {
		// reference model
		bound := [c29NCtx]bool{}
		for _, op := range seq {
			if op < c29NCtx && bound[op] {
				pruned.Add(1)

				return
			}
			switch {
			case op < c29NCtx:
				bound[op] = ctxs[op].neg
			case op < 2*c29NCtx-1:
				bound[op-c29NCtx] = false
			}
		}
		c.Eval()
		c.Validated()
		c.TransitionN(len(seq))

		track, err := NewTrackLocalStaticRTP(codec, "video", "stream")
		if err != nil {
			vkit.Fatalf(t, "NewTrackLocalStaticRTP: %v", err)
		}
		writers := [c29NCtx]*c29Writer{}
		tctx := [c29NCtx]*baseTrackLocalContext{}
		for i, cx := range ctxs {
			writers[i] = &c29Writer{}
			tctx[i] = &baseTrackLocalContext{
				id: cx.id, ssrc: cx.ssrc, ssrcRTX: cx.ssrc + 1, ssrcFEC: cx.ssrc + 2,
				params: RTPParameters{Codecs: cx.codecs}, writeStream: writers[i],
			}
		}
		pk := [c29NPkt]*rtp.Packet{}
		rw := [c29NPkt][]byte{}
		hist := func() any { return map[string]any{"history": c29History(seq)} }
		last := len(seq) - 1
		was := [c29NCtx]bool{} // model before the last operation
		cur := [c29NCtx]bool{}

		func() {
			defer func() {
				if r := recover(); r != nil {
					c.Violation("panic|"+vkit.PanicSite(), fmt.Sprintf("panic in code under test: %v (history %v)", r, c29History(seq)), hist())
				}
			}()
			for step, op := range seq {
				if step == last {
					was = cur
					for i := range writers {
						writers[i].recs = nil
					}
				}
				switch {
				case op < c29NCtx:
					got, err := track.Bind(tctx[op])
					if step == last {
						want := ctxs[op].pt
						switch {
						case !ctxs[op].neg && err == nil:
							c.Violation("bind|accepted-unnegotiated-codec", fmt.Sprintf("Bind(%s) succeeded although the track's codec is not among the context's codecs", ctxs[op].id), hist())
						case ctxs[op].neg && err != nil:
							c.Violation("bind|rejected", fmt.Sprintf("Bind(%s) failed: %v", ctxs[op].id, err), hist())
						case ctxs[op].neg && got.PayloadType != want:
							c.Violation("bind|payload-type", fmt.Sprintf("Bind(%s) negotiated payload type %d, the context's VP8 entry has %d", ctxs[op].id, got.PayloadType, want), hist())
						}
					}
					cur[op] = ctxs[op].neg
				case op < 2*c29NCtx-1:
					_ = track.Unbind(tctx[op-c29NCtx])
					cur[op-c29NCtx] = false
				default:
					k := (op - (2*c29NCtx - 1)) % c29NPkt
					viaBytes := op >= 2*c29NCtx-1+c29NPkt
					if pk[k] == nil {
						pk[k] = c29ClonePacket(tmpl[k])
						rw[k] = append([]byte{}, raws[k]...)
					}
					if viaBytes {
						_, _ = track.Write(rw[k])
					} else {
						_ = track.WriteRTP(pk[k])
					}
				}
			}
		}()

		// ---- oracle on the last operation ----
		op := seq[last]
		opKind := "bind"
		switch {
		case op >= 2*c29NCtx-1+c29NPkt:
			opKind = "Write"
		case op >= 2*c29NCtx-1:
			opKind = "WriteRTP"
		case op >= c29NCtx:
			opKind = "unbind"
		}
		isWrite := op >= 2*c29NCtx-1
		k := 0
		if isWrite {
			k = (op - (2*c29NCtx - 1)) % c29NPkt
		}
		nBound := 0
		for i := range ctxs {
			recs := writers[i].recs
			expect := 0
			if isWrite && was[i] {
				expect = 1
				nBound++
			}
			if !isWrite {
				expect = 0
			}
			switch {
			case len(recs) > expect && !was[i] && isWrite:
				c.Violation("delivered-to-unbound|op="+opKind, fmt.Sprintf("%s: %d packet(s) reached %s, which is not bound", c29OpName(op), len(recs), ctxs[i].id), hist())

				continue
			case len(recs) > expect && isWrite:
				c.Violation("delivered-more-than-once|op="+opKind, fmt.Sprintf("%s: %d packets reached bound %s, want exactly 1", c29OpName(op), len(recs), ctxs[i].id), hist())

				continue
			case len(recs) > expect:
				c.Violation("delivered-without-write|op="+opKind, fmt.Sprintf("%s made %d packet(s) reach %s", c29OpName(op), len(recs), ctxs[i].id), hist())

				continue
			case len(recs) < expect:
				c.Violation("not-delivered|op="+opKind, fmt.Sprintf("%s: nothing reached bound %s", c29OpName(op), ctxs[i].id), hist())

				continue
			}
			if expect == 0 {
				continue
			}
			r := recs[0]
			want := tmpl[k]
			if r.header.SSRC != uint32(ctxs[i].ssrc) {
				c.Violation("wrong-ssrc|op="+opKind, fmt.Sprintf("%s: %s received SSRC %#x, its SSRC is %#x", c29OpName(op), ctxs[i].id, r.header.SSRC, uint32(ctxs[i].ssrc)), hist())
			}
			if r.header.PayloadType != uint8(ctxs[i].pt) {
				c.Violation("wrong-payload-type|op="+opKind, fmt.Sprintf("%s: %s received payload type %d, negotiated %d", c29OpName(op), ctxs[i].id, r.header.PayloadType, ctxs[i].pt), hist())
			}
			if d := c29HeaderDiff(want, &r.header); d != "" {
				c.Violation("header-changed:"+d+"|op="+opKind, fmt.Sprintf("%s: header field %s differs at %s: got %+v want %+v", c29OpName(op), d, ctxs[i].id, r.header, want.Header), hist())
			}
			if !bytes.Equal(r.payload, want.Payload) {
				c.Violation("payload-changed|op="+opKind, fmt.Sprintf("%s: payload at %s is %x, want %x", c29OpName(op), ctxs[i].id, r.payload, want.Payload), hist())
			}
		}
		// the caller's packets and byte slices are as they were
		for j := range pk {
			if pk[j] == nil {
				continue
			}
			if d := c29SamePacket(tmpl[j], pk[j]); d != "" {
				c.Violation("caller-packet-modified:"+d, fmt.Sprintf("after %v the caller's packet p%d differs in %s", c29History(seq), j, d), hist())
			}
			if !bytes.Equal(rw[j], raws[j]) {
				c.Violation("caller-bytes-modified", fmt.Sprintf("after %v the caller's byte slice of p%d was modified", c29History(seq), j), hist())
			}
		}

		key := 0
		for i, b := range cur {
			if b {
				key |= 1 << i
			}
		}
		states[key].Store(true)
		if isWrite {
			viaBytes := 0
			if opKind == "Write" {
				viaBytes = 1
			}
			classes[(viaBytes*c29NPkt+k)*(c29NCtx+1)+nBound].Store(true)
		}
	}

	for l := 1; l <= depth; l++ {
		dims := make([]int, l)
		for i := range dims {
			dims[i] = c29Alphabet
		}
		total := vkit.ProductSize(dims...)
		vkit.Parallel(total, func(i int) {
			runHistory(vkit.ProductIndex(i, dims...))
		})
	}

	c.Set("histories_pruned_double_bind", pruned.Load())
	for k := range states {
		if !states[k].Load() {
			continue
		}
		names := []string{}
		for i := range ctxs {
			if k&(1<<i) != 0 {
				names = append(names, ctxs[i].id)
			}
		}
		c.State(fmt.Sprint(names))
	}
	for idx := range classes {
		if !classes[idx].Load() {
			continue
		}
		n := idx % (c29NCtx + 1)
		k := idx / (c29NCtx + 1) % c29NPkt
		kind := []string{"WriteRTP", "Write"}[idx/(c29NCtx+1)/c29NPkt]
		c.Outcome(fmt.Sprintf("%s/receivers=%d", kind, n))
		if n > 0 {
			c.Distinct(fmt.Sprintf("%s(p%d)->%d senders", kind, k, n))
		}
	}
	c.Sample(c29History([]int{0, 1, 2, c29NCtx + 0, 2*c29NCtx - 1 + 1}))
	c.Sample(c29History([]int{1, 2*c29NCtx - 1 + c29NPkt + 2, c29NCtx + 1, 2*c29NCtx - 1 + 3}))
}
