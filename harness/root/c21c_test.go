package webrtc

// C21 (live part) — "once GracefulClose returns, no goroutine started by the connection is still running", for
// the goroutines the scheduler-controlled parts cannot see: those of the real ICE agent. On a connected loopback
// pair the application's ICE-connection-state handler PARKS when it is told `closed` (it stands for any handler
// that takes a while); it runs on a goroutine the connection's ICE agent started. For every order of Close and
// GracefulClose calls that ends with a GracefulClose, that last GracefulClose must not return while the handler
// goroutine is still parked. The oracle is one-sided and needs no timing assumption: "returned while a goroutine
// of the connection sits in the handler" is definitive; if GracefulClose (rightly) waits, the harness releases
// the handler after a while and only demands that the call returns then.

import (
	"fmt"
	"sync"
	"sync/atomic"
	"testing"
	"time"

	"github.com/pion/webrtc/v4/internal/verif/vkit"
)

func TestVerifC21Live(t *testing.T) {
	c := vkit.New("C21", "exploration")
	defer c.Finish(t)
	orders := []string{"G", "CG", "CCG", "GG"}
	c.Rule(fmt.Sprintf("%d orders of sequential Close (C) / GracefulClose (G) calls on the offerer of a connected real loopback pair whose ICE-connection-state handler parks on `closed`: the last GracefulClose does not return while that handler goroutine (started by the connection's ICE agent) is still parked; after the handler is released every call returns and signaling / connection state are closed", len(orders)))
	c.Set("schedules_enumerated", false)
	c.Assume("one-sided oracle: a GracefulClose that returns while the handler goroutine is parked is a violation whatever the timing; a GracefulClose that waits is released by the harness after 1.5 s (no verdict depends on that figure)")
	if _, ok := c.ReplayCase(); ok {
		c.Eval()
		c.Distinct("replay-runs-the-orders-again")
	}
	for _, order := range orders {
		order := order
		c.Guard("order", map[string]any{"order": order}, func() {
			p := vPairNew(t, vPairOpts{})
			defer p.Close()
			var (
				enteredOnce sync.Once
				entered     = make(chan struct{})
				release     = make(chan struct{})
				inHandler   atomic.Int32
			)
			p.A.PC.OnICEConnectionStateChange(func(st ICEConnectionState) {
				if st != ICEConnectionStateClosed {
					return
				}
				inHandler.Add(1)
				enteredOnce.Do(func() { close(entered) })
				<-release
				inHandler.Add(-1)
			})
			if _, err := p.A.PC.CreateDataChannel("c21", nil); err != nil {
				vPairFatalf("CreateDataChannel: %v", err)
			}
			r := p.Signal(p.A, p.B, vPairSignalHooks{})
			if r.OfferApplyErr != nil || r.AnswerApplyErr != nil {
				vPairFatalf("signaling refused: %v / %v", r.OfferApplyErr, r.AnswerApplyErr)
			}
			vPairWait(p.A.PCReached(PeerConnectionStateConnected), "offerer connected")
			c.Eval()
			var released atomic.Bool
			releaseNow := func() {
				if released.CompareAndSwap(false, true) {
					close(release)
				}
			}
			defer releaseNow()
			for i, call := range order {
				last := i == len(order)-1
				if call == 'C' {
					if err := p.A.PC.Close(); err != nil {
						c.Outcome("close-error|" + order)
					}
					// a plain Close does not wait for anything; let the agent deliver `closed` (not an oracle:
					// when the handler is never entered nothing is judged)
					select {
					case <-entered:
					case <-time.After(5 * time.Second):
					}

					continue
				}
				ret := make(chan error, 1)
				go func() { ret <- p.A.PC.GracefulClose() }()
				select {
				case <-ret:
					if inHandler.Load() > 0 && !released.Load() {
						c.Violation("live|gracefulclose-returned-while-ice-handler-goroutine-runs|order="+order,
							fmt.Sprintf("order %s: GracefulClose (call %d) returned while a goroutine started by the connection's ICE agent is still inside the OnICEConnectionStateChange handler (told `closed`, not released yet)", order, i+1),
							map[string]any{"order": order})
						c.Outcome("returned-while-parked|" + order)
					} else {
						select {
						case <-entered:
							c.Outcome("returned-after-handler|" + order)
						default:
							c.Outcome("handler-never-entered|" + order)
						}
					}
				case <-time.After(1500 * time.Millisecond):
					// it waits (for the handler goroutine, presumably): release and demand the return
					c.Outcome("waits-for-the-handler|" + order)
					releaseNow()
					select {
					case <-ret:
					case <-time.After(vPairGuard):
						vPairFatalf("C21 live: GracefulClose (order %s) does not return after the handler was released", order)
					}
				}
				if last {
					releaseNow()
				}
			}
			if s := p.A.PC.SignalingState(); s != SignalingStateClosed {
				c.Violation("live|signaling-not-closed|order="+order, fmt.Sprintf("order %s: signaling state %s after the closes", order, s), map[string]any{"order": order})
			}
			if s := p.A.PC.ConnectionState(); s != PeerConnectionStateClosed {
				c.Violation("live|connection-not-closed|order="+order, fmt.Sprintf("order %s: connection state %s after the closes", order, s), map[string]any{"order": order})
			}
			c.Distinct("order=" + order)
		})
	}
}
