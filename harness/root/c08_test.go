package webrtc

// C08 — Answer directions are legal responses to the offered directions (RFC 3264 6.1).
// Bounded exhaustive exploration of negotiation histories on the real code.
// State of the model = per mid (local transceiver direction, last offered
// direction); transitions = local operations (AddTrack / RemoveTrack, before the
// offer is applied or between SetRemoteDescription and CreateAnswer) and
// negotiation rounds. Part A: synthetic remote offers (every direction per
// section, every direction change in re-offers). Part B: a live pion peer as the
// offerer (directions reachable through its public API), both peers answer in turn.
// The oracle is the RFC 3264 table applied to offer and answer as read by the
// harness's own line scanner.

import (
	"encoding/json"
	"fmt"
	"strings"
	"sync/atomic"
	"testing"

	"github.com/pion/webrtc/v4/internal/verif/vkit"
)

var c08Inits = []string{"none", "recvonly", "sendonly", "sendrecv", "inactive"}

// c08Op is a local operation on the answerer. Kind "add": AddTrack of a new track
// of media kind Arg ("audio"/"video"); "remove": RemoveTrack of the sender of the
// transceiver associated with section Sec; "" = none. Mid=true: executed between
// SetRemoteDescription and CreateAnswer, otherwise before the offer is applied.
type c08Op struct {
	Kind string `json:"kind,omitempty"`
	Arg  string `json:"arg,omitempty"`
	Sec  int    `json:"sec,omitempty"`
	Mid  bool   `json:"mid,omitempty"`
}

type c08Round struct {
	Op   c08Op    `json:"op"`
	Dirs []string `json:"dirs"` // offered direction per section
}

type c08Case struct {
	Kinds  []string   `json:"kinds"` // media kind per section
	Init   []string   `json:"init"`  // local transceiver per section before the first offer
	Rounds []c08Round `json:"rounds"`
	// Pranswer: in every round the first answer is applied as a provisional answer and a second, final answer
	// is created (and judged) in have-local-pranswer
	Pranswer bool `json:"pranswer,omitempty"`
	// Sem: "" Unified Plan; "planb" / "fallback": the answerer is configured with SDPSemanticsPlanB /
	// UnifiedPlanWithFallback and the offers are Plan-B shaped (mids "audio" / "video")
	Sem string `json:"sem,omitempty"`
}

func c08RoundClass(r int) string {
	if r == 0 {
		return "first"
	}

	return "reoffer"
}

// c08Local is the answerer with the bookkeeping the oracle needs.
type c08Local struct {
	t  *testing.T
	pc *PeerConnection
	n  int
}

func (l *c08Local) addTransceiver(kind RTPCodecType, init string) {
	l.n++
	var err error
	switch init {
	case "none":
	case "recvonly":
		_, err = l.pc.AddTransceiverFromKind(kind, RTPTransceiverInit{Direction: RTPTransceiverDirectionRecvonly})
	case "sendonly":
		_, err = l.pc.AddTransceiverFromTrack(vAnsTrack(l.t, kind, fmt.Sprint(l.n)), RTPTransceiverInit{Direction: RTPTransceiverDirectionSendonly})
	case "sendrecv":
		_, err = l.pc.AddTransceiverFromTrack(vAnsTrack(l.t, kind, fmt.Sprint(l.n)), RTPTransceiverInit{Direction: RTPTransceiverDirectionSendrecv})
	case "inactive":
		var tr *RTPTransceiver
		tr, err = l.pc.AddTransceiverFromTrack(vAnsTrack(l.t, kind, fmt.Sprint(l.n)), RTPTransceiverInit{Direction: RTPTransceiverDirectionSendonly})
		if err == nil {
			err = l.pc.RemoveTrack(tr.Sender())
		}
	}
	if err != nil {
		panic(fmt.Sprintf("harness: local transceiver %s: %v", init, err))
	}
}

func (l *c08Local) byMid(mid string) *RTPTransceiver {
	for _, tr := range l.pc.GetTransceivers() {
		if tr.Mid() == mid {
			return tr
		}
	}

	return nil
}

func (cs c08Case) semTag() string {
	if cs.Sem == "" {
		return ""
	}

	return "|sem=" + cs.Sem
}

// byKindOrMid: under Plan-B the transceivers carry no per-section mid; the section named after a kind is
// described by the first transceiver of that kind.
func (l *c08Local) byKindOrMid(cs c08Case, mids []string) func(string) *RTPTransceiver {
	if cs.Sem == "" {
		return l.byMid
	}

	return func(mid string) *RTPTransceiver {
		for _, tr := range l.pc.GetTransceivers() {
			if tr.Kind().String() == mid {
				return tr
			}
		}

		return nil
	}
}

const (
	c08OpDone         = iota
	c08OpInapplicable // the operation has no object (no sender to remove): duplicate of a history without it
	c08OpRefused      // pion returned an error: the history ends here (not this property's subject)
)

// apply executes op.
func (l *c08Local) apply(op c08Op, mids []string) int {
	switch op.Kind {
	case "":
		return c08OpDone
	case "add":
		l.n++
		if _, err := l.pc.AddTrack(vAnsTrack(l.t, vAnsKind(op.Arg), fmt.Sprint(l.n))); err != nil {
			return c08OpRefused
		}

		return c08OpDone
	case "remove":
		tr := l.byMid(mids[op.Sec])
		if tr == nil || tr.Sender() == nil {
			return c08OpInapplicable
		}
		if err := l.pc.RemoveTrack(tr.Sender()); err != nil {
			return c08OpRefused
		}

		return c08OpDone
	case "setsender":
		// RTPTransceiver.SetSender with a fresh sender and track: the public way to start sending on a
		// transceiver that AddTrack would not pick (its direction becomes send-capable whatever was offered)
		tr := l.byMid(mids[op.Sec])
		if tr == nil || tr.Sender() != nil {
			return c08OpInapplicable
		}
		l.n++
		track := vAnsTrack(l.t, tr.Kind(), fmt.Sprint(l.n))
		sender, err := l.pc.api.NewRTPSender(track, l.pc.dtlsTransport)
		if err != nil {
			return c08OpRefused
		}
		if err = tr.SetSender(sender, track); err != nil {
			return c08OpRefused
		}

		return c08OpDone
	}
	panic("harness: unknown op " + op.Kind)
}

// c08Judge applies the RFC 3264 table to every offered section that has a live
// (port != 0) section with the same mid in the answer.
func c08Judge(c *vkit.Check, part string, round int, offerText, answerText string, pre map[*RTPTransceiver]RTPTransceiverDirection,
	byMid func(string) *RTPTransceiver, rep any,
) {
	offer, answer := vScanSDP(offerText), vScanSDP(answerText)
	for _, o := range offer.Sections {
		if o.Media != "audio" && o.Media != "video" {
			continue
		}
		var a *vScanSection
		for _, s := range answer.Sections {
			if s.HasMid && s.Mid == o.Mid {
				a = s
			}
		}
		if a == nil || a.Port == "0" || o.Port == "0" {
			c.Outcome("section-not-answered-or-rejected") // C07's subject / no direction to judge

			continue
		}
		local := "none"
		var after string
		if tr := byMid(o.Mid); tr != nil {
			after = tr.Direction().String()
			if d, ok := pre[tr]; ok {
				local = d.String()
			}
		}
		offered, answered := vAnsDirOf(o), vAnsDirOf(a)
		class := fmt.Sprintf("offered=%s|local=%s|answered=%s|round=%s", offered, local, answered, c08RoundClass(round))
		c.State(fmt.Sprintf("%s|local=%s|offered=%s", part, after, offered))
		c.Distinct(part + "|" + class)
		if !vAnsLegalAnswerDir(o.Direction, a.Direction) {
			semKey := ""
			if i := strings.Index(part, "|sem="); i >= 0 {
				semKey = part[i:]
			}
			c.Violation("dir|"+class+semKey,
				fmt.Sprintf("%s, round %d: section mid %q offered a=%s, local transceiver direction before the offer was applied: %s, answered a=%s — not permitted by RFC 3264 section 6.1",
					part, round+1, o.Mid, offered, local, answered), rep)
		}
	}
}

func c08PreDirs(pc *PeerConnection) map[*RTPTransceiver]RTPTransceiverDirection {
	pre := map[*RTPTransceiver]RTPTransceiverDirection{}
	for _, tr := range pc.GetTransceivers() {
		pre[tr] = tr.Direction()
	}

	return pre
}

func c08Codec(kind string) []vScanOfferCodec {
	if kind == "video" {
		return []vScanOfferCodec{{PT: 96, Name: "VP8", Clock: 90000, FB: []string{"nack", "nack pli"}}}
	}

	return []vScanOfferCodec{{PT: 111, Name: "opus", Clock: 48000, Ch: 2, Fmtp: "minptime=10;useinbandfec=1"}}
}

// c08RunSynthetic runs one history against synthetic offers. It returns false if
// the history contains an inapplicable operation (it is then a duplicate of a
// shorter alphabet's history and is not counted).
func c08RunSynthetic(t *testing.T, c *vkit.Check, cs c08Case) (counted bool) {
	api := vNewAPI(t, vAPIOpts{virtualNet: true, setting: vAnsOfflineNet})
	var cfg *Configuration
	switch cs.Sem {
	case "planb":
		cfg = &Configuration{SDPSemantics: SDPSemanticsPlanB}
	case "fallback":
		cfg = &Configuration{SDPSemantics: SDPSemanticsUnifiedPlanWithFallback}
	}
	pc := vNewPC(t, api, cfg)
	defer func() { _ = pc.Close() }()
	counted = true
	c.Guard("case", map[string]any{"case": cs}, func() {
		l := &c08Local{t: t, pc: pc}
		mids := make([]string, len(cs.Kinds))
		for i, k := range cs.Kinds {
			mids[i] = fmt.Sprint(len(cs.Kinds) - 1 - i) // not the position
			if cs.Sem != "" {
				mids[i] = k // Plan-B: one section per kind, named after it
			}
			l.addTransceiver(vAnsKind(k), cs.Init[i])
		}
		for r, rd := range cs.Rounds {
			if !rd.Op.Mid {
				if st := l.apply(rd.Op, mids); st != c08OpDone {
					counted = st == c08OpRefused
					c.Outcome(fmt.Sprintf("local-op-ended-history-%d", st))

					return
				}
			}
			secs := make([]vAnsSection, len(cs.Kinds))
			for i, k := range cs.Kinds {
				secs[i] = vAnsSection{Media: k, Mid: mids[i], Dir: rd.Dirs[i], Codecs: c08Codec(k)}
			}
			offer := vAnsWriteOffer(secs, vAnsOfferOpts{Version: r})
			pre := c08PreDirs(pc)
			if err := pc.SetRemoteDescription(SessionDescription{Type: SDPTypeOffer, SDP: offer}); err != nil {
				c.Outcome("set-remote-error")

				return
			}
			if rd.Op.Mid {
				if st := l.apply(rd.Op, mids); st != c08OpDone {
					counted = st == c08OpRefused
					c.Outcome(fmt.Sprintf("local-op-ended-history-%d", st))

					return
				}
			}
			answer, err := pc.CreateAnswer(nil)
			if err != nil {
				c.Outcome("create-answer-error")

				return
			}
			c.Transition()
			c08Judge(c, "synthetic"+cs.semTag(), r, offer, answer.SDP, pre, l.byKindOrMid(cs, mids),
				map[string]any{"case": cs, "round": r + 1, "offer": strings.Split(offer, "\r\n"), "answer": strings.Split(answer.SDP, "\r\n")})
			if cs.Pranswer {
				pr := answer
				pr.Type = SDPTypePranswer
				if err := pc.SetLocalDescription(pr); err != nil {
					c.Outcome("set-local-pranswer-error")

					return
				}
				final, err := pc.CreateAnswer(nil)
				if err != nil {
					c.Outcome("create-final-answer-error")

					return
				}
				c.Transition()
				c08Judge(c, "synthetic-after-pranswer"+cs.semTag(), r, offer, final.SDP, pre, l.byKindOrMid(cs, mids),
					map[string]any{"case": cs, "round": r + 1, "offer": strings.Split(offer, "\r\n"), "answer": strings.Split(final.SDP, "\r\n")})
				answer = final
			}
			if err := pc.SetLocalDescription(answer); err != nil {
				c.Outcome("set-local-error")

				return
			}
			c.Outcome("round-completed")
		}
	})

	return counted
}

// ---- part B: a live pion peer as the offerer ----

type c08PairRound struct {
	Offerer int   `json:"offerer"` // 0 = peer A offers, 1 = peer B offers
	OpA     c08Op `json:"op_a"`
	OpB     c08Op `json:"op_b"`
}

type c08PairCase struct {
	Kinds  []string       `json:"kinds"`
	InitA  []string       `json:"init_a"` // recvonly | sendonly | sendrecv | inactive
	InitB  []string       `json:"init_b"`
	Rounds []c08PairRound `json:"rounds"`
}

func c08RunPair(t *testing.T, c *vkit.Check, cs c08PairCase) (counted bool) {
	api := func() *API { return vNewAPI(t, vAPIOpts{virtualNet: true, setting: vAnsOfflineNet}) }
	pcs := [2]*PeerConnection{vNewPC(t, api(), nil), vNewPC(t, api(), nil)}
	defer func() { _ = pcs[0].Close(); _ = pcs[1].Close() }()
	counted = true
	c.Guard("case", map[string]any{"pair_case": cs}, func() {
		ls := [2]*c08Local{{t: t, pc: pcs[0]}, {t: t, pc: pcs[1]}}
		for i, k := range cs.Kinds {
			ls[0].addTransceiver(vAnsKind(k), cs.InitA[i])
			ls[1].addTransceiver(vAnsKind(k), cs.InitB[i])
		}
		var mids []string
		for r, rd := range cs.Rounds {
			off, ans := ls[rd.Offerer], ls[1-rd.Offerer]
			// mids are those of the first offer, in order
			if r > 0 {
				sa := ls[0].apply(rd.OpA, mids)
				sb := c08OpDone
				if sa == c08OpDone {
					sb = ls[1].apply(rd.OpB, mids)
				}
				if sa != c08OpDone || sb != c08OpDone {
					counted = sa != c08OpInapplicable && sb != c08OpInapplicable
					c.Outcome("pair-local-op-ended-history")

					return
				}
			}
			offer, err := off.pc.CreateOffer(nil)
			if err != nil {
				c.Outcome("pair-create-offer-error")

				return
			}
			if err = off.pc.SetLocalDescription(offer); err != nil {
				c.Outcome("pair-set-local-offer-error")

				return
			}
			if r == 0 {
				for _, s := range vScanSDP(offer.SDP).Sections {
					mids = append(mids, s.Mid)
				}
			}
			pre := c08PreDirs(ans.pc)
			if err = ans.pc.SetRemoteDescription(offer); err != nil {
				c.Outcome("pair-set-remote-offer-error")

				return
			}
			answer, err := ans.pc.CreateAnswer(nil)
			if err != nil {
				c.Outcome("pair-create-answer-error")

				return
			}
			c.Transition()
			c08Judge(c, "pair", r, offer.SDP, answer.SDP, pre, ans.byMid,
				map[string]any{"pair_case": cs, "round": r + 1, "offer": strings.Split(offer.SDP, "\r\n"), "answer": strings.Split(answer.SDP, "\r\n")})
			if err = ans.pc.SetLocalDescription(answer); err != nil {
				c.Outcome("pair-set-local-answer-error")

				return
			}
			if err = off.pc.SetRemoteDescription(answer); err != nil {
				c.Outcome("pair-set-remote-answer-error")

				return
			}
			c.Outcome("pair-round-completed")
		}
	})

	return counted
}

// ---- enumeration ----

// c08Ops lists the operation alphabet for the section kinds.
func c08Ops(kinds []string, first, withMid bool) []c08Op {
	base := []c08Op{}
	seen := map[string]bool{}
	for _, k := range kinds {
		if !seen[k] {
			seen[k] = true
			base = append(base, c08Op{Kind: "add", Arg: k})
		}
	}
	for i := range kinds {
		base = append(base, c08Op{Kind: "remove", Sec: i})
	}
	for i := range kinds {
		base = append(base, c08Op{Kind: "setsender", Sec: i})
	}
	out := []c08Op{{}}
	if !first { // before the first offer the local side is given by Init
		out = append(out, base...)
	}
	if withMid {
		for _, o := range base {
			o.Mid = true
			out = append(out, o)
		}
	}

	return out
}

func c08DirTuples(n int) [][]string {
	var out [][]string
	for _, s := range vkit.AllSequences(len(vAnsDirs), n, n) {
		d := make([]string, n)
		for i, v := range s {
			d[i] = vAnsDirs[v]
		}
		out = append(out, d)
	}

	return out
}

func c08InitTuples(pool []string, n int) [][]string {
	var out [][]string
	for _, s := range vkit.AllSequences(len(pool), n, n) {
		d := make([]string, n)
		for i, v := range s {
			d[i] = pool[v]
		}
		out = append(out, d)
	}

	return out
}

// c08Plan bounds one family of synthetic histories.
type c08Plan struct {
	Kinds   []string `json:"kinds"`
	Rounds  int      `json:"rounds"`
	MidOps  bool     `json:"mid_ops"`   // operations between SetRemoteDescription and CreateAnswer too
	LastNop bool     `json:"last_nop"`  // the last round has no local operation (bounds the 3-round product)
	Count   int      `json:"histories"` // filled in
	Run     int      `json:"histories_without_inapplicable_operation"`
}

// c08Histories returns the number of histories of the plan and a decoder of the j-th one.
func c08Histories(p c08Plan) (int, func(j int) c08Case) {
	dirs := c08DirTuples(len(p.Kinds))
	inits := c08InitTuples(c08Inits, len(p.Kinds))
	opts := make([][]c08Round, p.Rounds)
	dims := []int{len(inits)}
	for r := 0; r < p.Rounds; r++ {
		ops := c08Ops(p.Kinds, r == 0, p.MidOps)
		if p.LastNop && r == p.Rounds-1 && r > 0 {
			ops = []c08Op{{}}
		}
		for _, op := range ops {
			for _, d := range dirs {
				opts[r] = append(opts[r], c08Round{Op: op, Dirs: d})
			}
		}
		dims = append(dims, len(opts[r]))
	}

	return vkit.ProductSize(dims...), func(j int) c08Case {
		ix := vkit.ProductIndex(j, dims...)
		cs := c08Case{Kinds: p.Kinds, Init: inits[ix[0]]}
		for r := 0; r < p.Rounds; r++ {
			cs.Rounds = append(cs.Rounds, opts[r][ix[r+1]])
		}

		return cs
	}
}

type c08PairPlan struct {
	Kinds  []string `json:"kinds"`
	Rounds int      `json:"rounds"`
	Count  int      `json:"histories"`
	Run    int      `json:"histories_without_inapplicable_operation"`
}

func c08PairHistories(p c08PairPlan) []c08PairCase {
	var rounds func(r int) [][]c08PairRound
	rounds = func(r int) [][]c08PairRound {
		if r == p.Rounds {
			return [][]c08PairRound{nil}
		}
		tails := rounds(r + 1)
		var out [][]c08PairRound
		offerers := []int{0, 1}
		ops := c08Ops(p.Kinds, false, false)
		if r == 0 {
			offerers, ops = []int{0}, []c08Op{{}}
		}
		for _, who := range offerers {
			for _, oa := range ops {
				for _, ob := range ops {
					for _, tl := range tails {
						out = append(out, append([]c08PairRound{{Offerer: who, OpA: oa, OpB: ob}}, tl...))
					}
				}
			}
		}

		return out
	}
	var out []c08PairCase
	for _, ia := range c08InitTuples(c08Inits[1:], len(p.Kinds)) {
		for _, ib := range c08InitTuples(c08Inits, len(p.Kinds)) {
			for _, rs := range rounds(0) {
				out = append(out, c08PairCase{Kinds: p.Kinds, InitA: ia, InitB: ib, Rounds: rs})
			}
		}
	}

	return out
}

func TestVerifC08(t *testing.T) {
	c := vkit.New("C08", "model_checking")
	defer c.Finish(t)
	c.Rule("history = (media kind per section, local transceiver per section before the first offer {none, recvonly, sendonly+track, sendrecv+track, inactive}, rounds); round = (local operation {none, AddTrack(kind), RemoveTrack(sender of section i), RTPTransceiver.SetSender(fresh sender) on section i} executed before the offer is applied or between SetRemoteDescription and CreateAnswer, offered direction per section in {sendrecv, sendonly, recvonly, inactive}); every round runs SetRemoteDescription(offer) -> CreateAnswer -> SetLocalDescription(answer) on one PeerConnection. Part B: two live PeerConnections, offerer per round, AddTrack/RemoveTrack on either side between rounds, full offer/answer exchange. State = per mid (local transceiver direction, offered direction); non-trivial = a judged (offered, local-before, answered, first/re-offer) combination")
	c.Assume("rejected (port 0) sections and sections absent from the answer are not judged here (C07)")
	c.Assume("the live offerer's directions are those reachable through pion's public API (AddTransceiverFrom*, AddTrack, RemoveTrack)")

	if raw, ok := c.ReplayCase(); ok {
		var wrap struct {
			Case     *c08Case     `json:"case"`
			PairCase *c08PairCase `json:"pair_case"`
		}
		if err := json.Unmarshal(raw, &wrap); err != nil || (wrap.Case == nil && wrap.PairCase == nil) {
			vkit.Fatalf(t, "replay case: %v", err)
		}
		c.Eval()
		c.Validated()
		if wrap.Case != nil {
			c08RunSynthetic(t, c, *wrap.Case)
		} else {
			c08RunPair(t, c, *wrap.PairCase)
		}

		return
	}

	var plans []c08Plan
	var pairPlans []c08PairPlan
	if c.Quick() {
		plans = []c08Plan{
			{Kinds: []string{"audio"}, Rounds: 2, MidOps: true},
			{Kinds: []string{"audio", "audio"}, Rounds: 2},
		}
		pairPlans = []c08PairPlan{{Kinds: []string{"audio"}, Rounds: 2}}
	} else {
		plans = []c08Plan{
			{Kinds: []string{"audio"}, Rounds: 3, MidOps: true},
			{Kinds: []string{"audio", "audio"}, Rounds: 2, MidOps: true},
			{Kinds: []string{"audio", "video"}, Rounds: 2},
			{Kinds: []string{"audio", "audio"}, Rounds: 3},
		}
		pairPlans = []c08PairPlan{
			{Kinds: []string{"audio"}, Rounds: 3},
			{Kinds: []string{"audio", "audio"}, Rounds: 2},
		}
	}
	for i := range plans {
		n, hist := c08Histories(plans[i])
		var run int64
		vkit.Parallel(n, func(j int) {
			if c08RunSynthetic(t, c, hist(j)) {
				c.Eval()
				c.Validated()
				atomic.AddInt64(&run, 1)
			}
			// the histories without two sections of one kind again on Plan-B shaped offers, for an answerer
			// configured with Plan B and with Unified Plan with fallback
			if len(plans[i].Kinds) == 1 || plans[i].Kinds[0] != plans[i].Kinds[len(plans[i].Kinds)-1] {
				for _, sem := range []string{"planb", "fallback"} {
					h := hist(j)
					h.Sem = sem
					planBOps := true
					for _, r := range h.Rounds {
						planBOps = planBOps && r.Op.Kind != "setsender"
					}
					if planBOps && c08RunSynthetic(t, c, h) {
						c.Eval()
						c.Validated()
					}
				}
			}
			// the single-section histories again with a provisional answer before the final one in every round
			if len(plans[i].Kinds) == 1 {
				h := hist(j)
				h.Pranswer = true
				if c08RunSynthetic(t, c, h) {
					c.Eval()
					c.Validated()
				}
			}
		})
		plans[i].Count = n
		plans[i].Run = int(run)
		if i == 0 {
			c.Sample(hist(n / 2))
		}
	}
	for i := range pairPlans {
		hs := c08PairHistories(pairPlans[i])
		var run int64
		vkit.Parallel(len(hs), func(j int) {
			if c08RunPair(t, c, hs[j]) {
				c.Eval()
				c.Validated()
				atomic.AddInt64(&run, 1)
			}
		})
		pairPlans[i].Count = len(hs)
		pairPlans[i].Run = int(run)
		if i == 0 {
			c.Sample(hs[len(hs)/2])
		}
	}
	c.Set("synthetic_plans", plans)
	c.Set("pair_plans", pairPlans)
	c.Set("max_rounds", c.Pick(2, 3))
	if c.Outcomes() < 2 {
		vkit.Fatalf(t, "vacuous: no negotiation round completed")
	}
}
