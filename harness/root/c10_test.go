package webrtc

// C10 — Each generated media section is internally consistent.
// Bounded exhaustive enumeration of configurations on the real code, one
// PeerConnection per case, no network:
//   offer mode : MediaEngine = subset of a pool of video registrations (two primaries
//                sharing a mime type, RTX with present / absent primary, malformed apt,
//                payload types 0/96/127) x registered header extensions (with direction
//                restrictions; also 16 at once) x transceiver direction x
//                SetCodecPreferences {none, reversed, first two, RTX first};
//                CreateOffer is called TWICE on the same connection.
//   answer mode: the same kind of local configuration answering synthetic remote offers
//                whose payload types and extmap ids differ from the local ones
//                (ids 1, 14, 15, 20, duplicate URIs, a codec offered under two payload
//                types, RTX with listed / unlisted apt); CreateAnswer twice, then
//                SetLocalDescription(answer) and a re-offer.
//   renumbering: (answer mode) a locally created transceiver whose SetCodecPreferences
//                carry LOCAL payload types incl. RTX pairs (every ordered arrangement of
//                VP8 96, rtx 97, H264 102, rtx 103) x remote offers that omit a preferred
//                primary, reuse its local number for the other codec or use fresh
//                numbers, RTX present/absent per primary.
// Oracle: the harness's own SDP line scanner (no pion/sdp) + the statement.

import (
	"encoding/json"
	"fmt"
	"strconv"
	"strings"
	"testing"

	"github.com/pion/transport/v4/vnet"
	"github.com/pion/webrtc/v4/internal/verif/vkit"
)

type c10Reg struct {
	PT   int      `json:"pt"`
	Name string   `json:"name"`
	Fmtp string   `json:"fmtp,omitempty"`
	FB   []string `json:"fb,omitempty"`
}

// registration order = pool order (unattached RTX entries sit in the middle on purpose)
var c10VideoPool = []c10Reg{
	{PT: 96, Name: "VP8", FB: []string{"nack", "nack pli"}},
	{PT: 97, Name: "rtx", Fmtp: "apt=96"},
	{PT: 50, Name: "rtx", Fmtp: "apt=77"}, // primary never registered
	{PT: 102, Name: "H264", Fmtp: "level-asymmetry-allowed=1;packetization-mode=1;profile-level-id=42001f", FB: []string{"nack"}},
	{PT: 103, Name: "rtx", Fmtp: "apt=102"},
	{PT: 51, Name: "rtx", Fmtp: "apt=abc"}, // malformed apt
	{PT: 104, Name: "H264", Fmtp: "level-asymmetry-allowed=1;packetization-mode=0;profile-level-id=42001f", FB: []string{"nack"}},
	{PT: 127, Name: "VP9", Fmtp: "profile-id=0", FB: []string{"goog-remb"}},
	{PT: 0, Name: "AV1"},
}

type c10Ext struct {
	URI          string
	Audio, Video bool
	Dirs         []RTPTransceiverDirection
}

const (
	c10URIMid   = "urn:ietf:params:rtp-hdrext:sdes:mid"
	c10URITWCC  = "http://www.ietf.org/id/draft-holmer-rmcat-transport-wide-cc-extensions-01"
	c10URILevel = "urn:ietf:params:rtp-hdrext:ssrc-audio-level"
	c10URIVO    = "urn:3gpp:video-orientation"
	c10URIAbs   = "http://www.webrtc.org/experiments/rtp-hdrext/abs-send-time"
)

var c10ExtPool = []c10Ext{
	{URI: c10URIMid, Audio: true, Video: true},
	{URI: c10URITWCC, Video: true},
	{URI: c10URILevel, Audio: true, Dirs: []RTPTransceiverDirection{RTPTransceiverDirectionRecvonly}},
	{URI: c10URIVO, Video: true, Dirs: []RTPTransceiverDirection{RTPTransceiverDirectionSendonly}},
	{URI: c10URIAbs, Audio: true, Video: true, Dirs: []RTPTransceiverDirection{RTPTransceiverDirectionRecvonly}},
}

// remote video codec entries (answer mode)
var c10RemotePool = []vScanOfferCodec{
	{PT: 100, Name: "VP8", Clock: 90000, FB: []string{"nack"}},
	{PT: 96, Name: "H264", Clock: 90000, Fmtp: "packetization-mode=1;profile-level-id=42001f", FB: []string{"nack"}}, // the local VP8's number
	{PT: 98, Name: "H264", Clock: 90000, Fmtp: "packetization-mode=0;profile-level-id=42001f"},
	{PT: 101, Name: "rtx", Clock: 90000, Fmtp: "apt=100"},
	{PT: 97, Name: "rtx", Clock: 90000, Fmtp: "apt=96"},
	{PT: 99, Name: "rtx", Clock: 90000, Fmtp: "apt=55"},
	{PT: 120, Name: "vp8", Clock: 90000, FB: []string{"nack", "nack pli"}}, // VP8 again under a second payload type
	{PT: 127, Name: "VP9", Clock: 90000, Fmtp: "profile-id=0"},
}

type c10RemoteExt struct {
	Name         string
	Audio, Video []vScanOfferExt
}

var c10RemoteExts = []c10RemoteExt{
	{Name: "none"},
	{Name: "ids-1-2-3", Audio: []vScanOfferExt{{1, c10URIMid}, {2, c10URILevel}}, Video: []vScanOfferExt{{1, c10URIMid}, {3, c10URITWCC}}},
	{Name: "ids-14-1-2", Audio: []vScanOfferExt{{14, c10URIMid}}, Video: []vScanOfferExt{{14, c10URIMid}, {1, c10URITWCC}, {2, c10URIVO}}},
	{Name: "id-15", Audio: []vScanOfferExt{{15, c10URIMid}}, Video: []vScanOfferExt{{15, c10URIMid}, {1, c10URITWCC}}},
	{Name: "id-20", Audio: []vScanOfferExt{{3, c10URIMid}}, Video: []vScanOfferExt{{20, c10URITWCC}, {3, c10URIMid}}},
	{Name: "uri-twice-in-section", Audio: []vScanOfferExt{{4, c10URIMid}}, Video: []vScanOfferExt{{4, c10URIMid}, {5, c10URIMid}}},
	{Name: "uri-other-id-per-section", Audio: []vScanOfferExt{{5, c10URIMid}}, Video: []vScanOfferExt{{6, c10URIMid}, {7, c10URITWCC}}},
	// a URI negotiated under a one-byte id by the first section and mapped to a two-byte id by the next one
	// (legal for the remote with extmap-allow-mixed), and the other way round
	{Name: "uri-valid-then-id-15", Audio: []vScanOfferExt{{5, c10URIMid}}, Video: []vScanOfferExt{{15, c10URIMid}, {7, c10URITWCC}}},
	{Name: "uri-id-20-then-valid", Audio: []vScanOfferExt{{20, c10URIMid}}, Video: []vScanOfferExt{{5, c10URIMid}, {7, c10URITWCC}}},
	{Name: "unknown-uri", Video: []vScanOfferExt{{2, c10URIAbs}, {7, "urn:example:unknown"}, {9, c10URIMid}}},
}

type c10Case struct {
	Mode      string `json:"mode"`   // "offer" | "answer"
	Codecs    []int  `json:"codecs"` // indexes into c10VideoPool, registration order
	Exts      []int  `json:"exts"`   // indexes into c10ExtPool; [-1] = 16 extensions at once
	Prefs     string `json:"prefs"`  // none | reversed | first2 | rtx-first
	Dir       string `json:"dir"`    // sendrecv | recvonly | sendonly | "" (answer mode: no local transceiver)
	Remote    []int  `json:"remote,omitempty"`
	RemoteExt int    `json:"remote_ext,omitempty"`
	// renumbering product (answer mode): explicit SetCodecPreferences list (indexes
	// into c10VideoPool, in order, with the LOCAL payload types) and an explicit
	// remote video codec list whose numbering differs from the local one
	PrefList     []int             `json:"pref_list,omitempty"`
	RemoteCodecs []vScanOfferCodec `json:"remote_codecs,omitempty"`
}

func c10Params(kind string, r c10Reg) RTPCodecParameters {
	var fb []RTCPFeedback
	for _, f := range r.FB {
		t, p, _ := strings.Cut(f, " ")
		fb = append(fb, RTCPFeedback{Type: t, Parameter: p})
	}
	clock, ch := uint32(90000), uint16(0)
	switch r.Name {
	case "opus":
		clock, ch = 48000, 2
	case "PCMU":
		clock = 8000
	}

	return RTPCodecParameters{
		RTPCodecCapability: RTPCodecCapability{MimeType: kind + "/" + r.Name, ClockRate: clock, Channels: ch, SDPFmtpLine: r.Fmtp, RTCPFeedback: fb},
		PayloadType:        PayloadType(r.PT),
	}
}

func c10VideoRegs(cs c10Case) []RTPCodecParameters {
	var out []RTPCodecParameters
	for _, i := range cs.Codecs {
		out = append(out, c10Params("video", c10VideoPool[i]))
	}

	return out
}

func c10Media(cs c10Case) func(m *MediaEngine) error {
	return func(m *MediaEngine) error {
		for _, r := range []c10Reg{{PT: 111, Name: "opus", Fmtp: "minptime=10;useinbandfec=1"}, {PT: 0, Name: "PCMU"}} {
			if err := m.RegisterCodec(c10Params("audio", r), RTPCodecTypeAudio); err != nil {
				return err
			}
		}
		for _, p := range c10VideoRegs(cs) {
			if err := m.RegisterCodec(p, RTPCodecTypeVideo); err != nil {
				return err
			}
		}
		exts := []c10Ext{}
		if len(cs.Exts) == 1 && cs.Exts[0] == -1 {
			for i := 0; i < 16; i++ {
				exts = append(exts, c10Ext{URI: fmt.Sprintf("urn:example:ext:%d", i), Audio: i%2 == 0, Video: true})
			}
		} else {
			for _, i := range cs.Exts {
				exts = append(exts, c10ExtPool[i])
			}
		}
		for _, e := range exts {
			if e.Audio {
				if err := m.RegisterHeaderExtension(RTPHeaderExtensionCapability{URI: e.URI}, RTPCodecTypeAudio, e.Dirs...); err != nil {
					return err
				}
			}
			if e.Video {
				if err := m.RegisterHeaderExtension(RTPHeaderExtensionCapability{URI: e.URI}, RTPCodecTypeVideo, e.Dirs...); err != nil {
					return err
				}
			}
		}

		return nil
	}
}

func c10PrefList(cs c10Case) []RTPCodecParameters {
	if cs.PrefList != nil {
		var out []RTPCodecParameters
		for _, i := range cs.PrefList {
			out = append(out, c10Params("video", c10VideoPool[i]))
		}

		return out
	}
	regs := c10VideoRegs(cs)
	switch cs.Prefs {
	case "reversed":
		for i, j := 0, len(regs)-1; i < j; i, j = i+1, j-1 {
			regs[i], regs[j] = regs[j], regs[i]
		}
	case "first2":
		if len(regs) > 2 {
			regs = regs[:2]
		}
	case "rtx-first":
		var rtx, rest []RTPCodecParameters
		for _, r := range regs {
			if strings.HasSuffix(r.MimeType, "/rtx") {
				rtx = append(rtx, r)
			} else {
				rest = append(rest, r)
			}
		}
		regs = append(rtx, rest...)
	default:
		return nil
	}

	return regs
}

// c10Check applies the statement to every RTP media section of one generated description.
func c10Check(c *vkit.Check, memo map[string]bool, cs c10Case, which, text string) {
	d := vScanSDP(text)
	for _, s := range d.Sections {
		if s.Media == "application" {
			continue
		}
		rep := map[string]any{"case": cs, "description": which, "section": s.Lines}
		cls := which + "|prefs=" + cs.Prefs
		viol := func(key, what string) {
			c.Violation(cls+"|"+key, fmt.Sprintf("%s, %s section (mid %q): %s; m-line %q", which, s.Media, s.Mid, what, s.Lines[0]), rep)
		}
		// the m= line lists each payload type once
		seen := map[string]bool{}
		for _, pt := range s.Formats {
			if seen[pt] {
				viol("payload-type-listed-twice|"+s.Media, "payload type "+pt+" is listed more than once")
			}
			seen[pt] = true
		}
		// every rtpmap/fmtp/rtcp-fb refers to a listed payload type
		for _, m := range s.Rtpmap {
			if !seen[m.PT] {
				viol("rtpmap-for-unlisted-payload-type|"+s.Media, "a=rtpmap:"+m.PT+" "+m.Name+" refers to a payload type the m= line does not list")
			}
		}
		for _, m := range s.Fmtp {
			if !seen[m.PT] {
				viol("fmtp-for-unlisted-payload-type|"+s.Media, "a=fmtp:"+m.PT+" refers to a payload type the m= line does not list")
			}
		}
		for _, m := range s.RtcpFb {
			if m.PT != "*" && !seen[m.PT] {
				viol("rtcp-fb-for-unlisted-payload-type|"+s.Media, "a=rtcp-fb:"+m.PT+" refers to a payload type the m= line does not list")
			}
		}
		// every RTX payload's apt names a listed payload type
		hasRTX := false
		for _, m := range s.Rtpmap {
			if !strings.EqualFold(m.Name, "rtx") {
				continue
			}
			hasRTX = true
			for _, f := range s.vScanFmtpFor(m.PT) {
				if apt, ok := vScanFmtpParam(f, "apt"); ok && !seen[apt] {
					viol("rtx-apt-not-listed", "RTX payload "+m.PT+" has apt="+apt+" which the m= line does not list")
				}
			}
		}
		// header extensions: ids unique, 1..14, URIs unique
		ids, uris := map[string]bool{}, map[string]bool{}
		for _, e := range s.Extmap {
			if ids[e.IDText] {
				viol("extmap-id-twice|"+s.Media, "extmap id "+e.IDText+" is used twice")
			}
			ids[e.IDText] = true
			if e.ID < 1 || e.ID > 14 {
				viol("extmap-id-outside-1-14|id="+e.IDText+"|"+s.Media, "extmap id "+e.IDText+" ("+e.URI+") is outside the one-byte range 1-14")
			}
			if uris[e.URI] {
				viol("extmap-uri-twice|"+s.Media, "extension "+e.URI+" appears twice")
			}
			uris[e.URI] = true
		}
		if s.Port != "0" && len(s.Formats) > 0 {
			k := fmt.Sprintf("%s|%s|pts=%d|rtx=%v|ext=%d", which, s.Media, min(len(s.Formats), 4), hasRTX, min(len(s.Extmap), 4))
			if !memo[k] {
				memo[k] = true
				c.Distinct(k)
			}
		}
	}
}

func c10Typ(kind string) RTPCodecType {
	if kind == "audio" {
		return RTPCodecTypeAudio
	}

	return RTPCodecTypeVideo
}

func c10Dir(d string) RTPTransceiverDirection {
	switch d {
	case "recvonly":
		return RTPTransceiverDirectionRecvonly
	case "sendonly":
		return RTPTransceiverDirectionSendonly
	}

	return RTPTransceiverDirectionSendrecv
}

func c10Offer(cs c10Case) string {
	audio := vScanOfferSection{Media: "audio", Mid: "0", Dir: "sendrecv", Ext: c10RemoteExts[cs.RemoteExt].Audio, Codecs: []vScanOfferCodec{
		{PT: 109, Name: "OPUS", Clock: 48000, Ch: 2, Fmtp: "minptime=10;useinbandfec=1"}, {PT: 0, Name: "PCMU", Clock: 8000},
	}}
	video := vScanOfferSection{Media: "video", Mid: "1", Dir: "sendrecv", Ext: c10RemoteExts[cs.RemoteExt].Video}
	for _, i := range cs.Remote {
		video.Codecs = append(video.Codecs, c10RemotePool[i])
	}
	video.Codecs = append(video.Codecs, cs.RemoteCodecs...)

	return vScanWriteOffer([]vScanOfferSection{audio, video})
}

func c10Run(t *testing.T, c *vkit.Check, memo map[string]bool, cs c10Case) {
	api := vNewAPI(t, vAPIOpts{
		media: c10Media(cs),
		setting: func(s *SettingEngine) {
			if n, err := vnet.NewNet(&vnet.NetConfig{}); err == nil {
				s.SetNet(n)
			}
		},
	})
	pc := vNewPC(t, api, nil)
	defer func() { _ = pc.Close() }()
	outcome := func(k string) {
		if !memo["o"+k] {
			memo["o"+k] = true
			c.Outcome(k)
		}
	}
	c.Guard("case", cs, func() {
		if cs.Dir != "" {
			if _, err := pc.AddTransceiverFromKind(RTPCodecTypeAudio, RTPTransceiverInit{Direction: RTPTransceiverDirectionRecvonly}); err != nil {
				panic(fmt.Sprintf("harness: audio transceiver: %v", err))
			}
			tr, err := pc.AddTransceiverFromKind(RTPCodecTypeVideo, RTPTransceiverInit{Direction: c10Dir(cs.Dir)})
			if err != nil {
				outcome("transceiver-error")

				return
			}
			if prefs := c10PrefList(cs); prefs != nil {
				if err := tr.SetCodecPreferences(prefs); err != nil {
					outcome("prefs-rejected")

					return
				}
			}
		}
		if cs.Mode == "offer" {
			for n := 1; n <= 2; n++ {
				offer, err := pc.CreateOffer(nil)
				if err != nil {
					outcome("offer-error")

					return
				}
				outcome("offer")
				c10Check(c, memo, cs, "offer#"+strconv.Itoa(n), offer.SDP)
			}

			return
		}
		if err := pc.SetRemoteDescription(SessionDescription{Type: SDPTypeOffer, SDP: c10Offer(cs)}); err != nil {
			outcome("set-remote-error")

			return
		}
		var last SessionDescription
		for n := 1; n <= 2; n++ {
			answer, err := pc.CreateAnswer(nil)
			if err != nil {
				outcome("answer-error")

				return
			}
			outcome("answer")
			c10Check(c, memo, cs, "answer", answer.SDP)
			last = answer
		}
		if err := pc.SetLocalDescription(last); err != nil {
			outcome("set-local-error")

			return
		}
		reoffer, err := pc.CreateOffer(nil)
		if err != nil {
			outcome("reoffer-error")

			return
		}
		outcome("reoffer")
		c10Check(c, memo, cs, "reoffer", reoffer.SDP)
		// later rounds from the same remote peer: the same sections and codecs, but the header extensions
		// remapped (a URI negotiated under a one-byte id is now offered under 15 / 20, then under small ids again)
		if len(cs.RemoteCodecs) > 0 {
			return
		}
		for _, rx2 := range c10LaterRounds {
			cs2 := cs
			cs2.RemoteExt = rx2
			if err := pc.SetRemoteDescription(SessionDescription{Type: SDPTypeOffer, SDP: c10Offer(cs2)}); err != nil {
				outcome("later-offer-rejected")

				return
			}
			answer, err := pc.CreateAnswer(nil)
			if err != nil {
				outcome("later-answer-error")

				return
			}
			outcome("later-answer")
			c10Check(c, memo, cs, "answer-after-remap-to-"+c10RemoteExts[rx2].Name, answer.SDP)
			if err := pc.SetLocalDescription(answer); err != nil {
				outcome("later-set-local-error")

				return
			}
		}
	})
}

// c10LaterRounds: extmap variants of the second, third and fourth remote offer on the same connection.
var c10LaterRounds = []int{3, 4, 1}

// c10RenumberedOffers: remote video codec lists built from VP8 and H264 (the two
// primaries of the renumbering product) where each is absent or carries its local
// number, the OTHER primary's local number, or a fresh number; an RTX (number+1,
// apt=number) present or absent per primary; both orders.
func c10RenumberedOffers() [][]vScanOfferCodec {
	const h264Fmtp = "level-asymmetry-allowed=1;packetization-mode=1;profile-level-id=42001f"
	var out [][]vScanOfferCodec
	for _, vp8 := range []int{-1, 96, 102, 100} {
		for _, h264 := range []int{-1, 102, 96, 98} {
			if vp8 == h264 {
				continue // both absent, or one number for two codecs
			}
			for rtxMask := 0; rtxMask < 4; rtxMask++ {
				if (vp8 < 0 && rtxMask&1 != 0) || (h264 < 0 && rtxMask&2 != 0) {
					continue
				}
				var a, b []vScanOfferCodec
				if vp8 >= 0 {
					a = append(a, vScanOfferCodec{PT: vp8, Name: "VP8", Clock: 90000, FB: []string{"nack", "nack pli"}})
					if rtxMask&1 != 0 {
						a = append(a, vScanOfferCodec{PT: vp8 + 1, Name: "rtx", Clock: 90000, Fmtp: fmt.Sprintf("apt=%d", vp8)})
					}
				}
				if h264 >= 0 {
					b = append(b, vScanOfferCodec{PT: h264, Name: "H264", Clock: 90000, Fmtp: h264Fmtp, FB: []string{"nack"}})
					if rtxMask&2 != 0 {
						b = append(b, vScanOfferCodec{PT: h264 + 1, Name: "rtx", Clock: 90000, Fmtp: fmt.Sprintf("apt=%d", h264)})
					}
				}
				out = append(out, append(append([]vScanOfferCodec{}, a...), b...))
				if len(a) > 0 && len(b) > 0 {
					out = append(out, append(append([]vScanOfferCodec{}, b...), a...))
				}
			}
		}
	}

	return out
}

// c10FoldedOffers: remote video lists in which one codec appears under two payload types (both fold onto the
// one local registration), with an RTX for both / the first / the second / none, interleaved or grouped.
func c10FoldedOffers() [][]vScanOfferCodec {
	const h264Fmtp = "level-asymmetry-allowed=1;packetization-mode=1;profile-level-id=42001f"
	var out [][]vScanOfferCodec
	for _, name := range []string{"VP8", "H264"} {
		for _, pts := range [][2]int{{96, 98}, {100, 120}} {
			for mask := 0; mask < 4; mask++ {
				prim := func(pt int) vScanOfferCodec {
					c := vScanOfferCodec{PT: pt, Name: name, Clock: 90000, FB: []string{"nack"}}
					if name == "H264" {
						c.Fmtp = h264Fmtp
					}

					return c
				}
				rtx := func(pt int) vScanOfferCodec {
					return vScanOfferCodec{PT: pt + 1, Name: "rtx", Clock: 90000, Fmtp: fmt.Sprintf("apt=%d", pt)}
				}
				var inter, grouped, tail []vScanOfferCodec
				for k, pt := range pts {
					inter = append(inter, prim(pt))
					grouped = append(grouped, prim(pt))
					if mask&(1<<k) != 0 {
						inter = append(inter, rtx(pt))
						tail = append(tail, rtx(pt))
					}
				}
				grouped = append(grouped, tail...)
				out = append(out, inter)
				if mask != 0 {
					out = append(out, grouped)
				}
			}
		}
	}

	return out
}

// c10Arrangements returns every non-empty ordered arrangement of distinct elements of set.
func c10Arrangements(set []int) [][]int {
	var out [][]int
	used := make([]bool, len(set))
	var cur []int
	var rec func()
	rec = func() {
		if len(cur) > 0 {
			out = append(out, append([]int{}, cur...))
		}
		for i, v := range set {
			if used[i] {
				continue
			}
			used[i] = true
			cur = append(cur, v)
			rec()
			cur = cur[:len(cur)-1]
			used[i] = false
		}
	}
	rec()

	return out
}

func c10Subsets(n, k int) [][]int {
	var out [][]int
	for size := 0; size <= k; size++ {
		idx := make([]int, size)
		var rec func(pos, from int)
		rec = func(pos, from int) {
			if pos == size {
				out = append(out, append([]int{}, idx...))

				return
			}
			for v := from; v < n; v++ {
				idx[pos] = v
				rec(pos+1, v+1)
			}
		}
		rec(0, 0)
	}

	return out
}

// c10CrossKind: an extension registered for ONE kind only; the remote maps its URI - under two different ids - in
// sections of the OTHER kind (two video sections of one offer, or two successive offers); the local side then
// offers the registered kind itself (AddTransceiverFromKind + CreateOffer) while that kind was never negotiated.
// Every generated description is judged like all others (each URI once per section, ids unique and in range).
func c10CrossKind(t *testing.T, c *vkit.Check) {
	const uri = "urn:ietf:params:rtp-hdrext:ssrc-audio-level"
	vp8 := []vScanOfferCodec{{PT: 96, Name: "VP8", Clock: 90000, FB: []string{"nack", "nack pli"}}}
	video := func(mid string, id int) vScanOfferSection {
		return vScanOfferSection{Media: "video", Mid: mid, Dir: "sendrecv", Codecs: vp8, Ext: []vScanOfferExt{{ID: id, URI: uri}}}
	}
	for _, shape := range []string{"two-sections-one-offer", "two-successive-offers"} {
		for _, registered := range []string{"audio", "video"} {
			c.Eval()
			cs := c10Case{Mode: "cross-kind", Prefs: "none"}
			rep := map[string]any{"shape": shape, "registered_for": registered}
			c.Guard("cross-kind", rep, func() {
				api := vNewAPI(t, vAPIOpts{virtualNet: true, media: func(m *MediaEngine) error {
					if err := m.RegisterDefaultCodecs(); err != nil {
						return err
					}

					return m.RegisterHeaderExtension(RTPHeaderExtensionCapability{URI: uri}, c10Typ(registered))
				}})
				pc := vNewPC(t, api, nil)
				defer func() { _ = pc.Close() }()
				other := map[string]string{"audio": "video", "video": "audio"}[registered]
				sec := func(mid string, id int) vScanOfferSection {
					s := video(mid, id)
					if other == "audio" {
						s.Media = "audio"
						s.Codecs = []vScanOfferCodec{{PT: 111, Name: "opus", Clock: 48000, Ch: 2, Fmtp: "minptime=10;useinbandfec=1"}}
					}

					return s
				}
				offers := [][]vScanOfferSection{{sec("0", 3), sec("1", 5)}}
				if shape == "two-successive-offers" {
					offers = [][]vScanOfferSection{{sec("0", 3)}, {sec("0", 5)}}
				}
				for i, o := range offers {
					if err := pc.SetRemoteDescription(SessionDescription{Type: SDPTypeOffer, SDP: vScanWriteOffer(o)}); err != nil {
						c.Outcome("cross-kind-offer-rejected")

						return
					}
					a, err := pc.CreateAnswer(nil)
					if err != nil {
						c.Outcome("cross-kind-answer-error")

						return
					}
					c10Check(c, map[string]bool{}, cs, fmt.Sprintf("cross-kind-answer-%d|%s|registered=%s", i+1, shape, registered), a.SDP)
					if err = pc.SetLocalDescription(a); err != nil {
						c.Outcome("cross-kind-set-local-error")

						return
					}
				}
				if _, err := pc.AddTransceiverFromKind(c10Typ(registered)); err != nil {
					c.Outcome("cross-kind-add-transceiver-error")

					return
				}
				off, err := pc.CreateOffer(nil)
				if err != nil {
					c.Outcome("cross-kind-offer-error")

					return
				}
				c10Check(c, map[string]bool{}, cs, fmt.Sprintf("cross-kind-offer|%s|registered=%s", shape, registered), off.SDP)
				c.Distinct("cross-kind|" + shape + "|" + registered)
			})
		}
	}
}

func TestVerifC10(t *testing.T) {
	c := vkit.New("C10", "exploration")
	defer c.Finish(t)
	c.Rule("case = (subset of the video registration pool in pool order, set of registered header extensions, transceiver direction, SetCodecPreferences variant) and, in answer mode, (sequence of remote video codec entries, remote extmap variant); every generated description (offer#1, offer#2 on the same connection; answer#1, answer#2, re-offer after SetLocalDescription(answer)) is scanned by the harness's own SDP scanner and every RTP section is judged; non-trivial = an accepted section with at least one payload type, classed by (description, kind, #payload types, RTX present, #extmap)")
	c.Assume("an RTX payload without any apt parameter is not judged (the statement speaks about the RTX payload's apt)")

	if raw, ok := c.ReplayCase(); ok {
		var wrap struct {
			Case c10Case `json:"case"`
		}
		if err := json.Unmarshal(raw, &wrap); err != nil || wrap.Case.Mode == "" {
			vkit.Fatalf(t, "replay case: %v", err)
		}
		c.Eval()
		c10Run(t, c, map[string]bool{}, wrap.Case)

		return
	}

	c10CrossKind(t, c)
	var cases []c10Case
	// ---- offer mode ----
	codecSubsets := c10Subsets(len(c10VideoPool), c.Pick(3, 4))[1:] // non-empty
	extSets := c10Subsets(len(c10ExtPool), c.Pick(2, 3))
	extSets = append(extSets, []int{-1})
	if c.Quick() {
		extSets = [][]int{{}, {0, 1}, {0, 3}, {2, 4}, {0, 1, 3}, {-1}}
	}
	nOffer := 0
	for _, cod := range codecSubsets {
		for ei, ex := range extSets {
			for _, dir := range []string{"sendrecv", "recvonly", "sendonly"} {
				for _, prefs := range []string{"none", "reversed", "first2", "rtx-first"} {
					// the codec-list dimensions and the extension dimensions are independent in
					// the code (getCodecs vs getRTPParametersByKind): full product of codecs x
					// prefs with one extension set, full product of extensions x directions
					// with prefs "none"
					if prefs != "none" && ei != len(extSets)/2 {
						continue
					}
					if prefs != "none" && dir == "sendonly" {
						continue
					}
					cases = append(cases, c10Case{Mode: "offer", Codecs: cod, Exts: ex, Prefs: prefs, Dir: dir})
					nOffer++
				}
			}
		}
	}
	// ---- answer mode ----
	remoteSeqs := vkit.AllSequences(len(c10RemotePool), 1, c.Pick(2, 3))
	localSubsets := c10Subsets(len(c10VideoPool), c.Pick(1, 2))[1:]
	if c.Quick() {
		// quick: single registrations plus the pairs primary + its RTX / + an unattached RTX / + a malformed RTX
		// (an answer of a transceiver created from the offer carries RTX only when the engine has the pair)
		localSubsets = append(localSubsets, []int{0, 1}, []int{3, 4}, []int{0, 2}, []int{0, 5})
	}
	localExt := [][]int{{}, {0, 1}, {0, 1, 2, 3, 4}}
	if !c.Quick() {
		localExt = append(localExt, []int{0}, []int{1, 3}, []int{0, 2, 4})
	}
	nAnswer := 0
	for _, seq := range remoteSeqs {
		dup := false
		for i := range seq {
			for j := 0; j < i; j++ {
				dup = dup || seq[i] == seq[j]
			}
		}
		if dup {
			continue
		}
		for rx := range c10RemoteExts {
			for _, cod := range localSubsets {
				for li, ex := range localExt {
					for _, dir := range []string{"", "sendrecv"} {
						// remote extmap variants only matter with local extensions registered;
						// with none registered one remote variant is enough
						if len(ex) == 0 && rx > 1 {
							continue
						}
						// length-3 remote sequences: one local extension set
						if len(seq) > 2 && li != 2 {
							continue
						}
						// quick tier: the pre-existing-transceiver variant with one extension set only
						if c.Quick() && dir != "" && li != 1 {
							continue
						}
						cases = append(cases, c10Case{Mode: "answer", Codecs: cod, Exts: ex, Prefs: "none", Dir: dir, Remote: seq, RemoteExt: rx})
						nAnswer++
					}
				}
			}
		}
	}
	// ---- answer mode, renumbering product ----
	// local registrations VP8 96, rtx 97 apt=96, H264 102, rtx 103 apt=102; a locally
	// created transceiver with SetCodecPreferences = every ordered arrangement of 1..4 of
	// them WITH the local payload types; remote offers that leave a preferred primary
	// out, reuse its local number for the other codec, or use fresh numbers.
	renumRegs := []int{0, 1, 3, 4}
	renumOffers := c10RenumberedOffers()
	renumPrefs := c10Arrangements(renumRegs)
	renumDirs := []string{"recvonly"}
	if !c.Quick() {
		renumDirs = []string{"recvonly", "sendrecv"}
	}
	nRenum := 0
	for _, prefs := range renumPrefs {
		for _, offer := range renumOffers {
			for _, dir := range renumDirs {
				cases = append(cases, c10Case{Mode: "answer", Codecs: renumRegs, Exts: []int{0, 1}, Prefs: "explicit-local-pt", Dir: dir, PrefList: prefs, RemoteCodecs: offer, RemoteExt: 1})
				nRenum++
			}
		}
	}
	// ---- answer mode, no preferences: the renumbered offers again, and offers that list one codec twice
	// (two payload types that fold onto one local registration), each with / without its own RTX ----
	nFold := 0
	for _, offer := range append(append([][]vScanOfferCodec{}, renumOffers...), c10FoldedOffers()...) {
		for _, dir := range []string{"", "sendrecv"} {
			cases = append(cases, c10Case{Mode: "answer", Codecs: renumRegs, Exts: []int{0, 1}, Prefs: "none", Dir: dir, RemoteCodecs: offer, RemoteExt: 1})
			nFold++
		}
	}
	c.Set("folded_and_renumbered_offer_cases_without_preferences", nFold)
	c.Set("renumbering_cases", nRenum)
	c.Set("renumbering_pref_lists", len(renumPrefs))
	c.Set("renumbering_remote_offers", len(renumOffers))
	c.Set("video_registration_pool", len(c10VideoPool))
	c.Set("header_extension_pool", len(c10ExtPool))
	c.Set("offer_cases", nOffer)
	c.Set("answer_cases", nAnswer)
	c.Set("remote_codec_pool", len(c10RemotePool))
	c.Set("remote_extmap_variants", len(c10RemoteExts))
	c.Sample(cases[nOffer/3])
	c.Sample(cases[nOffer+nAnswer/2])
	c.Sample(cases[nOffer+nAnswer+nRenum/2])

	const chunk = 64
	nChunks := (len(cases) + chunk - 1) / chunk
	vkit.Parallel(nChunks, func(ci int) {
		memo := map[string]bool{}
		hi := min((ci+1)*chunk, len(cases))
		for _, cs := range cases[ci*chunk : hi] {
			c10Run(t, c, memo, cs)
		}
		c.EvalN(hi - ci*chunk)
	})
	if c.Outcomes() < 2 {
		vkit.Fatalf(t, "vacuous: outcomes=%d", c.Outcomes())
	}
}
