package webrtc

// vPair — the "pair" engine of the verification harnesses (DESIGN.md section 2.6):
// two real PeerConnections of this package connected in-process over the loopback
// interface (host candidates on "lo" only, UDP4, mDNS off, candidates carried in the
// SDP after gathering completed). The configuration / input matrix of a check is
// enumerated by the check; the internal schedule of ICE/DTLS/SCTP/SRTP is whatever
// happens. Every wait is a wait for an event (a channel closed or fed by a handler)
// with a long liveness guard that ends the process with a VERIF-ERROR (exit 2 in the
// driver) - never a violation, never a sleep used as synchronisation.
//
// This file is injected by `go test -overlay`; it is not part of pion/webrtc.

import (
	"fmt"
	"os"
	"runtime"
	"strings"
	"sync"
	"testing"
	"time"

	"github.com/pion/ice/v4"
	"github.com/pion/interceptor"
	"github.com/pion/logging"
	"github.com/pion/transport/v4/stdnet"
)

// vPairGuard is the liveness guard of every wait of the pair engine.
const vPairGuard = 90 * time.Second

// vPairFatalf reports a machinery error and ends the process (usable from any goroutine).
func vPairFatalf(format string, args ...any) {
	fmt.Printf("VERIF-ERROR "+format+"\n", args...)
	if os.Getenv("VERIF_PAIR_STACKS") != "" {
		buf := make([]byte, 1<<20)
		fmt.Printf("%s\n", buf[:runtime.Stack(buf, true)])
	}
	os.Exit(2)
}

// vPairWait waits for ch to be closed (or to deliver); the guard is a liveness guard only.
func vPairWait(ch <-chan struct{}, what string) {
	t := time.NewTimer(vPairGuard)
	defer t.Stop()
	select {
	case <-ch:
	case <-t.C:
		vPairFatalf("liveness guard (%s) expired while waiting for: %s", vPairGuard, what)
	}
}

// vPairAPIOpts configures one side of a pair.
type vPairAPIOpts struct {
	Media        func(m *MediaEngine) error // nil: RegisterDefaultCodecs
	Setting      func(s *SettingEngine)     // applied after the loopback settings
	Interceptors bool                       // true: RegisterDefaultInterceptors (NACK/RTX responder, reports, TWCC)
	// Registry, when set, adds the check's own interceptors BEFORE the default ones: on the
	// receive path they sit between SRTP and the default interceptors (e.g. the NACK generator).
	Registry func(r *interceptor.Registry)
}

// vPairNewAPI builds an API whose ICE agent gathers host candidates on the loopback interface only.
func vPairNewAPI(tb testing.TB, o vPairAPIOpts) *API {
	tb.Helper()
	m := &MediaEngine{}
	if o.Media != nil {
		if err := o.Media(m); err != nil {
			vPairFatalf("media engine: %v", err)
		}
	} else if err := m.RegisterDefaultCodecs(); err != nil {
		vPairFatalf("RegisterDefaultCodecs: %v", err)
	}
	s := SettingEngine{}
	lf := logging.NewDefaultLoggerFactory()
	lf.DefaultLogLevel = logging.LogLevelDisabled
	lf.ScopeLevels = map[string]logging.LogLevel{}
	s.LoggerFactory = lf
	s.SetIncludeLoopbackCandidate(true)
	s.SetInterfaceFilter(func(n string) bool { return n == "lo" })
	s.SetICEMulticastDNSMode(ice.MulticastDNSModeDisabled)
	s.SetNetworkTypes([]NetworkType{NetworkTypeUDP4})
	if n := vPairSharedNet(); n != nil {
		s.SetNet(n)
	}
	if o.Setting != nil {
		o.Setting(&s)
	}
	reg := &interceptor.Registry{}
	if o.Registry != nil {
		o.Registry(reg)
	}
	if o.Interceptors {
		if err := RegisterDefaultInterceptorsWithOptions(m, reg, WithInterceptorLoggerFactory(lf)); err != nil {
			vPairFatalf("RegisterDefaultInterceptors: %v", err)
		}
	}

	return NewAPI(WithMediaEngine(m), WithSettingEngine(s), WithInterceptorRegistry(reg))
}

var (
	vPairNetOnce sync.Once
	vPairNet     *stdnet.Net
)

// vPairSharedNet is the real network, with the interface list read ONCE per process: left to itself every ICE
// agent asks the kernel for it again, and under load that fails now and then ("netlinkrib: value too large
// for defined data type"), which would end a case with "could not decide".
func vPairSharedNet() *stdnet.Net {
	vPairNetOnce.Do(func() {
		for try := 0; try < 20; try++ {
			if n, err := stdnet.NewNet(); err == nil {
				vPairNet = n

				return
			}
			time.Sleep(50 * time.Millisecond)
		}
	})

	return vPairNet
}

// vPairNewPC creates a PeerConnection (shared harness certificate unless cfg names certificates).
func vPairNewPC(tb testing.TB, api *API, cfg *Configuration) *PeerConnection {
	tb.Helper()
	c := Configuration{}
	if cfg != nil {
		c = *cfg
	}
	if len(c.Certificates) == 0 {
		c.Certificates = []Certificate{vSharedCert()}
	}
	pc, err := api.NewPeerConnection(c)
	if err != nil {
		vPairFatalf("NewPeerConnection: %v", err)
	}

	return pc
}

// vPairSide is one PeerConnection of a pair with its observed state events.
type vPairSide struct {
	Name string
	PC   *PeerConnection

	mu         sync.Mutex
	pcStates   []PeerConnectionState
	dtlsStates []DTLSTransportState
	pcCh       map[PeerConnectionState]chan struct{}
	dtlsCh     map[DTLSTransportState]chan struct{}
}

func vPairNewSide(name string, pc *PeerConnection) *vPairSide {
	s := &vPairSide{
		Name: name, PC: pc,
		pcCh:   map[PeerConnectionState]chan struct{}{},
		dtlsCh: map[DTLSTransportState]chan struct{}{},
	}
	pc.OnConnectionStateChange(func(st PeerConnectionState) {
		s.mu.Lock()
		s.pcStates = append(s.pcStates, st)
		ch := s.pcChLocked(st)
		s.mu.Unlock()
		vPairCloseOnce(ch)
	})
	// The PeerConnection uses the single OnStateChange slot of its DTLSTransport itself:
	// chain to it instead of replacing it. The handler runs synchronously with the state
	// change (under the transport's lock), so the recorded order is the order of the changes.
	dt := pc.dtlsTransport
	dt.lock.Lock()
	prev := dt.onStateChangeHandler
	dt.onStateChangeHandler = func(st DTLSTransportState) {
		s.mu.Lock()
		s.dtlsStates = append(s.dtlsStates, st)
		ch := s.dtlsChLocked(st)
		s.mu.Unlock()
		vPairCloseOnce(ch)
		if prev != nil {
			prev(st)
		}
	}
	dt.lock.Unlock()

	return s
}

func vPairCloseOnce(ch chan struct{}) {
	defer func() { _ = recover() }()
	close(ch)
}

func (s *vPairSide) pcChLocked(st PeerConnectionState) chan struct{} {
	ch, ok := s.pcCh[st]
	if !ok {
		ch = make(chan struct{})
		s.pcCh[st] = ch
	}

	return ch
}

func (s *vPairSide) dtlsChLocked(st DTLSTransportState) chan struct{} {
	ch, ok := s.dtlsCh[st]
	if !ok {
		ch = make(chan struct{})
		s.dtlsCh[st] = ch
	}

	return ch
}

// PCReached is closed once the PeerConnection reported state st.
func (s *vPairSide) PCReached(st PeerConnectionState) <-chan struct{} {
	s.mu.Lock()
	defer s.mu.Unlock()

	return s.pcChLocked(st)
}

// DTLSReached is closed once the DTLS transport reported state st.
func (s *vPairSide) DTLSReached(st DTLSTransportState) <-chan struct{} {
	s.mu.Lock()
	defer s.mu.Unlock()

	return s.dtlsChLocked(st)
}

// DTLSStates returns the DTLS transport states reported so far, in order.
func (s *vPairSide) DTLSStates() []string {
	s.mu.Lock()
	defer s.mu.Unlock()
	out := make([]string, 0, len(s.dtlsStates))
	for _, st := range s.dtlsStates {
		out = append(out, st.String())
	}

	return out
}

// PCStates returns the PeerConnection states reported so far, in order.
func (s *vPairSide) PCStates() []string {
	s.mu.Lock()
	defer s.mu.Unlock()
	out := make([]string, 0, len(s.pcStates))
	for _, st := range s.pcStates {
		out = append(out, st.String())
	}

	return out
}

// vPair is two PeerConnections to be connected over loopback.
type vPair struct {
	A, B *vPairSide
	once sync.Once
}

// vPairOpts configures a pair; side A and side B may differ.
type vPairOpts struct {
	A, B       vPairAPIOpts
	CfgA, CfgB *Configuration
}

// vPairNew creates both PeerConnections (not yet connected).
func vPairNew(tb testing.TB, o vPairOpts) *vPair {
	tb.Helper()
	a := vPairNewPC(tb, vPairNewAPI(tb, o.A), o.CfgA)
	b := vPairNewPC(tb, vPairNewAPI(tb, o.B), o.CfgB)

	return &vPair{A: vPairNewSide("A", a), B: vPairNewSide("B", b)}
}

// Close closes both PeerConnections (idempotent).
func (p *vPair) Close() {
	p.once.Do(func() {
		_ = p.A.PC.Close()
		_ = p.B.PC.Close()
	})
}

// vPairLocal creates the offer (or answer), applies it locally, waits for the end of
// candidate gathering and returns the local description including the candidates.
func vPairLocal(pc *PeerConnection, offer bool) (SessionDescription, error) {
	var (
		d   SessionDescription
		err error
	)
	if offer {
		d, err = pc.CreateOffer(nil)
	} else {
		d, err = pc.CreateAnswer(nil)
	}
	if err != nil {
		return SessionDescription{}, err
	}
	done := GatheringCompletePromise(pc)
	if err = pc.SetLocalDescription(d); err != nil {
		return SessionDescription{}, err
	}
	vPairWait(done, "ICE gathering complete")
	ld := pc.LocalDescription()
	if ld == nil {
		return SessionDescription{}, fmt.Errorf("no local description after SetLocalDescription") //nolint:err113
	}

	return *ld, nil
}

// vPairSignalHooks lets a check look at / edit the descriptions in transit.
type vPairSignalHooks struct {
	// Offer / Answer receive the description as produced by the sender and return the
	// description that is applied on the receiving side (nil: unchanged).
	Offer  func(d SessionDescription) SessionDescription
	Answer func(d SessionDescription) SessionDescription
}

// vPairSignalResult is what the offer/answer exchange produced.
type vPairSignalResult struct {
	Offer, Answer                 SessionDescription // as produced (before a hook edited them)
	OfferApplied, AnswerApplied   SessionDescription // as applied on the receiving side
	OfferApplyErr, AnswerApplyErr error              // SetRemoteDescription errors (a check may expect them)
}

// Signal runs one offer/answer exchange, offerer -> answerer. Errors of the local steps
// (CreateOffer, SetLocalDescription, ...) are machinery errors; errors of applying a
// remote description are returned (the exchange stops there).
func (p *vPair) Signal(offerer, answerer *vPairSide, h vPairSignalHooks) vPairSignalResult {
	var r vPairSignalResult
	offer, err := vPairLocal(offerer.PC, true)
	if err != nil {
		vPairFatalf("offer on %s: %v", offerer.Name, err)
	}
	r.Offer, r.OfferApplied = offer, offer
	if h.Offer != nil {
		r.OfferApplied = h.Offer(offer)
	}
	if err = answerer.PC.SetRemoteDescription(r.OfferApplied); err != nil {
		r.OfferApplyErr = err

		return r
	}
	answer, err := vPairLocal(answerer.PC, false)
	if err != nil {
		vPairFatalf("answer on %s: %v", answerer.Name, err)
	}
	r.Answer, r.AnswerApplied = answer, answer
	if h.Answer != nil {
		r.AnswerApplied = h.Answer(answer)
	}
	if err = offerer.PC.SetRemoteDescription(r.AnswerApplied); err != nil {
		r.AnswerApplyErr = err
	}

	return r
}

// vPairSDPLines splits an SDP text into lines without the line terminators.
func vPairSDPLines(text string) []string {
	var out []string
	for _, l := range strings.Split(text, "\n") {
		l = strings.TrimRight(l, "\r")
		if l != "" {
			out = append(out, l)
		}
	}

	return out
}

// vPairSDPJoin is the inverse of vPairSDPLines.
func vPairSDPJoin(lines []string) string {
	return strings.Join(lines, "\r\n") + "\r\n"
}
