package webrtc

// C09 — Mids and m-section order are stable across renegotiations.
//
// Oracle (per PeerConnection of a replayed history, from the chronological list of API calls with
// the Mid() of every transceiver after each call, and the line-scanned descriptions):
//  1. once Mid() of a transceiver is non-empty it never changes;
//  2. every description this PeerConnection generates later carries that mid at exactly the
//     position where the mid first appeared (in a description it generated or in a remote
//     description applied to it) - and nowhere else;
//  3. a transceiver whose mid appears for the first time in a generated description sits after
//     every section of every earlier description of the session;
//  4. a mid allocated by CreateOffer was not used in any description applied earlier (local or remote).

import (
	"fmt"
	"strings"
	"testing"
	"time"

	"github.com/pion/webrtc/v4/internal/verif/vkit"
)

func c09Oracle(cs vshCase, r *vshRun) []vshFinding { //nolint:gocognit,cyclop
	var out []vshFinding
	seenKey := map[string]bool{}
	add := func(key, what string) {
		if seenKey[key] {
			return
		}
		seenKey[key] = true
		out = append(out, vshFinding{key, what + " — history " + cs.String()})
	}
	sides := map[string]bool{}
	for _, c := range r.Calls {
		for n := range c.Mids {
			sides[n] = true
		}
	}
	for _, side := range []string{"X", "P"} {
		if !sides[side] {
			continue
		}
		first := map[*RTPTransceiver]string{} // first non-empty mid
		order := []*RTPTransceiver{}
		pos := map[string]int{}      // mid -> index of first appearance in a description of this side's session
		applied := map[string]bool{} // mids of descriptions applied to this side
		existing := 0                // max number of sections of any earlier description of the session
		ownOfferPending := false     // an offer of this side was applied and is not answered yet
		pendingAppIndex := -1        // ... and the index of its application section (-1: none)
		note := func(d vScanDesc) {
			for i, s := range d.Sections {
				if !s.HasMid || s.Mid == "" {
					continue
				}
				if _, ok := pos[s.Mid]; !ok {
					pos[s.Mid] = i
				}
			}
			if len(d.Sections) > existing {
				existing = len(d.Sections)
			}
		}
		for _, c := range r.Calls {
			// (1) and (4): transceiver mids after this call
			for _, m := range c.Mids[side] {
				old, known := first[m.ptr]
				if !known {
					if m.Mid == "" {
						continue
					}
					first[m.ptr] = m.Mid
					inOrder := false
					for _, o := range order {
						inOrder = inOrder || o == m.ptr
					}
					if !inOrder {
						order = append(order, m.ptr)
					}
					if c.Call == "CreateOffer" && c.Side == side && c.Err == "" && applied[m.Mid] {
						add("new-transceiver-reuses-applied-mid|alloc=CreateOffer", fmt.Sprintf("%s: CreateOffer at step %d gave a new transceiver the mid %q, which an earlier applied local or remote description already used", side, c.Step, m.Mid))
					}

					continue
				}
				if m.Mid != old && !applied[old] {
					// the old mid was provisional: handed out by a CreateOffer whose offer was never applied
					// (JSEP binds a mid to a transceiver when a description carrying it is applied)
					first[m.ptr] = m.Mid
					if m.Mid == "" {
						delete(first, m.ptr)
					}

					continue
				}
				if m.Mid != old {
					add("transceiver-mid-changed|during="+c.Call, fmt.Sprintf("%s: Mid() of a transceiver changed from %q to %q during %s at step %d", side, old, m.Mid, c.Call, c.Step))
					first[m.ptr] = m.Mid
				}
			}
			if c.Err != "" {
				continue
			}
			switch {
			case (c.Call == "CreateOffer" || c.Call == "CreateAnswer") && c.Side == side && c.Desc >= 0:
				d := r.Descs[c.Desc]
				if d.Err != "" {
					continue
				}
				typ := d.Type
				// an offer generated while an offer of this side is still unanswered cannot be applied
				// (have-local-offer -> have-local-offer is no edge); it is keyed apart
				ctx := ""
				if ownOfferPending {
					ctx = "|in=have-local-offer"
				}
				for _, t := range order {
					mid, has := first[t]
					if !has {
						continue
					}
					var at []int
					for i, s := range d.Scan.Sections {
						if s.HasMid && s.Mid == mid {
							at = append(at, i)
						}
					}
					if len(at) == 0 {
						continue // the description does not include the transceiver
					}
					want, had := pos[mid]
					if !had {
						// first appearance of this transceiver's mid: appended after the existing sections
						if at[0] < existing {
							disp := ""
							if ownOfferPending && at[0] == pendingAppIndex {
								disp = "|displaces=application-section-of-the-pending-offer"
							}
							add(fmt.Sprintf("new-transceiver-not-appended|%s%s%s", typ, ctx, disp), fmt.Sprintf("%s: the %s at step %d introduces mid %q at index %d, but earlier descriptions of the session already have %d sections (sections %s)", side, typ, d.Step, mid, at[0], existing, vshSecSummary(d.Scan)))
						}
						want = at[0]
					}
					for _, i := range at {
						if i == want {
							continue
						}
						kind := "moved"
						if len(at) > 1 {
							kind = "also-at-second-position"
						}
						other := "media"
						if d.Scan.Sections[i].Media == "application" {
							other = "application"
						}
						add(fmt.Sprintf("transceiver-mid-%s|%s|section=%s%s", kind, typ, other, ctx), fmt.Sprintf("%s: mid %q of a transceiver first appeared at index %d; the %s at step %d carries it at index %v (sections %s)", side, mid, want, typ, d.Step, at, vshSecSummary(d.Scan)))
					}
				}
			case c.Call == "SetLocalDescription" && c.Side == side && c.Desc >= 0:
				ownOfferPending = r.Descs[c.Desc].Type == "offer"
				pendingAppIndex = -1
				if ownOfferPending {
					for i, sec := range r.Descs[c.Desc].Scan.Sections {
						if sec.Media == "application" {
							pendingAppIndex = i
						}
					}
				}
				// positions and the number of existing sections are fixed by applied descriptions only: an
				// offer that was generated and abandoned binds nothing
				note(r.Descs[c.Desc].Scan)
				for _, m := range vshMidList(r.Descs[c.Desc].Scan) {
					applied[m] = true
				}
			case c.Call == "SetRemoteDescription" && c.Side == side:
				ownOfferPending = false
				sc := vScanSDP(c.Text)
				note(sc)
				for _, m := range vshMidList(sc) {
					applied[m] = true
				}
			}
		}
	}

	return out
}

func c09Cover(c *vkit.Check) func(cs vshCase, r *vshRun) {
	return func(cs vshCase, r *vshRun) {
		// non-trivial: a history with at least two generated descriptions of which a later one has
		// more sections than an earlier one, or a transceiver that received its mid
		var shapes []string
		grow := false
		prev := -1
		for _, d := range r.Descs {
			if d.Err != "" {
				continue
			}
			n := len(d.Scan.Sections)
			if prev >= 0 && n > prev {
				grow = true
			}
			prev = n
			shapes = append(shapes, d.Side+d.Type[:1]+strings.Join(vshMidList(d.Scan), "."))
		}
		if len(shapes) >= 2 {
			c.Distinct(cs.Cfg.String() + "|" + strings.Join(shapes, "|"))
		}
		c.Outcome(fmt.Sprintf("descs=%d|grow=%v|dead=%v", len(shapes), grow, r.Dead))
		if len(cs.Hist) == 4 {
			c.Sample(map[string]any{"case": cs.String(), "status": r.Status, "descriptions": shapes})
		}
	}
}

func c09PairAlphabet(full bool) []vshOp {
	a := []vshOp{
		{Side: "X", Op: "addk", Kind: "audio", Dir: "sendrecv"},
		{Side: "X", Op: "addk", Kind: "video", Dir: "recvonly"},
		{Side: "X", Op: "addtrack", Kind: "video"},
		{Side: "X", Op: "rmtrack", Idx: 0},
		{Side: "X", Op: "stop", Idx: 0},
		{Side: "X", Op: "dc"},
		{Side: "X", Op: "neg"},
		{Side: "P", Op: "neg"},
		{Side: "X", Op: "los"},
		{Side: "P", Op: "addk", Kind: "audio", Dir: "sendrecv"},
		{Side: "P", Op: "addk", Kind: "video", Dir: "recvonly"},
		{Side: "P", Op: "dc"},
		{Side: "P", Op: "stop", Idx: 0},
	}
	if full {
		a = append(a,
			vshOp{Side: "X", Op: "addk", Kind: "audio", Dir: "recvonly"},
			vshOp{Side: "X", Op: "addk", Kind: "video", Dir: "sendonly"},
			vshOp{Side: "X", Op: "stop", Idx: 1},
			vshOp{Side: "P", Op: "addtrack", Kind: "audio"},
		)
	}

	return a
}

func TestVerifC09(t *testing.T) {
	c := vkit.New("C09", "model_checking")
	defer c.Finish(t)
	if vshReplayMode(t, c, c09Oracle) {
		return
	}
	vSharedCert()
	quick := c.Quick()
	exp := &vshExplorer{tb: t, c: c, oracle: c09Oracle, cover: c09Cover(c)}
	exp.stop = c.Deadline(time.Duration(c.Pick(24, 540)) * time.Second)
	depth := c.Pick(4, 5)
	alpha := c09PairAlphabet(false)
	c.Rule(fmt.Sprintf("explicit-state BFS over renegotiation histories between two real PeerConnections, both offering (successor = replay on fresh objects + one operation; every replay ends with a CreateOffer probe on both sides): alphabet of %d operations (additions, RemoveTrack, Stop, CreateDataChannel on either side, complete exchanges in both directions), merged on a canonical negotiation state, depth %d, Unified Plan with and without AlwaysNegotiateDataChannels and the fallback semantics; plus the product of synthetic remote offers (1-%d sections, ordered selections of distinct mids from %v) x pre-operations x local additions x a second round (synthetic answer or synthetic re-offer with one more section); the oracle follows Mid() of every transceiver object over all API calls and the position of every mid over all generated and applied descriptions; distinct = configuration x sequence of (side, type, mid list) of the generated descriptions, histories with at least two descriptions", len(alpha), depth, c.Pick(2, 3), vshSynMids))
	c.Set("alphabet_pair", fmt.Sprint(alpha))
	c.Set("depth_pair_merged", depth)
	levels := map[string][]int{}
	cfgs := []vshCfg{{Sem: "unified"}, {Sem: "unified", AlwaysDC: true}}
	if !quick {
		cfgs = append(cfgs, vshCfg{Sem: "fallback"})
	}
	for _, cfg := range cfgs {
		lv, done := exp.bfs(cfg, alpha, depth, true)
		levels[cfg.String()] = lv
		if !done {
			c.NotExhaustive(fmt.Sprintf("budget reached in the pair BFS of %s after levels %v (depth %d planned)", cfg, lv, depth))
		}
	}
	if !quick {
		lv, done := exp.bfs(vshCfg{Sem: "unified"}, c09PairAlphabet(true), 4, true)
		levels["unified/full-alphabet"] = lv
		if !done {
			c.NotExhaustive("budget reached in the full-alphabet BFS")
		}
		lv, done = exp.bfs(vshCfg{Sem: "unified"}, alpha, 3, false)
		levels["unified/unmerged"] = lv
		if !done {
			c.NotExhaustive("budget reached in the unmerged tree")
		}
	}
	synCfgs := []vshCfg{{Sem: "unified"}, {Sem: "fallback"}}
	if !quick {
		synCfgs = append(synCfgs, vshCfg{Sem: "unified", AlwaysDC: true, MediaFP: true}, vshCfg{Sem: "fallback", AlwaysDC: true, MediaFP: true})
	}
	syn := vshSynCases(synCfgs, quick, false)
	c.Set("synthetic_cases", len(syn))
	c.Set("synthetic_mids", vshSynMids)
	exp.batch(syn)
	c.Set("replays_per_level", levels)
}
