package webrtc

// C02 — Rollback cancels an in-progress offer/answer exchange.

import (
	"fmt"
	"testing"

	"github.com/pion/webrtc/v4/internal/verif/vkit"
)

func TestVerifC02(t *testing.T) {
	c := vkit.New("C02", "model_checking")
	defer c.Finish(t)
	if vhReplayMode(t, c, "C02") {
		return
	}
	// reach every signaling state with the rollback-free alphabet, then try every rollback variant there,
	// then continue exploring with rollbacks in the alphabet (a rollback followed by a new exchange)
	base := []vhOp{
		{"L", "offer", "fresh"}, {"R", "offer", "pool"}, {"L", "answer", "fresh"}, {"R", "answer", "pool"},
		{"L", "pranswer", "fresh"}, {"R", "pranswer", "pool"},
	}
	rollbacks := []vhOp{
		{"L", "rollback", "empty"}, {"R", "rollback", "empty"}, {"L", "rollback", "stale"}, {"R", "rollback", "pool"},
		{"L", "rollback", "unrelated"}, {"R", "rollback", "unrelated"},
	}
	depth := c.Pick(4, 5)
	c.Rule(fmt.Sprintf("every canonical negotiation state reachable within %d calls (merged BFS over real PeerConnections) x 6 rollback variants (local/remote x empty SDP | text of a created/peer description | unrelated SDP), plus merged BFS to depth %d with rollbacks in the alphabet; oracle: rollback succeeds exactly from the four legal (state, side) pairs, is rejected from stable, ends in stable with both pending descriptions empty and the current pair as in the last stable state", depth, depth))
	visitNone := func([]vhOp, *vhRun) {}
	reps := vhBFS(t, c, base, depth, true, visitNone)
	c.Set("states_probed", len(reps))
	for _, canon := range vhSortedReps(reps) {
		h := reps[canon]
		for _, rb := range rollbacks {
			hist := append(append([]vhOp{}, h...), rb)
			r := vhReplay(t, hist)
			c.Eval()
			c.Transition()
			c.Validated()
			last := r.Steps[len(r.Steps)-1]
			c.Distinct(canon + "|" + rb.String() + "|" + last.ErrClass)
			c.Outcome(last.State + "|" + last.ErrClass)
			vhReport(c, "C02", hist, r)
			if rb.Src == "empty" && len(h) == 2 {
				c.Sample(map[string]any{"history": fmt.Sprint(hist), "final_state": last.State, "last_error": last.Err})
			}
		}
	}
	full := append(append([]vhOp{}, base...), rollbacks[:2]...)
	vhBFS(t, c, full, depth, true, func(hist []vhOp, r *vhRun) { vhReport(c, "C02", hist, r) })
}
