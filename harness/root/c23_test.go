package webrtc

// C23 — Media written to a local track arrives intact on the negotiated stream.
//
// Pair engine (common_pair_test.go): two real PeerConnections over loopback. The sending
// peer and the receiving peer register the same codecs under DIFFERENT, non-overlapping
// payload types, so that "the negotiated payload type" (the offerer's) differs from the
// sender's own registration whenever the receiver offers. Enumerated exhaustively:
// codec {opus, VP8, VP9, H264, AV1} x RTX {off, on} x offerer {sender, receiver} x sender
// API {AddTrack, AddTransceiverFromTrack} x bundle {single track, audio + video + data
// channel, audio + 2 video + data channel}. RTX on = video/rtx registered on both peers +
// the default interceptors (NACK generator/responder, reports, TWCC) + a loss injector on
// the receiving peer that discards every first-path arrival of each third payload of a
// video track, so that these payloads arrive only through NACK -> RTX retransmission.
// Per track a fixed packet list: payload size {1, 100, 1200} x marker {0,1} x header
// extension {absent, one-byte, two-byte} x CSRC count {0, 2}, every payload unique.
//
// Oracle (own line scan of the SDPs, no pion/sdp): TrackRemote.SSRC() and the SSRC of every
// delivered packet is a primary SSRC announced (a=ssrc, not the repair member of an
// ssrc-group) in the sender's local description; the payload type of every delivered packet
// and TrackRemote.PayloadType() is the payload type the ANSWER gives the written codec in
// that media section; every delivered payload is byte-equal to a payload written to that
// very track; codec mime, stream id, track id equal the a=msid of the section of the
// sender's description that announced the SSRC. RTP runs over UDP: a packet that does not
// arrive is written again (new sequence number) - a loss is never flagged.

import (
	"bytes"
	"encoding/json"
	"fmt"
	"sort"
	"strconv"
	"strings"
	"sync"
	"sync/atomic"
	"testing"
	"time"

	"github.com/pion/interceptor"
	"github.com/pion/rtp"
	"github.com/pion/webrtc/v4/internal/verif/vkit"
)

type c23Codec struct {
	Name   string // as in the rtpmap
	Mime   string
	Kind   RTPCodecType
	Clock  uint32
	Ch     uint16
	Fmtp   string
	SendPT uint8 // registration of the sending peer (RTX = +1)
	RecvPT uint8 // registration of the receiving peer (RTX = +1)
}

var c23Codecs = []c23Codec{
	{Name: "opus", Mime: MimeTypeOpus, Kind: RTPCodecTypeAudio, Clock: 48000, Ch: 2, Fmtp: "minptime=10;useinbandfec=1", SendPT: 111, RecvPT: 109},
	{Name: "VP8", Mime: MimeTypeVP8, Kind: RTPCodecTypeVideo, Clock: 90000, SendPT: 96, RecvPT: 116},
	{Name: "VP9", Mime: MimeTypeVP9, Kind: RTPCodecTypeVideo, Clock: 90000, Fmtp: "profile-id=0", SendPT: 98, RecvPT: 118},
	{Name: "H264", Mime: MimeTypeH264, Kind: RTPCodecTypeVideo, Clock: 90000, Fmtp: "level-asymmetry-allowed=1;packetization-mode=1;profile-level-id=42001f", SendPT: 102, RecvPT: 120},
	{Name: "AV1", Mime: MimeTypeAV1, Kind: RTPCodecTypeVideo, Clock: 90000, SendPT: 45, RecvPT: 35},
}

type c23Case struct {
	Codec          string `json:"codec"`
	RTX            bool   `json:"rtx"`
	OffererIsSende bool   `json:"offerer_is_sender"`
	Bundle         string `json:"bundle"`                       // single | audio+video+data | audio+2video+data
	Second         string `json:"second_video_codec,omitempty"` // audio+2video+data: the other video codec ("" = VP8, or VP9 next to VP8)
	SenderAPI      string `json:"sender_api"`                   // AddTrack | AddTransceiverFromTrack (sendonly)
}

func (cs c23Case) key() string {
	b := cs.Bundle
	if cs.Second != "" {
		b += "(" + cs.Second + ")"
	}

	return fmt.Sprintf("codec=%s|rtx=%v|offerer=%s|bundle=%s|api=%s", cs.Codec, cs.RTX, map[bool]string{true: "sender", false: "receiver"}[cs.OffererIsSende], b, cs.SenderAPI)
}

func c23CodecByName(n string) c23Codec {
	for _, c := range c23Codecs {
		if c.Name == n {
			return c
		}
	}
	panic("harness: unknown codec " + n)
}

func c23Register(sender, rtx bool) func(m *MediaEngine) error {
	return func(m *MediaEngine) error {
		fb := []RTCPFeedback{{"goog-remb", ""}, {"ccm", "fir"}, {"nack", ""}, {"nack", "pli"}}
		for _, c := range c23Codecs {
			pt := c.RecvPT
			if sender {
				pt = c.SendPT
			}
			p := RTPCodecParameters{
				RTPCodecCapability: RTPCodecCapability{MimeType: c.Mime, ClockRate: c.Clock, Channels: c.Ch, SDPFmtpLine: c.Fmtp},
				PayloadType:        PayloadType(pt),
			}
			if c.Kind == RTPCodecTypeVideo {
				p.RTCPFeedback = fb
			}
			if err := m.RegisterCodec(p, c.Kind); err != nil {
				return err
			}
			if rtx && c.Kind == RTPCodecTypeVideo {
				if err := m.RegisterCodec(RTPCodecParameters{
					RTPCodecCapability: RTPCodecCapability{MimeType: MimeTypeRTX, ClockRate: 90000, SDPFmtpLine: fmt.Sprintf("apt=%d", pt)},
					PayloadType:        PayloadType(pt + 1),
				}, RTPCodecTypeVideo); err != nil {
					return err
				}
			}
		}

		return nil
	}
}

// c23Pkt is one packet of the fixed per-track list.
type c23Pkt struct {
	Size   int
	Marker bool
	Ext    string // none | one-byte | two-byte
	CSRC   int
	Data   []byte
}

var c23ExtClasses = []string{"none", "one-byte", "two-byte"}

// c23Packets builds the packet list of track number tn (payloads unique across tracks:
// the first payload byte is 40*tn + index).
func c23Packets(tn int) []c23Pkt {
	var out []c23Pkt
	for _, size := range []int{1, 100, 1200} {
		for _, marker := range []bool{false, true} {
			for _, ext := range c23ExtClasses {
				for _, csrc := range []int{0, 2} {
					k := len(out)
					d := make([]byte, size)
					for i := range d {
						d[i] = byte(37*k + 11*i + (i>>8)*5 + 101*tn)
					}
					d[0] = byte(40*tn + k)
					out = append(out, c23Pkt{Size: size, Marker: marker, Ext: ext, CSRC: csrc, Data: d})
				}
			}
		}
	}

	return out
}

// c23SDPTrack is what one media section of the SENDER's description announces.
type c23SDPTrack struct {
	Mid       string
	Kind      string
	StreamID  string
	TrackID   string
	Primaries []uint32
	Repairs   []uint32
}

// c23ScanSender reads mids, msid and SSRCs of the sender's description (own line scan).
func c23ScanSender(text string) []c23SDPTrack {
	var out []c23SDPTrack
	for _, sec := range vScanSDP(text).Sections {
		if sec.Media != "audio" && sec.Media != "video" {
			continue
		}
		tr := c23SDPTrack{Mid: sec.Mid, Kind: sec.Media}
		var all []uint32
		repair := map[uint32]bool{}
		for _, l := range sec.Lines {
			switch {
			case strings.HasPrefix(l, "a=msid:"):
				f := strings.Fields(strings.TrimPrefix(l, "a=msid:"))
				if len(f) >= 1 {
					tr.StreamID = f[0]
				}
				if len(f) >= 2 {
					tr.TrackID = f[1]
				}
			case strings.HasPrefix(l, "a=ssrc-group:"):
				f := strings.Fields(strings.TrimPrefix(l, "a=ssrc-group:"))
				if len(f) >= 3 && (f[0] == "FID" || f[0] == "FEC-FR") {
					for _, s := range f[2:] {
						if v, err := strconv.ParseUint(s, 10, 32); err == nil {
							repair[uint32(v)] = true
						}
					}
				}
			case strings.HasPrefix(l, "a=ssrc:"):
				f := strings.Fields(strings.TrimPrefix(l, "a=ssrc:"))
				if len(f) >= 1 {
					if v, err := strconv.ParseUint(f[0], 10, 32); err == nil {
						seen := false
						for _, a := range all {
							seen = seen || a == uint32(v)
						}
						if !seen {
							all = append(all, uint32(v))
						}
					}
				}
			}
		}
		for _, s := range all {
			if repair[s] {
				tr.Repairs = append(tr.Repairs, s)
			} else {
				tr.Primaries = append(tr.Primaries, s)
			}
		}
		out = append(out, tr)
	}

	return out
}

// c23AnswerPT returns the payload types the answer gives codec name in section mid.
func c23AnswerPT(answer, mid, name string) []int {
	var out []int
	for _, sec := range vScanSDP(answer).Sections {
		if sec.Mid != mid {
			continue
		}
		for _, pt := range sec.Formats {
			for _, m := range sec.vScanRtpmapFor(pt) {
				if strings.EqualFold(m.Name, name) {
					if v, err := strconv.Atoi(pt); err == nil {
						out = append(out, v)
					}
				}
			}
		}
	}

	return out
}

// c23Dropper is the receiving peer's loss injector (an interceptor placed between SRTP and
// the default interceptors): it discards every arrival, on a primary video stream, of a
// packet whose first payload byte is designated.
type c23Dropper struct {
	interceptor.NoOp
	designated map[byte]bool
	dropped    atomic.Int64
}

func (d *c23Dropper) NewInterceptor(string) (interceptor.Interceptor, error) { return d, nil }

func (d *c23Dropper) BindRemoteStream(info *interceptor.StreamInfo, reader interceptor.RTPReader) interceptor.RTPReader {
	mime := strings.ToLower(info.MimeType)
	if !strings.HasPrefix(mime, "video/") || strings.HasSuffix(mime, "/rtx") {
		return reader
	}

	return interceptor.RTPReaderFunc(func(b []byte, a interceptor.Attributes) (int, interceptor.Attributes, error) {
		for {
			n, attr, err := reader.Read(b, a)
			if err != nil {
				return n, attr, err
			}
			var h rtp.Header
			if hn, herr := h.Unmarshal(b[:n]); herr == nil && hn < n && d.designated[b[hn]] {
				d.dropped.Add(1)

				continue
			}

			return n, attr, nil
		}
	})
}

type c23Local struct {
	tn     int
	codec  c23Codec
	track  *TrackLocalStaticRTP
	pkts   []c23Pkt
	filler []byte // payload of the per-round filler packet (known to the oracle, not required to arrive)

	mu       sync.Mutex
	seen     []bool
	nSeen    int
	progress chan struct{}
	remote   *TrackRemote
	viaRTX   int // packets that arrived as retransmissions (under the oracle's lock)
}

type c23Ctx struct {
	c     *vkit.Check
	memoM sync.Mutex
	memo  map[string]bool
}

func (x *c23Ctx) once(k string) bool {
	x.memoM.Lock()
	defer x.memoM.Unlock()
	if x.memo[k] {
		return false
	}
	x.memo[k] = true

	return true
}

func c23Run(x *c23Ctx, t *testing.T, cs c23Case) { //nolint:cyclop,gocognit,maintidx
	c := x.c
	main := c23CodecByName(cs.Codec)
	var codecs []c23Codec
	second := "VP8" // the other video codec of the three-track bundle
	if main.Name == "VP8" {
		second = "VP9"
	}
	if cs.Second != "" {
		second = cs.Second
	}
	switch cs.Bundle {
	case "single":
		codecs = []c23Codec{main}
	case "audio+video+data":
		if main.Kind == RTPCodecTypeAudio {
			codecs = []c23Codec{main, c23CodecByName("VP8")}
		} else {
			codecs = []c23Codec{c23CodecByName("opus"), main}
		}
	default:
		if main.Kind == RTPCodecTypeAudio {
			codecs = []c23Codec{main, c23CodecByName("VP8"), c23CodecByName("VP9")}
		} else {
			codecs = []c23Codec{c23CodecByName("opus"), main, c23CodecByName(second)}
		}
	}
	// RTX on: on the receiving peer every first-path arrival of each third payload of a video
	// track is discarded below the NACK generator, so that these payloads can only arrive as
	// retransmissions on the RTX stream (NACK -> responder -> RTX SSRC / RTX payload type).
	drop := &c23Dropper{designated: map[byte]bool{}}
	if cs.RTX {
		for tn, cd := range codecs {
			if cd.Kind == RTPCodecTypeVideo {
				for k, w := range c23Packets(tn) {
					if k%3 == 1 {
						drop.designated[w.Data[0]] = true
					}
				}
			}
		}
	}
	p := vPairNew(t, vPairOpts{
		A: vPairAPIOpts{Media: c23Register(true, cs.RTX), Interceptors: cs.RTX},
		B: vPairAPIOpts{Media: c23Register(false, cs.RTX), Interceptors: cs.RTX, Registry: func(r *interceptor.Registry) {
			if cs.RTX {
				r.Add(drop)
			}
		}},
	})
	defer p.Close()
	snd, rcv := p.A, p.B

	var readers sync.WaitGroup
	var locals []*c23Local
	for tn, cd := range codecs {
		tl, err := NewTrackLocalStaticRTP(
			RTPCodecCapability{MimeType: cd.Mime, ClockRate: cd.Clock, Channels: cd.Ch, SDPFmtpLine: cd.Fmtp},
			fmt.Sprintf("track-%d-%s", tn, strings.ToLower(cd.Name)), fmt.Sprintf("stream-%d", tn))
		if err != nil {
			vPairFatalf("NewTrackLocalStaticRTP: %v", err)
		}
		var sender *RTPSender
		if cs.SenderAPI == "AddTransceiverFromTrack" {
			var tcv *RTPTransceiver
			if tcv, err = snd.PC.AddTransceiverFromTrack(tl, RTPTransceiverInit{Direction: RTPTransceiverDirectionSendonly}); err == nil {
				sender = tcv.Sender()
			}
		} else {
			sender, err = snd.PC.AddTrack(tl)
		}
		if err != nil || sender == nil {
			vPairFatalf("%s: %v", cs.SenderAPI, err)
		}
		// documented usage: incoming RTCP (NACKs) is processed by the interceptors only while
		// the application reads from the RTPSender
		readers.Add(1)
		go func() {
			defer readers.Done()
			buf := make([]byte, 1500)
			for {
				if _, _, rerr := sender.Read(buf); rerr != nil {
					return
				}
			}
		}()
		l := &c23Local{tn: tn, codec: cd, track: tl, pkts: c23Packets(tn), progress: make(chan struct{}, 1), filler: []byte{byte(200 + tn), 0xF1}}
		l.seen = make([]bool, len(l.pkts))
		locals = append(locals, l)
		if !cs.OffererIsSende {
			if _, err = rcv.PC.AddTransceiverFromKind(cd.Kind, RTPTransceiverInit{Direction: RTPTransceiverDirectionRecvonly}); err != nil {
				vPairFatalf("AddTransceiverFromKind: %v", err)
			}
		}
	}
	if cs.Bundle != "single" {
		creator := snd
		if !cs.OffererIsSende {
			creator = rcv
		}
		if _, err := creator.PC.CreateDataChannel("bundled", nil); err != nil {
			vPairFatalf("CreateDataChannel: %v", err)
		}
	}

	// receiver side: every OnTrack gets a reader that hands the packets to the oracle
	type got struct {
		tr  *TrackRemote
		pkt *rtp.Packet
	}
	var (
		omu    sync.Mutex
		sdpT   []c23SDPTrack // sender's description, set before any packet can be judged
		answer string
		ready  = make(chan struct{})
	)
	bySSRC := func(ssrc uint32) (*c23SDPTrack, bool) {
		for i := range sdpT {
			for _, s := range sdpT[i].Primaries {
				if s == ssrc {
					return &sdpT[i], true
				}
			}
		}

		return nil, false
	}
	localByID := func(streamID, trackID string) *c23Local {
		for _, l := range locals {
			if l.track.ID() == trackID && l.track.StreamID() == streamID {
				return l
			}
		}

		return nil
	}
	viol := func(key, what string, extra map[string]any) {
		rep := map[string]any{"case": cs}
		for k, v := range extra {
			rep[k] = v
		}
		c.Violation(key, what+" ("+cs.key()+")", rep)
	}
	offerer := map[bool]string{true: "sender", false: "receiver"}[cs.OffererIsSende]
	judgeTrack := func(tr *TrackRemote) *c23Local {
		// announced SSRC -> section of the sender's description -> local track
		ssrc := uint32(tr.SSRC())
		sec, ok := bySSRC(ssrc)
		if !ok {
			isRepair := false
			for i := range sdpT {
				for _, s := range sdpT[i].Repairs {
					isRepair = isRepair || s == ssrc
				}
			}
			viol(fmt.Sprintf("ssrc|track-ssrc-not-a-primary-of-the-senders-sdp|repair=%v|kind=%s|rtx=%v", isRepair, tr.Kind(), cs.RTX),
				fmt.Sprintf("OnTrack delivered a TrackRemote with SSRC %d; the sender's description announces primaries %v", ssrc, sdpT), nil)

			return nil
		}
		l := localByID(sec.StreamID, sec.TrackID)
		if l == nil {
			// the sender's description names an msid that is no local track (not this oracle's
			// business: the remote track is compared with the DESCRIPTION); to know which
			// payloads belong here fall back to the position of the section
			for i := range sdpT {
				if &sdpT[i] == sec && i < len(locals) {
					l = locals[i]
				}
			}
			if l == nil {
				vPairFatalf("cannot relate section mid=%s of the sender's description (msid %q %q) to a local track", sec.Mid, sec.StreamID, sec.TrackID)
			}
			c.Outcome("senders-sdp-msid-names-no-local-track")
		}
		if tr.ID() != sec.TrackID {
			viol(fmt.Sprintf("msid|track-id|kind=%s|offerer=%s", sec.Kind, offerer), fmt.Sprintf("TrackRemote.ID()=%q, sender's a=msid track id %q", tr.ID(), sec.TrackID), nil)
		}
		if tr.StreamID() != sec.StreamID {
			viol(fmt.Sprintf("msid|stream-id|kind=%s|offerer=%s", sec.Kind, offerer), fmt.Sprintf("TrackRemote.StreamID()=%q, sender's a=msid stream id %q", tr.StreamID(), sec.StreamID), nil)
		}
		if tr.Kind().String() != sec.Kind {
			viol(fmt.Sprintf("codec|kind|kind=%s|offerer=%s", sec.Kind, offerer), fmt.Sprintf("TrackRemote.Kind()=%s in a %s section", tr.Kind(), sec.Kind), nil)
		}
		if !strings.EqualFold(tr.Codec().MimeType, l.codec.Mime) {
			viol(fmt.Sprintf("codec|mime|codec=%s|offerer=%s", l.codec.Name, offerer), fmt.Sprintf("TrackRemote.Codec().MimeType=%q, the track was written as %q", tr.Codec().MimeType, l.codec.Mime), nil)
		}
		want := c23AnswerPT(answer, sec.Mid, l.codec.Name)
		okPT := false
		for _, w := range want {
			okPT = okPT || int(tr.PayloadType()) == w
		}
		if !okPT {
			viol(fmt.Sprintf("pt|track-getter|codec=%s|offerer=%s", l.codec.Name, offerer),
				fmt.Sprintf("TrackRemote.PayloadType()=%d, the answer gives %s payload type %v in section mid=%s", tr.PayloadType(), l.codec.Name, want, sec.Mid), nil)
		}

		return l
	}
	judgePacket := func(g got, l *c23Local) {
		c.Eval()
		pkt := g.pkt
		sec, _ := bySSRC(uint32(g.tr.SSRC()))
		if pkt.SSRC != uint32(g.tr.SSRC()) {
			viol(fmt.Sprintf("ssrc|packet-ssrc-differs-from-track|kind=%s|rtx=%v", sec.Kind, cs.RTX),
				fmt.Sprintf("packet with SSRC %d read from the TrackRemote with SSRC %d", pkt.SSRC, g.tr.SSRC()), nil)
		}
		want := c23AnswerPT(answer, sec.Mid, l.codec.Name)
		okPT := false
		for _, w := range want {
			okPT = okPT || int(pkt.PayloadType) == w
		}
		if !okPT {
			viol(fmt.Sprintf("pt|packet|codec=%s|offerer=%s", l.codec.Name, offerer),
				fmt.Sprintf("packet delivered with payload type %d, the answer gives %s payload type %v in section mid=%s", pkt.PayloadType, l.codec.Name, want, sec.Mid), nil)
		}
		if bytes.Equal(l.filler, pkt.Payload) {
			return
		}
		for k, w := range l.pkts {
			if bytes.Equal(w.Data, pkt.Payload) {
				l.mu.Lock()
				if !l.seen[k] {
					l.seen[k] = true
					l.nSeen++
					if dk := fmt.Sprintf("delivered|%s|track=%d-%s|size=%d|marker=%v|ext=%s|csrc=%d", cs.key(), l.tn, l.codec.Name, w.Size, w.Marker, w.Ext, w.CSRC); x.once(dk) {
						c.Distinct(dk)
					}
				}
				l.mu.Unlock()
				select {
				case l.progress <- struct{}{}:
				default:
				}

				return
			}
		}
		// not a payload written to this track
		cls := "unknown-content"
		for _, o := range locals {
			if o == l {
				continue
			}
			for _, w := range o.pkts {
				if len(pkt.Payload) >= 8 && bytes.Equal(w.Data, pkt.Payload) { // long enough to identify a packet
					cls = "payload-of-another-track"
				}
			}
			if bytes.Equal(o.filler, pkt.Payload) {
				cls = "payload-of-another-track"
			}
		}
		sizeCls := "other"
		for _, w := range l.pkts {
			if len(pkt.Payload) == w.Size {
				sizeCls = strconv.Itoa(w.Size)
			}
		}
		viol(fmt.Sprintf("payload|%s|codec=%s|len-class=%s|rtx=%v", cls, l.codec.Name, sizeCls, cs.RTX),
			fmt.Sprintf("a %d-byte payload was delivered on track %q that was never written to it (ext=%v, marker=%v, first bytes %x)", len(pkt.Payload), l.track.ID(), pkt.Extension, pkt.Marker, pkt.Payload[:min(len(pkt.Payload), 8)]),
			map[string]any{"payload_len": len(pkt.Payload)})
	}
	rcv.PC.OnTrack(func(tr *TrackRemote, _ *RTPReceiver) {
		readers.Add(1)
		go func() {
			defer readers.Done()
			vPairWait(ready, "descriptions exchanged")
			omu.Lock()
			l := judgeTrack(tr)
			if l != nil {
				l.mu.Lock()
				l.remote = tr
				l.mu.Unlock()
			}
			omu.Unlock()
			for {
				pkt, attr, err := tr.ReadRTP()
				if err != nil {
					return
				}
				if l != nil {
					omu.Lock()
					if attr != nil && attr.Get(AttributeRtxSsrc) != nil {
						l.viaRTX++
					} else if len(pkt.Payload) > 0 && drop.designated[pkt.Payload[0]] {
						vPairFatalf("harness: a designated payload arrived on the primary path (%s)", cs.key())
					}
					judgePacket(got{tr: tr, pkt: pkt}, l)
					omu.Unlock()
				}
			}
		}()
	})

	// signaling
	var r vPairSignalResult
	if cs.OffererIsSende {
		r = p.Signal(snd, rcv, vPairSignalHooks{})
	} else {
		r = p.Signal(rcv, snd, vPairSignalHooks{})
	}
	if r.OfferApplyErr != nil || r.AnswerApplyErr != nil {
		// Both sides register the same codecs and every description comes from pion itself: a refused
		// description means the written RTP can never arrive (deterministic API error, not a timeout).
		viol(fmt.Sprintf("negotiation-refused|codec=%s|bundle=%s", cs.Codec, cs.Bundle),
			fmt.Sprintf("the exchange between two pion peers with identical codec registrations was refused: applying the offer: %v, applying the answer: %v", r.OfferApplyErr, r.AnswerApplyErr), nil)

		return
	}
	senderSDP := r.Offer.SDP
	if !cs.OffererIsSende {
		senderSDP = r.Answer.SDP
	}
	omu.Lock()
	sdpT, answer = c23ScanSender(senderSDP), r.Answer.SDP
	omu.Unlock()
	for li, l := range locals {
		found := false
		mid := ""
		for si, s := range sdpT {
			byMsid := s.TrackID == l.track.ID() && s.StreamID == l.track.StreamID()
			if (byMsid || (localByID(s.StreamID, s.TrackID) == nil && si == li)) && len(s.Primaries) >= 1 {
				found = true
				mid = s.Mid
				if cs.RTX && l.codec.Kind == RTPCodecTypeVideo && len(s.Repairs) > 0 {
					if x.once("rtxssrc|" + cs.key()) {
						c.Add("cases_with_rtx_ssrc_announced", 1)
					}
				}
			}
		}
		if !found {
			vPairFatalf("the sender's description does not announce an SSRC for local track %s (%s):\n%s", l.track.ID(), cs.key(), senderSDP)
		}
		if len(c23AnswerPT(r.Answer.SDP, mid, l.codec.Name)) == 0 {
			vPairFatalf("the answer does not list codec %s (%s):\n%s", l.codec.Name, cs.key(), r.Answer.SDP)
		}
	}
	close(ready)

	// write: every packet of every track, again (new sequence number) while it has not arrived
	var wg sync.WaitGroup
	for _, l := range locals {
		wg.Add(1)
		go func(l *c23Local) {
			defer wg.Done()
			seq := uint16(1000 * (l.tn + 1)) //nolint:gosec
			ts := uint32(90000)
			guard := time.Now().Add(vPairGuard)
			rounds := 0
			for {
				l.mu.Lock()
				var todo []int
				for k, s := range l.seen {
					if !s {
						todo = append(todo, k)
					}
				}
				l.mu.Unlock()
				if len(todo) == 0 {
					break
				}
				if time.Now().After(guard) {
					vPairFatalf("liveness guard expired: %d of %d packets of track %s never arrived after %d rounds (%s)", len(todo), len(l.pkts), l.track.ID(), rounds, cs.key())
				}
				rounds++
				for _, k := range todo {
					w := l.pkts[k]
					pkt := &rtp.Packet{Header: rtp.Header{Version: 2, SequenceNumber: seq, Timestamp: ts, Marker: w.Marker}, Payload: w.Data}
					switch w.Ext {
					case "one-byte":
						pkt.Header.Extension = true
						pkt.Header.ExtensionProfile = 0xBEDE
						if err := pkt.Header.SetExtension(14, []byte{0xAA, byte(k), 0x55}); err != nil {
							vPairFatalf("SetExtension: %v", err)
						}
					case "two-byte":
						pkt.Header.Extension = true
						pkt.Header.ExtensionProfile = 0x1000
						if err := pkt.Header.SetExtension(200, []byte{0xAA, byte(k), 0x55, 0x01, 0x02}); err != nil {
							vPairFatalf("SetExtension: %v", err)
						}
					}
					for i := 0; i < w.CSRC; i++ {
						pkt.Header.CSRC = append(pkt.Header.CSRC, uint32(0x11110000+i)) //nolint:gosec
					}
					seq++
					ts += 3000
					// errors (e.g. not yet bound / transport not yet up) are retried like losses
					_ = l.track.WriteRTP(pkt)
				}
				// a filler packet: a reader blocked on the primary stream looks at the RTX
				// stream again only when the next primary packet arrives
				_ = l.track.WriteRTP(&rtp.Packet{Header: rtp.Header{Version: 2, SequenceNumber: seq, Timestamp: ts}, Payload: l.filler})
				seq++
				// pacing only (not an oracle): wake up on progress or after a short while
				tm := time.NewTimer(20 * time.Millisecond)
				select {
				case <-l.progress:
				case <-tm.C:
				}
				tm.Stop()
			}
			c.Add("write_rounds", rounds)
		}(l)
	}
	wg.Wait()

	// all payloads arrived: the getters once more, now that media flowed
	omu.Lock()
	for _, l := range locals {
		l.mu.Lock()
		tr := l.remote
		l.mu.Unlock()
		if tr != nil {
			judgeTrack(tr)
		}
	}
	for _, l := range locals {
		if cs.RTX && l.codec.Kind == RTPCodecTypeVideo {
			if l.viaRTX == 0 {
				omu.Unlock()
				vPairFatalf("vacuous: RTX on but no packet of video track %s arrived as a retransmission (%s)", l.track.ID(), cs.key())
			}
			c.Add("packets_delivered_as_rtx_retransmissions", l.viaRTX)
			c.Outcome("delivered-via-rtx|codec=" + l.codec.Name)
		}
	}
	omu.Unlock()
	c.Add("first_path_arrivals_discarded_by_the_loss_injector", int(drop.dropped.Load()))
	c.Outcome(fmt.Sprintf("delivered-all|tracks=%d", len(locals)))

	// rename rounds (single-track cases): the sender replaces its track by one with another stream id / track
	// id / both (same SSRC, the receiver is not restarted) and the peers renegotiate; the running remote track
	// must then report the msid of the sender's NEW description
	if cs.Bundle == "single" {
		l := locals[0]
		l.mu.Lock()
		remote := l.remote
		l.mu.Unlock()
		var sender *RTPSender
		for _, sd := range snd.PC.GetSenders() {
			if sd.Track() == TrackLocal(l.track) {
				sender = sd
			}
		}
		if remote == nil || sender == nil {
			vPairFatalf("rename round: no remote track / sender for %s", cs.key())
		}
		for _, variant := range []string{"stream-only", "track-only", "both"} {
			id, stream := sender.Track().ID(), sender.Track().StreamID()
			if variant != "track-only" {
				stream += "-s"
			}
			if variant != "stream-only" {
				id += "-t"
			}
			nt, err := NewTrackLocalStaticRTP(l.track.Codec(), id, stream)
			if err != nil {
				vPairFatalf("rename round: track: %v", err)
			}
			if err = sender.ReplaceTrack(nt); err != nil {
				vPairFatalf("rename round: ReplaceTrack: %v (%s)", err, cs.key())
			}
			var r2 vPairSignalResult
			if cs.OffererIsSende {
				r2 = p.Signal(snd, rcv, vPairSignalHooks{})
			} else {
				r2 = p.Signal(rcv, snd, vPairSignalHooks{})
			}
			if r2.OfferApplyErr != nil || r2.AnswerApplyErr != nil {
				viol("renegotiation-refused|rename="+variant, fmt.Sprintf("renegotiation after ReplaceTrack was refused: %v %v", r2.OfferApplyErr, r2.AnswerApplyErr), nil)

				break
			}
			// the work SetRemoteDescription queued (startRTP -> configureRTPReceivers) has run when Done returns
			rcv.PC.ops.Done()
			snd.PC.ops.Done()
			sdp2 := r2.Offer.SDP
			if !cs.OffererIsSende {
				sdp2 = r2.Answer.SDP
			}
			var sec *c23SDPTrack
			t2 := c23ScanSender(sdp2)
			for i := range t2 {
				for _, ps := range t2[i].Primaries {
					if ps == uint32(remote.SSRC()) {
						sec = &t2[i]
					}
				}
			}
			if sec == nil {
				c.Outcome("rename-round|ssrc-no-longer-announced")

				break
			}
			if sec.TrackID != id || sec.StreamID != stream {
				c.Outcome("rename-round|senders-sdp-keeps-old-msid|" + variant)

				continue
			}
			if remote.ID() != sec.TrackID || remote.StreamID() != sec.StreamID {
				viol(fmt.Sprintf("msid|after-rename=%s|kind=%s", variant, sec.Kind),
					fmt.Sprintf("after ReplaceTrack (%s) and renegotiation the sender's description says a=msid:%s %s, the running TrackRemote reports stream %q track %q", variant, sec.StreamID, sec.TrackID, remote.StreamID(), remote.ID()), nil)
			} else {
				c.Distinct("rename-round|" + variant + "|kind=" + sec.Kind)
			}
		}
	}
	p.Close()
	readers.Wait()
}

func TestVerifC23(t *testing.T) {
	c := vkit.New("C23", "exploration")
	defer c.Finish(t)
	c.Rule("case = codec {opus, VP8, VP9, H264, AV1} x RTX {off, on: video/rtx registered for every video codec on both peers + the default interceptors (NACK generator/responder, RTCP reports, TWCC)} x offerer {sender, receiver} x sender API {AddTrack, AddTransceiverFromTrack sendonly} x bundle {single track; audio + video + data channel; audio + two video tracks of different codecs + data channel (quick: one second codec; thorough: every ordered pair of different video codecs)}; RTX on also means: the receiving peer discards every first-path arrival of each third payload of a video track below the NACK generator, so that those payloads arrive only as retransmissions on the RTX stream; sender and receiver register the codecs under non-overlapping payload types; per track the fixed packet list payload size {1,100,1200} x marker x header extension {absent, one-byte profile, two-byte profile} x CSRC count {0,2} (36 unique payloads) written with TrackLocalStaticRTP.WriteRTP, re-written under a new sequence number while not yet delivered; non-trivial = a (case, packet class) actually delivered and judged")
	c.Set("schedules_enumerated", false)
	c.Assume("the internal schedule of ICE/DTLS/SRTP over loopback is whatever happens and is not enumerated")
	c.Assume("RTP over UDP may be lost: a packet is written again until it was delivered; a loss is never flagged (liveness guard -> machinery error)")
	c.Assume("packets are identified by their payload only (36 unique payloads per track, unique across the tracks of a pair); sequence number, timestamp, marker and header extensions of delivered packets are not judged - the statement does not mention them")
	c.Assume("primary SSRC = an a=ssrc id of the section that is not the second member of an a=ssrc-group:FID / FEC-FR")
	x := &c23Ctx{c: c, memo: map[string]bool{}}

	if raw, ok := c.ReplayCase(); ok {
		var wrap struct {
			Case c23Case `json:"case"`
		}
		if err := json.Unmarshal(raw, &wrap); err != nil || wrap.Case.Codec == "" {
			vkit.Fatalf(t, "replay case: %v", err)
		}
		c23Run(x, t, wrap.Case)

		return
	}

	var cases []c23Case
	for _, cd := range c23Codecs {
		for _, rtx := range []bool{false, true} {
			for _, off := range []bool{true, false} {
				for _, api := range []string{"AddTrack", "AddTransceiverFromTrack"} {
					for _, b := range []string{"single", "audio+video+data", "audio+2video+data"} {
						cases = append(cases, c23Case{Codec: cd.Name, RTX: rtx, OffererIsSende: off, Bundle: b, SenderAPI: api})
						if c.Quick() || b != "audio+2video+data" || cd.Kind != RTPCodecTypeVideo {
							continue
						}
						// thorough: every ordered pair of different video codecs in the three-track bundle
						def := "VP8"
						if cd.Name == "VP8" {
							def = "VP9"
						}
						for _, c2 := range c23Codecs {
							if c2.Kind == RTPCodecTypeVideo && c2.Name != cd.Name && c2.Name != def {
								cases = append(cases, c23Case{Codec: cd.Name, RTX: rtx, OffererIsSende: off, Bundle: b, Second: c2.Name, SenderAPI: api})
							}
						}
					}
				}
			}
		}
	}
	c.Set("cases", len(cases))
	names := []string{}
	for _, cd := range c23Codecs {
		names = append(names, fmt.Sprintf("%s send-pt=%d recv-pt=%d", cd.Name, cd.SendPT, cd.RecvPT))
	}
	sort.Strings(names)
	c.Set("codecs", names)
	c.Set("packets_per_track", len(c23Packets(0)))
	c.Sample(cases[0])
	c.Sample(cases[len(cases)-1])
	vkit.ParallelN(8, len(cases), func(i int) {
		c.Guard(cases[i].key(), map[string]any{"case": cases[i]}, func() { c23Run(x, t, cases[i]) })
	})
	if c.Outcomes() < 1 {
		vkit.Fatalf(t, "vacuous: no media was delivered")
	}
}
