package webrtc

// C03 — A rejected SetLocal/SetRemoteDescription leaves negotiation state unchanged.

import (
	"fmt"
	"testing"

	"github.com/pion/webrtc/v4/internal/verif/vkit"
)

func TestVerifC03(t *testing.T) {
	c := vkit.New("C03", "model_checking")
	defer c.Finish(t)
	if vhReplayMode(t, c, "C03") {
		return
	}
	alpha := vhAlphabetBase()
	depth := c.Pick(4, 5)
	// invalid descriptions tried in every reachable state
	var invalid []vhOp
	for _, ty := range []string{"offer", "pranswer", "answer"} {
		for _, mname := range vhMutations {
			invalid = append(invalid, vhOp{"R", ty, "mut:" + mname})
		}
		invalid = append(invalid, vhOp{"R", ty, "garbage"}, vhOp{"R", ty, "empty"},
			vhOp{"L", ty, "garbage"}, vhOp{"L", ty, "empty"}, vhOp{"L", ty, "stale"}, vhOp{"L", ty, "unrelated"})
	}
	invalid = append(invalid, vhOp{"L", "rollback", "empty"}, vhOp{"R", "rollback", "empty"}, vhOp{"L", "bogus", "fresh"}, vhOp{"R", "bogus", "pool"})
	c.Rule(fmt.Sprintf("every canonical negotiation state reachable within %d calls (merged BFS over real PeerConnections, %d-operation alphabet) x %d further calls: every description type on both sides with %d single-deviation invalid variants of a valid peer description (dropped mid / ufrag / pwd / fingerprint, malformed fingerprint, payload, fmtp, extmap, candidate), unparsable and empty text, stale and unrelated local text; the remote deviations also from the fresh state on connections with SDPSemantics PlanB / UnifiedPlanWithFallback, on the plain offer and on one that announces two tracks in a section; oracle on every rejected call: signaling state and the four descriptions unchanged and no signaling-state event attributed to the call; distinct = (state, call, error class)", depth, len(alpha), len(invalid), len(vhMutations)))
	visit := func(hist []vhOp, r *vhRun) { vhReport(c, "C03", hist, r) }
	reps := vhBFS(t, c, alpha, depth, true, visit)
	c.Set("states_probed", len(reps))
	type job struct {
		canon string
		hist  []vhOp
	}
	var jobs []job
	for _, canon := range vhSortedReps(reps) {
		h := reps[canon]
		for _, op := range invalid {
			jobs = append(jobs, job{canon, append(append([]vhOp{}, h...), op)})
		}
	}
	// the remote deviations again on connections configured with the other SDP semantics (the Plan-B detectors
	// take part in the validation there), from the fresh state, on an offer that announces two tracks in one
	// section with ordinary mids
	semantics := map[string]SDPSemantics{"planb": SDPSemanticsPlanB, "fallback": SDPSemanticsUnifiedPlanWithFallback}
	for _, name := range []string{"fallback", "planb"} {
		cfg := &Configuration{SDPSemantics: semantics[name]}
		for _, base := range []string{"mut:", "twotracks+mut:"} {
			for _, mname := range vhMutations {
				hist := []vhOp{{"R", "offer", base + mname}}
				r := vhReplay(t, hist, cfg)
				c.Eval()
				c.Transition()
				last := r.Steps[len(r.Steps)-1]
				if last.Err != "" {
					c.Distinct("sem=" + name + "|" + last.Op.String() + "|" + last.ErrClass)
				}
				vhReport(c, "C03", hist, r)
			}
		}
	}
	vkit.Parallel(len(jobs), func(i int) {
		j := jobs[i]
		r := vhReplay(t, j.hist)
		c.Eval()
		c.Transition()
		c.Validated()
		last := r.Steps[len(r.Steps)-1]
		if last.Err != "" {
			c.Distinct(j.canon + "|" + last.Op.String() + "|" + last.ErrClass)
		}
		c.Outcome(last.ErrClass)
		vhReport(c, "C03", j.hist, r)
		if i%997 == 0 {
			c.Sample(map[string]any{"history": fmt.Sprint(j.hist), "final_state": last.State, "last_error": last.Err})
		}
	})
}
