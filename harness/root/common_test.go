package webrtc

// Shared helpers of the verification harnesses that live inside package webrtc.
// This file is injected by `go test -overlay`; it is not part of pion/webrtc.

import (
	"crypto/ecdsa"
	"crypto/elliptic"
	"crypto/rand"
	"github.com/pion/transport/v4/vnet"
	"sync"
	"testing"

	"github.com/pion/ice/v4"
	"github.com/pion/interceptor"
	"github.com/pion/webrtc/v4/internal/verif/vkit"
)

var (
	vCertOnce sync.Once
	vCert     *Certificate
)

// vSharedCert returns one ECDSA certificate shared by all harness PeerConnections
// (certificate generation dominates the cost of NewPeerConnection otherwise).
func vSharedCert() Certificate {
	vCertOnce.Do(func() {
		sk, err := ecdsa.GenerateKey(elliptic.P256(), rand.Reader)
		if err != nil {
			panic(err)
		}
		c, err := GenerateCertificate(sk)
		if err != nil {
			panic(err)
		}
		vCert = c
	})

	return *vCert
}

// vAPIOpts configures vNewAPI.
type vAPIOpts struct {
	media   func(m *MediaEngine) error // nil: RegisterDefaultCodecs
	setting func(s *SettingEngine)
	// virtualNet: give the connection a virtual network without interfaces (for harnesses that never connect)
	virtualNet bool
}

// vNewAPI builds an API with no interceptors (no tickers, no background RTCP),
// no mDNS, and no usable network interface (gathering completes at once with no
// candidates).
// vUseVNet is switched on by the harnesses that run under the controlled scheduler (init in their common
// file); harnesses that never connect ask for it per call (vAPIOpts.virtualNet).
var vUseVNet bool

func vNewAPI(tb testing.TB, o vAPIOpts) *API {
	tb.Helper()
	m := &MediaEngine{}
	if o.media != nil {
		if err := o.media(m); err != nil {
			vkit.Fatalf(tb, "media engine: %v", err)
		}
	} else if err := m.RegisterDefaultCodecs(); err != nil {
		vkit.Fatalf(tb, "RegisterDefaultCodecs: %v", err)
	}
	s := SettingEngine{}
	s.SetInterfaceFilter(func(string) bool { return false })
	s.SetIncludeLoopbackCandidate(false)
	vDisableMDNS(&s)
	if vUseVNet || o.virtualNet {
		// no interface of the machine is used anyway (filter above); a virtual network without interfaces
		// keeps the ICE agent from asking the kernel for the interface list at every PeerConnection, which
		// under load fails now and then ("netlinkrib: value too large for defined data type")
		if n, err := vnet.NewNet(&vnet.NetConfig{}); err == nil {
			s.SetNet(n)
		}
	}
	if o.setting != nil {
		o.setting(&s)
	}

	return NewAPI(WithMediaEngine(m), WithSettingEngine(s), WithInterceptorRegistry(&interceptor.Registry{}))
}

// vNewPC creates a PeerConnection on api with the shared certificate.
func vNewPC(tb testing.TB, api *API, cfg *Configuration) *PeerConnection {
	tb.Helper()
	c := Configuration{}
	if cfg != nil {
		c = *cfg
	}
	if len(c.Certificates) == 0 {
		c.Certificates = []Certificate{vSharedCert()}
	}
	pc, err := api.NewPeerConnection(c)
	if err != nil {
		vkit.Fatalf(tb, "NewPeerConnection: %v", err)
	}

	return pc
}

func vDisableMDNS(s *SettingEngine) { s.SetICEMulticastDNSMode(ice.MulticastDNSModeDisabled) }
