package webrtc

// C01 — Signaling state follows the JSEP transition table, with matching descriptions.

import (
	"fmt"
	"testing"

	"github.com/pion/webrtc/v4/internal/verif/vkit"
)

func TestVerifC01(t *testing.T) {
	c := vkit.New("C01", "model_checking")
	defer c.Finish(t)
	if vhReplayMode(t, c, "C01") {
		return
	}
	alpha := vhAlphabetBase()
	depth := c.Pick(6, 8)
	c.Rule(fmt.Sprintf("explicit-state BFS over histories of SetLocalDescription/SetRemoteDescription on fresh real PeerConnections (successor = replay + one call), alphabet of %d operations (offer/pranswer/answer/rollback x local fresh|stale / remote from two static peer descriptions), merged on the canonical state (signaling state, types of the four descriptions, created-offer/answer flags) to depth %d; plus the full unmerged tree to depth 3 (quick) / 5 (thorough); every step compared with an independent JSEP reference model; distinct = canonical states x outcome classes", len(alpha), depth))
	c.Set("alphabet", fmt.Sprint(alpha))
	c.Set("depth_merged", depth)
	visit := func(hist []vhOp, r *vhRun) {
		vhReport(c, "C01", hist, r)
		last := r.Steps[len(r.Steps)-1]
		c.Distinct(r.Canon + "|" + last.Op.String() + "|" + last.ErrClass)
		c.Outcome(last.State + "|" + last.ErrClass)
		if len(hist) == 3 {
			c.Sample(map[string]any{"history": fmt.Sprint(hist), "final_state": last.State, "last_error": last.Err})
		}
	}
	vhBFS(t, c, alpha, depth, true, visit)
	full := c.Pick(3, 5)
	c.Set("depth_full_tree", full)
	vhBFS(t, c, alpha, full, false, visit)
}
