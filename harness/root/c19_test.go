package webrtc

// C19 — Data channels deliver messages exactly once, in order, intact; a channel created
// in-band appears on the remote peer with the same label, protocol, ordered flag and
// reliability parameters.
//
// Pair engine (common_pair_test.go): real PeerConnections connected over loopback, one
// SCTP association per pair, a NEW data channel per enumerated case on an already
// connected pair. Enumerated exhaustively (no sampling):
//   - mirror part: label class x protocol class x ordered x reliability x creating side,
//     in-band channels; oracle = getters of the channel announced by OnDataChannel.
//   - delivery part: every message sequence up to a length over (size class x text/binary)
//     x channel mode (in-band sending after OnOpen / in-band sending as soon as
//     CreateDataChannel returned an open channel / pre-negotiated id) x label/protocol
//     classes, both directions at once (the sequence one way, its reverse the other way, an
//     end marker after each), 1-3 channels concurrently on one association; plus long runs
//     of 500 messages per direction on 1, 2 and 3 channels concurrently.
//     Oracle = FIFO reference per channel and direction: i-th delivered message equals the
//     i-th sent message (bytes, IsString); nothing is delivered beyond the sent ones; a
//     receiving channel that reports OnClose before everything was delivered lost messages.
// The internal schedule of ICE/DTLS/SCTP is whatever happens (not enumerated).

import (
	"bytes"
	"encoding/json"
	"fmt"
	"strings"
	"sync"
	"testing"
	"time"

	"github.com/pion/webrtc/v4/internal/verif/vkit"
)

var c19Sizes = []int{0, 1, 1199, 1200, 16384, 65535}

// long-run size cycle: the classes above plus the fragmentation boundary of pion/sctp
// (sctpOutboundMTU 1191 - 28 header bytes = 1163) and the first size beyond the initial
// 65535-byte read buffer of DataChannel.readLoop (the buffer-growing path).
var c19LongCycle = []int{0, 1, 1163, 1164, 1199, 1200, 16384, 65535, 65536, 100}

var c19StrClasses = []string{"empty", "ascii", "300-byte", "utf-8"}

func c19Str(class int, what string) string {
	switch class {
	case 0:
		return ""
	case 1:
		return what + "-ascii"
	case 2:
		return strings.Repeat(what[:1], 300)
	default:
		return what + "-héllo-✓-日本語"
	}
}

type c19Msg struct {
	Size int  `json:"size"`
	Text bool `json:"text"`
}

func (m c19Msg) class() string {
	k := "binary"
	if m.Text {
		k = "text"
	}

	return fmt.Sprintf("size=%d|kind=%s", m.Size, k)
}

// c19Job is one enumerated case: one data channel on a connected pair.
type c19Job struct {
	Part       string   `json:"part"` // mirror | deliver | long
	Serial     int      `json:"serial"`
	Label      int      `json:"label_class"`
	Proto      int      `json:"protocol_class"`
	Mode       string   `json:"mode"` // inband | inband-early | preneg
	Ordered    bool     `json:"ordered"`
	Rexmit     *uint16  `json:"max_retransmits,omitempty"`
	Lifetime   *uint16  `json:"max_packet_life_time,omitempty"`
	CreatorIsA bool     `json:"creator_is_a"`
	Seq        []c19Msg `json:"seq"`   // creator -> acceptor; the reverse direction carries the reversed sequence
	Group      int      `json:"group"` // number of channels run concurrently with this one (1-3)
}

// keyClass is the coarse class of a message used in violation keys.
func (m c19Msg) keyClass() string {
	k := "binary"
	if m.Text {
		k = "text"
	}
	switch {
	case m.Size == 0:
		return "empty|" + k
	case m.Size <= 1163:
		return "one-chunk|" + k
	case m.Size <= 65535:
		return "fragmented|" + k
	default:
		return "beyond-read-buffer|" + k
	}
}

func (j c19Job) reliableOrdered() bool { return j.Ordered && j.Rexmit == nil && j.Lifetime == nil }

// c19Payload is the deterministic content of message idx of direction dir of job serial.
func c19Payload(serial, dir, idx int, m c19Msg) []byte {
	out := make([]byte, m.Size)
	seed := uint32(serial)*2654435761 + uint32(dir)*40503 + uint32(idx)*97 + 11 //nolint:gosec
	for j := range out {
		x := seed + uint32(j)*7 + uint32(j>>8)*13 + uint32(j>>16)*29 //nolint:gosec
		if m.Text {
			out[j] = byte(0x20 + x%95)
		} else {
			out[j] = byte(x)
		}
	}

	return out
}

// c19Inbox records what one DataChannel object delivered, in delivery order.
type c19Inbox struct {
	dc     *DataChannel
	mu     sync.Mutex
	msgs   []*DataChannelMessage
	sig    chan struct{}
	opened chan struct{}
	closed chan struct{} // OnClose fired: the read loop of this channel object has ended
	// set by the run that owns the channel
	expected int
	judged   bool
	job      c19Job
	dir      int
}

func c19NewInbox(dc *DataChannel) *c19Inbox {
	in := &c19Inbox{dc: dc, sig: make(chan struct{}, 1), opened: make(chan struct{}), closed: make(chan struct{})}
	dc.OnMessage(func(m DataChannelMessage) {
		in.mu.Lock()
		in.msgs = append(in.msgs, &m)
		in.mu.Unlock()
		select {
		case in.sig <- struct{}{}:
		default:
		}
	})
	dc.OnOpen(func() { vPairCloseOnce(in.opened) })
	dc.OnClose(func() { vPairCloseOnce(in.closed) })

	return in
}

// take waits until message i was delivered and returns it (the reference is dropped).
// It returns nil when the channel reported OnClose before message i was delivered: pion
// fires OnClose after the channel's read loop ended, so nothing more will be delivered
// (a positive event, not a time-out).
func (in *c19Inbox) take(i int, what string) *DataChannelMessage {
	guard := time.NewTimer(vPairGuard)
	defer guard.Stop()
	closed := false
	for {
		in.mu.Lock()
		if i < len(in.msgs) {
			m := in.msgs[i]
			in.msgs[i] = nil
			in.mu.Unlock()

			return m
		}
		in.mu.Unlock()
		if closed {
			return nil
		}
		select {
		case <-in.sig:
		case <-in.closed:
			closed = true // look once more: deliveries happen before OnClose
		case <-guard.C:
			vPairFatalf("liveness guard expired while waiting for message %d of %s", i, what)
		}
	}
}

func (in *c19Inbox) count() int {
	in.mu.Lock()
	defer in.mu.Unlock()

	return len(in.msgs)
}

// c19Peer is one side of a pair with the dispatcher of incoming (in-band) channels.
type c19Peer struct {
	side *vPairSide
	mu   sync.Mutex
	in   map[uint16]chan *c19Inbox
}

func (p *c19Peer) slot(id uint16) chan *c19Inbox {
	p.mu.Lock()
	defer p.mu.Unlock()
	ch, ok := p.in[id]
	if !ok {
		ch = make(chan *c19Inbox, 4)
		p.in[id] = ch
	}

	return ch
}

func c19NewPeer(side *vPairSide) *c19Peer {
	p := &c19Peer{side: side, in: map[uint16]chan *c19Inbox{}}
	side.PC.OnDataChannel(func(dc *DataChannel) {
		// handlers are installed before pion starts the channel's read loop
		in := c19NewInbox(dc)
		id := dc.ID()
		if id == nil {
			vPairFatalf("OnDataChannel with a nil ID")
		}
		p.slot(*id) <- in
	})

	return p
}

// c19Conn is a connected pair.
type c19Conn struct {
	pair *vPair
	a, b *c19Peer
	mu   sync.Mutex
	all  []*c19Inbox
}

func (cn *c19Conn) track(in *c19Inbox) {
	cn.mu.Lock()
	cn.all = append(cn.all, in)
	cn.mu.Unlock()
}

func c19Connect(t *testing.T) *c19Conn {
	p := vPairNew(t, vPairOpts{})
	cn := &c19Conn{pair: p, a: c19NewPeer(p.A), b: c19NewPeer(p.B)}
	boot, err := p.A.PC.CreateDataChannel("boot", nil)
	if err != nil {
		vPairFatalf("boot channel: %v", err)
	}
	open := make(chan struct{})
	boot.OnOpen(func() { vPairCloseOnce(open) })
	r := p.Signal(p.A, p.B, vPairSignalHooks{})
	if r.OfferApplyErr != nil || r.AnswerApplyErr != nil {
		vPairFatalf("signaling: %v %v", r.OfferApplyErr, r.AnswerApplyErr)
	}
	vPairWait(open, "boot data channel open")
	bid := boot.ID()
	if bid == nil {
		vPairFatalf("boot channel without id after open")
	}
	select {
	case in := <-cn.b.slot(*bid):
		vPairWait(in.opened, "boot data channel open on B")
	case <-time.After(vPairGuard):
		vPairFatalf("liveness guard expired: boot channel never announced on B")
	}

	return cn
}

type c19Ctx struct {
	c     *vkit.Check
	memoM sync.Mutex
	memo  map[string]bool
}

func (x *c19Ctx) once(k string) bool {
	x.memoM.Lock()
	defer x.memoM.Unlock()
	if x.memo[k] {
		return false
	}
	x.memo[k] = true

	return true
}

func (x *c19Ctx) distinct(k string) {
	if x.once("d|" + k) {
		x.c.Distinct(k)
	}
}

func (x *c19Ctx) outcome(k string) {
	if x.once("o|" + k) {
		x.c.Outcome(k)
	}
}

func c19U16Text(p *uint16) string {
	if p == nil {
		return "nil"
	}

	return fmt.Sprint(*p)
}

func c19Rel(j c19Job) string {
	switch {
	case j.Rexmit != nil:
		return "rexmit=" + c19U16Text(j.Rexmit)
	case j.Lifetime != nil:
		return "lifetime=" + c19U16Text(j.Lifetime)
	default:
		return "reliable"
	}
}

// c19Run executes one job on a connected pair.
func c19Run(x *c19Ctx, cn *c19Conn, j c19Job, localIndex int) { //nolint:cyclop,gocognit
	c := x.c
	creator, acceptor := cn.a, cn.b
	if !j.CreatorIsA {
		creator, acceptor = cn.b, cn.a
	}
	label, proto := c19Str(j.Label, "label"), c19Str(j.Proto, "proto")
	ordered := j.Ordered
	init := &DataChannelInit{Ordered: &ordered, Protocol: &proto, MaxRetransmits: j.Rexmit, MaxPacketLifeTime: j.Lifetime}
	var cin, ain *c19Inbox
	if j.Mode == "preneg" {
		neg := true
		id := uint16(30000 + localIndex) //nolint:gosec
		init.Negotiated, init.ID = &neg, &id
		// the application creates the channel on both sides; nothing is sent before both are open
		adc, err := acceptor.side.PC.CreateDataChannel(label, init)
		if err != nil {
			vPairFatalf("CreateDataChannel (pre-negotiated, acceptor): %v", err)
		}
		ain = c19NewInbox(adc)
		cdc, err := creator.side.PC.CreateDataChannel(label, init)
		if err != nil {
			vPairFatalf("CreateDataChannel (pre-negotiated, creator): %v", err)
		}
		cin = c19NewInbox(cdc)
		vPairWait(ain.opened, "pre-negotiated channel open (acceptor)")
		vPairWait(cin.opened, "pre-negotiated channel open (creator)")
	} else {
		cdc, err := creator.side.PC.CreateDataChannel(label, init)
		if err != nil {
			vPairFatalf("CreateDataChannel: %v (job %s)", err, vkit.Short(j))
		}
		cin = c19NewInbox(cdc)
	}
	cn.track(cin)
	cin.job, cin.dir = j, 1 // cin receives direction 1 (acceptor -> creator)

	// what each direction sends: dir 0 = creator -> acceptor (Seq), dir 1 = reversed Seq
	seqs := [2][]c19Msg{append([]c19Msg{}, j.Seq...), nil}
	for i := len(j.Seq) - 1; i >= 0; i-- {
		seqs[1] = append(seqs[1], j.Seq[i])
	}
	if j.reliableOrdered() {
		// end marker: a delivered marker proves that nothing before it is still to come
		seqs[0] = append(seqs[0], c19Msg{Size: 3, Text: true})
		seqs[1] = append(seqs[1], c19Msg{Size: 3, Text: false})
	} else {
		seqs[0], seqs[1] = nil, nil // the delivery clause is about reliable ordered channels only
	}
	send := func(dc *DataChannel, dir int) (sent []int) {
		for i, m := range seqs[dir] {
			data := c19Payload(j.Serial, dir, i, m)
			var err error
			if m.Text {
				err = dc.SendText(string(data))
			} else {
				err = dc.Send(data)
			}
			if err != nil {
				// not sent: outside the statement ("every message sent"); recorded, not judged
				x.outcome("send-error|" + m.class())
				c.Add("send_errors", 1)

				continue
			}
			sent = append(sent, i)
		}

		return sent
	}

	var sent [2][]int
	early := false
	if j.Mode == "inband-early" && cin.dc.ReadyState() == DataChannelStateOpen {
		// RFC 8832: data may be sent right after DATA_CHANNEL_OPEN, before the ACK came back
		early = true
		sent[0] = send(cin.dc, 0)
	}
	vPairWait(cin.opened, "data channel open on the creating side")
	cid := cin.dc.ID()
	if cid == nil {
		vPairFatalf("open data channel without id")
	}
	if j.Mode != "preneg" {
		select {
		case ain = <-acceptor.slot(*cid):
		case <-time.After(vPairGuard):
			vPairFatalf("liveness guard expired: in-band channel id %d never announced on the remote peer (job %s)", *cid, vkit.Short(j))
		}
	}
	cn.track(ain)
	ain.job, ain.dir = j, 0

	caseKey := fmt.Sprintf("label=%s|protocol=%s|ordered=%v|%s", c19StrClasses[j.Label], c19StrClasses[j.Proto], j.Ordered, c19Rel(j))
	if j.Mode != "preneg" {
		// mirroring clause: the in-band channel as the remote peer sees it
		r := ain.dc
		mism := func(field, class, want, got string) {
			c.Violation(fmt.Sprintf("mirror|%s|%s", field, class),
				fmt.Sprintf("in-band channel created with %s appears remotely with %s=%q, created with %q", caseKey, field, c19Clip(got), c19Clip(want)), j)
		}
		relKind := strings.SplitN(c19Rel(j), "=", 2)[0]
		if r.Label() != label {
			mism("label", "label="+c19StrClasses[j.Label], label, r.Label())
		}
		if r.Protocol() != proto {
			mism("protocol", "protocol="+c19StrClasses[j.Proto], proto, r.Protocol())
		}
		if r.Ordered() != j.Ordered {
			mism("ordered", fmt.Sprintf("ordered=%v|%s", j.Ordered, relKind), fmt.Sprint(j.Ordered), fmt.Sprint(r.Ordered()))
		}
		if c19U16Text(r.MaxRetransmits()) != c19U16Text(j.Rexmit) {
			mism("maxRetransmits", fmt.Sprintf("ordered=%v|%s", j.Ordered, c19Rel(j)), c19U16Text(j.Rexmit), c19U16Text(r.MaxRetransmits()))
		}
		if c19U16Text(r.MaxPacketLifeTime()) != c19U16Text(j.Lifetime) {
			mism("maxPacketLifeTime", fmt.Sprintf("ordered=%v|%s", j.Ordered, c19Rel(j)), c19U16Text(j.Lifetime), c19U16Text(r.MaxPacketLifeTime()))
		}
		x.distinct("mirror|" + caseKey)
		x.outcome(fmt.Sprintf("mirrored|ordered=%v|%s", r.Ordered(), c19Rel(j)))
	}

	if j.reliableOrdered() {
		if !early {
			sent[0] = send(cin.dc, 0)
		}
		vPairWait(ain.opened, "data channel open on the accepting side")
		sent[1] = send(ain.dc, 1)

		var wg sync.WaitGroup
		for dir, in := range []*c19Inbox{ain, cin} {
			wg.Add(1)
			go func(dir int, in *c19Inbox) {
				defer wg.Done()
				c19Judge(x, in, j, dir, seqs[dir], sent[dir], early)
			}(dir, in)
		}
		wg.Wait()
		if j.Part != "mirror" {
			modeKey := j.Mode
			if j.Mode == "inband-early" && !early {
				modeKey = "inband-early-not-open"
			}
			for _, m := range j.Seq {
				x.distinct(fmt.Sprintf("delivered|%s|%s|len=%d|group=%d", m.class(), modeKey, min(len(j.Seq), 4), j.Group))
			}
			if len(j.Seq) == 0 {
				x.distinct(fmt.Sprintf("delivered|empty-sequence|%s", modeKey))
			}
		}
	}
	ain.mu.Lock()
	ain.expected, ain.judged = len(sent[0]), true
	ain.mu.Unlock()
	cin.mu.Lock()
	cin.expected, cin.judged = len(sent[1]), true
	cin.mu.Unlock()
	_ = cin.dc.Close()
}

func c19Clip(s string) string {
	if len(s) > 40 {
		return fmt.Sprintf("%s...(%d bytes)", s[:40], len(s))
	}

	return s
}

// c19Judge is the FIFO reference of one direction of one channel.
func c19Judge(x *c19Ctx, in *c19Inbox, j c19Job, dir int, seq []c19Msg, sent []int, early bool) {
	c := x.c
	mode := j.Mode
	if mode == "inband-early" && !early {
		mode = "inband"
	}
	for pos, idx := range sent {
		want := seq[idx]
		wantData := c19Payload(j.Serial, dir, idx, want)
		got := in.take(pos, fmt.Sprintf("job %s direction %d", vkit.Short(j), dir))
		c.Eval()
		if got == nil {
			c.Violation(fmt.Sprintf("deliver|lost-channel-closed|%s|mode=%s", want.keyClass(), mode),
				fmt.Sprintf("the receiving channel reported OnClose (state %s) after delivering %d of %d sent messages; message #%d (%s) was sent while the channel was open and never delivered", in.dc.ReadyState(), pos, len(sent), pos, want.class()),
				map[string]any{"job": j, "direction": dir, "position": pos, "sent": want})

			return
		}
		if got.IsString == want.Text && bytes.Equal(got.Data, wantData) {
			x.outcome("intact|" + want.class())

			continue
		}
		marker := idx == len(seq)-1
		cls := want.keyClass()
		if marker {
			cls = "end-marker"
		}
		rep := map[string]any{"job": j, "direction": dir, "position": pos, "sent": want, "got_len": len(got.Data), "got_is_string": got.IsString}
		// classify: is it another message of the same direction? (only contents long enough to identify a message)
		other := -1
		for k, idx2 := range sent {
			if k != pos && len(got.Data) >= 16 && got.IsString == seq[idx2].Text && bytes.Equal(got.Data, c19Payload(j.Serial, dir, idx2, seq[idx2])) {
				other = k

				break
			}
		}
		switch {
		case other > pos:
			c.Violation(fmt.Sprintf("deliver|lost-or-reordered|expected=%s|mode=%s", cls, mode),
				fmt.Sprintf("position %d: expected message #%d (%s) but message #%d was delivered (loss or reordering)", pos, pos, want.class(), other), rep)
		case other >= 0:
			c.Violation(fmt.Sprintf("deliver|duplicate|expected=%s|mode=%s", cls, mode),
				fmt.Sprintf("position %d: message #%d was delivered again", pos, other), rep)
		case bytes.Equal(got.Data, wantData):
			c.Violation(fmt.Sprintf("deliver|flag|%s", cls),
				fmt.Sprintf("position %d: bytes intact but IsString=%v, sent as text=%v", pos, got.IsString, want.Text), rep)
		case len(got.Data) != len(wantData):
			c.Violation(fmt.Sprintf("deliver|length|%s", cls),
				fmt.Sprintf("position %d: %d bytes delivered, %d sent (IsString=%v, sent as text=%v)", pos, len(got.Data), len(wantData), got.IsString, want.Text), rep)
		default:
			c.Violation(fmt.Sprintf("deliver|bytes|%s", cls),
				fmt.Sprintf("position %d: %d bytes delivered with different content", pos, len(got.Data)), rep)
		}

		return // the reference is out of step after the first difference
	}
}

// c19Extras flags deliveries beyond what was sent (checked when all work of a pair is done
// and again right before the pair is closed).
func c19Extras(x *c19Ctx, cn *c19Conn) {
	cn.mu.Lock()
	all := append([]*c19Inbox{}, cn.all...)
	cn.mu.Unlock()
	for _, in := range all {
		in.mu.Lock()
		n, exp, judged, j, dir := len(in.msgs), in.expected, in.judged, in.job, in.dir
		in.mu.Unlock()
		if judged && n > exp {
			mode := j.Mode
			x.c.Violation(fmt.Sprintf("deliver|extra|mode=%s|reliable-ordered=%v", mode, j.reliableOrdered()),
				fmt.Sprintf("%d messages delivered on a channel on which %d were sent (direction %d)", n, exp, dir),
				map[string]any{"job": j, "direction": dir})
		}
	}
}

func c19U16(v uint16) *uint16 { return &v }

func c19Alphabet() []c19Msg {
	var out []c19Msg
	for _, s := range c19Sizes {
		out = append(out, c19Msg{Size: s, Text: true}, c19Msg{Size: s, Text: false})
	}

	return out
}

func c19Jobs(c *vkit.Check) []c19Job {
	var jobs []c19Job
	add := func(j c19Job) {
		j.Serial = len(jobs)
		jobs = append(jobs, j)
	}
	// mirror part
	type rel struct{ rexmit, lifetime *uint16 }
	rels := []rel{{}, {rexmit: c19U16(0)}, {rexmit: c19U16(5)}, {lifetime: c19U16(1)}, {lifetime: c19U16(5000)}}
	nMirror := 0
	for l := 0; l < 4; l++ {
		for p := 0; p < 4; p++ {
			for _, ord := range []bool{true, false} {
				for _, r := range rels {
					for _, ca := range []bool{true, false} {
						add(c19Job{
							Part: "mirror", Label: l, Proto: p, Mode: "inband", Ordered: ord, Rexmit: r.rexmit, Lifetime: r.lifetime,
							CreatorIsA: ca, Seq: []c19Msg{{Size: 1, Text: true}},
						})
						nMirror++
					}
				}
			}
		}
	}
	// delivery part
	alpha := c19Alphabet()
	maxLen := c.Pick(2, 3)
	modes := []string{"inband", "inband-early", "preneg"}
	seqs := vkit.AllSequences(len(alpha), 0, maxLen)
	nDeliver := 0
	full := !c.Quick() // thorough: every label class x every protocol class; quick: label and protocol of the same class
	for _, s := range seqs {
		for l := 0; l < 4; l++ {
			for p := 0; p < 4; p++ {
				if !full && l != p {
					continue
				}
				for _, mode := range modes {
					j := c19Job{Part: "deliver", Label: l, Proto: p, Mode: mode, Ordered: true, CreatorIsA: nDeliver%2 == 0}
					for _, a := range s {
						j.Seq = append(j.Seq, alpha[a])
					}
					add(j)
					nDeliver++
				}
			}
		}
	}
	short := vkit.AllSequences(len(alpha), 0, 1)
	nLabel := 0
	for l := 0; l < 4; l++ {
		for p := 0; p < 4; p++ {
			if l == p || full {
				continue // covered above
			}
			for _, mode := range modes {
				for _, s := range short {
					j := c19Job{Part: "deliver", Label: l, Proto: p, Mode: mode, Ordered: true, CreatorIsA: nLabel%2 == 0}
					for _, a := range s {
						j.Seq = append(j.Seq, alpha[a])
					}
					add(j)
					nLabel++
				}
			}
		}
	}
	c.Set("mirror_cases", nMirror)
	c.Set("delivery_sequence_max_len", maxLen)
	c.Set("delivery_sequences", len(seqs))
	c.Set("delivery_label_protocol_classes_full_product", full)
	c.Set("delivery_cases_sequences_x_classes_x_modes", nDeliver)
	c.Set("delivery_cases_12_mixed_label_protocol_classes_x_modes_x_len_le_1", nLabel)

	return jobs
}

func c19LongSeq(n int, cycle []int) []c19Msg {
	out := make([]c19Msg, 0, n)
	for i := 0; i < n; i++ {
		out = append(out, c19Msg{Size: cycle[i%len(cycle)], Text: (i/len(cycle)+i)%2 == 0})
	}

	return out
}

func TestVerifC19(t *testing.T) { //nolint:cyclop
	c := vkit.New("C19", "exploration")
	defer c.Finish(t)
	c.Rule("case = one data channel opened on an already connected loopback pair. mirror part: label class {empty, ascii, 300-byte, UTF-8} x protocol class (same 4) x ordered {true,false} x reliability {reliable, maxRetransmits 0, 5, maxPacketLifeTime 1, 5000} x creating side {A (DTLS server), B}, in-band; delivery part: every sequence of length <= L (quick 2, thorough 3) over size {0,1,1199,1200,16384,65535} x {text,binary} x mode {in-band sending after OnOpen, in-band sending right after CreateDataChannel returned an open channel, pre-negotiated id} x label/protocol class (quick: the 4 classes with label and protocol of the same class; thorough: all 16 label x protocol class combinations), the sequence in one direction and its reverse in the other, each followed by an end marker, channels run in groups of 1,2,3 concurrently on one association; quick additionally: the 12 mixed label x protocol class combinations x mode x sequences of length <= 1; long runs of 500 messages per direction over a fixed size cycle on 1, 2 and 3 channels concurrently; non-trivial = a message class actually delivered / an in-band parameter combination actually mirrored")
	c.Set("schedules_enumerated", false)
	c.Assume("the internal schedule of ICE/DTLS/SCTP over loopback is whatever happens; delay and reordering inside SCTP are not enumerated")
	c.Assume("a Send that returns an error did not send: such a message is not expected to arrive (recorded as an outcome)")
	c.Assume("pre-negotiated channels: the application creates the channel on both peers and sends only after both reported open")
	c.Assume("handlers of an incoming channel are installed inside OnDataChannel (messages that arrive before OnMessage is set are dropped by design)")
	c.Set("size_classes", c19Sizes)
	c.Set("long_run_size_cycle", c19LongCycle)
	x := &c19Ctx{c: c, memo: map[string]bool{}}

	if raw, ok := c.ReplayCase(); ok {
		var wrap struct {
			Job *c19Job `json:"job"`
		}
		var j c19Job
		if err := json.Unmarshal(raw, &wrap); err == nil && wrap.Job != nil {
			j = *wrap.Job
		} else if err := json.Unmarshal(raw, &j); err != nil || j.Mode == "" {
			vkit.Fatalf(t, "replay case: %v", err)
		}
		cn := c19Connect(t)
		defer cn.pair.Close()
		c19Run(x, cn, j, 0)
		c19Extras(x, cn)

		return
	}

	jobs := c19Jobs(c)
	const pairs = 8
	c.Set("pairs", pairs)
	c.Set("cases", len(jobs))
	c.Sample(jobs[0])
	c.Sample(jobs[len(jobs)/2])
	c.Sample(jobs[len(jobs)-1])
	conns := make([]*c19Conn, pairs)
	deadline := c.Deadline(8 * time.Minute)
	vkit.ParallelN(pairs, pairs, func(pi int) {
		cn := c19Connect(t)
		conns[pi] = cn
		var mine []c19Job
		for i := pi; i < len(jobs); i += pairs {
			mine = append(mine, jobs[i])
		}
		// groups of 1, 2, 3 channels run concurrently on this association
		g, local := 0, 0
		for start := 0; start < len(mine); {
			if time.Now().After(deadline) {
				if x.once("budget") {
					c.NotExhaustive(fmt.Sprintf("time budget reached after %d of %d cases of pair %d (cases are enumerated smallest first)", start, len(mine), pi))
				}

				break
			}
			size := g%3 + 1
			g++
			end := min(start+size, len(mine))
			var wg sync.WaitGroup
			for k := start; k < end; k++ {
				j := mine[k]
				j.Group = end - start
				wg.Add(1)
				go func(j c19Job, local int) {
					defer wg.Done()
					c.Guard("job", j, func() { c19Run(x, cn, j, local) })
				}(j, local)
				local++
			}
			wg.Wait()
			start = end
		}
		c19Extras(x, cn)
	})

	// long runs: 500 messages per direction on k channels concurrently, one pair per k
	longN := 500
	ks := []int{1, 2, 3}
	cycle := c19LongCycle
	if !c.Quick() {
		cycle = append(append([]int{}, cycle...), 131071, 200000)
	}
	c.Set("long_run_messages_per_direction", longN)
	c.Set("long_run_concurrent_channels", ks)
	vkit.ParallelN(len(ks), len(ks), func(ki int) {
		cn := conns[ki]
		var wg sync.WaitGroup
		for ch := 0; ch < ks[ki]; ch++ {
			mode := []string{"inband", "preneg", "inband-early"}[ch]
			j := c19Job{
				Part: "long", Serial: 1000000 + ki*10 + ch, Label: 1, Proto: 1, Mode: mode, Ordered: true, CreatorIsA: ch%2 == 0,
				Seq: c19LongSeq(longN, cycle), Group: ks[ki],
			}
			wg.Add(1)
			go func(j c19Job, local int) {
				defer wg.Done()
				c.Guard("long", j, func() { c19Run(x, cn, j, local) })
				x.distinct(fmt.Sprintf("long-run|channels=%d|%s", j.Group, j.Mode))
			}(j, 20000+ch)
		}
		wg.Wait()
	})
	for _, cn := range conns {
		c19Extras(x, cn)
		cn.pair.Close()
	}
	if c.Outcomes() < 2 {
		vkit.Fatalf(t, "vacuous: nothing was delivered")
	}
}
