package webrtc

// C30 "No remote input can crash the process".
//
// Bounded exhaustive deviation enumeration on the real code, executed in WORKER SUBPROCESSES:
// a panic in a goroutine the connection starts in the background kills the whole process, so
// the parent re-executes this test binary with VERIF_C30_WORKER set; the worker appends
// "B <case>" to a log file before a case and "E <case> <outcome>" after it. When a worker dies
// the parent attributes the crash to the logged case, confirms it by running that case alone,
// takes the panic site from the worker's stderr and restarts the worker after that case.
//
// This file is injected by `go test -overlay`; it is not part of pion/webrtc.

import (
	"bytes"
	"encoding/json"
	"fmt"
	"net"
	"os"
	"os/exec"
	"path/filepath"
	"runtime"
	"runtime/debug"
	"sort"
	"strconv"
	"strings"
	"sync"
	"testing"
	"time"

	"github.com/pion/logging"
	"github.com/pion/rtp"
	"github.com/pion/srtp/v3"
	"github.com/pion/webrtc/v4/internal/verif/vkit"
)

// ---------------------------------------------------------------------------------------------
// fixtures (hand-written, browser style)

const c30FP = "a=fingerprint:sha-256 7B:8B:F0:65:5F:78:E2:51:3B:AC:6F:F3:3F:46:1B:35:DC:B8:5F:64:1A:24:C2:43:F0:A1:58:D0:A1:2C:19:08"

func c30Join(lines ...string) string { return strings.Join(lines, "\r\n") + "\r\n" }

// c30FixtureUnified: Unified Plan offer in the style of a browser: audio with ssrc lines and
// candidates, a simulcast video section (rid, simulcast, no ssrc), a video section with
// ssrc-group FID and a data section.
func c30FixtureUnified() string {
	tr := []string{"a=ice-ufrag:sXP5", "a=ice-pwd:yEclOTrLg1gEubBFefOqtmyV", "a=ice-options:trickle", c30FP, "a=setup:actpass"}
	l := []string{
		"v=0", "o=- 4215775240449105457 2 IN IP4 127.0.0.1", "s=-", "t=0 0",
		"a=group:BUNDLE 0 1 2 3", "a=extmap-allow-mixed", "a=msid-semantic: WMS stream1",
		"m=audio 9 UDP/TLS/RTP/SAVPF 111 63 9 0 8", "c=IN IP4 0.0.0.0", "a=rtcp:9 IN IP4 0.0.0.0",
		"a=candidate:842163049 1 udp 1677729535 203.0.113.7 46154 typ srflx raddr 192.168.1.7 rport 46154 generation 0 network-cost 999",
		"a=candidate:1 1 tcp 1518280447 192.168.1.7 9 typ host tcptype active generation 0",
	}
	l = append(l, tr...)
	l = append(l,
		"a=mid:0", "a=extmap:1 urn:ietf:params:rtp-hdrext:ssrc-audio-level",
		"a=extmap:4 urn:ietf:params:rtp-hdrext:sdes:mid", "a=sendrecv", "a=msid:stream1 audio1", "a=rtcp-mux",
		"a=rtpmap:111 opus/48000/2", "a=rtcp-fb:111 transport-cc", "a=fmtp:111 minptime=10;useinbandfec=1",
		"a=rtpmap:63 red/48000/2", "a=fmtp:63 111/111", "a=rtpmap:9 G722/8000", "a=rtpmap:0 PCMU/8000",
		"a=rtpmap:8 PCMA/8000", "a=ssrc:3735928559 cname:c1", "a=ssrc:3735928559 msid:stream1 audio1",
		"m=video 9 UDP/TLS/RTP/SAVPF 96 97 102 103", "c=IN IP4 0.0.0.0", "a=rtcp:9 IN IP4 0.0.0.0")
	l = append(l, tr...)
	l = append(l,
		"a=mid:1", "a=extmap:2 http://www.webrtc.org/experiments/rtp-hdrext/abs-send-time",
		"a=extmap:4 urn:ietf:params:rtp-hdrext:sdes:mid", "a=extmap:10 urn:ietf:params:rtp-hdrext:sdes:rtp-stream-id",
		"a=extmap:11 urn:ietf:params:rtp-hdrext:sdes:repaired-rtp-stream-id", "a=sendonly", "a=msid:stream1 video1",
		"a=rtcp-mux", "a=rtcp-rsize", "a=rtpmap:96 VP8/90000", "a=rtcp-fb:96 goog-remb", "a=rtcp-fb:96 ccm fir",
		"a=rtcp-fb:96 nack", "a=rtcp-fb:96 nack pli", "a=rtpmap:97 rtx/90000", "a=fmtp:97 apt=96",
		"a=rtpmap:102 H264/90000",
		"a=fmtp:102 level-asymmetry-allowed=1;packetization-mode=1;profile-level-id=42001f",
		"a=rtpmap:103 rtx/90000", "a=fmtp:103 apt=102", "a=rid:q send", "a=rid:h send", "a=rid:f send",
		"a=simulcast:send q;h;~f",
		"m=video 9 UDP/TLS/RTP/SAVPF 96 97", "c=IN IP4 0.0.0.0")
	l = append(l, tr...)
	l = append(l,
		"a=mid:2", "a=extmap:4 urn:ietf:params:rtp-hdrext:sdes:mid", "a=sendrecv", "a=msid:stream1 video2",
		"a=rtcp-mux", "a=rtpmap:96 VP8/90000", "a=rtcp-fb:96 nack pli", "a=rtpmap:97 rtx/90000", "a=fmtp:97 apt=96",
		"a=ssrc-group:FID 1111111111 2222222222", "a=ssrc:1111111111 cname:c1", "a=ssrc:1111111111 msid:stream1 video2",
		"a=ssrc:2222222222 cname:c1", "a=ssrc:2222222222 msid:stream1 video2",
		"m=application 9 UDP/DTLS/SCTP webrtc-datachannel", "c=IN IP4 0.0.0.0")
	l = append(l, tr...)
	l = append(l, "a=mid:3", "a=sctp-port:5000", "a=max-message-size:262144")

	return c30Join(l...)
}

// c30FixturePlanB: Plan-B offer in the style of an old browser: several a=ssrc per section,
// two video tracks with FID groups.
func c30FixturePlanB() string {
	tr := []string{"a=ice-ufrag:pB01", "a=ice-pwd:3YlLTrLg1gEubBFefOqtmyVx", c30FP, "a=setup:actpass"}
	ssrc := func(id, stream, track string) []string {
		return []string{
			"a=ssrc:" + id + " cname:pbc", "a=ssrc:" + id + " msid:" + stream + " " + track,
			"a=ssrc:" + id + " mslabel:" + stream, "a=ssrc:" + id + " label:" + track,
		}
	}
	l := []string{
		"v=0", "o=- 7614219274584779017 2 IN IP4 127.0.0.1", "s=-", "t=0 0",
		"a=group:BUNDLE audio video data", "a=msid-semantic: WMS s1 s2",
		"m=audio 9 UDP/TLS/RTP/SAVPF 111 0", "c=IN IP4 0.0.0.0", "a=rtcp:9 IN IP4 0.0.0.0",
		"a=candidate:7 1 udp 2122260223 192.168.1.9 50000 typ host generation 0",
	}
	l = append(l, tr...)
	l = append(l, "a=mid:audio", "a=extmap:1 urn:ietf:params:rtp-hdrext:ssrc-audio-level", "a=sendrecv", "a=rtcp-mux",
		"a=rtpmap:111 opus/48000/2", "a=fmtp:111 minptime=10;useinbandfec=1", "a=rtpmap:0 PCMU/8000")
	l = append(l, ssrc("1001", "s1", "a1")...)
	l = append(l, "m=video 9 UDP/TLS/RTP/SAVPF 96 97", "c=IN IP4 0.0.0.0", "a=rtcp:9 IN IP4 0.0.0.0")
	l = append(l, tr...)
	l = append(l, "a=mid:video", "a=extmap:2 http://www.webrtc.org/experiments/rtp-hdrext/abs-send-time", "a=sendrecv",
		"a=rtcp-mux", "a=rtcp-rsize", "a=rtpmap:96 VP8/90000", "a=rtcp-fb:96 nack", "a=rtcp-fb:96 nack pli",
		"a=rtpmap:97 rtx/90000", "a=fmtp:97 apt=96", "a=ssrc-group:FID 2001 2002")
	l = append(l, ssrc("2001", "s1", "v1")...)
	l = append(l, ssrc("2002", "s1", "v1")...)
	l = append(l, "a=ssrc-group:FID 3001 3002")
	l = append(l, ssrc("3001", "s2", "v2")...)
	l = append(l, ssrc("3002", "s2", "v2")...)
	l = append(l, "m=application 9 DTLS/SCTP 5000", "c=IN IP4 0.0.0.0")
	l = append(l, tr...)
	l = append(l, "a=mid:data", "a=sctpmap:5000 webrtc-datachannel 1024")

	return c30Join(l...)
}

// ---------------------------------------------------------------------------------------------
// seeds

type c30Seed struct {
	Name  string `json:"name"`
	Type  string `json:"type"`  // "offer" | "answer"
	Local string `json:"local"` // local set-up of the connection the seed is fed to
	SDP   string `json:"sdp"`
	D     bool   `json:"d,omitempty"` // seed of part D (real pair; the text only fixes the line structure)
	// Identity: the text of another offer seed, fed UNCHANGED to a connection with another local set-up
	Identity bool `json:"identity,omitempty"`
}

// c30ExtraLocals: local set-ups every offer seed is additionally fed to without any deviation (the local
// side decides which transceivers have no sender / no receiver when the remote section is applied).
var c30ExtraLocals = []string{"bare", "video", "avd", "sim", "sendonly-kinds", "recvonly-kinds", "sendonly-tracks"}

// c30RTPLocals: set-ups of the RECEIVING side of the RTP part ("" = audio track only: the simulcast section
// gets a transceiver created from the offer).
var c30RTPLocals = []string{"", "video-sender-only"}

var c30Sems = []SDPSemantics{SDPSemanticsUnifiedPlan, SDPSemanticsPlanB, SDPSemanticsUnifiedPlanWithFallback}

var c30SemNames = []string{"unified", "planb", "fallback"}

func c30API(tb testing.TB) *API {
	lf := logging.NewDefaultLoggerFactory()
	lf.DefaultLogLevel = logging.LogLevelDisabled

	return vNewAPI(tb, vAPIOpts{
		media: func(m *MediaEngine) error {
			if err := m.RegisterDefaultCodecs(); err != nil {
				return err
			}
			if err := ConfigureSimulcastExtensionHeaders(m); err != nil {
				return err
			}

			return m.RegisterHeaderExtension(
				RTPHeaderExtensionCapability{URI: "urn:ietf:params:rtp-hdrext:sdes:mid"}, RTPCodecTypeAudio)
		},
		setting: func(s *SettingEngine) { s.LoggerFactory = lf },
	})
}

// c30SeedAPI registers a small codec set, so that the pion-generated seeds stay at 50-80 lines
// (the connections the seeds are fed to use the full default set).
func c30SeedAPI(tb testing.TB) *API {
	fb := []RTCPFeedback{{Type: "goog-remb"}, {Type: "ccm", Parameter: "fir"}, {Type: "nack"}, {Type: "nack", Parameter: "pli"}}
	reg := func(m *MediaEngine, mime string, clock uint32, ch uint16, fmtpLine string, pt PayloadType, kind RTPCodecType, f []RTCPFeedback) error {
		return m.RegisterCodec(RTPCodecParameters{
			RTPCodecCapability: RTPCodecCapability{MimeType: mime, ClockRate: clock, Channels: ch, SDPFmtpLine: fmtpLine, RTCPFeedback: f},
			PayloadType:        pt,
		}, kind)
	}

	return vNewAPI(tb, vAPIOpts{
		media: func(m *MediaEngine) error {
			for _, err := range []error{
				reg(m, MimeTypeOpus, 48000, 2, "minptime=10;useinbandfec=1", 111, RTPCodecTypeAudio, nil),
				reg(m, MimeTypePCMU, 8000, 0, "", 0, RTPCodecTypeAudio, nil),
				reg(m, MimeTypeVP8, 90000, 0, "", 96, RTPCodecTypeVideo, fb),
				reg(m, MimeTypeRTX, 90000, 0, "apt=96", 97, RTPCodecTypeVideo, nil),
				reg(m, MimeTypeH264, 90000, 0, "level-asymmetry-allowed=1;packetization-mode=1;profile-level-id=42001f", 102, RTPCodecTypeVideo, fb),
				reg(m, MimeTypeRTX, 90000, 0, "apt=102", 103, RTPCodecTypeVideo, nil),
				ConfigureSimulcastExtensionHeaders(m),
				m.RegisterHeaderExtension(RTPHeaderExtensionCapability{URI: "urn:ietf:params:rtp-hdrext:sdes:mid"}, RTPCodecTypeAudio),
			} {
				if err != nil {
					return err
				}
			}

			return nil
		},
	})
}

func c30Track(tb testing.TB, mime, id, stream, rid string) *TrackLocalStaticRTP {
	var opts []func(*TrackLocalStaticRTP)
	if rid != "" {
		opts = append(opts, WithRTPStreamID(rid))
	}
	tr, err := NewTrackLocalStaticRTP(RTPCodecCapability{MimeType: mime}, id, stream, opts...)
	if err != nil {
		vkit.Fatalf(tb, "track: %v", err)
	}

	return tr
}

// c30Setup populates a fresh connection according to a named local set-up.
func c30Setup(tb testing.TB, pc *PeerConnection, setup string) {
	must := func(err error) {
		if err != nil {
			vkit.Fatalf(tb, "setup %s: %v", setup, err)
		}
	}
	addTrack := func(mime, id string) {
		_, err := pc.AddTrack(c30Track(tb, mime, id, "ls", ""))
		must(err)
	}
	data := func() {
		_, err := pc.CreateDataChannel("d", nil)
		must(err)
	}
	switch setup {
	case "bare":
	case "data":
		data()
	case "audio":
		addTrack(MimeTypeOpus, "la")
	case "video":
		addTrack(MimeTypeVP8, "lv")
	case "av":
		addTrack(MimeTypeOpus, "la")
		addTrack(MimeTypeVP8, "lv")
	case "avd":
		addTrack(MimeTypeOpus, "la")
		addTrack(MimeTypeVP8, "lv")
		data()
	case "planb":
		addTrack(MimeTypeOpus, "la")
		addTrack(MimeTypeVP8, "lv")
		addTrack(MimeTypeVP8, "lv2")
		data()
	case "sim":
		t, err := pc.AddTransceiverFromTrack(c30Track(tb, MimeTypeVP8, "lv", "ls", "q"),
			RTPTransceiverInit{Direction: RTPTransceiverDirectionSendonly})
		must(err)
		must(t.Sender().AddEncoding(c30Track(tb, MimeTypeVP8, "lv", "ls", "h")))
		must(t.Sender().AddEncoding(c30Track(tb, MimeTypeVP8, "lv", "ls", "f")))
		addTrack(MimeTypeOpus, "la")
	case "sim-sendrecv":
		tr, err := pc.AddTransceiverFromTrack(c30Track(tb, MimeTypeVP8, "lv", "ls", "q"),
			RTPTransceiverInit{Direction: RTPTransceiverDirectionSendrecv})
		must(err)
		must(tr.Sender().AddEncoding(c30Track(tb, MimeTypeVP8, "lv", "ls", "h")))
		must(tr.Sender().AddEncoding(c30Track(tb, MimeTypeVP8, "lv", "ls", "f")))
		addTrack(MimeTypeOpus, "la")
	case "audio+video-sender-only":
		addTrack(MimeTypeOpus, "la")
		_, err := pc.AddTransceiverFromTrack(c30Track(tb, MimeTypeVP8, "lv", "ls", ""), RTPTransceiverInit{Direction: RTPTransceiverDirectionSendonly})
		must(err)
	case "sendonly-kinds", "recvonly-kinds":
		// transceivers made from a kind: a send-only one has no receiver, a receive-only one no sender
		dir := map[string]RTPTransceiverDirection{"sendonly-kinds": RTPTransceiverDirectionSendonly, "recvonly-kinds": RTPTransceiverDirectionRecvonly}[setup]
		for _, k := range []RTPCodecType{RTPCodecTypeAudio, RTPCodecTypeVideo} {
			_, err := pc.AddTransceiverFromKind(k, RTPTransceiverInit{Direction: dir})
			must(err)
		}
	case "sendonly-tracks":
		for _, m := range []string{MimeTypeOpus, MimeTypeVP8} {
			_, err := pc.AddTransceiverFromTrack(c30Track(tb, m, "l"+m[:1], "ls", ""), RTPTransceiverInit{Direction: RTPTransceiverDirectionSendonly})
			must(err)
		}
	default:
		vkit.Fatalf(tb, "unknown setup %q", setup)
	}
}

func c30NewPC(tb testing.TB, sem SDPSemantics, setup string) *PeerConnection {
	pc := vNewPC(tb, c30API(tb), &Configuration{SDPSemantics: sem})
	c30Setup(tb, pc, setup)

	return pc
}

func c30SeedPC(tb testing.TB, sem SDPSemantics, setup string) *PeerConnection {
	pc := vNewPC(tb, c30SeedAPI(tb), &Configuration{SDPSemantics: sem})
	c30Setup(tb, pc, setup)

	return pc
}

// c30MakeSeeds produces the seed descriptions with the real code (pion offers and answers) and
// appends the two fixtures. Ordered smallest first.
func c30MakeSeeds(tb testing.TB) []c30Seed {
	var seeds []c30Seed
	gen := func(name string, sem SDPSemantics, offSetup, ansSetup string, wantAnswer bool) {
		off := c30SeedPC(tb, sem, offSetup)
		defer func() { _ = off.Close() }()
		o, err := off.CreateOffer(nil)
		if err != nil {
			vkit.Fatalf(tb, "seed %s: CreateOffer: %v", name, err)
		}
		seeds = append(seeds, c30Seed{Name: name + "-offer", Type: "offer", Local: "audio", SDP: o.SDP})
		if !wantAnswer {
			return
		}
		ans := c30SeedPC(tb, sem, ansSetup)
		defer func() { _ = ans.Close() }()
		if err = ans.SetRemoteDescription(o); err != nil {
			vkit.Fatalf(tb, "seed %s: SetRemoteDescription: %v", name, err)
		}
		a, err := ans.CreateAnswer(nil)
		if err != nil {
			vkit.Fatalf(tb, "seed %s: CreateAnswer: %v", name, err)
		}
		seeds = append(seeds, c30Seed{Name: name + "-answer", Type: "answer", Local: offSetup, SDP: a.SDP})
	}
	gen("data", SDPSemanticsUnifiedPlan, "data", "bare", true)
	gen("audio", SDPSemanticsUnifiedPlan, "audio", "audio", true)
	gen("avd", SDPSemanticsUnifiedPlan, "avd", "avd", true)
	gen("sim", SDPSemanticsUnifiedPlan, "sim", "audio", true)
	gen("planb", SDPSemanticsPlanB, "planb", "planb", true)
	seeds = append(seeds,
		c30Seed{Name: "fix-unified", Type: "offer", Local: "audio", SDP: c30FixtureUnified()},
		c30Seed{Name: "fix-planb", Type: "offer", Local: "audio", SDP: c30FixturePlanB()},
	)
	// order = priority when a time budget cuts the enumeration: the small seeds, the two fixtures,
	// then the larger pion seeds; by size inside each group
	rank := func(s c30Seed) int {
		n := strings.Count(s.SDP, "\n")
		switch {
		case n <= 30:
			return n
		case strings.HasPrefix(s.Name, "fix-"):
			return 1000 + n
		}

		return 2000 + n
	}
	sort.SliceStable(seeds, func(i, j int) bool { return rank(seeds[i]) < rank(seeds[j]) })
	// every offer seed, unchanged, against the further local set-ups (appended: the order above is a priority)
	n := len(seeds)
	for i := 0; i < n; i++ {
		if seeds[i].Type != "offer" {
			continue
		}
		for _, l := range c30ExtraLocals {
			if l != seeds[i].Local {
				seeds = append(seeds, c30Seed{Name: seeds[i].Name + "@" + l, Type: "offer", Local: l, SDP: seeds[i].SDP, Identity: true})
			}
		}
	}

	return seeds
}

// ---------------------------------------------------------------------------------------------
// deviation operators (line level)

var c30Nasty = []string{
	"", " ", "x", "-1", "4294967296", "a b c d", strings.Repeat("A", 1024), "\t", "0", "65536", ":", "a=b",
	"x y", "x y z",
}

var c30NastyNames = []string{
	"empty", "space", "x", "-1", "2^32", "4-fields", "1KiB", "tab", "0", "65536", "colon", "a=b", "2-fields", "3-fields",
}

var c30Families = []string{
	"ssrc", "ssrc-group", "rid", "simulcast", "msid", "mid", "group", "extmap", "rtpmap", "fmtp", "rtcp-fb",
	"setup", "fingerprint", "ice-ufrag",
}

// c30Dev is one deviation. Op: del, dup, swap, trunc (keep the first I lines), val (replace the
// value of line I by nasty N), tok (replace token J of the value of line I by nasty N), tdel
// (delete token J), tcut (keep the first J tokens), sep (at the J-th separator character of the
// value: N=0 duplicate it, N=1 cut the value after it), fdel / fren
// (delete / rename to x-<family> every line of attribute family Fam).
type c30Dev struct {
	Op  string `json:"op"`
	I   int    `json:"i"`
	J   int    `json:"j,omitempty"`
	N   int    `json:"n,omitempty"`
	Fam string `json:"fam,omitempty"`
}

func c30Lines(s string) []string {
	return strings.Split(strings.TrimSuffix(s, "\r\n"), "\r\n")
}

// c30ValueAt returns the offset of the value part of a line ("a=key:VALUE", "a=flag" has none,
// "m=VALUE").
func c30ValueAt(line string) int {
	if len(line) < 2 || line[1] != '=' {
		return -1
	}
	if line[0] == 'a' {
		if k := strings.IndexByte(line, ':'); k >= 0 {
			return k + 1
		}

		return -1
	}

	return 2
}

func c30LineKind(line string) string {
	if len(line) < 2 || line[1] != '=' {
		return "?"
	}
	if line[0] != 'a' {
		return line[:1]
	}
	k := line[2:]
	if i := strings.IndexByte(k, ':'); i >= 0 {
		k = k[:i]
	}

	return k
}

func c30IsFamily(line, fam string) bool {
	return line == "a="+fam || strings.HasPrefix(line, "a="+fam+":")
}

// c30SepOffsets returns the offsets of the separator characters of a value.
func c30SepOffsets(v string) []int {
	var out []int
	colons := 0
	for i := 0; i < len(v); i++ {
		switch v[i] {
		case ';', ',', '/', '=':
			out = append(out, i)
		case ':':
			if colons < 2 {
				out = append(out, i)
			}
			colons++
		}
	}

	return out
}

// c30Devs enumerates all single deviations of the seed lines. tok operators only when withTok.
func c30Devs(lines []string, withTok bool) []c30Dev {
	var out []c30Dev
	// attribute-value operators first (priority when a budget cuts the enumeration)
	for i, l := range lines {
		if c30ValueAt(l) < 0 {
			continue
		}
		for n := range c30Nasty {
			out = append(out, c30Dev{Op: "val", I: i, N: n})
		}
	}
	for _, f := range c30Families {
		has := false
		for _, l := range lines {
			has = has || c30IsFamily(l, f)
		}
		if has {
			out = append(out, c30Dev{Op: "fdel", I: -1, Fam: f}, c30Dev{Op: "fren", I: -1, Fam: f})
		}
	}
	for i := range lines {
		out = append(out, c30Dev{Op: "del", I: i}, c30Dev{Op: "dup", I: i})
		if i+1 < len(lines) {
			out = append(out, c30Dev{Op: "swap", I: i})
		}
		if i > 0 {
			out = append(out, c30Dev{Op: "trunc", I: i})
		}
	}
	// token structure of multi-token values: delete token J, keep only the first J tokens
	for i, l := range lines {
		at := c30ValueAt(l)
		if at < 0 {
			continue
		}
		n := len(strings.Split(l[at:], " "))
		if n < 2 {
			continue
		}
		for j := 0; j < n; j++ {
			out = append(out, c30Dev{Op: "tdel", I: i, J: j})
			if j > 0 {
				out = append(out, c30Dev{Op: "tcut", I: i, J: j})
			}
		}
	}
	// list structure inside values: at the K-th separator character (";" "," "/" "=", and the
	// first two ":") duplicate it (an empty element) or cut the value right after it (a missing
	// element at the end)
	for i, l := range lines {
		at := c30ValueAt(l)
		if at < 0 {
			continue
		}
		for k := range c30SepOffsets(l[at:]) {
			out = append(out, c30Dev{Op: "sep", I: i, J: k, N: 0}, c30Dev{Op: "sep", I: i, J: k, N: 1})
		}
	}
	if withTok {
		for i, l := range lines {
			at := c30ValueAt(l)
			if at < 0 {
				continue
			}
			toks := strings.Split(l[at:], " ")
			if len(toks) < 2 {
				continue
			}
			for j := range toks {
				for n := range c30Nasty {
					out = append(out, c30Dev{Op: "tok", I: i, J: j, N: n})
				}
			}
		}
	}

	return out
}

// c30Apply applies one deviation to a copy of lines.
func c30Apply(lines []string, d c30Dev) []string {
	out := make([]string, 0, len(lines)+1)
	// a second deviation may meet a text in which its address no longer exists: then it is void
	switch d.Op {
	case "none":
		return lines
	case "sep":
		if d.I >= len(lines) || c30ValueAt(lines[d.I]) < 0 || d.J >= len(c30SepOffsets(lines[d.I][c30ValueAt(lines[d.I]):])) {
			return lines
		}
	case "del", "dup", "val", "tok", "tdel", "tcut":
		if d.I >= len(lines) {
			return lines
		}
		if at := c30ValueAt(lines[d.I]); d.Op != "del" && d.Op != "dup" && at < 0 {
			return lines
		} else if (d.Op == "tok" || d.Op == "tdel" || d.Op == "tcut") && d.J >= len(strings.Split(lines[d.I][at:], " ")) {
			return lines
		}
	case "swap":
		if d.I+1 >= len(lines) {
			return lines
		}
	case "trunc":
		if d.I > len(lines) {
			return lines
		}
	}
	switch d.Op {
	case "del":
		out = append(out, lines[:d.I]...)
		out = append(out, lines[d.I+1:]...)
	case "dup":
		out = append(out, lines[:d.I+1]...)
		out = append(out, lines[d.I:]...)
	case "swap":
		out = append(out, lines...)
		out[d.I], out[d.I+1] = out[d.I+1], out[d.I]
	case "trunc":
		out = append(out, lines[:d.I]...)
	case "val":
		out = append(out, lines...)
		out[d.I] = out[d.I][:c30ValueAt(out[d.I])] + c30Nasty[d.N]
	case "tok":
		out = append(out, lines...)
		at := c30ValueAt(out[d.I])
		toks := strings.Split(out[d.I][at:], " ")
		toks[d.J] = c30Nasty[d.N]
		out[d.I] = out[d.I][:at] + strings.Join(toks, " ")
	case "sep":
		out = append(out, lines...)
		at := c30ValueAt(out[d.I])
		v := out[d.I][at:]
		o := c30SepOffsets(v)[d.J]
		if d.N == 0 {
			v = v[:o+1] + v[o:]
		} else {
			v = v[:o+1]
		}
		out[d.I] = out[d.I][:at] + v
	case "tdel", "tcut":
		out = append(out, lines...)
		at := c30ValueAt(out[d.I])
		toks := strings.Split(out[d.I][at:], " ")
		if d.Op == "tdel" {
			toks = append(toks[:d.J:d.J], toks[d.J+1:]...)
		} else {
			toks = toks[:d.J]
		}
		out[d.I] = out[d.I][:at] + strings.Join(toks, " ")
	case "fdel":
		for _, l := range lines {
			if !c30IsFamily(l, d.Fam) {
				out = append(out, l)
			}
		}
	case "fren":
		for _, l := range lines {
			if c30IsFamily(l, d.Fam) {
				l = "a=x-" + l[2:]
			}
			out = append(out, l)
		}
	default:
		out = append(out, lines...)
	}

	return out
}

// c30ApplyAll applies deviations (each addressed in the coordinates of the seed) from the
// highest line index down, so that the addresses of the remaining ones stay valid; the family
// operators, which have no address, are applied last.
func c30ApplyAll(lines []string, devs []c30Dev) string {
	ds := append([]c30Dev{}, devs...)
	sort.SliceStable(ds, func(i, j int) bool { return ds[i].I > ds[j].I })
	for _, d := range ds { // the address-free family operators (I = -1) come last
		lines = c30Apply(lines, d)
	}
	if len(lines) == 0 {
		return ""
	}

	return strings.Join(lines, "\r\n") + "\r\n"
}

func c30DevFamily(lines []string, d c30Dev) (op, kind string) {
	switch d.Op {
	case "none":
		return "none", "-"
	case "fdel", "fren":
		return d.Op, d.Fam
	case "val", "tok":
		return d.Op + ":" + c30NastyNames[d.N], c30LineKind(lines[d.I])
	case "tdel", "tcut", "sep":
		return d.Op, c30LineKind(lines[d.I])
	case "trunc":
		return d.Op, "-"
	default:
		return d.Op, c30LineKind(lines[d.I])
	}
}

// ---------------------------------------------------------------------------------------------
// cases

// c30Case is one executable case (also the replay format).
type c30Case struct {
	Part string `json:"part"` // "sdp" | "cand" | "rtp"
	// sdp
	Seed  string   `json:"seed,omitempty"`
	Devs  []c30Dev `json:"devs,omitempty"`
	Type  string   `json:"type,omitempty"`  // offer | answer
	Local string   `json:"local,omitempty"` // local set-up
	Sem   int      `json:"sem"`
	Mode  string   `json:"mode,omitempty"` // "queue": the queued background work runs (after Close); "seam": direct seam calls on a simulated SRTP session
	SDP   string   `json:"sdp,omitempty"`
	// cand
	Cand  string  `json:"cand,omitempty"`
	Mid   *string `json:"mid,omitempty"`
	MLine *int    `json:"mline,omitempty"`
	Ufrag *string `json:"ufrag,omitempty"`
	State string  `json:"state,omitempty"` // "have-remote-offer" | "stable"
	// pair (part D): the line kinds of the seed, to check that the fresh offer has the seed's structure
	Kinds []string `json:"kinds,omitempty"`
	// rtp
	Shape *int `json:"shape,omitempty"` // nil: all shapes
	// key parts
	Op   string `json:"op"`
	Kind string `json:"kind"`
}

type c30Job struct {
	seed   *c30Seed
	lines  []string
	devs   []c30Dev
	sem    int
	mode   string
	pairs  bool
	start  int   // first global index
	n      int   // number of cases
	rowOff []int // pairs: offset of row a
	crash  []bool
}

type c30Env struct {
	seeds  []c30Seed
	jobs   []*c30Job
	nSDP   int
	cands  []c30Case // generated on first use (a restarted worker beyond them never needs them)
	nCands int
	// nSingles: candidate cases + single-deviation cases (phase 1); the pair cases follow (phase 2)
	nSingles int
	total    int
	// skip: deviations that crashed the process as single deviations, per seed|sem|mode; pairs
	// containing one of them are not executed (every such pair would restart a worker)
	skip map[string][]c30Dev

	seedByName map[string]*c30Seed
	thorough   bool
}

// prefix generates the cheap-to-enumerate prefix of the case space: candidate cases (part B)
// followed by the real-pair cases (part D).
func (e *c30Env) prefix() []c30Case {
	return append(c30CandCases(), c30PairCases(e.seeds, e.thorough)...)
}

func c30SkipKey(seed string, sem int, mode string) string {
	return seed + "|" + strconv.Itoa(sem) + "|" + mode
}

// skipPair reports whether global index i is a pair case containing a deviation that already
// crashed the process on its own.
func (e *c30Env) skipPair(i int) bool {
	if i < e.nSingles || len(e.skip) == 0 {
		return false
	}
	i -= e.nCands
	k := sort.Search(len(e.jobs), func(k int) bool { return e.jobs[k].start+e.jobs[k].n > i })
	j := e.jobs[k]
	if !j.pairs {
		return false
	}
	if j.crash == nil {
		j.crash = make([]bool, len(j.devs))
		for _, d := range e.skip[c30SkipKey(j.seed.Name, j.sem, j.mode)] {
			for x := range j.devs {
				if j.devs[x] == d {
					j.crash[x] = true
				}
			}
		}
	}
	i -= j.start
	a := sort.Search(len(j.devs), func(a int) bool { return j.rowOff[a+1] > i })
	b := a + 1 + (i - j.rowOff[a])

	return j.crash[a] || j.crash[b]
}

var c30Modes = []string{"queue", "seam"}

func c30BuildEnv(seeds []c30Seed, thorough bool, nCands int) *c30Env {
	e := &c30Env{seeds: seeds, seedByName: map[string]*c30Seed{}, thorough: thorough}
	for si := range seeds {
		e.seedByName[seeds[si].Name] = &seeds[si]
	}
	add := func(j *c30Job) {
		j.start = e.nSDP
		if j.pairs {
			j.rowOff = make([]int, len(j.devs)+1)
			for a := range j.devs {
				j.rowOff[a+1] = j.rowOff[a] + len(j.devs) - a - 1
			}
			j.n = j.rowOff[len(j.devs)]
		} else {
			j.n = len(j.devs)
		}
		e.nSDP += j.n
		e.jobs = append(e.jobs, j)
	}
	for si := range seeds {
		s := &seeds[si]
		if s.D {
			continue
		}
		lines := c30Lines(s.SDP)
		// token replacement operators: quick tier only for the small seeds
		devs := c30Devs(lines, thorough || len(lines) <= 30)
		if s.Identity {
			devs = []c30Dev{{Op: "none"}}
		}
		for sem := range c30Sems {
			for _, m := range c30Modes {
				add(&c30Job{seed: s, lines: lines, devs: devs, sem: sem, mode: m})
			}
		}
	}
	e.nSingles = e.nSDP
	if thorough {
		// all pairs of deviations (without the token replacement operators) of the two smallest
		// seeds; pairs of the structural deviations (delete a line, delete / rename a family) of the
		// other seeds, for the two fixtures and the seeds of <= 30 lines also with the value
		// replacements on ssrc / ssrc-group / rid / simulcast / msid / mid lines
		for si := range seeds {
			s := &seeds[si]
			if s.D || s.Identity {
				continue
			}
			lines := c30Lines(s.SDP)
			devs := c30Devs(lines, false)
			if si >= 2 {
				var st []c30Dev
				for _, d := range devs {
					trackLine := false
					if d.Op == "val" && (strings.HasPrefix(s.Name, "fix-") || len(lines) <= 30) {
						switch c30LineKind(lines[d.I]) {
						case "ssrc", "ssrc-group", "rid", "simulcast", "msid", "mid":
							trackLine = true
						}
					}
					if d.Op == "del" || d.Op == "fdel" || d.Op == "fren" || trackLine {
						st = append(st, d)
					}
				}
				devs = st
			}
			for sem := range c30Sems {
				for _, m := range c30Modes {
					add(&c30Job{seed: s, lines: lines, devs: devs, sem: sem, mode: m, pairs: true})
				}
			}
		}
	}
	if nCands < 0 {
		e.cands = e.prefix()
		nCands = len(e.cands)
	}
	e.nCands = nCands
	e.nSingles += nCands
	e.total = e.nSDP + nCands

	return e
}

// caseAt decodes global index i. Candidate cases come first (they are cheap).
func (e *c30Env) caseAt(i int) c30Case {
	cs := e.caseMeta(i)
	if cs.Part == "sdp" {
		cs.SDP = c30ApplyAll(c30Lines(e.seedByName[cs.Seed].SDP), cs.Devs)
	}

	return cs
}

// caseMeta is caseAt without the mutated text.
func (e *c30Env) caseMeta(i int) c30Case {
	if i < e.nCands {
		if e.cands == nil {
			e.cands = e.prefix()
		}

		return e.cands[i]
	}
	i -= e.nCands
	k := sort.Search(len(e.jobs), func(k int) bool { return e.jobs[k].start+e.jobs[k].n > i })
	j := e.jobs[k]
	i -= j.start
	cs := c30Case{Part: "sdp", Seed: j.seed.Name, Type: j.seed.Type, Local: j.seed.Local, Sem: j.sem, Mode: j.mode}
	if j.pairs {
		a := sort.Search(len(j.devs), func(a int) bool { return j.rowOff[a+1] > i })
		b := a + 1 + (i - j.rowOff[a])
		cs.Devs = []c30Dev{j.devs[a], j.devs[b]}
		o1, k1 := c30DevFamily(j.lines, j.devs[a])
		o2, k2 := c30DevFamily(j.lines, j.devs[b])
		cs.Op = "pair"
		cs.Kind = c30OpBase(o1) + "/" + k1 + "+" + c30OpBase(o2) + "/" + k2
	} else {
		cs.Devs = []c30Dev{j.devs[i]}
		cs.Op, cs.Kind = c30DevFamily(j.lines, j.devs[i])
	}

	return cs
}

func c30OpBase(op string) string {
	if i := strings.IndexByte(op, ':'); i >= 0 {
		return op[:i]
	}

	return op
}

// ---------------------------------------------------------------------------------------------
// candidate cases (part B)

type c30Field struct {
	name  string
	valid []string
	nasty []string
}

const c30Missing = "\x00missing" // the field and everything after it is cut off

func c30CandFields() []c30Field {
	num := []string{"", "x", "-1", "4294967296", "99999999999999999999", "1.5", "0x10", " "}

	return []c30Field{
		{"foundation", []string{"842163049"}, []string{"", strings.Repeat("f", 33), strings.Repeat("A", 1024), "\t", "+/=", c30Missing}},
		{"component", []string{"1", "2"}, append([]string{"0", "256", "65536", c30Missing}, num...)},
		{"transport", []string{"udp", "tcp"}, []string{"UDP", "", "x", "sctp", "udp4", "tcp6", "ssltcp", "-1", strings.Repeat("u", 1024), c30Missing}},
		{"priority", []string{"2130706431"}, append([]string{"4294967295", c30Missing}, num...)},
		{"address", []string{"192.168.1.7", "::1", "a1b2c3d4.local"}, []string{
			"", "x", "256.1.1.1", "1.2.3", "1.2.3.4.5", ":::", "[::1]", "fe80::1%eth0", "fe80::1%", ".local", "a..local",
			strings.Repeat("a", 1024) + ".local", "-1", "0", "4294967296", c30Missing,
		}},
		{"port", []string{"50000", "9"}, append([]string{"0", "65535", "65536", c30Missing}, num...)},
		{"typ-keyword", []string{"typ"}, []string{"", "type", "TYP", "x", c30Missing}},
		{"typ", []string{"host", "srflx", "prflx", "relay"}, []string{"", "x", "HOST", "hostx", "-1", strings.Repeat("h", 1024), c30Missing}},
		{"raddr", []string{"", "raddr 10.0.0.1 rport 4000"}, []string{
			"raddr 0.0.0.0 rport 0", "raddr :: rport 9",
			"raddr", "raddr 10.0.0.1", "raddr 10.0.0.1 rport", "raddr 10.0.0.1 rport x", "raddr 10.0.0.1 rport -1",
			"raddr 10.0.0.1 rport 65536", "raddr 10.0.0.1 rport 99999999999999999999", "raddr x rport 1", "raddr  rport 1",
			"raddr 256.0.0.1 rport 1", "raddr 10.0.0.1 xport 1", "rport 4000", "raddr 10.0.0.1 rport 4000 raddr 10.0.0.2 rport 1",
			"raddr " + strings.Repeat("1", 1024) + " rport 1",
		}},
		{"tcptype", []string{"", "tcptype active"}, []string{
			"tcptype passive", "tcptype so",
			"tcptype", "tcptype x", "tcptype ", "tcptype ACTIVE", "tcptype -1", "tcptype active tcptype passive",
			"tcptype " + strings.Repeat("a", 1024),
		}},
		{"extensions", []string{"", "generation 0 ufrag sXP5 network-id 1 network-cost 10", "ufrag nomatch"}, []string{
			"generation 0", "network-cost 10",
			"generation", "generation x", "generation -1", "ufrag", "ufrag ", "network-cost", "network-cost 4294967296", "x",
			"x y z", " ", "  generation 0", "generation 0 ", "generation\t0", "ufrag " + strings.Repeat("u", 1024),
			strings.Repeat("k v ", 300),
		}},
	}
}

func c30CandString(vals []string) string {
	var toks []string
	for _, v := range vals {
		if v == c30Missing {
			break
		}
		if v == "" {
			continue
		}
		toks = append(toks, v)
	}

	return "candidate:" + strings.Join(toks, " ")
}

// c30CandCases: (1) the full product of the valid field values; (2) for every field every nasty
// value of that field (ONE malformed field at a time) x the product of the valid values of the
// shape fields (transport, typ, raddr, tcptype, extensions), other fields at their first valid
// value; empty mandatory fields keep their separator (two spaces) in a second variant; (3) init
// variants (SDPMid / SDPMLineIndex / UsernameFragment) x a handful of strings; each on a
// connection in have-remote-offer and in stable.
func c30CandCases() []c30Case {
	fields := c30CandFields()
	out := make([]c30Case, 0, 20000)
	states := []string{"have-remote-offer", "stable"}
	emit := func(s, op, kind string) {
		for _, st := range states {
			out = append(out, c30Case{Part: "cand", Cand: s, State: st, Op: op, Kind: kind})
		}
	}
	// (1)
	dims := make([]int, len(fields))
	for i, f := range fields {
		dims[i] = len(f.valid)
	}
	for i := 0; i < vkit.ProductSize(dims...); i++ {
		ix := vkit.ProductIndex(i, dims...)
		vals := make([]string, len(fields))
		for k, f := range fields {
			vals[k] = f.valid[ix[k]]
		}
		emit(c30CandString(vals), "cand-valid", vals[2]+"/"+vals[7])
	}
	// (2)
	shape := map[string]bool{"transport": true, "typ": true, "raddr": true, "tcptype": true, "extensions": true}
	for fi, f := range fields {
		sdims := make([]int, len(fields))
		for i, g := range fields {
			sdims[i] = 1
			if shape[g.name] && i != fi {
				sdims[i] = len(g.valid)
				if g.name == "extensions" {
					sdims[i] = 2
				}
			}
		}
		for _, nv := range f.nasty {
			for i := 0; i < vkit.ProductSize(sdims...); i++ {
				ix := vkit.ProductIndex(i, sdims...)
				vals := make([]string, len(fields))
				for k, g := range fields {
					vals[k] = g.valid[ix[k]]
				}
				vals[fi] = nv
				label := nv
				if nv == c30Missing {
					label = "missing"
				} else if len(nv) > 24 {
					label = "long"
				}
				emit(c30CandString(vals), "cand-bad:"+f.name, label)
				if nv == "" && fi < 8 {
					// keep the separator: an empty token between two spaces
					var toks []string
					for k, v := range vals {
						if v != "" || k == fi {
							toks = append(toks, v)
						}
					}
					emit("candidate:"+strings.Join(toks, " "), "cand-bad:"+f.name, "empty-token")
				}
			}
		}
	}
	// (3)
	sp := func(s string) *string { return &s }
	ip := func(i int) *int { return &i }
	mids := []*string{nil, sp(""), sp("0"), sp("unknown"), sp(strings.Repeat("m", 1024))}
	mlines := []*int{nil, ip(0), ip(1), ip(65535)}
	ufrags := []*string{nil, sp(""), sp("sXP5"), sp("nomatch")}
	strs := []string{
		"", "candidate:", "candidate:842163049 1 udp 2130706431 192.168.1.7 50000 typ host",
		"842163049 1 udp 2130706431 192.168.1.7 50000 typ host ufrag nomatch", "a=candidate:1 1 udp 1 1.2.3.4 9 typ host",
		"candidate:candidate:1 1 udp 1 1.2.3.4 9 typ host", "x", " ", "candidate: ", "\r\n", "candidate:1 1 udp 1 1.2.3.4 9 typ host\r\n",
	}
	for _, s := range strs {
		for _, m := range mids {
			for _, ml := range mlines {
				for _, u := range ufrags {
					for _, st := range states {
						out = append(out, c30Case{Part: "cand", Cand: s, Mid: m, MLine: ml, Ufrag: u, State: st, Op: "cand-init", Kind: "init"})
					}
				}
			}
		}
	}

	return out
}

// ---------------------------------------------------------------------------------------------
// executing one case (worker side)

type c30Exec struct {
	tb      testing.TB
	candPCs map[string]*PeerConnection
	candSDP string
}

func c30Recover(out *string) {
	if r := recover(); r != nil {
		msg := strings.ReplaceAll(fmt.Sprint(r), "\n", " ")
		if len(msg) > 200 {
			msg = msg[:200]
		}
		*out = "PANIC " + vkit.PanicSite() + " " + msg
	}
}

// c30FakeSRTP installs SRTP/SRTCP sessions over an in-memory pipe on the connection's DTLS
// transport, as startSRTP does after a handshake: the simulated "transports came up" state.
func c30FakeSRTP(tb testing.TB, pc *PeerConnection) (cleanup func()) {
	a1, b1 := net.Pipe()
	a2, b2 := net.Pipe()
	cfg := &srtp.Config{
		Profile: srtp.ProtectionProfileAes128CmHmacSha1_80,
		Keys: srtp.SessionKeys{
			LocalMasterKey: make([]byte, 16), LocalMasterSalt: make([]byte, 14),
			RemoteMasterKey: make([]byte, 16), RemoteMasterSalt: make([]byte, 14),
		},
		LoggerFactory: pc.api.settingEngine.LoggerFactory,
	}
	s1, err := srtp.NewSessionSRTP(a1, cfg)
	if err != nil {
		vkit.Fatalf(tb, "NewSessionSRTP: %v", err)
	}
	s2, err := srtp.NewSessionSRTCP(a2, cfg)
	if err != nil {
		vkit.Fatalf(tb, "NewSessionSRTCP: %v", err)
	}
	pc.dtlsTransport.srtpSession.Store(s1)
	pc.dtlsTransport.srtcpSession.Store(s2)

	return func() {
		_ = s1.Close()
		_ = s2.Close()
		_ = b1.Close()
		_ = b2.Close()
		_ = a1.Close()
		_ = a2.Close()
	}
}

// c30Quiesce yields until no other goroutine of the process is runnable (every goroutine the
// case started has run until it blocks or ends), so that what a case starts in the background
// happens while that case is the logged one and before the connection is closed. Bounded; no
// verdict depends on how it ends.
func c30Quiesce() bool {
	buf := make([]byte, 1<<16)
	for k := 0; k < 400; k++ {
		runtime.Gosched()
		n := runtime.Stack(buf, true)
		for n == len(buf) && len(buf) < 1<<22 {
			buf = make([]byte, 2*len(buf))
			n = runtime.Stack(buf, true)
		}
		busy := false
		first := true
		rest := buf[:n]
		for len(rest) > 0 {
			nl := bytes.IndexByte(rest, '\n')
			line := rest
			if nl >= 0 {
				line, rest = rest[:nl], rest[nl+1:]
			} else {
				rest = nil
			}
			if !bytes.HasPrefix(line, []byte("goroutine ")) {
				continue
			}
			if first { // the calling goroutine
				first = false

				continue
			}
			if bytes.Contains(line, []byte("[runnable")) || bytes.Contains(line, []byte("[running")) ||
				bytes.Contains(line, []byte("[syscall")) {
				busy = true

				break
			}
		}
		if !busy {
			return true
		}
		if k > 2 {
			time.Sleep(50 * time.Microsecond) // let the other P run what is runnable
		}
		if k == 399 && os.Getenv("VERIF_C30_DEBUG") != "" {
			fmt.Fprintf(os.Stderr, "C30-NOT-QUIESCENT\n%s\n", buf[:n])
		}
	}

	return false
}

func c30ErrClass(pc *PeerConnection) string {
	if pc.RemoteDescription() == nil {
		return "rejected-unparsed"
	}

	return "rejected-parsed"
}

// c30Round performs one negotiation round with the mutated text as the remote description and
// returns the outcome class, and (when the round went through) the remote description and the
// transceiver snapshot that pion handed to the queued startRTP.
func (x *c30Exec) c30Round(pc *PeerConnection, cs c30Case) (string, *SessionDescription, []*RTPTransceiver) {
	switch cs.Type {
	case "offer":
		if err := pc.SetRemoteDescription(SessionDescription{Type: SDPTypeOffer, SDP: cs.SDP}); err != nil {
			return c30ErrClass(pc), nil, nil
		}
		ans, err := pc.CreateAnswer(nil)
		if err != nil {
			return "accepted+answer-failed", nil, nil
		}
		if err = pc.SetLocalDescription(ans); err != nil {
			return "accepted+answer+sld-failed", nil, nil
		}
		// SetLocalDescription(answer) queued startRTP(haveLocalDescription, remoteDesc, currentTransceivers)
		return "accepted+answered", pc.RemoteDescription(), append([]*RTPTransceiver{}, pc.GetTransceivers()...)
	default:
		off, err := pc.CreateOffer(nil)
		if err != nil {
			return "local-offer-failed", nil, nil
		}
		if err = pc.SetLocalDescription(off); err != nil {
			return "local-offer-failed", nil, nil
		}
		if err = pc.SetRemoteDescription(SessionDescription{Type: SDPTypeAnswer, SDP: cs.SDP}); err != nil {
			return c30ErrClass(pc), nil, nil
		}
		// SetRemoteDescription(answer) queued startTransports + startRTP(isRenegotiation, &desc, currentTransceivers)
		return "accepted", pc.RemoteDescription(), append([]*RTPTransceiver{}, pc.GetTransceivers()...)
	}
}

// execSDP runs one SDP case; the returned outcome class is "<round 1>[/<round 2>]|tracks=<0|n|->".
func (x *c30Exec) execSDP(cs c30Case) (outcome string) {
	defer c30Recover(&outcome)
	pc := c30NewPC(x.tb, c30Sems[cs.Sem], cs.Local)
	seam := cs.Mode == "seam"
	var cleanup func()
	if seam {
		// nothing queued runs on this connection; the harness performs the queued work itself
		pc.ops.GracefulClose()
		cleanup = c30FakeSRTP(x.tb, pc)
	}
	tracks := "-"
	out, rd, cur := x.c30Round(pc, cs)
	if rd != nil && rd.parsed != nil {
		tracks = "0"
		if len(trackDetailsFromSDP(pc.log, rd.parsed)) > 0 {
			tracks = "n"
		}
		if seam {
			// the work the operations queue does once the transports are up
			pc.startRTP(false, rd, cur)
			c30Quiesce()
			// a renegotiation with the same remote text, again followed by the queued work
			out2, rd2, cur2 := x.c30Round(pc, cs)
			if rd2 != nil && rd2.parsed != nil {
				pc.startRTP(true, rd2, cur2)
				c30Quiesce()
			}
			out += "/" + out2
		}
	}
	if err := pc.Close(); err != nil {
		out += "+close-err"
	}
	_ = pc.GracefulClose()
	if cleanup != nil {
		cleanup()
	}
	c30Quiesce()

	return out + "|tracks=" + tracks
}

func (x *c30Exec) candPC(state string) *PeerConnection {
	if pc := x.candPCs[state]; pc != nil {
		return pc
	}
	pc := c30NewPC(x.tb, SDPSemanticsUnifiedPlan, "audio")
	if err := pc.SetRemoteDescription(SessionDescription{Type: SDPTypeOffer, SDP: c30FixtureUnified()}); err != nil {
		vkit.Fatalf(x.tb, "cand pc: SetRemoteDescription: %v", err)
	}
	if state == "stable" {
		ans, err := pc.CreateAnswer(nil)
		if err != nil {
			vkit.Fatalf(x.tb, "cand pc: CreateAnswer: %v", err)
		}
		if err = pc.SetLocalDescription(ans); err != nil {
			vkit.Fatalf(x.tb, "cand pc: SetLocalDescription: %v", err)
		}
	}
	if x.candPCs == nil {
		x.candPCs = map[string]*PeerConnection{}
	}
	x.candPCs[state] = pc

	return pc
}

func (x *c30Exec) execCand(cs c30Case) (outcome string) {
	defer c30Recover(&outcome)
	pc := x.candPC(cs.State)
	init := ICECandidateInit{Candidate: cs.Cand, SDPMid: cs.Mid, UsernameFragment: cs.Ufrag}
	if cs.MLine != nil {
		v := uint16(*cs.MLine) //nolint:gosec
		init.SDPMLineIndex = &v
	}
	if err := pc.AddICECandidate(init); err != nil {
		return "rejected"
	}

	return "accepted-or-ignored"
}

func (x *c30Exec) exec(cs c30Case) string {
	switch cs.Part {
	case "sdp":
		return x.execSDP(cs)
	case "cand":
		return x.execCand(cs)
	case "pair":
		return x.execPair(cs)
	}

	return "unknown-part"
}

func (x *c30Exec) closeAll() {
	for _, st := range []string{"have-remote-offer", "stable"} {
		if pc := x.candPCs[st]; pc != nil {
			_ = pc.Close()
			_ = pc.GracefulClose()
		}
	}
}

// ---------------------------------------------------------------------------------------------
// worker

const (
	c30EnvWorker = "VERIF_C30_WORKER" // "<w>/<W>/<from>" or "single"
	c30EnvDir    = "VERIF_C30_DIR"
	c30EnvStop   = "VERIF_C30_STOP" // unix seconds after which no new case is started
	c30EnvLog    = "VERIF_C30_LOG"
)

func c30CaseGuard() time.Duration {
	if s := os.Getenv("VERIF_C30_CASE_GUARD_S"); s != "" {
		if n, err := strconv.Atoi(s); err == nil && n > 0 {
			return time.Duration(n) * time.Second
		}
	}

	return 60 * time.Second
}

type c30SeedFile struct {
	Seeds  []c30Seed `json:"seeds"`
	NCands int       `json:"ncands"`
}

func c30LoadSeeds(tb testing.TB, dir string) c30SeedFile {
	raw, err := os.ReadFile(filepath.Join(dir, "seeds.json"))
	if err != nil {
		vkit.Fatalf(tb, "worker: %v", err)
	}
	var sf c30SeedFile
	if err = json.Unmarshal(raw, &sf); err != nil {
		vkit.Fatalf(tb, "worker: %v", err)
	}

	return sf
}

// c30Owner spreads the cases over the workers (multiplicative hash: neighbouring cases, which
// tend to crash together, go to different workers regardless of the periods of the operators).
func c30Owner(i, nw int) int {
	return int((uint32(i)*2654435761)>>8) % nw //nolint:gosec
}

func c30Worker(t *testing.T, spec string) {
	dir := os.Getenv(c30EnvDir)
	logf, err := os.OpenFile(os.Getenv(c30EnvLog), os.O_APPEND|os.O_CREATE|os.O_WRONLY, 0o644)
	if err != nil {
		vkit.Fatalf(t, "worker log: %v", err)
	}
	defer func() { _ = logf.Close() }()
	logw := func(format string, a ...any) { _, _ = fmt.Fprintf(logf, format+"\n", a...) }
	x := &c30Exec{tb: t}
	guard := c30CaseGuard()
	var wmu sync.Mutex
	var wcase = -1
	var wtimer *time.Timer
	arm := func(i int) {
		wmu.Lock()
		wcase = i
		if wtimer != nil {
			wtimer.Stop()
		}
		wtimer = time.AfterFunc(guard, func() {
			wmu.Lock()
			defer wmu.Unlock()
			if wcase != i {
				return
			}
			logw("H %d", i)
			buf := make([]byte, 1<<18)
			n := runtime.Stack(buf, true)
			fmt.Fprintf(os.Stderr, "C30-HANG case %d did not return within %v\n%s\n", i, guard, buf[:n])
			os.Exit(3)
		})
		wmu.Unlock()
	}
	disarm := func() {
		wmu.Lock()
		wcase = -1
		wtimer.Stop()
		wmu.Unlock()
	}
	run := func(i int, cs c30Case) {
		logw("B %d", i)
		arm(i)
		out := x.exec(cs)
		disarm()
		logw("E %d %s", i, out)
	}
	if spec == "single" {
		raw, rerr := os.ReadFile(filepath.Join(dir, "single.json"))
		if rerr != nil {
			vkit.Fatalf(t, "worker: %v", rerr)
		}
		var cs c30Case
		if err = json.Unmarshal(raw, &cs); err != nil {
			vkit.Fatalf(t, "worker: %v", err)
		}
		if cs.Part == "rtp" {
			c30RTPWorker(t, logw, cs)
			logw("DONE")

			return
		}
		run(0, cs)
		c30Quiesce()
		x.closeAll()
		logw("DONE")

		return
	}
	if spec == "rtp" || strings.HasPrefix(spec, "rtp:") {
		c30RTPWorker(t, logw, c30Case{Part: "rtp", Local: strings.TrimPrefix(strings.TrimPrefix(spec, "rtp"), ":")})
		logw("DONE")

		return
	}
	var w, nw, from, hi int
	if _, err = fmt.Sscanf(spec, "%d/%d/%d/%d", &w, &nw, &from, &hi); err != nil || nw <= 0 {
		vkit.Fatalf(t, "worker spec %q", spec)
	}
	stop, _ := strconv.ParseInt(os.Getenv(c30EnvStop), 10, 64)
	sf := c30LoadSeeds(t, dir)
	env := c30BuildEnv(sf.Seeds, os.Getenv("VERIF_TIER") == "thorough", sf.NCands)
	if raw, rerr := os.ReadFile(filepath.Join(dir, "skip.json")); rerr == nil {
		_ = json.Unmarshal(raw, &env.skip)
	}
	if hi > env.total {
		hi = env.total
	}
	for i := from; i < hi; i++ {
		if c30Owner(i, nw) != w {
			continue
		}
		if env.skipPair(i) {
			logw("E %d skipped", i)

			continue
		}
		if stop > 0 && time.Now().Unix() >= stop {
			logw("STOP %d", i)

			break
		}
		run(i, env.caseAt(i))
	}
	x.closeAll()
	logw("DONE")
}

// ---------------------------------------------------------------------------------------------
// parent

type c30Crash struct {
	idx  int
	site string
	msg  string
	hang bool
}

type c30Parent struct {
	t    *testing.T
	c    *vkit.Check
	dir  string
	env  *c30Env
	stop int64
	mu   sync.Mutex
	fail string
}

// c30PanicFromStderr extracts the panic message and the innermost pion frame of the goroutine
// that crashed from a Go crash dump.
func c30PanicFromStderr(text string) (site, msg string, ok bool) {
	at := -1
	for _, mark := range []string{"\npanic: ", "\nfatal error: "} {
		if k := strings.LastIndex("\n"+text, mark); k > at {
			at = k
		}
	}
	if at < 0 {
		return "", "", false
	}
	rest := ("\n" + text)[at+1:]
	lines := strings.Split(rest, "\n")
	msg = strings.TrimSpace(lines[0])
	if len(msg) > 200 {
		msg = msg[:200]
	}
	site = "unknown"
	inStack := false
	for _, l := range lines[1:] {
		if strings.HasPrefix(l, "goroutine ") {
			if inStack {
				break
			}
			inStack = true

			continue
		}
		if !inStack || strings.HasPrefix(l, "\t") || l == "" {
			continue
		}
		if strings.HasPrefix(l, "panic(") || strings.HasPrefix(l, "runtime.") || strings.HasPrefix(l, "testing.") ||
			strings.HasPrefix(l, "created by ") || strings.Contains(l, "internal/verif/") {
			continue
		}
		if !strings.Contains(l, "github.com/pion/") {
			continue
		}
		if i := strings.LastIndex(l, "("); i > 0 {
			l = l[:i]
		}
		if j := strings.LastIndex(l, "/"); j >= 0 {
			l = l[j+1:]
		}
		if strings.Contains(l, "c30") || strings.Contains(l, "TestVerif") {
			continue
		}
		site = l

		break
	}

	return site, msg, true
}

type c30Run struct {
	exit    int
	stderr  string
	log     []string
	timeout bool
}

// runWorker launches one worker process and waits for it (liveness guard: maxWait).
func (p *c30Parent) runWorker(spec, tag string, maxWait time.Duration, extraEnv ...string) c30Run {
	logPath := filepath.Join(p.dir, tag+".log")
	errPath := filepath.Join(p.dir, tag+".err")
	_ = os.Remove(logPath)
	errf, err := os.Create(errPath)
	if err != nil {
		return c30Run{exit: -1, stderr: err.Error()}
	}
	cmd := exec.Command(os.Args[0], "-test.run", "^TestVerifC30$", "-test.timeout", "0", "-test.count", "1") //nolint:gosec
	cmd.Env = append(os.Environ(), c30EnvWorker+"="+spec, c30EnvDir+"="+p.dir, c30EnvLog+"="+logPath,
		c30EnvStop+"="+strconv.FormatInt(p.stop, 10), "GOMAXPROCS=2", "GOGC=400", "GOTRACEBACK=single", "VERIF_REPLAY=")
	cmd.Env = append(cmd.Env, extraEnv...)
	cmd.Stdout = errf
	cmd.Stderr = errf
	res := c30Run{}
	if err = cmd.Start(); err != nil {
		_ = errf.Close()

		return c30Run{exit: -1, stderr: err.Error()}
	}
	done := make(chan error, 1)
	go func() { done <- cmd.Wait() }()
	select {
	case err = <-done:
	case <-time.After(maxWait):
		_ = cmd.Process.Kill()
		err = <-done
		res.timeout = true
	}
	_ = errf.Close()
	if cmd.ProcessState != nil {
		res.exit = cmd.ProcessState.ExitCode()
	} else if err != nil {
		res.exit = -1
	}
	raw, _ := os.ReadFile(errPath)
	if len(raw) > 1<<20 {
		raw = raw[len(raw)-(1<<20):]
	}
	res.stderr = string(raw)
	lraw, _ := os.ReadFile(logPath)
	res.log = strings.Split(strings.TrimSpace(string(lraw)), "\n")

	return res
}

func (p *c30Parent) setFail(format string, a ...any) {
	p.mu.Lock()
	if p.fail == "" {
		p.fail = fmt.Sprintf(format, a...)
	}
	p.mu.Unlock()
}

// runSingle executes one case alone in a fresh worker and reports how it ended.
func (p *c30Parent) runSingle(cs c30Case, tag string, extraEnv ...string) (crash *c30Crash, outcome string, machinery string) {
	raw, _ := json.Marshal(cs)
	p.mu.Lock()
	_ = os.WriteFile(filepath.Join(p.dir, "single.json"), raw, 0o644)
	r := p.runWorker("single", tag, c30CaseGuard()+90*time.Second, extraEnv...)
	p.mu.Unlock()
	for _, l := range r.log {
		if strings.HasPrefix(l, "E 0 ") {
			outcome = l[4:]
		}
	}
	if r.exit == 3 {
		return &c30Crash{hang: true, site: "case-does-not-return", msg: "no return within the liveness guard when run alone"}, outcome, ""
	}
	if site, msg, ok := c30PanicFromStderr(r.stderr); ok && r.exit != 0 {
		return &c30Crash{site: site, msg: msg}, outcome, ""
	}
	if r.exit != 0 || r.timeout {
		return nil, outcome, fmt.Sprintf("single-case worker ended with status %d (timeout=%v): %s", r.exit, r.timeout, c30Tail(r.stderr, 400))
	}

	return nil, outcome, ""
}

func c30Tail(s string, n int) string {
	if len(s) > n {
		s = s[len(s)-n:]
	}

	return strings.ReplaceAll(s, "\n", " | ")
}

type c30Result struct {
	idx     int
	outcome string
}

// runBatch drives worker w over its share of the cases, restarting it after crashes.
func (p *c30Parent) runBatch(w, nw, lo, hi int, tag string, results chan<- c30Result, crashes chan<- c30Crash, stopped *bool) {
	from := lo
	maxWait := time.Until(time.Unix(p.stop, 0)) + c30CaseGuard() + 120*time.Second
	for launch := 0; ; launch++ {
		if launch > 2000 {
			p.setFail("worker %d restarted more than 2000 times", w)

			return
		}
		r := p.runWorker(fmt.Sprintf("%d/%d/%d/%d", w, nw, from, hi), fmt.Sprintf("%s%02d-%04d", tag, w, launch), maxWait)
		open := -1
		done := false
		for _, l := range r.log {
			f := strings.SplitN(l, " ", 3)
			switch f[0] {
			case "B":
				open, _ = strconv.Atoi(f[1])
			case "E":
				i, _ := strconv.Atoi(f[1])
				out := ""
				if len(f) > 2 {
					out = f[2]
				}
				results <- c30Result{idx: i, outcome: out}
				open = -1
			case "STOP":
				p.mu.Lock()
				*stopped = true
				p.mu.Unlock()
			case "DONE":
				done = true
			}
		}
		if done && r.exit == 0 {
			return
		}
		if r.timeout {
			p.setFail("worker %d killed by the batch liveness guard (%v); last case %d", w, maxWait, open)

			return
		}
		if open < 0 {
			p.setFail("worker %d ended with status %d outside a case: %s", w, r.exit, c30Tail(r.stderr, 600))

			return
		}
		switch {
		case r.exit == 3:
			crashes <- c30Crash{idx: open, hang: true}
		default:
			site, msg, ok := c30PanicFromStderr(r.stderr)
			if !ok {
				p.setFail("worker %d died in case %d with status %d and no panic: %s", w, open, r.exit, c30Tail(r.stderr, 600))

				return
			}
			crashes <- c30Crash{idx: open, site: site, msg: msg}
		}
		from = open + 1
	}
}

// c30OpClass coarsens the operator to the class used in violation keys.
func c30OpClass(op string) string {
	switch c30OpBase(op) {
	case "val", "tok", "tdel", "tcut", "sep":
		return "value"
	case "del", "dup", "swap", "trunc":
		return "line"
	case "fdel", "fren":
		return "family"
	}

	return c30OpBase(op)
}

func c30Key(kind string, site string, cs c30Case) string {
	return kind + "|" + site + "|" + cs.Part + ":" + c30OpClass(cs.Op)
}

func (p *c30Parent) account(cs c30Case, outcome string) {
	c := p.c
	if outcome == "skipped" {
		c.Add("pairs_not_executed_containing_a_process_killing_single_deviation", 1)

		return
	}
	c.Eval()
	if strings.HasPrefix(outcome, "PANIC ") {
		f := strings.SplitN(outcome, " ", 3)
		msg := ""
		if len(f) > 2 {
			msg = f[2]
		}
		c.Violation(c30Key("panic", f[1], cs), fmt.Sprintf("panic on the calling goroutine: %s (%s)", msg, c30Describe(cs)), cs)
		c.Outcome("panic")

		return
	}
	c.Outcome(outcome)
	cls := outcome
	if i := strings.IndexByte(cls, '|'); i >= 0 && strings.HasSuffix(cls, "tracks=-") {
		cls = cls[:i]
	}
	if cs.Part == "sdp" {
		// reached the code under test: the text was at least handed to SetRemoteDescription
		c.Distinct(c30OpBase(cs.Op) + "|" + cls)
		c.Add("sdp_cases", 1)
		if strings.HasSuffix(outcome, "tracks=n") {
			c.Add("sdp_cases_with_remote_tracks", 1)
		}
		if cs.Mode == "seam" && !strings.HasSuffix(outcome, "tracks=-") {
			c.Add("sdp_cases_seam_calls_made", 1)
		}
	} else if cs.Part == "pair" {
		c.Distinct("pair:" + c30OpBase(cs.Op) + "|" + cls)
		c.Add("pair_cases", 1)
		if strings.HasPrefix(outcome, "connected") {
			c.Add("pair_cases_connected_and_rtp_written", 1)
		}
		if strings.Contains(outcome, "undeclared") {
			c.Add("pair_cases_rtp_on_undeclared_ssrc", 1)
		}
	} else {
		c.Distinct(cs.Op + "|" + cls)
		c.Add("candidate_cases", 1)
	}
}

func c30Describe(cs c30Case) string {
	switch cs.Part {
	case "sdp":
		d, _ := json.Marshal(cs.Devs)

		return fmt.Sprintf("seed %s as %s, local %s, semantics %s, mode %s, deviations %s", cs.Seed, cs.Type, cs.Local,
			c30SemNames[cs.Sem], cs.Mode, d)
	case "cand":
		return fmt.Sprintf("AddICECandidate(%q) in %s", vkit.Short(cs.Cand), cs.State)
	case "pair":
		d, _ := json.Marshal(cs.Devs)

		return fmt.Sprintf("real loopback pair, sender %s, its offer munged in transit by %s, answerer semantics %s (%s), sender writes RTP",
			cs.Local, d, c30SemNames[cs.Sem], cs.Mode)
	}

	return cs.Part
}

func TestVerifC30(t *testing.T) { //nolint:cyclop
	if spec := os.Getenv(c30EnvWorker); spec != "" {
		c30Worker(t, spec)

		return
	}
	debug.SetGCPercent(200)
	c := vkit.New("C30", "exploration")
	defer c.Finish(t)
	c.Rule("SDP: every single deviation (delete / duplicate / swap-adjacent / truncate-at a line; replace a line's value by each of " +
		strconv.Itoa(len(c30Nasty)) + " nasty values; delete / rename each of " + strconv.Itoa(len(c30Families)) +
		" attribute families; thorough: also every token of every multi-token value by each nasty value, and all PAIRS of deviations of the two " +
		"smallest seeds) of every seed (pion offers/answers: data, audio, audio+video+data, simulcast rid, Plan-B; two hand-written browser " +
		"fixtures) x SDPSemantics {unified, planb, fallback} x mode {queue: SetRemoteDescription -> CreateAnswer -> SetLocalDescription (or answer to a " +
		"matching local offer) -> Close -> GracefulClose with the queued background work running; seam: same calls, then startRTP / " +
		"configureRTPReceivers called directly on a simulated SRTP session}. Candidates: full product of valid field values + one malformed field at a " +
		"time x shape product + init variants, in have-remote-offer and stable. RTP: enumerated header shapes from a connected peer. " +
		"Pairs (part D): for single-section sender offers every deviation touching ssrc / ssrc-group / msid / rid / mid / extmap (and {delete all a=ssrc} x " +
		"{operator on a=msid}) applied in transit on a REAL loopback pair, the unmodified sender then writes 20 RTP packets per track. " +
		"distinct = (operator, outcome class, remote tracks present) actually observed; every case runs in a worker subprocess.")
	dir, err := os.MkdirTemp("", "c30-")
	if err != nil {
		vkit.Fatalf(t, "tempdir: %v", err)
	}
	if os.Getenv("VERIF_C30_KEEP") != "" {
		fmt.Printf("C30: worker files kept in %s\n", dir)
	} else {
		defer func() { _ = os.RemoveAll(dir) }()
	}
	p := &c30Parent{t: t, c: c, dir: dir}

	if raw, ok := c.ReplayCase(); ok {
		var cs c30Case
		if err = json.Unmarshal(raw, &cs); err != nil {
			vkit.Fatalf(t, "replay case: %v", err)
		}
		p.stop = time.Now().Add(10 * time.Minute).Unix()
		crash, outcome, mach := p.runSingle(cs, "replay")
		if mach != "" {
			vkit.Fatalf(t, "replay: %s", mach)
		}
		c.Eval()
		c.Distinct("replay")
		c.Distinct("replay|" + outcome)
		c.Sample(c30Describe(cs))
		if crash != nil {
			kind := "panic"
			if crash.hang {
				kind = "hang"
			}
			c.Violation(c30Key(kind, crash.site, cs), crash.msg+" ("+c30Describe(cs)+")", cs)
		} else {
			p.account(cs, outcome)
		}

		return
	}

	seeds := c30MakeSeeds(t)
	seeds = append(seeds, c30MakePairSeeds(t, !c.Quick())...)
	thorough := !c.Quick()
	p.env = c30BuildEnv(seeds, thorough, -1)
	raw, _ := json.Marshal(c30SeedFile{Seeds: seeds, NCands: p.env.nCands})
	if err = os.WriteFile(filepath.Join(dir, "seeds.json"), raw, 0o644); err != nil {
		vkit.Fatalf(t, "seeds: %v", err)
	}
	budget := time.Duration(c.Pick(45, 780)) * time.Second
	p.stop = c.Deadline(budget).Unix()
	seedInfo := map[string]int{}
	for _, s := range seeds {
		seedInfo[s.Name+"("+s.Type+")"] = len(c30Lines(s.SDP))
	}
	c.Set("seed_lines", seedInfo)
	c.Set("nasty_values", c30NastyNames)
	c.Set("families", c30Families)
	c.Set("cases_planned", p.env.total)
	nPair := 0
	for _, cs := range p.env.cands {
		if cs.Part == "pair" {
			nPair++
		}
	}
	c.Set("candidate_cases_planned", p.env.nCands-nPair)
	c.Set("pair_cases_planned", nPair)
	c.Set("schedules_enumerated", false)
	c.Assume("the deviations are applied to seeds; texts three or more deviations away from every seed are not reached")
	c.Assume("background goroutines run under the natural schedule of the Go runtime inside each worker")

	nw := vkit.Workers()
	stopped := false
	var crashList []c30Crash
	var resList []c30Result
	// the RTP part runs next to the batches, in its own worker
	rtpRes := make([]c30Run, len(c30RTPLocals))
	var rtpWG sync.WaitGroup
	rtpWG.Add(1)
	go func() {
		defer rtpWG.Done()
		for i, local := range c30RTPLocals {
			spec, tag := "rtp", "rtp"
			if local != "" {
				spec, tag = "rtp:"+local, "rtp-"+local
			}
			rtpRes[i] = p.runWorker(spec, tag, 240*time.Second, "GOMAXPROCS=4")
		}
	}()
	runPhase := func(lo, hi int, tag string) {
		results := make(chan c30Result, 4096)
		crashes := make(chan c30Crash, 256)
		var wg sync.WaitGroup
		for w := 0; w < nw; w++ {
			wg.Add(1)
			go func(w int) {
				defer wg.Done()
				p.runBatch(w, nw, lo, hi, tag, results, crashes, &stopped)
			}(w)
		}
		go func() {
			wg.Wait()
			close(results)
			close(crashes)
		}()
		for results != nil || crashes != nil {
			select {
			case r, ok := <-results:
				if !ok {
					results = nil

					continue
				}
				resList = append(resList, r)
			case cr, ok := <-crashes:
				if !ok {
					crashes = nil

					continue
				}
				crashList = append(crashList, cr)
			}
		}
	}
	// phase 1: candidates and single deviations
	runPhase(0, p.env.nSingles, "s")
	if p.fail == "" && p.env.total > p.env.nSingles {
		// phase 2: pairs; a pair containing a deviation that killed the process on its own is skipped
		skip := map[string][]c30Dev{}
		for _, cr := range crashList {
			cs := p.env.caseMeta(cr.idx)
			if cs.Part == "sdp" && len(cs.Devs) == 1 {
				k := c30SkipKey(cs.Seed, cs.Sem, cs.Mode)
				skip[k] = append(skip[k], cs.Devs[0])
			}
		}
		sraw, _ := json.Marshal(skip)
		if err = os.WriteFile(filepath.Join(dir, "skip.json"), sraw, 0o644); err != nil {
			vkit.Fatalf(t, "skip file: %v", err)
		}
		runPhase(p.env.nSingles, p.env.total, "p")
	}
	rtpWG.Wait()
	if p.fail != "" {
		vkit.Fatalf(t, "%s", p.fail)
	}
	c.Set("process_crashes", len(crashList))
	sort.Slice(resList, func(i, j int) bool { return resList[i].idx < resList[j].idx })
	sort.Slice(crashList, func(i, j int) bool { return crashList[i].idx < crashList[j].idx })
	samples := 0
	if len(resList) > 0 {
		cs := p.env.caseMeta(resList[len(resList)/40].idx)
		if cs.Part == "cand" {
			c.Sample(c30Describe(cs) + " -> " + resList[len(resList)/40].outcome)
		}
	}
	for _, r := range resList {
		cs := p.env.caseMeta(r.idx)
		if strings.HasPrefix(r.outcome, "PANIC ") {
			cs = p.env.caseAt(r.idx)
		}
		p.account(cs, r.outcome)
		if cs.Part == "sdp" && samples < 3 && r.idx%977 == 0 {
			samples++
			c.Sample(c30Describe(cs) + " -> " + r.outcome)
		}
	}
	// crashes of whole workers: confirm each class once by running the case alone
	confirmed := map[string]bool{}
	for _, cr := range crashList {
		cs := p.env.caseAt(cr.idx)
		c.Eval()
		c.Outcome("process-crash")
		if cr.hang {
			key := c30Key("hang", "case-does-not-return", cs)
			if confirmed[key] {
				continue
			}
			again, _, mach := p.runSingle(cs, "confirm")
			if again != nil && again.hang {
				confirmed[key] = true
				c.Violation(key, "the calls of the case do not return ("+c30Describe(cs)+")", cs)

				continue
			}
			vkit.Fatalf(t, "case %d hit the per-case liveness guard in a batch but not alone (%s): no verdict", cr.idx, mach)
		}
		key := c30Key("panic", cr.site, cs)
		if confirmed[key] {
			c.Add("worker_crashes", 1)

			continue
		}
		again, _, _ := p.runSingle(cs, "confirm")
		what := "process killed by: " + cr.msg + " (" + c30Describe(cs) + ")"
		if again != nil && !again.hang {
			key = c30Key("panic", again.site, cs)
			what += "; reproduced when the case runs alone"
		} else {
			what += "; NOT reproduced when the case runs alone (a goroutine left by an earlier case of the worker may be the cause)"
		}
		confirmed[key] = true
		c.Add("worker_crashes", 1)
		c.Violation(key, what, cs)
	}
	for i, local := range c30RTPLocals {
		c30RTPAccount(c, t, rtpRes[i], local)
	}
	if stopped {
		c.NotExhaustive(fmt.Sprintf("time budget of %v reached: %d of %d planned cases were executed (cases are ordered small seeds and value operators first)",
			budget, len(resList)+len(crashList), p.env.total))
	}
	if len(resList)+len(crashList) != p.env.total && !stopped {
		vkit.Fatalf(t, "executed %d cases, planned %d", len(resList)+len(crashList), p.env.total)
	}
}

// ---------------------------------------------------------------------------------------------
// part C: RTP / RTCP from a connected peer
//
// ONE real pair over loopback (A = hostile peer, B = connection under test). The packets are built
// byte by byte, protected with A's SRTP keys (own srtp.Context, so the exact bytes travel) and
// written to A's SRTP/SRTCP mux endpoints. After every shape a sentinel packet on A's declared
// audio SSRC must come out of B's TrackRemote (event wait; liveness guard -> VERIF-ERROR).

type c30Shape struct {
	fam     string
	pt      byte
	cc      int
	hasExt  bool
	prof    uint16
	ext     []byte
	payload []byte
	pad     int // -1: no padding bit; otherwise the value of the trailing pad-count byte
	padLen  int // bytes appended (>= 1 when pad >= 0)
	ssrc0   bool
	rtcp    []byte // non-nil: an RTCP shape (sent to the SRTCP endpoint)
}

func c30RTPRaw(sh c30Shape, ssrc uint32, seq uint16) []byte {
	b0 := byte(0x80) | byte(sh.cc&15)
	if sh.hasExt {
		b0 |= 0x10
	}
	if sh.pad >= 0 {
		b0 |= 0x20
	}
	out := []byte{b0, sh.pt, byte(seq >> 8), byte(seq), 0, 0, byte(seq >> 8), byte(seq),
		byte(ssrc >> 24), byte(ssrc >> 16), byte(ssrc >> 8), byte(ssrc)}
	for i := 0; i < sh.cc; i++ {
		out = append(out, 0, 0, 0, byte(i+1))
	}
	if sh.hasExt {
		words := (len(sh.ext) + 3) / 4
		out = append(out, byte(sh.prof>>8), byte(sh.prof), byte(words>>8), byte(words))
		out = append(out, sh.ext...)
		for k := len(sh.ext); k < words*4; k++ {
			out = append(out, 0)
		}
	}
	out = append(out, sh.payload...)
	if sh.pad >= 0 {
		for k := 1; k < sh.padLen; k++ {
			out = append(out, 0)
		}
		out = append(out, byte(sh.pad))
	}

	return out
}

func c30Ext1(id int, v string) []byte { // RFC 8285 one-byte element (1..16 bytes)
	return append([]byte{byte(id<<4) | byte(len(v)-1)}, v...)
}

func c30Ext2(id int, v string) []byte { // two-byte element (0..255 bytes)
	return append([]byte{byte(id), byte(len(v))}, v...)
}

// c30RTPShapes enumerates the header shapes. midID/ridID/rridID are the extension ids B
// negotiated, mid the mid of B's simulcast video section.
func c30RTPShapes(midID, ridID, rridID int, mid string) []c30Shape {
	var out []c30Shape
	pay := [][]byte{{}, {1}, {1, 2}, {1, 2, 3, 4, 5, 6, 7, 8, 9, 10}}
	// group 1: no extension: payload type x CSRC count x payload / padding
	for _, pt := range []byte{111, 96, 97, 127, 0} {
		for _, cc := range []int{0, 15} {
			for _, pl := range pay {
				out = append(out, c30Shape{fam: "plain", pt: pt, cc: cc, payload: pl, pad: -1})
			}
			out = append(out,
				c30Shape{fam: "padding-only", pt: pt, cc: cc, pad: 4, padLen: 4},
				c30Shape{fam: "padding-only", pt: pt, cc: cc, pad: 1, padLen: 1},
				c30Shape{fam: "padding-bad-count", pt: pt, cc: cc, pad: 0, padLen: 1},
				c30Shape{fam: "padding-bad-count", pt: pt, cc: cc, payload: []byte{1, 2}, pad: 255, padLen: 1},
			)
		}
	}
	// group 2: mid / rid / rrid extension values, one-byte and two-byte profiles
	vals := []string{mid, "q", "zz", "abc", "\xff\xfe\xfd", strings.Repeat("m", 16), "", strings.Repeat("r", 255)}
	valName := []string{"mid", "rid", "unknown", "odd-length", "invalid-utf8", "len16", "empty", "len255"}
	type combo struct {
		name string
		ids  func(v string) [][2]any
	}
	combos := []combo{
		{"mid=v", func(v string) [][2]any { return [][2]any{{midID, v}} }},
		{"rid=v", func(v string) [][2]any { return [][2]any{{ridID, v}} }},
		{"rrid=v", func(v string) [][2]any { return [][2]any{{rridID, v}} }},
		{"mid+rid=v", func(v string) [][2]any { return [][2]any{{midID, mid}, {ridID, v}} }},
		{"mid+rrid=v", func(v string) [][2]any { return [][2]any{{midID, mid}, {rridID, v}} }},
		{"mid=v+rid", func(v string) [][2]any { return [][2]any{{midID, v}, {ridID, "q"}} }},
		{"id14=v", func(v string) [][2]any { return [][2]any{{14, v}} }},
	}
	for _, two := range []bool{false, true} {
		for _, cb := range combos {
			for vi, v := range vals {
				if !two && (len(v) == 0 || len(v) > 16) {
					continue
				}
				var ext []byte
				for _, e := range cb.ids(v) {
					id, _ := e[0].(int)
					val, _ := e[1].(string)
					if two {
						ext = append(ext, c30Ext2(id, val)...)
					} else if len(val) >= 1 && len(val) <= 16 {
						ext = append(ext, c30Ext1(id, val)...)
					}
				}
				prof := uint16(0xBEDE)
				pname := "one-byte"
				if two {
					prof = 0x1000
					pname = "two-byte"
				}
				for _, pt := range []byte{96, 97} {
					for _, pl := range pay[:3] {
						out = append(out, c30Shape{
							fam: "ext:" + pname + ":" + cb.name + ":" + valName[vi], pt: pt, hasExt: true, prof: prof, ext: ext,
							payload: pl, pad: -1,
						})
					}
				}
			}
		}
	}
	// group 3: unknown / degenerate extension blocks
	for _, pt := range []byte{96, 127} {
		out = append(out,
			c30Shape{fam: "ext:unknown-profile", pt: pt, hasExt: true, prof: 0xABCD, ext: nil, payload: []byte{1}, pad: -1},
			c30Shape{fam: "ext:unknown-profile", pt: pt, hasExt: true, prof: 0xABCD, ext: []byte{1, 2, 3, 4}, payload: []byte{1}, pad: -1},
			c30Shape{fam: "ext:unknown-profile", pt: pt, hasExt: true, prof: 0xABCD, ext: make([]byte, 12), pad: -1},
			c30Shape{fam: "ext:one-byte:empty-block", pt: pt, hasExt: true, prof: 0xBEDE, payload: []byte{1}, pad: -1},
			c30Shape{fam: "ext:one-byte:id15", pt: pt, hasExt: true, prof: 0xBEDE, ext: []byte{0xF0, 1, 0, 0}, payload: []byte{1}, pad: -1},
			c30Shape{fam: "ext:one-byte:length-overrun", pt: pt, hasExt: true, prof: 0xBEDE, ext: []byte{byte(midID<<4) | 0x0F, 'a', 'b', 'c'}, payload: []byte{1}, pad: -1},
			c30Shape{fam: "ext:two-byte:length-overrun", pt: pt, hasExt: true, prof: 0x1000, ext: []byte{byte(midID), 200, 'a', 'b'}, payload: []byte{1}, pad: -1},
			c30Shape{fam: "ext:two-byte:empty-block", pt: pt, hasExt: true, prof: 0x1000, pad: -1},
		)
	}
	// group 4: SSRC 0 (bandwidth probe path)
	for _, pt := range []byte{96, 97, 127} {
		out = append(out, c30Shape{fam: "ssrc0", pt: pt, payload: []byte{1, 2}, pad: -1, ssrc0: true},
			c30Shape{fam: "ssrc0", pt: pt, pad: 8, padLen: 8, ssrc0: true})
	}
	// group 5: RTCP shapes (the SSRC of the packet sender is patched in at bytes 4..8)
	rt := func(fam string, b ...byte) { out = append(out, c30Shape{fam: "rtcp:" + fam, rtcp: b}) }
	rt("rr-empty", 0x80, 201, 0, 1, 0, 0, 0, 0)
	rt("rr-count31-no-blocks", 0x9F, 201, 0, 1, 0, 0, 0, 0)
	rt("sr-short", 0x80, 200, 0, 1, 0, 0, 0, 0)
	rt("sr-count31", 0x9F, 200, 0, 6, 0, 0, 0, 0, 0, 0, 0, 0, 0, 0, 0, 0, 0, 0, 0, 0, 0, 0, 0, 0, 0, 0, 0, 0)
	rt("sdes-item-overrun", 0x81, 202, 0, 2, 0, 0, 0, 0, 1, 200, 'a', 0)
	rt("sdes-count31", 0x9F, 202, 0, 1, 0, 0, 0, 0)
	rt("bye-count31", 0x9F, 203, 0, 1, 0, 0, 0, 0)
	rt("bye-reason-overrun", 0x81, 203, 0, 2, 0, 0, 0, 0, 200, 'x', 0, 0)
	rt("app", 0x80, 204, 0, 2, 0, 0, 0, 0, 'n', 'a', 'm', 'e')
	rt("nack-no-fci", 0x81, 205, 0, 2, 0, 0, 0, 0, 0, 0, 0, 1)
	rt("twcc-truncated", 0x8F, 205, 0, 3, 0, 0, 0, 0, 0, 0, 0, 1, 0, 1, 0xFF, 0xFF)
	rt("rtpfb-fmt31", 0x9F, 205, 0, 2, 0, 0, 0, 0, 0, 0, 0, 1)
	rt("pli", 0x81, 206, 0, 2, 0, 0, 0, 0, 0, 0, 0, 1)
	rt("pli-short", 0x81, 206, 0, 1, 0, 0, 0, 0)
	rt("fir-no-entry", 0x84, 206, 0, 2, 0, 0, 0, 0, 0, 0, 0, 0)
	rt("remb-bad-count", 0x8F, 206, 0, 4, 0, 0, 0, 0, 0, 0, 0, 0, 'R', 'E', 'M', 'B', 0xFF, 0, 0, 0)
	rt("psfb-fmt31", 0x9F, 206, 0, 2, 0, 0, 0, 0, 0, 0, 0, 1)
	rt("type-255", 0x80, 255, 0, 1, 0, 0, 0, 0)
	rt("type-0", 0x80, 0, 0, 1, 0, 0, 0, 0)
	rt("xr", 0x80, 207, 0, 2, 0, 0, 0, 0, 4, 0, 0, 0)
	rt("length-overrun", 0x80, 201, 0xFF, 0xFF, 0, 0, 0, 0)
	rt("compound-second-overrun", 0x80, 201, 0, 1, 0, 0, 0, 0, 0x81, 202, 0, 50, 0, 0, 0, 0)
	rt("padding-bit", 0xA0, 201, 0, 2, 0, 0, 0, 0, 0, 0, 0, 4)
	rt("version-1", 0x40, 201, 0, 1, 0, 0, 0, 0)

	return out
}

func c30PairAPI(tb testing.TB) *API {
	lf := logging.NewDefaultLoggerFactory()
	lf.DefaultLogLevel = logging.LogLevelDisabled

	return vNewAPI(tb, vAPIOpts{
		media: func(m *MediaEngine) error {
			if err := m.RegisterDefaultCodecs(); err != nil {
				return err
			}
			if err := ConfigureSimulcastExtensionHeaders(m); err != nil {
				return err
			}

			return m.RegisterHeaderExtension(
				RTPHeaderExtensionCapability{URI: "urn:ietf:params:rtp-hdrext:sdes:mid"}, RTPCodecTypeAudio)
		},
		setting: func(s *SettingEngine) {
			s.LoggerFactory = lf
			s.SetIncludeLoopbackCandidate(true)
			s.SetInterfaceFilter(func(n string) bool { return n == "lo" })
			s.SetNetworkTypes([]NetworkType{NetworkTypeUDP4})
		},
	})
}

const c30RTPGuard = 60 * time.Second

func c30RTPWorker(t *testing.T, logw func(string, ...any), cs c30Case) { //nolint:cyclop
	wait := func(ch <-chan struct{}, what string) {
		select {
		case <-ch:
		case <-time.After(c30RTPGuard):
			vkit.Fatalf(t, "rtp: no %s within %v", what, c30RTPGuard)
		}
	}
	a := vNewPC(t, c30PairAPI(t), nil)
	b := vNewPC(t, c30PairAPI(t), nil)
	switch cs.Local {
	case "":
		c30Setup(t, a, "sim") // simulcast video (rids q,h,f) + audio (the sentinel)
		c30Setup(t, b, "audio")
	case "video-sender-only":
		// the sending side offers its simulcast video section sendrecv; the receiving side owns a video
		// transceiver made from a track, send-only: it is associated with that section and raised to sendrecv,
		// and it has NO RTPReceiver. Its audio transceiver (the sentinel's) is an ordinary sendrecv one.
		c30Setup(t, a, "sim-sendrecv")
		c30Setup(t, b, "audio+video-sender-only")
	default:
		vkit.Fatalf(t, "rtp: unknown receiving-side set-up %q", cs.Local)
	}
	sentinel := make(chan uint16, 1024)
	var sentinelSSRC uint32
	for _, s := range a.GetSenders() {
		if s.Track() != nil && s.Track().Kind() == RTPCodecTypeAudio {
			sentinelSSRC = uint32(s.GetParameters().Encodings[0].SSRC)
		}
	}
	var ridTracks, otherTracks, reannounced int64
	var cmu sync.Mutex
	seenTracks := map[*TrackRemote]bool{}
	seenRecv := map[*RTPReceiver]bool{}
	b.OnTrack(func(tr *TrackRemote, r *RTPReceiver) {
		isSentinel := uint32(tr.SSRC()) == sentinelSSRC
		cmu.Lock()
		if tr.RID() != "" {
			ridTracks++
		} else if !isSentinel {
			otherTracks++
		}
		// pion announces the SAME TrackRemote again when another SSRC arrives with a known mid/rid;
		// the application modelled here reads every TrackRemote / RTPReceiver from ONE goroutine
		// (two concurrent readers of one track race inside srtp.ReadStreamSRTP.Read)
		dupT, dupR := seenTracks[tr], seenRecv[r]
		seenTracks[tr], seenRecv[r] = true, true
		if dupT {
			reannounced++
		}
		cmu.Unlock()
		if dupT && dupR {
			return
		}
		if !dupR {
			go func() {
				for {
					if _, _, err := r.ReadRTCP(); err != nil && (strings.Contains(err.Error(), "EOF") || strings.Contains(err.Error(), "closed")) {
						return
					}
				}
			}()
		}
		if dupT {
			return
		}
		go func() {
			for {
				p, _, err := tr.ReadRTP()
				if err != nil {
					if strings.Contains(err.Error(), "EOF") || strings.Contains(err.Error(), "closed") {
						return
					}

					continue
				}
				if isSentinel && p.PayloadType == 111 && len(p.Payload) == 3 && p.Payload[0] == 0xC3 {
					select {
					case sentinel <- p.SequenceNumber:
					default:
					}
				}
			}
		}()
	})
	for _, s := range b.GetSenders() {
		go func(s *RTPSender) {
			for {
				if _, _, err := s.ReadRTCP(); err != nil && (strings.Contains(err.Error(), "EOF") || strings.Contains(err.Error(), "closed")) {
					return
				}
			}
		}(s)
	}
	must := func(err error, what string) {
		if err != nil {
			vkit.Fatalf(t, "rtp: %s: %v", what, err)
		}
	}
	off, err := a.CreateOffer(nil)
	must(err, "CreateOffer")
	ga := GatheringCompletePromise(a)
	must(a.SetLocalDescription(off), "SetLocalDescription(offer)")
	wait(ga, "gathering (A)")
	must(b.SetRemoteDescription(*a.LocalDescription()), "SetRemoteDescription(offer)")
	ans, err := b.CreateAnswer(nil)
	must(err, "CreateAnswer")
	gb := GatheringCompletePromise(b)
	must(b.SetLocalDescription(ans), "SetLocalDescription(answer)")
	wait(gb, "gathering (B)")
	must(a.SetRemoteDescription(*b.LocalDescription()), "SetRemoteDescription(answer)")
	wait(a.dtlsTransport.srtpReady, "SRTP on A")
	wait(b.dtlsTransport.srtpReady, "SRTP on B")

	// A's keys, own protection context
	cfg := &srtp.Config{Profile: a.dtlsTransport.srtpProtectionProfile}
	st, ok := a.dtlsTransport.conn.ConnectionState()
	if !ok {
		vkit.Fatalf(t, "rtp: no DTLS connection state")
	}
	must(cfg.ExtractSessionKeysFromDTLS(&st, a.dtlsTransport.role() == DTLSRoleClient), "ExtractSessionKeysFromDTLS")
	ctx, err := srtp.CreateContext(cfg.Keys.LocalMasterKey, cfg.Keys.LocalMasterSalt, cfg.Profile)
	must(err, "CreateContext")
	sendRTP := func(raw []byte) bool {
		enc, eerr := ctx.EncryptRTP(nil, raw, nil)
		if eerr != nil {
			return false
		}
		_, werr := a.dtlsTransport.srtpEndpoint.Write(enc)
		must(werr, "write SRTP")

		return true
	}
	sendRTCP := func(raw []byte) bool {
		enc, eerr := ctx.EncryptRTCP(nil, raw, nil)
		if eerr != nil {
			return false
		}
		_, werr := a.dtlsTransport.srtcpEndpoint.Write(enc)
		must(werr, "write SRTCP")

		return true
	}
	var sseq uint16 = 100
	expectSentinel := func(what string) {
		// (re)send the sentinel until it comes out of B's track; UDP may drop, B must not stop
		deadline := time.After(c30RTPGuard)
		for {
			sseq++
			sendRTP(c30RTPRaw(c30Shape{pt: 111, payload: []byte{0xC3, byte(sseq >> 8), byte(sseq)}, pad: -1}, sentinelSSRC, sseq))
			resend := time.After(500 * time.Millisecond)
		inner:
			for {
				select {
				case got := <-sentinel:
					if got == sseq {
						return
					}
				case <-resend:
					break inner
				case <-deadline:
					vkit.Fatalf(t, "rtp: sentinel not delivered within %v %s", c30RTPGuard, what)
				}
			}
		}
	}
	midID, _, _ := b.api.mediaEngine.getHeaderExtensionID(RTPHeaderExtensionCapability{URI: "urn:ietf:params:rtp-hdrext:sdes:mid"})
	ridID, _, _ := b.api.mediaEngine.getHeaderExtensionID(RTPHeaderExtensionCapability{URI: "urn:ietf:params:rtp-hdrext:sdes:rtp-stream-id"})
	rridID, _, _ := b.api.mediaEngine.getHeaderExtensionID(RTPHeaderExtensionCapability{URI: "urn:ietf:params:rtp-hdrext:sdes:repaired-rtp-stream-id"})
	mid := ""
	for _, tr := range b.GetTransceivers() {
		if tr.Kind() == RTPCodecTypeVideo {
			mid = tr.Mid()
		}
	}
	if midID == 0 || ridID == 0 || rridID == 0 || mid == "" {
		vkit.Fatalf(t, "rtp: extension ids %d/%d/%d mid %q not negotiated", midID, ridID, rridID, mid)
	}
	expectSentinel("before the first shape")
	shapes := c30RTPShapes(midID, ridID, rridID, mid)
	logw("RTPSHAPES %d", len(shapes))
	sent, unsendable := 0, 0
	for k, sh := range shapes {
		if cs.Shape != nil && *cs.Shape != k {
			continue
		}
		logw("R %d %s", k, sh.fam)
		okSent := false
		switch {
		case sh.rtcp != nil:
			for _, ssrc := range []uint32{sentinelSSRC, 0x31000000 + uint32(k)} { //nolint:gosec
				raw := append([]byte{}, sh.rtcp...)
				raw[4], raw[5], raw[6], raw[7] = byte(ssrc>>24), byte(ssrc>>16), byte(ssrc>>8), byte(ssrc)
				okSent = sendRTCP(raw) || okSent
			}
		default:
			ssrc := 0x30000000 + uint32(k) //nolint:gosec
			if sh.ssrc0 {
				ssrc = 0
			}
			okSent = sendRTP(c30RTPRaw(sh, ssrc, 1))
			// let the probe of the undeclared SSRC run to its end: simulcastProbeCount+1 more packets
			fill := c30Shape{pt: sh.pt, payload: []byte{9}, pad: -1}
			for q := 0; q <= simulcastProbeCount; q++ {
				sendRTP(c30RTPRaw(fill, ssrc, uint16(2+q))) //nolint:gosec
			}
		}
		if okSent {
			sent++
		} else {
			unsendable++
		}
		expectSentinel(fmt.Sprintf("after shape %d (%s)", k, sh.fam))
		res := "sent"
		if !okSent {
			res = "unsendable"
		}
		logw("S %d %s %s", k, sh.fam, res)
	}
	c30Quiesce()
	expectSentinel("after the last shape")
	cmu.Lock()
	logw("RTPDONE sent=%d unsendable=%d rid_track_announcements=%d same_track_announced_again=%d other_tracks=%d",
		sent, unsendable, ridTracks, reannounced, otherTracks)
	cmu.Unlock()
	_ = a.Close()
	_ = b.Close()
}

// c30RTPAccount turns the log of the RTP worker into evidence / violations.
func c30RTPAccount(c *vkit.Check, t *testing.T, r c30Run, local string) {
	lastK, lastFam, done := -1, "", false
	for _, l := range r.log {
		f := strings.Fields(l)
		if len(f) == 0 {
			continue
		}
		switch f[0] {
		case "R":
			lastK, _ = strconv.Atoi(f[1])
			lastFam = f[2]
		case "S":
			c.Eval()
			c.Add("rtp_shapes", 1)
			if f[3] == "sent" {
				c.Distinct("rtp|" + local + "|" + f[2])
				c.Add("rtp_shapes_sent", 1)
			}
			lastK = -1
		case "RTPDONE":
			done = true
			c.Set("rtp_summary"+map[bool]string{true: "", false: "_" + local}[local == ""], strings.Join(f[1:], " "))
		}
	}
	if done && r.exit == 0 {
		return
	}
	if site, msg, ok := c30PanicFromStderr(r.stderr); ok {
		k := lastK
		cs := c30Case{Part: "rtp", Shape: &k, Op: c30RTPFamBase(lastFam), Kind: lastFam, Local: local}
		key := "panic|" + site + "|rtp:" + c30RTPFamBase(lastFam)
		if local != "" {
			key += "|receiving-side=" + local
		}
		c.Violation(key,
			fmt.Sprintf("process killed by: %s while (or shortly after) shape %d (%s) from the connected peer was processed (receiving side set-up %q)", msg, k, lastFam, local), cs)

		return
	}
	vkit.Fatalf(t, "rtp worker ended with status %d (timeout=%v) without a verdict: %s", r.exit, r.timeout, c30Tail(r.stderr, 600))
}

func c30RTPFamBase(f string) string {
	p := strings.Split(f, ":")
	if len(p) > 2 {
		p = p[:2]
	}

	return strings.Join(p, ":")
}

// ---------------------------------------------------------------------------------------------
// part D: munged offers on REAL pairs (handleIncomingSSRC / handleUndeclaredSSRC re-parse the
// applied remote description when a connected peer sends RTP)

var c30PairFams = map[string]bool{"ssrc": true, "ssrc-group": true, "msid": true, "rid": true, "mid": true, "extmap": true}

func c30PairAPINoExt(tb testing.TB) *API {
	lf := logging.NewDefaultLoggerFactory()
	lf.DefaultLogLevel = logging.LogLevelDisabled

	return vNewAPI(tb, vAPIOpts{
		setting: func(s *SettingEngine) {
			s.LoggerFactory = lf
			s.SetIncludeLoopbackCandidate(true)
			s.SetInterfaceFilter(func(n string) bool { return n == "lo" })
			s.SetNetworkTypes([]NetworkType{NetworkTypeUDP4})
		},
	})
}

// c30MakePairSeeds: the offers of real senders (gathered over loopback); only their line
// structure is used, every case works on the fresh offer of its own sender.
func c30MakePairSeeds(tb testing.TB, thorough bool) []c30Seed {
	setups := []string{"audio", "video"}
	if thorough {
		setups = append(setups, "av")
	}
	var out []c30Seed
	for _, su := range setups {
		pc := vNewPC(tb, c30PairAPI(tb), nil)
		c30Setup(tb, pc, su)
		text, err := c30GatheredOffer(pc)
		_ = pc.Close()
		if err != nil {
			vkit.Fatalf(tb, "pair seed %s: %v", su, err)
		}
		out = append(out, c30Seed{Name: "pair-" + su, Type: "offer", Local: su, SDP: text, D: true})
	}

	return out
}

func c30GatheredOffer(pc *PeerConnection) (string, error) {
	off, err := pc.CreateOffer(nil)
	if err != nil {
		return "", err
	}
	g := GatheringCompletePromise(pc)
	if err = pc.SetLocalDescription(off); err != nil {
		return "", err
	}
	select {
	case <-g:
	case <-time.After(c30RTPGuard):
		return "", fmt.Errorf("gathering did not complete within %v", c30RTPGuard) //nolint:err113
	}

	return pc.LocalDescription().SDP, nil
}

func c30Kinds(lines []string) []string {
	out := make([]string, len(lines))
	for i, l := range lines {
		out[i] = c30LineKind(l)
	}

	return out
}

// c30PairCases: per part-D seed the deviations that touch the attribute families the RTP-time
// re-parsing reads (delete / rename family; every line / value / token operator on msid, ssrc,
// ssrc-group, rid, mid, extmap lines) and the pairs {delete all a=ssrc} x {operator on a=msid}.
func c30PairCases(seeds []c30Seed, thorough bool) []c30Case {
	var out []c30Case
	sems := []int{0}
	if thorough {
		sems = []int{0, 2}
	}
	for si := range seeds {
		s := &seeds[si]
		if !s.D {
			continue
		}
		lines := c30Lines(s.SDP)
		kinds := c30Kinds(lines)
		mode := "ext"
		if s.Local == "av" {
			mode = "noext" // two sections: the section is found by payload type when no mid extension is negotiated
		}
		var keep, msid []c30Dev
		for _, d := range c30Devs(lines, thorough) {
			switch d.Op {
			case "fdel", "fren":
				if c30PairFams[d.Fam] {
					keep = append(keep, d)
					if d.Fam == "msid" {
						msid = append(msid, d)
					}
				}
			case "val", "tok", "tdel", "tcut", "sep", "del", "dup":
				if c30PairFams[kinds[d.I]] {
					keep = append(keep, d)
					if kinds[d.I] == "msid" {
						msid = append(msid, d)
					}
				}
			}
		}
		for _, sem := range sems {
			for _, d := range keep {
				op, kind := c30DevFamily(lines, d)
				out = append(out, c30Case{Part: "pair", Seed: s.Name, Local: s.Local, Sem: sem, Mode: mode, Devs: []c30Dev{d},
					Kinds: kinds, Op: op, Kind: kind})
			}
			noSSRC := c30Dev{Op: "fdel", I: -1, Fam: "ssrc"}
			for _, d := range msid {
				_, kind := c30DevFamily(lines, d)
				out = append(out, c30Case{Part: "pair", Seed: s.Name, Local: s.Local, Sem: sem, Mode: mode, Devs: []c30Dev{d, noSSRC},
					Kinds: kinds, Op: "pair", Kind: "fdel/ssrc+" + c30OpBase(d.Op) + "/" + kind})
			}
			out = append(out, c30Case{Part: "pair", Seed: s.Name, Local: s.Local, Sem: sem, Mode: mode, Devs: nil,
				Kinds: kinds, Op: "none", Kind: "-"})
		}
	}

	return out
}

// execPair: sender A (unmodified) and answerer B over loopback; A's offer is munged in transit.
func (x *c30Exec) execPair(cs c30Case) (outcome string) { //nolint:cyclop
	defer c30Recover(&outcome)
	a := vNewPC(x.tb, c30PairAPI(x.tb), nil)
	c30Setup(x.tb, a, cs.Local)
	bAPI := c30PairAPI(x.tb)
	if cs.Mode == "noext" {
		bAPI = c30PairAPINoExt(x.tb)
	}
	b := vNewPC(x.tb, bAPI, &Configuration{SDPSemantics: c30Sems[cs.Sem]})
	closeBoth := func() {
		_ = a.Close()
		_ = b.Close()
		_ = a.GracefulClose()
		_ = b.GracefulClose()
		c30Quiesce()
	}
	var tmu sync.Mutex
	seen := map[*TrackRemote]bool{}
	announced := 0
	b.OnTrack(func(tr *TrackRemote, _ *RTPReceiver) {
		tmu.Lock()
		dup := seen[tr]
		seen[tr] = true
		announced++
		tmu.Unlock()
		if dup {
			return
		}
		go func() {
			buf := make([]byte, 1500)
			for {
				if _, _, err := tr.Read(buf); err != nil {
					return
				}
			}
		}()
	})
	text, err := c30GatheredOffer(a)
	if err != nil {
		vkit.Fatalf(x.tb, "pair: sender offer: %v", err)
	}
	lines := c30Lines(text)
	if len(cs.Kinds) > 0 {
		got := c30Kinds(lines)
		if strings.Join(got, ",") != strings.Join(cs.Kinds, ",") {
			vkit.Fatalf(x.tb, "pair: the sender's offer does not have the structure of seed %s", cs.Seed)
		}
	}
	munged := c30ApplyAll(lines, cs.Devs)
	if err = b.SetRemoteDescription(SessionDescription{Type: SDPTypeOffer, SDP: munged}); err != nil {
		closeBoth()

		return "rejected"
	}
	ans, err := b.CreateAnswer(nil)
	if err != nil {
		closeBoth()

		return "accepted+answer-failed"
	}
	g := GatheringCompletePromise(b)
	if err = b.SetLocalDescription(ans); err != nil {
		closeBoth()

		return "accepted+answer+sld-failed"
	}
	select {
	case <-g:
	case <-time.After(c30RTPGuard):
		vkit.Fatalf(x.tb, "pair: gathering (answerer) did not complete within %v", c30RTPGuard)
	}
	if err = a.SetRemoteDescription(*b.LocalDescription()); err != nil {
		closeBoth()

		return "accepted+sender-rejected-the-answer"
	}
	// transports: an event wait; a munged description may legitimately keep them from coming up,
	// which is an outcome class (bounded wait), never a verdict
	up := time.After(15 * time.Second)
	for _, ch := range []<-chan struct{}{a.dtlsTransport.srtpReady, b.dtlsTransport.srtpReady} {
		select {
		case <-ch:
		case <-up:
			closeBoth()

			return "accepted+no-connection"
		}
	}
	// is the SSRC the sender uses declared by what the answerer applied?
	declared := map[SSRC]bool{}
	if rd := b.RemoteDescription(); rd != nil && rd.parsed != nil {
		for _, td := range trackDetailsFromSDP(b.log, rd.parsed) {
			for _, v := range td.ssrcs {
				declared[v] = true
			}
		}
	}
	undeclared := false
	r0 := b.iceTransport.Stats().BytesReceived
	s0 := a.iceTransport.Stats().BytesSent
	for _, snd := range a.GetSenders() {
		tl, ok := snd.Track().(*TrackLocalStaticRTP)
		if !ok {
			continue
		}
		for _, enc := range snd.GetParameters().Encodings {
			if !declared[enc.SSRC] {
				undeclared = true
			}
		}
		for q := 0; q < 20; q++ {
			_ = tl.WriteRTP(&rtp.Packet{
				Header:  rtp.Header{Version: 2, SequenceNumber: uint16(1000 + q), Timestamp: uint32(3000 * q)}, //nolint:gosec
				Payload: []byte{0x90, 0x90, 0x90, 1, 2, 3, 4, 5, 6, byte(q)},
			})
		}
	}
	// wait (bounded, no verdict) until the answerer's transport has taken in what the sender put
	// on the wire, then let every goroutine that woke up run to its blocking point
	want := a.iceTransport.Stats().BytesSent - s0
	for k := 0; k < 10000 && b.iceTransport.Stats().BytesReceived-r0 < want; k++ {
		time.Sleep(200 * time.Microsecond)
	}
	c30Quiesce()
	time.Sleep(2 * time.Millisecond)
	c30Quiesce()
	tmu.Lock()
	n := announced
	tmu.Unlock()
	out := "connected+rtp"
	if undeclared {
		out += "+undeclared-ssrc"
	}
	if n > 0 {
		out += "+track-announced"
	} else {
		out += "+no-track"
	}
	if b.ConnectionState() != PeerConnectionStateConnected && b.ConnectionState() != PeerConnectionStateConnecting {
		out += "+answerer-" + b.ConnectionState().String()
	}
	closeBoth()

	return out
}
