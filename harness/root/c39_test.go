package webrtc

// C39 — SetConfiguration never changes immutable settings.
//
// Explicit-state exploration of the real SetConfiguration: states are
// (stage, GetConfiguration snapshot), transitions are SetConfiguration calls.
// From every initial configuration and every stage {fresh, after
// SetLocalDescription, after Close} all 3^7 arguments (each of PeerIdentity,
// Certificates, BundlePolicy, RTCPMuxPolicy, ICECandidatePoolSize, ICEServers,
// ICETransportPolicy in {zero, same-as-current, changed / invalid server}) are
// applied, the classes being recomputed against the current snapshot before
// every call; plus single-field sweeps over further shapes of change.
//
// Reference (from the property statement, W3C set-the-configuration):
//   must-reject  <=> a non-zero PeerIdentity / Certificates / BundlePolicy /
//                    RTCPMuxPolicy argument differs from the current value,
//                    or a non-zero pool size differs and a local description
//                    exists, or an ICE server is invalid;
//   rejected      => GetConfiguration() equals the snapshot; the error is an
//                    InvalidModificationError when an immutable field was the
//                    only reason (InvalidStateError also accepted once closed);
//   always        => the immutable fields of GetConfiguration() are unchanged.

import (
	"bytes"
	"crypto/ecdsa"
	"crypto/elliptic"
	"crypto/rand"
	"crypto/x509"
	"errors"
	"fmt"
	"reflect"
	"sort"
	"strings"
	"testing"

	"github.com/pion/logging"
	"github.com/pion/webrtc/v4/internal/verif/vkit"
	"github.com/pion/webrtc/v4/pkg/rtcerr"
)

const (
	c39Zero = iota
	c39Same
	c39Changed
)

var c39Fields = []string{"PeerIdentity", "Certificates", "BundlePolicy", "RTCPMuxPolicy", "ICECandidatePoolSize", "ICEServers", "ICETransportPolicy"}

var c39ClassNames = []string{"zero", "same", "changed"}

type c39Snap struct {
	PeerIdentity string
	Certs        []Certificate
	Bundle       BundlePolicy
	RTCPMux      RTCPMuxPolicy
	Pool         uint8
	Servers      []ICEServer
	Policy       ICETransportPolicy
	Semantics    SDPSemantics
	AlwaysDC     bool
}

func c39CopyServers(in []ICEServer) []ICEServer {
	out := make([]ICEServer, len(in))
	for i, s := range in {
		out[i] = s
		out[i].URLs = append([]string{}, s.URLs...)
	}

	return out
}

func c39Take(cfg Configuration) c39Snap {
	return c39Snap{
		PeerIdentity: cfg.PeerIdentity,
		Certs:        append([]Certificate{}, cfg.Certificates...),
		Bundle:       cfg.BundlePolicy,
		RTCPMux:      cfg.RTCPMuxPolicy,
		Pool:         cfg.ICECandidatePoolSize,
		Servers:      c39CopyServers(cfg.ICEServers),
		Policy:       cfg.ICETransportPolicy,
		Semantics:    cfg.SDPSemantics,
		AlwaysDC:     cfg.AlwaysNegotiateDataChannels,
	}
}

func c39CertsEqual(a, b []Certificate) bool {
	if len(a) != len(b) {
		return false
	}
	for i := range a {
		// judged on the bytes, not with Certificate.Equals (which SetConfiguration itself uses): the same
		// X.509 certificate and the same private key
		if a[i].x509Cert == nil || b[i].x509Cert == nil || !bytes.Equal(a[i].x509Cert.Raw, b[i].x509Cert.Raw) {
			return false
		}
		ka, ea := x509.MarshalPKCS8PrivateKey(a[i].privateKey)
		kb, eb := x509.MarshalPKCS8PrivateKey(b[i].privateKey)
		if ea != nil || eb != nil || !bytes.Equal(ka, kb) {
			return false
		}
	}

	return true
}

func c39ServersEqual(a, b []ICEServer) bool {
	if len(a) != len(b) {
		return false
	}
	for i := range a {
		if len(a[i].URLs) != len(b[i].URLs) || a[i].Username != b[i].Username ||
			a[i].CredentialType != b[i].CredentialType || !reflect.DeepEqual(a[i].Credential, b[i].Credential) {
			return false
		}
		for j := range a[i].URLs {
			if a[i].URLs[j] != b[i].URLs[j] {
				return false
			}
		}
	}

	return true
}

// diff lists the GetConfiguration fields in which two snapshots differ.
func (s c39Snap) diff(o c39Snap) []string {
	var d []string
	if s.PeerIdentity != o.PeerIdentity {
		d = append(d, "PeerIdentity")
	}
	if !c39CertsEqual(s.Certs, o.Certs) {
		d = append(d, "Certificates")
	}
	if s.Bundle != o.Bundle {
		d = append(d, "BundlePolicy")
	}
	if s.RTCPMux != o.RTCPMux {
		d = append(d, "RTCPMuxPolicy")
	}
	if s.Pool != o.Pool {
		d = append(d, "ICECandidatePoolSize")
	}
	if !c39ServersEqual(s.Servers, o.Servers) {
		d = append(d, "ICEServers")
	}
	if s.Policy != o.Policy {
		d = append(d, "ICETransportPolicy")
	}
	if s.Semantics != o.Semantics {
		d = append(d, "SDPSemantics")
	}
	if s.AlwaysDC != o.AlwaysDC {
		d = append(d, "AlwaysNegotiateDataChannels")
	}

	return d
}

func (s c39Snap) key() string {
	var sv []string
	for _, x := range s.Servers {
		sv = append(sv, strings.Join(x.URLs, ","))
	}

	return fmt.Sprintf("id=%q/certs=%d/b=%d/m=%d/pool=%d/srv=[%s]/pol=%d", s.PeerIdentity, len(s.Certs), s.Bundle, s.RTCPMux, s.Pool,
		strings.Join(sv, ";"), s.Policy)
}

var (
	c39ValidServers = []ICEServer{
		{URLs: []string{"stun:192.0.2.1:3478"}},
		{URLs: []string{"turn:192.0.2.1:3478?transport=udp"}, Username: "u", Credential: "p", CredentialType: ICECredentialTypePassword},
	}
	// a valid first entry followed by a TURN server without credentials
	c39InvalidServers = []ICEServer{
		{URLs: []string{"stun:192.0.2.2:3478"}},
		{URLs: []string{"turn:192.0.2.2:3478"}},
	}
)

type c39Call struct {
	Initial string   `json:"initial"`
	Stage   string   `json:"stage"`
	Mode    string   `json:"mode"`
	Classes []string `json:"classes"`
	Extra   string   `json:"extra,omitempty"`
	Before  string   `json:"config_before"`
}

type c39Env struct {
	t      *testing.T
	c      *vkit.Check
	api    *API
	other  Certificate // a certificate that is in no configuration
	second Certificate // second certificate of the two-certificate initial configuration
}

// c39Arg builds the argument of the given classes relative to the current snapshot.
func (e *c39Env) arg(cur c39Snap, cls []int) Configuration {
	var a Configuration
	switch cls[0] {
	case c39Same:
		a.PeerIdentity = cur.PeerIdentity
	case c39Changed:
		a.PeerIdentity = cur.PeerIdentity + "x"
	}
	switch cls[1] {
	case c39Same:
		a.Certificates = append([]Certificate{}, cur.Certs...)
	case c39Changed: // same length, last certificate replaced
		a.Certificates = append([]Certificate{}, cur.Certs...)
		a.Certificates[len(a.Certificates)-1] = e.other
	}
	switch cls[2] {
	case c39Same:
		a.BundlePolicy = cur.Bundle
	case c39Changed:
		a.BundlePolicy = cur.Bundle%BundlePolicyMaxBundle + 1
	}
	switch cls[3] {
	case c39Same:
		a.RTCPMuxPolicy = cur.RTCPMux
	case c39Changed:
		a.RTCPMuxPolicy = cur.RTCPMux%RTCPMuxPolicyRequire + 1
	}
	switch cls[4] {
	case c39Same:
		a.ICECandidatePoolSize = cur.Pool
	case c39Changed:
		a.ICECandidatePoolSize = cur.Pool + 1
	}
	switch cls[5] {
	case c39Same: // a valid list (the current one once it has been accepted)
		a.ICEServers = c39CopyServers(c39ValidServers)
	case c39Changed:
		a.ICEServers = c39CopyServers(c39InvalidServers)
	}
	switch cls[6] {
	case c39Same:
		a.ICETransportPolicy = cur.Policy
	case c39Changed:
		a.ICETransportPolicy = (cur.Policy + 1) % (ICETransportPolicyNoHost + 1)
	}

	return a
}

type c39Expect struct {
	reasons     []string // why the call must be rejected (empty: the statement does not demand rejection)
	immutable   bool     // some reason is an immutable-field change
	badServer   bool
	unspecified []string // zero argument on a non-zero setting: statement silent on accept/reject
}

// c39Reference is written from the property statement only.
func c39Reference(cur c39Snap, a Configuration, hasLocal bool) c39Expect {
	var x c39Expect
	if a.PeerIdentity != "" && a.PeerIdentity != cur.PeerIdentity {
		x.reasons, x.immutable = append(x.reasons, "PeerIdentity"), true
	}
	if len(a.Certificates) > 0 && !c39CertsEqual(a.Certificates, cur.Certs) {
		x.reasons, x.immutable = append(x.reasons, "Certificates"), true
	}
	if a.BundlePolicy != BundlePolicyUnknown && a.BundlePolicy != cur.Bundle {
		x.reasons, x.immutable = append(x.reasons, "BundlePolicy"), true
	}
	if a.RTCPMuxPolicy != RTCPMuxPolicyUnknown && a.RTCPMuxPolicy != cur.RTCPMux {
		x.reasons, x.immutable = append(x.reasons, "RTCPMuxPolicy"), true
	}
	if hasLocal && a.ICECandidatePoolSize != 0 && a.ICECandidatePoolSize != cur.Pool {
		x.reasons, x.immutable = append(x.reasons, "ICECandidatePoolSize"), true
	}
	for _, s := range a.ICEServers {
		if !c39ServerValid(s) {
			x.reasons, x.badServer = append(x.reasons, "ICEServers"), true

			break
		}
	}

	return x
}

// c39ServerValid is an own reading of W3C set-the-configuration steps 11.x for
// the server shapes this check generates (scheme prefix, TURN needs a username
// and a credential whose Go type matches the credential type).
func c39ServerValid(s ICEServer) bool {
	for _, u := range s.URLs {
		scheme, rest, ok := strings.Cut(u, ":")
		if !ok || rest == "" {
			return false
		}
		switch scheme {
		case "stun", "stuns":
		case "turn", "turns":
			if s.Username == "" || s.Credential == nil {
				return false
			}
			switch s.CredentialType {
			case ICECredentialTypePassword:
				if _, ok := s.Credential.(string); !ok {
					return false
				}
			case ICECredentialTypeOauth:
				if _, ok := s.Credential.(OAuthCredential); !ok {
					return false
				}
			default:
				return false
			}
		default:
			return false
		}
	}

	return true
}

func c39ErrKind(err error) string {
	var (
		im *rtcerr.InvalidModificationError
		is *rtcerr.InvalidStateError
		ia *rtcerr.InvalidAccessError
	)
	switch {
	case err == nil:
		return "nil"
	case errors.As(err, &im):
		return "InvalidModificationError"
	case errors.As(err, &is):
		return "InvalidStateError"
	case errors.As(err, &ia):
		return "InvalidAccessError"
	default:
		return "other"
	}
}

// step applies one SetConfiguration call and checks it against the reference.
func (e *c39Env) step(pc *PeerConnection, stage string, a Configuration, call c39Call) {
	c := e.c
	before := c39Take(pc.GetConfiguration())
	call.Before = before.key()
	hasLocal := pc.LocalDescription() != nil
	closed := stage == "closed"
	want := c39Reference(before, a, hasLocal)
	c.State(stage + "|" + before.key())
	c.Eval()
	c.Transition()
	c.Validated()

	var err error
	c.Guard(stage+"|"+strings.Join(call.Classes, ","), call, func() { err = pc.SetConfiguration(a) })
	after := c39Take(pc.GetConfiguration())
	kind := c39ErrKind(err)
	changed := before.diff(after)
	reasons := strings.Join(want.reasons, "+")
	c.Outcome(fmt.Sprintf("%s|%s|changed=%v", stage, kind, len(changed) > 0))

	if len(want.reasons) > 0 && err == nil {
		c.Violation(fmt.Sprintf("accepted|stage=%s|must-reject=%s", stage, reasons),
			fmt.Sprintf("SetConfiguration accepted a call that changes %s (stage %s, classes %v, config before %s)", reasons, stage, call.Classes, before.key()), call)
	}
	if err != nil && len(changed) > 0 {
		c.Violation(fmt.Sprintf("partial|stage=%s|error=%s|changed=%s", stage, kind, strings.Join(changed, "+")),
			fmt.Sprintf("SetConfiguration returned %v but GetConfiguration changed in %v (stage %s, classes %v, config before %s, after %s)",
				err, changed, stage, call.Classes, before.key(), after.key()), call)
	}
	if err != nil && want.immutable && !want.badServer && kind != "InvalidModificationError" && !(closed && kind == "InvalidStateError") {
		c.Violation(fmt.Sprintf("errtype|stage=%s|reason=%s|got=%s", stage, reasons, kind),
			fmt.Sprintf("change of %s rejected with %T (%v), not an InvalidModificationError (stage %s)", reasons, err, err, stage), call)
	}
	// immutable settings never change, whatever the verdict
	var imm []string
	for _, f := range changed {
		switch f {
		case "PeerIdentity", "Certificates", "BundlePolicy", "RTCPMuxPolicy":
			imm = append(imm, f)
		case "ICECandidatePoolSize":
			if hasLocal {
				imm = append(imm, f)
			}
		}
	}
	if len(imm) > 0 && err == nil {
		c.Violation(fmt.Sprintf("immutable-changed|stage=%s|field=%s", stage, strings.Join(imm, "+")),
			fmt.Sprintf("an accepted SetConfiguration changed %v (stage %s, classes %v, before %s, after %s)", imm, stage, call.Classes, before.key(), after.key()), call)
	}
	if len(want.reasons) > 0 && err != nil && len(changed) == 0 {
		c.Distinct(fmt.Sprintf("rejected|%s|%s|%s", stage, reasons, kind))
	}
	if len(want.reasons) == 0 && err == nil {
		c.Distinct(fmt.Sprintf("accepted|%s|changed=%s", stage, strings.Join(changed, "+")))
	}
}

type c39Initial struct {
	name string
	cfg  func(e *c39Env) Configuration
}

func c39Initials() []c39Initial {
	return []c39Initial{
		{"default", func(*c39Env) Configuration { return Configuration{} }},
		{"identity+maxbundle+negotiate+pool1+servers+relay", func(*c39Env) Configuration {
			return Configuration{
				PeerIdentity: "alice", BundlePolicy: BundlePolicyMaxBundle, RTCPMuxPolicy: RTCPMuxPolicyNegotiate,
				ICECandidatePoolSize: 1, ICEServers: []ICEServer{{URLs: []string{"stun:192.0.2.9:3478"}}}, ICETransportPolicy: ICETransportPolicyRelay,
			}
		}},
		{"maxcompat+pool1+nohost+2servers", func(*c39Env) Configuration {
			return Configuration{
				BundlePolicy: BundlePolicyMaxCompat, ICECandidatePoolSize: 1, ICETransportPolicy: ICETransportPolicyNoHost,
				ICEServers: []ICEServer{{URLs: []string{"stun:192.0.2.9:3478"}}, {URLs: []string{"stun:192.0.2.10:3478", "stuns:192.0.2.10:5349"}}},
			}
		}},
		{"two-certificates+identity", func(e *c39Env) Configuration {
			return Configuration{PeerIdentity: "bob", Certificates: []Certificate{vSharedCert(), e.second}}
		}},
	}
}

func (e *c39Env) newPC(ini c39Initial, stage string) *PeerConnection {
	cfg := ini.cfg(e)
	pc := vNewPC(e.t, e.api, &cfg)
	if stage == "sld" || stage == "closed" {
		if _, err := pc.CreateDataChannel("c39", nil); err != nil {
			vkit.Fatalf(e.t, "CreateDataChannel: %v", err)
		}
		offer, err := pc.CreateOffer(nil)
		if err != nil {
			vkit.Fatalf(e.t, "CreateOffer: %v", err)
		}
		if err := pc.SetLocalDescription(offer); err != nil {
			vkit.Fatalf(e.t, "SetLocalDescription: %v", err)
		}
		if pc.LocalDescription() == nil {
			vkit.Fatalf(e.t, "no local description after SetLocalDescription")
		}
	}
	if stage == "closed" {
		if err := pc.Close(); err != nil {
			vkit.Fatalf(e.t, "Close: %v", err)
		}
	}
	must := func(what string, err error) {
		if err != nil {
			vkit.Fatalf(e.t, "stage %s: %s: %v", stage, what, err)
		}
	}
	switch stage {
	case "remote-pranswer", "stable":
		// the offerer of a first negotiation: have-local-offer, then the peer's (pr)answer
		_, err := pc.CreateDataChannel("c39", nil)
		must("CreateDataChannel", err)
		offer, err := pc.CreateOffer(nil)
		must("CreateOffer", err)
		must("SetLocalDescription", pc.SetLocalDescription(offer))
		peer := vNewPC(e.t, e.api, nil)
		must("peer SetRemoteDescription", peer.SetRemoteDescription(offer))
		ans, err := peer.CreateAnswer(nil)
		must("peer CreateAnswer", err)
		_ = peer.Close()
		if stage == "remote-pranswer" {
			ans.Type = SDPTypePranswer
		}
		must("SetRemoteDescription", pc.SetRemoteDescription(ans))
	case "local-pranswer", "remote-offer":
		// the answerer of a first negotiation: have-remote-offer (no local description yet), then its own pranswer
		peer := vNewPC(e.t, e.api, nil)
		_, err := peer.CreateDataChannel("c39", nil)
		must("peer CreateDataChannel", err)
		offer, err := peer.CreateOffer(nil)
		must("peer CreateOffer", err)
		_ = peer.Close()
		must("SetRemoteDescription", pc.SetRemoteDescription(offer))
		if stage == "local-pranswer" {
			ans, err := pc.CreateAnswer(nil)
			must("CreateAnswer", err)
			ans.Type = SDPTypePranswer
			must("SetLocalDescription(pranswer)", pc.SetLocalDescription(ans))
		}
	}

	return pc
}

type c39ExtraArg struct {
	name string
	arg  func(e *c39Env, cur c39Snap) (Configuration, bool)
}

func c39Extras() []c39ExtraArg {
	srv := func(name string, s ...ICEServer) c39ExtraArg {
		return c39ExtraArg{"servers:" + name, func(*c39Env, c39Snap) (Configuration, bool) {
			return Configuration{ICEServers: s}, true
		}}
	}

	return []c39ExtraArg{
		{"certs:one-more", func(e *c39Env, cur c39Snap) (Configuration, bool) {
			return Configuration{Certificates: append(append([]Certificate{}, cur.Certs...), e.other)}, true
		}},
		{"certs:one-less", func(_ *c39Env, cur c39Snap) (Configuration, bool) {
			if len(cur.Certs) < 2 {
				return Configuration{}, false
			}

			return Configuration{Certificates: append([]Certificate{}, cur.Certs[:len(cur.Certs)-1]...)}, true
		}},
		{"certs:first-replaced", func(e *c39Env, cur c39Snap) (Configuration, bool) {
			cs := append([]Certificate{}, cur.Certs...)
			cs[0] = e.other

			return Configuration{Certificates: cs}, true
		}},
		{"certs:same-set-other-order", func(_ *c39Env, cur c39Snap) (Configuration, bool) {
			if len(cur.Certs) < 2 {
				return Configuration{}, false
			}
			cs := append(append([]Certificate{}, cur.Certs[1:]...), cur.Certs[0])

			return Configuration{Certificates: cs}, true
		}},
		{"certs:reissued-same-key-serial-and-subject", func(_ *c39Env, cur c39Snap) (Configuration, bool) {
			// the last certificate issued again from its own template with a later expiry: same key, same serial
			// number, same subject and issuer - another certificate all the same
			if len(cur.Certs) == 0 || cur.Certs[len(cur.Certs)-1].x509Cert == nil {
				return Configuration{}, false
			}
			cs := append([]Certificate{}, cur.Certs...)
			last := cs[len(cs)-1]
			tpl := *last.x509Cert
			tpl.NotAfter = tpl.NotAfter.AddDate(5, 0, 0)
			r, err := NewCertificate(last.privateKey, tpl)
			if err != nil || bytes.Equal(r.x509Cert.Raw, last.x509Cert.Raw) {
				return Configuration{}, false
			}
			cs[len(cs)-1] = *r

			return Configuration{Certificates: cs}, true
		}},
		{"certs:renewed-over-the-same-key", func(_ *c39Env, cur c39Snap) (Configuration, bool) {
			// another certificate (new serial, new validity) issued over the private key of the current one
			if len(cur.Certs) == 0 {
				return Configuration{}, false
			}
			cs := append([]Certificate{}, cur.Certs...)
			r, err := GenerateCertificate(cs[len(cs)-1].privateKey)
			if err != nil {
				return Configuration{}, false
			}
			cs[len(cs)-1] = *r

			return Configuration{Certificates: cs}, true
		}},
		{"certs:equal-copy-through-PEM", func(_ *c39Env, cur c39Snap) (Configuration, bool) {
			var cs []Certificate
			for _, x := range cur.Certs {
				p, err := x.PEM()
				if err != nil {
					return Configuration{}, false
				}
				y, err := CertificateFromPEM(p)
				if err != nil {
					return Configuration{}, false
				}
				cs = append(cs, *y)
			}

			return Configuration{Certificates: cs}, true
		}},
		{"identity:case", func(_ *c39Env, cur c39Snap) (Configuration, bool) {
			return Configuration{PeerIdentity: strings.ToUpper(cur.PeerIdentity) + "A"}, true
		}},
		{"identity:trailing-space", func(_ *c39Env, cur c39Snap) (Configuration, bool) {
			return Configuration{PeerIdentity: cur.PeerIdentity + " "}, true
		}},
		{"pool:255", func(*c39Env, c39Snap) (Configuration, bool) { return Configuration{ICECandidatePoolSize: 255}, true }},
		{"bundle:each-other", func(_ *c39Env, cur c39Snap) (Configuration, bool) {
			return Configuration{BundlePolicy: (cur.Bundle+1)%BundlePolicyMaxBundle + 1}, true
		}},
		srv("turn-no-username", ICEServer{URLs: []string{"turn:192.0.2.3"}, Credential: "p"}),
		srv("turn-no-credential", ICEServer{URLs: []string{"turn:192.0.2.3"}, Username: "u"}),
		srv("turn-password-not-a-string", ICEServer{URLs: []string{"turn:192.0.2.3"}, Username: "u", Credential: 7}),
		srv("turn-oauth-with-string", ICEServer{URLs: []string{"turns:192.0.2.3"}, Username: "u", Credential: "p", CredentialType: ICECredentialTypeOauth}),
		srv("unknown-scheme", ICEServer{URLs: []string{"http://192.0.2.3"}}),
		srv("no-scheme", ICEServer{URLs: []string{"192.0.2.3"}}),
		srv("invalid-first", ICEServer{URLs: []string{"turn:192.0.2.3"}}, ICEServer{URLs: []string{"stun:192.0.2.3"}}),
		srv("invalid-second-url", ICEServer{URLs: []string{"stun:192.0.2.3", "turn:192.0.2.3"}}),
		// an invalid URL behind a TURN URL with valid credentials (a validation that stops at the first TURN URL)
		srv("invalid-url-after-turn", ICEServer{URLs: []string{"turn:192.0.2.3?transport=udp", "http://192.0.2.3"}, Username: "u", Credential: "p"}),
		srv("invalid-url-after-stun-and-turns", ICEServer{URLs: []string{"stun:192.0.2.3", "turns:192.0.2.3:5349?transport=tcp", "192.0.2.3"}, Username: "u", Credential: "p"}),
		srv("valid-turn-then-stun", ICEServer{URLs: []string{"turn:192.0.2.3?transport=udp", "stun:192.0.2.3"}, Username: "u", Credential: "p"}),
		srv("valid-oauth", ICEServer{
			URLs: []string{"turn:192.0.2.3"}, Username: "u", CredentialType: ICECredentialTypeOauth,
			Credential: OAuthCredential{MACKey: "bWFj", AccessToken: "dG9r"},
		}),
		srv("empty-list"),
	}
}

func TestVerifC39(t *testing.T) { //nolint:cyclop
	c := vkit.New("C39", "model_checking")
	defer c.Finish(t)
	c.Rule("states = (stage in {fresh, after SetLocalDescription(offer), closed, have-remote-offer, have-local-pranswer, have-remote-pranswer, stable after a complete exchange}, GetConfiguration snapshot); transitions = SetConfiguration calls: from each of 4 initial configurations x 7 stages all 3^7 arguments (each of 7 fields in {zero, same as current, changed / invalid server list}), classes recomputed against the current snapshot before every call (mode walk: one PeerConnection per (initial, stage); mode fresh (thorough): a new PeerConnection per call), plus single-field sweeps over further shapes of change; distinct = (stage, set of must-reject reasons, error kind) rejected without change, and accepted calls by set of changed mutable fields")
	c.Assume("a zero argument field on a non-zero setting is 'unspecified' in pion: the statement is read as silent on whether such a call is accepted, but the immutable setting must keep its value either way")
	c.Assume("the statement does not demand that a call changing nothing is accepted; certificates are compared by their DER bytes and private keys, ICE servers structurally")

	lf := logging.NewDefaultLoggerFactory()
	lf.DefaultLogLevel = logging.LogLevelDisabled
	env := &c39Env{t: t, c: c}
	env.api = vNewAPI(t, vAPIOpts{virtualNet: true, setting: func(s *SettingEngine) { s.LoggerFactory = lf }})
	for _, dst := range []*Certificate{&env.other, &env.second} {
		sk, err := ecdsa.GenerateKey(elliptic.P256(), rand.Reader)
		if err != nil {
			vkit.Fatalf(t, "key: %v", err)
		}
		crt, err := GenerateCertificate(sk)
		if err != nil {
			vkit.Fatalf(t, "certificate: %v", err)
		}
		*dst = *crt
	}

	stages := []string{"fresh", "sld", "closed", "remote-offer", "local-pranswer", "remote-pranswer", "stable"}
	dims := []int{3, 3, 3, 3, 3, 3, 3}
	total := vkit.ProductSize(dims...)
	c.Set("argument_combinations", total)
	c.Set("initial_configurations", len(c39Initials()))
	c.Set("stages", stages)
	names := func(cls []int) []string {
		out := make([]string, len(cls))
		for i, k := range cls {
			out[i] = c39Fields[i] + "=" + c39ClassNames[k]
			if i == 5 {
				out[i] = c39Fields[i] + "=" + []string{"zero", "valid", "invalid"}[k]
			}
		}

		return out
	}

	modes := []string{"walk"}
	if !c.Quick() {
		modes = append(modes, "fresh")
	}
	c.Set("modes", modes)
	extras := c39Extras()
	c.Set("extra_single_field_arguments", len(extras))

	type unit struct {
		ini   c39Initial
		stage string
		mode  string
	}
	var units []unit
	for _, m := range modes {
		for _, ini := range c39Initials() {
			for _, st := range stages {
				units = append(units, unit{ini, st, m})
			}
		}
	}
	vSharedCert() // create before going parallel
	vkit.Parallel(len(units), func(ui int) {
		u := units[ui]
		var pc *PeerConnection
		if u.mode == "walk" {
			pc = env.newPC(u.ini, u.stage)
			defer func() { _ = pc.Close() }()
		}
		run := func(a func(cur c39Snap) (Configuration, bool), call c39Call) {
			p := pc
			if u.mode == "fresh" {
				p = env.newPC(u.ini, u.stage)
				defer func() { _ = p.Close() }()
			}
			arg, ok := a(c39Take(p.GetConfiguration()))
			if !ok {
				return
			}
			env.step(p, u.stage, arg, call)
		}
		for i := 0; i < total; i++ {
			cls := vkit.ProductIndex(i, dims...)
			call := c39Call{Initial: u.ini.name, Stage: u.stage, Mode: u.mode, Classes: names(cls)}
			if ui == 1 && i == 1234 {
				c.Sample(call)
			}
			run(func(cur c39Snap) (Configuration, bool) { return env.arg(cur, cls), true }, call)
		}
		for _, x := range extras {
			x := x
			call := c39Call{Initial: u.ini.name, Stage: u.stage, Mode: u.mode, Extra: x.name}
			run(func(cur c39Snap) (Configuration, bool) { return x.arg(env, cur) }, call)
		}
	})
	c.Sample(c39Call{Initial: "default", Stage: "sld", Mode: "walk", Classes: names([]int{1, 1, 2, 0, 1, 2, 2})})

	keys := []string{}
	for _, u := range units {
		keys = append(keys, u.mode+"/"+u.ini.name+"/"+u.stage)
	}
	sort.Strings(keys)
	c.Set("units", len(keys))
}
