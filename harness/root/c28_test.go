package webrtc

// C28 — Sample-based tracks timestamp and sequence RTP without drift.
//
// Every sample sequence up to a length over durations x sizes x PrevDroppedPackets
// is written to a fresh real TrackLocalStaticSample (real payloader of the codec,
// real rtp packetizer / sequencer) bound to one fake context with a recording
// TrackLocalWriter; plus long periodic runs of fractional-tick durations. The
// reference is exact integer arithmetic on nanoseconds (math/big):
//   elapsed_i = sum_{j<i} d_j*(1+N_j) + d_i*N_i          (ns)
//   ts_i     in  init + floor(elapsed_i * rate / 1e9) + {-1,0,+1}   (mod 2^32)
// all packets of a sample carry ts_i; sequence numbers advance by one per
// packet plus the N of every sample written since the previous packet.

import (
	"fmt"
	"io"
	"math/big"
	"runtime/debug"
	"testing"
	"time"

	"github.com/pion/rtp"
	"github.com/pion/webrtc/v4/internal/verif/vkit"
	"github.com/pion/webrtc/v4/pkg/media"
)

type c28Pkt struct {
	seq    uint16
	ts     uint32
	sample int // index of the WriteSample call that produced it
}

type c28Writer struct {
	cur  int
	pkts []c28Pkt
	fail bool // every write returns io.ErrClosedPipe and records nothing
}

func (w *c28Writer) WriteRTP(h *rtp.Header, _ []byte) (int, error) {
	if w.fail {
		return 0, io.ErrClosedPipe
	}
	w.pkts = append(w.pkts, c28Pkt{seq: h.SequenceNumber, ts: h.Timestamp, sample: w.cur})

	return 0, nil
}

func (w *c28Writer) Write(b []byte) (int, error) {
	if w.fail {
		return 0, io.ErrClosedPipe
	}
	p := rtp.Packet{}
	if err := p.Unmarshal(b); err == nil {
		w.pkts = append(w.pkts, c28Pkt{seq: p.SequenceNumber, ts: p.Timestamp, sample: w.cur})
	}

	return len(b), nil
}

type c28Codec struct {
	name  string
	cap   RTPCodecCapability
	split bool // the codec's payloader fragments a sample at the MTU
}

type c28Sample struct {
	DurNs   int64  `json:"duration_ns"`
	Size    int    `json:"size"`
	Dropped uint16 `json:"prev_dropped_packets"`
}

type c28Case struct {
	Codec    string      `json:"codec"`
	Rate     uint32      `json:"clock_rate"`
	InitTS   *uint32     `json:"init_timestamp"` // nil: not configured (random)
	InitSeq  *uint16     `json:"init_sequence_number"`
	Samples  []c28Sample `json:"samples,omitempty"`
	Periodic string      `json:"periodic,omitempty"`
	Binding  string      `json:"binding,omitempty"` // "" = one context; see c28Bindings
}

// c28Bindings are the ways the track is bound besides "one context, once": the usual fan-out of one track to
// two senders (both bound before the first sample / the second bound after the first sample), and a context
// that is unbound and bound again before writing.
// "second-fails": a second context whose write stream returns an error on every write (a closed
// PeerConnection); WriteSample reports the error, the healthy context must still see correct packets.
var c28Bindings = []string{"two", "second-after-first-sample", "rebound", "second-fails"}

var c28Billion = big.NewInt(1_000_000_000)

// c28Splitter is a payloader (WithPayloader) that fragments at the MTU without copying; the
// large products use it instead of the codec's own payloader, whose byte copying dominates the run.
type c28Splitter struct{}

func (c28Splitter) Payload(mtu uint16, payload []byte) [][]byte {
	var out [][]byte
	for len(payload) > int(mtu) {
		out = append(out, payload[:mtu:mtu])
		payload = payload[mtu:]
	}
	if len(payload) > 0 {
		out = append(out, payload)
	}

	return out
}

// c28Check compares the recorded packets of one run with the reference. samples
// is a generator so that long runs need no slice. It returns (kind, text) of the
// first breach.
func c28Check(rate uint32, initTS *uint32, n int, sampleAt func(i int) c28Sample, pkts []c28Pkt) (string, string) {
	// group packets per sample; they arrive in call order
	type span struct{ lo, hi int }
	spans := make([]span, n)
	for i := range spans {
		spans[i] = span{-1, -1}
	}
	for k, p := range pkts {
		if p.sample < 0 || p.sample >= n {
			return "packet-outside-write", fmt.Sprintf("packet %d recorded outside a WriteSample call", k)
		}
		if spans[p.sample].lo < 0 {
			spans[p.sample].lo = k
		}
		spans[p.sample].hi = k + 1
	}

	// the -1/0/+1 slack applies to every sample; with an unconfigured initial timestamp the
	// first observed sample fixes init up to the same slack
	tryInit := func(init uint32) (string, string) {
		elapsed := new(big.Int) // ns
		tmp := new(big.Int)
		var pendingSkip uint16 // N of samples written since the previous packet
		havePrev := false
		var prevSeq uint16
		for i := 0; i < n; i++ {
			s := sampleAt(i)
			d := big.NewInt(s.DurNs)
			// duration skipped on behalf of the N dropped packets
			tmp.Mul(d, big.NewInt(int64(s.Dropped)))
			elapsed.Add(elapsed, tmp)
			pendingSkip += s.Dropped
			if spans[i].lo >= 0 {
				tmp.Mul(elapsed, big.NewInt(int64(rate)))
				tmp.Div(tmp, c28Billion) // floor
				tmp.Add(tmp, big.NewInt(int64(init)))
				tmp.And(tmp, big.NewInt(0xFFFFFFFF))
				want := uint32(tmp.Uint64()) //nolint:gosec
				first := pkts[spans[i].lo]
				for k := spans[i].lo; k < spans[i].hi; k++ {
					p := pkts[k]
					if p.ts != first.ts {
						return "timestamp-differs-within-sample", fmt.Sprintf("sample %d: packet %d has timestamp %d, the sample's first packet %d", i, k-spans[i].lo, p.ts, first.ts)
					}
					wantSeq := prevSeq + 1 + pendingSkip
					if havePrev && p.seq != wantSeq {
						return fmt.Sprintf("sequence|dropped=%d|off=%+d", pendingSkip, int16(p.seq-wantSeq)), //nolint:gosec
							fmt.Sprintf("sample %d packet %d: sequence number %d, want %d (previous %d, %d reported dropped)", i, k-spans[i].lo, p.seq, wantSeq, prevSeq, pendingSkip)
					}
					prevSeq, havePrev, pendingSkip = p.seq, true, 0
				}
				if off := int32(first.ts - want); off < -1 || off > 1 { //nolint:gosec
					cls := "small"
					if off < -16 || off > 16 {
						cls = "large"
					}
					sign := "late"
					if off < 0 {
						sign = "early"
					}

					return fmt.Sprintf("timestamp|%s|%s", sign, cls),
						fmt.Sprintf("sample %d: timestamp %d, reference init+floor(elapsed*rate) = %d (off by %d ticks, more than the one tick of rounding)", i, first.ts, want, off)
				}
			}
			elapsed.Add(elapsed, d)
		}

		return "", ""
	}

	if initTS != nil {
		return tryInit(*initTS)
	}
	// unconfigured: find the first sample with packets and derive init from it (three candidates)
	firstIdx := -1
	for i := 0; i < n; i++ {
		if spans[i].lo >= 0 {
			firstIdx = i

			break
		}
	}
	if firstIdx < 0 {
		return "", ""
	}
	elapsed := new(big.Int)
	for i := 0; i <= firstIdx; i++ {
		s := sampleAt(i)
		elapsed.Add(elapsed, new(big.Int).Mul(big.NewInt(s.DurNs), big.NewInt(int64(s.Dropped))))
		if i < firstIdx {
			elapsed.Add(elapsed, big.NewInt(s.DurNs))
		}
	}
	elapsed.Mul(elapsed, big.NewInt(int64(rate)))
	elapsed.Div(elapsed, c28Billion)
	elapsed.And(elapsed, big.NewInt(0xFFFFFFFF))
	base := pkts[spans[firstIdx].lo].ts - uint32(elapsed.Uint64()) //nolint:gosec
	var kind, text string
	for _, e := range []uint32{0, 1, 0xFFFFFFFF} {
		if kind, text = tryInit(base + e); kind == "" {
			return "", ""
		}
	}

	return kind, text + " (initial timestamp not configured: no admissible initial value fits)"
}

func TestVerifC28(t *testing.T) {
	c := vkit.New("C28", "exploration")
	defer c.Finish(t)
	// millions of short-lived tracks: with the default GC pacing (4 MB minimum heap) the collector runs
	// almost continuously; let the heap grow to ~100 MB between cycles instead
	defer debug.SetGCPercent(debug.SetGCPercent(2500))
	c.Rule("cases = codec/clock rate {PCMU 8000, Opus 48000, VP8 90000} x initial (timestamp, sequence number) {(0,0), (2^32-2, 65534), not configured} x every sample sequence up to length 3 (thorough: length 4 for the wrap-around start) over duration {0, 1 tick, 1/3 tick, 20 ms, 33.333333 ms, 1 s} x size {1, 1200, 3000 bytes} x PrevDroppedPackets {0,1,3} (a second, shorter product adds empty samples; sequences up to length 2 use the codec's own payloader, the longer ones a zero-copy MTU splitter installed through WithPayloader); plus periodic runs of 10^4 (thorough 10^5) samples of one fractional-tick duration with and without periodic drops. Each case runs on a fresh TrackLocalStaticSample bound to a recording writer; the sequences up to length 2 (thorough 3) run again on tracks bound to two contexts (both before the first sample / the second after the first sample: both writers must record the same packets) and on a track whose context was unbound and bound again, and on a track with a second context whose every write fails (the periodic runs are repeated in that shape too: the healthy context must not drift); a class is non-trivial when packets were recorded")
	c.Assume("the duration that corresponds to N dropped packets is N times the duration of the sample that reports them (as the statement's 'corresponding duration')")
	c.Assume("nothing is demanded about the very first sequence number (the statement speaks of increments only)")

	codecs := []c28Codec{
		{"PCMU", RTPCodecCapability{MimeType: MimeTypePCMU, ClockRate: 8000}, true},
		{"opus", RTPCodecCapability{MimeType: MimeTypeOpus, ClockRate: 48000, Channels: 2}, false},
		{"VP8", RTPCodecCapability{MimeType: MimeTypeVP8, ClockRate: 90000}, true},
	}
	u32 := func(v uint32) *uint32 { return &v }
	u16 := func(v uint16) *uint16 { return &v }
	type initCfg struct {
		ts  *uint32
		seq *uint16
	}
	inits := []initCfg{{u32(0), u16(0)}, {u32(1<<32 - 2), u16(65534)}, {nil, nil}}
	payload := make([]byte, 3000)
	for i := range payload {
		payload[i] = byte(i)
	}

	// run writes the samples to a fresh track and returns what the writer saw.
	var runB func(cd c28Codec, in initCfg, splitter bool, n int, sampleAt func(i int) c28Sample, binding string) ([]c28Pkt, []c28Pkt)
	run := func(cd c28Codec, in initCfg, splitter bool, n int, sampleAt func(i int) c28Sample) []c28Pkt {
		first, _ := runB(cd, in, splitter, n, sampleAt, "")

		return first
	}
	// runB: as run, with a binding shape; returns what the first and (if any) the second writer saw.
	runB = func(cd c28Codec, in initCfg, splitter bool, n int, sampleAt func(i int) c28Sample, binding string) ([]c28Pkt, []c28Pkt) {
		var opts []func(*TrackLocalStaticRTP)
		if splitter {
			opts = append(opts, WithPayloader(func(RTPCodecCapability) (rtp.Payloader, error) { return c28Splitter{}, nil }))
		}
		if in.ts != nil {
			opts = append(opts, WithRTPTimestamp(*in.ts))
		}
		if in.seq != nil {
			opts = append(opts, WithRTPSequenceNumber(*in.seq))
		}
		track, err := NewTrackLocalStaticSample(cd.cap, "id", "sid", opts...)
		if err != nil {
			vkit.Fatalf(t, "NewTrackLocalStaticSample: %v", err)
		}
		w := &c28Writer{cur: -1}
		ctx := &baseTrackLocalContext{
			id: "ctx", ssrc: 0x1234, writeStream: w,
			params: RTPParameters{Codecs: []RTPCodecParameters{{RTPCodecCapability: cd.cap, PayloadType: 100}}},
		}
		if _, err := track.Bind(ctx); err != nil {
			vkit.Fatalf(t, "Bind: %v", err)
		}
		w2 := &c28Writer{cur: -1}
		ctx2 := &baseTrackLocalContext{
			id: "ctx2", ssrc: 0x5678, writeStream: w2,
			params: RTPParameters{Codecs: []RTPCodecParameters{{RTPCodecCapability: cd.cap, PayloadType: 100}}},
		}
		switch binding {
		case "two", "second-fails":
			w2.fail = binding == "second-fails"
			if _, err := track.Bind(ctx2); err != nil {
				vkit.Fatalf(t, "Bind (second context): %v", err)
			}
		case "rebound":
			if err := track.Unbind(ctx); err != nil {
				vkit.Fatalf(t, "Unbind: %v", err)
			}
			if _, err := track.Bind(ctx); err != nil {
				vkit.Fatalf(t, "Bind (again): %v", err)
			}
		}
		for i := 0; i < n; i++ {
			s := sampleAt(i)
			w.cur, w2.cur = i, i
			if err := track.WriteSample(media.Sample{Data: payload[:s.Size], Duration: time.Duration(s.DurNs), PrevDroppedPackets: s.Dropped}); err != nil && binding != "second-fails" {
				vkit.Fatalf(t, "WriteSample: %v", err)
			}
			if i == 0 && binding == "second-after-first-sample" {
				if _, err := track.Bind(ctx2); err != nil {
					vkit.Fatalf(t, "Bind (second context, after the first sample): %v", err)
				}
			}
		}
		w.cur, w2.cur = -1, -1

		return w.pkts, w2.pkts
	}

	durations := func(rate uint32) []int64 {
		tick := (1_000_000_000 + int64(rate)/2) / int64(rate)
		third := (1_000_000_000 + 3*int64(rate)/2) / (3 * int64(rate))

		return []int64{0, tick, third, 20_000_000, 33_333_333, 1_000_000_000}
	}
	dropped := []uint16{0, 1, 3}

	// ---- part 1: every short sequence ----
	product := func(name string, sizes []int, minLen, maxLen int, inits []initCfg, splitter bool) {
		for _, cd := range codecs {
			durs := durations(cd.cap.ClockRate)
			alpha := len(durs) * len(sizes) * len(dropped)
			decode := func(v int) c28Sample {
				return c28Sample{DurNs: durs[v/(len(sizes)*len(dropped))], Size: sizes[v/len(dropped)%len(sizes)], Dropped: dropped[v%len(dropped)]}
			}
			for ii, in := range inits {
				for l := minLen; l <= maxLen; l++ {
					dims := make([]int, l)
					for i := range dims {
						dims[i] = alpha
					}
					vkit.Parallel(vkit.ProductSize(dims...), func(idx int) {
						seq := vkit.ProductIndex(idx, dims...)
						// the samples before the last one are the subject of a shorter sequence; all are
						// checked anyway (the reference is cumulative)
						at := func(i int) c28Sample { return decode(seq[i]) }
						cs := func() c28Case {
							out := c28Case{Codec: cd.name, Rate: cd.cap.ClockRate, InitTS: in.ts, InitSeq: in.seq}
							for i := range seq {
								out.Samples = append(out.Samples, at(i))
							}

							return out
						}
						c.Eval()
						var pkts []c28Pkt
						func() {
							defer func() {
								if r := recover(); r != nil {
									c.Violation("panic|"+vkit.PanicSite(), fmt.Sprintf("panic in code under test: %v (case %s)", r, vkit.Short(cs())), cs())
								}
							}()
							pkts = run(cd, in, splitter, l, at)
						}()
						if kind, text := c28Check(cd.cap.ClockRate, in.ts, l, at, pkts); kind != "" {
							c.Violation(kind, text+" — case "+vkit.Short(cs()), cs())
						}
						multi := false
						for k := 1; k < len(pkts); k++ {
							if pkts[k].sample == pkts[k-1].sample {
								multi = true
							}
						}
						if len(pkts) > 0 && l == maxLen && idx%997 == 0 {
							c.Distinct(fmt.Sprintf("%s|%s|init=%d|len=%d|multi-packet=%v", name, cd.name, ii, l, multi))
						}
						if (cd.split || splitter) && l == 1 && len(pkts) > 1 {
							c.Outcome(fmt.Sprintf("%s fragments a %d-byte sample into %d packets", cd.name, at(0).Size, len(pkts)))
						}
					})
				}
			}
		}
	}
	maxLen := c.Pick(3, 4)
	c.Set("max_sequence_length", maxLen)
	full := []int{1, 1200, 3000}
	product("codec-payloader", full, 1, 2, inits, false)
	product("seq", full, 1, 3, inits, true)
	if maxLen > 3 {
		product("seq4", full, 4, maxLen, inits[1:2], true)
	}
	product("seq+empty", []int{0, 1, 1200, 3000}, 1, maxLen-1, inits[:2], true)

	// ---- part 1b: the same sequences (length <= 2, thorough 3) on tracks bound in other ways ----
	bindLen := c.Pick(2, 3)
	c.Set("binding_shapes", c28Bindings)
	for _, binding := range c28Bindings {
		for _, cd := range codecs {
			durs := durations(cd.cap.ClockRate)
			alpha := len(durs) * len(full) * len(dropped)
			decode := func(v int) c28Sample {
				return c28Sample{DurNs: durs[v/(len(full)*len(dropped))], Size: full[v/len(dropped)%len(full)], Dropped: dropped[v%len(dropped)]}
			}
			for ii, in := range inits {
				for l := 1; l <= bindLen; l++ {
					dims := make([]int, l)
					for i := range dims {
						dims[i] = alpha
					}
					vkit.Parallel(vkit.ProductSize(dims...), func(idx int) {
						seq := vkit.ProductIndex(idx, dims...)
						at := func(i int) c28Sample { return decode(seq[i]) }
						cs := func() c28Case {
							out := c28Case{Codec: cd.name, Rate: cd.cap.ClockRate, InitTS: in.ts, InitSeq: in.seq, Binding: binding}
							for i := range seq {
								out.Samples = append(out.Samples, at(i))
							}

							return out
						}
						c.Eval()
						var first, second []c28Pkt
						func() {
							defer func() {
								if r := recover(); r != nil {
									c.Violation("panic|"+vkit.PanicSite(), fmt.Sprintf("panic in code under test: %v (case %s)", r, vkit.Short(cs())), cs())
								}
							}()
							first, second = runB(cd, in, true, l, at, binding)
						}()
						if kind, text := c28Check(cd.cap.ClockRate, in.ts, l, at, first); kind != "" {
							c.Violation("binding="+binding+"|"+kind, text+" — case "+vkit.Short(cs()), cs())
						}
						if binding != "rebound" && binding != "second-fails" {
							// the second context gets exactly the packets of the samples written while it was bound
							var want []c28Pkt
							for _, p := range first {
								if binding == "two" || p.sample >= 1 {
									want = append(want, p)
								}
							}
							same := len(want) == len(second)
							for k := 0; same && k < len(want); k++ {
								same = want[k] == second[k]
							}
							if !same {
								c.Violation("binding="+binding+"|second-context-sees-other-packets",
									fmt.Sprintf("the second bound context recorded %d packets that are not the %d packets the first one recorded for the same samples — case %s", len(second), len(want), vkit.Short(cs())), cs())
							}
						}
						if len(first) > 0 && l == bindLen && idx%97 == 0 {
							c.Distinct(fmt.Sprintf("binding=%s|%s|init=%d|len=%d|second-writer-packets=%v", binding, cd.name, ii, l, len(second) > 0))
						}
					})
				}
			}
		}
	}

	// ---- part 2: long periodic runs (drift) ----
	long := c.Pick(10_000, 100_000)
	c.Set("periodic_run_length", long)
	type pattern struct {
		name  string
		every int
		n     uint16
	}
	patterns := []pattern{{"no drops", 0, 0}, {"1 dropped every 7th", 7, 1}, {"3 dropped every 1000th", 1000, 3}}
	type job struct {
		cd  c28Codec
		in  initCfg
		dur int64
		pat pattern
	}
	var jobs []job
	for _, cd := range codecs {
		r := int64(cd.cap.ClockRate)
		durs := []int64{
			(1_000_000_000 + 3*r/2) / (3 * r), // 1/3 tick
			(1_000_000_000 + r/2) / r,         // 1 tick (rounded to ns)
			33_333_333, 33_366_667,            // 30 fps, 29.97 fps
			20_000_000, 21_333_333, 2_500_000, // audio frames
			1_000_000_000 / 3,
		}
		for _, in := range inits {
			for _, d := range durs {
				for _, p := range patterns {
					jobs = append(jobs, job{cd, in, d, p})
				}
			}
		}
	}
	c.Set("periodic_runs", len(jobs))
	vkit.Parallel(len(jobs), func(j int) {
		jb := jobs[j]
		at := func(i int) c28Sample {
			s := c28Sample{DurNs: jb.dur, Size: 1}
			if jb.pat.every > 0 && i%jb.pat.every == jb.pat.every-1 {
				s.Dropped = jb.pat.n
			}

			return s
		}
		c.Eval()
		cs := c28Case{Codec: jb.cd.name, Rate: jb.cd.cap.ClockRate, InitTS: jb.in.ts, InitSeq: jb.in.seq,
			Periodic: fmt.Sprintf("%d samples of %d ns, %s", long, jb.dur, jb.pat.name)}
		pkts := run(jb.cd, jb.in, false, long, at)
		if kind, text := c28Check(jb.cd.cap.ClockRate, jb.in.ts, long, at, pkts); kind != "" {
			c.Violation("periodic|"+kind, text+" — case "+vkit.Short(cs), cs)
		}
		// the same run while a second bound context fails every write: the healthy one must not drift
		c.Eval()
		csF := cs
		csF.Binding = "second-fails"
		healthy, _ := runB(jb.cd, jb.in, false, long, at, "second-fails")
		if kind, text := c28Check(jb.cd.cap.ClockRate, jb.in.ts, long, at, healthy); kind != "" {
			c.Violation("periodic|binding=second-fails|"+kind, text+" — case "+vkit.Short(csF), csF)
		}
		if len(pkts) == long {
			c.Distinct(fmt.Sprintf("periodic|%s|dur=%dns|%s", jb.cd.name, jb.dur, jb.pat.name))
		}
	})

	c.Sample(c28Case{Codec: "VP8", Rate: 90000, InitTS: u32(1<<32 - 2), InitSeq: u16(65534), Samples: []c28Sample{{33_333_333, 3000, 0}, {3704, 1, 3}, {1_000_000_000, 1200, 1}}})
	c.Sample(c28Case{Codec: "opus", Rate: 48000, Periodic: "10000 samples of 6944 ns, 1 dropped every 7th"})
}
