package webrtc

// Shared machinery of the signaling-history checks (C01, C02, C03):
// histories of SetLocalDescription / SetRemoteDescription calls are replayed on
// fresh real PeerConnections and compared step by step with an independent JSEP
// reference model. Successor = replay of the history on a fresh object + one call.

import (
	"encoding/json"
	"fmt"
	"runtime"
	"sort"
	"strings"
	"sync"
	"testing"
	"time"

	"github.com/pion/webrtc/v4/internal/verif/vkit"
)

// ---- operations ---------------------------------------------------------------------------

type vhOp struct {
	Side string `json:"side"` // "L" SetLocalDescription, "R" SetRemoteDescription
	Type string `json:"type"` // offer, pranswer, answer, rollback
	// Src selects the description text:
	//  local : fresh (CreateOffer/CreateAnswer now), stale (first one ever created of that kind),
	//          empty (SDP ""), garbage
	//  remote: pool (statically generated peer offer/answer), pool2 (a second, different peer offer),
	//          empty, garbage, or a named mutation "mut:<name>" of the pool text
	Src string `json:"src"`
}

func (o vhOp) String() string { return fmt.Sprintf("S%s(%s,%s)", o.Side, o.Type, o.Src) }

func vhSDPType(s string) SDPType {
	switch s {
	case "offer":
		return SDPTypeOffer
	case "pranswer":
		return SDPTypePranswer
	case "answer":
		return SDPTypeAnswer
	case "rollback":
		return SDPTypeRollback
	}

	return SDPType(0)
}

// ---- static description pool ---------------------------------------------------------------

type vhPool struct {
	offer   string // a peer's offer (audio + application)
	offer2  string // a different peer offer (audio + video + application)
	answer  string // a peer's answer to an offer shaped like X's offers
	answer2 string
}

var (
	vhPoolOnce sync.Once
	vhPoolVal  *vhPool
)

// vhNewX builds the PeerConnection under test: one audio transceiver and one data channel.
func vhNewX(tb testing.TB, cfg ...*Configuration) *PeerConnection {
	tb.Helper()
	var xcfg *Configuration
	if len(cfg) > 0 {
		xcfg = cfg[0]
	}
	pc := vNewPC(tb, vNewAPI(tb, vAPIOpts{virtualNet: true}), xcfg)
	if _, err := pc.AddTransceiverFromKind(RTPCodecTypeAudio); err != nil {
		vkit.Fatalf(tb, "AddTransceiverFromKind: %v", err)
	}
	if _, err := pc.CreateDataChannel("x", nil); err != nil {
		vkit.Fatalf(tb, "CreateDataChannel: %v", err)
	}

	return pc
}

func vhGetPool(tb testing.TB) *vhPool {
	tb.Helper()
	vhPoolOnce.Do(func() {
		p := &vhPool{}
		mk := func(video bool) string {
			h := vNewPC(tb, vNewAPI(tb, vAPIOpts{virtualNet: true}), nil)
			defer func() { _ = h.Close() }()
			if _, err := h.AddTransceiverFromKind(RTPCodecTypeAudio); err != nil {
				vkit.Fatalf(tb, "pool: %v", err)
			}
			if video {
				if _, err := h.AddTransceiverFromKind(RTPCodecTypeVideo); err != nil {
					vkit.Fatalf(tb, "pool: %v", err)
				}
			}
			if _, err := h.CreateDataChannel("p", nil); err != nil {
				vkit.Fatalf(tb, "pool: %v", err)
			}
			o, err := h.CreateOffer(nil)
			if err != nil {
				vkit.Fatalf(tb, "pool offer: %v", err)
			}

			return o.SDP
		}
		p.offer = mk(false)
		p.offer2 = mk(true)
		ans := func() string {
			x0 := vhNewX(tb)
			defer func() { _ = x0.Close() }()
			o, err := x0.CreateOffer(nil)
			if err != nil {
				vkit.Fatalf(tb, "pool x0 offer: %v", err)
			}
			h := vNewPC(tb, vNewAPI(tb, vAPIOpts{virtualNet: true}), nil)
			defer func() { _ = h.Close() }()
			if err = h.SetRemoteDescription(o); err != nil {
				vkit.Fatalf(tb, "pool SRD: %v", err)
			}
			a, err := h.CreateAnswer(nil)
			if err != nil {
				vkit.Fatalf(tb, "pool answer: %v", err)
			}

			return a.SDP
		}
		p.answer = ans()
		p.answer2 = ans()
		vhPoolVal = p
	})

	return vhPoolVal
}

// vhMutations are invalid variants of a valid remote description (C03).
var vhMutations = []string{
	"drop-mid-0", "drop-mid-last", "drop-ufrag", "drop-pwd", "drop-fingerprint", "fingerprint-1-field",
	"fingerprint-3-fields", "payload-non-numeric", "fmtp-apt-x", "extmap-malformed", "candidate-invalid",
	"truncated-mid-line", "no-version-line", "empty-ufrag",
}

// vhTwoTracks adds a second a=ssrc / msid pair (another track) to the first audio or video section.
func vhTwoTracks(sdpText string) string {
	lines := strings.Split(strings.TrimRight(sdpText, "\r\n"), "\r\n")
	var out []string
	done, in := false, false
	for i, l := range lines {
		if strings.HasPrefix(l, "m=") {
			in = strings.HasPrefix(l, "m=audio") || strings.HasPrefix(l, "m=video")
		}
		out = append(out, l)
		last := i+1 == len(lines) || strings.HasPrefix(lines[i+1], "m=")
		if in && !done && last {
			out = append(out, "a=ssrc:777001 cname:vh-two", "a=ssrc:777001 msid:vh-stream-a vh-track-a",
				"a=ssrc:777002 cname:vh-two", "a=ssrc:777002 msid:vh-stream-b vh-track-b")
			done = true
		}
	}

	return strings.Join(out, "\r\n") + "\r\n"
}

func vhMutate(sdpText, name string) string {
	lines := strings.Split(strings.TrimRight(sdpText, "\r\n"), "\r\n")
	var out []string
	midSeen := 0
	midTotal := 0
	for _, l := range lines {
		if strings.HasPrefix(l, "a=mid:") {
			midTotal++
		}
	}
	firstMedia := true
	for _, l := range lines {
		switch {
		case name == "drop-mid-0" && strings.HasPrefix(l, "a=mid:"):
			midSeen++
			if midSeen == 1 {
				continue
			}
		case name == "drop-mid-last" && strings.HasPrefix(l, "a=mid:"):
			midSeen++
			if midSeen == midTotal {
				continue
			}
		case name == "drop-ufrag" && strings.HasPrefix(l, "a=ice-ufrag:"):
			continue
		case name == "empty-ufrag" && strings.HasPrefix(l, "a=ice-ufrag:"):
			l = "a=ice-ufrag:"
		case name == "drop-pwd" && strings.HasPrefix(l, "a=ice-pwd:"):
			continue
		case name == "drop-fingerprint" && strings.HasPrefix(l, "a=fingerprint:"):
			continue
		case name == "fingerprint-1-field" && strings.HasPrefix(l, "a=fingerprint:"):
			l = "a=fingerprint:sha-256"
		case name == "fingerprint-3-fields" && strings.HasPrefix(l, "a=fingerprint:"):
			l += " extra"
		case name == "payload-non-numeric" && strings.HasPrefix(l, "m=audio "):
			l = strings.Replace(l, " 111", " x11", 1)
		case name == "fmtp-apt-x" && strings.HasPrefix(l, "m=") && firstMedia:
			firstMedia = false
			out = append(out, l)
			l = "a=fmtp:111 apt=x"
		case name == "extmap-malformed" && strings.HasPrefix(l, "a=extmap:"):
			l = "a=extmap:notanumber"
		case name == "truncated-mid-line" && strings.HasPrefix(l, "a=mid:"):
			l = "a=mid:"
		case name == "no-version-line" && strings.HasPrefix(l, "v="):
			continue
		}
		out = append(out, l)
		if name == "candidate-invalid" && strings.HasPrefix(l, "a=mid:") {
			out = append(out, "a=candidate:foundation 1 udp")
		}
	}

	return strings.Join(out, "\r\n") + "\r\n"
}

// ---- reference model ----------------------------------------------------------------------

type vhDesc struct {
	Type string
	SDP  string // normalised
}

type vhModel struct {
	State                                                        string
	PendingLocal, PendingRemote, CurrentLocal, CurrentRemote     *vhDesc
	Events                                                       []string // expected signaling-state events (states after successful calls)
	firstOffer, firstAnswer, lastOfferCreated, lastAnswerCreated string
}

// vhEdges is the union of the transitions JSEP (RFC 8829) / W3C webrtc-pc 4.3.1 allow.
var vhEdges = map[string]string{
	"stable|L|offer":                  "have-local-offer",
	"stable|R|offer":                  "have-remote-offer",
	"have-local-offer|L|offer":        "have-local-offer",
	"have-local-offer|R|answer":       "stable",
	"have-local-offer|R|pranswer":     "have-remote-pranswer",
	"have-local-offer|L|rollback":     "stable",
	"have-remote-offer|R|offer":       "have-remote-offer",
	"have-remote-offer|L|answer":      "stable",
	"have-remote-offer|L|pranswer":    "have-local-pranswer",
	"have-remote-offer|R|rollback":    "stable",
	"have-local-pranswer|L|pranswer":  "have-local-pranswer",
	"have-local-pranswer|L|answer":    "stable",
	"have-local-pranswer|L|rollback":  "stable",
	"have-remote-pranswer|R|pranswer": "have-remote-pranswer",
	"have-remote-pranswer|R|answer":   "stable",
	"have-remote-pranswer|R|rollback": "stable",
}

func vhNorm(s string) string {
	var out []string
	for _, l := range strings.Split(s, "\n") {
		l = strings.TrimRight(l, "\r")
		if l == "" || strings.HasPrefix(l, "a=candidate:") || l == "a=end-of-candidates" {
			continue
		}
		out = append(out, l)
	}

	return strings.Join(out, "\n")
}

func vhDescOf(d *SessionDescription) *vhDesc {
	if d == nil {
		return nil
	}

	return &vhDesc{Type: d.Type.String(), SDP: vhNorm(d.SDP)}
}

func vhEq(a, b *vhDesc) bool {
	if a == nil || b == nil {
		return a == b
	}

	return a.Type == b.Type && a.SDP == b.SDP
}

func vhShow(d *vhDesc) string {
	if d == nil {
		return "nil"
	}

	return fmt.Sprintf("%s/%dB/%08x", d.Type, len(d.SDP), vhHash(d.SDP))
}

func vhHash(s string) uint32 {
	h := uint32(2166136261)
	for i := 0; i < len(s); i++ {
		h ^= uint32(s[i])
		h *= 16777619
	}

	return h
}

// apply updates the model for a SUCCESSFUL call.
func (m *vhModel) apply(op vhOp, sdpText string) {
	d := &vhDesc{Type: op.Type, SDP: vhNorm(sdpText)}
	target := vhEdges[m.State+"|"+op.Side+"|"+op.Type]
	switch {
	case op.Type == "rollback":
		m.PendingLocal, m.PendingRemote = nil, nil
	case op.Type == "offer" && op.Side == "L":
		m.PendingLocal = d
	case op.Type == "offer" && op.Side == "R":
		m.PendingRemote = d
	case op.Type == "pranswer" && op.Side == "L":
		m.PendingLocal = d
	case op.Type == "pranswer" && op.Side == "R":
		m.PendingRemote = d
	case op.Type == "answer" && op.Side == "L":
		// the pending remote description is the offer (a local pranswer never replaces it)
		m.CurrentLocal, m.CurrentRemote = d, m.PendingRemote
		m.PendingLocal, m.PendingRemote = nil, nil
	case op.Type == "answer" && op.Side == "R":
		m.CurrentRemote, m.CurrentLocal = d, m.PendingLocal
		m.PendingLocal, m.PendingRemote = nil, nil
	}
	if target != "" {
		m.State = target
	}
	m.Events = append(m.Events, m.State)
}

// ---- one replayed history -------------------------------------------------------------------

type vhFinding struct {
	Prop string // C01, C02, C03
	Key  string
	What string
}

type vhStepObs struct {
	Op       vhOp
	Err      string
	State    string
	PL, PR   *vhDesc
	CL, CR   *vhDesc
	SDPUsed  string
	ErrClass string
}

type vhRun struct {
	Steps    []vhStepObs
	Findings []vhFinding
	Model    vhModel
	Canon    string
}

type vhEvents struct {
	mu     sync.Mutex
	byStep map[int][]string
}

func vhErrClass(err error) string {
	if err == nil {
		return "ok"
	}
	s := err.Error()
	for _, k := range []string{
		"invalid proposed signaling state transition", "can't rollback from stable", "does not match", "mid", "ice-ufrag", "ice-pwd",
		"fingerprint", "invalid SDP type", "sdp:", "codec", "candidate", "connection closed", "EOF", "strconv.Parse", "extmap",
	} {
		if strings.Contains(s, k) {
			return k
		}
	}
	if len(s) > 40 {
		s = s[:40]
	}

	return s
}

// vhReplay runs the history on a fresh PeerConnection and evaluates all oracles at every step.
func vhReplay(tb testing.TB, hist []vhOp, cfg ...*Configuration) *vhRun {
	tb.Helper()
	pool := vhGetPool(tb)
	x := vhNewX(tb, cfg...)
	run := &vhRun{Model: vhModel{State: "stable"}}
	ev := &vhEvents{byStep: map[int][]string{}}
	curStep := -1
	var stepMu sync.Mutex
	setHandler := func(i int) {
		stepMu.Lock()
		curStep = i
		stepMu.Unlock()
		x.OnSignalingStateChange(func(s SignalingState) {
			ev.mu.Lock()
			ev.byStep[i] = append(ev.byStep[i], s.String())
			ev.mu.Unlock()
		})
	}
	_ = curStep
	add := func(prop, key, what string) {
		run.Findings = append(run.Findings, vhFinding{prop, key, what})
	}
	m := &run.Model
	for i, op := range hist {
		setHandler(i)
		before := *m
		// choose the description text
		var sdpText string
		switch {
		case op.Side == "L" && op.Src == "fresh" && op.Type == "offer":
			if d, err := x.CreateOffer(nil); err == nil {
				sdpText = d.SDP
				if m.firstOffer == "" {
					m.firstOffer = d.SDP
				}
				m.lastOfferCreated = d.SDP
			}
		case op.Side == "L" && op.Src == "fresh" && (op.Type == "answer" || op.Type == "pranswer"):
			if d, err := x.CreateAnswer(nil); err == nil {
				sdpText = d.SDP
				if m.firstAnswer == "" {
					m.firstAnswer = d.SDP
				}
				m.lastAnswerCreated = d.SDP
			}
		case op.Side == "L" && op.Src == "stale" && op.Type == "offer":
			sdpText = m.firstOffer
			if sdpText == "" {
				sdpText = pool.offer
			}
		case op.Side == "L" && op.Src == "stale":
			sdpText = m.firstAnswer
			if sdpText == "" {
				sdpText = pool.answer
			}
		case op.Src == "garbage":
			sdpText = "this is not sdp\r\n"
		case op.Side == "R" && op.Src == "pool" && op.Type == "offer":
			sdpText = pool.offer
		case op.Side == "R" && op.Src == "pool2" && op.Type == "offer":
			sdpText = pool.offer2
		case op.Side == "R" && op.Src == "pool":
			sdpText = pool.answer
		case op.Side == "R" && op.Src == "pool2":
			sdpText = pool.answer2
		case op.Side == "R" && strings.HasPrefix(op.Src, "twotracks+mut:"):
			// the peer's audio+video+application offer with a SECOND track announced in its first media section
			// (ordinary numeric mids), then one deviation
			sdpText = vhMutate(vhTwoTracks(pool.offer2), strings.TrimPrefix(op.Src, "twotracks+mut:"))
		case op.Side == "R" && strings.HasPrefix(op.Src, "mut:"):
			base := pool.answer
			if op.Type == "offer" {
				base = pool.offer
			}
			sdpText = vhMutate(base, strings.TrimPrefix(op.Src, "mut:"))
		case op.Src == "unrelated":
			sdpText = pool.offer2
		}
		desc := SessionDescription{Type: vhSDPType(op.Type), SDP: sdpText}
		var err error
		panicked := ""
		func() {
			defer func() {
				if r := recover(); r != nil {
					panicked = fmt.Sprint(r)
				}
			}()
			if op.Side == "L" {
				err = x.SetLocalDescription(desc)
			} else {
				err = x.SetRemoteDescription(desc)
			}
		}()
		obs := vhStepObs{
			Op: op, State: x.SignalingState().String(),
			PL: vhDescOf(x.PendingLocalDescription()), PR: vhDescOf(x.PendingRemoteDescription()),
			CL: vhDescOf(x.CurrentLocalDescription()), CR: vhDescOf(x.CurrentRemoteDescription()),
			ErrClass: vhErrClass(err),
		}
		if err != nil {
			obs.Err = err.Error()
		}
		run.Steps = append(run.Steps, obs)
		opKey := fmt.Sprintf("%s|%s|%s", before.State, op.Side, op.Type)
		if panicked != "" {
			add("C01", "panic|"+opKey, "panic: "+panicked)
			add("C03", "panic|"+opKey, "panic: "+panicked)

			break
		}
		ld, rd := vhDescOf(x.LocalDescription()), vhDescOf(x.RemoteDescription())
		wantLD, wantRD := obs.PL, obs.PR
		if wantLD == nil {
			wantLD = obs.CL
		}
		if wantRD == nil {
			wantRD = obs.CR
		}
		if !vhEq(ld, wantLD) {
			add("C01", "localdescription-getter|"+obs.State, fmt.Sprintf("after %v: LocalDescription()=%s but pending=%s current=%s", hist[:i+1], vhShow(ld), vhShow(obs.PL), vhShow(obs.CL)))
		}
		if !vhEq(rd, wantRD) {
			add("C01", "remotedescription-getter|"+obs.State, fmt.Sprintf("after %v: RemoteDescription()=%s but pending=%s current=%s", hist[:i+1], vhShow(rd), vhShow(obs.PR), vhShow(obs.CR)))
		}
		if obs.State == "stable" && (obs.PL != nil || obs.PR != nil) {
			add("C01", "pending-in-stable|"+opKey, fmt.Sprintf("after %v: state stable but pendingLocal=%s pendingRemote=%s", hist[:i+1], vhShow(obs.PL), vhShow(obs.PR)))
		}
		target, isEdge := vhEdges[opKey]
		if err == nil {
			if !isEdge {
				add("C01", "non-edge-succeeded|"+opKey, fmt.Sprintf("history %v: %s succeeded from %s, which is not a JSEP edge (new state %s)", hist[:i+1], op, before.State, obs.State))
				// continue with pion's view so later steps stay comparable
				m.State = obs.State
				m.PendingLocal, m.PendingRemote, m.CurrentLocal, m.CurrentRemote = obs.PL, obs.PR, obs.CL, obs.CR
				m.Events = append(m.Events, obs.State)
			} else {
				// W3C setLocalDescription: an empty sdp stands for the last created offer / answer (the harness passes
				// an empty text when CreateOffer / CreateAnswer itself failed in the state the history reached)
				wantText := sdpText
				if op.Side == "L" && sdpText == "" {
					if op.Type == "offer" {
						wantText = m.lastOfferCreated
					} else if op.Type == "answer" || op.Type == "pranswer" {
						wantText = m.lastAnswerCreated
					}
				}
				m.apply(op, wantText)
				if obs.State != target {
					add("C01", "wrong-target|"+opKey, fmt.Sprintf("history %v: %s from %s led to %s, want %s", hist[:i+1], op, before.State, obs.State, target))
				}
				what := func(name string, got, want *vhDesc) {
					if !vhEq(got, want) {
						prop := "C01"
						if op.Type == "rollback" {
							prop = "C02"
						}
						add(prop, "descriptions|"+name+"|"+opKey, fmt.Sprintf("history %v: after %s, %s is %s, want %s", hist[:i+1], op, name, vhShow(got), vhShow(want)))
					}
				}
				what("pendingLocal", obs.PL, m.PendingLocal)
				what("pendingRemote", obs.PR, m.PendingRemote)
				what("currentLocal", obs.CL, m.CurrentLocal)
				what("currentRemote", obs.CR, m.CurrentRemote)
				if op.Type == "rollback" && obs.State != "stable" {
					add("C02", "rollback-not-stable|"+opKey, fmt.Sprintf("history %v: successful rollback left state %s", hist[:i+1], obs.State))
				}
				m.State = obs.State
			}
		} else {
			// rejected: nothing may have changed (C03)
			chg := []string{}
			if obs.State != before.State {
				chg = append(chg, "state:"+before.State+"->"+obs.State)
			}
			if !vhEq(obs.PL, before.PendingLocal) {
				chg = append(chg, "pendingLocal")
			}
			if !vhEq(obs.PR, before.PendingRemote) {
				chg = append(chg, "pendingRemote")
			}
			if !vhEq(obs.CL, before.CurrentLocal) {
				chg = append(chg, "currentLocal")
			}
			if !vhEq(obs.CR, before.CurrentRemote) {
				chg = append(chg, "currentRemote")
			}
			if len(chg) > 0 {
				add("C03", fmt.Sprintf("state-changed-on-error|S%s|err=%s", op.Side, obs.ErrClass),
					fmt.Sprintf("history %v: %s returned error %q but changed %v", hist[:i+1], op, obs.Err, chg))
				// resynchronise the model with pion so that later steps are judged on their own
				m.State = obs.State
				m.PendingLocal, m.PendingRemote, m.CurrentLocal, m.CurrentRemote = obs.PL, obs.PR, obs.CL, obs.CR
			}
			// C02: the legal rollbacks must succeed
			if op.Type == "rollback" && isEdge && target == "stable" {
				add("C02", "rollback-rejected|"+opKey, fmt.Sprintf("history %v: %s from %s was rejected: %s", hist[:i+1], op, before.State, obs.Err))
			}
		}
		if op.Type == "rollback" && before.State == "stable" && err == nil {
			add("C02", "rollback-from-stable-accepted", fmt.Sprintf("history %v: rollback from stable succeeded", hist[:i+1]))
		}
		if err != nil && strings.Contains(obs.Err, "connection closed") {
			break
		}
	}
	// events: wait (liveness guard only) for the events of the successful steps, then look for events of rejected steps
	wantEvents := 0
	okStep := map[int]bool{}
	for i, s := range run.Steps {
		if s.Err == "" {
			okStep[i] = true
			wantEvents++
		}
	}
	deadline := time.Now().Add(30 * time.Second)
	for {
		ev.mu.Lock()
		n := 0
		for i, l := range ev.byStep {
			if okStep[i] {
				n += len(l)
			}
		}
		ev.mu.Unlock()
		if n >= wantEvents || time.Now().After(deadline) {
			break
		}
		runtime.Gosched()
	}
	for k := 0; k < 20; k++ {
		runtime.Gosched()
	}
	ev.mu.Lock()
	for i, l := range ev.byStep {
		if i < len(run.Steps) && !okStep[i] && len(l) > 0 {
			s := run.Steps[i]
			add("C03", fmt.Sprintf("event-on-error|S%s|err=%s", s.Op.Side, s.ErrClass),
				fmt.Sprintf("history %v: step %d (%s) returned error %q but a signaling-state event %v was emitted", hist, i, s.Op, s.Err, l))
		}
		if i < len(run.Steps) && okStep[i] {
			for _, v := range l {
				if v != run.Steps[i].State {
					add("C01", "event-value|"+run.Steps[i].Op.Side+"|"+run.Steps[i].Op.Type, fmt.Sprintf("history %v: step %d event %s but state became %s", hist, i, v, run.Steps[i].State))
				}
			}
		}
	}
	ev.mu.Unlock()
	// canonical state (property-relevant fields only): signaling state, which descriptions exist and
	// of which type, whether created offers/answers exist and whether the stale one differs from the last
	ty := func(d *vhDesc) string {
		if d == nil {
			return "-"
		}

		return d.Type
	}
	run.Canon = fmt.Sprintf("%s|pl=%s|pr=%s|cl=%s|cr=%s|o=%v/%v|a=%v/%v", m.State, ty(m.PendingLocal), ty(m.PendingRemote), ty(m.CurrentLocal), ty(m.CurrentRemote),
		m.firstOffer != "", m.firstOffer != m.lastOfferCreated, m.firstAnswer != "", m.firstAnswer != m.lastAnswerCreated)
	_ = x.Close()

	return run
}

// vhBFS explores histories over the alphabet breadth-first, merging histories that reach the same
// canonical state (merge=true) or exploring the full tree (merge=false), to the given depth.
// visit is called for every replayed history.
func vhBFS(tb testing.TB, c *vkit.Check, alphabet []vhOp, depth int, merge bool, visit func(hist []vhOp, r *vhRun)) (reps map[string][]vhOp) {
	tb.Helper()
	reps = map[string][]vhOp{}
	frontier := [][]vhOp{{}}
	r0 := vhReplay(tb, nil)
	reps[r0.Canon] = []vhOp{}
	c.State(r0.Canon)
	var mu sync.Mutex
	for d := 1; d <= depth && len(frontier) > 0; d++ {
		type job struct{ hist []vhOp }
		var jobs []job
		for _, h := range frontier {
			for _, op := range alphabet {
				nh := append(append([]vhOp{}, h...), op)
				jobs = append(jobs, job{nh})
			}
		}
		results := make([]*vhRun, len(jobs))
		vkit.Parallel(len(jobs), func(i int) {
			results[i] = vhReplay(tb, jobs[i].hist)
			c.Eval()
			c.Validated()
			c.Transition()
		})
		var next [][]vhOp
		for i, r := range results {
			visit(jobs[i].hist, r)
			mu.Lock()
			if _, seen := reps[r.Canon]; !seen {
				reps[r.Canon] = jobs[i].hist
				c.State(r.Canon)
				next = append(next, jobs[i].hist)
			} else if !merge {
				next = append(next, jobs[i].hist)
			}
			mu.Unlock()
		}
		frontier = next
	}

	return reps
}

func vhAlphabetBase() []vhOp {
	return []vhOp{
		{"L", "offer", "fresh"}, {"R", "offer", "pool"}, {"L", "answer", "fresh"}, {"R", "answer", "pool"},
		{"L", "pranswer", "fresh"}, {"R", "pranswer", "pool"}, {"L", "rollback", "empty"}, {"R", "rollback", "empty"},
		{"L", "offer", "stale"}, {"L", "answer", "stale"}, {"R", "offer", "pool2"}, {"R", "answer", "pool2"},
		{"L", "pranswer", "stale"},
	}
}

func vhReport(c *vkit.Check, prop string, hist []vhOp, r *vhRun) {
	for _, f := range r.Findings {
		if f.Prop == prop {
			c.Violation(f.Key, f.What, map[string]any{"history": hist})
		}
	}
}

func vhReplayMode(t *testing.T, c *vkit.Check, prop string) bool {
	raw, ok := c.ReplayCase()
	if !ok {
		return false
	}
	var rc struct {
		History []vhOp `json:"history"`
	}
	if err := json.Unmarshal(raw, &rc); err != nil {
		vkit.Fatalf(t, "replay file: %v", err)
	}
	r := vhReplay(t, rc.History)
	c.Eval()
	c.State(r.Canon)
	c.Transition()
	c.Validated()
	c.Distinct(r.Canon)
	c.Distinct("replay")
	vhReport(c, prop, rc.History, r)
	c.Sample(map[string]any{"history": fmt.Sprint(rc.History), "steps": r.Steps})

	return true
}

// vhSortedReps returns the canonical states of reps ordered by (history length, canonical text):
// a deterministic iteration order with the shortest witnesses first.
func vhSortedReps(reps map[string][]vhOp) []string {
	keys := make([]string, 0, len(reps))
	for k := range reps {
		keys = append(keys, k)
	}
	sort.Slice(keys, func(i, j int) bool {
		if len(reps[keys[i]]) != len(reps[keys[j]]) {
			return len(reps[keys[i]]) < len(reps[keys[j]])
		}

		return keys[i] < keys[j]
	})

	return keys
}
