package webrtc

// vAns — shared helpers of the answer checks C07 (answer mirrors the offer's
// m-sections), C08 (legal answer directions) and C13 (complementary roles):
// a plain-text writer for synthetic remote offers that, unlike vScanWriteOffer,
// can write non-RTP media types, sections without a direction attribute, any
// a=setup value (or none) and a=ice-lite; the RFC 3264 section 6.1 table; small
// PeerConnection helpers. Nothing here uses github.com/pion/sdp.

import (
	"strconv"
	"strings"
	"testing"
	"time"

	"github.com/pion/transport/v4/vnet"
	"github.com/pion/webrtc/v4/internal/verif/vkit"
)

// vAnsSection is one m-section of a synthetic offer.
type vAnsSection struct {
	Media  string            `json:"media"` // audio video application text message
	Mid    string            `json:"mid"`
	Dir    string            `json:"dir"` // "" = no direction attribute
	Codecs []vScanOfferCodec `json:"codecs,omitempty"`
	Extra  []string          `json:"extra,omitempty"` // further attribute lines of the section ("a=...")
}

// vAnsOfferOpts are the session-level knobs of a synthetic offer.
type vAnsOfferOpts struct {
	Setup   string // "" = actpass; "absent" = no a=setup line at all
	ICELite bool
	Version int // o= session version
	Ufrag   string
}

// vAnsWriteOffer renders a complete remote offer that SetRemoteDescription accepts.
func vAnsWriteOffer(secs []vAnsSection, o vAnsOfferOpts) string {
	var b strings.Builder
	b.WriteString("v=0\r\no=- 4611731400430051336 " + strconv.Itoa(2+o.Version) + " IN IP4 127.0.0.1\r\ns=-\r\nt=0 0\r\n")
	b.WriteString("a=fingerprint:sha-256 0F:74:31:25:CB:A2:13:EC:28:6F:6D:2C:61:FF:5D:C2:BC:B9:DB:3D:98:14:8D:1A:BB:EA:33:0C:A4:60:A8:8E\r\n")
	if o.ICELite {
		b.WriteString("a=ice-lite\r\n")
	}
	mids := make([]string, 0, len(secs))
	for _, s := range secs {
		mids = append(mids, s.Mid)
	}
	b.WriteString("a=group:BUNDLE " + strings.Join(mids, " ") + "\r\n")
	ufrag := o.Ufrag
	if ufrag == "" {
		ufrag = "vAnsUfrag"
	}
	for _, s := range secs {
		switch s.Media {
		case "application":
			b.WriteString("m=application 9 UDP/DTLS/SCTP webrtc-datachannel\r\n")
		case "message":
			b.WriteString("m=message 9 TCP/MSRP *\r\n")
		default:
			b.WriteString("m=" + s.Media + " 9 UDP/TLS/RTP/SAVPF")
			for _, c := range s.Codecs {
				b.WriteString(" " + strconv.Itoa(c.PT))
			}
			b.WriteString("\r\n")
		}
		b.WriteString("c=IN IP4 0.0.0.0\r\n")
		switch o.Setup {
		case "":
			b.WriteString("a=setup:actpass\r\n")
		case "absent":
		default:
			b.WriteString("a=setup:" + o.Setup + "\r\n")
		}
		b.WriteString("a=mid:" + s.Mid + "\r\n")
		for _, x := range s.Extra {
			b.WriteString(x + "\r\n")
		}
		b.WriteString("a=ice-ufrag:" + ufrag + "\r\na=ice-pwd:vAnsPasswordvAnsPassword0000\r\n")
		switch s.Media {
		case "application":
			b.WriteString("a=sctp-port:5000\r\n")
		case "message":
			b.WriteString("a=accept-types:text/plain\r\n")
		default:
			b.WriteString("a=rtcp-mux\r\na=rtcp-rsize\r\n")
			for _, c := range s.Codecs {
				b.WriteString("a=rtpmap:" + strconv.Itoa(c.PT) + " " + c.Name + "/" + strconv.FormatUint(uint64(c.Clock), 10))
				if c.Ch != 0 {
					b.WriteString("/" + strconv.Itoa(int(c.Ch)))
				}
				b.WriteString("\r\n")
				for _, fb := range c.FB {
					b.WriteString("a=rtcp-fb:" + strconv.Itoa(c.PT) + " " + fb + "\r\n")
				}
				if c.Fmtp != "" {
					b.WriteString("a=fmtp:" + strconv.Itoa(c.PT) + " " + c.Fmtp + "\r\n")
				}
			}
		}
		if s.Dir != "" {
			b.WriteString("a=" + s.Dir + "\r\n")
		}
	}

	return b.String()
}

var vAnsDirs = []string{"sendrecv", "sendonly", "recvonly", "inactive"}

// vAnsLegalAnswerDir is the table of RFC 3264 section 6.1: which answer
// directions are permitted for an offered direction. An absent attribute means
// sendrecv (RFC 4566 section 6).
func vAnsLegalAnswerDir(offered, answered string) bool {
	if offered == "" {
		offered = "sendrecv"
	}
	if answered == "" {
		answered = "sendrecv"
	}
	switch offered {
	case "sendrecv":
		return answered == "sendrecv" || answered == "sendonly" || answered == "recvonly" || answered == "inactive"
	case "sendonly":
		return answered == "recvonly" || answered == "inactive"
	case "recvonly":
		return answered == "sendonly" || answered == "inactive"
	case "inactive":
		return answered == "inactive"
	}

	return false
}

// vAnsSectionAttr returns the values of attribute key ("setup", ...) of a scanned section.
func vAnsSectionAttr(s *vScanSection, key string) []string {
	var out []string
	for _, l := range s.Lines {
		if l == "a="+key {
			out = append(out, "")
		} else if strings.HasPrefix(l, "a="+key+":") {
			out = append(out, l[len(key)+3:])
		}
	}

	return out
}

// vAnsSessionHas reports whether the session part has the attribute line a=<key>[:...].
func vAnsSessionHas(d vScanDesc, key string) bool {
	for _, l := range d.Session {
		if l == "a="+key || strings.HasPrefix(l, "a="+key+":") {
			return true
		}
	}

	return false
}

// vAnsOfflineNet makes creating the ICE agent not look at the host's interfaces.
func vAnsOfflineNet(s *SettingEngine) {
	if n, err := vnet.NewNet(&vnet.NetConfig{}); err == nil {
		s.SetNet(n)
	}
}

func vAnsKind(media string) RTPCodecType {
	switch media {
	case "audio":
		return RTPCodecTypeAudio
	case "video":
		return RTPCodecTypeVideo
	}

	return RTPCodecType(0)
}

// vAnsTrack creates a local track of the kind (opus / VP8).
func vAnsTrack(tb testing.TB, kind RTPCodecType, id string) *TrackLocalStaticSample {
	tb.Helper()
	capab := RTPCodecCapability{MimeType: MimeTypeOpus, ClockRate: 48000, Channels: 2}
	if kind == RTPCodecTypeVideo {
		capab = RTPCodecCapability{MimeType: MimeTypeVP8, ClockRate: 90000}
	}
	tr, err := NewTrackLocalStaticSample(capab, "t"+id, "s"+id)
	if err != nil {
		vkit.Fatalf(tb, "NewTrackLocalStaticSample: %v", err)
	}

	return tr
}

// vAnsWaitFor polls cond; the deadline is a liveness guard only (machinery error, never a violation).
func vAnsWaitFor(tb testing.TB, what string, cond func() bool) {
	tb.Helper()
	deadline := time.Now().Add(60 * time.Second)
	for i := 0; !cond(); i++ {
		if time.Now().After(deadline) {
			vkit.Fatalf(tb, "liveness guard: %s did not happen within 60 s", what)
		}
		if i < 100 {
			time.Sleep(50 * time.Microsecond)
		} else {
			time.Sleep(2 * time.Millisecond)
		}
	}
}

// vAnsDirOf renders the direction of a scanned section ("" -> "absent").
func vAnsDirOf(s *vScanSection) string {
	if s.Direction == "" {
		return "absent"
	}

	return s.Direction
}
