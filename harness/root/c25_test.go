package webrtc

// C25 — ICE candidates round-trip through their signaling form.
//
// Bounded exhaustive enumeration of candidate tuples (type x protocol x
// address form x port x priority x component x foundation x TCP type x
// related address x extension list). Each tuple is turned into an
// ICECandidate the two ways pion does it (from an ice.Candidate built with
// the ice constructors + AddExtension, and from a candidate line parsed by
// ice.UnmarshalCandidate), then:
//   A. c.ToJSON() must be accepted by AddICECandidate on a PeerConnection with
//      an applied remote description, and its candidate string must parse back
//      (ice.UnmarshalCandidate, and an own tokenizer) to the tuple's
//      foundation, component, protocol, priority, address, port, type, related
//      address/port, TCP type and ordered extension list;
//   B. with a unique port per case: the candidate reaches the ICE agent (with
//      the tuple's fields) unless it carries a ufrag extension naming no ufrag
//      of the remote description, in which case AddICECandidate returns nil
//      and the agent never sees the candidate.

import (
	"encoding/json"
	"fmt"
	"runtime"
	"strconv"
	"strings"
	"sync/atomic"
	"testing"
	"time"

	"github.com/pion/ice/v4"
	"github.com/pion/logging"
	"github.com/pion/webrtc/v4/internal/verif/vkit"
)

const (
	c25RemoteUfrag = "c25U"
	c25RemotePwd   = "c25PasswordOfTheRemotePeer0123"
)

type c25Ext struct{ K, V string }

type c25Tuple struct {
	Typ        string   `json:"typ"`
	Proto      string   `json:"proto"`
	AddrForm   string   `json:"addr_form"`
	Addr       string   `json:"addr"`
	Port       int      `json:"port"`
	Priority   uint32   `json:"priority"` // 0: left to pion (computed)
	Component  uint16   `json:"component"`
	Foundation string   `json:"foundation"` // "": left to pion
	TCPType    string   `json:"tcptype"`
	RelAddr    string   `json:"raddr"`
	RelPort    int      `json:"rport"`
	Ext        []c25Ext `json:"ext"`
}

type c25Case struct {
	Part  string   `json:"part"`
	Path  string   `json:"path"`
	Tuple c25Tuple `json:"tuple"`
	Line  string   `json:"candidate,omitempty"`
	Stage string   `json:"stage,omitempty"` // part B only; "" = the first remote offer, not answered
}

func (t c25Tuple) extShape() string {
	empty, ufrag := false, "none"
	for _, e := range t.Ext {
		if e.V == "" {
			empty = true
		}
		if e.K == "ufrag" {
			switch e.V {
			case c25RemoteUfrag:
				ufrag = "match"
			case "":
				ufrag = "empty"
			default:
				ufrag = "other"
			}
		}
	}

	return fmt.Sprintf("n=%d,emptyvalue=%v,ufrag=%s", len(t.Ext), empty, ufrag)
}

// line composes the candidate attribute value the way a remote peer would send it.
func (t c25Tuple) line() string {
	var b strings.Builder
	fmt.Fprintf(&b, "%s %d %s %d %s %d typ %s", t.Foundation, t.Component, t.Proto, t.Priority, t.Addr, t.Port, t.Typ)
	if t.RelAddr != "" {
		fmt.Fprintf(&b, " raddr %s rport %d", t.RelAddr, t.RelPort)
	}
	if t.TCPType != "" {
		b.WriteString(" tcptype " + t.TCPType)
	}
	for _, e := range t.Ext {
		b.WriteString(" " + e.K + " " + e.V)
	}

	return b.String()
}

// viaICE builds the candidate with the ice constructors (the way gathered
// candidates come to exist).
func (t c25Tuple) viaICE() (ice.Candidate, error) {
	var (
		cand ice.Candidate
		err  error
	)
	switch t.Typ {
	case "host":
		cand, err = ice.NewCandidateHost(&ice.CandidateHostConfig{
			Network: t.Proto, Address: t.Addr, Port: t.Port, Component: t.Component,
			Priority: t.Priority, Foundation: t.Foundation, TCPType: ice.NewTCPType(t.TCPType),
		})
	case "srflx":
		cand, err = ice.NewCandidateServerReflexive(&ice.CandidateServerReflexiveConfig{
			Network: t.Proto, Address: t.Addr, Port: t.Port, Component: t.Component,
			Priority: t.Priority, Foundation: t.Foundation, RelAddr: t.RelAddr, RelPort: t.RelPort,
		})
	case "prflx":
		cand, err = ice.NewCandidatePeerReflexive(&ice.CandidatePeerReflexiveConfig{
			Network: t.Proto, Address: t.Addr, Port: t.Port, Component: t.Component,
			Priority: t.Priority, Foundation: t.Foundation, RelAddr: t.RelAddr, RelPort: t.RelPort,
		})
	case "relay":
		cand, err = ice.NewCandidateRelay(&ice.CandidateRelayConfig{
			Network: t.Proto, Address: t.Addr, Port: t.Port, Component: t.Component,
			Priority: t.Priority, Foundation: t.Foundation, RelAddr: t.RelAddr, RelPort: t.RelPort,
		})
	default:
		return nil, fmt.Errorf("type %s", t.Typ) //nolint:err113
	}
	if err != nil {
		return nil, err
	}
	for _, e := range t.Ext {
		if err := cand.AddExtension(ice.CandidateExtension{Key: e.K, Value: e.V}); err != nil {
			return nil, err
		}
	}

	return cand, nil
}

// c25Parsed is what the check's own tokenizer reads from a candidate string.
type c25Parsed struct {
	Foundation, Component, Proto, Priority, Addr, Port, Typ string
	RelAddr, RelPort, TCPType                               string
	Ext                                                     []c25Ext
	Err                                                     string
}

// c25Tokenize: RFC 5245 15.1 with single-space separators; an empty token is an
// empty extension value; tcptype is an extension that is reported separately.
func c25Tokenize(s string) c25Parsed {
	var p c25Parsed
	tok := strings.Split(s, " ")
	if len(tok) < 8 || tok[6] != "typ" {
		p.Err = "short or no typ"

		return p
	}
	p.Foundation, p.Component, p.Proto, p.Priority, p.Addr, p.Port, p.Typ = tok[0], tok[1], tok[2], tok[3], tok[4], tok[5], tok[7]
	rest := tok[8:]
	if len(rest) >= 4 && rest[0] == "raddr" && rest[2] == "rport" {
		p.RelAddr, p.RelPort = rest[1], rest[3]
		rest = rest[4:]
	}
	for i := 0; i < len(rest); i += 2 {
		e := c25Ext{K: rest[i]}
		if i+1 < len(rest) {
			e.V = rest[i+1]
		}
		if e.K == "tcptype" {
			p.TCPType = e.V

			continue
		}
		p.Ext = append(p.Ext, e)
	}

	return p
}

func c25ExtEqual(a, b []c25Ext) bool {
	if len(a) != len(b) {
		return false
	}
	for i := range a {
		if a[i] != b[i] {
			return false
		}
	}

	return true
}

type c25Want struct {
	Foundation string
	Priority   uint32
	Proto      string
}

// c25CompareICE compares a parsed-back ice.Candidate with the tuple; it returns
// the names of the fields that differ.
func c25CompareICE(t c25Tuple, w c25Want, b ice.Candidate) []string {
	var bad []string
	if b.Foundation() != w.Foundation {
		bad = append(bad, "foundation")
	}
	if b.Component() != t.Component {
		bad = append(bad, "component")
	}
	if b.NetworkType().NetworkShort() != w.Proto {
		bad = append(bad, "protocol")
	}
	if b.Priority() != w.Priority {
		bad = append(bad, "priority")
	}
	if b.Address() != t.Addr {
		bad = append(bad, "address")
	}
	if b.Port() != t.Port {
		bad = append(bad, "port")
	}
	if b.Type().String() != t.Typ {
		bad = append(bad, "type")
	}
	ra, rp := "", 0
	if r := b.RelatedAddress(); r != nil {
		ra, rp = r.Address, r.Port
	}
	if ra != t.RelAddr || rp != t.RelPort {
		bad = append(bad, "related")
	}
	if b.TCPType().String() != t.TCPType {
		bad = append(bad, "tcptype")
	}
	var ext []c25Ext
	for _, e := range b.Extensions() {
		if e.Key == "tcptype" {
			continue
		}
		ext = append(ext, c25Ext{e.Key, e.Value})
	}
	if !c25ExtEqual(ext, t.Ext) {
		bad = append(bad, "extensions")
	}

	return bad
}

func c25CompareTokens(t c25Tuple, w c25Want, p c25Parsed) []string {
	var bad []string
	if p.Err != "" {
		return []string{"syntax"}
	}
	if p.Foundation != strings.TrimSpace(w.Foundation) {
		bad = append(bad, "foundation")
	}
	if p.Component != strconv.Itoa(int(t.Component)) {
		bad = append(bad, "component")
	}
	if !strings.EqualFold(p.Proto, w.Proto) {
		bad = append(bad, "protocol")
	}
	if p.Priority != strconv.FormatUint(uint64(w.Priority), 10) {
		bad = append(bad, "priority")
	}
	if p.Addr != t.Addr {
		bad = append(bad, "address")
	}
	if p.Port != strconv.Itoa(t.Port) {
		bad = append(bad, "port")
	}
	if p.Typ != t.Typ {
		bad = append(bad, "type")
	}
	if t.RelAddr == "" {
		if p.RelAddr != "" {
			bad = append(bad, "related")
		}
	} else if p.RelAddr != t.RelAddr || p.RelPort != strconv.Itoa(t.RelPort) {
		bad = append(bad, "related")
	}
	if p.TCPType != t.TCPType {
		bad = append(bad, "tcptype")
	}
	if !c25ExtEqual(p.Ext, t.Ext) {
		bad = append(bad, "extensions")
	}

	return bad
}

// c25ExtLists returns every list of at most maxLen extensions with pairwise
// different keys (ordered) over the key and value sets.
func c25ExtLists(maxLen int) [][]c25Ext {
	keys := []string{"ufrag", "generation", "network-cost", "x"}
	// the last two are NOT the remote ufrag: the same letters in the other case (ufrags are case-sensitive)
	// and the remote ufrag with one more character
	vals := []string{"", "a", c25RemoteUfrag, "C25u", c25RemoteUfrag + "x"}
	out := [][]c25Ext{nil}
	var rec func(cur []c25Ext, used int)
	rec = func(cur []c25Ext, used int) {
		if len(cur) == maxLen {
			return
		}
		for ki, k := range keys {
			if used&(1<<ki) != 0 {
				continue
			}
			for _, v := range vals {
				next := append(append([]c25Ext{}, cur...), c25Ext{k, v})
				out = append(out, next)
				rec(next, used|1<<ki)
			}
		}
	}
	rec(nil, 0)

	return out
}

type c25Core struct {
	Typ, Proto, AddrForm string
	Port                 int
	Priority             uint32
	Component            uint16
	Foundation           string
	TCPType              string
	Related              bool
}

var c25Addrs = map[string]string{"ipv4": "192.0.2.7", "ipv6": "2001:db8::7", "mdns": "c25f3a1b-0c0e-4a6e-9d2b-5e1f7a8b9c0d.local"}

func (k c25Core) tuple(ext []c25Ext) c25Tuple {
	t := c25Tuple{
		Typ: k.Typ, Proto: k.Proto, AddrForm: k.AddrForm, Addr: c25Addrs[k.AddrForm], Port: k.Port, Priority: k.Priority,
		Component: k.Component, Foundation: k.Foundation, TCPType: k.TCPType, Ext: ext,
	}
	if k.Related {
		t.RelAddr, t.RelPort = "10.0.0.1", 50000
		if k.AddrForm == "ipv6" {
			t.RelAddr = "fd00::1"
		}
	}

	return t
}

// c25Cores: the product of the candidate fields, restricted to what pion's own
// constructors can express: TCP type on host candidates only (the ice configs
// of the other types have no such field and ice.UnmarshalCandidate keeps it for
// host only), related address on non-host candidates only, mDNS names on host
// candidates only.
func c25Cores() []c25Core {
	var out []c25Core
	for _, typ := range []string{"host", "srflx", "prflx", "relay"} {
		addrs := []string{"ipv4", "ipv6"}
		tcpt := []string{""}
		rel := []bool{false, true}
		if typ == "host" {
			addrs = append(addrs, "mdns")
			tcpt = []string{"", "active", "passive", "so"}
			rel = []bool{false}
		}
		for _, proto := range []string{"udp", "tcp"} {
			for _, af := range addrs {
				for _, port := range []int{1, 9, 65535} {
					for _, prio := range []uint32{0, 1, 1<<32 - 1} {
						for _, comp := range []uint16{1, 2} {
							for _, f := range []string{"", "1", "abcdefghijklmnopqrstuvwxyzAB+/09"} {
								for _, tt := range tcpt {
									for _, r := range rel {
										out = append(out, c25Core{typ, proto, af, port, prio, comp, f, tt, r})
									}
								}
							}
						}
					}
				}
			}
		}
	}

	return out
}

type c25Env struct {
	t     *testing.T
	c     *vkit.Check
	api   *API
	apiV  *API               // as api, on a virtual network without interfaces (nothing is gathered)
	older SessionDescription // an offer of the same peer shape with ANOTHER ufrag (the previous ICE generation)
	offer SessionDescription
	grace int64 // remaining 1 ms re-polls before a wanted candidate is reported lost
}

// c25Acc collects outcomes and distinct classes of one chunk (the shared
// accounting takes a lock; one flush per chunk).
type c25Acc struct {
	outcomes map[string]struct{}
	distinct map[string]struct{}
}

func c25NewAcc() *c25Acc {
	return &c25Acc{map[string]struct{}{}, map[string]struct{}{}}
}

func (a *c25Acc) flush(c *vkit.Check) {
	for k := range a.outcomes {
		c.Outcome(k)
	}
	for k := range a.distinct {
		c.Distinct(k)
	}
}

// newAnswerer returns a PeerConnection with the remote offer applied.
func (e *c25Env) newAnswerer() *PeerConnection {
	pc := vNewPC(e.t, e.api, nil)
	if err := pc.SetRemoteDescription(e.offer); err != nil {
		vkit.Fatalf(e.t, "SetRemoteDescription: %v", err)
	}

	return pc
}

func c25Key(stage string, bad []string, t c25Tuple) string {
	fields := strings.Join(bad, "+")
	extRelated := true
	for _, b := range bad {
		if b != "extensions" && b != "tcptype" {
			extRelated = false
		}
	}
	if extRelated {
		return fmt.Sprintf("%s|fields=%s|tcptype=%s|ext=%s", stage, fields, t.TCPType, t.extShape())
	}

	return fmt.Sprintf("%s|fields=%s|typ=%s|proto=%s|addr=%s", stage, fields, t.Typ, t.Proto, t.AddrForm)
}

// roundTrip checks part A for one tuple built along one path.
func (e *c25Env) roundTrip(pc *PeerConnection, acc *c25Acc, path string, t c25Tuple) {
	c := e.c
	rc := c25Case{Part: "A", Path: path, Tuple: t}
	var (
		src ice.Candidate
		err error
	)
	if path == "ice-constructors" {
		src, err = t.viaICE()
	} else {
		rc.Line = t.line()
		src, err = ice.UnmarshalCandidate(rc.Line)
	}
	if err != nil {
		// not a candidate pion can represent along this path
		acc.outcomes["not-representable|"+path] = struct{}{}

		return
	}
	c.Eval()
	c.Guard(path+"|"+t.line(), rc, func() {
		cand, err := newICECandidateFromICE(src, "0", 0)
		if err != nil {
			acc.outcomes["not-representable|"+path] = struct{}{}

			return
		}
		// what pion fills in itself
		w := c25Want{Foundation: t.Foundation, Priority: t.Priority, Proto: t.Proto}
		if w.Foundation == "" {
			w.Foundation = cand.Foundation
		}
		if w.Priority == 0 {
			w.Priority = cand.Priority
		}
		if t.AddrForm == "mdns" { // ice assumes UDP for unresolved mDNS names
			w.Proto = cand.Protocol.String()
		}
		init := cand.ToJSON()
		rc.Line = init.Candidate
		value, ok := strings.CutPrefix(init.Candidate, "candidate:")
		if !ok || value == "" {
			c.Violation(c25Key("tojson-empty", nil, t), fmt.Sprintf("ToJSON() of the candidate built from %q (%s) is %q", t.line(), path, init.Candidate), rc)

			return
		}
		// accepted by AddICECandidate
		if err := pc.AddICECandidate(init); err != nil {
			c.Violation(c25Key("rejected", nil, t), fmt.Sprintf("AddICECandidate rejected %q: %v", init.Candidate, err), rc)
			acc.outcomes["rejected"] = struct{}{}

			return
		}
		// parses back
		back, err := ice.UnmarshalCandidate(value)
		if err != nil {
			c.Violation(c25Key("parse-back-error", nil, t), fmt.Sprintf("ice.UnmarshalCandidate(%q): %v", value, err), rc)

			return
		}
		if bad := c25CompareICE(t, w, back); len(bad) > 0 {
			c.Violation(c25Key("parse-back", bad, t),
				fmt.Sprintf("candidate %q (%s) has the signaling form %q, which parses back with different %v", t.line(), path, value, bad), rc)
			acc.outcomes["mismatch"] = struct{}{}

			return
		}
		if bad := c25CompareTokens(t, w, c25Tokenize(value)); len(bad) > 0 {
			c.Violation(c25Key("tokens", bad, t),
				fmt.Sprintf("candidate %q (%s) has the signaling form %q, whose tokens differ in %v", t.line(), path, value, bad), rc)
			acc.outcomes["mismatch"] = struct{}{}

			return
		}
		acc.outcomes["roundtrip-ok|"+path] = struct{}{}
		acc.distinct["A|"+path+"|"+t.Typ+"|"+t.Proto+"|"+t.AddrForm+"|tcptype="+t.TCPType+"|rel="+strconv.FormatBool(t.RelAddr != "")+"|"+t.extShape()] = struct{}{}
	})
}

// c25Settle waits until the number of goroutines has been the same for a run of
// consecutive polls and returns it.
func (e *c25Env) settle() int {
	deadline := time.Now().Add(60 * time.Second)
	last, run := runtime.NumGoroutine(), 0
	for run < 40 {
		time.Sleep(100 * time.Microsecond)
		n := runtime.NumGoroutine()
		if n == last {
			run++
		} else {
			last, run = n, 0
		}
		if time.Now().After(deadline) {
			vkit.Fatalf(e.t, "goroutine count does not settle")
		}
	}

	return last
}

// agentCandidates returns the agent's remote candidates by port once every
// goroutine started by the AddICECandidate calls since `quiet` was measured has
// finished (ice adds a remote candidate on a goroutine of its own).
func (e *c25Env) agentCandidates(pc *PeerConnection, quiet int) map[int]ice.Candidate {
	agent := pc.iceTransport.gatherer.getAgent()
	if agent == nil {
		vkit.Fatalf(e.t, "no ICE agent")
	}
	deadline := time.Now().Add(60 * time.Second)
	for runtime.NumGoroutine() > quiet {
		if time.Now().After(deadline) {
			vkit.Fatalf(e.t, "goroutines of AddICECandidate do not finish")
		}
		time.Sleep(50 * time.Microsecond)
	}
	cs, err := agent.GetRemoteCandidates()
	if err != nil {
		vkit.Fatalf(e.t, "GetRemoteCandidates: %v", err)
	}
	out := map[int]ice.Candidate{}
	for _, x := range cs {
		out[x.Port()] = x
	}

	return out
}

// ufragClause checks part B for one core shape: every extension list, unique port per case.
func (e *c25Env) ufragClause(k c25Core, lists [][]c25Ext, path string) {
	c := e.c
	pc := e.newAnswerer()
	defer func() { _ = pc.Close() }()
	const base = 2000
	// a first candidate creates the ICE agent; then the goroutine count at rest is measured
	marker := base - 1
	if err := pc.AddICECandidate(ICECandidateInit{Candidate: fmt.Sprintf("candidate:9 1 udp 5 192.0.2.99 %d typ host", marker)}); err != nil {
		vkit.Fatalf(e.t, "marker candidate rejected: %v", err)
	}
	quiet := e.settle()
	type sent struct {
		t    c25Tuple
		line string
		w    c25Want
	}
	var all []sent
	for i, ext := range lists {
		k.Port = base + i
		t := k.tuple(ext)
		rc := c25Case{Part: "B", Path: path, Tuple: t}
		var (
			src ice.Candidate
			err error
		)
		if path == "ice-constructors" {
			src, err = t.viaICE()
		} else {
			src, err = ice.UnmarshalCandidate(t.line())
		}
		if err != nil {
			vkit.Fatalf(e.t, "part B candidate not constructible: %v", err)
		}
		cand, err := newICECandidateFromICE(src, "0", 0)
		if err != nil {
			vkit.Fatalf(e.t, "part B candidate not convertible: %v", err)
		}
		init := cand.ToJSON()
		rc.Line = init.Candidate
		c.Eval()
		var addErr error
		c.Guard("B|"+init.Candidate, rc, func() { addErr = pc.AddICECandidate(init) })
		if addErr != nil {
			c.Violation(c25Key("B-rejected", nil, t), fmt.Sprintf("AddICECandidate(%q) returned %v", init.Candidate, addErr), rc)

			continue
		}
		w := c25Want{Foundation: cand.Foundation, Priority: cand.Priority, Proto: t.Proto}
		all = append(all, sent{t, init.Candidate, w})
	}
	got := e.agentCandidates(pc, quiet)
	if _, ok := got[marker]; !ok {
		vkit.Fatalf(e.t, "marker candidate is not in the agent")
	}
	// Guard against a goroutine unrelated to the calls ending during the batch
	// (the count barrier would then be reached one goroutine early): before a
	// wanted candidate is reported lost the agent is polled again, within a
	// grace budget shared by the whole run.
	missing := func() bool {
		for _, s := range all {
			want := true
			for _, x := range s.t.Ext {
				want = want && !(x.K == "ufrag" && x.V != c25RemoteUfrag)
			}
			if _, ok := got[s.t.Port]; want && !ok {
				return true
			}
		}

		return false
	}
	for missing() && atomic.AddInt64(&e.grace, -1) > 0 {
		time.Sleep(time.Millisecond)
		got = e.agentCandidates(pc, quiet)
	}
	for _, s := range all {
		rc := c25Case{Part: "B", Path: path, Tuple: s.t, Line: s.line}
		wantAdded := true
		for _, x := range s.t.Ext {
			if x.K == "ufrag" && x.V != c25RemoteUfrag {
				wantAdded = false
			}
		}
		in, added := got[s.t.Port]
		switch {
		case !wantAdded && added:
			c.Violation(fmt.Sprintf("B-not-dropped|ext=%s", s.t.extShape()),
				fmt.Sprintf("%q names a ufrag that is not in the remote description (%s) but the candidate reached the ICE agent", s.line, c25RemoteUfrag), rc)
			c.Outcome("B-not-dropped")
		case !wantAdded:
			c.Outcome("B-dropped")
			c.Distinct(fmt.Sprintf("B|dropped|%s|%s|%s", path, s.t.Typ, s.t.extShape()))
		case !added:
			c.Violation(fmt.Sprintf("B-lost|typ=%s|ext=%s", s.t.Typ, s.t.extShape()),
				fmt.Sprintf("AddICECandidate(%q) returned nil but the candidate never reached the ICE agent", s.line), rc)
			c.Outcome("B-lost")
		default:
			if bad := c25CompareICE(s.t, s.w, in); len(bad) > 0 {
				c.Violation(c25Key("B-agent", bad, s.t),
					fmt.Sprintf("AddICECandidate(%q): the candidate in the ICE agent differs in %v", s.line, bad), rc)
				c.Outcome("B-agent-mismatch")

				continue
			}
			c.Outcome("B-added")
			c.Distinct(fmt.Sprintf("B|added|%s|%s|%s|%s", path, s.t.Typ, s.t.Proto, s.t.extShape()))
		}
	}
}

// c25Stages are further states in which part B is judged (besides "the first remote offer, not answered"):
//
//	stable                 the offer was answered: its description is the CURRENT remote description
//	restart-offer-pending  an exchange with the previous ICE generation (another ufrag) is complete, and the
//	                       offer - an ICE restart - is applied and not answered: it is the PENDING remote description
//
// In both the applied remote description names c25RemoteUfrag. The transports are running here, so the
// goroutine barrier of ufragClause cannot be used; the judgement is one-sided and needs no barrier: a candidate
// that must be added has to show up in the agent (polled, generous deadline), and once all of those are there a
// candidate that must be dropped must not be there (presence is definitive, absence is not judged).
//
//	session-and-media-ufrag  the first remote offer, not answered, carries a session-level a=ice-ufrag (another
//	                       value) besides the media-level c25RemoteUfrag: both are ufrags of the description
var c25Stages = []string{"stable", "restart-offer-pending", "session-and-media-ufrag"}

func (e *c25Env) stagedAnswerer(stage string) *PeerConnection {
	pc := vNewPC(e.t, e.apiV, nil)
	answer := func() {
		a, err := pc.CreateAnswer(nil)
		if err != nil {
			vkit.Fatalf(e.t, "CreateAnswer: %v", err)
		}
		if err := pc.SetLocalDescription(a); err != nil {
			vkit.Fatalf(e.t, "SetLocalDescription: %v", err)
		}
	}
	switch stage {
	case "stable":
		if err := pc.SetRemoteDescription(e.offer); err != nil {
			vkit.Fatalf(e.t, "SetRemoteDescription: %v", err)
		}
		answer()
	case "session-and-media-ufrag":
		d := e.offer
		i := strings.Index(d.SDP, "m=")
		if i < 0 {
			vkit.Fatalf(e.t, "offer without a media section")
		}
		d.SDP = d.SDP[:i] + "a=ice-ufrag:SessLevelUfrag\r\na=ice-pwd:SessLevelPasswordSessLevelPassword\r\n" + d.SDP[i:]
		if err := pc.SetRemoteDescription(d); err != nil {
			vkit.Fatalf(e.t, "SetRemoteDescription (session- and media-level ufrag): %v", err)
		}
	case "restart-offer-pending":
		if err := pc.SetRemoteDescription(e.older); err != nil {
			vkit.Fatalf(e.t, "SetRemoteDescription (previous generation): %v", err)
		}
		answer()
		if err := pc.SetRemoteDescription(e.offer); err != nil {
			vkit.Fatalf(e.t, "SetRemoteDescription (restart offer): %v", err)
		}
	}
	if rd := pc.RemoteDescription(); rd == nil || !strings.Contains(rd.SDP, "a=ice-ufrag:"+c25RemoteUfrag+"\r\n") {
		vkit.Fatalf(e.t, "stage %s: the applied remote description does not carry the configured ufrag", stage)
	}

	return pc
}

func (e *c25Env) ufragClauseStaged(stage string, k c25Core, lists [][]c25Ext, path string) {
	c := e.c
	pc := e.stagedAnswerer(stage)
	defer func() { _ = pc.Close() }()
	const base = 3000
	type sent struct {
		t    c25Tuple
		line string
	}
	var all []sent
	for i, ext := range lists {
		k.Port = base + i
		t := k.tuple(ext)
		rc := c25Case{Part: "B", Path: path, Tuple: t, Stage: stage}
		var (
			src ice.Candidate
			err error
		)
		if path == "ice-constructors" {
			src, err = t.viaICE()
		} else {
			src, err = ice.UnmarshalCandidate(t.line())
		}
		if err != nil {
			vkit.Fatalf(e.t, "part B candidate not constructible: %v", err)
		}
		cand, err := newICECandidateFromICE(src, "0", 0)
		if err != nil {
			vkit.Fatalf(e.t, "part B candidate not convertible: %v", err)
		}
		init := cand.ToJSON()
		rc.Line = init.Candidate
		c.Eval()
		var addErr error
		c.Guard("B|"+stage+"|"+init.Candidate, rc, func() { addErr = pc.AddICECandidate(init) })
		if addErr != nil {
			c.Violation(c25Key("B-rejected|stage="+stage, nil, t), fmt.Sprintf("stage %s: AddICECandidate(%q) returned %v", stage, init.Candidate, addErr), rc)

			continue
		}
		all = append(all, sent{t, init.Candidate})
	}
	wantAdded := func(t c25Tuple) bool {
		for _, x := range t.Ext {
			if x.K == "ufrag" && x.V != c25RemoteUfrag {
				return false
			}
		}

		return true
	}
	fetch := func() map[int]bool {
		out := map[int]bool{}
		agent := pc.iceTransport.gatherer.getAgent()
		if agent == nil {
			return out
		}
		cs, err := agent.GetRemoteCandidates()
		if err != nil {
			return out
		}
		for _, x := range cs {
			out[x.Port()] = true
		}

		return out
	}
	got := fetch()
	deadline := time.Now().Add(60 * time.Second)
	for time.Now().Before(deadline) {
		missing := false
		for _, s := range all {
			missing = missing || (wantAdded(s.t) && !got[s.t.Port])
		}
		if !missing {
			break
		}
		time.Sleep(time.Millisecond)
		got = fetch()
	}
	for _, s := range all {
		rc := c25Case{Part: "B", Path: path, Tuple: s.t, Line: s.line, Stage: stage}
		switch {
		case wantAdded(s.t) && !got[s.t.Port]:
			c.Violation(fmt.Sprintf("B-lost|stage=%s|typ=%s|ext=%s", stage, s.t.Typ, s.t.extShape()),
				fmt.Sprintf("stage %s: AddICECandidate(%q) returned nil but the candidate did not reach the ICE agent within 60 s (the applied remote description names ufrag %s)", stage, s.line, c25RemoteUfrag), rc)
			c.Outcome("B-lost|" + stage)
		case wantAdded(s.t):
			c.Outcome("B-added|" + stage)
			c.Distinct(fmt.Sprintf("B|added|stage=%s|%s|%s|%s|%s", stage, path, s.t.Typ, s.t.Proto, s.t.extShape()))
		case got[s.t.Port]:
			c.Violation(fmt.Sprintf("B-not-dropped|stage=%s|ext=%s", stage, s.t.extShape()),
				fmt.Sprintf("stage %s: %q names a ufrag that is in no applied remote description (%s) but the candidate reached the ICE agent", stage, s.line, c25RemoteUfrag), rc)
			c.Outcome("B-not-dropped|" + stage)
		default:
			c.Outcome("B-not-seen-in-the-agent|" + stage)
		}
	}
}

func TestVerifC25(t *testing.T) { //nolint:cyclop
	c := vkit.New("C25", "exploration")
	defer c.Finish(t)
	// quick: lists of <= 1 extension on every core tuple and <= 2 on the core
	// tuples with the middle port/priority/component/foundation; thorough: <= 3 everywhere
	maxA, maxAll, maxB := c.Pick(2, 3), c.Pick(1, 3), c.Pick(2, 3)
	c.Rule("tuples = type {host,srflx,prflx,relay} x protocol {udp,tcp} x address {IPv4, IPv6, mDNS name (host)} x port {1,9,65535} x priority {computed,1,2^32-1} x component {1,2} x foundation {computed,'1',32 ice-chars} x TCP type {none; host: active,passive,so} x related {none; non-host: addr/port} x every ordered extension list of <= L entries with pairwise different keys over {ufrag,generation,network-cost,x} x values {'', 'a', the remote ufrag, the remote ufrag in the other case, the remote ufrag plus one character}; each tuple along two construction paths (ice constructors + AddExtension; ice.UnmarshalCandidate of a composed candidate line). Part A: ToJSON accepted by AddICECandidate and parsed back (ice.UnmarshalCandidate + own tokenizer) against the tuple. Part B: unique port per case, the ICE agent's remote candidates inspected: present with the tuple's fields unless a ufrag extension names no ufrag of the remote description; part B again where the offer is the current remote description (answered) and where it is an ICE-restart offer pending on top of a completed exchange with another ufrag (one-sided: must-add candidates reach the agent, and then no must-drop candidate is there). distinct = (part, path, type, protocol, address form, TCP type, related, extension-list shape) that held")
	c.Set("max_extension_list_len_part_A", maxA)
	c.Set("max_extension_list_len_part_A_on_every_core_tuple", maxAll)
	c.Set("max_extension_list_len_part_B", maxB)
	c.Assume("'candidates pion can represent' are those its constructors build: TCP type only on host candidates, related address (non-zero port) only on non-host candidates, extension keys pairwise different (ice.AddExtension replaces a repeated key), values without spaces; priority 0 / empty foundation mean 'computed by pion' and are compared with what pion computed")
	c.Assume("part B: a candidate handed to the ICE agent is added by a goroutine; part B runs sequentially and inspects the agent once the goroutine count is back at its measured rest value")

	lf := logging.NewDefaultLoggerFactory()
	lf.DefaultLogLevel = logging.LogLevelDisabled
	env := &c25Env{t: t, c: c, grace: 5000}
	env.api = vNewAPI(t, vAPIOpts{setting: func(s *SettingEngine) { s.LoggerFactory = lf }})

	// the remote offer, once, with a known ufrag
	offerAPI := vNewAPI(t, vAPIOpts{setting: func(s *SettingEngine) {
		s.LoggerFactory = lf
		s.SetICECredentials(c25RemoteUfrag, c25RemotePwd)
	}})
	opc := vNewPC(t, offerAPI, nil)
	if _, err := opc.CreateDataChannel("c25", nil); err != nil {
		vkit.Fatalf(t, "CreateDataChannel: %v", err)
	}
	offer, err := opc.CreateOffer(nil)
	if err != nil {
		vkit.Fatalf(t, "CreateOffer: %v", err)
	}
	_ = opc.Close()
	if !strings.Contains(offer.SDP, "a=ice-ufrag:"+c25RemoteUfrag+"\r\n") {
		vkit.Fatalf(t, "offer does not carry the configured ufrag")
	}
	env.offer = offer
	env.apiV = vNewAPI(t, vAPIOpts{virtualNet: true, setting: func(s *SettingEngine) { s.LoggerFactory = lf }})
	{
		oldAPI := vNewAPI(t, vAPIOpts{virtualNet: true, setting: func(s *SettingEngine) {
			s.LoggerFactory = lf
			s.SetICECredentials("c25Previous", "c25PasswordOfThePreviousGeneration")
		}})
		old := vNewPC(t, oldAPI, nil)
		if _, err := old.CreateDataChannel("c25", nil); err != nil {
			vkit.Fatalf(t, "CreateDataChannel: %v", err)
		}
		if env.older, err = old.CreateOffer(nil); err != nil {
			vkit.Fatalf(t, "CreateOffer: %v", err)
		}
		_ = old.Close()
	}

	paths := []string{"ice-constructors", "parsed-line"}
	cores := c25Cores()
	listsA := c25ExtLists(maxA)
	listsAll := c25ExtLists(maxAll)
	listsB := c25ExtLists(maxB)
	c.Set("core_tuples", len(cores))
	c.Set("extension_lists_part_A", len(listsA))
	c.Set("extension_lists_part_B", len(listsB))
	c.Set("construction_paths", paths)

	if raw, ok := c.ReplayCase(); ok {
		var rc c25Case
		if err := json.Unmarshal(raw, &rc); err != nil {
			vkit.Fatalf(t, "replay case: %v", err)
		}
		if rc.Part == "B" && rc.Stage != "" {
			tp := rc.Tuple
			env.ufragClauseStaged(rc.Stage, c25Core{tp.Typ, tp.Proto, tp.AddrForm, tp.Port, tp.Priority, tp.Component, tp.Foundation, tp.TCPType, tp.RelAddr != ""},
				[][]c25Ext{tp.Ext}, rc.Path)

			return
		}
		if rc.Part == "B" {
			tp := rc.Tuple
			env.ufragClause(c25Core{tp.Typ, tp.Proto, tp.AddrForm, tp.Port, tp.Priority, tp.Component, tp.Foundation, tp.TCPType, tp.RelAddr != ""},
				[][]c25Ext{tp.Ext}, rc.Path)

			return
		}
		pc := env.newAnswerer()
		defer func() { _ = pc.Close() }()
		acc := c25NewAcc()
		env.roundTrip(pc, acc, rc.Path, rc.Tuple)
		acc.flush(c)

		return
	}

	// ---- part B
	var bcores []c25Core
	for _, k := range cores {
		if k.AddrForm == "mdns" || k.TCPType != "" || k.Priority != 1 || k.Component != 1 || k.Foundation != "1" || k.Port != 9 {
			continue
		}
		bcores = append(bcores, k)
	}
	c.Set("part_B_core_shapes", len(bcores))
	// sequential, and before part A: the barrier of part B counts goroutines
	for _, k := range bcores {
		for _, p := range paths {
			env.ufragClause(k, listsB, p)
		}
	}

	// ---- part B in further states (after the barrier-based part: these PeerConnections run transports)
	c.Set("part_B_further_stages", c25Stages)
	for _, stage := range c25Stages {
		for _, k := range bcores {
			for _, p := range paths {
				env.ufragClauseStaged(stage, k, listsB, p)
			}
		}
	}
	e2 := env.settle()
	_ = e2

	// ---- part A
	var sampled int32
	vkit.Parallel(len(cores), func(i int) {
		pc := env.newAnswerer()
		acc := c25NewAcc()
		defer func() {
			_ = pc.Close()
			acc.flush(c)
		}()
		lists := listsAll
		if k := cores[i]; k.Priority == 1 && k.Component == 1 && k.Foundation == "1" && k.Port == 9 {
			lists = listsA
		}
		for _, p := range paths {
			for li, ext := range lists {
				tp := cores[i].tuple(ext)
				if i%97 == 3 && li == 7 && atomic.AddInt32(&sampled, 1) <= 3 {
					c.Sample(c25Case{Part: "A", Path: p, Tuple: tp, Line: tp.line()})
				}
				env.roundTrip(pc, acc, p, tp)
			}
		}
	})
	c.Sample(c25Case{Part: "B", Path: "parsed-line", Tuple: bcores[len(bcores)-1].tuple(listsB[len(listsB)-1])})
}
