package webrtc

// C26 — RTX packets are unwrapped into the original packets (RFC 4588).
//
// A real RTPReceiver / TrackRemote pair is wired the way startReceive does it,
// with scripted interceptor.RTPReaders in place of the SRTP streams: the repair
// reader hands out one enumerated RTX packet at a time (its next Read call is the
// proof that the previous packet has been processed completely), the primary
// reader always has a sentinel packet. TrackRemote.Read then returns either the
// unwrapped RTX packet or the sentinel (= the RTX packet was dropped).
//
// The repair goroutine is spawned by the code under test, so a panic in it
// cannot be recovered in-process: every case is first run in a child process
// (sequentially, announcing the case index), a crash there is reported as a
// violation of "dropped without crashing" and the case is left out of the
// in-process run that applies the value oracle.

import (
	"bufio"
	"bytes"
	"encoding/binary"
	"fmt"
	"io"
	"os"
	"os/exec"
	"strconv"
	"strings"
	"sync"
	"testing"
	"time"

	"github.com/pion/interceptor"
	"github.com/pion/webrtc/v4/internal/verif/vkit"
)

const (
	c26PrimarySSRC = 0x50524D31 // "PRM1"
	c26RtxSSRC     = 0x52545831 // "RTX1"
	c26PrimaryPT   = 96         // VP8 in the default codecs
	c26RtxPT       = 97         // its RTX
	c26MTU         = 1460       // default receive MTU = size of the receiver's RTX buffers
)

var c26Sentinel = []byte{0x80, c26PrimaryPT, 0xEE, 0xEE, 0, 0, 0, 7, 0x50, 0x52, 0x4D, 0x31, 'S', 'E', 'N', 'T'}

// ---- the enumerated domain -------------------------------------------------

var (
	c26ExtNames = []string{"none", "onebyte-0w", "onebyte-1w", "onebyte-3w", "twobyte-2w", "rfc3550-1w", "len-beyond-packet", "len-0x3fff", "len-0xffff"}
	c26PadNames = []string{"none", "1", "4", "255", "leaves-osn-only", "leaves-1-byte", "beyond-payload"}
	c26PayLens  = []int{0, 1, 2, 3, 4, 100, -1} // RTX payload length incl. OSN; -1 = fill the MTU
	c26OSNs     = []uint16{0, 0xFFFF, 0x1234}
	c26TSs      = []uint32{0, 0xFFFFFFFE}
)

func init() {
	if os.Getenv("VERIF_TIER") == "thorough" {
		c26PayLens = []int{0, 1, 2, 3, 4, 5, 16, 100, 254, 255, 256, 257, 1000, -1}
		c26OSNs = []uint16{0, 1, 0x7FFF, 0x8000, 0xFFFF, 0x1234}
	}
}

type c26Case struct {
	Index   int    `json:"index"`
	CC      int    `json:"csrc_count"`
	Ext     string `json:"extension"`
	Pad     string `json:"padding"`
	PayLen  int    `json:"rtx_payload_len"`
	Marker  bool   `json:"marker"`
	TS      uint32 `json:"timestamp"`
	OSN     uint16 `json:"osn"`
	Packet  string `json:"packet_hex,omitempty"`
	Got     string `json:"delivered_hex,omitempty"`
	ext, pd int
}

func c26Dims() []int {
	return []int{16, len(c26ExtNames), len(c26PadNames), len(c26PayLens), 2, len(c26TSs), len(c26OSNs)}
}

// c26Build constructs the idx-th RTX packet by hand (no pion code) and the
// reference result: nil when the packet cannot carry an OSN (must be dropped),
// otherwise the exact bytes RFC 4588 unwrapping yields (padding filler included,
// it is masked by the comparison). why names the reason for a demanded drop.
func c26Build(idx int) (cs c26Case, pkt, want []byte, why string, ok bool) {
	v := vkit.ProductIndex(idx, c26Dims()...)
	cc, ext, pd, pl, mk, ts, osn := v[0], v[1], v[2], c26PayLens[v[3]], v[4] == 1, c26TSs[v[5]], c26OSNs[v[6]]
	cs = c26Case{Index: idx, CC: cc, Ext: c26ExtNames[ext], Pad: c26PadNames[pd], Marker: mk, TS: ts, OSN: osn, ext: ext, pd: pd}

	hdr := make([]byte, 12+4*cc)
	hdr[0] = 0x80 | byte(cc)
	hdr[1] = c26RtxPT
	if mk {
		hdr[1] |= 0x80
	}
	binary.BigEndian.PutUint16(hdr[2:], 0x7A7A) // RTX stream's own sequence number
	binary.BigEndian.PutUint32(hdr[4:], ts)
	binary.BigEndian.PutUint32(hdr[8:], c26RtxSSRC)
	for i := 0; i < cc; i++ {
		binary.BigEndian.PutUint32(hdr[12+4*i:], 0xC5000000|uint32(i*0x010203+1)) //nolint:gosec
	}
	declaredExtWords := -1 // -1: no extension
	var extBody []byte
	switch ext {
	case 1:
		hdr[0] |= 0x10
		hdr = append(hdr, 0xBE, 0xDE, 0, 0)
		declaredExtWords = 0
	case 2:
		hdr[0] |= 0x10
		extBody = []byte{0x12, 0xAA, 0xBB, 0xCC} // id 1, 3 bytes
		hdr = append(hdr, 0xBE, 0xDE, 0, 1)
		declaredExtWords = 1
	case 3:
		hdr[0] |= 0x10
		extBody = []byte{0x10, 0x01, 0x23, 0x0A, 0x0B, 0x0C, 0x0D, 0x00, 0x00, 0xE0, 0x77, 0x00} // ids 1, 2, 14 and zero padding
		hdr = append(hdr, 0xBE, 0xDE, 0, 3)
		declaredExtWords = 3
	case 4:
		hdr[0] |= 0x10
		extBody = []byte{0x05, 0x04, 1, 2, 3, 4, 0x09, 0x00} // two-byte form: id 5 len 4, id 9 len 0
		hdr = append(hdr, 0x10, 0x00, 0, 2)
		declaredExtWords = 2
	case 5:
		hdr[0] |= 0x10
		extBody = []byte{0xDE, 0xAD, 0xBE, 0xEF}
		hdr = append(hdr, 0xAB, 0xCD, 0, 1)
		declaredExtWords = 1
	case 6, 7, 8:
		hdr[0] |= 0x10
		hdr = append(hdr, 0xBE, 0xDE, 0, 0) // length patched below
	}
	hdr = append(hdr, extBody...)

	// payload region
	padCount := 0
	switch pd {
	case 1:
		padCount = 1
	case 2:
		padCount = 4
	case 3:
		padCount = 255
	}
	if pl < 0 {
		pl = c26MTU - len(hdr) - padCount
		if pd >= 4 {
			pl = c26MTU - len(hdr)
		}
	}
	switch pd {
	case 4: // declared padding leaves exactly the OSN
		if pl < 3 || pl-2 > 255 {
			return cs, nil, nil, "", false
		}
	case 5: // leaves one byte
		if pl < 2 || pl-1 > 255 {
			return cs, nil, nil, "", false
		}
	case 6: // declared padding larger than everything after the header
		if pl < 1 || pl+1 > 255 {
			return cs, nil, nil, "", false
		}
	}
	cs.PayLen = pl
	body := make([]byte, pl)
	for i := range body {
		body[i] = byte(0x30 + i%0x4D)
	}
	if pl >= 2 {
		binary.BigEndian.PutUint16(body, osn)
	} else if pl == 1 {
		body[0] = byte(osn >> 8)
	}
	pkt = append(append([]byte{}, hdr...), body...)
	effPay := pl // RTX payload bytes that are not padding
	switch pd {
	case 1, 2, 3:
		pkt[0] |= 0x20
		fill := bytes.Repeat([]byte{0xF0}, padCount)
		fill[padCount-1] = byte(padCount)
		pkt = append(pkt, fill...)
	case 4:
		pkt[0] |= 0x20
		pkt[len(pkt)-1] = byte(pl - 2)
		effPay = 2
	case 5:
		pkt[0] |= 0x20
		pkt[len(pkt)-1] = byte(pl - 1)
		effPay = 1
	case 6:
		pkt[0] |= 0x20
		pkt[len(pkt)-1] = byte(pl + 1)
		effPay = -1
	}
	if len(pkt) > c26MTU {
		return cs, nil, nil, "", false
	}
	hlen := len(hdr)
	switch ext {
	case 6:
		words := (len(pkt)-(12+4*cc+4))/4 + 1
		binary.BigEndian.PutUint16(pkt[12+4*cc+2:], uint16(words)) //nolint:gosec
		declaredExtWords = words
	case 7:
		binary.BigEndian.PutUint16(pkt[12+4*cc+2:], 0x3FFF)
		declaredExtWords = 0x3FFF
	case 8:
		binary.BigEndian.PutUint16(pkt[12+4*cc+2:], 0xFFFF)
		declaredExtWords = 0xFFFF
	}
	if declaredExtWords >= 0 {
		hlen = 12 + 4*cc + 4 + 4*declaredExtWords
	}

	// ---- reference (RFC 3550 layout + RFC 4588 section 4) ----
	switch {
	case hlen > len(pkt):
		why = "ext-length-beyond-packet"
		if ext == 7 || ext == 8 {
			why = "ext-length-overflows-uint16"
		}

		return cs, pkt, nil, why, true
	case effPay < 0:
		return cs, pkt, nil, "padding-beyond-payload", true
	case effPay < 2:
		return cs, pkt, nil, "payload-shorter-than-osn", true
	}
	want = append([]byte{}, pkt[:hlen]...)
	want[1] = want[1]&0x80 | c26PrimaryPT
	binary.BigEndian.PutUint16(want[2:], osn)
	binary.BigEndian.PutUint32(want[8:], c26PrimarySSRC)
	want = append(want, pkt[hlen+2:]...)

	return cs, pkt, want, "", true
}

// c26Compare names the first field in which the delivered packet differs from
// the reference (own parser; padding filler bytes are not compared).
func c26Compare(want, got []byte, cc int, padded bool) string {
	if len(got) < 12 {
		return "length"
	}
	switch {
	case got[0] != want[0]:
		return "first-byte(V/P/X/CC)"
	case got[1]&0x80 != want[1]&0x80:
		return "marker"
	case got[1]&0x7F != want[1]&0x7F:
		return "payload-type"
	case !bytes.Equal(got[2:4], want[2:4]):
		return "sequence-number"
	case !bytes.Equal(got[4:8], want[4:8]):
		return "timestamp"
	case !bytes.Equal(got[8:12], want[8:12]):
		return "ssrc"
	case len(got) != len(want):
		return "length"
	case !bytes.Equal(got[12:12+4*cc], want[12:12+4*cc]):
		return "csrc"
	}
	hlen := 12 + 4*cc
	if want[0]&0x10 != 0 {
		hlen += 4 + 4*int(binary.BigEndian.Uint16(want[hlen+2:]))
		if !bytes.Equal(got[12+4*cc:hlen], want[12+4*cc:hlen]) {
			return "extension"
		}
	}
	end := len(want)
	if padded {
		if got[end-1] != want[end-1] {
			return "padding-count"
		}
		end -= int(want[end-1])
	}
	if !bytes.Equal(got[hlen:end], want[hlen:end]) {
		return "payload"
	}

	return ""
}

// ---- the receiver rig --------------------------------------------------------

type c26Rig struct {
	receiver *RTPReceiver
	track    *TrackRemote
	in       chan []byte
	asked    chan struct{}
	buf      []byte
	tb       testing.TB
}

func c26NewRig(tb testing.TB, api *API) *c26Rig { return c26NewRigMode(tb, api, "ssrc") }

// c26Modes: how the receiver learns about the two streams. "ssrc": both SSRCs announced in the SDP (what
// startReceive does); "rid-primary-first" / "rid-repair-first": a simulcast layer announced by RID only, its
// primary (rid) and repair (rsid) streams discovered from the media in either order (handleIncomingSSRC).
var c26Modes = []string{"ssrc", "rid-primary-first", "rid-repair-first"}

func c26NewRigMode(tb testing.TB, api *API, mode string) *c26Rig {
	tb.Helper()
	r := &c26Rig{in: make(chan []byte), asked: make(chan struct{}, 1), buf: make([]byte, 2000), tb: tb}
	receiver, err := api.NewRTPReceiver(RTPCodecTypeVideo, &DTLSTransport{api: api})
	if err != nil {
		vkit.Fatalf(tb, "NewRTPReceiver: %v", err)
	}
	if mode != "ssrc" {
		receiver.configureReceive(RTPReceiveParameters{Encodings: []RTPDecodingParameters{{
			RTPCodingParameters: RTPCodingParameters{RID: "a"},
		}}})
		close(receiver.received)
		primary := interceptor.RTPReaderFunc(func(b []byte, a interceptor.Attributes) (int, interceptor.Attributes, error) {
			return copy(b, c26Sentinel), a, nil
		})
		repair := interceptor.RTPReaderFunc(func(b []byte, a interceptor.Attributes) (int, interceptor.Attributes, error) {
			r.asked <- struct{}{}
			p, ok := <-r.in
			if !ok {
				return 0, a, io.EOF
			}

			return copy(b, p), a, nil
		})
		params := RTPParameters{Codecs: []RTPCodecParameters{{
			RTPCodecCapability: RTPCodecCapability{MimeType: MimeTypeVP8, ClockRate: 90000}, PayloadType: c26PrimaryPT,
		}}}
		bindPrimary := func() {
			tr, err := receiver.receiveForRid("a", params, &interceptor.StreamInfo{SSRC: c26PrimarySSRC}, nil, primary, true, nil, nil, nil)
			if err != nil {
				vkit.Fatalf(tb, "receiveForRid: %v", err)
			}
			r.track = tr
		}
		bindRepair := func() {
			// startImmediately=true is what the default interceptors make streamsForSSRC report
			if err := receiver.receiveForRtx(0, "a", &interceptor.StreamInfo{SSRC: c26RtxSSRC}, nil, repair, true, nil, nil); err != nil {
				vkit.Fatalf(tb, "receiveForRtx: %v", err)
			}
		}
		if mode == "rid-primary-first" {
			bindPrimary()
			bindRepair()
		} else {
			bindRepair()
			bindPrimary()
		}
		r.receiver = receiver
		n, _, err := r.track.Read(r.buf)
		if err != nil || !bytes.Equal(r.buf[:n], c26Sentinel) {
			vkit.Fatalf(tb, "first Read (%s): n=%d err=%v", mode, n, err)
		}
		r.waitAsked()
		if r.track.PayloadType() != c26PrimaryPT || r.track.SSRC() != c26PrimarySSRC {
			vkit.Fatalf(tb, "track not set up (%s): pt=%d ssrc=%d", mode, r.track.PayloadType(), r.track.SSRC())
		}

		return r
	}
	receiver.configureReceive(RTPReceiveParameters{Encodings: []RTPDecodingParameters{{
		RTPCodingParameters: RTPCodingParameters{SSRC: c26PrimarySSRC, RTX: RTPRtxParameters{SSRC: c26RtxSSRC}},
	}}})
	primary := interceptor.RTPReaderFunc(func(b []byte, a interceptor.Attributes) (int, interceptor.Attributes, error) {
		return copy(b, c26Sentinel), a, nil
	})
	repair := interceptor.RTPReaderFunc(func(b []byte, a interceptor.Attributes) (int, interceptor.Attributes, error) {
		r.asked <- struct{}{}
		p, ok := <-r.in
		if !ok {
			return 0, a, io.EOF
		}

		return copy(b, p), a, nil
	})
	// what startReceive does once the transport has produced the streams
	receiver.mu.Lock()
	receiver.tracks[0].streamInfo = &interceptor.StreamInfo{SSRC: c26PrimarySSRC}
	receiver.tracks[0].rtpInterceptor = primary
	receiver.mu.Unlock()
	if err := receiver.receiveForRtx(c26RtxSSRC, "", &interceptor.StreamInfo{SSRC: c26RtxSSRC}, nil, repair, false, nil, nil); err != nil {
		vkit.Fatalf(tb, "receiveForRtx: %v", err)
	}
	close(receiver.received)
	r.receiver = receiver
	r.track = receiver.Track()
	// the first Read delivers the sentinel (learning payload type 96 through checkAndUpdateTrack)
	// and asks for the repair reader to be started
	n, _, err := r.track.Read(r.buf)
	if err != nil || !bytes.Equal(r.buf[:n], c26Sentinel) {
		vkit.Fatalf(tb, "first Read: n=%d err=%v", n, err)
	}
	r.waitAsked()
	if r.track.PayloadType() != c26PrimaryPT || r.track.SSRC() != c26PrimarySSRC {
		vkit.Fatalf(tb, "track not set up: pt=%d ssrc=%d", r.track.PayloadType(), r.track.SSRC())
	}

	return r
}

func (r *c26Rig) waitAsked() {
	select {
	case <-r.asked:
	case <-time.After(60 * time.Second):
		vkit.Fatalf(r.tb, "repair reader goroutine did not come back for the next packet")
	}
}

// feed hands one RTX packet to the repair reader, waits until it has been
// processed, and returns what TrackRemote.Read delivers: the RTX-derived packet
// (nil = dropped) and whether a second RTX-derived packet followed.
func (r *c26Rig) feed(pkt []byte) (got []byte, attrs interceptor.Attributes, twice bool) {
	r.in <- pkt
	r.waitAsked()
	n, a, err := r.track.Read(r.buf)
	if err != nil {
		vkit.Fatalf(r.tb, "TrackRemote.Read: %v", err)
	}
	if bytes.Equal(r.buf[:n], c26Sentinel) {
		return nil, nil, false
	}
	got = append([]byte{}, r.buf[:n]...)
	n, _, err = r.track.Read(r.buf)
	if err != nil {
		vkit.Fatalf(r.tb, "TrackRemote.Read: %v", err)
	}

	return got, a, !bytes.Equal(r.buf[:n], c26Sentinel)
}

func (r *c26Rig) close() {
	close(r.in)
	_ = r.receiver.Stop()
}

// ---- child process: crash probe -----------------------------------------------

const c26ChildEnv = "VERIF_C26_CHILD"

func c26Child(t *testing.T, from, total int) {
	api := vNewAPI(t, vAPIOpts{})
	rig := c26NewRig(t, api)
	out := bufio.NewWriterSize(os.Stdout, 64)
	for idx := from; idx < total; idx++ {
		_, pkt, _, _, ok := c26Build(idx)
		if !ok {
			continue
		}
		fmt.Fprintf(out, "C26P %d\n", idx)
		out.Flush()
		rig.feed(pkt)
	}
	fmt.Fprintf(out, "C26DONE\n")
	out.Flush()
	os.Exit(0)
}

// c26Probe runs the child over [0,total) and returns the indices of the cases
// that crashed it, with the panic site.
func c26Probe(t *testing.T, c *vkit.Check, total int) map[int]bool {
	crashed := map[int]bool{}
	from := 0
	for restarts := 0; from < total; restarts++ {
		if restarts > 12 {
			c.NotExhaustive(fmt.Sprintf("more than 12 crashing cases; cases from index %d on were not probed and not run", from))
			for i := from; i < total; i++ {
				crashed[i] = true
			}

			return crashed
		}
		cmd := exec.Command(os.Args[0], "-test.run", "^TestVerifC26$", "-test.timeout", "0", "-test.count", "1")
		cmd.Env = append(os.Environ(), fmt.Sprintf("%s=%d", c26ChildEnv, from))
		var outBuf bytes.Buffer
		cmd.Stdout = &outBuf
		cmd.Stderr = &outBuf
		done := make(chan error, 1)
		if err := cmd.Start(); err != nil {
			vkit.Fatalf(t, "cannot start the probe child: %v", err)
		}
		go func() { done <- cmd.Wait() }()
		select {
		case <-done:
		case <-time.After(5 * time.Minute):
			_ = cmd.Process.Kill()
			vkit.Fatalf(t, "probe child hung")
		}
		text := outBuf.String()
		if strings.Contains(text, "C26DONE") {
			return crashed
		}
		last := -1
		for _, line := range strings.Split(text, "\n") {
			if strings.HasPrefix(line, "C26P ") {
				if v, err := strconv.Atoi(strings.TrimSpace(line[5:])); err == nil {
					last = v
				}
			}
		}
		pi := strings.Index(text, "panic: ")
		if last < 0 || pi < 0 {
			vkit.Fatalf(t, "probe child died without a panic: %.600s", text)
		}
		msg := text[pi:]
		if nl := strings.IndexByte(msg, '\n'); nl > 0 {
			msg = msg[:nl]
		}
		site := "unknown"
		for _, line := range strings.Split(text[pi:], "\n") {
			if strings.HasPrefix(line, "github.com/pion/webrtc/v4.") && !strings.Contains(line, "c26") {
				site = strings.TrimPrefix(line, "github.com/pion/webrtc/v4.")
				if k := strings.LastIndex(site, "("); k > 0 {
					site = site[:k]
				}

				break
			}
		}
		cs, pkt, _, why, _ := c26Build(last)
		cs.Packet = fmt.Sprintf("%x", pkt)
		if len(cs.Packet) > 400 {
			cs.Packet = cs.Packet[:400] + "..."
		}
		if why == "" {
			why = "valid"
		}
		c.Violation(fmt.Sprintf("panic|%s|%s", site, why), fmt.Sprintf("process crashed (%s) while the repair reader handled case %s", msg, vkit.Short(cs)), cs)
		crashed[last] = true
		from = last + 1
	}

	return crashed
}

func TestVerifC26(t *testing.T) {
	total := vkit.ProductSize(c26Dims()...)
	if v := os.Getenv(c26ChildEnv); v != "" {
		from, err := strconv.Atoi(v)
		if err != nil {
			t.Fatalf("bad %s", c26ChildEnv)
		}
		c26Child(t, from, total)

		return
	}

	c := vkit.New("C26", "exploration")
	defer c.Finish(t)
	c.Rule("cases = CSRC count 0..15 x extension {none, one-byte profile 0/1/3 words, two-byte profile 2 words, RFC 3550 profile 1 word, length field just beyond the packet, length field 0x3FFF, 0xFFFF} x padding {none, 1, 4, 255, leaving exactly the OSN, leaving one byte, larger than the payload} x RTX payload length {0,1,2,3,4,100, up to the 1460-byte MTU} x marker x timestamp {0, 2^32-2} x OSN {0, 0xFFFF, 0x1234}, all with both SSRCs announced; plus the ways a RID-only simulcast layer's primary and repair streams are discovered {primary first, repair first} x a 32-case sub-product of the layouts; every packet goes through the real repair-reader goroutine of RTPReceiver and comes back through TrackRemote.Read; a class (extension x padding x outcome) is non-trivial when the packet reached the rewrite")
	c.Assume("packets whose fixed header / CSRC list / 4-byte extension header is itself truncated are not generated: SRTP never hands them over, and what the code does with them depends on stale bytes of a pooled buffer")
	c.Assume("a padding count of 0 with the P bit set is not generated (malformed per RFC 3550; the statement is silent)")

	crashed := c26Probe(t, c, total)
	c.Set("crashing_cases", len(crashed))

	api := vNewAPI(t, vAPIOpts{})
	nw := vkit.Workers()
	var wg sync.WaitGroup
	var mu sync.Mutex
	built := 0
	for w := 0; w < nw; w++ {
		wg.Add(1)
		go func(w int) {
			defer wg.Done()
			rig := c26NewRig(t, api)
			defer rig.close()
			n := 0
			for idx := w; idx < total; idx += nw {
				if crashed[idx] {
					continue
				}
				cs, pkt, want, why, ok := c26Build(idx)
				if !ok {
					continue
				}
				n++
				c.Eval()
				got, attrs, twice := rig.feed(pkt)
				class := fmt.Sprintf("ext=%s|pad=%s", cs.Ext, cs.Pad)
				// violation keys carry only whether an extension / padding is present (one rewrite
				// defect would otherwise produce a key per layout)
				coarse := "ext=absent"
				if cs.ext != 0 {
					coarse = "ext=present"
				}
				if cs.pd != 0 {
					coarse += "|pad=present"
				} else {
					coarse += "|pad=absent"
				}
				rep := func() c26Case {
					out := cs
					out.Packet = fmt.Sprintf("%x", pkt)
					out.Got = fmt.Sprintf("%x", got)
					if len(out.Packet) > 400 {
						out.Packet = out.Packet[:400] + "..."
					}
					if len(out.Got) > 400 {
						out.Got = out.Got[:400] + "..."
					}

					return out
				}
				switch {
				case twice:
					c.Violation("delivered-twice|"+coarse, "one RTX packet produced two packets on the track — case "+vkit.Short(rep()), rep())
				case want == nil && got != nil:
					c.Violation("not-dropped|"+why, fmt.Sprintf("RTX packet too short to carry an OSN (%s) was delivered instead of dropped — case %s", why, vkit.Short(rep())), rep())
				case want != nil && got == nil:
					c.Violation("dropped|"+coarse, "well-formed RTX packet was dropped — case "+vkit.Short(rep()), rep())
				case want != nil:
					if d := c26Compare(want, got, cs.CC, pkt[0]&0x20 != 0); d != "" {
						c.Violation("field:"+d+"|"+coarse, fmt.Sprintf("delivered packet differs from the RFC 4588 original in %s: want %x — case %s", d, want[:min(len(want), 80)], vkit.Short(rep())), rep())
					} else if idx%7 == 0 || cs.CC == 15 {
						c.Distinct(class + "|delivered")
						if attrs != nil {
							c.Outcome(fmt.Sprintf("attributes: rtx pt=%v seq=%v ssrc=%v", attrs.Get(AttributeRtxPayloadType), attrs.Get(AttributeRtxSequenceNumber), attrs.Get(AttributeRtxSsrc)))
						}
					}
				default:
					if idx%7 == 0 || cs.CC == 15 {
						c.Distinct(class + "|dropped:" + why)
						c.Outcome("dropped:" + why)
					}
				}
			}
			mu.Lock()
			built += n
			mu.Unlock()
		}(w)
	}
	wg.Wait()
	// ---- part 2: how the streams were discovered x a sub-product of the layouts --------------------------
	// (CSRC count {0,3} x extension {none, one-byte 1 word} x padding {none, 4} x the first two payload lengths
	//  >= 2 of the tier x marker, first timestamp and OSN)
	nOrders := 0
	for _, mode := range c26Modes[1:] {
		rig := c26NewRigMode(t, api, mode)
		for idx := 0; idx < total; idx++ {
			v := vkit.ProductIndex(idx, c26Dims()...)
			if (v[0] != 0 && v[0] != 3) || (v[1] != 0 && v[1] != 2) || (v[2] != 0 && v[2] != 2) || v[5] != 0 || v[6] != 0 {
				continue
			}
			if pl := c26PayLens[v[3]]; pl != 2 && pl != 100 {
				continue
			}
			if crashed[idx] {
				continue
			}
			cs, pkt, want, _, ok := c26Build(idx)
			if !ok || want == nil {
				continue
			}
			nOrders++
			c.Eval()
			got, _, twice := rig.feed(pkt)
			rep := map[string]any{"binding": mode, "case": cs, "packet_hex": fmt.Sprintf("%x", pkt[:min(len(pkt), 200)]), "delivered_hex": fmt.Sprintf("%x", got[:min(len(got), 200)])}
			switch {
			case twice:
				c.Violation("delivered-twice|binding="+mode, "one RTX packet produced two packets on the track — "+vkit.Short(rep), rep)
			case got == nil:
				c.Violation("dropped|binding="+mode, "well-formed RTX packet was dropped — "+vkit.Short(rep), rep)
			default:
				if d := c26Compare(want, got, cs.CC, pkt[0]&0x20 != 0); d != "" {
					c.Violation("field:"+d+"|binding="+mode, fmt.Sprintf("streams bound %s: delivered packet differs from the RFC 4588 original in %s: want %x — %s", mode, d, want[:min(len(want), 80)], vkit.Short(rep)), rep)
				} else {
					c.Distinct("binding=" + mode + "|delivered")
				}
			}
		}
		rig.close()
	}
	c.Set("binding_order_cases", nOrders)
	c.Set("product_size", total)
	c.Set("packets_built", built)
	s1, p1, _, _, _ := c26Build(vkit.ProductSize(c26Dims()...) / 3)
	s1.Packet = fmt.Sprintf("%x", p1[:min(len(p1), 64)])
	c.Sample(s1)
	s2, p2, _, _, _ := c26Build(12345)
	s2.Packet = fmt.Sprintf("%x", p2[:min(len(p2), 64)])
	c.Sample(s2)
}
