package h264writer

// C35 — H.264/H.265 writers emit the packetized NAL units once a keyframe arrives.
//
// Bounded exhaustive enumeration on the real writers (the harness lives in
// package h264writer and drives h265writer through its exported API): every
// NAL sequence up to a length bound over (unit type x unit size) is packetized
// by pion's payloaders (github.com/pion/rtp/codecs) at every MTU / grouping /
// aggregation setting of the domain, every RTP payload is handed to the real
// writer, and the bytes written are split by an own Annex-B splitter and read
// back by the matching pion reader.
//
// Oracle: an OWN depacketizer model (RFC 6184 single/STAP-A/FU-A, RFC 7798
// single/AP/FU) lists the NAL units each packet carries; the expected output
// is the units from the first keyframe onward (H.264: SPS or IDR; H.265:
// VPS/SPS/PPS/IDR). Where the statement leaves a choice the oracle accepts
// every reading: for an aggregation packet whose first keyframe unit is not
// its first unit both "from that unit" and "from that packet" are accepted;
// H.264 packets shorter than 4 bytes may or may not count as keyframes
// (the package's own tests call a 3-byte SPS packet a non-keyframe).

import (
	"bytes"
	"fmt"
	"os"
	"runtime/debug"
	"strings"
	"sync"
	"sync/atomic"
	"testing"

	"github.com/pion/rtp"
	"github.com/pion/rtp/codecs"
	"github.com/pion/webrtc/v4/internal/verif/vkit"
	"github.com/pion/webrtc/v4/pkg/media/h264reader"
	"github.com/pion/webrtc/v4/pkg/media/h265reader"
	"github.com/pion/webrtc/v4/pkg/media/h265writer"
)

// ---------------------------------------------------------------- domain

type c35Type struct {
	Name string
	Hdr  []byte
}

var c35H264Types = []c35Type{
	{"SPS", []byte{0x67}}, {"PPS", []byte{0x68}}, {"IDR", []byte{0x65}},
	{"nonIDR", []byte{0x41}}, {"SEI", []byte{0x06}}, {"AUD", []byte{0x09}},
}

var c35H265Types = []c35Type{
	{"VPS", []byte{0x40, 0x01}}, {"SPS", []byte{0x42, 0x01}}, {"PPS", []byte{0x44, 0x01}},
	{"IDR_W_RADL", []byte{0x26, 0x01}}, {"IDR_N_LP", []byte{0x28, 0x01}},
	{"TRAIL_R", []byte{0x02, 0x01}}, {"TRAIL_N", []byte{0x00, 0x01}},
	{"PSEI", []byte{0x4e, 0x01}}, {"SSEI", []byte{0x50, 0x01}}, {"AUD", []byte{0x46, 0x01}},
}

type c35Opt struct {
	T    c35Type
	Size int
}

// c35Nal builds the unit: header + a body of non-zero bytes that depends on
// position and size (so units are pairwise different and hold no start code).
func c35Nal(o c35Opt, pos int) []byte {
	b := make([]byte, o.Size)
	copy(b, o.T.Hdr)
	for i := len(o.T.Hdr); i < o.Size; i++ {
		b[i] = 0x80 | byte((i*3+pos*17+o.Size)&0x7f)
	}

	return b
}

func c35TypeName(codec string, nal []byte) string {
	if len(nal) == 0 {
		return "empty"
	}
	if codec == "h264" {
		switch nal[0] & 0x1f {
		case 7:
			return "SPS"
		case 8:
			return "PPS"
		case 5:
			return "IDR"
		case 1:
			return "nonIDR"
		case 6:
			return "SEI"
		case 9:
			return "AUD"
		}

		return fmt.Sprintf("type%d", nal[0]&0x1f)
	}
	t := int(nal[0]>>1) & 0x3f
	for _, x := range c35H265Types {
		if int(x.Hdr[0]>>1) == t {
			return x.Name
		}
	}

	return fmt.Sprintf("type%d", t)
}

func c35IsKeyType(codec string, t int) bool {
	if codec == "h264" {
		return t == 5 || t == 7 // IDR, SPS
	}

	return t == 19 || t == 20 || t == 32 || t == 33 || t == 34 // IDR_W_RADL, IDR_N_LP, VPS, SPS, PPS
}

// ---------------------------------------------------------------- own depacketizer model

type c35Pkt struct {
	Kind    string   // single | agg | fu-start | fu-cont
	Nals    [][]byte // units carried completely by this packet (single, agg)
	FuType  int      // type of the fragmented unit
	FuHdr   []byte   // reconstructed header of the fragmented unit
	FuEnd   bool
	Frag    []byte
	Len     int
	KeyNal  int // index in Nals of the first keyframe unit, -1 if none
	KeyFrag bool
}

func c35Parse(codec string, p []byte) (c35Pkt, error) {
	pk := c35Pkt{Len: len(p), KeyNal: -1}
	if codec == "h264" {
		if len(p) < 1 {
			return pk, fmt.Errorf("empty payload")
		}
		t := int(p[0] & 0x1f)
		switch {
		case t >= 1 && t <= 23:
			pk.Kind = "single"
			pk.Nals = [][]byte{p}
		case t == 24:
			pk.Kind = "agg"
			for off := 1; off < len(p); {
				if off+2 > len(p) {
					return pk, fmt.Errorf("STAP-A: size field truncated")
				}
				sz := int(p[off])<<8 | int(p[off+1])
				off += 2
				if off+sz > len(p) || sz == 0 {
					return pk, fmt.Errorf("STAP-A: unit of %d bytes does not fit", sz)
				}
				pk.Nals = append(pk.Nals, p[off:off+sz])
				off += sz
			}
		case t == 28:
			if len(p) < 2 {
				return pk, fmt.Errorf("FU-A too short")
			}
			pk.Kind = "fu-cont"
			if p[1]&0x80 != 0 {
				pk.Kind = "fu-start"
			}
			pk.FuEnd = p[1]&0x40 != 0
			pk.FuType = int(p[1] & 0x1f)
			pk.FuHdr = []byte{p[0]&0xe0 | p[1]&0x1f}
			pk.Frag = p[2:]
		default:
			return pk, fmt.Errorf("payload type %d not produced by the payloader", t)
		}
	} else {
		if len(p) < 2 {
			return pk, fmt.Errorf("payload shorter than the payload header")
		}
		t := int(p[0]>>1) & 0x3f
		switch t {
		case 48:
			pk.Kind = "agg"
			for off := 2; off < len(p); {
				if off+2 > len(p) {
					return pk, fmt.Errorf("AP: size field truncated")
				}
				sz := int(p[off])<<8 | int(p[off+1])
				off += 2
				if off+sz > len(p) || sz == 0 {
					return pk, fmt.Errorf("AP: unit of %d bytes does not fit", sz)
				}
				pk.Nals = append(pk.Nals, p[off:off+sz])
				off += sz
			}
		case 49:
			if len(p) < 3 {
				return pk, fmt.Errorf("FU too short")
			}
			pk.Kind = "fu-cont"
			if p[2]&0x80 != 0 {
				pk.Kind = "fu-start"
			}
			pk.FuEnd = p[2]&0x40 != 0
			pk.FuType = int(p[2] & 0x3f)
			pk.FuHdr = []byte{p[0]&0x81 | byte(pk.FuType)<<1, p[1]}
			pk.Frag = p[3:]
		case 50:
			return pk, fmt.Errorf("PACI not produced by the payloader")
		default:
			pk.Kind = "single"
			pk.Nals = [][]byte{p}
		}
	}
	for i, n := range pk.Nals {
		t := int(n[0] & 0x1f)
		if codec == "h265" {
			t = int(n[0]>>1) & 0x3f
		}
		if c35IsKeyType(codec, t) {
			pk.KeyNal = i

			break
		}
	}
	pk.KeyFrag = pk.Kind == "fu-start" && c35IsKeyType(codec, pk.FuType)

	return pk, nil
}

// c35Out lists the units a depacketizer that starts listening at packet s
// delivers; trim drops the units of packet s that precede its first keyframe unit.
func c35Out(pkts []c35Pkt, s int, trim bool) [][]byte {
	var out [][]byte
	var cur []byte
	open := false
	for i := s; i < len(pkts); i++ {
		p := pkts[i]
		switch p.Kind {
		case "single", "agg":
			open = false
			from := 0
			if i == s && trim && p.KeyNal > 0 {
				from = p.KeyNal
			}
			out = append(out, p.Nals[from:]...)
		case "fu-start":
			cur = append(append([]byte{}, p.FuHdr...), p.Frag...)
			open = true
		case "fu-cont":
			if !open {
				continue // fragment of a unit whose start was not seen
			}
			cur = append(cur, p.Frag...)
		}
		if open && p.FuEnd {
			out = append(out, cur)
			open = false
		}
	}

	return out
}

// c35Split is the own Annex-B splitter for the writer's output.
func c35Split(b []byte) ([][]byte, error) {
	if len(b) == 0 {
		return nil, nil
	}
	var starts, ends []int
	for i := 0; i+2 < len(b); {
		if b[i] == 0 && b[i+1] == 0 && b[i+2] == 1 {
			e := i
			if i > 0 && b[i-1] == 0 {
				e = i - 1
			}
			ends = append(ends, e)
			starts = append(starts, i+3)
			i += 3

			continue
		}
		i++
	}
	if len(starts) == 0 || ends[0] != 0 {
		return nil, fmt.Errorf("output does not begin with a start code")
	}
	var out [][]byte
	for k, s := range starts {
		e := len(b)
		if k+1 < len(ends) {
			e = ends[k+1]
		}
		if e <= s {
			return nil, fmt.Errorf("empty unit in the output")
		}
		out = append(out, b[s:e])
	}

	return out, nil
}

func c35Equal(a, b [][]byte) bool {
	if len(a) != len(b) {
		return false
	}
	for i := range a {
		if !bytes.Equal(a[i], b[i]) {
			return false
		}
	}

	return true
}

// c35IsSuffix reports whether a is a proper suffix of b.
func c35IsSuffix(a, b [][]byte) bool {
	return len(a) < len(b) && c35Equal(a, b[len(b)-len(a):])
}

// c35ImplTakesAsKey asks the real writer (black box) whether it opens its
// keyframe gate on this one packet: a fresh writer gets the packet and then a
// small non-keyframe unit; the gate is open iff that unit is written. Used only
// to name violation classes, never to decide them.
func c35ImplTakesAsKey(codec string, payload []byte) (open bool) {
	defer func() {
		if recover() != nil {
			open = false
		}
	}()
	var buf bytes.Buffer
	if codec == "h264" {
		w := NewWith(&buf)
		_ = w.WriteRTP(&rtp.Packet{Payload: payload})
		n := buf.Len()
		_ = w.WriteRTP(&rtp.Packet{Payload: []byte{0x41, 0x9a, 0x9b, 0x9c, 0x9d}})

		return buf.Len() > n
	}
	w := h265writer.NewWith(&buf)
	_ = w.WriteRTP(&rtp.Packet{Payload: payload})
	n := buf.Len()
	_ = w.WriteRTP(&rtp.Packet{Payload: []byte{0x02, 0x01, 0x9a, 0x9b, 0x9c}})

	return buf.Len() > n
}

// ---------------------------------------------------------------- one case

type c35Cfg struct {
	Codec    string
	MTU      int
	Grouping string // "each": one Payload call per unit; "au": all units in one call
	NoAgg    bool   // H.264: DisableStapA; H.265: SkipAggregation
}

type c35Case struct {
	Codec    string   `json:"codec"`
	Units    []string `json:"units"`
	MTU      int      `json:"mtu"`
	Grouping string   `json:"grouping"`
	NoAgg    bool     `json:"aggregation_disabled"`
	Packets  []string `json:"packets"`
}

var c35Seen, c35ViolSeen sync.Map

// c35HarnessErr holds the first inconsistency between pion's payloader and the
// own depacketizer model (a harness error: exit 2, never a verdict).
var c35HarnessErr atomic.Value

func c35Describe(codec string, pkts []c35Pkt) []string {
	out := make([]string, len(pkts))
	for i, p := range pkts {
		switch p.Kind {
		case "single", "agg":
			var names []string
			for _, n := range p.Nals {
				names = append(names, fmt.Sprintf("%s/%d", c35TypeName(codec, n), len(n)))
			}
			out[i] = p.Kind + "[" + strings.Join(names, " ") + "]"
		default:
			end := ""
			if p.FuEnd {
				end = "+end"
			}
			out[i] = fmt.Sprintf("%s%s[%s %dB]", p.Kind, end, c35TypeName(codec, p.FuHdr), len(p.Frag))
		}
	}

	return out
}

func c35Eval(c *vkit.Check, cfg c35Cfg, opts []c35Opt) {
	c.Eval()
	codec := cfg.Codec
	nals := make([][]byte, len(opts))
	for i, o := range opts {
		nals[i] = c35Nal(o, i)
	}
	// --- packetize with pion's payloader
	var inputs [][]byte
	if cfg.Grouping == "each" {
		for _, n := range nals {
			inputs = append(inputs, append([]byte{0, 0, 0, 1}, n...))
		}
	} else {
		var au []byte
		for i, n := range nals {
			if i == 0 {
				au = append(au, 0)
			}
			au = append(au, 0, 0, 1)
			au = append(au, n...)
		}
		inputs = [][]byte{au}
	}
	var payloads [][]byte
	if codec == "h264" {
		pl := &codecs.H264Payloader{DisableStapA: cfg.NoAgg}
		for _, in := range inputs {
			payloads = append(payloads, pl.Payload(uint16(cfg.MTU), in)...)
		}
	} else {
		pl := &codecs.H265Payloader{SkipAggregation: cfg.NoAgg}
		for _, in := range inputs {
			payloads = append(payloads, pl.Payload(uint16(cfg.MTU), in)...)
		}
	}
	pkts := make([]c35Pkt, len(payloads))
	var mk func() c35Case
	mk = func() c35Case {
		names := make([]string, len(opts))
		for i, o := range opts {
			names[i] = fmt.Sprintf("%s/%d", o.T.Name, o.Size)
		}

		return c35Case{codec, names, cfg.MTU, cfg.Grouping, cfg.NoAgg, c35Describe(codec, pkts)}
	}
	viol := func(key string, what func() string) {
		if _, seen := c35ViolSeen.LoadOrStore(key, true); !seen {
			c.Violation(key, what(), mk())
		}
	}
	for i, p := range payloads {
		pk, err := c35Parse(codec, p)
		if err != nil {
			// the payloader produced something the model does not know: harness error, not a verdict
			c35HarnessErr.CompareAndSwap(nil, fmt.Sprintf("own depacketizer cannot parse payload %d of case %s: %v", i, vkit.Short(mk()), err))

			return
		}
		pkts[i] = pk
	}
	// sanity of the model: every unit the packets carry is one of the input units, each at most once
	// (the payloaders may drop, withhold and reorder parameter sets; that is their business)
	all := c35Out(pkts, 0, false)
	used := make([]bool, len(nals))
	for _, n := range all {
		found := false
		for j := range nals {
			if !used[j] && bytes.Equal(nals[j], n) {
				used[j], found = true, true

				break
			}
		}
		if !found {
			c35HarnessErr.CompareAndSwap(nil, fmt.Sprintf("own depacketizer finds a unit that was not packetized in case %s", vkit.Short(mk())))

			return
		}
	}

	// --- acceptable outputs
	short := func(p c35Pkt) bool { return codec == "h264" && p.Len < 4 }
	hasKey := func(p c35Pkt) bool { return p.KeyNal >= 0 || p.KeyFrag }
	var accept [][][]byte
	mand := -1
	for i, p := range pkts {
		if !hasKey(p) {
			continue
		}
		accept = append(accept, c35Out(pkts, i, false))
		if p.KeyNal > 0 {
			accept = append(accept, c35Out(pkts, i, true))
		}
		if !short(p) {
			mand = i

			break
		}
	}
	var want [][]byte
	if mand >= 0 {
		want = c35Out(pkts, mand, false)
	} else {
		accept = append(accept, nil)
	}

	// --- the real writer
	var buf bytes.Buffer
	var werr error
	werrAt := -1
	panicked := true
	func() {
		defer func() {
			if r := recover(); r != nil {
				site := vkit.PanicSite()
				viol("panic|"+site, func() string { return fmt.Sprintf("panic in code under test: %v (case %s)", r, vkit.Short(mk())) })
			}
		}()
		write := func(p *rtp.Packet) error { return nil }
		if codec == "h264" {
			w := NewWith(&buf)
			write = w.WriteRTP
		} else {
			w := h265writer.NewWith(&buf)
			write = w.WriteRTP
		}
		for i, p := range payloads {
			pkt := &rtp.Packet{Header: rtp.Header{Version: 2, SequenceNumber: uint16(i), Marker: i == len(payloads)-1}, Payload: p}
			if err := write(pkt); err != nil && werr == nil {
				werr, werrAt = err, i
			}
		}
		panicked = false
	}()
	if panicked {
		return
	}
	if werr != nil {
		viol(fmt.Sprintf("%s|write-error|carrier=%s", codec, pkts[werrAt].Kind),
			func() string { return fmt.Sprintf("WriteRTP(packet %d) returned %v", werrAt, werr) })

		return
	}
	got, serr := c35Split(buf.Bytes())
	if serr != nil {
		viol(codec+"|output-not-annexb", func() string { return serr.Error() })

		return
	}
	ok := false
	for _, a := range accept {
		if c35Equal(got, a) {
			ok = true

			break
		}
	}
	carrier := func(i int) string {
		p := pkts[i]
		name := ""
		switch p.Kind {
		case "single":
			name = c35TypeName(codec, p.Nals[0])
		case "agg":
			name = c35TypeName(codec, p.Nals[max(p.KeyNal, 0)])
		default:
			name = c35TypeName(codec, p.FuHdr)
		}
		sh := ""
		if short(p) {
			sh = "/short"
		}

		return p.Kind + "/" + name + sh
	}
	if !ok {
		switch {
		case mand >= 0 && (c35IsSuffix(got, want) || len(got) == 0):
			viol(fmt.Sprintf("%s|starts-late|missed=%s", codec, carrier(mand)), func() string {
				return fmt.Sprintf("first keyframe is in packet %d (%s), expected %d units from there on; the writer wrote only the last %d", mand, carrier(mand), len(want), len(got))
			})
		case c35IsSuffix(want, got) || (mand < 0 && len(got) > 0):
			// name the packet the real writer took for a keyframe: probe its decision packet by packet
			// (a fresh writer that has seen only this packet either writes a following plain unit or not)
			at := -1
			for s := 0; s < len(pkts) && at < 0; s++ {
				if c35ImplTakesAsKey(codec, payloads[s]) {
					at = s
				}
			}
			where := "unknown"
			if at >= 0 {
				where = carrier(at)
			}
			viol(fmt.Sprintf("%s|starts-early|at=%s", codec, where), func() string {
				return fmt.Sprintf("the writer wrote %d units, only the %d from the first keyframe (packet %d) onward are expected; output starts as if packet %d (%s) were a keyframe", len(got), len(want), mand, at, where)
			})
		default:
			kinds := map[string]bool{}
			for _, p := range pkts {
				kinds[p.Kind] = true
			}
			ks := ""
			for _, k := range []string{"single", "agg", "fu-start"} {
				if kinds[k] {
					ks += k + ","
				}
			}
			viol(fmt.Sprintf("%s|content-mismatch|carriers=%s", codec, ks), func() string {
				return fmt.Sprintf("output holds %d units, expected %d; they are not a suffix of one another", len(got), len(want))
			})
		}

		return
	}

	// --- read back with the matching pion reader (SEI inclusion on: all units are wanted)
	var back [][]byte
	if codec == "h264" {
		rd, err := h264reader.NewReaderWithOptions(bytes.NewReader(buf.Bytes()), h264reader.WithIncludeSEI(true))
		if err == nil {
			for i := 0; i <= len(got); i++ {
				nal, _ := rd.NextNAL()
				if nal == nil {
					break
				}
				back = append(back, nal.Data)
			}
		}
	} else {
		rd, err := h265reader.NewReaderWithOptions(bytes.NewReader(buf.Bytes()), h265reader.WithIncludeSEI(true))
		if err == nil {
			for i := 0; i <= len(got); i++ {
				nal, _ := rd.NextNAL()
				if nal == nil {
					break
				}
				back = append(back, nal.Data)
			}
		}
	}
	if !c35Equal(back, got) {
		viol(codec+"|reader-disagrees-with-output", func() string {
			return fmt.Sprintf("the output holds %d units, the matching reader returned %d", len(got), len(back))
		})

		return
	}

	// --- accounting
	var kb strings.Builder
	kb.WriteString(codec)
	kb.WriteString("|carriers=")
	seen := map[string]bool{}
	for _, p := range pkts {
		if !seen[p.Kind] {
			seen[p.Kind] = true
			kb.WriteString(p.Kind)
			kb.WriteByte(',')
		}
	}
	if mand >= 0 {
		kb.WriteString("|first-key=")
		kb.WriteString(carrier(mand))
		fmt.Fprintf(&kb, "|dropped-before=%v", mand > 0)
	} else {
		kb.WriteString("|no-keyframe")
	}
	key := kb.String()
	if _, dup := c35Seen.LoadOrStore(key, true); !dup {
		if len(pkts) > 0 {
			c.Distinct(key)
		}
		c.Outcome(fmt.Sprintf("%s|written=%v|dropped=%v", codec, len(got) > 0, len(got) < len(all)))
	}
}

// ---------------------------------------------------------------- the check

// c35FileConstructors: the writers built with New(fileName) - two recordings into the SAME path, the second
// shorter than the first: the file read back after the second recording holds exactly what a NewWith writer
// produces for the same packets (a constructor that opens an existing file without truncating it leaves the tail
// of the earlier recording behind the new one).
func c35FileConstructors(t *testing.T, c *vkit.Check) {
	for _, codec := range []string{"h264", "h265"} {
		path := t.TempDir() + "/c35-recording." + codec
		key, small := []byte{0x65, 0x88, 0x84, 0x00, 0x33, 0xff}, []byte{0x41, 0x9a, 0x9b}
		if codec == "h265" {
			key, small = []byte{0x26, 0x01, 0xaf, 0x08, 0x40, 0x33}, []byte{0x02, 0x01, 0x9a, 0x9b}
		}
		long := [][]byte{key, append(append([]byte{}, small...), bytes.Repeat([]byte{0x55}, 300)...), small, small}
		short := [][]byte{key, small}
		var want []byte
		for si, session := range [][][]byte{long, short} {
			c.Eval()
			var ref bytes.Buffer
			var write, refWrite func(*rtp.Packet) error
			var closeFn func() error
			if codec == "h264" {
				w, err := New(path)
				if err != nil {
					vkit.Fatalf(t, "h264writer.New: %v", err)
				}
				r := NewWith(&ref)
				write, refWrite, closeFn = w.WriteRTP, r.WriteRTP, w.Close
			} else {
				w, err := h265writer.New(path)
				if err != nil {
					vkit.Fatalf(t, "h265writer.New: %v", err)
				}
				r := h265writer.NewWith(&ref)
				write, refWrite, closeFn = w.WriteRTP, r.WriteRTP, w.Close
			}
			for i, u := range session {
				pk := &rtp.Packet{Header: rtp.Header{Version: 2, SequenceNumber: uint16(i)}, Payload: u} //nolint:gosec
				if err := write(pk); err != nil {
					vkit.Fatalf(t, "WriteRTP: %v", err)
				}
				_ = refWrite(&rtp.Packet{Header: pk.Header, Payload: append([]byte{}, u...)})
			}
			if err := closeFn(); err != nil {
				vkit.Fatalf(t, "Close: %v", err)
			}
			want = ref.Bytes()
			got, err := os.ReadFile(path)
			if err != nil {
				vkit.Fatalf(t, "read back: %v", err)
			}
			if !bytes.Equal(got, want) {
				c.Violation(fmt.Sprintf("%s|file-constructor|recording=%d|file-differs-from-stream-output", codec, si+1),
					fmt.Sprintf("%s: recording %d into the same path: the file holds %d bytes, a NewWith writer produces %d bytes for the same packets", codec, si+1, len(got), len(want)),
					map[string]any{"codec": codec, "recording": si + 1})
			} else {
				c.Distinct(fmt.Sprintf("file-constructor|%s|recording=%d", codec, si+1))
			}
		}
	}
}

func TestVerifC35(t *testing.T) {
	debug.SetGCPercent(400)
	c := vkit.New("C35", "exploration")
	defer c.Finish(t)
	c.Rule("every NAL sequence up to the length bound over (unit type x unit size) x MTU x grouping (one Payload call per unit / one call for the whole sequence) x aggregation enabled/disabled is packetized by pion's payloader, written by the real H264Writer / H265Writer, split by an own Annex-B splitter and read back by the matching reader. " +
		"A case class is distinct by (codec, packet kinds that occurred, carrier and type of the first keyframe, whether packets preceded it); it is non-trivial when the payloader produced at least one packet and the writer was run on it")
	c.Assume("no packet loss or reordering: the writer sees exactly the payloader's packets in order")
	c.Assume("where the statement leaves a choice every reading is accepted: (a) an aggregation packet whose first keyframe unit is not its first unit may be written from that unit or as a whole; (b) an H.264 packet shorter than 4 bytes may or may not count as a keyframe (the package's own tests call the 3-byte packets 27 90 90 / 25 90 90 non-keyframes)")
	c.Assume("units the payloader itself drops or withholds (AUD, filler, parameter sets that never get flushed, STAP-A larger than the MTU) are not expected: the oracle starts from the packets")

	quick := c.Quick()
	type plan struct {
		codec  string
		length int
		types  []c35Type
		sizes  []int
	}
	pick := func(all []c35Type, names ...string) []c35Type {
		var out []c35Type
		for _, n := range names {
			for _, x := range all {
				if x.Name == n {
					out = append(out, x)
				}
			}
		}

		return out
	}
	sizesQ := []int{3, 4, 100, 300, 2000} // 300: below the larger MTU and beyond one byte of length (aggregation packets carry 16-bit sizes)
	sizesT := []int{3, 4, 5, 100, 101, 300, 1201, 2000}
	var plans []plan
	if quick {
		plans = []plan{
			{"h264", 3, c35H264Types, sizesQ},
			{"h265", 2, c35H265Types, sizesQ},
			{"h265", 3, pick(c35H265Types, "VPS", "PPS", "IDR_W_RADL", "TRAIL_R", "TRAIL_N", "SSEI"), sizesQ},
		}
	} else {
		plans = []plan{
			{"h264", 3, c35H264Types, sizesT},
			{"h264", 4, pick(c35H264Types, "SPS", "PPS", "IDR", "nonIDR"), sizesQ},
			{"h265", 3, c35H265Types, sizesT},
			{"h265", 4, pick(c35H265Types, "VPS", "IDR_W_RADL", "TRAIL_R", "TRAIL_N", "PSEI"), []int{4, 100, 2000}},
		}
	}
	// every NAL unit type of the two codecs (the unit types proper: H.264 1..23, H.265 0..47; the higher
	// numbers are RTP payload structures), small units only (never fragmented), sequences up to length 2:
	// which types latch the writer is decided per TYPE, so each type is tried before and after a keyframe
	var all264, all265 []c35Type
	for t := 1; t <= 23; t++ {
		all264 = append(all264, c35Type{fmt.Sprintf("type%d", t), []byte{0x60 | byte(t)}})
	}
	for t := 0; t <= 47; t++ {
		all265 = append(all265, c35Type{fmt.Sprintf("type%d", t), []byte{byte(t << 1), 0x01}})
	}
	plans = append(plans, plan{"h264", 2, all264, []int{4}}, plan{"h265", 2, all265, []int{4}})
	mtus := []int{100, 1200}
	c.Set("mtus", mtus)
	c.Set("groupings", []string{"each", "au"})
	var planText []string
	for _, p := range plans {
		names := []string{}
		for _, x := range p.types {
			names = append(names, x.Name)
		}
		planText = append(planText, fmt.Sprintf("%s: all sequences of length 0..%d over types %v x sizes %v", p.codec, p.length, names, p.sizes))
	}
	c.Set("plans", planText)

	for _, p := range plans {
		var opts []c35Opt
		for _, tp := range p.types {
			for _, s := range p.sizes {
				if s < len(tp.Hdr)+1 {
					continue
				}
				opts = append(opts, c35Opt{tp, s})
			}
		}
		var cfgs []c35Cfg
		for _, m := range mtus {
			for _, g := range []string{"each", "au"} {
				for _, na := range []bool{false, true} {
					cfgs = append(cfgs, c35Cfg{p.codec, m, g, na})
				}
			}
		}
		for l := 0; l <= p.length; l++ {
			dims := []int{len(cfgs)}
			for i := 0; i < l; i++ {
				dims = append(dims, len(opts))
			}
			total := vkit.ProductSize(dims...)
			c.Add(p.codec+"_cases", total)
			length := l
			vkit.Parallel(total, func(i int) {
				ix := vkit.ProductIndex(i, dims...)
				seq := make([]c35Opt, length)
				for k := 0; k < length; k++ {
					seq[k] = opts[ix[1+k]]
				}
				c35Eval(c, cfgs[ix[0]], seq)
			})
			if e := c35HarnessErr.Load(); e != nil {
				vkit.Fatalf(t, "%v", e)
			}
		}
	}
	c.Sample(c35Case{"h264", []string{"nonIDR/100", "IDR/2000", "nonIDR/4"}, 1200, "each", false, []string{"single[nonIDR/100]", "fu-start[IDR 1198B]", "fu-cont+end[IDR 801B]", "single[nonIDR/4]"}})
	c.Sample(c35Case{"h265", []string{"TRAIL_N/2000", "TRAIL_R/100", "IDR_W_RADL/100"}, 1200, "each", false, []string{"fu-start[TRAIL_N ...]", "fu-cont+end[TRAIL_N ...]", "single[TRAIL_R/100]", "single[IDR_W_RADL/100]"}})
	c35FileConstructors(t, c)
	c.Sample(c35Case{"h265", []string{"VPS/4", "PPS/4", "IDR_W_RADL/100"}, 100, "au", false, []string{"agg[VPS/4 PPS/4 ...]"}})
}
