package webrtc

// C05 — Queued negotiation work runs serially, in order, exactly once.
// Every interleaving (up to a preemption bound) of small closed harnesses around
// the real operations queue (operations.go), under the controlled scheduler.

import (
	"encoding/json"
	"fmt"
	"sort"
	"strings"
	"sync"
	"testing"
	"time"

	"github.com/pion/webrtc/v4/internal/verif/vatomic"
	"github.com/pion/webrtc/v4/internal/verif/vkit"
	"github.com/pion/webrtc/v4/internal/verif/vsched"
)

type c05Obs struct {
	clock    int
	inflight int
	overlap  string
	runs     map[string]int
	callT    map[string]int
	retT     map[string]int
	startT   map[string]int
	endT     map[string]int
	order    []string
	ev       map[string]int // named harness events (doneCall, doneRet, closeCall, closeRet)
	negCalls int
}

func newC05Obs() *c05Obs {
	return &c05Obs{
		runs: map[string]int{}, callT: map[string]int{}, retT: map[string]int{},
		startT: map[string]int{}, endT: map[string]int{}, ev: map[string]int{},
	}
}

func (o *c05Obs) tick() int { o.clock++; return o.clock }

func (o *c05Obs) item(name string, inner func()) operation {
	return func() {
		o.inflight++
		if o.inflight > 1 {
			o.overlap = name
		}
		o.startT[name] = o.tick()
		o.runs[name]++
		o.order = append(o.order, name)
		vsched.Yield("item-body")
		if inner != nil {
			inner()
		}
		o.endT[name] = o.tick()
		o.inflight--
	}
}

func (o *c05Obs) enqueue(q *operations, name string, inner func()) {
	o.callT[name] = o.tick()
	q.Enqueue(o.item(name, inner))
	o.retT[name] = o.tick()
}

type c05Scenario struct {
	name string
	// body builds the queue and spawns the harness threads; it returns the names of
	// items that MUST run exactly once, those that MAY run at most once, and those that must NOT run.
	body func(o *c05Obs)
}

func c05Scenarios() []c05Scenario {
	mk := func(o *c05Obs) *operations {
		flag := &vatomic.Bool{}

		return newOperations(flag, func() { o.negCalls++ })
	}

	return []c05Scenario{
		{name: "H1-two-enqueuers-nested-done", body: func(o *c05Obs) {
			q := mk(o)
			vsched.GoNamed("enqA", func() {
				o.enqueue(q, "A", func() { o.enqueue(q, "A2", nil) })
			})
			vsched.GoNamed("enqB", func() { o.enqueue(q, "B", nil) })
			vsched.GoNamed("done", func() {
				o.ev["doneCall"] = o.tick()
				q.Done()
				o.ev["doneRet"] = o.tick()
			})
		}},
		{name: "H1b-sequential-enqueues-done", body: func(o *c05Obs) {
			q := mk(o)
			vsched.GoNamed("enqAB", func() {
				o.enqueue(q, "A", nil)
				o.enqueue(q, "B", nil)
				o.enqueue(q, "C", nil)
			})
			vsched.GoNamed("done", func() {
				o.ev["doneCall"] = o.tick()
				q.Done()
				o.ev["doneRet"] = o.tick()
			})
		}},
		{name: "H1c-two-waiters-enqueue-between", body: func(o *c05Obs) {
			// two Done() calls in flight at once with an Enqueue between them: the later waiter must not be
			// satisfied by whatever satisfies the earlier one
			q := mk(o)
			vsched.GoNamed("enqAB", func() {
				o.enqueue(q, "A", nil)
				o.enqueue(q, "B", nil)
			})
			vsched.GoNamed("done", func() {
				o.ev["doneCall"] = o.tick()
				q.Done()
				o.ev["doneRet"] = o.tick()
			})
			vsched.GoNamed("done2", func() {
				o.ev["done2Call"] = o.tick()
				q.Done()
				o.ev["done2Ret"] = o.tick()
			})
		}},
		{name: "H2-enqueue-close-late-done", body: func(o *c05Obs) {
			q := mk(o)
			vsched.GoNamed("enqAB", func() {
				o.enqueue(q, "A", nil)
				o.enqueue(q, "B", nil)
			})
			vsched.GoNamed("closer", func() {
				o.ev["closeCall"] = o.tick()
				q.GracefulClose()
				o.ev["closeRet"] = o.tick()
				o.enqueue(q, "L", nil)
			})
			vsched.GoNamed("done", func() {
				o.ev["doneCall"] = o.tick()
				q.Done()
				o.ev["doneRet"] = o.tick()
			})
		}},
		{name: "H2b-two-closers", body: func(o *c05Obs) {
			q := mk(o)
			vsched.GoNamed("enqA", func() { o.enqueue(q, "A", nil) })
			vsched.GoNamed("closer1", func() {
				q.GracefulClose()
				o.ev["closeRet"] = o.tick()
				o.enqueue(q, "L", nil)
			})
			vsched.GoNamed("closer2", func() {
				q.GracefulClose()
				o.ev["close2Ret"] = o.tick()
			})
		}},
		{name: "H3-negotiation-flag", body: func(o *c05Obs) {
			flag := &vatomic.Bool{}
			var q *operations
			q = newOperations(flag, func() {
				o.negCalls++
				if o.inflight > 0 {
					o.overlap = "negotiationNeeded"
				}
			})
			vsched.GoNamed("enqA", func() {
				o.enqueue(q, "A", nil)
				o.enqueue(q, "B", nil)
			})
			vsched.GoNamed("flagger", func() {
				// what PeerConnection.onNegotiationNeeded does
				if !q.IsEmpty() {
					flag.Store(true)
					o.ev["flagSet"] = o.tick()
				} else {
					o.enqueue(q, "N", nil)
				}
			})
			vsched.GoNamed("done", func() {
				o.ev["doneCall"] = o.tick()
				q.Done()
				o.ev["doneRet"] = o.tick()
			})
		}},
	}
}

// c05Judge evaluates the oracle on one finished execution; returns (key, what) or "".
func c05Judge(sc string, o *c05Obs, r *vsched.Result) (string, string) {
	if r.Outcome == vsched.Panicked {
		return sc + "|panic", "panic: " + r.PanicValue
	}
	if o.overlap != "" {
		return sc + "|overlap", fmt.Sprintf("two queue items in flight at once (second: %s)", o.overlap)
	}
	closeCall, closing := o.ev["closeCall"]
	if _, ok := o.ev["closeRet"]; ok && !closing {
		closing = true
		closeCall = 0
	}
	names := make([]string, 0, len(o.callT))
	for n := range o.callT {
		names = append(names, n)
	}
	sort.Strings(names)
	for _, n := range names {
		runs := o.runs[n]
		if runs > 1 {
			return sc + "|ran-twice|" + n, fmt.Sprintf("item %s ran %d times", n, runs)
		}
		ret, returned := o.retT[n]
		if cr, ok := o.ev["closeRet"]; ok && o.callT[n] > cr {
			if runs != 0 {
				return sc + "|ran-after-close|" + n, fmt.Sprintf("item %s enqueued after GracefulClose returned but ran", n)
			}

			continue
		}
		mustRun := returned && (!closing || ret < closeCall)
		if _, twoClosers := o.ev["close2Ret"]; twoClosers {
			mustRun = false
		}
		if mustRun && runs != 1 {
			return sc + "|never-ran|" + n,
				fmt.Sprintf("item %s was enqueued (Enqueue returned before any close was called) but never ran; outcome %s, blocked %v",
					n, r.Outcome, r.Blocked)
		}
	}
	// GracefulClose "waits for the operations queue to be cleared": with a single closer, whatever runs at all
	// has finished when the close returns (a second closer finds the queue closed and returns at once, so the
	// clause is not judged when two closers race)
	if cr, ok := o.ev["closeRet"]; ok {
		if _, two := o.ev["close2Ret"]; !two {
			for _, n := range names {
				if o.runs[n] != 1 {
					continue
				}
				if end, ok := o.endT[n]; !ok || end > cr {
					return sc + "|close-returned-before-accepted-item-finished|" + n,
						fmt.Sprintf("GracefulClose returned (tick %d) although item %s, which the queue accepted, had not finished (order %v)", cr, n, o.order)
				}
			}
		}
	}
	// FIFO with respect to the real-time order of Enqueue calls
	for _, x := range names {
		for _, y := range names {
			if o.runs[x] == 1 && o.runs[y] == 1 && o.retT[x] != 0 && o.retT[x] < o.callT[y] && o.startT[x] > o.startT[y] {
				return sc + "|order|" + x + "-after-" + y, fmt.Sprintf("Enqueue(%s) returned before Enqueue(%s) was called, but %s ran first (order %v)", x, y, y, o.order)
			}
		}
	}
	// Done
	// (not judged when a close was requested before the wait began: the waiter itself is then "queued later")
	for _, w := range []string{"done", "done2"} {
		dc, ok := o.ev[w+"Call"]
		if !ok {
			continue
		}
		dr, returned := o.ev[w+"Ret"]
		if !returned {
			// Done returns at once when its waiter is refused, so the waiter was accepted and never ran
			return sc + "|done-never-returns", fmt.Sprintf("Done() never returned; outcome %s, blocked %v", r.Outcome, r.Blocked)
		}
		for _, n := range names {
			if closing && closeCall < dr {
				break // a close was requested while (or before) waiting: Done may legitimately be refused
			}
			if ret, ok := o.retT[n]; ok && ret < dc && o.runs[n] == 1 {
				if end, ok := o.endT[n]; !ok || end > dr {
					return sc + "|done-early|" + n, fmt.Sprintf("Done() returned before item %s (enqueued before the wait) finished", n)
				}
			}
			if ret, ok := o.retT[n]; ok && ret < dc && o.runs[n] == 0 && !closing {
				return sc + "|done-early-norun|" + n, fmt.Sprintf("Done() returned but item %s (enqueued before) never ran", n)
			}
		}
	}
	if r.Outcome != vsched.Completed {
		return sc + "|" + r.Outcome.String() + "|" + c05Blocked(r), fmt.Sprintf("execution ended with %s: %v %s", r.Outcome, r.Blocked, r.PanicValue)
	}

	return "", ""
}

func c05Blocked(r *vsched.Result) string {
	var s []string
	for _, b := range r.Blocked {
		s = append(s, b.Name+":"+b.Op)
	}

	return strings.Join(s, ",")
}

func TestVerifC05(t *testing.T) {
	c := vkit.New("C05", "model_checking")
	defer c.Finish(t)
	bound := c.Pick(2, 3)
	c.Rule(fmt.Sprintf("every interleaving with at most %d preemptions of each closed harness around the real operations queue (scheduling point before every mutex, atomic, channel, waitgroup and goroutine operation); states = distinct scheduler choice points visited, transitions = scheduling steps executed; distinct = distinct final observations (run order, return order)", bound))
	c.Set("preemption_bound", bound)
	c.Assume("sequentially consistent memory")
	deadline := c.Deadline(time.Duration(c.Pick(120, 900)) * time.Second)

	scs := c05Scenarios()
	replaySc, replayChoices := "", []int(nil)
	if raw, ok := c.ReplayCase(); ok {
		var rc struct {
			Scenario string `json:"scenario"`
			Choices  []int  `json:"choices"`
		}
		if err := json.Unmarshal(raw, &rc); err == nil {
			replaySc, replayChoices = rc.Scenario, rc.Choices
		}
	}
	var mu sync.Mutex
	perScenario := map[string]any{}
	vkit.ParallelN(len(scs), len(scs), func(i int) {
		sc := scs[i]
		if replaySc != "" && replaySc != sc.name {
			return
		}
		var cur *c05Obs
		body := func() {
			cur = newC05Obs()
			sc.body(cur)
		}
		check := func(r *vsched.Result) bool {
			c.Eval()
			c.Validated()
			c.TransitionN(r.Steps)
			if r.Outcome == vsched.Nondeterminism || r.Outcome == vsched.Horizon {
				fmt.Printf("VERIF-ERROR C05 %s: %s %s\n", sc.name, r.Outcome, r.PanicValue)
				c.NotExhaustive(sc.name + ": " + r.Outcome.String())

				return false
			}
			obsKey := fmt.Sprintf("%s|%v|neg=%d|%s", sc.name, cur.order, cur.negCalls, r.Outcome)
			c.Outcome(obsKey)
			c.Distinct(obsKey)
			if key, what := c05Judge(sc.name, cur, r); key != "" {
				// confirm: the same schedule must fail the same way
				for k := 0; k < 2; k++ {
					r2 := vsched.Run(vsched.Config{}, r.Choices, nil, body)
					if key2, _ := c05Judge(sc.name, cur, r2); key2 != key {
						fmt.Printf("VERIF-ERROR C05 %s: violation %q not reproducible (%q)\n", sc.name, key, key2)
						c.NotExhaustive("irreproducible violation")

						return false
					}
				}
				tr := vsched.Run(vsched.Config{Trace: true}, r.Choices, nil, body)
				c.Violation(key, what, map[string]any{"scenario": sc.name, "choices": r.Choices, "preemptions": r.Preemptions, "trace": tr.Trace})
			}

			return true
		}
		if replaySc != "" {
			r := vsched.Run(vsched.Config{}, replayChoices, nil, body)
			check(r)

			return
		}
		var st vsched.Stats
		done := -1
		for b := 0; b <= bound; b++ {
			st = vsched.Explore(vsched.Config{Bound: b, StopAfter: func() bool { return time.Now().After(deadline) }}, body, check)
			if st.Capped {
				c.NotExhaustive(fmt.Sprintf("%s: budget hit at preemption bound %d", sc.name, b))

				break
			}
			done = b
		}
		mu.Lock()
		perScenario[sc.name] = map[string]any{"bound_completed": done, "executions_at_last_bound": st.Executions, "by_preemptions": st.ByPreempt, "max_steps": st.MaxSteps, "threads": st.MaxThreads, "control_states": st.States}
		c.Add("choice_points", st.ChoicePts)
		mu.Unlock()
		for k := 0; k < st.States; k++ {
			c.State(fmt.Sprintf("%s/%d", sc.name, k))
		}
	})
	c.Set("scenarios", perScenario)
	c.Sample(map[string]any{"scenario": scs[0].name, "threads": "enqA{Enqueue(A{Enqueue(A2)})} || enqB{Enqueue(B)} || done{Done()}"})
}
