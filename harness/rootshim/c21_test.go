package webrtc

// C21 — Close is idempotent, concurrency-safe and final.
// Every interleaving (preemption bounded) of 1-3 Close/GracefulClose callers and one concurrent
// API caller or ICE callback, on real PeerConnections at three stages, under the controlled scheduler.

import (
	"encoding/json"
	"fmt"
	"strings"
	"sync"
	"testing"
	"time"

	"github.com/pion/ice/v4"
	"github.com/pion/webrtc/v4/internal/verif/vkit"
	"github.com/pion/webrtc/v4/internal/verif/vsched"
)

type c21Scenario struct {
	Stage   string `json:"stage"`
	Closers string `json:"closers"` // e.g. "CG": one Close caller and one GracefulClose caller
	Extra   string `json:"extra"`   // none, AddTrack, CreateDataChannel, ICE-disconnected, ICE-failed, SetLocalDescription
}

func (s c21Scenario) name() string { return s.Stage + "|" + s.Closers + "|" + s.Extra }

func c21Scenarios(quick bool) []c21Scenario {
	if quick {
		// a cross-section: every stage, every closer kind, every kind of concurrent caller
		return []c21Scenario{
			{"fresh", "C", "SetLocalDescription"}, {"fresh", "G", "AddTrack"}, {"fresh", "CG", "none"}, {"fresh", "GG", "none"},
			{"fresh", "CC", "CreateDataChannel"}, {"fresh", "CCG", "none"},
			{"have-local-offer", "C", "AddTrack"}, {"have-local-offer", "G", "CreateDataChannel"}, {"have-local-offer", "CG", "none"},
			{"have-local-offer", "CGG", "none"},
			{"stable", "C", "none"}, {"stable", "G", "none"}, {"stable", "CG", "none"}, {"stable", "C", "ICE-disconnected"},
			{"stable", "G", "ICE-failed"}, {"stable", "C", "CreateDataChannel"}, {"stable", "CGG", "none"},
		}
	}
	var out []c21Scenario
	closers := []string{"C", "G", "CC", "CG", "GG", "CCG", "CGG"}
	for _, st := range []string{"fresh", "have-local-offer", "stable"} {
		for _, cl := range closers {
			extras := []string{"none", "AddTrack", "CreateDataChannel"}
			if st == "stable" {
				extras = append(extras, "ICE-disconnected", "ICE-failed")
			}
			if st == "fresh" {
				extras = append(extras, "SetLocalDescription")
			}
			for _, ex := range extras {
				if len(cl) == 3 && ex != "none" {
					continue
				}
				out = append(out, c21Scenario{st, cl, ex})
			}
		}
	}

	return out
}

func c21Body(t *testing.T, sc c21Scenario) (func(), *vpWorld) {
	w := &vpWorld{}

	return func() {
		vsched.SetBranching(false)
		x := vpNewX(t, w)
		vpStage(t, w, sc.Stage)
		vsched.Quiesce()
		vsched.SetBranching(true)
		for i, k := range sc.Closers {
			name := fmt.Sprintf("closer%d-%c", i, k)
			graceful := k == 'G'
			vsched.GoNamed(name, func() {
				var err error
				if graceful {
					err = x.GracefulClose()
					// "once GracefulClose returns, no goroutine started by the connection is still running"
					vsched.WatchRunningInternal()
				} else {
					err = x.Close()
				}
				w.errs[name] = err
				w.done[name] = true
			})
		}
		switch sc.Extra {
		case "AddTrack":
			vsched.GoNamed("api", func() {
				tr, _ := NewTrackLocalStaticSample(RTPCodecCapability{MimeType: MimeTypeOpus, ClockRate: 48000, Channels: 2}, "c", "s")
				_, err := x.AddTrack(tr)
				w.errs["api"] = err
				w.done["api"] = true
			})
		case "CreateDataChannel":
			vsched.GoNamed("api", func() {
				_, err := x.CreateDataChannel("y", nil)
				w.errs["api"] = err
				w.done["api"] = true
			})
		case "SetLocalDescription":
			vsched.GoNamed("api", func() {
				o, err := x.CreateOffer(nil)
				if err == nil {
					err = x.SetLocalDescription(o)
				}
				w.errs["api"] = err
				w.done["api"] = true
			})
		case "ICE-disconnected", "ICE-failed":
			st := ice.ConnectionStateDisconnected
			if sc.Extra == "ICE-failed" {
				st = ice.ConnectionStateFailed
			}
			vsched.GoNamed("ice-agent", func() {
				if !vpDeliverICE(st) {
					w.note("no captured ICE callback")
				}
				w.done["ice-agent"] = true
			})
		}
	}, w
}

// c21Judge returns violations as (key, what) pairs.
func c21Judge(sc c21Scenario, w *vpWorld, r *vsched.Result) (string, string) {
	if r.Outcome == vsched.Panicked {
		return "panic|" + sc.Stage + "|" + vpFirstFrame(r.PanicStack), "panic: " + r.PanicValue + "\n" + r.PanicStack
	}
	if r.Outcome != vsched.Completed {
		var b []string
		for _, x := range r.Blocked {
			b = append(b, x.Name+":"+x.Op)
		}

		return fmt.Sprintf("%s|%s|closers=%s|%s", r.Outcome, sc.Stage, sc.Closers, strings.Join(b, ",")),
			fmt.Sprintf("scenario %s: not every call returned (%s): blocked %v", sc.name(), r.Outcome, r.Blocked)
	}
	if s := w.x.SignalingState(); s != SignalingStateClosed {
		return "signaling-not-closed|" + sc.Stage, fmt.Sprintf("scenario %s: signaling state %s after all closers returned", sc.name(), s)
	}
	if s := w.x.ConnectionState(); s != PeerConnectionStateClosed {
		return "connection-not-closed|" + sc.Stage + "|extra=" + sc.Extra, fmt.Sprintf("scenario %s: connection state %s after all closers returned (handler saw %v)", sc.name(), s, w.connStates)
	}
	closedSeen := false
	for _, s := range w.connStates {
		if closedSeen && s != "closed" {
			return "handler-reports-state-after-closed", fmt.Sprintf("scenario %s: connection-state handler reported %v (final state closed)", sc.name(), w.connStates)
		}
		if s == "closed" {
			closedSeen = true
		}
	}
	if len(r.Watched) > 0 {
		return "goroutine-after-gracefulclose|" + sc.Stage, fmt.Sprintf("scenario %s: goroutines started by the connection kept working after GracefulClose returned (operations other than releasing locks): %v", sc.name(), r.Watched)
	}
	if bad := vpPostCloseCalls(w.x); len(bad) > 0 {
		names := []string{}
		for _, b := range bad {
			names = append(names, strings.SplitN(b, ":", 2)[0])
		}

		return "post-close-call-accepted|" + strings.Join(names, ","), fmt.Sprintf("scenario %s: after close these calls did not return InvalidStateError: %v", sc.name(), bad)
	}

	return "", ""
}

func vpFirstFrame(stack string) string {
	for _, l := range strings.Split(stack, "\n") {
		if strings.Contains(l, "pion/webrtc/v4.") && !strings.Contains(l, "verif") {
			if i := strings.LastIndex(l, "("); i > 0 {
				l = l[:i]
			}
			if j := strings.LastIndex(l, "/"); j >= 0 {
				l = l[j+1:]
			}

			return l
		}
	}

	return "unknown"
}

func TestVerifC21(t *testing.T) {
	c := vkit.New("C21", "model_checking")
	defer c.Finish(t)
	vsched.ICEMode.Store(vsched.ICEBlock)
	vpPool(t)
	bound := c.Pick(1, 2)
	scs := c21Scenarios(c.Quick())
	c.Rule(fmt.Sprintf("%d scenarios = stage {fresh, have-local-offer, stable with startTransports blocked in the ICE connect seam} x closer multiset {C,G,CC,CG,GG,CCG,CGG} x concurrent {none, AddTrack, CreateDataChannel, SetLocalDescription, ICE agent callback disconnected/failed}; for each, every interleaving with <= %d preemptions of the whole shimmed package on real PeerConnections; oracle: every call returns (deadlock detection by the scheduler model), final signaling and connection state closed, no non-closed state reported after closed, nothing started by the connection still running when GracefulClose returns, and 10 negotiation-changing calls return InvalidStateError afterwards; distinct = (scenario, handler sequence, return values)", len(scs), bound))
	c.Set("preemption_bound", bound)
	c.Assume("ICE agent goroutines are outside the scheduler: their callbacks are captured and delivered by a harness thread; library-internal locks are not scheduling points")
	deadline := c.Deadline(time.Duration(c.Pick(150, 1500)) * time.Second)

	if raw, ok := c.ReplayCase(); ok {
		var rc struct {
			Scenario c21Scenario `json:"scenario"`
			Choices  []int       `json:"choices"`
		}
		if err := json.Unmarshal(raw, &rc); err != nil {
			vkit.Fatalf(t, "replay: %v", err)
		}
		body, w := c21Body(t, rc.Scenario)
		r := vsched.Run(vsched.Config{}, rc.Choices, nil, body)
		c.Eval()
		c.State("replay")
		c.Transition()
		c.Validated()
		if key, what := c21Judge(rc.Scenario, w, r); key != "" {
			c.Violation(key, what, rc)
		}
		c.Sample(rc)

		return
	}

	var mu sync.Mutex
	per := map[string]any{}
	capped := 0
	for _, sc := range scs {
		sc := sc
		check := func(r *vsched.Result, obs any) bool {
			w, _ := obs.(*vpWorld)
			c.Eval()
			c.Validated()
			c.TransitionN(r.Steps)
			if r.Outcome == vsched.Nondeterminism || r.Outcome == vsched.Horizon {
				fmt.Printf("VERIF-NOTE C21 %s: %s %s\n", sc.name(), r.Outcome, r.PanicValue)
				c.NotExhaustive(sc.name() + ": " + r.Outcome.String())

				return true
			}
			key, what := c21Judge(sc, w, r)
			obsKey := fmt.Sprintf("%s|%v|%v", sc.name(), w.connStates, key)
			c.Outcome(obsKey)
			c.Distinct(obsKey)
			if key != "" {
				// confirm twice on fresh objects
				for k := 0; k < 2; k++ {
					body2, w2 := c21Body(t, sc)
					r2 := vsched.Run(vsched.Config{}, r.Choices, nil, body2)
					if key2, _ := c21Judge(sc, w2, r2); key2 != key {
						fmt.Printf("VERIF-NOTE C21 %s: violation %q not reproducible (%q, %s)\n", sc.name(), key, key2, r2.Outcome)
						c.NotExhaustive("irreproducible: " + key)

						return true
					}
				}
				c.Violation(key, what, map[string]any{"scenario": sc, "choices": r.Choices, "preemptions": r.Preemptions})
			}

			return true
		}
		// iterate the bound; a scenario whose non-preemptive schedules alone are numerous is
		// completed at bound 0 only when the estimate for the next bound exceeds the per-scenario cap
		var st vsched.Stats
		completed := -1
		perScenarioCap := c.Pick(40000, 3000000)
		if sc.Stage == "stable" && sc.Closers == "C" && sc.Extra == "ICE-disconnected" {
			perScenarioCap = c.Pick(400000, 30000000) // the close-vs-ICE-callback window needs one preemption
		}
		for b := 0; b <= bound; b++ {
			if b > 0 && st.Executions*st.MaxSteps*2 > perScenarioCap {
				break
			}
			st = vsched.ExploreP(vsched.Config{Bound: b, Workers: vkit.Workers(), MaxSteps: 50000, StopAfter: func() bool { return time.Now().After(deadline) }},
				func() (func(), any) { b, w := c21Body(t, sc); return b, w }, check)
			if st.Capped {
				break
			}
			completed = b
		}
		mu.Lock()
		per[sc.name()] = map[string]any{"executions": st.Executions, "by_preemptions": st.ByPreempt, "max_steps": st.MaxSteps, "threads": st.MaxThreads, "control_states": st.States, "bound_completed": completed}
		mu.Unlock()
		for k := 0; k < st.States; k++ {
			c.State(fmt.Sprintf("%s/%d", sc.name(), k))
		}
		if st.Capped {
			capped++
			c.NotExhaustive(sc.name() + ": time budget hit")
		}
		if completed < bound {
			c.Add("scenarios_below_target_bound", 1)
		}
	}
	c.Set("scenarios", per)
	c.Set("scenarios_capped", capped)
	c.Sample(map[string]any{"scenario": scs[len(scs)/2], "threads": "closers + api/ice thread + operations worker + handler goroutines"})
}
