package webrtc

// C24 — Each local ICE candidate is reported once, then exactly one end-of-gathering.
// Every interleaving (preemption bounded) of the ICE agent's candidate callbacks with
// SetLocalDescription (which flushes the candidate pool), with and without a candidate pool,
// on real PeerConnections under the controlled scheduler. The agent's callback is captured by
// the rewriter and delivered by a harness thread with real ice.Candidate values.

import (
	"encoding/json"
	"fmt"
	"strings"
	"testing"
	"time"

	"github.com/pion/ice/v4"
	"github.com/pion/webrtc/v4/internal/verif/vkit"
	"github.com/pion/webrtc/v4/internal/verif/vsched"
)

type c24Scenario struct {
	Pool   uint8  `json:"pool"`
	NCand  int    `json:"candidates"`
	Extra  string `json:"extra"`  // none | second-flush (SetLocalDescription of a re-created offer is not possible; a second flushCandidates as the tail of another SLD)
	Direct bool   `json:"direct"` // drive the ICEGatherer seam directly instead of PeerConnection.SetLocalDescription
}

func (s c24Scenario) name() string {
	return fmt.Sprintf("pool=%d|cands=%d|%s|direct=%v", s.Pool, s.NCand, s.Extra, s.Direct)
}

type c24Obs struct {
	seq   []string
	notes []string
}

func c24Cand(i int) ice.Candidate {
	c, err := ice.NewCandidateHost(&ice.CandidateHostConfig{Network: "udp", Address: fmt.Sprintf("192.0.2.%d", i+1), Port: 40000 + i, Component: 1})
	if err != nil {
		panic(err)
	}

	return c
}

func c24Deliver(c ice.Candidate) bool {
	cbs := vsched.Captured("OnCandidate")
	if len(cbs) == 0 {
		return false
	}
	f, ok := cbs[len(cbs)-1].(func(ice.Candidate))
	if !ok {
		return false
	}
	f(c)

	return true
}

func c24Body(t *testing.T, sc c24Scenario) (func(), *c24Obs) {
	o := &c24Obs{}

	return func() {
		vsched.SetBranching(false)
		cfg := Configuration{ICECandidatePoolSize: sc.Pool}
		x := vNewPC(t, vNewAPI(t, vAPIOpts{}), &cfg)
		x.OnICECandidate(func(c *ICECandidate) {
			// a user handler takes time: other threads may run while it does (scheduling point)
			vsched.Yield("user-handler")
			if c == nil {
				o.seq = append(o.seq, "nil")
			} else {
				o.seq = append(o.seq, c.Address)
			}
		})
		if _, err := x.CreateDataChannel("x", nil); err != nil {
			vkit.Fatalf(t, "dc: %v", err)
		}
		offer, err := x.CreateOffer(nil)
		if err != nil {
			vkit.Fatalf(t, "offer: %v", err)
		}
		vsched.Quiesce()
		vsched.SetBranching(true)
		sldDone := false
		vsched.GoNamed("sld", func() {
			if sc.Direct {
				x.iceGatherer.setMediaStreamIdentification("0", 0)
				x.iceGatherer.flushCandidates()
				if x.iceGatherer.State() == ICEGathererStateNew {
					if err := x.iceGatherer.Gather(); err != nil {
						o.notes = append(o.notes, "gather: "+err.Error())
					}
				}
			} else if err := x.SetLocalDescription(offer); err != nil {
				o.notes = append(o.notes, "sld: "+err.Error())
			}
			sldDone = true
		})
		vsched.GoNamed("agent", func() {
			// the agent can only call back once Gather registered the callback
			vsched.Wait("agent-wait-gather", func() bool { return len(vsched.Captured("OnCandidate")) > 0 })
			for i := 0; i < sc.NCand; i++ {
				c24Deliver(c24Cand(i))
			}
			c24Deliver(nil)
		})
		if sc.Extra == "second-flush" {
			vsched.GoNamed("sld2", func() {
				// a later SetLocalDescription (renegotiation) ends with the same flush
				vsched.Wait("sld2-wait", func() bool { return sldDone })
				x.iceGatherer.flushCandidates()
			})
		}
		// the PeerConnection is closed by the explorer after the execution (outside the controller)
		c24Keep(o, x)
	}, o
}

var c24PCs = map[*c24Obs]*PeerConnection{}
var c24Mu vsyncMutex

// vsyncMutex is a plain mutex for harness bookkeeping (never a scheduling point).
type vsyncMutex struct{ ch chan struct{} }

func (m *vsyncMutex) lock() {
	if m.ch == nil {
		panic("uninitialised")
	}
	m.ch <- struct{}{}
}
func (m *vsyncMutex) unlock() { <-m.ch }

func init() { c24Mu.ch = make(chan struct{}, 1) }

func c24Keep(o *c24Obs, x *PeerConnection) {
	c24Mu.lock()
	c24PCs[o] = x
	c24Mu.unlock()
}

// c24Release closes the connection of a finished execution. After an aborted execution (deadlock,
// panic) real locks may still be held by torn-down threads, so the object is only dropped then.
func c24Release(o *c24Obs, r *vsched.Result) {
	c24Mu.lock()
	x := c24PCs[o]
	delete(c24PCs, o)
	c24Mu.unlock()
	if x != nil && r != nil && r.Outcome == vsched.Completed {
		_ = x.Close()
	}
}

func c24Judge(sc c24Scenario, o *c24Obs, r *vsched.Result) (string, string) {
	if r.Outcome == vsched.Panicked {
		return "panic|" + vpFirstFrame(r.PanicStack), "panic: " + r.PanicValue
	}
	if r.Outcome != vsched.Completed {
		return fmt.Sprintf("%s|pool=%d", r.Outcome, sc.Pool), fmt.Sprintf("scenario %s ended with %s: %v", sc.name(), r.Outcome, r.Blocked)
	}
	if len(o.notes) > 0 {
		return "", "" // SetLocalDescription itself failed: nothing to judge (reported as machinery note)
	}
	seq := strings.Join(o.seq, " ")
	nils := 0
	seen := map[string]int{}
	afterNil := false
	for _, s := range o.seq {
		if s == "nil" {
			nils++
			afterNil = true

			continue
		}
		seen[s]++
		if afterNil {
			return fmt.Sprintf("candidate-after-end-of-gathering|pool=%d", sc.Pool), fmt.Sprintf("scenario %s: OnICECandidate sequence [%s]: a candidate is reported after the nil marker", sc.name(), seq)
		}
	}
	for a, n := range seen {
		if n > 1 {
			return fmt.Sprintf("candidate-twice|pool=%d", sc.Pool), fmt.Sprintf("scenario %s: OnICECandidate sequence [%s]: %s reported %d times", sc.name(), seq, a, n)
		}
	}
	if len(seen) != sc.NCand {
		return fmt.Sprintf("candidate-lost|pool=%d", sc.Pool), fmt.Sprintf("scenario %s: OnICECandidate sequence [%s]: %d of %d gathered candidates reported", sc.name(), seq, len(seen), sc.NCand)
	}
	if nils != 1 {
		return fmt.Sprintf("end-of-gathering-x%d|pool=%d", nils, sc.Pool), fmt.Sprintf("scenario %s: OnICECandidate sequence [%s]: the nil marker was reported %d times", sc.name(), seq, nils)
	}

	return "", ""
}

func TestVerifC24(t *testing.T) {
	c := vkit.New("C24", "model_checking")
	defer c.Finish(t)
	vsched.ICEMode.Store(vsched.ICEFailFast)
	bound := c.Pick(2, 3)
	scs := []c24Scenario{
		{0, 2, "none", false}, {1, 2, "none", false}, {1, 1, "none", false}, {1, 0, "none", false},
		{0, 2, "none", true}, {1, 2, "none", true}, {1, 2, "second-flush", true}, {0, 1, "second-flush", true}, {0, 1, "second-flush", false},
		// enough candidates for a batch of two to be under report while two more are pooled (storage shared
		// between the batch being reported and the live pool shows only then)
		{1, 4, "none", true}, {1, 4, "none", false},
	}
	c.Rule(fmt.Sprintf("%d scenarios (candidate pool size 0/1 x 0-4 gathered candidates x SetLocalDescription on a PeerConnection or the gatherer seam, optionally a second flush); for each, every interleaving with <= %d preemptions of the agent callback thread (c1, c2, nil) with the flushing thread, exploration starting at quiescence after CreateOffer; oracle: the OnICECandidate sequence is the gathered candidates each once, then exactly one nil, nothing after; distinct = (scenario, reported sequence)", len(scs), bound))
	c.Set("preemption_bound", bound)
	c.Assume("the ICE agent is environment: its candidate callback is captured and delivered by a harness thread with real ice.Candidate values in the order the agent would (candidates, then nil)")
	deadline := c.Deadline(time.Duration(c.Pick(120, 900)) * time.Second)
	if raw, ok := c.ReplayCase(); ok {
		var rc struct {
			Scenario c24Scenario `json:"scenario"`
			Choices  []int       `json:"choices"`
		}
		if err := json.Unmarshal(raw, &rc); err != nil {
			vkit.Fatalf(t, "replay: %v", err)
		}
		body, o := c24Body(t, rc.Scenario)
		r := vsched.Run(vsched.Config{}, rc.Choices, nil, body)
		c24Release(o, r)
		c.Eval()
		c.State("replay")
		c.Transition()
		c.Validated()
		if key, what := c24Judge(rc.Scenario, o, r); key != "" {
			c.Violation(key, what, rc)
		}
		c.Sample(map[string]any{"scenario": rc.Scenario, "sequence": o.seq})

		return
	}
	per := map[string]any{}
	for _, sc := range scs {
		sc := sc
		check := func(r *vsched.Result, obs any) bool {
			o, _ := obs.(*c24Obs)
			defer c24Release(o, r)
			c.Eval()
			c.Validated()
			c.TransitionN(r.Steps)
			if r.Outcome == vsched.Nondeterminism || r.Outcome == vsched.Horizon {
				fmt.Printf("VERIF-NOTE C24 %s: %s %s\n", sc.name(), r.Outcome, r.PanicValue)
				c.NotExhaustive(sc.name() + ": " + r.Outcome.String())

				return true
			}
			if len(o.notes) > 0 {
				fmt.Printf("VERIF-NOTE C24 %s: %v\n", sc.name(), o.notes)
			}
			key, what := c24Judge(sc, o, r)
			ok := fmt.Sprintf("%s|%v|%s", sc.name(), o.seq, key)
			c.Outcome(ok)
			c.Distinct(ok)
			if key != "" {
				for k := 0; k < 2; k++ {
					body2, o2 := c24Body(t, sc)
					r2 := vsched.Run(vsched.Config{}, r.Choices, nil, body2)
					key2, _ := c24Judge(sc, o2, r2)
					c24Release(o2, r2)
					if key2 != key {
						fmt.Printf("VERIF-NOTE C24 %s: violation %q not reproducible (%q)\n", sc.name(), key, key2)
						c.NotExhaustive("irreproducible: " + key)

						return true
					}
				}
				c.Violation(key, what, map[string]any{"scenario": sc, "choices": r.Choices, "preemptions": r.Preemptions, "sequence": o.seq})
			}

			return true
		}
		var st vsched.Stats
		completed := -1
		for b := 0; b <= bound; b++ {
			st = vsched.ExploreP(vsched.Config{Bound: b, Workers: vkit.Workers(), MaxSteps: 50000, StopAfter: func() bool { return time.Now().After(deadline) }},
				func() (func(), any) { b, o := c24Body(t, sc); return b, o }, check)
			if st.Capped {
				c.NotExhaustive(sc.name() + ": time budget hit")

				break
			}
			completed = b
		}
		per[sc.name()] = map[string]any{"executions": st.Executions, "by_preemptions": st.ByPreempt, "max_steps": st.MaxSteps, "threads": st.MaxThreads, "control_states": st.States, "bound_completed": completed}
		for k := 0; k < st.States; k++ {
			c.State(fmt.Sprintf("%s/%d", sc.name(), k))
		}
	}
	c.Set("scenarios", per)
	c.Sample(map[string]any{"scenario": scs[1], "threads": "agent{OnCandidate(c1), OnCandidate(c2), OnCandidate(nil)} || sld{SetLocalDescription(offer) -> flushCandidates}"})
}
