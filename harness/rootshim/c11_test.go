package webrtc

// C11 — SDP origin keeps a fixed session id and a strictly increasing version.
// (a) every sequence to a depth of description-generating calls and exchanges on one PeerConnection;
// (b) every interleaving (preemption bounded) of concurrent CreateOffer / CreateAnswer calls.

import (
	"encoding/json"
	"fmt"
	"strconv"
	"strings"
	"testing"
	"time"

	"github.com/pion/webrtc/v4/internal/verif/vkit"
	"github.com/pion/webrtc/v4/internal/verif/vsched"
)

type c11Gen struct {
	Who     string `json:"who"`
	Start   int    `json:"start"`
	End     int    `json:"end"`
	ID      uint64 `json:"id"`
	Version uint64 `json:"version"`
	Err     string `json:"err,omitempty"`
}

func c11Origin(sdpText string) (id, ver uint64, ok bool) {
	for _, l := range strings.Split(sdpText, "\n") {
		l = strings.TrimRight(l, "\r")
		if strings.HasPrefix(l, "o=") {
			f := strings.Fields(l[2:])
			if len(f) < 3 {
				return 0, 0, false
			}
			id, e1 := strconv.ParseUint(f[1], 10, 64)
			ver, e2 := strconv.ParseUint(f[2], 10, 64)

			return id, ver, e1 == nil && e2 == nil
		}
	}

	return 0, 0, false
}

// c11Judge checks a set of generated descriptions (with logical call/return times).
func c11Judge(tag string, gens []c11Gen) (string, string) {
	var ok []c11Gen
	for _, g := range gens {
		if g.Err == "" {
			ok = append(ok, g)
		}
	}
	for i, a := range ok {
		if a.ID == 0 || a.ID != ok[0].ID {
			return tag + "|session-id-differs", fmt.Sprintf("%s: descriptions carry different o= session ids: %+v", tag, ok)
		}
		for j, b := range ok {
			if i == j {
				continue
			}
			if a.Version == b.Version {
				return tag + "|version-duplicate", fmt.Sprintf("%s: two generated descriptions carry the same session version %d: %+v", tag, a.Version, ok)
			}
			if a.End < b.Start && a.Version >= b.Version {
				return tag + "|version-not-increasing", fmt.Sprintf("%s: %s finished before %s started but version %d >= %d: %+v", tag, a.Who, b.Who, a.Version, b.Version, ok)
			}
		}
	}

	return "", ""
}

type c11Scenario struct {
	Stage   string   `json:"stage"`
	Threads []string `json:"threads"` // each "O" (CreateOffer) or "A" (CreateAnswer), optionally repeated e.g. "OO"
}

func (s c11Scenario) name() string { return s.Stage + "|" + strings.Join(s.Threads, ",") }

type c11Obs struct {
	gens  []c11Gen
	clock int
	x     *PeerConnection
}

func c11Body(t *testing.T, sc c11Scenario) (func(), *c11Obs) {
	o := &c11Obs{}

	return func() {
		vsched.SetBranching(false)
		w := &vpWorld{}
		x := vpNewX(t, w)
		o.x = x
		vpStage(t, w, sc.Stage)
		vsched.Quiesce()
		trs := x.GetTransceivers() // fetched here: GetTransceivers waits for the lock a running CreateOffer holds
		vsched.SetBranching(true)
		for i, prog := range sc.Threads {
			name := fmt.Sprintf("gen%d-%s", i, prog)
			prog := prog
			vsched.GoNamed(name, func() {
				for k, ch := range prog {
					if ch == 'T' {
						// the application stops a transceiver while descriptions are being generated: an offer
						// that no longer matches the transceivers when it is finished is computed again
						if len(trs) > 0 {
							_ = trs[0].Stop()
						}

						continue
					}
					g := c11Gen{Who: fmt.Sprintf("%s#%d", name, k)}
					o.clock++
					g.Start = o.clock
					var d SessionDescription
					var err error
					if ch == 'O' {
						d, err = x.CreateOffer(nil)
					} else {
						d, err = x.CreateAnswer(nil)
					}
					o.clock++
					g.End = o.clock
					if err != nil {
						g.Err = err.Error()
					} else if id, ver, ok := c11Origin(d.SDP); ok {
						g.ID, g.Version = id, ver
					} else {
						g.Err = "no o= line"
					}
					o.gens = append(o.gens, g)
				}
			})
		}
	}, o
}

func c11Sequential(t *testing.T, c *vkit.Check) {
	// alphabet: O CreateOffer, A CreateAnswer, X full exchange as offerer (pool answer), Y full exchange as answerer
	// (pool offer); and the halves of an exchange on their own, so that a description can be applied after a
	// newer one of the other type was created: R SetRemoteDescription(pool offer), S SetRemoteDescription(pool
	// answer), P SetLocalDescription(last created offer), Q SetLocalDescription(last created answer)
	offer, answer := vpPool(t)
	depth := c.Pick(5, 6)
	alpha := []byte("OAXYRSPQ")
	seqs := vkit.AllSequences(len(alpha), 1, depth)
	c.Set("sequential_histories", len(seqs))
	vkit.Parallel(len(seqs), func(i int) {
		w := &vpWorld{}
		x := vpNewX(t, w)
		defer func() { _ = x.Close() }()
		var gens []c11Gen
		clock := 0
		rec := func(who string, d SessionDescription, err error) {
			clock += 2
			g := c11Gen{Who: who, Start: clock - 1, End: clock}
			if err != nil {
				g.Err = err.Error()
			} else if id, ver, ok := c11Origin(d.SDP); ok {
				g.ID, g.Version = id, ver
			}
			gens = append(gens, g)
		}
		hist := ""
		var lastOffer, lastAnswer *SessionDescription
		for k, idx := range seqs[i] {
			op := alpha[idx]
			hist += string(op)
			who := fmt.Sprintf("%c#%d", op, k)
			switch op {
			case 'O':
				d, err := x.CreateOffer(nil)
				rec(who, d, err)
				if err == nil {
					lastOffer = &d
				}
			case 'A':
				d, err := x.CreateAnswer(nil)
				rec(who, d, err)
				if err == nil {
					lastAnswer = &d
				}
			case 'R':
				if x.SignalingState() == SignalingStateStable {
					_ = x.SetRemoteDescription(SessionDescription{Type: SDPTypeOffer, SDP: offer})
				}
			case 'S':
				if x.SignalingState() == SignalingStateHaveLocalOffer {
					_ = x.SetRemoteDescription(SessionDescription{Type: SDPTypeAnswer, SDP: answer})
				}
			case 'P':
				if lastOffer != nil && x.SignalingState() == SignalingStateStable {
					_ = x.SetLocalDescription(*lastOffer)
				}
			case 'Q':
				if lastAnswer != nil && x.SignalingState() == SignalingStateHaveRemoteOffer {
					_ = x.SetLocalDescription(*lastAnswer)
				}
			case 'X':
				if x.SignalingState() != SignalingStateStable {
					continue
				}
				d, err := x.CreateOffer(nil)
				rec(who, d, err)
				if err == nil && x.SetLocalDescription(d) == nil {
					_ = x.SetRemoteDescription(SessionDescription{Type: SDPTypeAnswer, SDP: answer})
				}
			case 'Y':
				if x.SignalingState() != SignalingStateStable {
					continue
				}
				if x.SetRemoteDescription(SessionDescription{Type: SDPTypeOffer, SDP: offer}) == nil {
					d, err := x.CreateAnswer(nil)
					rec(who, d, err)
					if err == nil {
						_ = x.SetLocalDescription(d)
					}
				}
			}
		}
		c.Eval()
		c.Validated()
		c.TransitionN(len(seqs[i]))
		n := 0
		for _, g := range gens {
			if g.Err == "" {
				n++
			}
		}
		c.State(fmt.Sprintf("seq|state=%s|generated=%d", x.SignalingState(), n))
		if n >= 2 {
			c.Distinct("seq|" + hist)
		}
		if key, what := c11Judge("sequential", gens); key != "" {
			c.Violation(key, "history "+hist+": "+what, map[string]any{"sequential": hist})
		}
		if i == len(seqs)/2 {
			c.Sample(map[string]any{"history": hist, "generated": gens})
		}
	})
}

func TestVerifC11(t *testing.T) {
	c := vkit.New("C11", "model_checking")
	defer c.Finish(t)
	vsched.ICEMode.Store(vsched.ICEFailFast)
	vpPool(t)
	bound := c.Pick(2, 3)
	scs := []c11Scenario{
		{"have-remote-offer", []string{"O", "A", "O"}},
		{"have-remote-offer", []string{"A", "A"}},
		{"stable", []string{"O", "O"}},
		{"fresh", []string{"O", "O", "O"}},
		{"fresh", []string{"OO", "O"}},
		{"fresh", []string{"O", "T", "O"}},
		{"stable", []string{"OO", "T"}},
	}
	c.Rule(fmt.Sprintf("(a) all sequences to depth %d over {CreateOffer, CreateAnswer, full exchange as offerer, full exchange as answerer} on one real PeerConnection; (b) %d scenarios of 2-3 concurrent CreateOffer/CreateAnswer callers (incl. the very first generation; two with a thread that stops a transceiver meanwhile, which makes CreateOffer compute its offer again) on real PeerConnections under the controlled scheduler, every interleaving with <= %d preemptions; oracle: one o= session id, pairwise distinct versions, and a description generated after another call returned has a greater version; distinct = histories generating >= 2 descriptions and (scenario, version order)", c.Pick(4, 6), len(scs), bound))
	c.Set("preemption_bound", bound)
	if raw, ok := c.ReplayCase(); ok {
		var rc struct {
			Scenario c11Scenario `json:"scenario"`
			Choices  []int       `json:"choices"`
		}
		if err := json.Unmarshal(raw, &rc); err != nil || len(rc.Scenario.Threads) == 0 {
			c11Sequential(t, c) // sequential violations replay by re-running the sequential part
			c.State("replay")
			c.Transition()

			return
		}
		body, o := c11Body(t, rc.Scenario)
		r := vsched.Run(vsched.Config{}, rc.Choices, nil, body)
		c.Eval()
		c.State("replay")
		c.Transition()
		c.Validated()
		if key, what := c11Judge(rc.Scenario.name(), o.gens); key != "" && r.Outcome == vsched.Completed {
			c.Violation(key, what, rc)
		}
		c.Sample(map[string]any{"scenario": rc.Scenario, "generated": o.gens})
		if o.x != nil {
			_ = o.x.Close()
		}

		return
	}
	c11Sequential(t, c)
	deadline := c.Deadline(time.Duration(c.Pick(120, 900)) * time.Second)
	per := map[string]any{}
	for _, sc := range scs {
		sc := sc
		check := func(r *vsched.Result, obs any) bool {
			o, _ := obs.(*c11Obs)
			defer func() {
				// after an aborted execution (deadlock, panic) real locks may still be held by torn-down threads
				if o.x != nil && r.Outcome == vsched.Completed {
					_ = o.x.Close()
				}
			}()
			c.Eval()
			c.Validated()
			c.TransitionN(r.Steps)
			if r.Outcome != vsched.Completed {
				if r.Outcome == vsched.Nondeterminism || r.Outcome == vsched.Horizon {
					fmt.Printf("VERIF-NOTE C11 %s: %s %s\n", sc.name(), r.Outcome, r.PanicValue)
					c.NotExhaustive(sc.name() + ": " + r.Outcome.String())

					return true
				}
				c.Violation(fmt.Sprintf("%s|%s", sc.name(), r.Outcome), fmt.Sprintf("scenario %s ended with %s: %v %s", sc.name(), r.Outcome, r.Blocked, r.PanicValue),
					map[string]any{"scenario": sc, "choices": r.Choices})

				return true
			}
			order := ""
			for _, g := range o.gens {
				order += fmt.Sprintf("%s=%d ", g.Who, g.Version)
			}
			c.Outcome(sc.name() + "|" + order)
			c.Distinct(sc.name() + "|" + order)
			if key, what := c11Judge(sc.name(), o.gens); key != "" {
				body2, o2 := c11Body(t, sc)
				r2 := vsched.Run(vsched.Config{}, r.Choices, nil, body2)
				key2, _ := c11Judge(sc.name(), o2.gens)
				if o2.x != nil && r2.Outcome == vsched.Completed {
					_ = o2.x.Close()
				}
				if key2 != key {
					c.NotExhaustive("irreproducible: " + key)

					return true
				}
				c.Violation(key, what, map[string]any{"scenario": sc, "choices": r.Choices, "preemptions": r.Preemptions})
			}

			return true
		}
		var st vsched.Stats
		completed := -1
		for b := 0; b <= bound; b++ {
			st = vsched.ExploreP(vsched.Config{Bound: b, Workers: vkit.Workers(), MaxSteps: 100000, StopAfter: func() bool { return time.Now().After(deadline) }},
				func() (func(), any) { b, o := c11Body(t, sc); return b, o }, check)
			if st.Capped {
				c.NotExhaustive(sc.name() + ": time budget hit")

				break
			}
			completed = b
		}
		per[sc.name()] = map[string]any{"executions": st.Executions, "by_preemptions": st.ByPreempt, "max_steps": st.MaxSteps, "threads": st.MaxThreads, "control_states": st.States, "bound_completed": completed}
		for k := 0; k < st.States; k++ {
			c.State(fmt.Sprintf("%s/%d", sc.name(), k))
		}
	}
	c.Set("scenarios", per)
}
