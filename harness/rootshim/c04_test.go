package webrtc

// C04 — negotiationneeded fires only in stable state, once per needed negotiation.
// All histories to a depth over track/transceiver/data-channel calls and the four halves of
// offer/answer exchanges (both directions) against a live peer. Every history runs on fresh real
// PeerConnections under the controlled scheduler on the default schedule with the scheduler's
// quiescence after each call, so "queued work finished" and "no event" are facts, not timeouts.

import (
	"encoding/json"
	"fmt"
	"strings"
	"testing"

	"github.com/pion/webrtc/v4/internal/verif/vkit"
	"github.com/pion/webrtc/v4/internal/verif/vsched"
)

var c04Alphabet = []string{"AT", "ATv", "RT", "TK", "DC", "XO", "PA", "PO", "XA", "CL", "RJ", "XP", "PP"}

type c04Fire struct {
	AfterStep int    `json:"after_step"` // index of the last completed call when the handler ran (-1: during setup)
	State     string `json:"state"`
	Closed    bool   `json:"closed"`
}

type c04Step struct {
	Op        string `json:"op"`
	Skipped   bool   `json:"skipped"`
	Err       string `json:"err,omitempty"`
	State     string `json:"state"` // signaling state at quiescence after the call
	Completed bool   `json:"completed"`
	Created   bool   `json:"created"` // X created an offer or answer in this call
	// NoNeed: at quiescence after the call the connection is open and stable and the W3C
	// "check if negotiation is needed" steps (pion's own checkNegotiationNeeded, recomputed from
	// scratch by the harness) say that nothing has to be negotiated: a need raised earlier is gone
	NoNeed bool `json:"no_need,omitempty"`
	// RTSending (RemoveTrack only): the removed sender's m-section in X's CURRENT local description said
	// sendrecv or sendonly (read from the SDP text by the harness): the description no longer matches the
	// transceiver, so the call is a change that requires renegotiation
	RTSending bool `json:"rt_sending,omitempty"`
	// DCNeeds (CreateDataChannel only): X's current local description had no application section (or there was
	// none yet): the new channel has to be negotiated
	DCNeeds bool `json:"dc_needs,omitempty"`
}

// c04CfgAlwaysDC as the first element of a history: X is configured with AlwaysNegotiateDataChannels.
const c04CfgAlwaysDC = "cfg:always-negotiate-data-channels"

// c04SectionSends reports whether the m-section with the given mid in an SDP text carries a=sendrecv or a=sendonly.
func c04SectionSends(sdpText, mid string) bool {
	in, sends, found := false, false, false
	for _, l := range strings.Split(sdpText, "\r\n") {
		if strings.HasPrefix(l, "m=") {
			if in && found {
				return sends
			}
			in, sends, found = true, false, false
		}
		if !in {
			continue
		}
		if l == "a=mid:"+mid {
			found = true
		}
		if l == "a=sendrecv" || l == "a=sendonly" {
			sends = true
		}
	}

	return in && found && sends
}

type c04Obs struct {
	Steps []c04Step
	Fires []c04Fire
	cur   int
}

// c04Run executes one history under a controller; it returns nil if the history contains a call that is not applicable
// in the state it is made in (such histories are not part of the explored tree).
func c04Run(t *testing.T, hist []string) (*c04Obs, *vsched.Result) {
	obs := &c04Obs{cur: -1}
	valid := true
	body := func() {
		vsched.SetBranching(false)
		api := vNewAPI(t, vAPIOpts{})
		var xcfg *Configuration
		if len(hist) > 0 && hist[0] == c04CfgAlwaysDC {
			// X negotiates an application section in every offer, data channel or not
			xcfg = &Configuration{AlwaysNegotiateDataChannels: true}
			hist = hist[1:]
		}
		x := vNewPC(t, api, xcfg)
		p := vNewPC(t, vNewAPI(t, vAPIOpts{}), nil)
		if _, err := p.AddTransceiverFromKind(RTPCodecTypeAudio); err != nil {
			vkit.Fatalf(t, "p transceiver: %v", err)
		}
		x.OnNegotiationNeeded(func() {
			obs.Fires = append(obs.Fires, c04Fire{AfterStep: obs.cur, State: x.SignalingState().String(), Closed: x.isClosed.Load()})
		})
		vsched.Quiesce()
		closed := false
		ntrack := 0
		var peerAnswer *SessionDescription // the peer's final answer while X holds it as a pranswer only
		for i, op := range hist {
			st := c04Step{Op: op}
			before := x.SignalingState()
			var err error
			switch op {
			case "AT", "ATv":
				mime, rate, ch := MimeTypeOpus, uint32(48000), uint16(2)
				if op == "ATv" {
					mime, rate, ch = MimeTypeVP8, 90000, 0
				}
				ntrack++
				tr, e := NewTrackLocalStaticSample(RTPCodecCapability{MimeType: mime, ClockRate: rate, Channels: ch}, fmt.Sprintf("t%d", ntrack), "s")
				if e != nil {
					vkit.Fatalf(t, "track: %v", e)
				}
				_, err = x.AddTrack(tr)
			case "RT":
				var snd *RTPSender
				for _, s := range x.GetSenders() {
					if s.Track() != nil {
						snd = s

						break
					}
				}
				if snd == nil {
					valid = false
				} else {
					for _, tr := range x.GetTransceivers() {
						if cur := x.CurrentLocalDescription(); tr.Sender() == snd && tr.Mid() != "" && cur != nil {
							st.RTSending = c04SectionSends(cur.SDP, tr.Mid())
						}
					}
					err = x.RemoveTrack(snd)
				}
			case "TK":
				_, err = x.AddTransceiverFromKind(RTPCodecTypeVideo, RTPTransceiverInit{Direction: RTPTransceiverDirectionRecvonly})
			case "DC":
				// the call requires renegotiation when X's current local description (if any) has no application
				// section (read from the SDP text)
				// (the description that will be current once the exchange in flight completes: the pending one if any)
				cur := x.PendingLocalDescription()
				if cur == nil {
					cur = x.CurrentLocalDescription()
				}
				st.DCNeeds = cur == nil || !strings.Contains(cur.SDP, "\r\nm=application ")
				_, err = x.CreateDataChannel(fmt.Sprintf("d%d", i), nil)
			case "XO":
				if before != SignalingStateStable || closed {
					valid = false

					break
				}
				var o SessionDescription
				if o, err = x.CreateOffer(nil); err == nil {
					st.Created = true
					err = x.SetLocalDescription(o)
				}
			case "XP":
				// X applies its answer as a PROVISIONAL answer: have-remote-offer -> have-local-pranswer
				if before != SignalingStateHaveRemoteOffer || closed {
					valid = false

					break
				}
				var a SessionDescription
				if a, err = x.CreateAnswer(nil); err == nil {
					st.Created = true
					a.Type = SDPTypePranswer
					err = x.SetLocalDescription(a)
				}
			case "PP":
				// the peer's answer reaches X as a provisional answer first: have-local-offer -> have-remote-pranswer
				if before != SignalingStateHaveLocalOffer || closed {
					valid = false

					break
				}
				if err = p.SetRemoteDescription(*x.PendingLocalDescription()); err == nil {
					var a SessionDescription
					if a, err = p.CreateAnswer(nil); err == nil {
						if err = p.SetLocalDescription(a); err == nil {
							peerAnswer = &a
							pr := a
							pr.Type = SDPTypePranswer
							err = x.SetRemoteDescription(pr)
						}
					}
				}
			case "PA":
				if before == SignalingStateHaveRemotePranswer && !closed && peerAnswer != nil {
					// the final answer after the provisional one
					err = x.SetRemoteDescription(*peerAnswer)
					st.Completed = err == nil
					peerAnswer = nil

					break
				}
				if before != SignalingStateHaveLocalOffer || closed {
					valid = false

					break
				}
				if err = p.SetRemoteDescription(*x.PendingLocalDescription()); err == nil {
					var a SessionDescription
					if a, err = p.CreateAnswer(nil); err == nil {
						if err = p.SetLocalDescription(a); err == nil {
							err = x.SetRemoteDescription(a)
							st.Completed = err == nil
						}
					}
				}
			case "PO":
				if before != SignalingStateStable || closed || p.SignalingState() != SignalingStateStable {
					valid = false

					break
				}
				var o SessionDescription
				if o, err = p.CreateOffer(nil); err == nil {
					if err = p.SetLocalDescription(o); err == nil {
						err = x.SetRemoteDescription(o)
					}
				}
			case "XA":
				if (before != SignalingStateHaveRemoteOffer && before != SignalingStateHaveLocalPranswer) || closed {
					valid = false

					break
				}
				var a SessionDescription
				if a, err = x.CreateAnswer(nil); err == nil {
					st.Created = true
					if err = x.SetLocalDescription(a); err == nil {
						st.Completed = true
						err = p.SetRemoteDescription(a)
					}
				}
			case "RJ":
				// a call that is REJECTED (an answer out of the blue in stable): it must not disturb anything
				if before != SignalingStateStable || closed {
					valid = false

					break
				}
				err = x.SetRemoteDescription(SessionDescription{Type: SDPTypeAnswer, SDP: vpPoolAnswer})
				if err == nil {
					vkit.Fatalf(t, "RJ: an answer in stable was accepted")
				}
				err = nil
			case "CL":
				if closed {
					valid = false

					break
				}
				err = x.Close()
				closed = true
			}
			if !valid {
				break
			}
			if err != nil {
				st.Err = err.Error()
			}
			obs.cur = i
			vsched.Quiesce()
			st.State = x.SignalingState().String()
			if !closed && st.State == "stable" {
				st.NoNeed = !x.checkNegotiationNeeded()
			}
			obs.Steps = append(obs.Steps, st)
		}
		_ = x.Close()
		_ = p.Close()
		vsched.Quiesce()
	}
	r := vsched.Run(vsched.Config{MaxSteps: 400000}, nil, nil, body)
	if !valid {
		return nil, r
	}

	return obs, r
}

// c04Judge applies the oracle; returns (key, what) pairs.
func c04Judge(hist []string, o *c04Obs) [][2]string {
	var out [][2]string
	h := strings.Join(hist, " ")
	// 1. never outside stable, never when closed
	for _, f := range o.Fires {
		if f.Closed {
			out = append(out, [2]string{"fired-when-closed", fmt.Sprintf("history [%s]: OnNegotiationNeeded ran after call %d while the connection was closed", h, f.AfterStep)})
		} else if f.State != "stable" {
			out = append(out, [2]string{"fired-in-" + f.State, fmt.Sprintf("history [%s]: OnNegotiationNeeded ran after call %d in signaling state %s", h, f.AfterStep, f.State)})
		}
	}
	// 2. at most one invocation between two completed exchanges
	epoch := 0
	count := map[int]int{}
	stepEpoch := make([]int, len(o.Steps))
	for i, s := range o.Steps {
		if s.Completed {
			epoch++
		}
		stepEpoch[i] = epoch // a fire attributed to step i (after its completion) belongs to the new epoch
	}
	for _, f := range o.Fires {
		e := 0
		if f.AfterStep >= 0 && f.AfterStep < len(stepEpoch) {
			e = stepEpoch[f.AfterStep]
		}
		count[e]++
	}
	_ = count
	// two invocations in one epoch are a violation unless the need can have been withdrawn in between
	// (RemoveTrack can make the pending negotiation unnecessary; the flag is then cleared and a later change
	// legitimately raises the event again: "once per needed negotiation")
	for a := 0; a < len(o.Fires); a++ {
		for b := a + 1; b < len(o.Fires); b++ {
			fa, fb := o.Fires[a], o.Fires[b]
			ea, eb := 0, 0
			if fa.AfterStep >= 0 && fa.AfterStep < len(stepEpoch) {
				ea = stepEpoch[fa.AfterStep]
			}
			if fb.AfterStep >= 0 && fb.AfterStep < len(stepEpoch) {
				eb = stepEpoch[fb.AfterStep]
			}
			if ea != eb {
				continue
			}
			withdrawn := false
			for k := fa.AfterStep + 1; k <= fb.AfterStep && k < len(o.Steps); k++ {
				if k >= 0 && o.Steps[k].Op == "RT" {
					withdrawn = true
				}
			}
			if !withdrawn {
				out = append(out, [2]string{"fired-twice-without-exchange", fmt.Sprintf("history [%s]: OnNegotiationNeeded ran after call %d and again after call %d with no completed exchange (and no RemoveTrack) in between: %+v", h, fa.AfterStep, fb.AfterStep, o.Fires)})

				return out
			}
		}
	}
	// 3. liveness: after AddTrack / AddTransceiver / first CreateDataChannel / RemoveTrack of a sender whose section
	// the current local description announces as sending, it fires once the connection is stable (an AddTrack after
	// such a RemoveTrack may take the transceiver back into use and withdraw the need)
	for i, s := range o.Steps {
		needs := (s.Op == "AT" || s.Op == "ATv" || s.Op == "TK" || (s.Op == "DC" && s.DCNeeds) || (s.Op == "RT" && s.RTSending)) && s.Err == ""
		if !needs {
			continue
		}
		// j: first call index >= i after which the connection is stable (at quiescence)
		j := -1
		silent := false
		for k := i; k < len(o.Steps); k++ {
			if k > i && (o.Steps[k].Created || o.Steps[k].Op == "CL" || o.Steps[k].Op == "RT" || (s.Op == "RT" && (o.Steps[k].Op == "AT" || o.Steps[k].Op == "ATv"))) {
				// an offer/answer created after the change may already carry it; closing ends the obligation;
				// a RemoveTrack may undo the change so that no negotiation is needed any more
				silent = true

				break
			}
			if o.Steps[k].State == "stable" {
				j = k

				break
			}
		}
		if silent || j < 0 {
			continue
		}
		fired := false
		for _, f := range o.Fires {
			if f.AfterStep >= i && f.AfterStep <= j {
				fired = true
			}
		}
		// an invocation still pending from before the change (same epoch) also announces it - unless the
		// need it announced had gone in between (a quiescent stable point with nothing to negotiate, e.g.
		// after a RemoveTrack that undid the change): the flag is cleared there and the new change needs
		// its own event
		if !fired {
			e := stepEpoch[j]
			lastNoNeed := -2
			for k := 0; k < i; k++ {
				if o.Steps[k].NoNeed {
					lastNoNeed = k
				}
			}
			for _, f := range o.Fires {
				fe := 0
				if f.AfterStep >= 0 {
					fe = stepEpoch[f.AfterStep]
				}
				if fe == e && f.AfterStep < i && f.AfterStep > lastNoNeed {
					fired = true
				}
			}
		}
		if !fired {
			out = append(out, [2]string{"not-fired|" + s.Op + "|in=" + o.stateBefore(i), fmt.Sprintf("history [%s]: call %d (%s) requires renegotiation, the connection is stable after call %d, but OnNegotiationNeeded never ran (fires: %+v)", h, i, s.Op, j, o.Fires)})
		}
	}

	return out
}

func (o *c04Obs) stateBefore(i int) string {
	if i == 0 {
		return "stable"
	}

	return o.Steps[i-1].State
}

func TestVerifC04(t *testing.T) {
	c := vkit.New("C04", "model_checking")
	defer c.Finish(t)
	vsched.ICEMode.Store(vsched.ICEFailFast)
	vpPool(t)
	depth := c.Pick(5, 6)
	c.Rule(fmt.Sprintf("the full tree of call histories to depth %d over %v (AddTrack audio/video, RemoveTrack, AddTransceiverFromKind, CreateDataChannel, the four halves of local- and peer-initiated offer/answer exchanges with a live peer, a rejected SetRemoteDescription, Close; calls not applicable in the current state prune the branch); each history on fresh real PeerConnections under the controlled scheduler's default schedule with quiescence after every call; states = (signaling state, pending-fire, counts) reached; distinct = (history shape, fire pattern)", depth, c04Alphabet))
	c.Assume("ICE connectivity fails at once (seam), so queued transport work finishes; the peer is a real PeerConnection driven in lock-step")
	if raw, ok := c.ReplayCase(); ok {
		var rc struct {
			History []string `json:"history"`
		}
		if err := json.Unmarshal(raw, &rc); err != nil {
			vkit.Fatalf(t, "replay: %v", err)
		}
		o, _ := c04Run(t, rc.History)
		c.Eval()
		c.State("replay")
		c.Transition()
		c.Validated()
		if o != nil {
			for _, v := range c04Judge(rc.History, o) {
				c.Violation(v[0], v[1], rc)
			}
			c.Sample(map[string]any{"history": rc.History, "steps": o.Steps, "fires": o.Fires})
		}

		return
	}
	c04Tree(t, c, [][]string{{}}, depth, "")
	// the same tree, one level shallower, with X configured to negotiate an application section always
	c04Tree(t, c, [][]string{{c04CfgAlwaysDC}}, depth-1, "always-dc|")
}

func c04Tree(t *testing.T, c *vkit.Check, frontier [][]string, depth int, tag string) {
	for d := 1; d <= depth; d++ {
		var jobs [][]string
		for _, h := range frontier {
			for _, op := range c04Alphabet {
				jobs = append(jobs, append(append([]string{}, h...), op))
			}
		}
		res := make([]*c04Obs, len(jobs))
		vkit.Parallel(len(jobs), func(i int) {
			o, r := c04Run(t, jobs[i])
			if o == nil {
				return
			}
			c.Eval()
			c.Validated()
			c.Transition()
			if r.Outcome != vsched.Completed {
				c.Violation("history-"+r.Outcome.String(), fmt.Sprintf("history %v ended with %s: %v %s", jobs[i], r.Outcome, r.Blocked, r.PanicValue), map[string]any{"history": jobs[i]})

				return
			}
			res[i] = o
		})
		var next [][]string
		for i, o := range res {
			if o == nil {
				continue
			}
			next = append(next, jobs[i])
			last := o.Steps[len(o.Steps)-1]
			c.State(fmt.Sprintf(tag+"%s|fires=%d|senders=%d", last.State, len(o.Fires), strings.Count(strings.Join(jobs[i], " "), "AT")))
			c.Distinct(fmt.Sprintf("%v|%d", jobs[i], len(o.Fires)))
			c.Outcome(fmt.Sprintf("%s|%d", last.State, len(o.Fires)))
			for _, v := range c04Judge(jobs[i], o) {
				c.Violation(v[0], v[1], map[string]any{"history": jobs[i]})
			}
			if len(jobs[i]) == 3 && i%97 == 0 {
				c.Sample(map[string]any{"history": jobs[i], "fires": o.Fires})
			}
		}
		frontier = next
		c.Set(fmt.Sprintf(tag+"histories_depth_%d", d), len(next))
	}
}
