package webrtc

import (
	"fmt"
	"time"

	"github.com/pion/webrtc/v4/internal/verif/vkit"
	"github.com/pion/webrtc/v4/internal/verif/vsched"
)

// vpExplore explores one scenario exhaustively under two bounds and returns what was completed:
//   - deviation bounding: every schedule that departs from the default schedule (keep running, else lowest
//     thread id) at most devBound times — departures at block/exit points count too, which keeps scenarios
//     with many short-lived goroutines tractable;
//   - preemption bounding (switches at block/exit are free): bound 0, then 1 (2 in the thorough tier) as long
//     as the estimated number of executions stays under the per-scenario cap.
func vpExplore(c *vkit.Check, name string, deadline time.Time, devBound int, newBody func() (func(), any), check func(r *vsched.Result, obs any) bool) map[string]any {
	out := map[string]any{}
	stop := func() bool { return time.Now().After(deadline) }
	states := 0
	devDone := -1
	var st vsched.Stats
	devCap := c.Pick(60000, 6000000)
	for b := 0; b <= devBound; b++ {
		if b > 1 && st.Executions*st.MaxSteps > devCap {
			break // the next bound would exceed the per-scenario budget of this tier
		}
		st = vsched.ExploreP(vsched.Config{Bound: b, CountFree: true, Workers: vkit.Workers(), MaxSteps: 100000, StopAfter: stop}, newBody, check)
		if st.Capped {
			c.NotExhaustive(fmt.Sprintf("%s: time budget hit at deviation bound %d", name, b))

			break
		}
		devDone = b
	}
	out["deviation_bound_completed"] = devDone
	out["executions_at_deviation_bound"] = st.Executions
	out["max_steps"] = st.MaxSteps
	out["threads"] = st.MaxThreads
	states = st.States
	preDone := -1
	maxPre := c.Pick(1, 2)
	perScenarioCap := c.Pick(60000, 3000000)
	var sp vsched.Stats
	for b := 0; b <= maxPre && devDone >= 0; b++ {
		if b > 0 && sp.Executions*sp.MaxSteps*2 > perScenarioCap {
			break
		}
		if b == 0 {
			// bound 0 alone can be large when many threads block and exit: cap it
			sp = vsched.ExploreP(vsched.Config{Bound: 0, Workers: vkit.Workers(), MaxSteps: 100000, MaxExecs: perScenarioCap / 4, StopAfter: stop}, newBody, check)
		} else {
			sp = vsched.ExploreP(vsched.Config{Bound: b, Workers: vkit.Workers(), MaxSteps: 100000, StopAfter: stop}, newBody, check)
		}
		if sp.Capped {
			break
		}
		preDone = b
		if sp.States > states {
			states = sp.States
		}
	}
	out["preemption_bound_completed"] = preDone
	out["executions_at_preemption_bound"] = sp.Executions
	out["control_states"] = states
	for k := 0; k < states; k++ {
		c.State(fmt.Sprintf("%s/%d", name, k))
	}

	return out
}
