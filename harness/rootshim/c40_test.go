package webrtc

// C40 — Concurrent use of PeerConnection is race-free and deadlock-free.
// The same harness bodies (one goroutine performing a serialized signaling exchange, two worker
// goroutines each making one call from the property's list) are used twice:
//  (1) TestVerifC40: shim build under the controlled scheduler — every schedule within a deviation bound;
//      oracle: every call returns (deadlock = violation, from the scheduler's lock model), no panic;
//  (2) TestVerifC40Race: plain -race build, free-running — the race detector's happens-before analysis
//      reports unordered conflicting accesses of the executed calls (a cooperative scheduler's hand-offs
//      would hide them, hence the separate pass). Reports are keyed by the pair of top pion/webrtc frames.

import (
	"encoding/json"
	"fmt"
	"os"
	"os/exec"
	"runtime"
	"sort"
	"strings"
	"sync/atomic"
	"testing"
	"time"

	"github.com/pion/rtp"
	"github.com/pion/webrtc/v4/internal/verif/vkit"
	"github.com/pion/webrtc/v4/internal/verif/vsched"
)

var c40Programs = []string{"AddTrack", "RemoveTrack", "AddTransceiver", "CreateDataChannel", "GetTransceivers", "Getters", "GetStats", "WriteRTP", "Close"}

type c40Scenario struct {
	Stage string `json:"stage"` // fresh | stable (a first exchange is complete; the signaling thread renegotiates)
	W1    string `json:"w1"`
	W2    string `json:"w2"`
}

func (s c40Scenario) name() string { return s.Stage + "|" + s.W1 + "|" + s.W2 }

func c40Scenarios(quick bool) []c40Scenario {
	var out []c40Scenario
	for i, a := range c40Programs {
		for j, b := range c40Programs {
			if j < i {
				continue
			}
			if j == i && (a == "Getters" || a == "GetTransceivers" || a == "GetStats") {
				continue
			}
			out = append(out, c40Scenario{"fresh", a, b})
			if !quick {
				out = append(out, c40Scenario{"stable", a, b})
			}
		}
	}
	if quick {
		// a cross-section for the quick tier: every program appears at least twice
		pick := map[string]bool{
			"fresh|AddTrack|RemoveTrack": true, "fresh|AddTrack|GetTransceivers": true, "fresh|AddTransceiver|Getters": true,
			"fresh|CreateDataChannel|GetStats": true, "fresh|RemoveTrack|WriteRTP": true, "fresh|WriteRTP|Close": true,
			"fresh|GetStats|Close": true, "fresh|AddTransceiver|CreateDataChannel": true, "fresh|GetTransceivers|Close": true,
			"fresh|Getters|Close": true, "fresh|AddTrack|AddTrack": true, "fresh|CreateDataChannel|Close": true,
		}
		var q []c40Scenario
		for _, s := range out {
			if pick[s.name()] {
				q = append(q, s)
			}
		}
		q = append(q, c40Scenario{"stable", "AddTrack", "Getters"}, c40Scenario{"stable", "RemoveTrack", "GetStats"})

		return q
	}

	return out
}

type c40Obs struct {
	x     *PeerConnection
	live  int32
	errs  []string
	track *TrackLocalStaticRTP
}

func (o *c40Obs) goT(name string, f func()) {
	atomic.AddInt32(&o.live, 1)
	vsched.GoNamed(name, func() {
		defer atomic.AddInt32(&o.live, -1)
		f()
	})
}

func c40Worker(o *c40Obs, prog string, idx int) {
	x := o.x
	switch prog {
	case "AddTrack":
		tr, _ := NewTrackLocalStaticSample(RTPCodecCapability{MimeType: MimeTypeVP8, ClockRate: 90000}, fmt.Sprintf("w%d", idx), "s")
		_, _ = x.AddTrack(tr)
	case "RemoveTrack":
		// the sender of the track the WriteRTP program writes to, so that the two really meet
		for _, s := range x.GetSenders() {
			if s.Track() == TrackLocal(o.track) {
				_ = x.RemoveTrack(s)

				break
			}
		}
	case "AddTransceiver":
		_, _ = x.AddTransceiverFromKind(RTPCodecTypeVideo)
	case "CreateDataChannel":
		_, _ = x.CreateDataChannel(fmt.Sprintf("w%d", idx), nil)
	case "GetTransceivers":
		for _, tr := range x.GetTransceivers() {
			_ = tr.Mid()
			_ = tr.Direction()
			_ = tr.Kind()
			if s := tr.Sender(); s != nil {
				_ = s.Track()
				_ = s.GetParameters()
			}
			if r := tr.Receiver(); r != nil {
				_ = r.Tracks()
			}
		}
		_ = x.GetSenders()
		_ = x.GetReceivers()
	case "Getters":
		_ = x.SignalingState()
		_ = x.ConnectionState()
		_ = x.ICEConnectionState()
		_ = x.ICEGatheringState()
		_ = x.LocalDescription()
		_ = x.RemoteDescription()
		_ = x.CurrentLocalDescription()
		_ = x.PendingLocalDescription()
		_ = x.CurrentRemoteDescription()
		_ = x.PendingRemoteDescription()
		_ = x.CanTrickleICECandidates()
		_ = x.GetConfiguration()
	case "GetStats":
		_ = x.GetStats()
	case "WriteRTP":
		_ = o.track.WriteRTP(&rtp.Packet{Header: rtp.Header{Version: 2, SequenceNumber: uint16(idx), Timestamp: 1}, Payload: []byte{1, 2, 3}})
	case "Close":
		_ = x.Close()
	}
}

func c40Body(t testing.TB, sc c40Scenario) (func(), *c40Obs) { return c40BodyN(t, sc, 1) }

// c40BodyN: loops > 1 is the overlap-seeking variant of the free-running pass: every worker repeats its call
// and the signaling goroutine creates (and drops) offers before the exchange, so that the calls really run at
// the same time (a race the detector can only see when no lock hand-over happens to order the two accesses).
func c40BodyN(t testing.TB, sc c40Scenario, loops int) (func(), *c40Obs) {
	o := &c40Obs{}

	return func() {
		vsched.SetBranching(false)
		_, answer := vpPool(t)
		w := &vpWorld{}
		x := vpNewX(t, w) // audio sample track + data channel
		o.x = x
		tr, err := NewTrackLocalStaticRTP(RTPCodecCapability{MimeType: MimeTypeOpus, ClockRate: 48000, Channels: 2}, "rtp", "s2")
		if err != nil {
			vkit.Fatalf(t, "track: %v", err)
		}
		o.track = tr
		if _, err = x.AddTrack(tr); err != nil {
			vkit.Fatalf(t, "AddTrack: %v", err)
		}
		if sc.Stage == "stable" {
			vpStage(t, w, "stable")
		}
		vsched.Quiesce()
		vsched.SetBranching(true)
		o.goT("signaling", func() {
			for k := 1; k < loops; k++ {
				if _, err := x.CreateOffer(nil); err != nil {
					return
				}
			}
			offer, err := x.CreateOffer(nil)
			if err != nil {
				return
			}
			if err = x.SetLocalDescription(offer); err != nil {
				return
			}
			_ = x.SetRemoteDescription(SessionDescription{Type: SDPTypeAnswer, SDP: answer})
		})
		work := func(prog string, idx int) {
			n := loops
			if prog == "Close" {
				n = 1
			}
			for k := 0; k < n; k++ {
				c40Worker(o, prog, idx+10*k)
			}
		}
		o.goT("w1-"+sc.W1, func() { work(sc.W1, 1) })
		o.goT("w2-"+sc.W2, func() { work(sc.W2, 2) })
		if vsched.Cur() != nil {
			// controlled runs: once every call has returned the connection is closed, which cancels the
			// pending ICE connect of the queued transport start (it would otherwise block for ever)
			vsched.GoNamed("teardown", func() {
				vsched.Wait("teardown-wait", func() bool { return atomic.LoadInt32(&o.live) == 0 })
				_ = x.Close()
			})
		}
	}, o
}

func c40FirstFrame(stack string) string {
	for _, l := range strings.Split(stack, "\n") {
		if strings.Contains(l, "pion/webrtc/v4.") && !strings.Contains(l, "verif") && !strings.Contains(l, "TestVerif") && !strings.Contains(l, ".c40") && !strings.Contains(l, ".vp") {
			if i := strings.LastIndex(l, "("); i > 0 {
				l = l[:i]
			}
			if j := strings.LastIndex(l, "/"); j >= 0 {
				l = l[j+1:]
			}

			return strings.TrimSpace(l)
		}
	}

	return ""
}

func TestVerifC40(t *testing.T) {
	c := vkit.New("C40", "model_checking")
	defer c.Finish(t)
	vsched.ICEMode.Store(vsched.ICEBlock)
	vpPool(t)
	scs := c40Scenarios(c.Quick())
	c.Rule(fmt.Sprintf("%d scenarios: one goroutine performs a serialized local signaling exchange (CreateOffer, SetLocalDescription, SetRemoteDescription(answer)) on a fresh or already negotiated real PeerConnection while two workers each make one call from {%s}; every schedule with <= 1 (quick) / 2 (thorough) departures from the default schedule (deviation bounding) and every interleaving with 0 (1) preemptions where tractable, on the whole shimmed package under the controlled scheduler; oracle: every call returns (a blocked call is a deadlock found from the scheduler's lock/channel model) and nothing panics. Data races are decided by the separate free-running -race pass (evidence/C40.race.json)", len(scs), strings.Join(c40Programs, ", ")))
	c.Assume("ICE connectivity blocks until Close cancels it (seam); ICE agent goroutines are environment; library-internal locks are not scheduling points; sequentially consistent memory")
	deadline := c.Deadline(time.Duration(c.Pick(150, 1500)) * time.Second)
	if raw, ok := c.ReplayCase(); ok {
		var rc struct {
			Scenario c40Scenario `json:"scenario"`
			Choices  []int       `json:"choices"`
		}
		c.Eval()
		c.State("replay")
		c.Transition()
		c.Validated()
		if err := json.Unmarshal(raw, &rc); err != nil || rc.Scenario.W1 == "" {
			c.Distinct("replay-not-for-this-part")
			c.Distinct("replay")

			return
		}
		body, o := c40Body(t, rc.Scenario)
		r := vsched.Run(vsched.Config{}, rc.Choices, nil, body)
		if r.Outcome != vsched.Completed {
			c.Violation(c40Key(rc.Scenario, r), fmt.Sprintf("scenario %s: %s %v %s", rc.Scenario.name(), r.Outcome, r.Blocked, r.PanicValue), rc)
		}
		_ = o
		c.Sample(rc)

		return
	}
	per := map[string]any{}
	for _, sc := range scs {
		sc := sc
		check := func(r *vsched.Result, _ any) bool {
			c.Eval()
			c.Validated()
			c.TransitionN(r.Steps)
			if r.Outcome == vsched.Nondeterminism || r.Outcome == vsched.Horizon {
				fmt.Printf("VERIF-NOTE C40 %s: %s %s\n", sc.name(), r.Outcome, r.PanicValue)
				c.NotExhaustive(sc.name() + ": " + r.Outcome.String())

				return true
			}
			c.Outcome(sc.name() + "|" + r.Outcome.String())
			c.Distinct(sc.name() + "|" + r.Outcome.String())
			if r.Outcome != vsched.Completed {
				key := c40Key(sc, r)
				body2, _ := c40Body(t, sc)
				r2 := vsched.Run(vsched.Config{}, r.Choices, nil, body2)
				if c40Key(sc, r2) != key {
					c.NotExhaustive("irreproducible: " + key)

					return true
				}
				c.Violation(key, fmt.Sprintf("scenario %s: not every call returned (%s): blocked %v %s\n%s", sc.name(), r.Outcome, r.Blocked, r.PanicValue, r.PanicStack),
					map[string]any{"scenario": sc, "choices": r.Choices, "preemptions": r.Preemptions})

				return true
			}
			return true
		}
		per[sc.name()] = vpExplore(c, sc.name(), deadline, c.Pick(1, 2), func() (func(), any) { b, o := c40Body(t, sc); return b, o }, check)
	}
	c.Set("scenarios", per)
	c.Sample(map[string]any{"scenario": scs[0], "threads": "signaling{CreateOffer,SetLocalDescription,SetRemoteDescription} || w1{" + scs[0].W1 + "} || w2{" + scs[0].W2 + "}"})
}

func c40Key(sc c40Scenario, r *vsched.Result) string {
	if r.Outcome == vsched.Panicked {
		return "panic|" + c40FirstFrame(r.PanicStack)
	}
	var b []string
	for _, x := range r.Blocked {
		if x.Op != "not-started" {
			b = append(b, strings.SplitN(x.Name, "-", 2)[0]+":"+x.Op)
		}
	}
	sort.Strings(b)

	return fmt.Sprintf("%s|%s|%s|%s", r.Outcome, sc.W1, sc.W2, strings.Join(b, ","))
}

// ---- free-running race pass -----------------------------------------------------------------

type c40Race struct {
	Key    string
	Report string
}

// c40ParseRaces extracts DATA RACE reports and keys each by the pair of top pion/webrtc frames.
func c40ParseRaces(out string) (races []c40Race, harnessOnly int) {
	blocks := strings.Split(out, "==================")
	for _, b := range blocks {
		if !strings.Contains(b, "WARNING: DATA RACE") {
			continue
		}
		// two access stacks: text between the access header lines and the first "Goroutine ... created at" line
		acc := b
		if i := strings.Index(acc, "\nGoroutine "); i > 0 {
			acc = acc[:i]
		}
		parts := strings.Split(acc, "\nPrevious ")
		var frames []string
		for _, p := range parts {
			f := c40FirstFrame(p)
			frames = append(frames, f)
		}
		if len(frames) < 2 || frames[0] == "" && frames[1] == "" {
			harnessOnly++

			continue
		}
		sort.Strings(frames)
		races = append(races, c40Race{Key: "race|" + frames[0] + "|" + frames[1], Report: strings.TrimSpace(b)})
	}

	return races, harnessOnly
}

func TestVerifC40Race(t *testing.T) {
	if sel := os.Getenv("VERIF_C40_CHILD"); sel != "" {
		c40RaceChild(t, sel)

		return
	}
	c := vkit.New("C40", "exploration")
	defer c.Finish(t)
	scs := c40Scenarios(c.Quick())
	reps := c.Pick(5, 20)
	c.Rule(fmt.Sprintf("free-running -race pass: each of the %d C40 scenarios (same harness bodies as the controlled part, plain build, real goroutines) is executed %d times in a child process, and %[2]d times more in an overlap-seeking variant (every worker repeats its call 20 times, the signaling goroutine creates 19 offers before the exchange); every DATA RACE report of the Go race detector whose stacks contain pion/webrtc frames is a violation keyed by the pair of top pion/webrtc functions; distinct = scenarios executed", len(scs), reps))
	c.Assume("the race detector reports conflicting accesses that are unordered by happens-before in an execution; a lock both calls take one after the other orders them by accident, so a race shows only when the calls really overlap: this pass SAMPLES schedules (repetitions and the overlap-seeking variant raise the chance), it does not enumerate them")
	c.Set("schedules_enumerated", false)
	c.Set("repetitions", reps)
	if _, ok := c.ReplayCase(); ok {
		c.Eval()
		c.Distinct("replay-not-supported-for-race-pass")
		c.Distinct("replay")
		c.Sample("race reports are reproduced by re-running the pass")

		return
	}
	type res struct {
		sc  c40Scenario
		out string
		err error
	}
	results := make([]res, len(scs))
	vkit.ParallelN(4, len(scs), func(i int) {
		raw, _ := json.Marshal(scs[i])
		cmd := exec.Command(os.Args[0], "-test.run", "^TestVerifC40Race$", "-test.count", "1", "-test.timeout", "0")
		cmd.Env = append(os.Environ(), "VERIF_C40_CHILD="+string(raw), fmt.Sprintf("VERIF_C40_REPS=%d", reps), "GORACE=halt_on_error=0 exitcode=0 history_size=5")
		done := make(chan struct{})
		var out []byte
		var err error
		go func() { out, err = cmd.CombinedOutput(); close(done) }()
		select {
		case <-done:
		case <-time.After(10 * time.Minute):
			_ = cmd.Process.Kill()
			<-done
			err = fmt.Errorf("child timed out")
		}
		results[i] = res{scs[i], string(out), err}
	})
	for _, r := range results {
		c.Eval()
		if !strings.Contains(r.out, "C40-CHILD-DONE") {
			fmt.Printf("VERIF-NOTE C40 race child %s did not finish: %v\n%s\n", r.sc.name(), r.err, c40Tail(r.out, 30))
			if strings.Contains(r.out, "panic:") {
				c.Violation("race-pass|panic|"+c40FirstFrame(r.out), fmt.Sprintf("scenario %s panicked in the free-running pass:\n%s", r.sc.name(), c40Tail(r.out, 40)), map[string]any{"scenario": r.sc})
			} else {
				c.NotExhaustive("race child " + r.sc.name() + " did not finish")
			}

			continue
		}
		c.Distinct(r.sc.name())
		races, harnessOnly := c40ParseRaces(r.out)
		if harnessOnly > 0 {
			fmt.Printf("VERIF-NOTE C40 %s: %d race reports without pion/webrtc frames (ignored)\n", r.sc.name(), harnessOnly)
		}
		for _, rc := range races {
			c.Outcome(rc.Key)
			c.Violation(rc.Key, fmt.Sprintf("scenario %s (free-running, -race):\n%s", r.sc.name(), rc.Report), map[string]any{"scenario": r.sc, "report": rc.Report})
		}
	}
	c.Sample(map[string]any{"scenario": scs[0], "repetitions": reps})
}

func c40Tail(s string, n int) string {
	l := strings.Split(s, "\n")
	if len(l) > n {
		l = l[len(l)-n:]
	}

	return strings.Join(l, "\n")
}

func c40RaceChild(t *testing.T, sel string) {
	var sc c40Scenario
	if err := json.Unmarshal([]byte(sel), &sc); err != nil {
		t.Fatalf("child: %v", err)
	}
	vsched.ICEMode.Store(vsched.ICEBlock)
	reps := 3
	fmt.Sscanf(os.Getenv("VERIF_C40_REPS"), "%d", &reps)
	for i := 0; i < 2*reps; i++ {
		// first the scenario as explored under the controlled scheduler, then its overlap-seeking variant
		loops := 1
		if i >= reps {
			loops = 20
		}
		body, o := c40BodyN(t, sc, loops)
		body()
		deadline := time.Now().Add(120 * time.Second)
		for atomic.LoadInt32(&o.live) > 0 {
			if time.Now().After(deadline) {
				fmt.Println("C40-CHILD-STUCK", sc.name())
				buf := make([]byte, 1<<16)
				fmt.Println(string(buf[:runtime.Stack(buf, true)]))
				os.Exit(3)
			}
			time.Sleep(200 * time.Microsecond)
		}
		_ = o.x.Close()
	}
	fmt.Println("C40-CHILD-DONE", sc.name())
}
