package webrtc

// C29 (concurrent part) — a write in flight while bindings change.
// Every interleaving (preemption bounded) of WriteRTP on a real TrackLocalStaticRTP with a
// concurrent Unbind (and optionally a concurrent Bind of a further sender), under the controlled
// scheduler. The senders' write streams are recording fakes that contain a scheduling point (a write
// stream takes time), so the other threads can run while the fan-out of one packet is under way.

import (
	"encoding/json"
	"fmt"
	"sort"
	"testing"
	"time"

	"github.com/pion/rtp"
	"github.com/pion/webrtc/v4/internal/verif/vkit"
	"github.com/pion/webrtc/v4/internal/verif/vsched"
)

type c29bScenario struct {
	Unbind   int  `json:"unbind"`    // index of the bound sender that is removed concurrently (0..2)
	WithBind bool `json:"with_bind"` // a fourth sender is bound concurrently
	Writers  int  `json:"writers"`   // 1: one write in flight; 2: two concurrent writes in flight
}

func (s c29bScenario) name() string {
	return fmt.Sprintf("unbind=%d|bind=%v|writers=%d", s.Unbind, s.WithBind, s.Writers)
}

type c29bRec struct {
	Ctx          int    `json:"sender"`
	Seq          uint16 `json:"packet"`
	SSRC         uint32 `json:"ssrc"`
	PT           uint8  `json:"pt"`
	AfterUnbound bool   `json:"after_unbind_returned"`
}

type c29bObs struct {
	recs       []c29bRec
	unbound    bool // Unbind has returned
	boundD     bool // Bind of the fourth sender has returned
	dAtLate    bool // ... before the late write started
	errs       []string
	callerDiff string
}

type c29bWriter struct {
	o  *c29bObs
	id int
}

func (w *c29bWriter) WriteRTP(h *rtp.Header, payload []byte) (int, error) {
	// a write stream takes time: other threads may run while it does
	vsched.Yield("write-stream")
	w.o.recs = append(w.o.recs, c29bRec{Ctx: w.id, Seq: h.SequenceNumber, SSRC: h.SSRC, PT: h.PayloadType, AfterUnbound: w.o.unbound})

	return len(payload), nil
}

func (w *c29bWriter) Write(b []byte) (int, error) { return len(b), nil }

var c29bSSRC = []SSRC{0x0A0A0A0A, 0xFFFFFFFE, 1, 0x44444444}
var c29bPT = []PayloadType{96, 120, 35, 101}

func c29bBody(t *testing.T, sc c29bScenario) (func(), *c29bObs) {
	o := &c29bObs{}

	return func() {
		vsched.SetBranching(false)
		track, err := NewTrackLocalStaticRTP(RTPCodecCapability{MimeType: MimeTypeVP8, ClockRate: 90000}, "video", "stream")
		if err != nil {
			vkit.Fatalf(t, "NewTrackLocalStaticRTP: %v", err)
		}
		ctx := make([]*baseTrackLocalContext, 4)
		for i := range ctx {
			ctx[i] = &baseTrackLocalContext{
				id: fmt.Sprintf("ctx%d", i), ssrc: c29bSSRC[i], ssrcRTX: c29bSSRC[i] + 1, ssrcFEC: c29bSSRC[i] + 2,
				params: RTPParameters{Codecs: []RTPCodecParameters{{
					RTPCodecCapability: RTPCodecCapability{MimeType: MimeTypeVP8, ClockRate: 90000}, PayloadType: c29bPT[i],
				}}},
				writeStream: &c29bWriter{o: o, id: i},
			}
		}
		for i := 0; i < 3; i++ {
			if _, err := track.Bind(ctx[i]); err != nil {
				vkit.Fatalf(t, "Bind(ctx%d): %v", i, err)
			}
		}
		mk := func(seq uint16) *rtp.Packet {
			return &rtp.Packet{Header: rtp.Header{Version: 2, PayloadType: 50, SequenceNumber: seq, Timestamp: 5000, SSRC: 0x11111111, CSRC: []uint32{7, 8}}, Payload: []byte{1, 2, 3, byte(seq)}}
		}
		vsched.Quiesce()
		vsched.SetBranching(true)
		for w := 1; w <= sc.Writers; w++ {
			seq := uint16(w)
			vsched.GoNamed(fmt.Sprintf("write%d", w), func() {
				p := mk(seq)
				keep := p.Clone()
				if err := track.WriteRTP(p); err != nil {
					o.errs = append(o.errs, fmt.Sprintf("WriteRTP(packet %d): %v", seq, err))
				}
				if p.Header.SSRC != keep.Header.SSRC || p.Header.PayloadType != keep.Header.PayloadType || p.Header.SequenceNumber != keep.Header.SequenceNumber || len(p.Header.CSRC) != 2 || string(p.Payload) != string(keep.Payload) {
					o.callerDiff = fmt.Sprintf("caller's packet %d changed: %+v", seq, p.Header)
				}
			})
		}
		vsched.GoNamed("unbind", func() {
			if err := track.Unbind(ctx[sc.Unbind]); err != nil {
				o.errs = append(o.errs, "Unbind: "+err.Error())
			}
			o.unbound = true
		})
		if sc.WithBind {
			vsched.GoNamed("bind", func() {
				if _, err := track.Bind(ctx[3]); err != nil {
					o.errs = append(o.errs, "Bind: "+err.Error())
				}
				o.boundD = true
			})
		}
		vsched.GoNamed("late-write", func() {
			// a write that starts after Unbind has returned
			vsched.Wait("late-write-waits-for-unbind", func() bool { return o.unbound })
			o.dAtLate = o.boundD
			if err := track.WriteRTP(mk(9)); err != nil {
				o.errs = append(o.errs, "WriteRTP(late): "+err.Error())
			}
		})
	}, o
}

func c29bJudge(sc c29bScenario, o *c29bObs, r *vsched.Result) (string, string) {
	if r.Outcome == vsched.Panicked {
		return "concurrent|panic|" + vpFirstFrame(r.PanicStack), "panic: " + r.PanicValue
	}
	if r.Outcome != vsched.Completed {
		return "concurrent|" + r.Outcome.String(), fmt.Sprintf("scenario %s ended with %s: %v", sc.name(), r.Outcome, r.Blocked)
	}
	if len(o.errs) > 0 {
		return "concurrent|error", fmt.Sprintf("scenario %s: %v", sc.name(), o.errs)
	}
	if o.callerDiff != "" {
		return "concurrent|caller-packet-modified", o.callerDiff
	}
	count := map[[2]int]int{}
	for _, rec := range o.recs {
		count[[2]int{rec.Ctx, int(rec.Seq)}]++
		if uint32(c29bSSRC[rec.Ctx]) != rec.SSRC || uint8(c29bPT[rec.Ctx]) != rec.PT {
			return "concurrent|wrong-rewrite", fmt.Sprintf("scenario %s: sender %d received packet %d with ssrc %#x pt %d", sc.name(), rec.Ctx, rec.Seq, rec.SSRC, rec.PT)
		}
		if rec.Ctx == sc.Unbind && rec.AfterUnbound {
			return "concurrent|reached-removed-binding", fmt.Sprintf("scenario %s: packet %d reached sender %d after Unbind of that sender had returned (deliveries %s)", sc.name(), rec.Seq, rec.Ctx, vkit.Short(o.recs))
		}
	}
	packets := []int{9}
	for w := 1; w <= sc.Writers; w++ {
		packets = append(packets, w)
	}
	sort.Ints(packets)
	for _, seq := range packets {
		for i := 0; i < 4; i++ {
			n := count[[2]int{i, seq}]
			switch {
			case i == sc.Unbind:
				// removed concurrently: at most once for the writes in flight, never for the late write
				if n > 1 || (seq == 9 && n > 0) {
					return "concurrent|removed-sender-count", fmt.Sprintf("scenario %s: sender %d (removed concurrently) received packet %d %d times (deliveries %s)", sc.name(), i, seq, n, vkit.Short(o.recs))
				}
			case i == 3:
				// bound concurrently (or never): at most once; exactly once for the late write if Bind had returned before it started
				if n > 1 || (!sc.WithBind && n > 0) || (seq == 9 && o.dAtLate && n != 1) {
					return "concurrent|added-sender-count", fmt.Sprintf("scenario %s: sender 3 (bound concurrently=%v, bound before the late write=%v) received packet %d %d times (deliveries %s)", sc.name(), sc.WithBind, o.dAtLate, seq, n, vkit.Short(o.recs))
				}
			default:
				if n != 1 {
					return fmt.Sprintf("concurrent|bound-sender-received-x%d", n), fmt.Sprintf("scenario %s: sender %d stays bound throughout but received packet %d %d times (deliveries %s)", sc.name(), i, seq, n, vkit.Short(o.recs))
				}
			}
		}
	}

	return "", ""
}

func TestVerifC29Concurrent(t *testing.T) {
	c := vkit.New("C29", "model_checking")
	defer c.Finish(t)
	var scs []c29bScenario
	for _, wr := range []int{1, 2} {
		for u := 0; u < 3; u++ {
			for _, b := range []bool{false, true} {
				if wr == 2 && b && c.Quick() {
					continue
				}
				scs = append(scs, c29bScenario{Unbind: u, WithBind: b, Writers: wr})
			}
		}
	}
	c.Rule(fmt.Sprintf("%d scenarios on a real TrackLocalStaticRTP with three bound senders (recording write streams that contain a scheduling point): 1-2 WriteRTP calls in flight || Unbind(sender 0|1|2) || optionally Bind(a fourth sender) || a late WriteRTP that starts after Unbind returned; every interleaving with <= %d preemptions; oracle per execution: every sender bound throughout receives every packet exactly once with its own SSRC / payload type, the removed sender receives a packet in flight at most once and nothing after Unbind returned, the added sender at most once (exactly once for the late write if Bind had returned), the caller's packet is unchanged, every call returns", len(scs), c.Pick(2, 3)))
	deadline := c.Deadline(time.Duration(c.Pick(120, 900)) * time.Second)
	bound := c.Pick(2, 3)
	c.Set("preemption_bound", bound)
	if raw, ok := c.ReplayCase(); ok {
		var rc struct {
			Scenario c29bScenario `json:"scenario"`
			Choices  []int        `json:"choices"`
		}
		if err := json.Unmarshal(raw, &rc); err != nil {
			vkit.Fatalf(t, "replay: %v", err)
		}
		body, o := c29bBody(t, rc.Scenario)
		r := vsched.Run(vsched.Config{}, rc.Choices, nil, body)
		c.Eval()
		c.State("replay")
		c.Transition()
		c.Validated()
		if key, what := c29bJudge(rc.Scenario, o, r); key != "" {
			c.Violation(key, what, rc)
		}

		return
	}
	per := map[string]any{}
	for _, sc := range scs {
		sc := sc
		check := func(r *vsched.Result, obs any) bool {
			o, _ := obs.(*c29bObs)
			c.Eval()
			c.Validated()
			c.TransitionN(r.Steps)
			if r.Outcome == vsched.Nondeterminism || r.Outcome == vsched.Horizon {
				c.NotExhaustive(sc.name() + ": " + r.Outcome.String())

				return true
			}
			key, what := c29bJudge(sc, o, r)
			sig := make([]string, 0, len(o.recs))
			for _, rec := range o.recs {
				sig = append(sig, fmt.Sprintf("%d:%d", rec.Seq, rec.Ctx))
			}
			oc := fmt.Sprintf("%s|%v|%s", sc.name(), sig, key)
			c.Outcome(oc)
			c.Distinct(oc)
			if key != "" {
				body2, o2 := c29bBody(t, sc)
				r2 := vsched.Run(vsched.Config{}, r.Choices, nil, body2)
				if key2, _ := c29bJudge(sc, o2, r2); key2 != key {
					c.NotExhaustive("irreproducible: " + key)

					return true
				}
				c.Violation(key, what, map[string]any{"scenario": sc, "choices": r.Choices, "preemptions": r.Preemptions, "deliveries": o.recs})
			}

			return true
		}
		var st vsched.Stats
		completed := -1
		for b := 0; b <= bound; b++ {
			st = vsched.ExploreP(vsched.Config{Bound: b, Workers: vkit.Workers(), MaxSteps: 20000, StopAfter: func() bool { return time.Now().After(deadline) }},
				func() (func(), any) { b, o := c29bBody(t, sc); return b, o }, check)
			if st.Capped {
				c.NotExhaustive(sc.name() + ": time budget hit")

				break
			}
			completed = b
		}
		per[sc.name()] = map[string]any{"executions": st.Executions, "by_preemptions": st.ByPreempt, "max_steps": st.MaxSteps, "threads": st.MaxThreads, "control_states": st.States, "bound_completed": completed}
		for k := 0; k < st.States; k++ {
			c.State(fmt.Sprintf("%s/%d", sc.name(), k))
		}
	}
	c.Set("scenarios", per)
	c.Sample(map[string]any{"scenario": scs[0], "threads": "write1{WriteRTP(p1)} || unbind{Unbind(sender 0)} || late-write{wait until Unbind returned; WriteRTP(p9)}"})
}
