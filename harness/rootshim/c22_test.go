package webrtc

// C22 — Connection state is the W3C aggregate of ICE and DTLS states.
// Exhaustive exploration of the real updateConnectionState over every
// (closed, ICE, DTLS) input from every prior connection state, plus every
// input sequence up to a depth, with the handler counted exactly.

import (
	"fmt"
	"runtime"
	"testing"
	"time"

	"github.com/pion/webrtc/v4/internal/verif/vkit"
	"github.com/pion/webrtc/v4/internal/verif/vsched"
)

type c22In struct {
	Closed bool
	ICE    ICEConnectionState
	DTLS   DTLSTransportState
}

func (i c22In) String() string {
	return fmt.Sprintf("closed=%v/ice=%s/dtls=%s", i.Closed, i.ICE, i.DTLS)
}

// c22Ref returns the set of acceptable aggregate states: the current W3C text
// and the older text pion's comments quote differ on a few corner inputs; both
// are accepted there (the property demands the spec's precedence order, not one edition).
func c22Ref(in c22In) map[PeerConnectionState]bool {
	one := func(s ...PeerConnectionState) map[PeerConnectionState]bool {
		m := map[PeerConnectionState]bool{}
		for _, x := range s {
			m[x] = true
		}

		return m
	}
	ice, dtls := in.ICE, in.DTLS
	switch {
	case in.Closed:
		return one(PeerConnectionStateClosed)
	case ice == ICEConnectionStateFailed || dtls == DTLSTransportStateFailed:
		return one(PeerConnectionStateFailed)
	case ice == ICEConnectionStateUnknown || dtls == DTLSTransportStateUnknown:
		return nil // not a state of a transport; nothing demanded
	case ice == ICEConnectionStateDisconnected:
		// The property fixes the order: closed, failed, then disconnected before new/connected/connecting,
		// so a DTLS handshake in flight does not mask a disconnected ICE transport.
		return one(PeerConnectionStateDisconnected)
	}
	dtlsIdle := dtls == DTLSTransportStateNew || dtls == DTLSTransportStateClosed
	dtlsUp := dtls == DTLSTransportStateConnected || dtls == DTLSTransportStateClosed
	iceUp := ice == ICEConnectionStateConnected || ice == ICEConnectionStateCompleted
	// current W3C text
	var cur PeerConnectionState
	switch {
	case ice == ICEConnectionStateNew && dtlsIdle:
		cur = PeerConnectionStateNew
	case iceUp && dtlsUp:
		cur = PeerConnectionStateConnected
	default:
		cur = PeerConnectionStateConnecting
	}
	// older text (quoted in pion's comments)
	var old PeerConnectionState
	switch {
	case (ice == ICEConnectionStateNew || ice == ICEConnectionStateClosed) && dtlsIdle:
		old = PeerConnectionStateNew
	case ice == ICEConnectionStateNew || ice == ICEConnectionStateChecking ||
		dtls == DTLSTransportStateNew || dtls == DTLSTransportStateConnecting:
		old = PeerConnectionStateConnecting
	case (iceUp || ice == ICEConnectionStateClosed) && dtlsUp:
		old = PeerConnectionStateConnected
	default:
		old = PeerConnectionStateNew
	}

	return one(cur, old)
}

func TestVerifC22(t *testing.T) {
	c := vkit.New("C22", "model_checking")
	c.Rule("states = (previous PeerConnectionState, closed flag); transitions = every (closed, ICE state, DTLS state) input applied by the real updateConnectionState; plus all input sequences up to the depth bound on one PeerConnection; a case is non-trivial when the state changed")
	c.Assume("handler invocations are counted exactly by the goroutines the call spawned (handlers block until released)")
	defer c.Finish(t)

	api := vNewAPI(t, vAPIOpts{})
	pc := vNewPC(t, api, nil)
	defer func() { _ = pc.Close() }()

	var inputs []c22In
	for _, closed := range []bool{false, true} {
		for ice := ICEConnectionStateUnknown; ice <= ICEConnectionStateClosed; ice++ {
			for dtls := DTLSTransportStateUnknown; dtls <= DTLSTransportStateFailed; dtls++ {
				inputs = append(inputs, c22In{closed, ice, dtls})
			}
		}
	}
	c.Set("inputs", len(inputs))

	release := make(chan struct{})
	calls := make(chan PeerConnectionState, 16)
	pc.OnConnectionStateChange(func(s PeerConnectionState) {
		calls <- s
		<-release
	})
	defer close(release)

	// settle: let goroutines of NewPeerConnection (if any) reach their resting state
	stable := func() int {
		n := runtime.NumGoroutine()
		for i := 0; i < 50; i++ {
			time.Sleep(2 * time.Millisecond)
			m := runtime.NumGoroutine()
			if m == n {
				return n
			}
			n = m
		}

		return n
	}
	stable()

	// step applies one input and checks value and handler count.
	step := func(prev PeerConnectionState, in c22In, hist any) (PeerConnectionState, bool) {
		pc.isClosed.Store(in.Closed)
		before := runtime.NumGoroutine()
		pc.updateConnectionState(in.ICE, in.DTLS)
		spawned := runtime.NumGoroutine() - before
		got := pc.ConnectionState()
		c.Transition()
		ok := true
		if ref := c22Ref(in); ref != nil && !ref[got] {
			c.Violation(fmt.Sprintf("value|%s", in), fmt.Sprintf("input %s from %s: state %s is not the W3C aggregate", in, prev, got), hist)
			ok = false
		}
		want := 0
		if got != prev {
			want = 1
		}
		if spawned != want {
			c.Violation(fmt.Sprintf("handler|changed=%v|spawned=%d", got != prev, spawned),
				fmt.Sprintf("input %s from %s -> %s: %d handler invocations, want %d", in, prev, got, spawned, want), hist)
			ok = false
		}
		for i := 0; i < spawned; i++ {
			select {
			case s := <-calls:
				if s != got {
					c.Violation("handler|wrong-value", fmt.Sprintf("handler got %s, state is %s", s, got), hist)
					ok = false
				}
			case <-time.After(20 * time.Second):
				vkit.Fatalf(t, "handler goroutine did not start")
			}
			release <- struct{}{}
		}
		// the released goroutines must be gone before the next measurement
		for i := 0; spawned > 0 && runtime.NumGoroutine() > before && i < 100000; i++ {
			runtime.Gosched()
		}
		if got != prev {
			c.Distinct(fmt.Sprintf("%s->%s", prev, got))
		}

		return got, ok
	}

	// Part 1: every input from every prior state (explicit-state: 7 prior values x 2 flags).
	for prev := PeerConnectionStateUnknown; prev <= PeerConnectionStateClosed; prev++ {
		for _, in := range inputs {
			pc.connectionState.Store(prev)
			c.State(fmt.Sprintf("%s/closed=%v", prev, in.Closed))
			c.Eval()
			step(prev, in, map[string]any{"prev": prev.String(), "input": in.String()})
		}
	}
	c.Sample(map[string]any{"prev": "connecting", "input": inputs[len(inputs)/3].String()})

	// Part 2: all sequences of inputs up to the depth bound on one connection
	// (closed flag monotone, as in the product).
	depth := c.Pick(2, 3)
	c.Set("sequence_depth", depth)
	live := inputs
	nseq := 0
	vkit.Sequences(len(live), 1, depth, func(seq []int) {
		closedSeen := false
		for _, i := range seq {
			if closedSeen && !live[i].Closed {
				return
			}
			closedSeen = closedSeen || live[i].Closed
		}
		pc.connectionState.Store(PeerConnectionStateNew)
		prev := PeerConnectionStateNew
		nseq++
		c.Eval()
		c.Validated()
		for k, i := range seq {
			var ok bool
			h := []string{}
			for _, j := range seq[:k+1] {
				h = append(h, live[j].String())
			}
			prev, ok = step(prev, live[i], h)
			if !ok {
				return
			}
		}
		if nseq == 1000 {
			h := []string{}
			for _, j := range seq {
				h = append(h, live[j].String())
			}
			c.Sample(h)
		}
	})
	c.Set("sequences", nseq)
	pc.isClosed.Store(false)
	c22CloseWindow(t, c)
}

// c22CloseWindow — part 3: the handler must also be invoked only on a change when the update
// races with Close(): every interleaving (<= 1 preemption) of Close() with an ICE agent state
// callback on a connection whose transports are starting. "closed" is absorbing, so it can be
// reported at most once whatever the order in which the handler goroutines run; and once everything returned
// the stored state is the aggregate of a set closed flag, i.e. closed.
func c22CloseWindow(t *testing.T, c *vkit.Check) {
	vsched.ICEMode.Store(vsched.ICEBlock)
	vpPool(t)
	for _, sc := range []c21Scenario{{"stable", "C", "ICE-disconnected"}, {"stable", "C", "ICE-failed"}, {"stable", "G", "ICE-disconnected"}} {
		sc := sc
		check := func(r *vsched.Result, obs any) bool {
			w, _ := obs.(*vpWorld)
			c.Eval()
			c.Validated()
			c.TransitionN(r.Steps)
			if r.Outcome != vsched.Completed {
				return true // termination is C21's claim
			}
			n := 0
			for _, s := range w.connStates {
				if s == "closed" {
					n++
				}
			}
			c.Distinct(fmt.Sprintf("close-window|%s|%v", sc.name(), w.connStates))
			// "closed if closed": every call of the scenario has returned, Close among them, so the closed flag
			// is set and the stored state has to be its aggregate - whatever update was in flight meanwhile
			if w.x != nil && w.x.isClosed.Load() && w.x.ConnectionState() != PeerConnectionStateClosed {
				got := w.x.ConnectionState()
				body2, w2 := c21Body(t, sc)
				vsched.Run(vsched.Config{}, r.Choices, nil, body2)
				if w2.x != nil && w2.x.ConnectionState() == got {
					c.Violation("aggregate|close-window|stored-state-not-closed|is="+got.String(),
						fmt.Sprintf("scenario %s: Close returned and every transport callback finished, the closed flag is set, but ConnectionState() is %s (handler saw %v)", sc.name(), got, w.connStates),
						map[string]any{"scenario": sc, "choices": r.Choices})
				}
			}
			if n > 1 {
				body2, w2 := c21Body(t, sc)
				vsched.Run(vsched.Config{}, r.Choices, nil, body2)
				n2 := 0
				for _, s := range w2.connStates {
					if s == "closed" {
						n2++
					}
				}
				if n2 == n {
					c.Violation("handler|close-window|closed-reported-twice", fmt.Sprintf("scenario %s: the connection-state handler was invoked %d times with closed: %v", sc.name(), n, w.connStates),
						map[string]any{"scenario": sc, "choices": r.Choices})
				}
			}

			return true
		}
		bound := 1
		st := vsched.ExploreP(vsched.Config{Bound: bound, Workers: vkit.Workers(), MaxSteps: 50000}, func() (func(), any) { b, w := c21Body(t, sc); return b, w }, check)
		c.Set("close_window_"+sc.name(), map[string]any{"executions": st.Executions, "by_preemptions": st.ByPreempt, "bound_completed": st.BoundDone})
		if c.Quick() {
			break
		}
	}
}
