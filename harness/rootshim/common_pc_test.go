package webrtc

// Helpers for controlled-schedule harnesses around whole PeerConnections (shim build).

import (
	"errors"
	"fmt"
	"strings"
	"sync"
	"testing"

	"github.com/pion/ice/v4"
	"github.com/pion/webrtc/v4/internal/verif/vkit"
	"github.com/pion/webrtc/v4/internal/verif/vsched"
	"github.com/pion/webrtc/v4/pkg/rtcerr"
)

// vpWorld is the per-execution observation state of a PeerConnection harness.
type vpWorld struct {
	x          *PeerConnection
	connStates []string
	sigStates  []string
	iceStates  []string
	neg        int
	notes      []string
	errs       map[string]error
	done       map[string]bool
	leaks      []string
	// allHandlers registers the signaling / ICE / negotiation-needed handlers too (each event is one more thread)
	allHandlers bool
}

func (w *vpWorld) note(format string, a ...any) { w.notes = append(w.notes, fmt.Sprintf(format, a...)) }

// vpNewX creates the PeerConnection under test inside a controlled thread:
// one audio transceiver with a local track and one data channel; all handlers record.
func vpNewX(tb testing.TB, w *vpWorld) *PeerConnection {
	pc := vNewPC(tb, vNewAPI(tb, vAPIOpts{}), nil)
	w.x = pc
	w.errs = map[string]error{}
	w.done = map[string]bool{}
	pc.OnConnectionStateChange(func(s PeerConnectionState) { w.connStates = append(w.connStates, s.String()) })
	if w.allHandlers {
		pc.OnSignalingStateChange(func(s SignalingState) { w.sigStates = append(w.sigStates, s.String()) })
		pc.OnICEConnectionStateChange(func(s ICEConnectionState) { w.iceStates = append(w.iceStates, s.String()) })
		pc.OnNegotiationNeeded(func() { w.neg++ })
	}
	track, err := NewTrackLocalStaticSample(RTPCodecCapability{MimeType: MimeTypeOpus, ClockRate: 48000, Channels: 2}, "a", "s")
	if err != nil {
		vkit.Fatalf(tb, "track: %v", err)
	}
	if _, err = pc.AddTrack(track); err != nil {
		vkit.Fatalf(tb, "AddTrack: %v", err)
	}
	if _, err = pc.CreateDataChannel("x", nil); err != nil {
		vkit.Fatalf(tb, "CreateDataChannel: %v", err)
	}

	return pc
}

var (
	vpPoolOnce   sync.Once
	vpPoolAnswer string
	vpPoolOffer  string
)

// vpPool builds (free-running, outside any controller) a static peer answer for X-shaped offers and a peer offer.
func vpPool(tb testing.TB) (offer, answer string) {
	vpPoolOnce.Do(func() {
		w := &vpWorld{}
		x0 := vpNewX(tb, w)
		defer func() { _ = x0.Close() }()
		o, err := x0.CreateOffer(nil)
		if err != nil {
			vkit.Fatalf(tb, "pool offer: %v", err)
		}
		vpPoolOffer = o.SDP
		h := vNewPC(tb, vNewAPI(tb, vAPIOpts{}), nil)
		defer func() { _ = h.Close() }()
		if err = h.SetRemoteDescription(o); err != nil {
			vkit.Fatalf(tb, "pool SRD: %v", err)
		}
		a, err := h.CreateAnswer(nil)
		if err != nil {
			vkit.Fatalf(tb, "pool answer: %v", err)
		}
		vpPoolAnswer = a.SDP
	})

	return vpPoolOffer, vpPoolAnswer
}

// vpStage brings x to a stage: "fresh", "have-local-offer", "stable" (local exchange done; the queued
// startTransports sits in the ICE connect seam), "have-remote-offer".
func vpStage(tb testing.TB, w *vpWorld, stage string) {
	offer, answer := vpPool(tb)
	x := w.x
	switch stage {
	case "fresh":
	case "have-local-offer", "stable":
		o, err := x.CreateOffer(nil)
		if err != nil {
			vkit.Fatalf(tb, "stage CreateOffer: %v", err)
		}
		if err = x.SetLocalDescription(o); err != nil {
			vkit.Fatalf(tb, "stage SLD: %v", err)
		}
		if stage == "stable" {
			if err = x.SetRemoteDescription(SessionDescription{Type: SDPTypeAnswer, SDP: answer}); err != nil {
				vkit.Fatalf(tb, "stage SRD: %v", err)
			}
		}
	case "have-remote-offer":
		if err := x.SetRemoteDescription(SessionDescription{Type: SDPTypeOffer, SDP: offer}); err != nil {
			vkit.Fatalf(tb, "stage SRD(offer): %v", err)
		}
	default:
		vkit.Fatalf(tb, "unknown stage %s", stage)
	}
}

// vpDeliverICE invokes the captured ICE agent connection-state callback(s), as the agent's goroutine would.
func vpDeliverICE(s ice.ConnectionState) bool {
	cbs := vsched.Captured("OnConnectionStateChange")
	for _, cb := range cbs {
		if f, ok := cb.(func(ice.ConnectionState)); ok {
			f(s)
		}
	}

	return len(cbs) > 0
}

// vpInvalidState reports whether err is an InvalidStateError.
func vpInvalidState(err error) bool {
	var ise *rtcerr.InvalidStateError

	return errors.As(err, &ise)
}

// vpPostCloseCalls performs the calls that would change negotiation state on a closed connection
// and returns the names of those that did NOT return an InvalidStateError.
func vpPostCloseCalls(x *PeerConnection) []string {
	var bad []string
	chk := func(name string, err error) {
		if !vpInvalidState(err) {
			bad = append(bad, fmt.Sprintf("%s:%v", name, err))
		}
	}
	_, err := x.CreateOffer(nil)
	chk("CreateOffer", err)
	_, err = x.CreateAnswer(nil)
	chk("CreateAnswer", err)
	chk("SetLocalDescription", x.SetLocalDescription(SessionDescription{Type: SDPTypeOffer, SDP: vpPoolOffer}))
	chk("SetRemoteDescription", x.SetRemoteDescription(SessionDescription{Type: SDPTypeOffer, SDP: vpPoolOffer}))
	tr, _ := NewTrackLocalStaticSample(RTPCodecCapability{MimeType: MimeTypeOpus, ClockRate: 48000, Channels: 2}, "b", "s")
	_, err = x.AddTrack(tr)
	chk("AddTrack", err)
	_, err = x.AddTransceiverFromKind(RTPCodecTypeVideo)
	chk("AddTransceiverFromKind", err)
	_, err = x.AddTransceiverFromTrack(tr)
	chk("AddTransceiverFromTrack", err)
	_, err = x.CreateDataChannel("late", nil)
	chk("CreateDataChannel", err)
	chk("SetConfiguration", x.SetConfiguration(x.GetConfiguration()))
	if s := x.GetSenders(); len(s) > 0 {
		chk("RemoveTrack", x.RemoveTrack(s[0]))
	}

	return bad
}

func vpJoin(s []string) string { return strings.Join(s, ",") }

func init() { vUseVNet = true }
