package webrtc

import (
	"sync"
	"testing"
	"time"

	"github.com/pion/datachannel"
	"github.com/pion/logging"
	"github.com/pion/sctp"
	"github.com/pion/transport/v4/dpipe"
	"github.com/pion/webrtc/v4/internal/verif/vkit"
)

// confReal: two real associations over an in-memory datagram pipe; the peer side runs a reader per channel,
// as pion/webrtc does for every open channel.
type confReal struct {
	local, peer *sctp.Association
	mu          sync.Mutex
	peerDCs     map[uint16]*datachannel.DataChannel
}

func newConfReal(tb testing.TB) *confReal {
	ca, cb := dpipe.Pipe()
	lf := logging.NewDefaultLoggerFactory()
	lf.DefaultLogLevel = logging.LogLevelDisabled
	var a, b *sctp.Association
	var ea, eb error
	var wg sync.WaitGroup
	wg.Add(2)
	go func() { defer wg.Done(); a, ea = sctp.Client(sctp.Config{NetConn: ca, LoggerFactory: lf}) }()
	go func() { defer wg.Done(); b, eb = sctp.Server(sctp.Config{NetConn: cb, LoggerFactory: lf}) }()
	wg.Wait()
	if ea != nil || eb != nil {
		vkit.Fatalf(tb, "sctp connect: %v %v", ea, eb)
	}

	return &confReal{local: a, peer: b, peerDCs: map[uint16]*datachannel.DataChannel{}}
}

func (c *confReal) lf() logging.LoggerFactory {
	lf := logging.NewDefaultLoggerFactory()
	lf.DefaultLogLevel = logging.LogLevelDisabled

	return lf
}

func (c *confReal) Dial(id uint16, cfg *datachannel.Config) (*datachannel.DataChannel, error) {
	cfg.LoggerFactory = c.lf()

	return datachannel.Dial(c.local, id, cfg)
}

func (c *confReal) Accept(cfg *datachannel.Config) (*datachannel.DataChannel, error) {
	cfg.LoggerFactory = c.lf()

	return datachannel.Accept(c.local, cfg)
}
func (c *confReal) AbortLocal() { c.local.Abort("") }

func (c *confReal) startPeerReader(dc *datachannel.DataChannel) {
	go func() {
		buf := make([]byte, 70000)
		for {
			if _, _, err := dc.ReadDataChannel(buf); err != nil {
				return
			}
		}
	}()
}

func (c *confReal) PeerAcceptAndAck() {
	go func() {
		dc, err := datachannel.Accept(c.peer, &datachannel.Config{LoggerFactory: c.lf()})
		if err != nil {
			return
		}
		c.mu.Lock()
		c.peerDCs[dc.StreamIdentifier()] = dc
		c.mu.Unlock()
		c.startPeerReader(dc)
	}()
}

func (c *confReal) peerDC(id uint16) *datachannel.DataChannel {
	deadline := time.Now().Add(20 * time.Second)
	for time.Now().Before(deadline) {
		c.mu.Lock()
		dc := c.peerDCs[id]
		c.mu.Unlock()
		if dc != nil {
			return dc
		}
		time.Sleep(200 * time.Microsecond)
	}

	return nil
}

func (c *confReal) PeerOpen(id uint16, cfg *datachannel.Config) {
	cfg.LoggerFactory = c.lf()
	dc, err := datachannel.Dial(c.peer, id, cfg)
	if err != nil {
		return
	}
	c.mu.Lock()
	c.peerDCs[id] = dc
	c.mu.Unlock()
	c.startPeerReader(dc)
}

func (c *confReal) PeerSend(id uint16, data []byte, isString bool) {
	if dc := c.peerDC(id); dc != nil {
		_, _ = dc.WriteDataChannel(data, isString)
	}
}

func (c *confReal) PeerClose(id uint16) {
	if dc := c.peerDC(id); dc != nil {
		_ = dc.Close()
	}
}
func (c *confReal) PeerAnswersResets() bool { return true }
func (c *confReal) Shutdown() {
	c.local.Abort("")
	c.peer.Abort("")
}

// TestVerifConformReal records the facts of every conformance script against the REAL libraries.
func TestVerifConformReal(t *testing.T) {
	c := vkit.New("C20", "exploration")
	defer c.Finish(t)
	c.Rule("conformance binding, real side: every library-level script (dial, read blocks until message, OnOpen after ack, local close then peer reset, peer closes first, abort, peer-opened channel, accept after abort) run against the real pion/sctp + pion/datachannel over an in-memory pipe; the facts are stored for the fake side to compare with")
	facts := confRun(func() confEnv { return newConfReal(t) })
	if err := confSave("real", facts); err != nil {
		vkit.Fatalf(t, "save: %v", err)
	}
	for k, v := range facts {
		c.Eval()
		c.Distinct(k)
		c.Sample(map[string]any{"script": k, "facts": v})
	}
}
