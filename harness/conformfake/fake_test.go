package webrtc

import (
	"encoding/json"
	"fmt"
	"os"
	"testing"

	"github.com/pion/datachannel"
	"github.com/pion/sctp"
	"github.com/pion/webrtc/v4/internal/verif/vkit"
	"github.com/pion/webrtc/v4/internal/verif/vsched"
)

func init() {
	sctp.Hooks.Wait = vsched.Wait
	sctp.Hooks.Go = vsched.Go
}

// confFake: the fake association; the peer's actions are Env* events on the local objects.
type confFake struct {
	assoc *sctp.Association
	dcs   map[uint16]*datachannel.DataChannel
}

func newConfFake() *confFake {
	a, _ := sctp.ClientWithOptions()

	return &confFake{assoc: a, dcs: map[uint16]*datachannel.DataChannel{}}
}

func (c *confFake) Dial(id uint16, cfg *datachannel.Config) (*datachannel.DataChannel, error) {
	dc, err := datachannel.Dial(c.assoc, id, cfg)
	if err == nil {
		c.dcs[id] = dc
	}

	return dc, err
}

func (c *confFake) Accept(cfg *datachannel.Config) (*datachannel.DataChannel, error) {
	return datachannel.Accept(c.assoc, cfg)
}
func (c *confFake) AbortLocal() { c.assoc.Abort("") }
func (c *confFake) PeerAcceptAndAck() {
	for _, dc := range c.dcs {
		dc.EnvAckOpen()
	}
}

func (c *confFake) PeerOpen(id uint16, cfg *datachannel.Config) {
	c.assoc.EnvRemoteOpen(sctp.RemoteOpen{StreamID: id, Payload: *cfg})
}

func (c *confFake) PeerSend(id uint16, data []byte, isString bool) {
	if dc := c.dcs[id]; dc != nil {
		dc.EnvDeliver(data, isString)
	}
}

func (c *confFake) PeerClose(id uint16) {
	if dc := c.dcs[id]; dc != nil {
		dc.EnvPeerReset()
	}
}
func (c *confFake) PeerAnswersResets() bool { return false }
func (c *confFake) Shutdown()               { c.assoc.Abort("") }

// TestVerifConformFake runs the same scripts against the fakes and compares with the stored real facts.
func TestVerifConformFake(t *testing.T) {
	c := vkit.New("C20", "model_checking")
	defer c.Finish(t)
	c.Rule("conformance binding, fake side: the library-level scripts run against the environment fakes; every fact must equal the fact recorded from the real libraries (a difference is a defect of the FAKE: exit 2 FAKE-NOT-CONFORMANT, never a violation of the property)")
	raw, err := os.ReadFile(confPath("real"))
	if err != nil {
		vkit.Fatalf(t, "the real-side facts are missing (%v): run the conform-real part first", err)
	}
	var real map[string]confFacts
	if err = json.Unmarshal(raw, &real); err != nil {
		vkit.Fatalf(t, "real facts: %v", err)
	}
	fake := confRun(func() confEnv { return newConfFake() })
	_ = confSave("fake", fake)
	diff := confDiff(confNormalize(real), confNormalize(fake))
	for k := range fake {
		c.Eval()
		c.State(k)
		c.Transition()
		c.Distinct(k)
	}
	if len(diff) > 0 {
		for _, d := range diff {
			fmt.Println("FAKE-NOT-CONFORMANT", d)
		}
		vkit.Fatalf(t, "FAKE-NOT-CONFORMANT: %d scripts differ", len(diff))
	}
	c.ValidatedN(len(fake))
	c.Sample(map[string]any{"scripts": len(fake), "example": fake["S4-local-close-then-peer-reset"]})
}
