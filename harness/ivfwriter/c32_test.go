package ivfwriter

// C32 — IVF writer output reads back as the written frames.
//
// Bounded exhaustive enumeration on the real IVFWriter + IVFReader: every
// stream of the stated finite domain (codec x frame-size sequence x frame kinds
// x MTU x timestamp start/step x frame rate x direct-PTS x output kind x
// picture size) is payloaded by pion's payloaders, written by the real
// IVFWriter, and the produced bytes are decoded twice: by an own IVF parser and
// by the real IVFReader. Both must return exactly the frames an independent
// model says the writer must have assembled.

import (
	"bytes"
	"encoding/binary"
	"encoding/json"
	"errors"
	"fmt"
	"io"
	"testing"

	"github.com/pion/rtp"
	"github.com/pion/rtp/codecs"
	"github.com/pion/webrtc/v4/internal/verif/vkit"
	"github.com/pion/webrtc/v4/pkg/media/ivfreader"
)

const (
	c32VP8     = "VP8"
	c32VP9Flex = "VP9flex" // VP9 payloader in flexible mode (P bit never set)
	c32VP9     = "VP9"     // VP9 payloader in non-flexible mode (parses the VP9 frame header)
	c32AV1     = "AV1"
)

type c32Rate struct {
	Set      bool
	Num, Den uint32
}

// c32Case is one enumerated stream + writer configuration (also the replay format).
type c32Case struct {
	Codec    string
	Sizes    []int // frame size parameter of every frame; frame 0 is a keyframe
	AllKey   bool  // every frame is a keyframe (otherwise only frame 0)
	MTU      int
	Start    uint32 // RTP timestamp of frame 0
	Step     uint32 // RTP timestamp increment per frame
	Rate     c32Rate
	Direct   bool
	Seekable bool
	Dim      bool // WithWidthAndHeight(1, 65535) instead of the 640x480 default
}

func (cs c32Case) String() string { return vkit.Short(cs) }

// c32Seeker is an in-memory io.WriteSeeker (the seekable output kind).
type c32Seeker struct {
	buf []byte
	pos int64
}

func (s *c32Seeker) Write(p []byte) (int, error) {
	end := s.pos + int64(len(p))
	if end > int64(len(s.buf)) {
		s.buf = append(s.buf, make([]byte, end-int64(len(s.buf)))...)
	}
	copy(s.buf[s.pos:], p)
	s.pos = end

	return len(p), nil
}

func (s *c32Seeker) Seek(off int64, whence int) (int64, error) {
	switch whence {
	case io.SeekStart:
		s.pos = off
	case io.SeekCurrent:
		s.pos += off
	case io.SeekEnd:
		s.pos = int64(len(s.buf)) + off
	}
	if s.pos < 0 {
		return 0, errors.New("negative position")
	}

	return s.pos, nil
}

// c32Leb is an own LEB128 encoder (minimal length).
func c32Leb(v int) []byte {
	var out []byte
	for {
		b := byte(v & 0x7f)
		v >>= 7
		if v != 0 {
			out = append(out, b|0x80)
		} else {
			return append(out, b)
		}
	}
}

// c32Fill returns n deterministic bytes that differ per frame.
func c32Fill(n, idx int) []byte {
	out := make([]byte, n)
	for i := range out {
		out[i] = byte(i*7 + idx*31 + 3)
	}

	return out
}

// c32Frame builds the encoder output of frame idx (what is handed to the
// payloader) and the bytes the IVF file must contain for it.
func c32Frame(codec string, size, idx int, key bool) (in, want []byte) {
	switch codec {
	case c32VP8:
		f := c32Fill(size, idx)
		if key {
			f[0] &^= 0x01 // VP8 frame tag: bit 0 == 0 is a keyframe
		} else {
			f[0] |= 0x01
		}

		return f, f
	case c32VP9Flex:
		f := c32Fill(size, idx)

		return f, f
	case c32VP9:
		if key {
			// frame_marker=2, profile 0, show_existing=0, key frame, show_frame=1; sync code;
			// color_space=1, color_range=0; 640x480
			hdr := []byte{0x82, 0x49, 0x83, 0x42, 0x20, 0x27, 0xf0, 0x1d, 0xf0, 0x00}
			if size < len(hdr) {
				size = len(hdr)
			}
			f := c32Fill(size, idx)
			copy(f, hdr)

			return f, f
		}
		f := c32Fill(size, idx)
		f[0] = 0x86 // frame_marker=2, profile 0, show_existing=0, non-key frame, show_frame=1

		return f, f
	default: // AV1: low-overhead OBU stream, every OBU with a size field
		var obus []byte
		if key {
			obus = append(obus, 0x0a, 0x03, 0x11, 0x22, byte(idx)) // OBU_SEQUENCE_HEADER, 3 bytes
		}
		obus = append(obus, 0x32) // OBU_FRAME, has_size_field
		obus = append(obus, c32Leb(size)...)
		obus = append(obus, c32Fill(size, idx)...)
		in = obus
		if idx%2 == 1 {
			// an encoder may emit the temporal delimiter; the payloader must drop it
			in = append([]byte{0x12, 0x00}, obus...)
		}
		// the writer stores one temporal unit: temporal delimiter + the OBUs with size fields
		want = append([]byte{0x12, 0x00}, obus...)

		return in, want
	}
}

func c32Payloader(codec string) rtp.Payloader {
	switch codec {
	case c32VP8:
		return &codecs.VP8Payloader{}
	case c32VP9Flex:
		return &codecs.VP9Payloader{FlexibleMode: true, InitialPictureIDFn: func() uint16 { return 0x7ffe }}
	case c32VP9:
		return &codecs.VP9Payloader{InitialPictureIDFn: func() uint16 { return 0x7ffe }}
	default:
		return &codecs.AV1Payloader{}
	}
}

func c32Mime(codec string) (mime, fourcc string) {
	switch codec {
	case c32VP8:
		return mimeTypeVP8, "VP80"
	case c32VP9Flex, c32VP9:
		return mimeTypeVP9, "VP90"
	default:
		return mimeTypeAV1, "AV01"
	}
}

type c32Built struct {
	want    [][]byte   // frames the file must contain
	packets [][][]byte // RTP payloads per frame
	multi   bool       // some frame needed more than one packet
}

func c32Build(cs c32Case) (*c32Built, error) {
	b := &c32Built{}
	pl := c32Payloader(cs.Codec)
	for idx, size := range cs.Sizes {
		in, want := c32Frame(cs.Codec, size, idx, idx == 0 || cs.AllKey)
		pk := pl.Payload(uint16(cs.MTU), in) //nolint:gosec
		if len(pk) == 0 {
			return nil, fmt.Errorf("payloader produced no packet for frame %d (size %d)", idx, size)
		}
		for _, p := range pk {
			if len(p) > cs.MTU {
				return nil, fmt.Errorf("payloader exceeded the MTU: %d > %d", len(p), cs.MTU)
			}
		}
		if len(pk) > 1 {
			b.multi = true
		}
		b.want = append(b.want, want)
		b.packets = append(b.packets, pk)
	}

	return b, nil
}

type c32Parsed struct {
	fourcc        string
	width, height uint16
	den, num      uint32
	nframes       uint32
	frames        [][]byte
	pts           []uint64
}

// c32Parse is the own IVF parser (independent of ivfreader).
func c32Parse(raw []byte) (*c32Parsed, error) {
	if len(raw) < 32 {
		return nil, fmt.Errorf("file shorter than the 32-byte header: %d", len(raw))
	}
	if string(raw[0:4]) != "DKIF" {
		return nil, fmt.Errorf("signature %q", raw[0:4])
	}
	if v := binary.LittleEndian.Uint16(raw[4:]); v != 0 {
		return nil, fmt.Errorf("version %d", v)
	}
	if v := binary.LittleEndian.Uint16(raw[6:]); v != 32 {
		return nil, fmt.Errorf("header length %d", v)
	}
	p := &c32Parsed{
		fourcc:  string(raw[8:12]),
		width:   binary.LittleEndian.Uint16(raw[12:]),
		height:  binary.LittleEndian.Uint16(raw[14:]),
		den:     binary.LittleEndian.Uint32(raw[16:]),
		num:     binary.LittleEndian.Uint32(raw[20:]),
		nframes: binary.LittleEndian.Uint32(raw[24:]),
	}
	off := 32
	for off < len(raw) {
		if len(raw)-off < 12 {
			return nil, fmt.Errorf("truncated frame header at %d", off)
		}
		n := int(binary.LittleEndian.Uint32(raw[off:]))
		pts := binary.LittleEndian.Uint64(raw[off+4:])
		off += 12
		if n > len(raw)-off {
			return nil, fmt.Errorf("frame of %d bytes at %d exceeds the file", n, off)
		}
		p.frames = append(p.frames, raw[off:off+n])
		p.pts = append(p.pts, pts)
		off += n
	}

	return p, nil
}

// c32PTS is the writer's documented PTS computation, in own arithmetic:
// direct mode stores the RTP timestamp distance to the first frame; otherwise
// the distance is converted to milliseconds at 90 kHz and scaled by numerator/denominator.
func c32PTS(cs c32Case, idx int, num, den uint32) uint64 {
	delta := uint64(cs.Step * uint32(idx)) //nolint:gosec // distance modulo 2^32, like RTP
	if cs.Direct {
		return delta
	}
	ms := delta * 1000 / 90000

	return ms * uint64(num) / uint64(den)
}

func c32Class(cs c32Case) string {
	return fmt.Sprintf("codec=%s|mtu=%d|direct=%v|seekable=%v", cs.Codec, cs.MTU, cs.Direct, cs.Seekable)
}

// c32Check runs one case against the real writer and reader.
func c32Check(c *vkit.Check, cs c32Case, b *c32Built) { //nolint:gocognit,cyclop,maintidx
	c.Eval()
	mime, fourcc := c32Mime(cs.Codec)
	opts := []Option{WithCodec(mime)}
	num, den := uint32(1), uint32(30)
	if cs.Rate.Set {
		num, den = cs.Rate.Num, cs.Rate.Den
		opts = append(opts, WithFrameRate(num, den))
	}
	if cs.Direct {
		opts = append(opts, WithDirectPTS())
	}
	width, height := uint16(640), uint16(480)
	if cs.Dim {
		width, height = 1, 65535
		opts = append(opts, WithWidthAndHeight(width, height))
	}

	var raw func() []byte
	var out io.Writer
	if cs.Seekable {
		s := &c32Seeker{}
		out, raw = s, func() []byte { return s.buf }
	} else {
		s := &bytes.Buffer{}
		out, raw = s, s.Bytes
	}

	failed := false
	bad := func(key, what string) {
		failed = true
		c.Violation(key, what+" (case "+cs.String()+")", cs)
	}

	c.Guard(cs.String(), cs, func() {
		w, err := NewWith(out, opts...)
		if err != nil {
			bad("writer-error|new|"+c32Class(cs), "NewWith: "+err.Error())

			return
		}
		seq := uint16(65534)
		for idx, pk := range b.packets {
			for k, p := range pk {
				// the packet is handed over in the caller's receive buffer, which the caller overwrites as soon as
				// WriteRTP returned (a receive loop around one buffer): a writer that keeps a fragment's slice until
				// the frame is complete assembles whatever the buffer holds by then. Not for AV1: there the
				// depacketizer of the pion/rtp dependency itself keeps a sub-slice of the payload for a fragmented
				// OBU, which is outside pion/webrtc.
				recv := p
				if cs.Codec != "AV1" && cs.Codec != "av1" {
					recv = append([]byte{}, p...)
				}
				err = w.WriteRTP(&rtp.Packet{
					Header: rtp.Header{
						Version: 2, PayloadType: 96, SequenceNumber: seq, SSRC: 1,
						Timestamp: cs.Start + cs.Step*uint32(idx), //nolint:gosec
						Marker:    k == len(pk)-1,
					},
					Payload: recv,
				})
				if cs.Codec != "AV1" && cs.Codec != "av1" {
					for j := range recv {
						recv[j] = 0xEE
					}
				}
				seq++
				if err != nil {
					bad("writer-error|write|"+c32Class(cs), fmt.Sprintf("WriteRTP frame %d packet %d: %v", idx, k, err))

					return
				}
			}
		}
		if err = w.Close(); err != nil {
			bad("writer-error|close|"+c32Class(cs), "Close: "+err.Error())
		}
	})
	if failed {
		return
	}
	data := raw()

	// 1. own parser: header fields, frame count, frames, PTS
	p, err := c32Parse(data)
	if err != nil {
		bad("file-malformed|"+c32Class(cs), "own IVF parser: "+err.Error())

		return
	}
	if p.fourcc != fourcc {
		bad("header|fourcc|codec="+cs.Codec, fmt.Sprintf("FourCC %q, configured %q", p.fourcc, fourcc))
	}
	if p.width != width || p.height != height {
		bad(fmt.Sprintf("header|size|custom=%v", cs.Dim), fmt.Sprintf("size %dx%d, configured %dx%d", p.width, p.height, width, height))
	}
	if p.num != num || p.den != den {
		bad(fmt.Sprintf("header|timebase|set=%v", cs.Rate.Set), fmt.Sprintf("timebase %d/%d, configured %d/%d", p.num, p.den, num, den))
	}
	if cs.Seekable && int(p.nframes) != len(p.frames) {
		bad("header|framecount|codec="+cs.Codec, fmt.Sprintf("seekable output: header frame count %d, frames in file %d", p.nframes, len(p.frames)))
	}
	if cs.Seekable && int(p.nframes) != len(b.want) {
		bad("header|framecount-vs-written|codec="+cs.Codec, fmt.Sprintf("seekable output: header frame count %d, frames written %d", p.nframes, len(b.want)))
	}
	if len(p.frames) != len(b.want) {
		bad("frames|count|"+c32Class(cs), fmt.Sprintf("file holds %d frames, %d were sent", len(p.frames), len(b.want)))

		return
	}
	for i := range b.want {
		if !bytes.Equal(p.frames[i], b.want[i]) {
			bad("frames|bytes|"+c32Class(cs), fmt.Sprintf("frame %d: file holds %d bytes %s, expected %d bytes %s",
				i, len(p.frames[i]), c32Head(p.frames[i]), len(b.want[i]), c32Head(b.want[i])))

			return
		}
		if want := c32PTS(cs, i, num, den); p.pts[i] != want {
			bad(fmt.Sprintf("pts|direct=%v|rateset=%v", cs.Direct, cs.Rate.Set),
				fmt.Sprintf("frame %d: PTS %d in file, writer's computation gives %d", i, p.pts[i], want))

			return
		}
	}

	// 2. the real IVFReader returns the same
	c.Guard(cs.String(), cs, func() {
		r, hdr, rerr := ivfreader.NewWith(bytes.NewReader(data))
		if rerr != nil {
			bad("reader|open|"+c32Class(cs), "ivfreader.NewWith: "+rerr.Error())

			return
		}
		if hdr.FourCC != fourcc || hdr.Width != width || hdr.Height != height ||
			hdr.TimebaseNumerator != num || hdr.TimebaseDenominator != den {
			bad("reader|header|codec="+cs.Codec, fmt.Sprintf("IVFReader header %+v, configured %s %dx%d %d/%d", *hdr, fourcc, width, height, num, den))
		}
		if cs.Seekable && int(hdr.NumFrames) != len(b.want) {
			bad("reader|framecount|codec="+cs.Codec, fmt.Sprintf("IVFReader NumFrames %d, written %d", hdr.NumFrames, len(b.want)))
		}
		for i := range b.want {
			payload, fh, ferr := r.ParseNextFrame()
			if ferr != nil || fh == nil {
				bad("reader|frame-error|"+c32Class(cs), fmt.Sprintf("IVFReader frame %d of %d: %v", i, len(b.want), ferr))

				return
			}
			if !bytes.Equal(payload, b.want[i]) || int(fh.FrameSize) != len(b.want[i]) {
				bad("reader|bytes|"+c32Class(cs), fmt.Sprintf("IVFReader frame %d: %d bytes %s, expected %d bytes %s",
					i, len(payload), c32Head(payload), len(b.want[i]), c32Head(b.want[i])))

				return
			}
			if want := c32PTS(cs, i, num, den) * uint64(den) / uint64(num); fh.Timestamp != want {
				bad(fmt.Sprintf("reader|timestamp|direct=%v|rateset=%v", cs.Direct, cs.Rate.Set),
					fmt.Sprintf("IVFReader frame %d: timestamp %d, writer's PTS computation gives %d", i, fh.Timestamp, want))

				return
			}
		}
		if _, _, ferr := r.ParseNextFrame(); !errors.Is(ferr, io.EOF) {
			bad("reader|trailing|"+c32Class(cs), fmt.Sprintf("IVFReader after the last frame: %v (want io.EOF)", ferr))
		}
		// 3. the same file read while it is still growing: the reader first sees a prefix that ends inside a
		// frame (inside its 12-byte header, right behind it, inside its data, one byte before its end), gets an
		// error there, and is handed the rest through ResetReader (the documented way to follow a live file):
		// the frames read before and after the interruption are still exactly the written ones
		off := 32
		for i := range b.want {
			n := len(b.want[i])
			for _, cut := range []int{off + 1, off + 11, off + 12, off + 13, off + 12 + n/2, off + 12 + n - 1} {
				if cut <= off || cut >= off+12+n || cut > len(data) {
					continue
				}
				fr, _, ferr := ivfreader.NewWith(bytes.NewReader(data[:cut]))
				if ferr != nil {
					bad("reader|follow-open|"+c32Class(cs), "ivfreader.NewWith on a prefix with a complete file header: "+ferr.Error())

					return
				}
				var got [][]byte
				resumed := false
				for len(got) <= len(b.want) {
					payload, fh, perr := fr.ParseNextFrame()
					if perr == nil && fh != nil {
						got = append(got, payload)

						continue
					}
					if resumed {
						break
					}
					resumed = true
					fr.ResetReader(func(bytesRead int64) io.Reader { return bytes.NewReader(data[bytesRead:]) })
				}
				same := len(got) == len(b.want)
				for k := 0; same && k < len(got); k++ {
					same = bytes.Equal(got[k], b.want[k])
				}
				if !same {
					bad("reader|follow|interrupted-in="+map[bool]string{true: "frame-header", false: "frame-data"}[cut < off+12]+"|"+c32Class(cs),
						fmt.Sprintf("reading resumed with ResetReader after the input first ended at offset %d (frame %d starts at %d, %d bytes): %d frames read, %d written, or their bytes differ",
							cut, i, off, n, len(got), len(b.want)))

					return
				}
			}
			off += 12 + n
		}
	})
	if failed {
		return
	}

	if len(b.want) > 0 {
		wrap := uint64(cs.Start)+uint64(cs.Step)*uint64(len(b.want)-1) > 0xffffffff
		c.Distinct(fmt.Sprintf("%s|frames=%d|multi=%v|allkey=%v|wrap=%v|direct=%v|seek=%v|rate=%d/%d",
			cs.Codec, len(b.want), b.multi, cs.AllKey, wrap, cs.Direct, cs.Seekable, num, den))
		c.Outcome(fmt.Sprintf("%s|%d|%d", cs.Codec, len(b.want), p.pts[len(p.pts)-1]))
	}
}

func c32Head(b []byte) string {
	if len(b) > 12 {
		return fmt.Sprintf("%x…", b[:12])
	}

	return fmt.Sprintf("%x", b)
}

// c32Sizes is the frame-size domain for a codec at an MTU: 1 (minimum), a
// small frame, the largest frame that fits one packet and one byte more
// (the fragmentation boundary of that payloader), and a frame of many packets.
func c32Sizes(codec string, mtu int) []int {
	switch codec {
	case c32VP8:
		return []int{1, 50, mtu - 1, mtu, 5000} // 1-byte payload descriptor
	case c32VP9Flex:
		return []int{1, 50, mtu - 3, mtu - 2, 5000} // 3-byte descriptor
	case c32VP9:
		// keyframes: 11-byte descriptor on the first packet; other frames 3 bytes
		return []int{1, 50, mtu - 11, mtu - 10, mtu - 3, mtu - 2, 5000}
	default:
		// size = payload of the OBU_FRAME. inter frame: aggregation header + OBU header + payload
		// (edge mtu-2); keyframe: + length-prefixed 4-byte sequence header element (edge mtu-7)
		return []int{1, 50, mtu - 8, mtu - 7, mtu - 6, mtu - 3, mtu - 2, mtu - 1, 5000}
	}
}

func TestVerifC32(t *testing.T) { //nolint:cyclop
	c := vkit.New("C32", "exploration")
	defer c.Finish(t)
	c.Rule("every stream of: codec {VP8, VP9 flexible, VP9 non-flexible, AV1} x frame-size sequences of length 0..N over the per-codec size domain " +
		"(1, 50, one-packet edge, edge+1, 5000; plus descriptor edges for VP9/AV1) x {only frame 0 is a keyframe, all keyframes} x MTU {100, 1200} " +
		"x RTP timestamp start {0, 2^32-1500 (wraps at the second frame)} x step {1, 3000, 3003} x frame rate {default, 1/90000, 1001/30000, 1/1000} x direct-PTS {off,on} " +
		"x output {io.Writer, io.WriteSeeker} x picture size {default, 1x65535}; payloaded by pion's payloaders, written by the real IVFWriter, " +
		"decoded by an own IVF parser and by the real IVFReader. A case is non-trivial when >= 1 frame was written and read back; distinct = " +
		"(codec, frame count, fragmented?, all-key?, timestamp wrapped?, direct, seekable, rate)")
	c.Assume("expected file frames: VP8/VP9 = the encoder frame handed to the payloader; AV1 = temporal delimiter (12 00) + the frame's OBUs each with obu_has_size_field and a minimal LEB128 size (what the AV1 RTP spec's depacketization yields)")
	c.Assume("streams are loss-free, in order, one marker per frame, first frame a keyframe (the property's precondition)")
	c.Assume("PTS oracle = the writer's documented computation re-implemented: direct mode PTS = RTP distance to the first frame; otherwise floor(floor(distance*1000/90000) * numerator / denominator); IVFReader timestamp = PTS * denominator / numerator")

	if raw, ok := c.ReplayCase(); ok {
		var cs c32Case
		if err := json.Unmarshal(raw, &cs); err != nil {
			vkit.Fatalf(t, "replay case: %v", err)
		}
		b, err := c32Build(cs)
		if err != nil {
			vkit.Fatalf(t, "replay build: %v", err)
		}
		c32Check(c, cs, b)
		c.Sample(cs)
		c.NotExhaustive("replay of one case")

		return
	}

	// sequences up to length 2 (quick); thorough: 4 for the 5-value size domains, 3 for the larger ones
	maxFramesFor := func(dom []int) int {
		if c.Quick() {
			return 2
		}
		if len(dom) <= 5 {
			return 4
		}

		return 3
	}
	c.Set("max_frames", map[string]int{"quick": 2, "thorough_5_sizes": 4, "thorough_7_or_9_sizes": 3})
	codecsList := []string{c32VP8, c32VP9Flex, c32VP9, c32AV1}
	mtus := []int{100, 1200}
	starts := []uint32{0, 0xffffffff - 1499}
	steps := []uint32{1, 3000, 3003}
	rates := []c32Rate{{}, {true, 1, 90000}, {true, 1001, 30000}, {true, 1, 1000}}
	c.Set("domains", map[string]any{"codecs": codecsList, "mtu": mtus, "ts_start": starts, "ts_step": steps,
		"rates": []string{"default(1/30)", "1/90000", "1001/30000", "1/1000"}})

	// groups share the packetisation; the configuration product runs inside a group
	type group struct {
		codec  string
		mtu    int
		sizes  []int
		allKey bool
	}
	var groups []group
	for _, codec := range codecsList {
		for _, mtu := range mtus {
			dom := c32Sizes(codec, mtu)
			for _, seq := range vkit.AllSequences(len(dom), 0, maxFramesFor(dom)) {
				sizes := make([]int, len(seq))
				for i, s := range seq {
					sizes[i] = dom[s]
				}
				for _, allKey := range []bool{false, true} {
					if allKey && len(sizes) < 2 {
						continue // identical to allKey=false
					}
					groups = append(groups, group{codec, mtu, sizes, allKey})
				}
			}
		}
	}
	c.Set("packetisation_groups", len(groups))

	vkit.Parallel(len(groups), func(gi int) {
		g := groups[gi]
		base := c32Case{Codec: g.codec, Sizes: g.sizes, AllKey: g.allKey, MTU: g.mtu}
		b, err := c32Build(base)
		if err != nil {
			c.Violation("payloader|"+g.codec, err.Error()+" (case "+base.String()+")", base)

			return
		}
		for _, start := range starts {
			for _, step := range steps {
				for _, rate := range rates {
					for _, direct := range []bool{false, true} {
						for _, seekable := range []bool{false, true} {
							for _, dim := range []bool{false, true} {
								cs := base
								cs.Start, cs.Step, cs.Rate, cs.Direct, cs.Seekable, cs.Dim = start, step, rate, direct, seekable, dim
								c32Check(c, cs, b)
								if gi%997 == 5 && start != 0 && step == 3000 && direct && seekable && !dim && rate.Den == 90000 {
									c.Sample(cs)
								}
							}
						}
					}
				}
			}
		}
	})
}
