package media_test

// C37 — Container readers never crash or hang on arbitrary bytes.
//
// Bounded exhaustive deviation enumeration on the real readers: from small
// valid seed files (produced by the real writers or by hand) every truncation
// offset, every single-byte substitution by {00,01,7f,80,ff} at every offset
// (all 256 values for offsets < 64 and for every length/size field), and in
// the thorough tier every pair of substitutions inside the headers, fed to
// every reader through several io.Reader shapes.
//
// Oracle: no panic; every call returns a value or an error; calls <= bytes
// consumed + 2 (counting io.Reader); a reader that keeps polling an exhausted
// stream is stopped by the stream itself; a reader that does not return at all
// is reported by a liveness guard, only after the single case was re-run alone.

import (
	"bytes"
	"encoding/binary"
	"encoding/json"
	"fmt"
	"io"
	"net"
	"os"
	"runtime"
	"sort"
	"strconv"
	"strings"
	"sync"
	"sync/atomic"
	"testing"
	"time"

	"github.com/pion/rtp"
	"github.com/pion/rtp/codecs"
	"github.com/pion/webrtc/v4/internal/verif/vkit"
	"github.com/pion/webrtc/v4/pkg/media/h264reader"
	"github.com/pion/webrtc/v4/pkg/media/h265reader"
	"github.com/pion/webrtc/v4/pkg/media/ivfreader"
	"github.com/pion/webrtc/v4/pkg/media/ivfwriter"
	"github.com/pion/webrtc/v4/pkg/media/oggreader"
	"github.com/pion/webrtc/v4/pkg/media/oggwriter"
	"github.com/pion/webrtc/v4/pkg/media/rtpdump"
)

// ---------------------------------------------------------------------------
// the input stream handed to a reader

const (
	c37Whole   = 0 // Read fills the caller's buffer
	c37OneByte = 1 // Read returns one byte at a time
	c37DataErr = 2 // the last bytes are returned together with io.EOF

	c37EOFReadLimit = 1 << 14 // Reads tolerated after end of input before the stream stops a spinning reader
)

var c37ModeNames = []string{"whole", "onebyte", "data+eof"}

type c37Spin struct{}

type c37Stream struct {
	data     []byte
	pos      int
	mode     int
	consumed int
	eofReads int
}

func (s *c37Stream) Read(p []byte) (int, error) {
	if len(p) == 0 {
		return 0, nil
	}
	if s.pos >= len(s.data) {
		s.eofReads++
		if s.eofReads > c37EOFReadLimit {
			panic(c37Spin{}) // the reader polls an exhausted stream forever: abort the call
		}

		return 0, io.EOF
	}
	n := min(len(p), len(s.data)-s.pos)
	if s.mode == c37OneByte {
		n = 1
	}
	copy(p, s.data[s.pos:s.pos+n])
	s.pos += n
	s.consumed += n
	if s.mode == c37DataErr && s.pos == len(s.data) {
		return n, io.EOF
	}

	return n, nil
}

// ---------------------------------------------------------------------------
// targets

type c37Res struct {
	opened  bool   // the reader accepted the header / reached its per-unit code
	calls   int    // unit calls made
	err     string // final error (normalised)
	problem string // "", "novalue", "noprogress"
}

// c37Loop calls next until it reports an error; it enforces "value or error"
// and the progress bound calls <= consumed bytes + 2.
func c37Loop(st *c37Stream, res *c37Res, next func() (bool, error)) {
	for {
		has, err := next()
		res.calls++
		if err != nil {
			res.err = c37Norm(err.Error())

			return
		}
		if !has {
			res.problem = "novalue"

			return
		}
		if res.calls > st.consumed+2 {
			res.problem = "noprogress"

			return
		}
	}
}

func c37Norm(s string) string {
	var b strings.Builder
	lastHash := false
	for _, r := range s {
		if r >= '0' && r <= '9' {
			if !lastHash {
				b.WriteByte('#')
			}
			lastHash = true

			continue
		}
		lastHash = false
		if r < 0x20 || r > 0x7e {
			r = '?'
		}
		b.WriteRune(r)
	}
	out := b.String()
	if len(out) > 60 {
		out = out[:60]
	}

	return out
}

type c37Target struct {
	name   string
	kind   string // seed kind it applies to
	blob   bool   // parser of a byte slice (no stream, one call)
	fixCRC bool   // Ogg: recompute the page checksums after the mutation so that it is seen behind the CRC gate
	run    func(st *c37Stream, res *c37Res)
}

func c37OggPages(st *c37Stream, res *c37Res, r *oggreader.OggReader) {
	c37Loop(st, res, func() (bool, error) {
		payload, hdr, err := r.ParseNextPage()
		if err != nil {
			return false, err
		}
		if hdr == nil {
			return false, nil
		}
		// the page-level helpers and the header parsers see every payload
		_, _ = hdr.HeaderType(payload)
		_, _ = oggreader.ParseOpusHead(payload)
		_, _ = oggreader.ParseOpusTags(payload)

		return true, nil
	})
}

func c37Targets() []c37Target {
	h264 := func(sei bool) func(st *c37Stream, res *c37Res) {
		return func(st *c37Stream, res *c37Res) {
			r, err := h264reader.NewReaderWithOptions(st, h264reader.WithIncludeSEI(sei))
			if err != nil {
				res.err = c37Norm(err.Error())

				return
			}
			res.opened = true
			c37Loop(st, res, func() (bool, error) {
				nal, nerr := r.NextNAL()

				return nal != nil, nerr
			})
		}
	}
	h265 := func(sei bool) func(st *c37Stream, res *c37Res) {
		return func(st *c37Stream, res *c37Res) {
			r, err := h265reader.NewReaderWithOptions(st, h265reader.WithIncludeSEI(sei))
			if err != nil {
				res.err = c37Norm(err.Error())

				return
			}
			res.opened = true
			c37Loop(st, res, func() (bool, error) {
				nal, nerr := r.NextNAL()

				return nal != nil, nerr
			})
		}
	}
	oggChecked := func(st *c37Stream, res *c37Res) {
		r, hdr, err := oggreader.NewWith(st)
		if err != nil {
			res.err = c37Norm(err.Error())

			return
		}
		if r == nil || hdr == nil {
			res.problem = "novalue"

			return
		}
		res.opened = true
		c37OggPages(st, res, r)
	}

	return []c37Target{
		{name: "ivfreader", kind: "ivf", run: func(st *c37Stream, res *c37Res) {
			r, hdr, err := ivfreader.NewWith(st)
			if err != nil {
				res.err = c37Norm(err.Error())

				return
			}
			if r == nil || hdr == nil {
				res.problem = "novalue"

				return
			}
			res.opened = true
			c37Loop(st, res, func() (bool, error) {
				_, fh, ferr := r.ParseNextFrame()

				return fh != nil, ferr
			})
		}},
		{name: "oggreader", kind: "ogg", run: oggChecked},
		{name: "oggreader+validcrc", kind: "ogg", fixCRC: true, run: oggChecked},
		{name: "oggreader-nochecksum", kind: "ogg", run: func(st *c37Stream, res *c37Res) {
			r, err := oggreader.NewWithOptions(st, oggreader.WithDoChecksum(false))
			if err != nil {
				res.err = c37Norm(err.Error())

				return
			}
			res.opened = true
			c37OggPages(st, res, r)
		}},
		{name: "h264reader", kind: "h264", run: h264(false)},
		{name: "h264reader+sei", kind: "h264", run: h264(true)},
		{name: "h265reader", kind: "h265", run: h265(false)},
		{name: "h265reader+sei", kind: "h265", run: h265(true)},
		{name: "rtpdump.Reader", kind: "rtpdump", run: func(st *c37Stream, res *c37Res) {
			r, _, err := rtpdump.NewReader(st)
			if err != nil {
				res.err = c37Norm(err.Error())

				return
			}
			if r == nil {
				res.problem = "novalue"

				return
			}
			res.opened = true
			c37Loop(st, res, func() (bool, error) {
				_, nerr := r.Next()

				return true, nerr
			})
		}},
		{name: "ParseOpusHead", kind: "opushead", blob: true, run: func(st *c37Stream, res *c37Res) {
			h, err := oggreader.ParseOpusHead(st.data)
			c37Blob(res, h != nil, err)
		}},
		{name: "ParseOpusTags", kind: "opustags", blob: true, run: func(st *c37Stream, res *c37Res) {
			tg, err := oggreader.ParseOpusTags(st.data)
			c37Blob(res, tg != nil, err)
		}},
		{name: "rtpdump.Packet.Unmarshal", kind: "rtpdump-packet", blob: true, run: func(st *c37Stream, res *c37Res) {
			var p rtpdump.Packet
			c37Blob(res, true, p.Unmarshal(st.data))
		}},
		{name: "rtpdump.Header.Unmarshal", kind: "rtpdump-header", blob: true, run: func(st *c37Stream, res *c37Res) {
			var h rtpdump.Header
			c37Blob(res, true, h.Unmarshal(st.data))
		}},
	}
}

func c37Blob(res *c37Res, has bool, err error) {
	res.calls = 1
	switch {
	case err != nil:
		res.err = c37Norm(err.Error())
	case !has:
		res.problem = "novalue"
	default:
		res.opened = true
		res.err = "ok"
	}
}

// ---------------------------------------------------------------------------
// seeds

type c37Seed struct {
	name   string
	kind   string
	data   []byte
	fields []int // offsets of length / size / count / start-code bytes
	words  []int // offsets of the low 16 bits of multi-byte length fields (all 65536 values, thorough)
	// derived
	sub1 []c37Sub
	hdr  []int // offsets that take part in pair substitutions
}

type c37Sub struct {
	off int
	val byte
}

var c37Vals5 = []byte{0x00, 0x01, 0x7f, 0x80, 0xff}

func c37Fill(n, seed int) []byte {
	out := make([]byte, n)
	for i := range out {
		out[i] = byte(i*11 + seed*17 + 2)
	}

	return out
}

func c37Must(err error) {
	if err != nil {
		panic("seed construction: " + err.Error())
	}
}

// own CRC-32 of Ogg (poly 0x04c11db7, init 0, MSB first) for the "+validcrc" target
var c37CRCTable = func() (t [256]uint32) {
	for i := range t {
		r := uint32(i) << 24 //nolint:gosec
		for k := 0; k < 8; k++ {
			if r&0x80000000 != 0 {
				r = r<<1 ^ 0x04c11db7
			} else {
				r <<= 1
			}
		}
		t[i] = r
	}

	return t
}()

// c37FixCRC rewrites the checksum of every page that can still be delimited.
func c37FixCRC(b []byte) {
	off := 0
	for len(b)-off >= 27 {
		nseg := int(b[off+26])
		if len(b)-off-27 < nseg {
			return
		}
		size := 0
		for _, l := range b[off+27 : off+27+nseg] {
			size += int(l)
		}
		end := off + 27 + nseg + size
		if end > len(b) {
			return
		}
		var crc uint32
		for i := off; i < end; i++ {
			v := b[i]
			if i >= off+22 && i < off+26 {
				v = 0
			}
			crc = crc<<8 ^ c37CRCTable[byte(crc>>24)^v]
		}
		binary.LittleEndian.PutUint32(b[off+22:], crc)
		off = end
	}
}

func c37OggFields(b []byte) []int {
	var f []int
	off, page := 0, 0
	for len(b)-off >= 27 {
		nseg := int(b[off+26])
		f = append(f, off+5, off+26)
		size := 0
		for i := 0; i < nseg; i++ {
			if i < 4 {
				f = append(f, off+27+i)
			}
			size += int(b[off+27+i])
		}
		body := off + 27 + nseg
		switch {
		case page == 0 && size >= 19: // OpusHead: channel count, mapping family, stream counts
			f = append(f, body+9, body+18)
			if size > 21 {
				f = append(f, body+19, body+20)
			}
		case size >= 16 && string(b[body:body+8]) == "OpusTags":
			vl := int(binary.LittleEndian.Uint32(b[body+8:]))
			f = append(f, body+8, body+9, body+10, body+11)
			if c := body + 12 + vl; c+8 <= body+size {
				f = append(f, c, c+1, c+2, c+3, c+4, c+5, c+6, c+7)
			}
		}
		off = body + size
		page++
	}

	return f
}

// c37OggWords: per page the (segment count, first lacing value) pair; in OpusTags the low words of the vendor length and the comment count.
func c37OggWords(b []byte) []int {
	var w []int
	off := 0
	for len(b)-off >= 27 {
		nseg := int(b[off+26])
		if nseg > 0 {
			w = append(w, off+26)
		}
		size := 0
		for i := 0; i < nseg; i++ {
			size += int(b[off+27+i])
		}
		body := off + 27 + nseg
		if size >= 16 && string(b[body:body+8]) == "OpusTags" {
			vl := int(binary.LittleEndian.Uint32(b[body+8:]))
			w = append(w, body+8, body+12+vl)
		}
		off = body + size
	}

	return w
}

func c37Seeds() []*c37Seed {
	var seeds []*c37Seed

	// IVF: three VP8 frames written by the real IVFWriter
	{
		buf := &bytes.Buffer{}
		w, err := ivfwriter.NewWith(buf, ivfwriter.WithCodec("video/VP8"))
		c37Must(err)
		pl := &codecs.VP8Payloader{}
		for i, size := range []int{1, 30, 5} {
			frame := c37Fill(size, i)
			frame[0] &^= 1
			pk := pl.Payload(20, frame)
			for k, p := range pk {
				c37Must(w.WriteRTP(&rtp.Packet{Header: rtp.Header{Version: 2, Timestamp: uint32(3000 * i), Marker: k == len(pk)-1}, Payload: p})) //nolint:gosec
			}
		}
		c37Must(w.Close())
		data := append([]byte(nil), buf.Bytes()...)
		fields := []int{4, 5, 6, 7, 16, 17, 18, 19, 20, 21, 22, 23, 24, 25, 26, 27}
		for off := 32; off+12 <= len(data); {
			fields = append(fields, off, off+1, off+2, off+3)
			off += 12 + int(binary.LittleEndian.Uint32(data[off:]))
		}
		words := []int{6}
		for off := 32; off+12 <= len(data); off += 12 + int(binary.LittleEndian.Uint32(data[off:])) {
			words = append(words, off)
		}
		seeds = append(seeds, &c37Seed{name: "ivf-vp8-3frames", kind: "ivf", data: data, fields: fields, words: words})
	}

	// Ogg A: single track written by OggWriter, packets with lacing 3 | 255+45 | 255+0
	{
		buf := &bytes.Buffer{}
		w, err := oggwriter.NewWith(buf, 48000, 2)
		c37Must(err)
		for i, size := range []int{3, 300, 255} {
			p := c37Fill(size, i)
			p[0] = 0x78                                                                                             // 20 ms CELT, one frame
			c37Must(w.WriteRTP(&rtp.Packet{Header: rtp.Header{Version: 2, SequenceNumber: uint16(i)}, Payload: p})) //nolint:gosec
		}
		c37Must(w.Close())
		data := append([]byte(nil), buf.Bytes()...)
		// OggWriter draws a random serial number: pin it (and re-checksum) so that the seed is the same on every run
		for off := 0; len(data)-off >= 27; {
			binary.LittleEndian.PutUint32(data[off+14:], 0x11223344)
			nseg := int(data[off+26])
			size := 0
			for _, l := range data[off+27 : off+27+nseg] {
				size += int(l)
			}
			off += 27 + nseg + size
		}
		c37FixCRC(data)
		seeds = append(seeds, &c37Seed{name: "ogg-single-3packets", kind: "ogg", data: data, fields: c37OggFields(data), words: c37OggWords(data)})
	}
	// Ogg B: two tracks, family-255 mapping, user comments, nil EOS pages
	{
		buf := &bytes.Buffer{}
		w, err := oggwriter.NewWriter(buf, oggwriter.WithChannelMapping(255, 1, 1, []byte{0, 1, 255}),
			oggwriter.WithVendor("v"), oggwriter.WithUserComments(oggwriter.UserComment{Comment: "TITLE", Value: "a=b"}, oggwriter.UserComment{Comment: "X", Value: ""}))
		c37Must(err)
		t1, err := w.NewTrack(1, oggwriter.WithSerial(0x01020304))
		c37Must(err)
		t2, err := w.NewTrack(2, oggwriter.WithSerial(0xfffffffe), oggwriter.WithChannelCount(1))
		c37Must(err)
		c37Must(t1.WriteRTP(&rtp.Packet{Header: rtp.Header{Version: 2, SSRC: 1}, Payload: []byte{0x78, 1, 2}}))
		c37Must(t2.WriteRTP(&rtp.Packet{Header: rtp.Header{Version: 2, SSRC: 2}, Payload: []byte{0x03, 0x02, 9, 9, 9}}))
		c37Must(w.Close())
		data := append([]byte(nil), buf.Bytes()...)
		seeds = append(seeds, &c37Seed{name: "ogg-two-tracks", kind: "ogg", data: data, fields: c37OggFields(data), words: c37OggWords(data)})
	}

	// H.264 Annex-B by hand: SPS, PPS, SEI, IDR, non-IDR with both start-code widths and an emulation-prevention pattern
	{
		data := []byte{
			0, 0, 0, 1, 0x67, 0x42, 0x00, 0x1f,
			0, 0, 1, 0x68, 0xce, 0x3c, 0x80,
			0, 0, 1, 0x06, 0x05, 0x01, 0xaa, 0x80,
			0, 0, 0, 1, 0x65, 0x88, 0x00, 0x00, 0x03, 0x01, 0x10,
			0, 0, 1, 0x41, 0x9a, 0x02,
		}
		var fields []int
		for i := 0; i+2 < len(data); i++ {
			if data[i] == 0 && data[i+1] == 0 && data[i+2] == 1 {
				fields = append(fields, i, i+1, i+2, i+3)
			}
		}
		seeds = append(seeds, &c37Seed{name: "h264-annexb-5nal", kind: "h264", data: data, fields: fields})
	}
	// H.265 Annex-B by hand: VPS, SPS, PPS, prefix SEI, IDR, trail, suffix SEI
	{
		data := []byte{
			0, 0, 0, 1, 0x40, 0x01, 0x0c, 0x01,
			0, 0, 1, 0x42, 0x01, 0x01,
			0, 0, 1, 0x44, 0x01, 0xc0,
			0, 0, 1, 0x4e, 0x01, 0x05,
			0, 0, 0, 1, 0x26, 0x01, 0xaf, 0x00, 0x00, 0x03, 0x00,
			0, 0, 1, 0x02, 0x01, 0xd0,
			0, 0, 1, 0x50, 0x01,
		}
		var fields []int
		for i := 0; i+2 < len(data); i++ {
			if data[i] == 0 && data[i+1] == 0 && data[i+2] == 1 {
				fields = append(fields, i, i+1, i+2, i+3)
			}
		}
		seeds = append(seeds, &c37Seed{name: "h265-annexb-7nal", kind: "h265", data: data, fields: fields})
	}

	// rtpdump written by the real Writer: RTP, RTCP, 1-byte RTP
	{
		buf := &bytes.Buffer{}
		w, err := rtpdump.NewWriter(buf, rtpdump.Header{Start: time.Unix(9, 0).UTC(), Source: net.IPv4(127, 0, 0, 1), Port: 5004})
		c37Must(err)
		c37Must(w.WritePacket(rtpdump.Packet{Offset: time.Millisecond, Payload: c37Fill(12, 1)}))
		c37Must(w.WritePacket(rtpdump.Packet{Offset: 2 * time.Millisecond, IsRTCP: true, Payload: c37Fill(8, 2)}))
		c37Must(w.WritePacket(rtpdump.Packet{Offset: 3 * time.Millisecond, Payload: []byte{0x80}}))
		data := append([]byte(nil), buf.Bytes()...)
		var fields, words []int
		off := bytes.IndexByte(data, '\n') + 1 + 16
		for off+8 <= len(data) {
			fields = append(fields, off, off+1, off+2, off+3)
			words = append(words, off, off+2)
			off += int(binary.BigEndian.Uint16(data[off:]))
		}
		seeds = append(seeds, &c37Seed{name: "rtpdump-3records", kind: "rtpdump", data: data, fields: fields, words: words})
	}

	// header blobs for the exported parsers
	head0 := []byte("OpusHead\x01\x02\x00\x0f\x80\xbb\x00\x00\x00\x00\x00")
	head255 := append([]byte("OpusHead\x01\x03\x00\x0f\x80\xbb\x00\x00\x00\x00\xff\x01\x01"), 0, 1, 255)
	tags := []byte("OpusTags\x04\x00\x00\x00pion\x02\x00\x00\x00\x09\x00\x00\x00TITLE=a=b\x02\x00\x00\x00X=")
	seeds = append(seeds,
		&c37Seed{name: "opushead-family0", kind: "opushead", data: head0, fields: []int{9, 18}},
		&c37Seed{name: "opushead-family255", kind: "opushead", data: head255, fields: []int{9, 18, 19, 20}},
		&c37Seed{name: "opustags-2comments", kind: "opustags", data: tags, fields: []int{8, 9, 10, 11, 16, 17, 18, 19, 20, 21, 22, 23, 33, 34, 35, 36}, words: []int{8, 16, 20, 33}},
		&c37Seed{name: "rtpdump-record", kind: "rtpdump-packet", data: append([]byte{0, 12, 0, 4, 0, 0, 0, 5}, 1, 2, 3, 4), fields: []int{0, 1, 2, 3}, words: []int{0, 2}},
		&c37Seed{name: "rtpdump-header", kind: "rtpdump-header", data: []byte{0, 0, 0, 9, 0, 0, 0, 1, 127, 0, 0, 1, 0x13, 0x8c, 0, 0}},
	)

	for _, s := range seeds {
		isField := map[int]bool{}
		for _, f := range s.fields {
			if f >= 0 && f < len(s.data) {
				isField[f] = true
			}
		}
		for off := range s.data {
			if off < 64 || isField[off] {
				for v := 0; v < 256; v++ {
					if byte(v) != s.data[off] {
						s.sub1 = append(s.sub1, c37Sub{off, byte(v)})
					}
				}

				continue
			}
			for _, v := range c37Vals5 {
				if v != s.data[off] {
					s.sub1 = append(s.sub1, c37Sub{off, v})
				}
			}
		}
		// pair region: the first 64 bytes and the fields, at most 96 offsets
		for off := range s.data {
			if (off < 64 || isField[off]) && len(s.hdr) < 128 {
				s.hdr = append(s.hdr, off)
			}
		}
	}

	return seeds
}

// ---------------------------------------------------------------------------
// cases

// c37Case is one enumerated input (also the replay format).
type c37Case struct {
	Seed   string
	Target string
	Mode   string
	Kind   string // "trunc", "sub1", "dword", "sub2", "word"
	Trunc  int
	Off1   int
	Val1   int
	Off2   int
	Val2   int
}

type c37Job struct {
	seed   *c37Seed
	target int
	mode   int
	pairs  bool // thorough: pair substitutions and 16-bit sweeps
	base   int64
	n      int64
}

func (j *c37Job) nPairs() int64 {
	h := int64(len(j.seed.hdr))

	return h * (h - 1) / 2
}

// dwords: the offsets of the seed's length fields where a whole little-endian 32-bit value fits.
func (j *c37Job) dwords() []int {
	var out []int
	for _, off := range j.seed.words {
		if off+4 <= len(j.seed.data) {
			out = append(out, off)
		}
	}

	return out
}

// c37DwordValue: the k-th boundary value written over a 32-bit length field: 2^32-1-d for d up to the input's
// length + 16 (every value whose sum with an in-range offset wraps to an in-range offset), then 2^31-1-d and
// 2^31+d for d < 16 (sign boundary of a 32-bit conversion).
func c37DwordValue(k, dataLen int) uint32 {
	w := dataLen + 17
	switch {
	case k < w:
		return uint32(0xFFFFFFFF) - uint32(k) //nolint:gosec
	case k < w+16:
		return uint32(0x7FFFFFFF) - uint32(k-w) //nolint:gosec
	default:
		return uint32(0x80000000) + uint32(k-w-16) //nolint:gosec
	}
}

func (j *c37Job) nDwordVals() int64 { return int64(len(j.seed.data) + 17 + 32) }

func (j *c37Job) count() int64 {
	n := int64(len(j.seed.data)+1) + int64(len(j.seed.sub1)) + int64(len(j.dwords()))*j.nDwordVals()
	if j.pairs {
		n += j.nPairs()*25 + int64(len(j.seed.words))*65536
	}

	return n
}

func (j *c37Job) decode(k int64, modeName, targetName string) c37Case {
	cs := c37Case{Seed: j.seed.name, Target: targetName, Mode: modeName}
	l := int64(len(j.seed.data) + 1)
	if k < l {
		cs.Kind, cs.Trunc = "trunc", int(k)

		return cs
	}
	k -= l
	if k < int64(len(j.seed.sub1)) {
		s := j.seed.sub1[k]
		cs.Kind, cs.Off1, cs.Val1 = "sub1", s.off, int(s.val)

		return cs
	}
	k -= int64(len(j.seed.sub1))
	if nd := int64(len(j.dwords())) * j.nDwordVals(); k < nd {
		cs.Kind = "dword"
		cs.Off1 = j.dwords()[k/j.nDwordVals()]
		cs.Val1 = int(c37DwordValue(int(k%j.nDwordVals()), len(j.seed.data)))

		return cs
	} else { //nolint:revive
		k -= nd
	}
	if np := j.nPairs() * 25; k >= np {
		k -= np
		off := j.seed.words[k/65536]
		cs.Kind = "word"
		cs.Off1, cs.Val1 = off, int(k%65536)>>8
		cs.Off2, cs.Val2 = off+1, int(k%65536)&0xff

		return cs
	}
	pair, v := k/25, k%25
	// unrank the pair (a < b) over hdr offsets
	h := int64(len(j.seed.hdr))
	a := int64(0)
	for pair >= h-1-a {
		pair -= h - 1 - a
		a++
	}
	b := a + 1 + pair
	cs.Kind = "sub2"
	cs.Off1, cs.Val1 = j.seed.hdr[a], int(c37Vals5[v/5])
	cs.Off2, cs.Val2 = j.seed.hdr[b], int(c37Vals5[v%5])

	return cs
}

func c37Apply(seed []byte, cs c37Case) []byte {
	switch cs.Kind {
	case "trunc":
		return append([]byte(nil), seed[:cs.Trunc]...)
	case "sub1":
		out := append([]byte(nil), seed...)
		out[cs.Off1] = byte(cs.Val1) //nolint:gosec

		return out
	case "dword":
		out := append([]byte(nil), seed...)
		binary.LittleEndian.PutUint32(out[cs.Off1:], uint32(cs.Val1)) //nolint:gosec

		return out
	default:
		out := append([]byte(nil), seed...)
		out[cs.Off1] = byte(cs.Val1) //nolint:gosec
		out[cs.Off2] = byte(cs.Val2) //nolint:gosec

		return out
	}
}

// c37IVFAlloc predicts the largest frame buffer an IVF reader has to allocate
// for this input (own walk over the frame headers).
func c37IVFAlloc(b []byte) int64 {
	var m int64
	for off := 32; len(b)-off >= 12; {
		n := int64(binary.LittleEndian.Uint32(b[off:]))
		m = max(m, n)
		off += 12
		if n > int64(len(b)-off) {
			break
		}
		off += int(n)
	}

	return m
}

// ---------------------------------------------------------------------------
// execution

type c37Env struct {
	c        *vkit.Check
	t        *testing.T
	targets  []c37Target
	seeds    map[string]*c37Seed
	jobs     []c37Job
	total    int64
	allocCap int64 // IVF inputs that force a larger allocation are not executed
	bigMu    sync.Mutex
	skipped  atomic.Int64
	poisoned []atomic.Bool // per target: a hang was confirmed, remaining cases are skipped
	poisonN  atomic.Int64
	seedRead sync.Map       // "seed|target|mode" -> true when the unmodified seed was read to its end
	nanos    []atomic.Int64 // per target: time spent (reported, never judged)
	ncases   []atomic.Int64
}

func (e *c37Env) locate(i int64) (*c37Job, int64) {
	k := sort.Search(len(e.jobs), func(x int) bool { return e.jobs[x].base > i }) - 1
	j := &e.jobs[k]

	return j, i - j.base
}

func (e *c37Env) caseAt(i int64) (c37Case, *c37Job) {
	j, k := e.locate(i)

	return j.decode(k, c37ModeNames[j.mode], e.targets[j.target].name), j
}

// execCase runs one case; count=false for the solo re-run of a suspected hang.
func (e *c37Env) execCase(cs c37Case, seed *c37Seed, ti, mode int, count bool) {
	c := e.c
	tg := &e.targets[ti]
	if e.poisoned[ti].Load() {
		e.poisonN.Add(1)

		return
	}
	data := c37Apply(seed.data, cs)
	if tg.fixCRC {
		c37FixCRC(data)
	}
	if tg.kind == "ivf" {
		alloc := c37IVFAlloc(data)
		limit := e.allocCap
		if cs.Kind == "sub2" || cs.Kind == "word" {
			limit = 16 << 20
		}
		if alloc > limit {
			e.skipped.Add(1)

			return
		}
		if alloc > 1<<20 {
			e.bigMu.Lock()
			defer e.bigMu.Unlock()
		}
	}
	if count {
		c.Eval()
		t0 := time.Now()
		defer func() {
			e.nanos[ti].Add(int64(time.Since(t0)))
			e.ncases[ti].Add(1)
		}()
	}
	st := &c37Stream{data: data, mode: mode}
	res := &c37Res{}
	id := vkit.Short(cs)
	c.Guard(id, cs, func() {
		defer func() {
			r := recover()
			if r == nil {
				return
			}
			if _, spin := r.(c37Spin); spin {
				c.Violation(fmt.Sprintf("hang|%s|polls-exhausted-stream|%s", tg.name, cs.Kind),
					fmt.Sprintf("%s kept calling Read %d times after the end of the input inside one call (call %d) without returning (case %s)", tg.name, c37EOFReadLimit, res.calls+1, id), cs)
				res.problem = "spin"

				return
			}
			// same key format as vkit.Guard: the innermost pion frame of the panic
			c.Violation("panic|"+vkit.PanicSite(), fmt.Sprintf("panic in %s: %v (case %s)", tg.name, r, id), cs)
			res.problem = "panic"
		}()
		tg.run(st, res)
	})
	switch res.problem {
	case "novalue":
		c.Violation(fmt.Sprintf("novalue|%s|%s", tg.name, cs.Kind),
			fmt.Sprintf("%s: call %d returned neither a value nor an error (case %s)", tg.name, res.calls, id), cs)
	case "noprogress":
		c.Violation(fmt.Sprintf("noprogress|%s|%s", tg.name, cs.Kind),
			fmt.Sprintf("%s: %d calls returned values without an error while only %d input bytes were consumed (case %s)", tg.name, res.calls, st.consumed, id), cs)
	}
	if !count {
		return
	}
	if cs.Kind == "trunc" && cs.Trunc == len(seed.data) && res.opened && res.problem == "" && (tg.blob || res.calls >= 2 || mode == c37DataErr) {
		// (data+EOF shape: the Annex-B readers drop bytes delivered together with io.EOF and report EOF at once;
		// that is data loss, not a crash or hang, and outside this property)
		e.seedRead.Store(cs.Seed+"|"+cs.Target+"|"+cs.Mode, true)
	}
	if res.opened && res.calls > 0 {
		calls := res.calls
		if calls > 9 {
			calls = 9
		}
		c.Distinct(fmt.Sprintf("%s|%s|%s|calls=%d|%s", tg.name, c37ModeNames[mode], cs.Kind, calls, res.err))
	}
	c.Outcome(tg.name + "|" + res.err + "|" + res.problem)
}

type c37Slot struct {
	id    atomic.Int64 // case index + 1 being executed, 0 = idle (logged before the case runs)
	since atomic.Int64 // unix nanoseconds when the current chunk started
}

func c37EnvSeconds(name string, def int) time.Duration {
	if s := os.Getenv(name); s != "" {
		if n, err := strconv.Atoi(s); err == nil && n > 0 {
			return time.Duration(n) * time.Second
		}
	}

	return time.Duration(def) * time.Second
}

// runAll executes cases [0,total) on a worker pool under a liveness guard.
func (e *c37Env) runAll() {
	const chunk = 64
	guard := c37EnvSeconds("VERIF_C37_GUARD_S", 60)     // per chunk of 64 cases that normally takes milliseconds
	soloGuard := c37EnvSeconds("VERIF_C37_SOLO_S", 120) // for the single case re-run alone
	workers := vkit.Workers()
	slots := make([]c37Slot, workers)
	var next atomic.Int64
	done := make(chan int, workers)
	for w := 0; w < workers; w++ {
		go func(w int) {
			defer func() { done <- w }()
			for {
				start := next.Add(chunk) - chunk
				if start >= e.total {
					return
				}
				slots[w].since.Store(time.Now().UnixNano())
				for i := start; i < min(start+chunk, e.total); i++ {
					slots[w].id.Store(i + 1)
					cs, j := e.caseAt(i)
					e.execCase(cs, j.seed, j.target, j.mode, true)
				}
				slots[w].id.Store(0)
			}
		}(w)
	}
	live := workers
	dead := make([]bool, workers)
	falseAlarms := 0
	tick := time.NewTicker(250 * time.Millisecond)
	defer tick.Stop()
	for live > 0 {
		select {
		case w := <-done:
			if !dead[w] {
				live--
			}
		case <-tick.C:
			now := time.Now().UnixNano()
			for w := range slots {
				id := slots[w].id.Load()
				if dead[w] || id == 0 || time.Duration(now-slots[w].since.Load()) < guard {
					continue
				}
				cs, j := e.caseAt(id - 1)
				tg := e.targets[j.target].name
				if e.poisoned[j.target].Load() {
					// a hang of this reader is already confirmed and reported; give this worker up as well
					dead[w] = true
					live--

					continue
				}
				fmt.Printf("C37: worker %d has been in case %s for more than %v; re-running it alone\n", w, vkit.Short(cs), guard)
				soloDone := make(chan struct{})
				go func() {
					e.execCase(cs, j.seed, j.target, j.mode, false)
					close(soloDone)
				}()
				select {
				case <-soloDone:
					// it finishes alone: the pool was slow, not the reader
					falseAlarms++
					slots[w].since.Store(time.Now().UnixNano())
					if falseAlarms > 8 {
						vkit.Fatalf(e.t, "liveness guard fired %d times on cases that finish alone; machine too loaded to decide", falseAlarms)
					}
				case <-time.After(soloGuard):
					e.c.Violation(fmt.Sprintf("hang|%s|no-return|%s", tg, cs.Kind),
						fmt.Sprintf("%s did not return within %v in the pool and again not within %v when the case ran alone (case %s)", tg, guard, soloGuard, vkit.Short(cs)), cs)
					e.poisoned[j.target].Store(true)
					dead[w] = true
					live--
				}
			}
		}
	}
}

// c37PauseReader delivers data[:cut], then reports a temporary end of data (io.EOF or (0, nil)) until resume()
// is called, then delivers the rest and a final io.EOF: a file that is still being written, a pipe, a read
// deadline. reads counts the calls while paused so that a reader that spins is cut off.
type c37PauseReader struct {
	data    []byte
	pos     int
	cut     int
	zeroNil bool
	resumed bool
	reads   int
}

func (r *c37PauseReader) Read(p []byte) (int, error) {
	limit := len(r.data)
	if !r.resumed {
		limit = r.cut
	}
	if r.pos >= limit {
		r.reads++
		if r.resumed || !r.zeroNil || r.reads > 64 {
			return 0, io.EOF
		}

		return 0, nil
	}
	n := copy(p, r.data[r.pos:limit])
	r.pos += n

	return n, nil
}

// c37PauseResume: the Annex-B readers on a stream that pauses at EVERY offset (both kinds of pause): the unit
// calls made until the reader reports the end, the stream resumed, the unit calls continued. No verdict on
// WHAT comes out (a reader may treat the pause as the end): only that nothing panics and every call returns.
func c37PauseResume(c *vkit.Check, seeds []*c37Seed) {
	for _, s := range seeds {
		if s.kind != "h264" && s.kind != "h265" {
			continue
		}
		for _, sei := range []bool{false, true} {
			for _, zeroNil := range []bool{false, true} {
				for cut := 0; cut <= len(s.data); cut++ {
					c.Eval()
					pr := &c37PauseReader{data: s.data, cut: cut, zeroNil: zeroNil}
					what := fmt.Sprintf("%s include-sei=%v pause=%s at offset %d of %d", s.kind, sei, map[bool]string{true: "(0,nil)", false: "io.EOF"}[zeroNil], cut, len(s.data))
					func() {
						defer func() {
							if r := recover(); r != nil {
								c.Violation("panic|"+vkit.PanicSite()+"|pause-resume|"+s.kind, fmt.Sprintf("panic after a temporary end of data (%s): %v", what, r),
									map[string]any{"seed": s.name, "cut": cut, "zero_nil": zeroNil, "include_sei": sei})
							}
						}()
						next := func() bool { return false }
						if s.kind == "h264" {
							rd, err := h264reader.NewReaderWithOptions(pr, h264reader.WithIncludeSEI(sei))
							if err != nil {
								return
							}
							next = func() bool { n, e := rd.NextNAL(); return e == nil && n != nil }
						} else {
							rd, err := h265reader.NewReaderWithOptions(pr, h265reader.WithIncludeSEI(sei))
							if err != nil {
								return
							}
							next = func() bool { n, e := rd.NextNAL(); return e == nil && n != nil }
						}
						for k := 0; k < 64 && next(); k++ {
						}
						pr.resumed = true
						for k := 0; k < 64 && next(); k++ {
						}
					}()
				}
			}
		}
		c.Distinct("pause-resume|" + s.kind)
	}
}

func TestVerifC37(t *testing.T) { //nolint:cyclop
	c := vkit.New("C37", "exploration")
	defer c.Finish(t)
	c.Rule("for every seed (IVF by IVFWriter; 2 Ogg files by OggWriter/Writer; hand-made H.264 and H.265 Annex-B; rtpdump by its Writer; OpusHead/OpusTags/rtpdump record blobs) " +
		"and every reader of its format (IVFReader; OggReader with checksum, with checksum after the page CRCs were recomputed over the mutation, and without checksum; " +
		"H264Reader/H265Reader with and without SEI; rtpdump.Reader; ParseOpusHead, ParseOpusTags, rtpdump Packet/Header.Unmarshal) and every io.Reader shape {whole, one byte per Read, data+EOF}: " +
		"every truncation offset 0..len; every single-byte substitution by {00,01,7f,80,ff} at every offset and by all 256 values at offsets < 64 and at every length/size/count/start-code byte; every multi-byte length field overwritten as a whole little-endian 32-bit value by 2^32-1-d for every d up to the input length + 16 (all values whose sum with an offset wraps back into the input) and by 2^31-1-d, 2^31+d for d < 16; " +
		"thorough: every pair of substitutions by the 5 values over the header region (offsets < 64 plus the field bytes, <= 128 offsets), and all 65536 values of the low 16 bits of every multi-byte length field " +
		"(IVF header/frame sizes, Ogg segment count + first lacing value, OpusTags vendor length and comment count, rtpdump record length and packet length). " +
		"Annex-B readers also on a stream that pauses at every offset (temporary io.EOF or (0,nil)) and resumes: unit calls until the reader reports the end, then again after the resume. " +
		"Non-trivial: the reader accepted the header and made >= 1 unit call; distinct = (reader, stream shape, operator, calls made, final error)")
	c.Assume("IVF inputs whose frame-size field forces an allocation above the cap (16 MiB; 128 MiB for truncations and single substitutions in the thorough tier) are not executed: make([]byte, uint32) is a legitimate allocation, not a crash, and costs seconds per GiB here; their count is reported as skipped_large_alloc")
	c.Assume("no-return hangs are detected by a liveness guard (60 s per 64-case chunk, then 120 s for the case alone); everything else is decided without a clock")

	env := &c37Env{c: c, t: t, targets: c37Targets(), seeds: map[string]*c37Seed{}}
	env.poisoned = make([]atomic.Bool, len(env.targets))
	env.nanos = make([]atomic.Int64, len(env.targets))
	env.ncases = make([]atomic.Int64, len(env.targets))
	env.allocCap = int64(c.Pick(16<<20, 128<<20))
	seeds := c37Seeds()
	for _, s := range seeds {
		env.seeds[s.name] = s
	}

	if raw, ok := c.ReplayCase(); ok {
		var cs c37Case
		if err := json.Unmarshal(raw, &cs); err != nil {
			vkit.Fatalf(t, "replay case: %v", err)
		}
		seed := env.seeds[cs.Seed]
		ti, mode := -1, -1
		for i := range env.targets {
			if env.targets[i].name == cs.Target {
				ti = i
			}
		}
		for i, n := range c37ModeNames {
			if n == cs.Mode {
				mode = i
			}
		}
		if seed == nil || ti < 0 || mode < 0 {
			vkit.Fatalf(t, "replay case names an unknown seed/target/mode: %s", vkit.Short(cs))
		}
		env.execCase(cs, seed, ti, mode, true)
		c.Sample(cs)
		c.NotExhaustive("replay of one case")

		return
	}

	modes := []int{c37Whole, c37OneByte}
	if !c.Quick() {
		modes = append(modes, c37DataErr)
	}
	c37PauseResume(c, seeds)
	seedInfo := map[string]any{}
	for _, s := range seeds {
		seedInfo[s.name] = map[string]int{"bytes": len(s.data), "field_bytes": len(s.fields), "single_substitutions": len(s.sub1), "pair_region_offsets": len(s.hdr)}
		for ti := range env.targets {
			tg := &env.targets[ti]
			if tg.kind != s.kind {
				continue
			}
			for _, mode := range modes {
				if tg.blob && mode != c37Whole {
					continue
				}
				j := c37Job{seed: s, target: ti, mode: mode, pairs: !c.Quick(), base: env.total}
				j.n = j.count()
				env.total += j.n
				env.jobs = append(env.jobs, j)
			}
		}
	}
	c.Set("seeds", seedInfo)
	c.Set("jobs_seed_x_reader_x_stream", len(env.jobs))
	c.Set("cases_enumerated", env.total)

	for _, i := range []int64{env.total / 7, env.total / 3, env.total / 2, env.total - 5} {
		cs, _ := env.caseAt(i)
		c.Sample(cs)
	}

	// A never-touched ballast raises the GC heap goal so that the large frame buffers some IVF
	// inputs force are recycled inside the Go heap instead of being returned to the OS and
	// page-faulted in again (costs no memory; speeds the run up, changes no verdict).
	ballast := make([]byte, 512<<20)
	env.runAll()
	runtime.KeepAlive(ballast)

	// sanity: every unmodified seed (the truncation at full length) was read completely by each of
	// its readers, i.e. the seeds reach the code under test
	for _, j := range env.jobs {
		key := j.seed.name + "|" + env.targets[j.target].name + "|" + c37ModeNames[j.mode]
		if _, ok := env.seedRead.Load(key); !ok && c.Violations() == 0 && !env.poisoned[j.target].Load() {
			vkit.Fatalf(t, "the unmodified seed was not read to its end: %s", key)
		}
	}
	c.Set("skipped_large_alloc", env.skipped.Load())
	perTarget := map[string]any{}
	for i := range env.targets {
		perTarget[env.targets[i].name] = map[string]any{"cases": env.ncases[i].Load(), "cpu_s": float64(env.nanos[i].Load()) / 1e9}
	}
	c.Set("per_reader", perTarget)
	if n := env.poisonN.Load(); n > 0 {
		c.Set("skipped_after_confirmed_hang", n)
		c.NotExhaustive(fmt.Sprintf("%d cases of a reader with a confirmed hang were not executed", n))
	}
}
