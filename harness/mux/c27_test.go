package mux

// C27 — Transport demultiplexing is exclusive and order-preserving.
// (a) exhaustive classification of every (first byte, second byte, length) against
//     an RFC 7983 reference; (b) every interleaving (preemption bounded) of the real
//     Mux reading from a scripted connection while endpoints are created.

import (
	"encoding/json"
	"fmt"
	"io"
	"net"
	"sort"
	"strings"
	"sync"
	"testing"
	"time"

	"github.com/pion/logging"
	"github.com/pion/webrtc/v4/internal/verif/vkit"
	"github.com/pion/webrtc/v4/internal/verif/vsched"
)

// ---- scripted connection --------------------------------------------------------------------

type c27Pkt struct {
	name  string
	data  []byte
	after string // readable only after this harness event happened ("" = any time)
}

type c27Conn struct {
	pkts    []c27Pkt
	next    int
	events  map[string]bool
	arrived []string
	closed  bool
	// finishWhen: the connection reports EOF once all these events happened
	finishWhen []string
}

func (c *c27Conn) finished() bool {
	if c.events["finish"] {
		return true
	}
	if len(c.finishWhen) == 0 {
		return false
	}
	for _, e := range c.finishWhen {
		if !c.events[e] {
			return false
		}
	}

	return true
}

func (c *c27Conn) Read(b []byte) (int, error) {
	if c.next >= len(c.pkts) {
		vsched.Wait("conn-read-eof", func() bool { return c.closed || c.finished() })

		return 0, io.EOF
	}
	p := c.pkts[c.next]
	vsched.Wait("conn-read", func() bool { return c.closed || p.after == "" || c.events[p.after] })
	if c.closed {
		return 0, io.EOF
	}
	c.next++
	c.arrived = append(c.arrived, p.name)

	return copy(b, p.data), nil
}
func (c *c27Conn) Write(b []byte) (int, error)      { return len(b), nil }
func (c *c27Conn) Close() error                     { vsched.Yield("conn-close"); c.closed = true; return nil }
func (c *c27Conn) LocalAddr() net.Addr              { return nil }
func (c *c27Conn) RemoteAddr() net.Addr             { return nil }
func (c *c27Conn) SetDeadline(time.Time) error      { return nil }
func (c *c27Conn) SetReadDeadline(time.Time) error  { return nil }
func (c *c27Conn) SetWriteDeadline(time.Time) error { return nil }

func c27Dtls(i byte) []byte { return []byte{22, 254, 253, 0, i} }
func c27Rtp(i byte) []byte  { return []byte{128, 96, 0, i, 9, 9, 9, 9, 0, 0, 0, 1} }
func c27Rtcp(i byte) []byte { return []byte{128, 200, 0, 1, 0, 0, 0, i} }

type c27Obs struct {
	conn *c27Conn
	mux  *Mux
	eps  map[string]*Endpoint
}

func (o *c27Obs) drain(name string) []string {
	ep := o.eps[name]
	if ep == nil {
		return nil
	}
	var out []string
	buf := make([]byte, 1500)
	for ep.buffer.Count() > 0 {
		n, err := ep.buffer.Read(buf)
		if err != nil {
			break
		}
		out = append(out, fmt.Sprintf("%v", buf[:n]))
	}

	return out
}

type c27Scenario struct {
	name    string
	boundLo int // subtract from the tier's preemption bound (large scenarios)
	body    func(o *c27Obs)
	// expect: endpoint name -> packets (in order) it must hold at quiescence
	expect map[string][][]byte
}

func c27Scenarios(quick bool) []c27Scenario {
	lf := logging.NewDefaultLoggerFactory()
	lf.DefaultLogLevel = logging.LogLevelDisabled
	mk := func(o *c27Obs, pkts []c27Pkt) {
		o.conn = &c27Conn{pkts: pkts, events: map[string]bool{}}
		o.eps = map[string]*Endpoint{}
		o.mux = NewMux(Config{Conn: o.conn, BufferSize: 1500, LoggerFactory: lf})
	}

	return []c27Scenario{
		{
			name: "S1-two-early-one-late-dtls",
			body: func(o *c27Obs) {
				mk(o, []c27Pkt{{"p1", c27Dtls(1), ""}, {"p2", c27Dtls(2), ""}, {"p3", c27Dtls(3), "dtls-created"}})
				vsched.GoNamed("app", func() {
					o.eps["dtls"] = o.mux.NewEndpoint(MatchDTLS)
					o.conn.events["dtls-created"] = true
					o.conn.events["finish"] = true
				})
			},
			expect: map[string][][]byte{"dtls": {c27Dtls(1), c27Dtls(2), c27Dtls(3)}},
		},
		{
			name: "S2-early-forced-then-late",
			body: func(o *c27Obs) {
				// p1, p2 are read before the application thread even starts creating the endpoint
				mk(o, []c27Pkt{{"p1", c27Dtls(1), ""}, {"p2", c27Dtls(2), ""}, {"gate", c27Rtcp(0), ""}, {"p3", c27Dtls(3), "dtls-created"}, {"p4", c27Dtls(4), "dtls-created"}})
				vsched.GoNamed("app", func() {
					vsched.Wait("app-wait-gate", func() bool { return len(o.conn.arrived) >= 3 })
					o.eps["dtls"] = o.mux.NewEndpoint(MatchDTLS)
					o.conn.events["dtls-created"] = true
					o.conn.events["finish"] = true
				})
			},
			expect: map[string][][]byte{"dtls": {c27Dtls(1), c27Dtls(2), c27Dtls(3), c27Dtls(4)}},
		},
		{
			name:    "S3-two-endpoints-mixed-classes",
			boundLo: 1,
			body: func(o *c27Obs) {
				if quick {
					mk(o, []c27Pkt{{"d1", c27Dtls(1), ""}, {"r1", c27Rtp(1), ""}, {"d3", c27Dtls(3), "dtls-created"}, {"r3", c27Rtp(3), "srtp-created"}})
				} else {
					mk(o, []c27Pkt{
						{"d1", c27Dtls(1), ""}, {"r1", c27Rtp(1), ""}, {"d2", c27Dtls(2), ""}, {"r2", c27Rtp(2), ""},
						{"d3", c27Dtls(3), "dtls-created"}, {"r3", c27Rtp(3), "srtp-created"},
					})
				}
				vsched.GoNamed("app-dtls", func() {
					o.eps["dtls"] = o.mux.NewEndpoint(MatchDTLS)
					o.conn.events["dtls-created"] = true
				})
				vsched.GoNamed("app-srtp", func() {
					o.eps["srtp"] = o.mux.NewEndpoint(MatchSRTP)
					o.conn.events["srtp-created"] = true
				})
				o.conn.finishWhen = []string{"dtls-created", "srtp-created"}
			},
			expect: func() map[string][][]byte {
				if quick {
					return map[string][][]byte{"dtls": {c27Dtls(1), c27Dtls(3)}, "srtp": {c27Rtp(1), c27Rtp(3)}}
				}

				return map[string][][]byte{
					"dtls": {c27Dtls(1), c27Dtls(2), c27Dtls(3)},
					"srtp": {c27Rtp(1), c27Rtp(2), c27Rtp(3)},
				}
			}(),
		},
		{
			// five early datagrams of two classes interleaved, then the two endpoints one after the other: what the
			// first creation leaves in the queue has to keep its arrival order for the second
			name:    "S5-mixed-queue-endpoints-in-sequence",
			boundLo: 1,
			body: func(o *c27Obs) {
				mk(o, []c27Pkt{
					{"r1", c27Rtp(1), ""}, {"c1", c27Rtcp(1), ""}, {"r2", c27Rtp(2), ""}, {"c2", c27Rtcp(2), ""}, {"c3", c27Rtcp(3), ""},
					{"r3", c27Rtp(3), "both-created"}, {"c4", c27Rtcp(4), "both-created"},
				})
				vsched.GoNamed("app", func() {
					vsched.Wait("app-wait-early", func() bool { return len(o.conn.arrived) >= 5 })
					o.eps["srtp"] = o.mux.NewEndpoint(MatchSRTP)
					o.eps["srtcp"] = o.mux.NewEndpoint(MatchSRTCP)
					o.conn.events["both-created"] = true
					o.conn.events["finish"] = true
				})
			},
			expect: map[string][][]byte{
				"srtp":  {c27Rtp(1), c27Rtp(2), c27Rtp(3)},
				"srtcp": {c27Rtcp(1), c27Rtcp(2), c27Rtcp(3), c27Rtcp(4)},
			},
		},
		{
			// an endpoint that received a datagram is REMOVED; the next datagram of its class has no endpoint
			// again and is queued for the endpoint created afterwards
			name: "S6-endpoint-removed-then-recreated",
			body: func(o *c27Obs) {
				mk(o, []c27Pkt{
					{"d1", c27Dtls(1), "first-created"}, {"d2", c27Dtls(2), "first-removed"}, {"d3", c27Dtls(3), "second-created"},
				})
				vsched.GoNamed("app", func() {
					first := o.mux.NewEndpoint(MatchDTLS)
					o.eps["dtls-first"] = first
					o.conn.events["first-created"] = true
					vsched.Wait("app-wait-d1-delivered", func() bool { return first.buffer.Count() > 0 })
					o.mux.RemoveEndpoint(first)
					o.conn.events["first-removed"] = true
					vsched.Wait("app-wait-d2-read", func() bool { return len(o.conn.arrived) >= 2 })
					o.eps["dtls-second"] = o.mux.NewEndpoint(MatchDTLS)
					o.conn.events["second-created"] = true
					o.conn.events["finish"] = true
				})
			},
			expect: map[string][][]byte{"dtls-first": {c27Dtls(1)}, "dtls-second": {c27Dtls(2), c27Dtls(3)}},
		},
		{
			name: "S4-endpoint-then-close",
			body: func(o *c27Obs) {
				mk(o, []c27Pkt{{"p1", c27Dtls(1), ""}, {"p2", c27Dtls(2), "dtls-created"}})
				vsched.GoNamed("app", func() {
					o.eps["dtls"] = o.mux.NewEndpoint(MatchDTLS)
					o.conn.events["dtls-created"] = true
				})
				vsched.GoNamed("closer", func() {
					vsched.Wait("closer-wait", func() bool { return len(o.conn.arrived) >= 2 })
					_ = o.mux.Close()
					o.conn.events["finish"] = true
				})
			},
			expect: nil, // after Close only termination (no deadlock) is demanded
		},
	}
}

func c27Judge(sc c27Scenario, o *c27Obs, r *vsched.Result) (string, string) {
	if r.Outcome == vsched.Panicked {
		return sc.name + "|panic", "panic: " + r.PanicValue
	}
	if r.Outcome != vsched.Completed {
		var b []string
		for _, x := range r.Blocked {
			b = append(b, x.Name+":"+x.Op)
		}

		return sc.name + "|" + r.Outcome.String() + "|" + strings.Join(b, ","), fmt.Sprintf("execution ended with %s: %v", r.Outcome, r.Blocked)
	}
	seen := map[string]string{}
	names := make([]string, 0, len(sc.expect))
	for name := range sc.expect {
		names = append(names, name)
	}
	sort.Strings(names)
	for _, name := range names {
		want := sc.expect[name]
		got := o.drain(name)
		var w []string
		for _, p := range want {
			w = append(w, fmt.Sprintf("%v", p))
		}
		for _, g := range got {
			if other, dup := seen[g]; dup {
				return sc.name + "|duplicate-delivery", fmt.Sprintf("datagram %s delivered to %s and %s", g, other, name)
			}
			seen[g] = name
		}
		if strings.Join(got, ";") != strings.Join(w, ";") {
			kind := "reordered"
			if len(got) != len(w) {
				kind = "lost-or-extra"
			}

			return sc.name + "|" + kind + "|" + name, fmt.Sprintf("endpoint %s holds %v, want arrival order %v (arrived: %v)", name, got, w, o.conn.arrived)
		}
	}

	return "", ""
}

// ---- classification -------------------------------------------------------------------------

func c27Classify(c *vkit.Check) {
	lens := []int{1, 2, 3, 4, 12}
	n := 0
	for _, l := range lens {
		for b0 := 0; b0 < 256; b0++ {
			for b1 := 0; b1 < 256; b1++ {
				if l == 1 && b1 != 0 {
					continue
				}
				buf := make([]byte, l)
				buf[0] = byte(b0)
				if l > 1 {
					buf[1] = byte(b1)
				}
				d, s, r := MatchDTLS(buf), MatchSRTP(buf), MatchSRTCP(buf)
				n++
				c.Eval()
				cnt := 0
				for _, x := range []bool{d, s, r} {
					if x {
						cnt++
					}
				}
				cls := fmt.Sprintf("len%d|d=%v|s=%v|r=%v", l, d, s, r)
				c.Distinct("classify|" + cls)
				rep := map[string]any{"kind": "classify", "bytes": buf}
				if cnt > 1 {
					c.Violation("classify|not-exclusive|"+cls, fmt.Sprintf("datagram % x matches %d classes", buf, cnt), rep)
				}
				wantD := b0 >= 20 && b0 <= 63
				wantRT := b0 >= 128 && b0 <= 191
				if d != wantD {
					c.Violation(fmt.Sprintf("classify|dtls-range|len%d", l), fmt.Sprintf("first byte %d: MatchDTLS=%v, RFC 7983 says %v", b0, d, wantD), rep)
				}
				if (s || r) != wantRT {
					c.Violation(fmt.Sprintf("classify|rtp-range|len%d", l), fmt.Sprintf("first byte %d: SRTP|SRTCP=%v, RFC 7983 says %v", b0, s || r, wantRT), rep)
				}
				if l >= 4 && wantRT {
					wantR := b1 >= 192 && b1 <= 223
					if r != wantR || s == wantR {
						c.Violation("classify|rtcp-second-byte", fmt.Sprintf("bytes %d %d: SRTP=%v SRTCP=%v, want SRTCP=%v", b0, b1, s, r, wantR), rep)
					}
				}
			}
		}
	}
	c.Set("classified_datagrams", n)
}

func TestVerifC27(t *testing.T) {
	c := vkit.New("C27", "model_checking")
	defer c.Finish(t)
	bound := c.Pick(2, 3)
	c.Rule(fmt.Sprintf("(a) all 256x256 (first, second byte) x lengths {1,2,3,4,12} through the three real matchers against the RFC 7983 ranges; (b) every interleaving with <= %d preemptions (thorough: then unbounded while the budget lasts) of the real Mux (readLoop, dispatch, NewEndpoint, handlePendingPackets, Close) over a scripted connection whose Read is a scheduling point; distinct = distinct (arrival order, endpoint contents) observations and matcher classes", bound))
	c.Set("preemption_bound", bound)
	c.Assume("packetio.Buffer (pion/transport) is environment: its own locks are not scheduling points")
	deadline := c.Deadline(time.Duration(c.Pick(120, 900)) * time.Second)

	if _, replay := c.ReplayCase(); !replay {
		c27Classify(c)
	}
	scs := c27Scenarios(c.Quick())
	replaySc, replayChoices := "", []int(nil)
	if raw, ok := c.ReplayCase(); ok {
		var rc struct {
			Scenario string `json:"scenario"`
			Choices  []int  `json:"choices"`
		}
		if json.Unmarshal(raw, &rc) == nil {
			replaySc, replayChoices = rc.Scenario, rc.Choices
		}
	}
	var mu sync.Mutex
	per := map[string]any{}
	vkit.ParallelN(len(scs), len(scs), func(i int) {
		sc := scs[i]
		if replaySc != "" && replaySc != sc.name {
			return
		}
		var cur *c27Obs
		body := func() {
			cur = &c27Obs{}
			sc.body(cur)
		}
		check := func(r *vsched.Result) bool {
			c.Eval()
			c.Validated()
			c.TransitionN(r.Steps)
			if r.Outcome == vsched.Nondeterminism || r.Outcome == vsched.Horizon {
				fmt.Printf("VERIF-ERROR C27 %s: %s %s\n", sc.name, r.Outcome, r.PanicValue)
				c.NotExhaustive(sc.name + ": " + r.Outcome.String())

				return false
			}
			key, what := c27Judge(sc, cur, r)
			obs := fmt.Sprintf("%s|%v|%s", sc.name, cur.conn.arrived, key)
			c.Outcome(obs)
			c.Distinct(obs)
			if key != "" {
				for k := 0; k < 2; k++ {
					r2 := vsched.Run(vsched.Config{}, r.Choices, nil, body)
					if key2, _ := c27Judge(sc, cur, r2); key2 != key {
						fmt.Printf("VERIF-ERROR C27 %s: violation %q not reproducible (%q)\n", sc.name, key, key2)
						c.NotExhaustive("irreproducible violation")

						return false
					}
				}
				tr := vsched.Run(vsched.Config{Trace: true}, r.Choices, nil, body)
				c.Violation(key, what, map[string]any{"scenario": sc.name, "choices": r.Choices, "preemptions": r.Preemptions, "trace": tr.Trace})
			}

			return true
		}
		if replaySc != "" {
			check(vsched.Run(vsched.Config{}, replayChoices, nil, body))

			return
		}
		var st vsched.Stats
		done := "none"
		bounds := []int{}
		for b := 0; b <= bound-sc.boundLo; b++ {
			bounds = append(bounds, b)
		}
		if !c.Quick() && sc.boundLo == 0 {
			bounds = append(bounds, -1)
		}
		for _, b := range bounds {
			st = vsched.Explore(vsched.Config{Bound: b, StopAfter: func() bool { return time.Now().After(deadline) }}, body, check)
			if st.Capped {
				if b >= 0 {
					c.NotExhaustive(fmt.Sprintf("%s: budget hit at preemption bound %d", sc.name, b))
				}

				break
			}
			done = fmt.Sprint(b)
			if b < 0 {
				done = "unbounded"
			}
		}
		mu.Lock()
		per[sc.name] = map[string]any{"bound_completed": done, "executions_at_last_bound": st.Executions, "by_preemptions": st.ByPreempt, "max_steps": st.MaxSteps, "threads": st.MaxThreads, "control_states": st.States}
		mu.Unlock()
		for k := 0; k < st.States; k++ {
			c.State(fmt.Sprintf("%s/%d", sc.name, k))
		}
	})
	c.Set("scenarios", per)
	c.Sample(map[string]any{"scenario": "S1-two-early-one-late-dtls", "threads": "readLoop{Read p1,p2,(p3 after NewEndpoint returned)} || app{NewEndpoint(MatchDTLS)} || handlePendingPackets"})
}
