package webrtc

// The free-running race-detector pass of C40 is built from this directory as a PLAIN -race build
// (real sync package); its sources are shared with the controlled build through the fragment's "also" list.
